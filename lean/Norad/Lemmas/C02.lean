import Norad.Lemmas.C12
import Norad.Model.GlifWrite
/-! Helper lemmas for C02: element-level writer → parser round trips (Appendix F style), block-level `Reach`
lemmas, the object-lib dump/load inverse. Core Lean only. -/
namespace Glif

/-! ### attribute-name literals (simp normalises `"x".toList` to a character list) -/

@[simp] theorem gKeyOf_lit_name : gKeyOf ['n', 'a', 'm', 'e'] = some GKey.name := by decide
@[simp] theorem gKeyOf_lit_format : gKeyOf ['f', 'o', 'r', 'm', 'a', 't'] = some GKey.format := by decide
@[simp] theorem gKeyOf_lit_formatMinor : gKeyOf ['f', 'o', 'r', 'm', 'a', 't', 'M', 'i', 'n', 'o', 'r'] = some GKey.formatMinor := by decide
@[simp] theorem advKeyOf_lit_width : advKeyOf ['w', 'i', 'd', 't', 'h'] = some AdvKey.width := by decide
@[simp] theorem advKeyOf_lit_height : advKeyOf ['h', 'e', 'i', 'g', 'h', 't'] = some AdvKey.height := by decide
@[simp] theorem aKeyOf_lit_x : aKeyOf ['x'] = some AKey.x := by decide
@[simp] theorem aKeyOf_lit_y : aKeyOf ['y'] = some AKey.y := by decide
@[simp] theorem aKeyOf_lit_name : aKeyOf ['n', 'a', 'm', 'e'] = some AKey.name := by decide
@[simp] theorem aKeyOf_lit_color : aKeyOf ['c', 'o', 'l', 'o', 'r'] = some AKey.color := by decide
@[simp] theorem aKeyOf_lit_identifier : aKeyOf ['i', 'd', 'e', 'n', 't', 'i', 'f', 'i', 'e', 'r'] = some AKey.ident := by decide
@[simp] theorem guKeyOf_lit_x : guKeyOf ['x'] = some GuKey.x := by decide
@[simp] theorem guKeyOf_lit_y : guKeyOf ['y'] = some GuKey.y := by decide
@[simp] theorem guKeyOf_lit_angle : guKeyOf ['a', 'n', 'g', 'l', 'e'] = some GuKey.angle := by decide
@[simp] theorem guKeyOf_lit_name : guKeyOf ['n', 'a', 'm', 'e'] = some GuKey.name := by decide
@[simp] theorem guKeyOf_lit_color : guKeyOf ['c', 'o', 'l', 'o', 'r'] = some GuKey.color := by decide
@[simp] theorem guKeyOf_lit_identifier : guKeyOf ['i', 'd', 'e', 'n', 't', 'i', 'f', 'i', 'e', 'r'] = some GuKey.ident := by decide
@[simp] theorem tKeyOf_lit_xScale : tKeyOf ['x', 'S', 'c', 'a', 'l', 'e'] = some TKey.xScale := by decide
@[simp] theorem tKeyOf_lit_xyScale : tKeyOf ['x', 'y', 'S', 'c', 'a', 'l', 'e'] = some TKey.xyScale := by decide
@[simp] theorem tKeyOf_lit_yxScale : tKeyOf ['y', 'x', 'S', 'c', 'a', 'l', 'e'] = some TKey.yxScale := by decide
@[simp] theorem tKeyOf_lit_yScale : tKeyOf ['y', 'S', 'c', 'a', 'l', 'e'] = some TKey.yScale := by decide
@[simp] theorem tKeyOf_lit_xOffset : tKeyOf ['x', 'O', 'f', 'f', 's', 'e', 't'] = some TKey.xOffset := by decide
@[simp] theorem tKeyOf_lit_yOffset : tKeyOf ['y', 'O', 'f', 'f', 's', 'e', 't'] = some TKey.yOffset := by decide
@[simp] theorem pKeyOf_lit_x : pKeyOf ['x'] = some PKey.x := by decide
@[simp] theorem pKeyOf_lit_y : pKeyOf ['y'] = some PKey.y := by decide
@[simp] theorem pKeyOf_lit_name : pKeyOf ['n', 'a', 'm', 'e'] = some PKey.name := by decide
@[simp] theorem pKeyOf_lit_type : pKeyOf ['t', 'y', 'p', 'e'] = some PKey.typ := by decide
@[simp] theorem pKeyOf_lit_smooth : pKeyOf ['s', 'm', 'o', 'o', 't', 'h'] = some PKey.smooth := by decide
@[simp] theorem pKeyOf_lit_identifier : pKeyOf ['i', 'd', 'e', 'n', 't', 'i', 'f', 'i', 'e', 'r'] = some PKey.ident := by decide
@[simp] theorem iKeyOf_lit_xScale : iKeyOf ['x', 'S', 'c', 'a', 'l', 'e'] = some (IKey.t TKey.xScale) := by decide
@[simp] theorem cKeyOf_lit_xScale : cKeyOf ['x', 'S', 'c', 'a', 'l', 'e'] = some (CKey.t TKey.xScale) := by decide
@[simp] theorem iKeyOf_lit_xyScale : iKeyOf ['x', 'y', 'S', 'c', 'a', 'l', 'e'] = some (IKey.t TKey.xyScale) := by decide
@[simp] theorem cKeyOf_lit_xyScale : cKeyOf ['x', 'y', 'S', 'c', 'a', 'l', 'e'] = some (CKey.t TKey.xyScale) := by decide
@[simp] theorem iKeyOf_lit_yxScale : iKeyOf ['y', 'x', 'S', 'c', 'a', 'l', 'e'] = some (IKey.t TKey.yxScale) := by decide
@[simp] theorem cKeyOf_lit_yxScale : cKeyOf ['y', 'x', 'S', 'c', 'a', 'l', 'e'] = some (CKey.t TKey.yxScale) := by decide
@[simp] theorem iKeyOf_lit_yScale : iKeyOf ['y', 'S', 'c', 'a', 'l', 'e'] = some (IKey.t TKey.yScale) := by decide
@[simp] theorem cKeyOf_lit_yScale : cKeyOf ['y', 'S', 'c', 'a', 'l', 'e'] = some (CKey.t TKey.yScale) := by decide
@[simp] theorem iKeyOf_lit_xOffset : iKeyOf ['x', 'O', 'f', 'f', 's', 'e', 't'] = some (IKey.t TKey.xOffset) := by decide
@[simp] theorem cKeyOf_lit_xOffset : cKeyOf ['x', 'O', 'f', 'f', 's', 'e', 't'] = some (CKey.t TKey.xOffset) := by decide
@[simp] theorem iKeyOf_lit_yOffset : iKeyOf ['y', 'O', 'f', 'f', 's', 'e', 't'] = some (IKey.t TKey.yOffset) := by decide
@[simp] theorem cKeyOf_lit_yOffset : cKeyOf ['y', 'O', 'f', 'f', 's', 'e', 't'] = some (CKey.t TKey.yOffset) := by decide
@[simp] theorem iKeyOf_lit_color : iKeyOf ['c', 'o', 'l', 'o', 'r'] = some IKey.color := by decide
@[simp] theorem iKeyOf_lit_fileName : iKeyOf ['f', 'i', 'l', 'e', 'N', 'a', 'm', 'e'] = some IKey.fileName := by decide
@[simp] theorem cKeyOf_lit_base : cKeyOf ['b', 'a', 's', 'e'] = some CKey.base := by decide
@[simp] theorem cKeyOf_lit_identifier : cKeyOf ['i', 'd', 'e', 'n', 't', 'i', 'f', 'i', 'e', 'r'] = some CKey.ident := by decide
theorem sIdentifier_lit : sIdentifier = ['i', 'd', 'e', 'n', 't', 'i', 'f', 'i', 'e', 'r'] := by decide
theorem sHex_lit : sHex = ['h', 'e', 'x'] := by decide

/-! ### codec laws and validity -/

/-- what is assumed of Rust's number formatting/parsing and of the colour string, on the values `ok` -/
structure Codec (f : Fmt) (rd : Str → Option Nat) (nc : Color → Color) (ok : Nat → Prop) : Prop where
  num : ∀ b, ok b → rd (f.shw b) = some b
  col : ∀ c, readCol rd (showColor f c) = some (nc c)

theorem foldAttrs_nil' {σ : Type} (st : σ → Attr → Option σ) (acc : σ) : foldAttrs st acc [] = some acc := rfl
theorem foldAttrs_cons' {σ : Type} (st : σ → Attr → Option σ) (acc : σ) (a : Attr) (as : List Attr) :
    foldAttrs st acc (a :: as) = (st acc a).bind (fun acc' => foldAttrs st acc' as) := by
  simp only [foldAttrs]; cases st acc a <;> rfl

theorem readIdent_ok {seen : List Str} {i : Str} (h1 : i ∉ seen) (h2 : validIdent i = true) :
    readIdent 2 seen i = some i := by
  simp [readIdent, h1, h2]

section
variable {f : Fmt} {rd : Str → Option Nat} {nc : Color → Color} {ok : Nat → Prop}

structure ValidAnchor (ok : Nat → Prop) (seen : List Str) (a : Anchor) : Prop where
  x : ok a.x
  y : ok a.y
  name : ∀ n, a.name = some n → validName n = true
  ident : FreshId seen a.ident

/-- **anchor_roundtrip**: what `Anchor::to_event` writes, `parse_anchor` reads back (colour up to its string) -/
theorem anchor_roundtrip (hc : Codec f rd nc ok) {seen : List Str} {a : Anchor} (hv : ValidAnchor ok seen a) :
    parseAnchor rd 2 seen (anchorAttrs f a) =
      some { x := a.x, y := a.y, name := a.name, color := a.color.map nc, ident := a.ident } := by
  obtain ⟨x, y, name, color, ident, lib⟩ := a
  obtain ⟨hx, hy, hn, hi⟩ := hv
  simp only at hx hy hn hi
  have nx := hc.num _ hx
  have ny := hc.num _ hy
  have hid : ∀ i, ident = some i → readIdent 2 seen i = some i :=
    fun i h => readIdent_ok (hi i h).1 (hi i h).2
  unfold parseAnchor anchorAttrs
  cases name <;> cases color <;> cases ident <;>
    simp [optAttr, foldAttrs, aStep, aApply, nx, ny, aFinish, hc.col, hn, hid]

structure ValidGuideline (ok : Nat → Prop) (seen : List Str) (g : Guideline) : Prop where
  line : match g.line with
    | .vertical x => ok x
    | .horizontal y => ok y
    | .angle x y d => ok x ∧ ok y ∧ ok d ∧ angleOk d = true
  name : ∀ n, g.name = some n → validName n = true
  ident : FreshId seen g.ident

/-- **guideline_roundtrip** -/
theorem guideline_roundtrip (hc : Codec f rd nc ok) {seen : List Str} {g : Guideline} (hv : ValidGuideline ok seen g) :
    parseGuideline rd 2 seen (guidelineAttrs f g) =
      some { line := g.line, name := g.name, color := g.color.map nc, ident := g.ident } := by
  obtain ⟨line, name, color, ident, lib⟩ := g
  obtain ⟨hl, hn, hi⟩ := hv
  simp only at hl hn hi
  have hid : ∀ i, ident = some i → readIdent 2 seen i = some i :=
    fun i h => readIdent_ok (hi i h).1 (hi i h).2
  unfold parseGuideline guidelineAttrs
  cases line with
  | vertical x =>
    have nx := hc.num _ hl
    cases name <;> cases color <;> cases ident <;>
      simp [optAttr, lineAttrs, foldAttrs, guStep, guApply, nx, guFinish, hc.col, hn, hid]
  | horizontal y =>
    have ny := hc.num _ hl
    cases name <;> cases color <;> cases ident <;>
      simp [optAttr, lineAttrs, foldAttrs, guStep, guApply, ny, guFinish, hc.col, hn, hid]
  | angle x y d =>
    have nx := hc.num _ hl.1
    have ny := hc.num _ hl.2.1
    have nd := hc.num _ hl.2.2.1
    have ha := hl.2.2.2
    cases name <;> cases color <;> cases ident <;>
      simp [optAttr, lineAttrs, foldAttrs, guStep, guApply, nx, ny, nd, ha, guFinish, hc.col, hn, hid]

structure ValidPoint (ok : Nat → Prop) (seen : List Str) (p : Point) : Prop where
  x : ok p.x
  y : ok p.y
  name : ∀ n, p.name = some n → validName n = true
  ident : FreshId seen p.ident

@[simp] theorem readPointType_move : readPointType ['m', 'o', 'v', 'e'] = some .move := by decide
@[simp] theorem readPointType_line : readPointType ['l', 'i', 'n', 'e'] = some .line := by decide
@[simp] theorem readPointType_curve : readPointType ['c', 'u', 'r', 'v', 'e'] = some .curve := by decide
@[simp] theorem readPointType_qcurve : readPointType ['q', 'c', 'u', 'r', 'v', 'e'] = some .qcurve := by decide

/-- **point_roundtrip** -/
theorem point_roundtrip (hc : Codec f rd nc ok) {seen : List Str} {p : Point} (hv : ValidPoint ok seen p) :
    parsePoint rd 2 seen (pointAttrs f p) =
      some { x := p.x, y := p.y, typ := p.typ, smooth := p.smooth, name := p.name, ident := p.ident } := by
  obtain ⟨x, y, typ, smooth, name, ident, lib⟩ := p
  obtain ⟨hx, hy, hn, hi⟩ := hv
  simp only at hx hy hn hi
  have nx := hc.num _ hx
  have ny := hc.num _ hy
  have hid : ∀ i, ident = some i → readIdent 2 seen i = some i :=
    fun i h => readIdent_ok (hi i h).1 (hi i h).2
  unfold parsePoint pointAttrs
  cases name <;> cases typ <;> cases smooth <;> cases ident <;>
    simp [optAttr, pointTypeAttr, foldAttrs, pStep, pApply, nx, ny, pFinish, hn, hid]

/-! ### transforms -/

def OkT (ok : Nat → Prop) (t : Transform) : Prop :=
  ok t.xScale ∧ ok t.xyScale ∧ ok t.yxScale ∧ ok t.yScale ∧ ok t.xOffset ∧ ok t.yOffset

/-- what comes back of a transform: scales within 2^-52 of 1 are 1, offsets `-0` are `0` -/
def normT (t : Transform) : Transform :=
  { xScale := if farFromOne t.xScale then t.xScale else f64One
    xyScale := if nonZero t.xyScale then t.xyScale else 0
    yxScale := if nonZero t.yxScale then t.yxScale else 0
    yScale := if farFromOne t.yScale then t.yScale else f64One
    xOffset := if nonZero t.xOffset then t.xOffset else 0
    yOffset := if nonZero t.yOffset then t.yOffset else 0 }

theorem transform_fold_component (hc : Codec f rd nc ok) (seen : List Str) {t : Transform} (ht : OkT ok t)
    (b : Option Str) (i : Option Str) :
    foldAttrs (cStep rd 2 seen) { base := b, ident := i, transform := {} } (transformAttrs f t) =
      some { base := b, ident := i, transform := normT t } := by
  obtain ⟨h1, h2, h3, h4, h5, h6⟩ := ht
  have n1 := hc.num _ h1; have n2 := hc.num _ h2; have n3 := hc.num _ h3
  have n4 := hc.num _ h4; have n5 := hc.num _ h5; have n6 := hc.num _ h6
  unfold transformAttrs normT
  by_cases g1 : farFromOne t.xScale = true <;> by_cases g2 : nonZero t.xyScale = true <;>
  by_cases g3 : nonZero t.yxScale = true <;> by_cases g4 : farFromOne t.yScale = true <;>
  by_cases g5 : nonZero t.xOffset = true <;> by_cases g6 : nonZero t.yOffset = true <;>
    simp [g1, g2, g3, g4, g5, g6, foldAttrs, cStep, cApply, tSet, n1, n2, n3, n4, n5, n6]

theorem transform_fold_image (hc : Codec f rd nc ok) {t : Transform} (ht : OkT ok t)
    (fn : Option Str) (c : Option Color) :
    foldAttrs (iStep rd) { fileName := fn, color := c, transform := {} } (transformAttrs f t) =
      some { fileName := fn, color := c, transform := normT t } := by
  obtain ⟨h1, h2, h3, h4, h5, h6⟩ := ht
  have n1 := hc.num _ h1; have n2 := hc.num _ h2; have n3 := hc.num _ h3
  have n4 := hc.num _ h4; have n5 := hc.num _ h5; have n6 := hc.num _ h6
  unfold transformAttrs normT
  by_cases g1 : farFromOne t.xScale = true <;> by_cases g2 : nonZero t.xyScale = true <;>
  by_cases g3 : nonZero t.yxScale = true <;> by_cases g4 : farFromOne t.yScale = true <;>
  by_cases g5 : nonZero t.xOffset = true <;> by_cases g6 : nonZero t.yOffset = true <;>
    simp [g1, g2, g3, g4, g5, g6, foldAttrs, iStep, iApply, tSet, n1, n2, n3, n4, n5, n6]

structure ValidComponent (ok : Nat → Prop) (seen : List Str) (k : Component) : Prop where
  base : validName k.base = true
  transform : OkT ok k.transform
  ident : FreshId seen k.ident

/-- **component_roundtrip** -/
theorem component_roundtrip (hc : Codec f rd nc ok) {seen : List Str} {k : Component} (hv : ValidComponent ok seen k) :
    parseComponent rd 2 seen (componentAttrs f k) =
      some { base := k.base, transform := normT k.transform, ident := k.ident } := by
  obtain ⟨base, transform, ident, lib⟩ := k
  obtain ⟨hb, ht, hi⟩ := hv
  simp only at hb ht hi
  have hid : ∀ i, ident = some i → readIdent 2 seen i = some i :=
    fun i h => readIdent_ok (hi i h).1 (hi i h).2
  unfold parseComponent componentAttrs
  rw [foldAttrs_append, foldAttrs_append]
  have e1 : foldAttrs (cStep rd 2 seen) {} [("base".toList, base)] =
      some { base := some base, ident := none, transform := {} } := by
    simp [foldAttrs, cStep, cApply, hb]
  rw [e1]
  simp only [Option.bind_some, transform_fold_component hc seen ht]
  cases ident <;> simp [optAttr, foldAttrs, cStep, cApply, cFinish, hid]

structure ValidImage (ok : Nat → Prop) (i : Image) : Prop where
  name : imageNameOk i.fileName = true
  transform : OkT ok i.transform

/-- **image_roundtrip** -/
theorem image_roundtrip (hc : Codec f rd nc ok) {i : Image} (hv : ValidImage ok i) :
    parseImage rd (imageAttrs f i) =
      some { fileName := i.fileName, color := i.color.map nc, transform := normT i.transform } := by
  obtain ⟨fileName, color, transform⟩ := i
  obtain ⟨hn, ht⟩ := hv
  simp only at hn ht
  unfold parseImage imageAttrs
  rw [foldAttrs_append, foldAttrs_append]
  have e1 : foldAttrs (iStep rd) {} [("fileName".toList, fileName)] =
      some { fileName := some fileName, color := none, transform := {} } := by
    simp [foldAttrs, iStep, iApply]
  rw [e1]
  simp only [Option.bind_some, transform_fold_image hc ht]
  cases color <;> simp [optAttr, foldAttrs, iStep, iApply, iFinish, hn, hc.col]

/-- **advance_roundtrip**: a value that is written comes back; `±0` is not written and comes back as `0` -/
theorem advance_roundtrip (hc : Codec f rd nc ok) {w h : Nat} (hw : ok w) (hh : ok h) :
    parseAdvance rd (advanceAttrs f w h) =
      some (if nonZero w then w else 0, if nonZero h then h else 0) := by
  have nw := hc.num _ hw
  have nh := hc.num _ hh
  unfold parseAdvance advanceAttrs
  by_cases g1 : nonZero h = true <;> by_cases g2 : nonZero w = true <;>
    simp [g1, g2, foldAttrs, advStep, advApply, nw, nh]

/-- the `contour` start tag -/
theorem contourAttrs_roundtrip {seen : List Str} {cid : Option Str} (hi : FreshId seen cid) :
    parseContourAttrs 2 seen (optAttr "identifier" cid) = some cid := by
  cases cid with
  | none => simp [parseContourAttrs, optAttr, foldAttrs]
  | some i =>
    have := readIdent_ok (hi i rfl).1 (hi i rfl).2
    simp [parseContourAttrs, optAttr, foldAttrs, ctStep, sIdentifier_lit, this]

/-- the `glyph` start tag the writer produces -/
theorem glyphAttrs_roundtrip {name : Str} (hn : validName name = true) :
    parseGlyphAttrs (some [("name".toList, name), ("format".toList, ['2'])]) = .ok (name, 2) := by
  have : parseU32 10 ['2'] = some 2 := by decide
  simp [parseGlyphAttrs, foldAttrs, gStep, gApply, hn, this, gFinish]

/-! ### code points: `{:04X}` reads back -/

theorem digitVal_hexDigitU : ∀ d, d < 16 → digitVal 16 (hexDigitU d) = some d := by decide

theorem digitsVal_hexUpper : ∀ (fuel n : Nat) (acc : Str), n < 16 ^ fuel →
    ∃ k, ∀ a, digitsVal 16 (hexUpper fuel n acc) a = digitsVal 16 acc (a * 16 ^ k + n) := by
  intro fuel
  induction fuel with
  | zero =>
    intro n acc hn
    have : n = 0 := by simpa using hn
    subst this
    exact ⟨0, fun a => by simp [hexUpper]⟩
  | succ fuel ih =>
    intro n acc hn
    by_cases h0 : n = 0
    · subst h0
      exact ⟨0, fun a => by simp [hexUpper]⟩
    · have hq : n / 16 < 16 ^ fuel := by
        rw [Nat.pow_succ] at hn
        omega
      obtain ⟨k, hk⟩ := ih (n / 16) (hexDigitU (n % 16) :: acc) hq
      refine ⟨k + 1, fun a => ?_⟩
      have hd := digitVal_hexDigitU (n % 16) (Nat.mod_lt _ (by decide))
      simp only [hexUpper, h0, if_false, hk, digitsVal, hd]
      congr 1
      rw [Nat.add_mul, Nat.pow_succ, Nat.mul_assoc]
      omega

theorem digitsVal_zeros (k : Nat) (l : Str) : digitsVal 16 (List.replicate k '0' ++ l) 0 = digitsVal 16 l 0 := by
  induction k with
  | zero => rfl
  | succ k ih =>
    have : digitVal 16 '0' = some 0 := by decide
    simp [List.replicate_succ, digitsVal, this, ih]

theorem parseU32_of_digits {s : Str} {n : Nat} (hd : digitsVal 16 s 0 = some n) (hne : s ≠ [])
    (hn : n ≤ 4294967295) : parseU32 16 s = some n := by
  cases s with
  | nil => exact absurd rfl hne
  | cons c r =>
    have hc : c ≠ '+' := by
      intro h
      subst h
      have : digitVal 16 '+' = none := by decide
      simp [digitsVal, this] at hd
    unfold parseU32
    dsimp only
    split
    · rename_i heq; cases heq; exact absurd rfl hc
    · simp [hd, hn]

theorem showCodepoint_ne_nil (c : Nat) : showCodepoint c ≠ [] := by
  unfold showCodepoint
  intro h
  simp only at h
  have h' := congrArg List.length h
  simp only [List.length_append, List.length_replicate, List.length_nil] at h'
  omega

/-- `u32::from_str_radix(format!("{:04X}", c), 16)` then `char::try_from` gives `c` back, for a Unicode scalar value -/
theorem parseHex_showCodepoint {c : Nat} (h1 : c ≤ 0x10FFFF) (h2 : ¬(0xD800 ≤ c ∧ c ≤ 0xDFFF)) :
    parseHex (showCodepoint c) = some c := by
  have hlt : c < 16 ^ 8 := by
    have : (16 : Nat) ^ 8 = 4294967296 := by decide
    omega
  obtain ⟨k, hk⟩ := digitsVal_hexUpper 8 c [] hlt
  have hd : digitsVal 16 (showCodepoint c) 0 = some c := by
    unfold showCodepoint
    simp only [digitsVal_zeros, hk, digitsVal]
    simp
  have hp := parseU32_of_digits hd (showCodepoint_ne_nil c) (by omega)
  unfold parseHex
  simp only [hp]
  have : (decide (c ≤ 0x10FFFF) && !(decide (0xD800 ≤ c) && decide (c ≤ 0xDFFF))) = true := by
    simp only [Bool.and_eq_true, decide_eq_true_eq, Bool.not_eq_true', Bool.and_eq_false_iff, decide_eq_false_iff_not]
    refine ⟨h1, ?_⟩
    by_cases h : 0xD800 ≤ c
    · right; intro h3; exact h2 ⟨h, h3⟩
    · left; exact h
  simp only [this, if_true]

def ValidCodepoint (c : Nat) : Prop := c ≤ 0x10FFFF ∧ ¬(0xD800 ≤ c ∧ c ≤ 0xDFFF)

/-- **unicode_roundtrip** -/
theorem unicode_roundtrip {cps : List Nat} {c : Nat} (hc : ValidCodepoint c) :
    parseUnicode cps [(sHex, showCodepoint c)] = some (cpInsert cps c) := by
  simp [parseUnicode, foldAttrs, uniStep, parseHex_showCodepoint hc.1 hc.2]
end

/-! ## block-level reachability -/

section
variable {f : Fmt} {rd : Str → Option Nat} {nc : Color → Color} {ok : Nat → Prop}

theorem Reach.cast {s s' s'' : PS} {evs : List Ev} (h : Reach rd s evs s') (e : s' = s'') : Reach rd s evs s'' := e ▸ h

theorem Reach.append {s s' s'' : PS} {e₁ e₂ : List Ev} (h₁ : Reach rd s e₁ s') (h₂ : Reach rd s' e₂ s'') :
    Reach rd s (e₁ ++ e₂) s'' := by
  induction h₁ with
  | nil s => exact h₂
  | cons hs _ ih => exact Reach.cons hs (ih h₂)

theorem Reach.one {s s' : PS} {e : Ev} (h : step rd s e = .ok (.inl s')) : Reach rd s [e] s' :=
  Reach.cons h (Reach.nil s')

/-- identifiers recorded so far, newest first -/
def pushIds (seen : List Str) (ids : List Str) : List Str := ids.foldl (fun sn i => i :: sn) seen

theorem pushIds_nil (seen : List Str) : pushIds seen [] = seen := rfl
theorem pushIds_cons (seen : List Str) (i : Str) (r : List Str) : pushIds seen (i :: r) = pushIds (i :: seen) r := rfl
theorem pushIds_append (seen a b : List Str) : pushIds seen (a ++ b) = pushIds (pushIds seen a) b := by
  simp [pushIds, List.foldl_append]
theorem mem_pushIds {seen ids : List Str} {i : Str} : i ∈ pushIds seen ids ↔ i ∈ ids ∨ i ∈ seen := by
  induction ids generalizing seen with
  | nil => simp [pushIds]
  | cons j r ih =>
    rw [pushIds_cons, ih]
    simp only [List.mem_cons]
    constructor
    · rintro (h | h | h)
      · exact Or.inl (Or.inr h)
      · exact Or.inl (Or.inl h)
      · exact Or.inr h
    · rintro ((h | h) | h)
      · exact Or.inr (Or.inl h)
      · exact Or.inl h
      · exact Or.inr (Or.inr h)
theorem addSeen_eq (seen : List Str) (o : Option Str) : addSeen seen o = pushIds seen o.toList := by
  cases o <;> rfl

/-! ### anchors -/

structure AnchorOK (ok : Nat → Prop) (a : Anchor) : Prop where
  x : ok a.x
  y : ok a.y
  name : ∀ n, a.name = some n → validName n = true
  ident : ∀ i, a.ident = some i → validIdent i = true

/-- the anchor as the parser builds it (the lib is attached later, from `public.objectLibs`) -/
def pAnchor (nc : Color → Color) (a : Anchor) : Anchor :=
  { x := a.x, y := a.y, name := a.name, color := a.color.map nc, ident := a.ident }

theorem step_anchor (hc : Codec f rd nc ok) {s : PS} (hm : s.mode = .body) (hv : s.ver = 2) {a : Anchor}
    (ha : AnchorOK ok a) (hf : ∀ i, a.ident = some i → i ∉ s.seen) :
    step rd s (anchorEv f a) = .ok (.inl
      { s with
        seen := pushIds s.seen a.ident.toList
        g := { s.g with anchors := s.g.anchors ++ [pAnchor nc a] } }) := by
  have hv' : ValidAnchor ok s.seen a := ⟨ha.x, ha.y, ha.name, fun i hi => ⟨hf i hi, ha.ident i hi⟩⟩
  have hp := anchor_roundtrip hc hv'
  simp +decide [step, hm, stepBody, anchorEv, bodyEmpty, hv, hp, cont, addSeen_eq, pAnchor]

theorem reach_anchors (hc : Codec f rd nc ok) : ∀ (as : List Anchor) (s : PS), s.mode = .body → s.ver = 2 →
    (∀ a, a ∈ as → AnchorOK ok a) → (as.filterMap (·.ident)).Nodup →
    (∀ i, i ∈ as.filterMap (·.ident) → i ∉ s.seen) →
    Reach rd s (as.map (anchorEv f))
      { s with
        seen := pushIds s.seen (as.filterMap (·.ident))
        g := { s.g with anchors := s.g.anchors ++ as.map (pAnchor nc) } } := by
  intro as
  induction as with
  | nil => intro s _ _ _ _ _; exact (Reach.nil s).cast (by simp [pushIds_nil])
  | cons a r ih =>
    intro s hm hv hok hnd hfr
    have hida : ∀ i, a.ident = some i → i ∉ s.seen := fun i hi => hfr i (by simp [List.filterMap_cons, hi])
    have h1 := step_anchor hc hm hv (hok a List.mem_cons_self) hida
    have hnd' : (r.filterMap (·.ident)).Nodup := by
      cases hi : a.ident <;> simp [List.filterMap_cons, hi] at hnd <;> first | exact hnd | exact hnd.2
    have h2 := ih { s with
        seen := pushIds s.seen a.ident.toList
        g := { s.g with anchors := s.g.anchors ++ [pAnchor nc a] } } hm hv (fun b hb => hok b (List.mem_cons_of_mem _ hb)) hnd' (by
      intro i hi
      simp only [mem_pushIds, not_or]
      refine ⟨?_, hfr i (by cases hia : a.ident <;> simp [List.filterMap_cons, hia, hi])⟩
      cases hia : a.ident with
      | none => simp
      | some j =>
        have hnd2 : (j :: r.filterMap (·.ident)).Nodup := by simpa [List.filterMap_cons, hia] using hnd
        simp only [Option.toList, List.mem_singleton]
        intro e; subst e
        exact (List.nodup_cons.1 hnd2).1 hi)
    refine (Reach.cons h1 h2).cast ?_
    cases hia : a.ident <;> simp [List.filterMap_cons, hia, pushIds_cons, pushIds_nil, List.append_assoc]

/-! ### freshness bookkeeping -/

theorem fresh_split {o : Option Str} {ids seen : List Str} (hnd : (o.toList ++ ids).Nodup)
    (hfr : ∀ i, i ∈ o.toList ++ ids → i ∉ seen) :
    (∀ i, o = some i → i ∉ seen) ∧ ids.Nodup ∧ (∀ i, i ∈ ids → i ∉ pushIds seen o.toList) := by
  refine ⟨fun i hi => hfr i (by simp [hi]), ?_, ?_⟩
  · exact (List.nodup_append.1 hnd).2.1
  · intro i hi
    simp only [mem_pushIds, not_or]
    refine ⟨?_, hfr i (by simp [hi])⟩
    intro h
    exact (List.nodup_append.1 hnd).2.2 i h i hi rfl

theorem fresh_append {a b seen : List Str} (hnd : (a ++ b).Nodup) (hfr : ∀ i, i ∈ a ++ b → i ∉ seen) :
    a.Nodup ∧ (∀ i, i ∈ a → i ∉ seen) ∧ b.Nodup ∧ (∀ i, i ∈ b → i ∉ pushIds seen a) := by
  obtain ⟨h1, h2, h3⟩ := List.nodup_append.1 hnd
  refine ⟨h1, fun i hi => hfr i (by simp [hi]), h2, ?_⟩
  intro i hi
  simp only [mem_pushIds, not_or]
  exact ⟨fun h => h3 i h i hi rfl, hfr i (by simp [hi])⟩

theorem filterMap_ident_cons {α : Type} (id : α → Option Str) (a : α) (r : List α) :
    (a :: r).filterMap id = (id a).toList ++ r.filterMap id := by
  cases h : id a <;> simp [List.filterMap_cons, h]

/-! ### guidelines -/

structure GuidelineOK (ok : Nat → Prop) (g : Guideline) : Prop where
  line : match g.line with
    | .vertical x => ok x
    | .horizontal y => ok y
    | .angle x y d => ok x ∧ ok y ∧ ok d ∧ angleOk d = true
  name : ∀ n, g.name = some n → validName n = true
  ident : ∀ i, g.ident = some i → validIdent i = true

def pGuideline (nc : Color → Color) (g : Guideline) : Guideline :=
  { line := g.line, name := g.name, color := g.color.map nc, ident := g.ident }

theorem step_guideline (hc : Codec f rd nc ok) {s : PS} (hm : s.mode = .body) (hv : s.ver = 2) {a : Guideline}
    (ha : GuidelineOK ok a) (hf : ∀ i, a.ident = some i → i ∉ s.seen) :
    step rd s (guidelineEv f a) = .ok (.inl
      { s with
        seen := pushIds s.seen a.ident.toList
        g := { s.g with guidelines := s.g.guidelines ++ [pGuideline nc a] } }) := by
  have hv' : ValidGuideline ok s.seen a := ⟨ha.line, ha.name, fun i hi => ⟨hf i hi, ha.ident i hi⟩⟩
  have hp := guideline_roundtrip hc hv'
  simp +decide [step, hm, stepBody, guidelineEv, bodyEmpty, hv, hp, cont, addSeen_eq, pGuideline]

theorem reach_guidelines (hc : Codec f rd nc ok) : ∀ (as : List Guideline) (s : PS), s.mode = .body → s.ver = 2 →
    (∀ a, a ∈ as → GuidelineOK ok a) → (as.filterMap (·.ident)).Nodup →
    (∀ i, i ∈ as.filterMap (·.ident) → i ∉ s.seen) →
    Reach rd s (as.map (guidelineEv f))
      { s with
        seen := pushIds s.seen (as.filterMap (·.ident))
        g := { s.g with guidelines := s.g.guidelines ++ as.map (pGuideline nc) } } := by
  intro as
  induction as with
  | nil => intro s _ _ _ _ _; exact (Reach.nil s).cast (by simp [pushIds_nil])
  | cons a r ih =>
    intro s hm hv hok hnd hfr
    rw [filterMap_ident_cons] at hnd hfr
    obtain ⟨f1, f2, f3⟩ := fresh_split hnd hfr
    have h1 := step_guideline hc hm hv (hok a List.mem_cons_self) f1
    have h2 := ih { s with
        seen := pushIds s.seen a.ident.toList
        g := { s.g with guidelines := s.g.guidelines ++ [pGuideline nc a] } } hm hv
      (fun b hb => hok b (List.mem_cons_of_mem _ hb)) f2 f3
    refine (Reach.cons h1 h2).cast ?_
    simp [filterMap_ident_cons, pushIds_append, List.append_assoc]

/-! ### code points, advance, image, lib, note -/

theorem reach_unicodes : ∀ (cs : List Nat) (s : PS), s.mode = .body → (∀ c, c ∈ cs → ValidCodepoint c) →
    Reach rd s (cs.map (fun c => Ev.empty sUnicode (some [(sHex, showCodepoint c)])))
      { s with g := { s.g with codepoints := cs.foldl cpInsert s.g.codepoints } } := by
  intro cs
  induction cs with
  | nil => intro s _ _; exact (Reach.nil s).cast (by simp)
  | cons c r ih =>
    intro s hm hok
    have hp := unicode_roundtrip (cps := s.g.codepoints) (hok c List.mem_cons_self)
    have h1 : step rd s (Ev.empty sUnicode (some [(sHex, showCodepoint c)])) =
        .ok (.inl { s with g := { s.g with codepoints := cpInsert s.g.codepoints c } }) := by
      simp +decide [step, hm, stepBody, bodyEmpty, hp, cont]
    have h2 := ih { s with g := { s.g with codepoints := cpInsert s.g.codepoints c } } hm
      (fun b hb => hok b (List.mem_cons_of_mem _ hb))
    exact (Reach.cons h1 h2).cast (by simp [List.foldl_cons])

theorem step_advance (hc : Codec f rd nc ok) {s : PS} (hm : s.mode = .body) (hs : s.seenAdvance = false)
    {w h : Nat} (hw : ok w) (hh : ok h) :
    step rd s (.empty sAdvance (some (advanceAttrs f w h))) = .ok (.inl
      { s with
        seenAdvance := true
        g := { s.g with width := (if nonZero w then w else 0), height := (if nonZero h then h else 0) } }) := by
  have hp := advance_roundtrip hc hw hh
  simp +decide [step, hm, stepBody, bodyEmpty, hs, hp, cont]

def pImage (nc : Color → Color) (i : Image) : Image :=
  { fileName := i.fileName, color := i.color.map nc, transform := normT i.transform }

theorem step_image (hc : Codec f rd nc ok) {s : PS} (hm : s.mode = .body) (hv : s.ver = 2)
    (hs : s.g.image = none) {i : Image} (hi : ValidImage ok i) :
    step rd s (imageEv f i) = .ok (.inl { s with g := { s.g with image := some (pImage nc i) } }) := by
  have hp := image_roundtrip hc hi
  simp +decide [step, hm, stepBody, imageEv, bodyEmpty, hv, hs, hp, cont, pImage]

theorem reach_lib {s : PS} (hm : s.mode = .body) (hs : s.seenLib = false) (d : Dict) :
    Reach rd s [.startLib (some []) (.dict d), .close sLib]
      { s with
        seenLib := true
        g := { s.g with lib := d } } := by
  refine Reach.cons (s' := { s with seenLib := true, mode := .lib (.dict d) }) ?_ (Reach.one ?_)
  · simp [step, hm, stepBody, hs, cont]
  · simp [step, stepLib, cont, hm]

theorem reach_note {s : PS} (hm : s.mode = .body) (hv : s.ver = 2) (hs : s.g.note = none) {t : Str} (ht : t ≠ []) :
    Reach rd s (.start sNote (some []) :: ((if t.isEmpty then [] else [.text (some t)]) ++ [.close sNote]))
      { s with g := { s.g with note := some t } } := by
  have hte : t.isEmpty = false := by cases t <;> simp_all
  simp only [hte, List.cons_append, List.nil_append]
  refine Reach.cons (s' := { s with mode := .note }) ?_
    (Reach.cons (s' := { s with mode := .note, g := { s.g with note := some t } }) ?_ (Reach.one ?_))
  · simp +decide [step, hm, stepBody, bodyStart, hv, hs, cont]
  · simp [step, stepNote, cont]
  · simp [step, stepNote, cont, hm]

/-! ### outline: components, points, contours -/

structure ComponentOK (ok : Nat → Prop) (k : Component) : Prop where
  base : validName k.base = true
  transform : OkT ok k.transform
  ident : ∀ i, k.ident = some i → validIdent i = true

def pComponent (k : Component) : Component :=
  { base := k.base, transform := normT k.transform, ident := k.ident }

theorem step_component (hc : Codec f rd nc ok) {s : PS} {ob : OB} (hm : s.mode = .outline ob) (hv : s.ver = 2)
    {a : Component} (ha : ComponentOK ok a) (hf : ∀ i, a.ident = some i → i ∉ s.seen) :
    step rd s (componentEv f a) = .ok (.inl
      { s with
        seen := pushIds s.seen a.ident.toList
        mode := .outline { ob with components := ob.components ++ [pComponent a] } }) := by
  have hv' : ValidComponent ok s.seen a := ⟨ha.base, ha.transform, fun i hi => ⟨hf i hi, ha.ident i hi⟩⟩
  have hp := component_roundtrip hc hv'
  simp +decide [step, hm, stepOutline, componentEv, hv, hp, cont, addSeen_eq, pComponent]

theorem reach_components (hc : Codec f rd nc ok) : ∀ (as : List Component) (s : PS) (ob : OB),
    s.mode = .outline ob → s.ver = 2 →
    (∀ a, a ∈ as → ComponentOK ok a) → (as.filterMap (·.ident)).Nodup →
    (∀ i, i ∈ as.filterMap (·.ident) → i ∉ s.seen) →
    Reach rd s (as.map (componentEv f))
      { s with
        seen := pushIds s.seen (as.filterMap (·.ident))
        mode := .outline { ob with components := ob.components ++ as.map pComponent } } := by
  intro as
  induction as with
  | nil => intro s ob hm _ _ _ _; exact (Reach.nil s).cast (by cases s; simp_all [pushIds_nil])
  | cons a r ih =>
    intro s ob hm hv hok hnd hfr
    rw [filterMap_ident_cons] at hnd hfr
    obtain ⟨f1, f2, f3⟩ := fresh_split hnd hfr
    have h1 := step_component hc hm hv (hok a List.mem_cons_self) f1
    have h2 := ih { s with
        seen := pushIds s.seen a.ident.toList
        mode := .outline { ob with components := ob.components ++ [pComponent a] } }
      { ob with components := ob.components ++ [pComponent a] } rfl hv
      (fun b hb => hok b (List.mem_cons_of_mem _ hb)) f2 f3
    refine (Reach.cons h1 h2).cast ?_
    simp [filterMap_ident_cons, pushIds_append, List.append_assoc]

structure PointOK (ok : Nat → Prop) (p : Point) : Prop where
  x : ok p.x
  y : ok p.y
  name : ∀ n, p.name = some n → validName n = true
  ident : ∀ i, p.ident = some i → validIdent i = true

def pPoint (p : Point) : Point :=
  { x := p.x, y := p.y, typ := p.typ, smooth := p.smooth, name := p.name, ident := p.ident }

theorem step_point (hc : Codec f rd nc ok) {s : PS} {ob : OB} {cid : Option Str} {pts : List Point}
    (hm : s.mode = .contour ob cid pts) (hv : s.ver = 2)
    {a : Point} (ha : PointOK ok a) (hf : ∀ i, a.ident = some i → i ∉ s.seen) :
    step rd s (pointEv f a) = .ok (.inl
      { s with
        seen := pushIds s.seen a.ident.toList
        mode := .contour ob cid (pts ++ [pPoint a]) }) := by
  have hv' : ValidPoint ok s.seen a := ⟨ha.x, ha.y, ha.name, fun i hi => ⟨hf i hi, ha.ident i hi⟩⟩
  have hp := point_roundtrip hc hv'
  simp +decide [step, hm, stepContour, pointEv, hv, hp, cont, addSeen_eq, pPoint]

theorem reach_points (hc : Codec f rd nc ok) : ∀ (as : List Point) (s : PS) (ob : OB) (cid : Option Str) (pts : List Point),
    s.mode = .contour ob cid pts → s.ver = 2 →
    (∀ a, a ∈ as → PointOK ok a) → (as.filterMap (·.ident)).Nodup →
    (∀ i, i ∈ as.filterMap (·.ident) → i ∉ s.seen) →
    Reach rd s (as.map (pointEv f))
      { s with
        seen := pushIds s.seen (as.filterMap (·.ident))
        mode := .contour ob cid (pts ++ as.map pPoint) } := by
  intro as
  induction as with
  | nil => intro s ob cid pts hm _ _ _ _; exact (Reach.nil s).cast (by cases s; simp_all [pushIds_nil])
  | cons a r ih =>
    intro s ob cid pts hm hv hok hnd hfr
    rw [filterMap_ident_cons] at hnd hfr
    obtain ⟨f1, f2, f3⟩ := fresh_split hnd hfr
    have h1 := step_point hc hm hv (hok a List.mem_cons_self) f1
    have h2 := ih { s with
        seen := pushIds s.seen a.ident.toList
        mode := .contour ob cid (pts ++ [pPoint a]) } ob cid (pts ++ [pPoint a]) rfl hv
      (fun b hb => hok b (List.mem_cons_of_mem _ hb)) f2 f3
    refine (Reach.cons h1 h2).cast ?_
    simp [filterMap_ident_cons, pushIds_append, List.append_assoc]

structure ContourOK' (ok : Nat → Prop) (c : Contour) : Prop where
  points : ∀ p, p ∈ c.points → PointOK ok p
  legal : C11.accepts (c.points.map toPt) = true
  ident : ∀ i, c.ident = some i → validIdent i = true

def pContour (c : Contour) : Contour := { points := c.points.map pPoint, ident := c.ident }

/-- the contours that come back: those with points, as the parser builds them (a contour without points is written as
    `<contour></contour>` and dropped by `end_path`) -/
def keepContours (cs : List Contour) : List Contour := (cs.filter (fun c => !c.points.isEmpty)).map pContour

theorem keepContours_cons (c : Contour) (r : List Contour) :
    keepContours (c :: r) = keepContours [c] ++ keepContours r := by
  cases h : c.points.isEmpty <;> simp [keepContours, List.filter_cons, h]

theorem keepContours_of_nonempty {cs : List Contour} (h : ∀ c, c ∈ cs → c.points ≠ []) : keepContours cs = cs.map pContour := by
  unfold keepContours
  rw [List.filter_eq_self.2]
  intro c hc
  have := h c hc
  cases hp : c.points with
  | nil => exact absurd hp this
  | cons _ _ => simp

theorem toPt_pPoint (ps : List Point) : (ps.map pPoint).map toPt = ps.map toPt := by
  simp [List.map_map, Function.comp_def, toPt, pPoint]

theorem toPt_comp_pPoint : toPt ∘ pPoint = toPt := by funext p; simp [toPt, pPoint]

theorem reach_contour (hc : Codec f rd nc ok) {s : PS} {ob : OB} (hm : s.mode = .outline ob) (hv : s.ver = 2)
    {c : Contour} (hok : ContourOK' ok c) (hnd : (cIds c).Nodup) (hfr : ∀ i, i ∈ cIds c → i ∉ s.seen) :
    Reach rd s (contourEvs f c)
      { s with
        seen := pushIds s.seen (cIds c)
        mode := .outline { ob with contours := ob.contours ++ keepContours [c] } } := by
  unfold cIds at hnd hfr
  obtain ⟨f1, f2, f3⟩ := fresh_split hnd hfr
  have hcid := contourAttrs_roundtrip (seen := s.seen) (cid := c.ident) (fun i hi => ⟨f1 i hi, hok.ident i hi⟩)
  have h1 : step rd s (.start sContour (some (optAttr "identifier" c.ident))) = .ok (.inl
      { s with
        seen := pushIds s.seen c.ident.toList
        mode := .contour ob c.ident [] }) := by
    simp +decide [step, hm, stepOutline, hv, hcid, cont, addSeen_eq]
  have h2 := reach_points hc c.points { s with
        seen := pushIds s.seen c.ident.toList
        mode := .contour ob c.ident [] } ob c.ident [] rfl hv hok.points f2 f3
  have h3 : step rd { s with
        seen := pushIds (pushIds s.seen c.ident.toList) (c.points.filterMap (·.ident))
        mode := .contour ob c.ident ([] ++ c.points.map pPoint) } (.close sContour) = .ok (.inl
      { s with
        seen := pushIds (pushIds s.seen c.ident.toList) (c.points.filterMap (·.ident))
        mode := .outline { ob with contours := ob.contours ++ keepContours [c] } }) := by
    cases hp : c.points with
    | nil =>
      have hl := hok.legal
      rw [hp] at hl
      have ha : C11.accepts [] = true := by decide
      simp [step, stepContour, ha, cont, keepContours, hp]
    | cons p r =>
      have hl := hok.legal
      rw [hp] at hl
      simp only [List.map_cons] at hl
      have e : toPt (pPoint p) = toPt p := rfl
      simp [step, stepContour, toPt_comp_pPoint, e, hl, cont, pContour, keepContours, hp]
  unfold contourEvs
  refine (Reach.cons h1 (Reach.append h2 (Reach.one h3))).cast ?_
  simp [cIds, pushIds_append]

theorem reach_contours (hc : Codec f rd nc ok) : ∀ (cs : List Contour) (s : PS) (ob : OB),
    s.mode = .outline ob → s.ver = 2 →
    (∀ c, c ∈ cs → ContourOK' ok c) → (cs.flatMap cIds).Nodup →
    (∀ i, i ∈ cs.flatMap cIds → i ∉ s.seen) →
    Reach rd s (cs.flatMap (contourEvs f))
      { s with
        seen := pushIds s.seen (cs.flatMap cIds)
        mode := .outline { ob with contours := ob.contours ++ keepContours cs } } := by
  intro cs
  induction cs with
  | nil => intro s ob hm _ _ _ _; exact (Reach.nil s).cast (by cases s; simp_all [pushIds_nil, keepContours])
  | cons c r ih =>
    intro s ob hm hv hok hnd hfr
    rw [List.flatMap_cons] at hnd hfr
    obtain ⟨f1, f2, f3, f4⟩ := fresh_append hnd hfr
    have h1 := reach_contour hc hm hv (hok c List.mem_cons_self) f1 f2
    have h2 := ih { s with
        seen := pushIds s.seen (cIds c)
        mode := .outline { ob with contours := ob.contours ++ keepContours [c] } }
      { ob with contours := ob.contours ++ keepContours [c] } rfl hv
      (fun b hb => hok b (List.mem_cons_of_mem _ hb)) f3 f4
    rw [List.flatMap_cons]
    refine (Reach.append h1 h2).cast ?_
    simp [List.flatMap_cons, pushIds_append, List.append_assoc, keepContours_cons c r]
theorem reach_outline (hc : Codec f rd nc ok) {s : PS} (hm : s.mode = .body) (hv : s.ver = 2)
    (hs : s.seenOutline = false) (cs : List Contour) (ks : List Component)
    (hcs : ∀ c, c ∈ cs → ContourOK' ok c) (hks : ∀ k, k ∈ ks → ComponentOK ok k)
    (hnd : (cs.flatMap cIds ++ ks.filterMap (·.ident)).Nodup)
    (hfr : ∀ i, i ∈ cs.flatMap cIds ++ ks.filterMap (·.ident) → i ∉ s.seen) :
    Reach rd s (if !cs.isEmpty || !ks.isEmpty then
        .start sOutline (some []) :: (cs.flatMap (contourEvs f) ++ ks.map (componentEv f) ++ [.close sOutline])
      else [])
      { s with
        seenOutline := (!cs.isEmpty || !ks.isEmpty)
        seen := pushIds s.seen (cs.flatMap cIds ++ ks.filterMap (·.ident))
        g := { s.g with contours := s.g.contours ++ keepContours cs, components := s.g.components ++ ks.map pComponent } } := by
  by_cases hcond : (!cs.isEmpty || !ks.isEmpty) = true
  · simp only [hcond, if_true]
    obtain ⟨f1, f2, f3, f4⟩ := fresh_append hnd hfr
    have h1 : step rd s (.start sOutline (some [])) = .ok (.inl { s with seenOutline := true, mode := .outline {} }) := by
      simp [step, hm, stepBody, bodyStart, hs, cont]
    have h2 := reach_contours hc cs { s with seenOutline := true, mode := .outline {} } {} rfl hv hcs f1 f2
    have h3 := reach_components hc ks { s with
        seenOutline := true
        seen := pushIds s.seen (cs.flatMap cIds)
        mode := .outline { contours := [] ++ keepContours cs, components := [] } }
      { contours := [] ++ keepContours cs, components := [] } rfl hv hks f3 f4
    have h4 : step rd { s with
        seenOutline := true
        seen := pushIds (pushIds s.seen (cs.flatMap cIds)) (ks.filterMap (·.ident))
        mode := .outline { contours := [] ++ keepContours cs, components := [] ++ ks.map pComponent } }
        (.close sOutline) = .ok (.inl
      { s with
        seenOutline := true
        seen := pushIds (pushIds s.seen (cs.flatMap cIds)) (ks.filterMap (·.ident))
        mode := .body
        g := { s.g with contours := s.g.contours ++ keepContours cs, components := s.g.components ++ ks.map pComponent } }) := by
      simp [step, stepOutline, cont, finishOutline, hv]
    refine (Reach.cons h1 (Reach.append (Reach.append h2 h3) (Reach.one h4))).cast ?_
    cases s with | mk g _ _ _ _ _ _ => cases g; simp_all [pushIds_append]
  · have hc1 : cs = [] := by cases cs <;> simp_all
    have hk1 : ks = [] := by cases ks <;> simp_all
    subst hc1; subst hk1
    simp only [hcond]
    exact (Reach.nil s).cast (by cases s with | mk g _ _ _ _ _ _ => cases g; simp_all [pushIds_nil, keepContours])

theorem reach_advance_block (hc : Codec f rd nc ok) {s : PS} (hm : s.mode = .body) (hs : s.seenAdvance = false)
    {w h : Nat} (hw : ok w) (hh : ok h) :
    Reach rd s (if isNormal w || isNormal h then [.empty sAdvance (some (advanceAttrs f w h))] else [])
      { s with
        seenAdvance := (isNormal w || isNormal h)
        g := { s.g with
          width := (if isNormal w || isNormal h then (if nonZero w then w else 0) else s.g.width)
          height := (if isNormal w || isNormal h then (if nonZero h then h else 0) else s.g.height) } } := by
  by_cases hcond : (isNormal w || isNormal h) = true
  · simp only [hcond, if_true]
    exact Reach.one (step_advance hc hm hs hw hh)
  · simp only [hcond]
    exact (Reach.nil s).cast (by cases s with | mk g _ _ _ _ _ _ => cases g; simp_all)

def imageEvs (f : Fmt) : Option Image → List Ev
  | some i => [imageEv f i]
  | none => []

def noteEvs : Option Str → List Ev
  | some n =>
    let t := trimText n
    .start sNote (some []) :: ((if t.isEmpty then [] else [.text (some t)]) ++ [.close sNote])
  | none => []

theorem reach_image_block (hc : Codec f rd nc ok) {s : PS} (hm : s.mode = .body) (hv : s.ver = 2)
    (hs : s.g.image = none) (img : Option Image) (hi : ∀ i, img = some i → ValidImage ok i) :
    Reach rd s (imageEvs f img)
      { s with g := { s.g with image := img.map (pImage nc) } } := by
  unfold imageEvs
  cases img with
  | none => exact (Reach.nil s).cast (by cases s with | mk g _ _ _ _ _ _ => cases g; simp_all)
  | some i => exact Reach.one (step_image hc hm hv hs (hi i rfl))

theorem reach_lib_block {s : PS} (hm : s.mode = .body) (hs : s.seenLib = false) (hl : s.g.lib = []) (d d' : Dict)
    (hd : d.isEmpty = true → d' = []) :
    Reach rd s (if d.isEmpty then [] else [.startLib (some []) (.dict d'), .close sLib])
      { s with
        seenLib := !d.isEmpty
        g := { s.g with lib := d' } } := by
  by_cases hcond : d.isEmpty = true
  · simp only [hcond, if_true]
    exact (Reach.nil s).cast (by cases s with | mk g _ _ _ _ _ _ => cases g; simp_all)
  · simp only [hcond]
    exact (reach_lib hm hs d').cast (by simp [hcond])

/-- what is read back of the note: its trim, absent when that is empty -/
def pNote : Option Str → Option Str
  | some n => if (trimText n).isEmpty then none else some (trimText n)
  | none => none

theorem reach_note_block {s : PS} (hm : s.mode = .body) (hv : s.ver = 2) (hs : s.g.note = none) (note : Option Str) :
    Reach rd s (noteEvs note)
      { s with g := { s.g with note := pNote note } } := by
  unfold noteEvs
  cases note with
  | none => exact (Reach.nil s).cast (by cases s with | mk g _ _ _ _ _ _ => cases g; simp_all [pNote])
  | some n =>
    by_cases ht : (trimText n).isEmpty = true
    · simp only [ht, if_true, pNote, List.nil_append]
      have h1 : step rd s (.start sNote (some [])) = .ok (.inl { s with mode := .note }) := by
        simp +decide [step, hm, stepBody, bodyStart, hv, hs, cont]
      have h2 : step rd { s with mode := .note } (.close sNote) = .ok (.inl { s with mode := .body }) := by
        simp [step, stepNote, cont]
      refine (Reach.cons h1 (Reach.one h2)).cast ?_
      cases s with | mk g _ _ _ _ _ _ => cases g; simp_all
    · have hne : trimText n ≠ [] := by intro h; simp [h] at ht
      have := reach_note (rd := rd) hm hv hs hne
      have hf : (trimText n).isEmpty = false := by simpa using ht
      simp only [pNote, hf] at this ⊢
      exact this

theorem foldl_cpInsert_nodup : ∀ (cs acc : List Nat), (acc ++ cs).Nodup → cs.foldl cpInsert acc = acc ++ cs := by
  intro cs
  induction cs with
  | nil => intro acc _; simp
  | cons c r ih =>
    intro acc h
    have hc : c ∉ acc := by
      intro hm
      exact (List.nodup_append.1 h).2.2 c hm c List.mem_cons_self rfl
    have : cpInsert acc c = acc ++ [c] := by simp [cpInsert, hc]
    rw [List.foldl_cons, this, ih (acc ++ [c]) (by simpa [List.append_assoc] using h)]
    simp [List.append_assoc]

theorem ids_facts {A G C K : List Str} (h : (A ++ G ++ C ++ K).Nodup) :
    (C ++ K).Nodup ∧ A.Nodup ∧ G.Nodup ∧ (∀ i, i ∈ A → i ∉ C ++ K) ∧ (∀ i, i ∈ G → i ∉ A ∧ i ∉ C ++ K) := by
  obtain ⟨hAGC, hK, d1⟩ := List.nodup_append.1 h
  obtain ⟨hAG, hC, d2⟩ := List.nodup_append.1 hAGC
  obtain ⟨hA, hG, d3⟩ := List.nodup_append.1 hAG
  refine ⟨List.nodup_append.2 ⟨hC, hK, fun a ha b hb => d1 a (List.mem_append_right _ ha) b hb⟩, hA, hG, ?_, ?_⟩
  · intro i hi hm
    rcases List.mem_append.1 hm with hm | hm
    · exact d2 i (List.mem_append_left _ hi) i hm rfl
    · exact d1 i (List.mem_append_left _ (List.mem_append_left _ hi)) i hm rfl
  · intro i hi
    refine ⟨fun hm => d3 i hm i hi rfl, fun hm => ?_⟩
    rcases List.mem_append.1 hm with hm | hm
    · exact d2 i (List.mem_append_right _ hi) i hm rfl
    · exact d1 i (List.mem_append_left _ (List.mem_append_right _ hi)) i hm rfl

/-- the glif validity rules, for a glyph held in memory -/
structure ValidGlyph (ok : Nat → Prop) (g : Glyph) : Prop where
  name : validName g.name = true
  width : ok g.width
  height : ok g.height
  codepoints : ∀ c, c ∈ g.codepoints → ValidCodepoint c
  codepointsNodup : g.codepoints.Nodup
  image : ∀ i, g.image = some i → ValidImage ok i
  anchors : ∀ a, a ∈ g.anchors → AnchorOK ok a
  guidelines : ∀ a, a ∈ g.guidelines → GuidelineOK ok a
  contours : ∀ c, c ∈ g.contours → ContourOK' ok c
  components : ∀ k, k ∈ g.components → ComponentOK ok k
  idents : (Spec.glyphIdents g).Nodup

/-- the glyph the parser has built when it reaches `</glyph>`, before the object libs are moved -/
def preG (f : Fmt) (nc : Color → Color) (g : Glyph) : Glyph :=
  { name := g.name
    width := if isNormal g.width || isNormal g.height then (if nonZero g.width then g.width else 0) else 0
    height := if isNormal g.width || isNormal g.height then (if nonZero g.height then g.height else 0) else 0
    codepoints := g.codepoints
    note := pNote g.note
    guidelines := g.guidelines.map (pGuideline nc)
    anchors := g.anchors.map (pAnchor nc)
    components := g.components.map pComponent
    contours := keepContours g.contours
    image := g.image.map (pImage nc)
    lib := reindentDict f.indent (writtenLib g) }

theorem reindentDict_nil (ind : Str) : reindentDict ind [] = [] := by simp [reindentDict]

/-- **parse ∘ encode, up to the object libs**: for every valid glyph the parser accepts what the writer produces
    and arrives at `</glyph>` with exactly `preG`; what is returned is `load_object_libs` of it -/
theorem parse_encode (hc : Codec f rd nc ok) {g : Glyph} (hv : ValidGlyph ok g) :
    parseGlif rd (encodeGlif f g) = loadObjectLibs (preG f nc g) := by
  obtain ⟨hCK, hA, hG, dA, dG⟩ := ids_facts (by simpa [Spec.glyphIdents, cIds_def] using hv.idents :
    (g.anchors.filterMap (·.ident) ++ g.guidelines.filterMap (·.ident) ++ g.contours.flatMap cIds ++
      g.components.filterMap (·.ident)).Nodup)
  let s0 : PS := { g := { name := g.name }, ver := 2 }
  have h1 := reach_unicodes (rd := rd) g.codepoints s0 rfl hv.codepoints
  have hall : ∃ s', Reach rd s0
      (g.codepoints.map (fun c => Ev.empty sUnicode (some [(sHex, showCodepoint c)])) ++
      ((if isNormal g.width || isNormal g.height then [Ev.empty sAdvance (some (advanceAttrs f g.width g.height))] else []) ++
      (imageEvs f g.image ++
      ((if !g.contours.isEmpty || !g.components.isEmpty then
          Ev.start sOutline (some []) :: (g.contours.flatMap (contourEvs f) ++ g.components.map (componentEv f) ++ [Ev.close sOutline])
        else []) ++
      (g.anchors.map (anchorEv f) ++
      (g.guidelines.map (guidelineEv f) ++
      ((if (writtenLib g).isEmpty then [] else
          [Ev.startLib (some []) (.dict (reindentDict f.indent (writtenLib g))), Ev.close sLib]) ++
      noteEvs g.note))))))) s' ∧ s'.mode = .body ∧ s'.g = preG f nc g := by
    refine ⟨_, Reach.append h1 (Reach.append (reach_advance_block hc ?_ ?_ hv.width hv.height)
      (Reach.append (reach_image_block hc ?_ ?_ ?_ g.image hv.image)
      (Reach.append (reach_outline hc ?_ ?_ ?_ g.contours g.components hv.contours hv.components hCK ?_)
      (Reach.append (reach_anchors hc g.anchors _ ?_ ?_ hv.anchors hA ?_)
      (Reach.append (reach_guidelines hc g.guidelines _ ?_ ?_ hv.guidelines hG ?_)
      (Reach.append (reach_lib_block ?_ ?_ ?_ (writtenLib g) (reindentDict f.indent (writtenLib g)) ?_)
        (reach_note_block ?_ ?_ ?_ g.note))))))), ?_, ?_⟩
    all_goals first | rfl | skip
    · intro i _; simp [s0]
    · intro i hi
      have := dA i hi
      simpa [s0, mem_pushIds, pushIds_nil] using this
    · intro i hi
      have := dG i hi
      simpa [s0, mem_pushIds, pushIds_nil, not_or, and_comm] using this
    · intro h
      have : writtenLib g = [] := by cases hw : writtenLib g <;> simp_all
      rw [this]; rfl
    · have hcp : g.codepoints.foldl cpInsert [] = g.codepoints := by
        have := foldl_cpInsert_nodup g.codepoints [] (by simpa using hv.codepointsNodup)
        simpa using this
      simp [preG, s0, hcp]
  obtain ⟨s', hr, hm, hg⟩ := hall
  have henc : encodeGlif f g = Ev.decl :: Ev.start sGlyph (some [("name".toList, g.name), ("format".toList, ['2'])]) ::
      ((g.codepoints.map (fun c => Ev.empty sUnicode (some [(sHex, showCodepoint c)])) ++
      ((if isNormal g.width || isNormal g.height then [Ev.empty sAdvance (some (advanceAttrs f g.width g.height))] else []) ++
      (imageEvs f g.image ++
      ((if !g.contours.isEmpty || !g.components.isEmpty then
          Ev.start sOutline (some []) :: (g.contours.flatMap (contourEvs f) ++ g.components.map (componentEv f) ++ [Ev.close sOutline])
        else []) ++
      (g.anchors.map (anchorEv f) ++
      (g.guidelines.map (guidelineEv f) ++
      ((if (writtenLib g).isEmpty then [] else
          [Ev.startLib (some []) (.dict (reindentDict f.indent (writtenLib g))), Ev.close sLib]) ++
      noteEvs g.note))))))) ++ [Ev.close sGlyph]) := by
    unfold encodeGlif imageEvs noteEvs
    cases g.image <;> cases g.note <;> simp [List.append_assoc]
  rw [henc]
  unfold parseGlif
  simp only [scanStart, if_true, glyphAttrs_roundtrip hv.name]
  rw [run_of_reach rd hr]
  cases hl : loadObjectLibs (preG f nc g) with
  | error k => simp [run, step, hm, stepBody, hg, hl]
  | ok g' => simp [run, step, hm, stepBody, hg, hl]

/-- no object carries a lib -/
structure NoObjectLibs (g : Glyph) : Prop where
  anchors : ∀ a, a ∈ g.anchors → a.lib = none
  guidelines : ∀ a, a ∈ g.guidelines → a.lib = none
  contours : ∀ c, c ∈ g.contours → c.lib = none ∧ ∀ p, p ∈ c.points → p.lib = none
  components : ∀ a, a ∈ g.components → a.lib = none

theorem dumpOne_none (id : Option Str) (acc : Dict) : dumpOne id none acc = acc := by
  cases id <;> rfl

theorem foldl_id_of {α β : Type} (fn : β → α → β) (l : List α) (b : β) (h : ∀ a, a ∈ l → ∀ b, fn b a = b) :
    l.foldl fn b = b := by
  induction l generalizing b with
  | nil => rfl
  | cons a r ih =>
    rw [List.foldl_cons, h a List.mem_cons_self b]
    exact ih b (fun x hx => h x (List.mem_cons_of_mem _ hx))

theorem dump_empty_of_no_libs {g : Glyph} (h : NoObjectLibs g) : dumpObjectLibs g = [] := by
  unfold dumpObjectLibs
  simp only
  rw [foldl_id_of _ g.anchors [] (fun a ha b => by rw [h.anchors a ha, dumpOne_none])]
  rw [foldl_id_of _ g.guidelines [] (fun a ha b => by rw [h.guidelines a ha, dumpOne_none])]
  rw [foldl_id_of _ g.contours [] (fun c hc b => by
    rw [(h.contours c hc).1, dumpOne_none]
    exact foldl_id_of _ c.points b (fun p hp b' => by rw [(h.contours c hc).2 p hp, dumpOne_none]))]
  exact foldl_id_of _ g.components [] (fun a ha b => by rw [h.components a ha, dumpOne_none])

theorem isNormal_nonZero {b : Nat} (h : isNormal b = true) : nonZero b = true := by
  cases hz : nonZero b with
  | true => rfl
  | false =>
    simp only [nonZero, Bool.not_eq_false', Bool.or_eq_true, beq_iff_eq] at hz
    rcases hz with rfl | rfl
    · exact absurd h (by decide)
    · exact absurd h (by decide)

/-- the glyph that comes back: colours as their three-decimal strings read, scales within 2^-52 of 1 as 1,
    `-0` offsets as `0`; everything else as it was -/
def normG (nc : Color → Color) (g : Glyph) : Glyph :=
  { g with
    guidelines := g.guidelines.map (pGuideline nc)
    anchors := g.anchors.map (pAnchor nc)
    components := g.components.map pComponent
    contours := g.contours.map pContour
    image := g.image.map (pImage nc) }


end

/-! ## object libs: `load_object_libs` undoes `dump_object_libs` -/

def keys (d : Dict) : List Str := d.map (·.1)

theorem dictGet_none_iff (k : Str) (d : Dict) : dictGet k d = none ↔ k ∉ keys d := by
  induction d with
  | nil => simp [dictGet, keys]
  | cons e r ih =>
    obtain ⟨k', v⟩ := e
    by_cases h : k' = k
    · simp [dictGet, keys, h]
    · simp only [dictGet, h, if_false, keys, List.map_cons, List.mem_cons, not_or]
      constructor
      · intro hn; exact ⟨fun e => h e.symm, (by simpa [keys] using ih.1 hn)⟩
      · intro hn; exact ih.2 (by simpa [keys] using hn.2)

theorem dictErase_of_not_mem {k : Str} {d : Dict} (h : k ∉ keys d) : dictErase k d = d := by
  induction d with
  | nil => rfl
  | cons e r ih =>
    simp only [keys, List.map_cons, List.mem_cons, not_or] at h
    have hr : dictErase k r = r := ih (by simpa [keys] using h.2)
    have : e.1 ≠ k := fun e' => h.1 e'.symm
    simp only [dictErase, List.filter_cons, this, ne_eq, not_false_eq_true, decide_true, if_true] at hr ⊢
    rw [hr]

theorem dictInsert_fresh {k : Str} {v : PV} {d : Dict} (h : k ∉ keys d) : dictInsert k v d = d ++ [(k, v)] := by
  simp [dictInsert, (dictGet_none_iff k d).2 h]

/-- the entry an object contributes to `public.objectLibs` -/
def ent (id : Option Str) (lib : Option Dict) : Dict :=
  match lib, id with
  | some l, some i => [(i, .dict l)]
  | _, _ => []

theorem keys_ent {id : Option Str} {lib : Option Dict} {k : Str} (h : k ∈ keys (ent id lib)) : id = some k := by
  cases lib <;> cases id <;> simp [ent, keys] at h
  rw [h]

theorem dumpOne_eq {id : Option Str} {lib : Option Dict} {acc : Dict} (h : ∀ i, id = some i → i ∉ keys acc) :
    dumpOne id lib acc = acc ++ ent id lib := by
  cases lib <;> cases id <;> simp [dumpOne, ent]
  exact dictInsert_fresh (h _ rfl)

theorem keys_append (a b : Dict) : keys (a ++ b) = keys a ++ keys b := by simp [keys]

/-- generic fold: a step that appends the entries of an element, as long as the element's identifiers are new -/
theorem foldl_dump {α : Type} (ids : α → List Str) (ents : α → Dict) (stepf : Dict → α → Dict)
    (hstep : ∀ acc a, (∀ i, i ∈ ids a → i ∉ keys acc) → (ids a).Nodup → stepf acc a = acc ++ ents a)
    (hkeys : ∀ a k, k ∈ keys (ents a) → k ∈ ids a) :
    ∀ (xs : List α) (acc : Dict), (∀ i, i ∈ xs.flatMap ids → i ∉ keys acc) → (xs.flatMap ids).Nodup →
      xs.foldl stepf acc = acc ++ xs.flatMap ents := by
  intro xs
  induction xs with
  | nil => intro acc _ _; simp
  | cons a r ih =>
    intro acc hfr hnd
    rw [List.flatMap_cons] at hfr hnd
    obtain ⟨n1, n2, n3⟩ := List.nodup_append.1 hnd
    rw [List.foldl_cons, hstep acc a (fun i hi => hfr i (List.mem_append_left _ hi)) n1]
    rw [ih (acc ++ ents a) ?_ n2]
    · simp [List.flatMap_cons, List.append_assoc]
    · intro i hi
      rw [keys_append, List.mem_append, not_or]
      exact ⟨hfr i (List.mem_append_right _ hi), fun hk => n3 i (hkeys a i hk) i hi rfl⟩

theorem filterMap_eq_flatMap {α : Type} (f : α → Option Str) (l : List α) :
    l.filterMap f = l.flatMap (fun a => (f a).toList) := by
  induction l with
  | nil => rfl
  | cons a r ih => cases h : f a <;> simp [List.filterMap_cons, List.flatMap_cons, h, ih]

/-- entries of a list of simple objects -/
def entsOf {α : Type} (id : α → Option Str) (lib : α → Option Dict) (xs : List α) : Dict :=
  xs.flatMap (fun a => ent (id a) (lib a))

theorem foldl_dumpOne {α : Type} (id : α → Option Str) (lib : α → Option Dict) (xs : List α) (acc : Dict)
    (hfr : ∀ i, i ∈ xs.filterMap id → i ∉ keys acc) (hnd : (xs.filterMap id).Nodup) :
    xs.foldl (fun acc a => dumpOne (id a) (lib a) acc) acc = acc ++ entsOf id lib xs := by
  rw [filterMap_eq_flatMap] at hfr hnd
  exact foldl_dump (fun a => (id a).toList) (fun a => ent (id a) (lib a)) _
    (fun acc a h _ => dumpOne_eq (fun i hi => h i (by simp [hi])))
    (fun a k hk => by simp [keys_ent hk]) xs acc hfr hnd

theorem keys_entsOf {α : Type} (id : α → Option Str) (lib : α → Option Dict) (xs : List α) {k : Str}
    (h : k ∈ keys (entsOf id lib xs)) : k ∈ xs.filterMap id := by
  simp only [entsOf, keys, List.map_flatMap, List.mem_flatMap] at h
  obtain ⟨a, ha, hk⟩ := h
  exact List.mem_filterMap.2 ⟨a, ha, keys_ent (by simpa [keys] using hk)⟩

/-- entries of a contour: its own, then its points' -/
def entsC (c : Contour) : Dict := ent c.ident c.lib ++ entsOf (·.ident) (·.lib) c.points

theorem keys_entsC {c : Contour} {k : Str} (h : k ∈ keys (entsC c)) : k ∈ cIds c := by
  rw [entsC, keys_append, List.mem_append] at h
  rcases h with h | h
  · simp [cIds, keys_ent h]
  · exact List.mem_append_right _ (keys_entsOf _ _ _ h)

theorem dump_contour (acc : Dict) (c : Contour) (hfr : ∀ i, i ∈ cIds c → i ∉ keys acc) (hnd : (cIds c).Nodup) :
    c.points.foldl (fun acc p => dumpOne p.ident p.lib acc) (dumpOne c.ident c.lib acc) = acc ++ entsC c := by
  unfold cIds at hfr hnd
  obtain ⟨n1, n2, n3⟩ := List.nodup_append.1 hnd
  rw [dumpOne_eq (fun i hi => hfr i (by simp [hi]))]
  rw [foldl_dumpOne (·.ident) (·.lib) c.points _ ?_ n2]
  · simp [entsC, List.append_assoc]
  · intro i hi
    rw [keys_append, List.mem_append, not_or]
    refine ⟨hfr i (List.mem_append_right _ hi), fun hk => ?_⟩
    have := keys_ent hk
    exact n3 i (by simp [this]) i hi rfl

/-- **`dump_object_libs` is the concatenation of the per-object entries** (identifiers unique) -/
theorem dumpObjectLibs_eq {g : Glyph} (hnd : (Spec.glyphIdents g).Nodup) :
    dumpObjectLibs g = entsOf (·.ident) (·.lib) g.anchors ++ (entsOf (·.ident) (·.lib) g.guidelines ++
      (g.contours.flatMap entsC ++ entsOf (·.ident) (·.lib) g.components)) := by
  have hnd' : (g.anchors.filterMap (·.ident) ++ g.guidelines.filterMap (·.ident) ++ g.contours.flatMap cIds ++
      g.components.filterMap (·.ident)).Nodup := by simpa [Spec.glyphIdents, cIds_def] using hnd
  obtain ⟨hAGC, hK, d1⟩ := List.nodup_append.1 hnd'
  obtain ⟨hAG, hC, d2⟩ := List.nodup_append.1 hAGC
  obtain ⟨hA, hG, d3⟩ := List.nodup_append.1 hAG
  unfold dumpObjectLibs
  simp only
  rw [foldl_dumpOne (·.ident) (·.lib) g.anchors [] (by simp [keys]) hA]
  rw [foldl_dumpOne (·.ident) (·.lib) g.guidelines _ ?_ hG]
  rw [foldl_dump cIds entsC _ (fun acc c h1 h2 => dump_contour acc c h1 h2) (fun c k hk => keys_entsC hk) g.contours _ ?_ hC]
  rw [foldl_dumpOne (·.ident) (·.lib) g.components _ ?_ hK]
  · simp [List.append_assoc]
  · intro i hi hk
    simp only [keys_append, List.nil_append, List.mem_append] at hk
    rcases hk with (hk | hk) | hk
    · exact d1 i (List.mem_append_left _ (List.mem_append_left _ (keys_entsOf _ _ _ hk))) i hi rfl
    · exact d1 i (List.mem_append_left _ (List.mem_append_right _ (keys_entsOf _ _ _ hk))) i hi rfl
    · obtain ⟨c, hc, hkc⟩ := List.mem_flatMap.1 (by simpa [keys, List.map_flatMap] using hk : i ∈ g.contours.flatMap (fun c => keys (entsC c)))
      exact d1 i (List.mem_append_right _ (List.mem_flatMap.2 ⟨c, hc, keys_entsC hkc⟩)) i hi rfl
  · intro i hi hk
    simp only [keys_append, List.nil_append, List.mem_append] at hk
    rcases hk with hk | hk
    · exact d2 i (List.mem_append_left _ (keys_entsOf _ _ _ hk)) i hi rfl
    · exact d2 i (List.mem_append_right _ (keys_entsOf _ _ _ hk)) i hi rfl
  · intro i hi hk
    simp only [keys_append, List.nil_append] at hk
    exact d3 i (keys_entsOf _ _ _ hk) i hi rfl

/-! ### load side -/

theorem dictGet_cons_self (k : Str) (v : PV) (d : Dict) : dictGet k ((k, v) :: d) = some v := by simp [dictGet]

theorem dictErase_cons_self {k : Str} {v : PV} {d : Dict} (h : k ∉ keys d) : dictErase k ((k, v) :: d) = d := by
  have := dictErase_of_not_mem h
  unfold dictErase at this ⊢
  rw [List.filter_cons]
  simp only [ne_eq, not_true_eq_false, decide_false, Bool.false_eq_true, if_false]
  exact this

/-- moving one object's lib: its entry is at the head of the remaining entries -/
theorem transferLib_ent {id : Option Str} {lib : Option Dict} {tail : Dict}
    (hl : lib.isSome = true → id.isSome = true) (hfr : ∀ i, id = some i → i ∉ keys tail) :
    transferLib id (ent id lib ++ tail) = some (lib, tail) := by
  cases id with
  | none =>
    cases lib with
    | none => simp [transferLib, ent]
    | some l => simp at hl
  | some i =>
    have hi := hfr i rfl
    cases lib with
    | none => simp [transferLib, ent, (dictGet_none_iff i tail).2 hi]
    | some l => simp [transferLib, ent, dictGet_cons_self, dictErase_cons_self hi]

/-- generic list loader (the four simple `loadX` functions are instances) -/
def loadGen {α : Type} (id : α → Option Str) (setLib : α → Option Dict → α) : List α → Dict → Option (List α × Dict)
  | [], ol => some ([], ol)
  | a :: r, ol =>
    match transferLib (id a) ol with
    | none => none
    | some (l, ol') =>
      match loadGen id setLib r ol' with
      | none => none
      | some (r', ol'') => some (setLib a l :: r', ol'')

theorem loadAnchors_gen (as : List Anchor) (ol : Dict) :
    loadAnchors as ol = loadGen (·.ident) (fun a l => { a with lib := l }) as ol := by
  induction as generalizing ol with
  | nil => rfl
  | cons a r ih =>
    simp only [loadAnchors, loadGen, ih]
    rcases transferLib a.ident ol with _ | ⟨l, ol'⟩
    · rfl
    · dsimp only
      cases loadGen (fun x : Anchor => x.ident) (fun a l => { a with lib := l }) r ol' <;> rfl
theorem loadGuidelines_gen (as : List Guideline) (ol : Dict) :
    loadGuidelines as ol = loadGen (·.ident) (fun a l => { a with lib := l }) as ol := by
  induction as generalizing ol with
  | nil => rfl
  | cons a r ih =>
    simp only [loadGuidelines, loadGen, ih]
    rcases transferLib a.ident ol with _ | ⟨l, ol'⟩
    · rfl
    · dsimp only
      cases loadGen (fun x : Guideline => x.ident) (fun a l => { a with lib := l }) r ol' <;> rfl
theorem loadPoints_gen (as : List Point) (ol : Dict) :
    loadPoints as ol = loadGen (·.ident) (fun a l => { a with lib := l }) as ol := by
  induction as generalizing ol with
  | nil => rfl
  | cons a r ih =>
    simp only [loadPoints, loadGen, ih]
    rcases transferLib a.ident ol with _ | ⟨l, ol'⟩
    · rfl
    · dsimp only
      cases loadGen (fun x : Point => x.ident) (fun a l => { a with lib := l }) r ol' <;> rfl
theorem loadComponents_gen (as : List Component) (ol : Dict) :
    loadComponents as ol = loadGen (·.ident) (fun a l => { a with lib := l }) as ol := by
  induction as generalizing ol with
  | nil => rfl
  | cons a r ih =>
    simp only [loadComponents, loadGen, ih]
    rcases transferLib a.ident ol with _ | ⟨l, ol'⟩
    · rfl
    · dsimp only
      cases loadGen (fun x : Component => x.ident) (fun a l => { a with lib := l }) r ol' <;> rfl

/-- loading the stripped copies `p a` of `xs` from their own entries gives every lib back -/
theorem loadGen_entries {α : Type} (id : α → Option Str) (lib : α → Option Dict) (setLib : α → Option Dict → α)
    (p : α → α) (hp : ∀ a, id (p a) = id a) :
    ∀ (xs : List α) (rest : Dict), (xs.filterMap id).Nodup → (∀ i, i ∈ xs.filterMap id → i ∉ keys rest) →
      (∀ a, a ∈ xs → (lib a).isSome = true → (id a).isSome = true) →
      loadGen id setLib (xs.map p) (entsOf id lib xs ++ rest) = some (xs.map (fun a => setLib (p a) (lib a)), rest) := by
  intro xs
  induction xs with
  | nil => intro rest _ _ _; simp [loadGen, entsOf]
  | cons a r ih =>
    intro rest hnd hfr hl
    rw [filterMap_ident_cons] at hnd hfr
    obtain ⟨n1, n2, n3⟩ := List.nodup_append.1 hnd
    have htail : ∀ i, id a = some i → i ∉ keys (entsOf id lib r ++ rest) := by
      intro i hi
      rw [keys_append, List.mem_append, not_or]
      exact ⟨fun hk => n3 i (by simp [hi]) i (keys_entsOf _ _ _ hk) rfl, hfr i (by simp [hi])⟩
    have ht := transferLib_ent (lib := lib a) (hl a List.mem_cons_self) htail
    have ih' := ih rest n2 (fun i hi => hfr i (List.mem_append_right _ hi)) (fun b hb => hl b (List.mem_cons_of_mem _ hb))
    simp only [List.map_cons, loadGen, hp, entsOf, List.flatMap_cons, List.append_assoc] at ht ih' ⊢
    simp only [ht, ih']

theorem keys_flatMap_entsC {cs : List Contour} {k : Str} (h : k ∈ keys (cs.flatMap entsC)) : k ∈ cs.flatMap cIds := by
  simp only [keys, List.map_flatMap, List.mem_flatMap] at h
  obtain ⟨c, hc, hk⟩ := h
  exact List.mem_flatMap.2 ⟨c, hc, keys_entsC (by simpa [keys] using hk)⟩

def nPoint (p : Point) : Point := { pPoint p with lib := p.lib }
def nContour (c : Contour) : Contour := { points := c.points.map nPoint, ident := c.ident, lib := c.lib }

def ContourIdentified (c : Contour) : Prop :=
  (c.lib.isSome = true → c.ident.isSome = true) ∧ ∀ p, p ∈ c.points → p.lib.isSome = true → p.ident.isSome = true

theorem loadContours_entries : ∀ (cs : List Contour) (rest : Dict), (cs.flatMap cIds).Nodup →
    (∀ i, i ∈ cs.flatMap cIds → i ∉ keys rest) → (∀ c, c ∈ cs → ContourIdentified c) →
    loadContours (cs.map pContour) (cs.flatMap entsC ++ rest) = some (cs.map nContour, rest) := by
  intro cs
  induction cs with
  | nil => intro rest _ _ _; simp [loadContours]
  | cons c r ih =>
    intro rest hnd hfr hl
    rw [List.flatMap_cons] at hnd hfr
    obtain ⟨n1, n2, n3⟩ := List.nodup_append.1 hnd
    unfold cIds at n1
    obtain ⟨m1, m2, m3⟩ := List.nodup_append.1 n1
    have hrest : ∀ i, i ∈ cIds c → i ∉ keys (r.flatMap entsC ++ rest) := by
      intro i hi
      rw [keys_append, List.mem_append, not_or]
      exact ⟨fun hk => n3 i hi i (keys_flatMap_entsC hk) rfl, hfr i (List.mem_append_left _ hi)⟩
    have ht := transferLib_ent (id := c.ident) (lib := c.lib)
      (tail := entsOf (·.ident) (·.lib) c.points ++ (r.flatMap entsC ++ rest)) (hl c List.mem_cons_self).1 (by
        intro i hi
        rw [keys_append, List.mem_append, not_or]
        exact ⟨fun hk => m3 i (by simp [hi]) i (keys_entsOf _ _ _ hk) rfl, hrest i (by simp [cIds, hi])⟩)
    have hp := loadGen_entries (·.ident) (·.lib) (fun (a : Point) l => { a with lib := l }) pPoint (fun _ => rfl)
      c.points (r.flatMap entsC ++ rest) m2 (fun i hi => hrest i (List.mem_append_right _ hi)) (hl c List.mem_cons_self).2
    have ih' := ih rest n2 (fun i hi => hfr i (List.mem_append_right _ hi)) (fun b hb => hl b (List.mem_cons_of_mem _ hb))
    simp only [List.map_cons, List.flatMap_cons, entsC, List.append_assoc, loadContours, pContour, loadPoints_gen] at ht hp ih' ⊢
    simp only [ht, hp, ih']
    simp [nContour, nPoint, pContour]

/-! ### the whole glyph -/

def nAnchor (nc : Color → Color) (a : Anchor) : Anchor := { pAnchor nc a with lib := a.lib }
def nGuideline (nc : Color → Color) (g : Guideline) : Guideline := { pGuideline nc g with lib := g.lib }
def nComponent (k : Component) : Component := { pComponent k with lib := k.lib }

/-- a lib only sits on an object that has an identifier (what the public API guarantees: `replace_lib`) -/
structure LibsIdentified (g : Glyph) : Prop where
  anchors : ∀ a, a ∈ g.anchors → a.lib.isSome = true → a.ident.isSome = true
  guidelines : ∀ a, a ∈ g.guidelines → a.lib.isSome = true → a.ident.isSome = true
  contours : ∀ c, c ∈ g.contours → ContourIdentified c
  components : ∀ a, a ∈ g.components → a.lib.isSome = true → a.ident.isSome = true

theorem ent_nil {id : Option Str} {lib : Option Dict} (hl : lib.isSome = true → id.isSome = true)
    (h : ent id lib = []) : lib = none := by
  cases lib with
  | none => rfl
  | some l =>
    cases id with
    | none => simp at hl
    | some i => simp [ent] at h

theorem entsOf_nil {α : Type} {id : α → Option Str} {lib : α → Option Dict} {xs : List α}
    (hl : ∀ a, a ∈ xs → (lib a).isSome = true → (id a).isSome = true) (h : entsOf id lib xs = []) :
    ∀ a, a ∈ xs → lib a = none := by
  intro a ha
  have := (List.flatMap_eq_nil_iff.1 h) a ha
  exact ent_nil (hl a ha) this

theorem dictGet_append_last {k : Str} {v : PV} {d : Dict} (h : k ∉ keys d) : dictGet k (d ++ [(k, v)]) = some v := by
  induction d with
  | nil => simp [dictGet]
  | cons e r ih =>
    simp only [keys, List.map_cons, List.mem_cons, not_or] at h
    have : e.1 ≠ k := fun e' => h.1 e'.symm
    simp only [List.cons_append, dictGet, this, if_false]
    exact ih (by simpa [keys] using h.2)

theorem dictErase_append_last {k : Str} {v : PV} {d : Dict} (h : k ∉ keys d) : dictErase k (d ++ [(k, v)]) = d := by
  have := dictErase_of_not_mem h
  unfold dictErase at this ⊢
  rw [List.filter_append, this]
  simp

/-- **encode_then_parse_restores_object_libs**: when the parser has rebuilt the objects without libs (`pAnchor`, …) and
    the lib is what the writer wrote (`writtenLib g` = the glyph lib plus `public.objectLibs`), `load_object_libs` puts
    every lib back on its object and leaves exactly the glyph lib. -/
theorem encode_then_parse_restores_object_libs {nc : Color → Color} {g : Glyph} (hnd : (Spec.glyphIdents g).Nodup)
    (hl : LibsIdentified g) (hkey : dictGet objectLibsKey g.lib = none) (G : Glyph)
    (hA : G.anchors = g.anchors.map (pAnchor nc)) (hGu : G.guidelines = g.guidelines.map (pGuideline nc))
    (hC : G.contours = g.contours.map pContour) (hK : G.components = g.components.map pComponent)
    (hL : G.lib = writtenLib g) :
    loadObjectLibs G = .ok { G with
      lib := g.lib
      anchors := g.anchors.map (nAnchor nc)
      guidelines := g.guidelines.map (nGuideline nc)
      contours := g.contours.map nContour
      components := g.components.map nComponent } := by
  have hd := dumpObjectLibs_eq hnd
  have hnd' : (g.anchors.filterMap (·.ident) ++ g.guidelines.filterMap (·.ident) ++ g.contours.flatMap cIds ++
      g.components.filterMap (·.ident)).Nodup := by simpa [Spec.glyphIdents, cIds_def] using hnd
  obtain ⟨hAGC, hKn, d1⟩ := List.nodup_append.1 hnd'
  obtain ⟨hAG, hCn, d2⟩ := List.nodup_append.1 hAGC
  obtain ⟨hAn, hGn, d3⟩ := List.nodup_append.1 hAG
  have hk : objectLibsKey ∉ keys g.lib := (dictGet_none_iff _ _).1 hkey
  by_cases he : (dumpObjectLibs g).isEmpty = true
  · -- no object carries a lib
    have hnil : dumpObjectLibs g = [] := by simpa using he
    rw [hd] at hnil
    simp only [List.append_eq_nil_iff] at hnil
    obtain ⟨eA, eG, eC, eK⟩ := hnil
    have lA := entsOf_nil hl.anchors eA
    have lG := entsOf_nil hl.guidelines eG
    have lK := entsOf_nil hl.components eK
    have lC : ∀ c, c ∈ g.contours → c.lib = none ∧ ∀ p, p ∈ c.points → p.lib = none := by
      intro c hc
      have := (List.flatMap_eq_nil_iff.1 eC) c hc
      simp only [entsC, List.append_eq_nil_iff] at this
      exact ⟨ent_nil (hl.contours c hc).1 this.1, entsOf_nil (hl.contours c hc).2 this.2⟩
    have hw : writtenLib g = g.lib := by simp [writtenLib, he]
    have e1 : g.anchors.map (nAnchor nc) = g.anchors.map (pAnchor nc) :=
      List.map_congr_left (fun a ha => by simp [nAnchor, pAnchor, lA a ha])
    have e2 : g.guidelines.map (nGuideline nc) = g.guidelines.map (pGuideline nc) :=
      List.map_congr_left (fun a ha => by simp [nGuideline, pGuideline, lG a ha])
    have e3 : g.components.map nComponent = g.components.map pComponent :=
      List.map_congr_left (fun a ha => by simp [nComponent, pComponent, lK a ha])
    have e4 : g.contours.map nContour = g.contours.map pContour :=
      List.map_congr_left (fun c hc => by
        have hp : c.points.map nPoint = c.points.map pPoint :=
          List.map_congr_left (fun p hp => by simp [nPoint, pPoint, (lC c hc).2 p hp])
        simp [nContour, pContour, (lC c hc).1, hp])
    have hg : dictGet objectLibsKey G.lib = none := by rw [hL, hw]; exact hkey
    simp only [loadObjectLibs, hg, e1, e2, e3, e4, ← hA, ← hGu, ← hC, ← hK]
    congr 1
    cases G
    simp_all
  · -- the object libs travel under `public.objectLibs`
    have hw : writtenLib g = g.lib ++ [(objectLibsKey, .dict (dumpObjectLibs g))] := by
      simp only [writtenLib, he]
      exact dictInsert_fresh hk
    have hget : dictGet objectLibsKey G.lib = some (.dict (dumpObjectLibs g)) := by
      rw [hL, hw]; exact dictGet_append_last hk
    have hers : dictErase objectLibsKey G.lib = g.lib := by
      rw [hL, hw]; exact dictErase_append_last hk
    have kA : ∀ i, i ∈ g.anchors.filterMap (·.ident) →
        i ∉ keys (entsOf (·.ident) (·.lib) g.guidelines ++ (g.contours.flatMap entsC ++ entsOf (·.ident) (·.lib) g.components)) := by
      intro i hi hk'
      simp only [keys_append, List.mem_append] at hk'
      rcases hk' with hk' | hk' | hk'
      · exact d3 i hi i (keys_entsOf _ _ _ hk') rfl
      · exact d2 i (List.mem_append_left _ hi) i (keys_flatMap_entsC hk') rfl
      · exact d1 i (List.mem_append_left _ (List.mem_append_left _ hi)) i (keys_entsOf _ _ _ hk') rfl
    have kG : ∀ i, i ∈ g.guidelines.filterMap (·.ident) →
        i ∉ keys (g.contours.flatMap entsC ++ entsOf (·.ident) (·.lib) g.components) := by
      intro i hi hk'
      simp only [keys_append, List.mem_append] at hk'
      rcases hk' with hk' | hk'
      · exact d2 i (List.mem_append_right _ hi) i (keys_flatMap_entsC hk') rfl
      · exact d1 i (List.mem_append_left _ (List.mem_append_right _ hi)) i (keys_entsOf _ _ _ hk') rfl
    have kC : ∀ i, i ∈ g.contours.flatMap cIds → i ∉ keys (entsOf (·.ident) (·.lib) g.components ++ []) := by
      intro i hi hk'
      simp only [List.append_nil] at hk'
      exact d1 i (List.mem_append_right _ hi) i (keys_entsOf _ _ _ hk') rfl
    have l1 := loadGen_entries (·.ident) (·.lib) (fun (a : Anchor) l => { a with lib := l }) (pAnchor nc) (fun _ => rfl)
      g.anchors _ hAn kA hl.anchors
    have l2 := loadGen_entries (·.ident) (·.lib) (fun (a : Guideline) l => { a with lib := l }) (pGuideline nc) (fun _ => rfl)
      g.guidelines _ hGn kG hl.guidelines
    have l3 := loadContours_entries g.contours _ hCn kC hl.contours
    have l4 := loadGen_entries (·.ident) (·.lib) (fun (a : Component) l => { a with lib := l }) pComponent (fun _ => rfl)
      g.components [] hKn (by simp [keys]) hl.components
    simp only [List.append_nil] at l3 l4
    simp only [loadObjectLibs, hget, hers, hA, hGu, hC, hK, hd, loadAnchors_gen, loadGuidelines_gen, loadComponents_gen,
      l1, l2, l3, l4]
    rfl

end Glif
