import Norad.Lemmas.C12
import Norad.Model.GlifWrite
/-! Helper lemmas for C02: element-level writer → parser round trips (Appendix F style), block-level `Reach`
lemmas, the object-lib dump/load inverse. Core Lean only. -/
namespace Glif

/-! ### attribute-name literals (simp normalises `"x".toList` to a character list) -/

@[simp] theorem gKeyOf_lit_name : gKeyOf ['n', 'a', 'm', 'e'] = some GKey.name := by decide
@[simp] theorem gKeyOf_lit_format : gKeyOf ['f', 'o', 'r', 'm', 'a', 't'] = some GKey.format := by decide
@[simp] theorem gKeyOf_lit_formatMinor : gKeyOf ['f', 'o', 'r', 'm', 'a', 't', 'M', 'i', 'n', 'o', 'r'] = some GKey.formatMinor := by decide
@[simp] theorem advKeyOf_lit_width : advKeyOf ['w', 'i', 'd', 't', 'h'] = some AdvKey.width := by decide
@[simp] theorem advKeyOf_lit_height : advKeyOf ['h', 'e', 'i', 'g', 'h', 't'] = some AdvKey.height := by decide
@[simp] theorem aKeyOf_lit_x : aKeyOf ['x'] = some AKey.x := by decide
@[simp] theorem aKeyOf_lit_y : aKeyOf ['y'] = some AKey.y := by decide
@[simp] theorem aKeyOf_lit_name : aKeyOf ['n', 'a', 'm', 'e'] = some AKey.name := by decide
@[simp] theorem aKeyOf_lit_color : aKeyOf ['c', 'o', 'l', 'o', 'r'] = some AKey.color := by decide
@[simp] theorem aKeyOf_lit_identifier : aKeyOf ['i', 'd', 'e', 'n', 't', 'i', 'f', 'i', 'e', 'r'] = some AKey.ident := by decide
@[simp] theorem guKeyOf_lit_x : guKeyOf ['x'] = some GuKey.x := by decide
@[simp] theorem guKeyOf_lit_y : guKeyOf ['y'] = some GuKey.y := by decide
@[simp] theorem guKeyOf_lit_angle : guKeyOf ['a', 'n', 'g', 'l', 'e'] = some GuKey.angle := by decide
@[simp] theorem guKeyOf_lit_name : guKeyOf ['n', 'a', 'm', 'e'] = some GuKey.name := by decide
@[simp] theorem guKeyOf_lit_color : guKeyOf ['c', 'o', 'l', 'o', 'r'] = some GuKey.color := by decide
@[simp] theorem guKeyOf_lit_identifier : guKeyOf ['i', 'd', 'e', 'n', 't', 'i', 'f', 'i', 'e', 'r'] = some GuKey.ident := by decide
@[simp] theorem tKeyOf_lit_xScale : tKeyOf ['x', 'S', 'c', 'a', 'l', 'e'] = some TKey.xScale := by decide
@[simp] theorem tKeyOf_lit_xyScale : tKeyOf ['x', 'y', 'S', 'c', 'a', 'l', 'e'] = some TKey.xyScale := by decide
@[simp] theorem tKeyOf_lit_yxScale : tKeyOf ['y', 'x', 'S', 'c', 'a', 'l', 'e'] = some TKey.yxScale := by decide
@[simp] theorem tKeyOf_lit_yScale : tKeyOf ['y', 'S', 'c', 'a', 'l', 'e'] = some TKey.yScale := by decide
@[simp] theorem tKeyOf_lit_xOffset : tKeyOf ['x', 'O', 'f', 'f', 's', 'e', 't'] = some TKey.xOffset := by decide
@[simp] theorem tKeyOf_lit_yOffset : tKeyOf ['y', 'O', 'f', 'f', 's', 'e', 't'] = some TKey.yOffset := by decide
@[simp] theorem pKeyOf_lit_x : pKeyOf ['x'] = some PKey.x := by decide
@[simp] theorem pKeyOf_lit_y : pKeyOf ['y'] = some PKey.y := by decide
@[simp] theorem pKeyOf_lit_name : pKeyOf ['n', 'a', 'm', 'e'] = some PKey.name := by decide
@[simp] theorem pKeyOf_lit_type : pKeyOf ['t', 'y', 'p', 'e'] = some PKey.typ := by decide
@[simp] theorem pKeyOf_lit_smooth : pKeyOf ['s', 'm', 'o', 'o', 't', 'h'] = some PKey.smooth := by decide
@[simp] theorem pKeyOf_lit_identifier : pKeyOf ['i', 'd', 'e', 'n', 't', 'i', 'f', 'i', 'e', 'r'] = some PKey.ident := by decide
@[simp] theorem iKeyOf_lit_xScale : iKeyOf ['x', 'S', 'c', 'a', 'l', 'e'] = some (IKey.t TKey.xScale) := by decide
@[simp] theorem cKeyOf_lit_xScale : cKeyOf ['x', 'S', 'c', 'a', 'l', 'e'] = some (CKey.t TKey.xScale) := by decide
@[simp] theorem iKeyOf_lit_xyScale : iKeyOf ['x', 'y', 'S', 'c', 'a', 'l', 'e'] = some (IKey.t TKey.xyScale) := by decide
@[simp] theorem cKeyOf_lit_xyScale : cKeyOf ['x', 'y', 'S', 'c', 'a', 'l', 'e'] = some (CKey.t TKey.xyScale) := by decide
@[simp] theorem iKeyOf_lit_yxScale : iKeyOf ['y', 'x', 'S', 'c', 'a', 'l', 'e'] = some (IKey.t TKey.yxScale) := by decide
@[simp] theorem cKeyOf_lit_yxScale : cKeyOf ['y', 'x', 'S', 'c', 'a', 'l', 'e'] = some (CKey.t TKey.yxScale) := by decide
@[simp] theorem iKeyOf_lit_yScale : iKeyOf ['y', 'S', 'c', 'a', 'l', 'e'] = some (IKey.t TKey.yScale) := by decide
@[simp] theorem cKeyOf_lit_yScale : cKeyOf ['y', 'S', 'c', 'a', 'l', 'e'] = some (CKey.t TKey.yScale) := by decide
@[simp] theorem iKeyOf_lit_xOffset : iKeyOf ['x', 'O', 'f', 'f', 's', 'e', 't'] = some (IKey.t TKey.xOffset) := by decide
@[simp] theorem cKeyOf_lit_xOffset : cKeyOf ['x', 'O', 'f', 'f', 's', 'e', 't'] = some (CKey.t TKey.xOffset) := by decide
@[simp] theorem iKeyOf_lit_yOffset : iKeyOf ['y', 'O', 'f', 'f', 's', 'e', 't'] = some (IKey.t TKey.yOffset) := by decide
@[simp] theorem cKeyOf_lit_yOffset : cKeyOf ['y', 'O', 'f', 'f', 's', 'e', 't'] = some (CKey.t TKey.yOffset) := by decide
@[simp] theorem iKeyOf_lit_color : iKeyOf ['c', 'o', 'l', 'o', 'r'] = some IKey.color := by decide
@[simp] theorem iKeyOf_lit_fileName : iKeyOf ['f', 'i', 'l', 'e', 'N', 'a', 'm', 'e'] = some IKey.fileName := by decide
@[simp] theorem cKeyOf_lit_base : cKeyOf ['b', 'a', 's', 'e'] = some CKey.base := by decide
@[simp] theorem cKeyOf_lit_identifier : cKeyOf ['i', 'd', 'e', 'n', 't', 'i', 'f', 'i', 'e', 'r'] = some CKey.ident := by decide
theorem sIdentifier_lit : sIdentifier = ['i', 'd', 'e', 'n', 't', 'i', 'f', 'i', 'e', 'r'] := by decide
theorem sHex_lit : sHex = ['h', 'e', 'x'] := by decide

/-! ### codec laws and validity -/

/-- what is assumed of Rust's number formatting/parsing and of the colour string, on the values `ok` -/
structure Codec (f : Fmt) (rd : Str → Option Nat) (nc : Color → Color) (ok : Nat → Prop) : Prop where
  num : ∀ b, ok b → rd (f.shw b) = some b
  col : ∀ c, readCol rd (showColor f c) = some (nc c)

theorem foldAttrs_nil' {σ : Type} (st : σ → Attr → Option σ) (acc : σ) : foldAttrs st acc [] = some acc := rfl
theorem foldAttrs_cons' {σ : Type} (st : σ → Attr → Option σ) (acc : σ) (a : Attr) (as : List Attr) :
    foldAttrs st acc (a :: as) = (st acc a).bind (fun acc' => foldAttrs st acc' as) := by
  simp only [foldAttrs]; cases st acc a <;> rfl

theorem readIdent_ok {seen : List Str} {i : Str} (h1 : i ∉ seen) (h2 : validIdent i = true) :
    readIdent 2 seen i = some i := by
  simp [readIdent, h1, h2]

section
variable {f : Fmt} {rd : Str → Option Nat} {nc : Color → Color} {ok : Nat → Prop}

structure ValidAnchor (ok : Nat → Prop) (seen : List Str) (a : Anchor) : Prop where
  x : ok a.x
  y : ok a.y
  name : ∀ n, a.name = some n → validName n = true
  ident : FreshId seen a.ident

/-- **anchor_roundtrip**: what `Anchor::to_event` writes, `parse_anchor` reads back (colour up to its string) -/
theorem anchor_roundtrip (hc : Codec f rd nc ok) {seen : List Str} {a : Anchor} (hv : ValidAnchor ok seen a) :
    parseAnchor rd 2 seen (anchorAttrs f a) =
      some { x := a.x, y := a.y, name := a.name, color := a.color.map nc, ident := a.ident } := by
  obtain ⟨x, y, name, color, ident, lib⟩ := a
  obtain ⟨hx, hy, hn, hi⟩ := hv
  simp only at hx hy hn hi
  have nx := hc.num _ hx
  have ny := hc.num _ hy
  have hid : ∀ i, ident = some i → readIdent 2 seen i = some i :=
    fun i h => readIdent_ok (hi i h).1 (hi i h).2
  unfold parseAnchor anchorAttrs
  cases name <;> cases color <;> cases ident <;>
    simp [optAttr, foldAttrs, aStep, aApply, nx, ny, aFinish, hc.col, hn, hid]

structure ValidGuideline (ok : Nat → Prop) (seen : List Str) (g : Guideline) : Prop where
  line : match g.line with
    | .vertical x => ok x
    | .horizontal y => ok y
    | .angle x y d => ok x ∧ ok y ∧ ok d ∧ angleOk d = true
  name : ∀ n, g.name = some n → validName n = true
  ident : FreshId seen g.ident

/-- **guideline_roundtrip** -/
theorem guideline_roundtrip (hc : Codec f rd nc ok) {seen : List Str} {g : Guideline} (hv : ValidGuideline ok seen g) :
    parseGuideline rd 2 seen (guidelineAttrs f g) =
      some { line := g.line, name := g.name, color := g.color.map nc, ident := g.ident } := by
  obtain ⟨line, name, color, ident, lib⟩ := g
  obtain ⟨hl, hn, hi⟩ := hv
  simp only at hl hn hi
  have hid : ∀ i, ident = some i → readIdent 2 seen i = some i :=
    fun i h => readIdent_ok (hi i h).1 (hi i h).2
  unfold parseGuideline guidelineAttrs
  cases line with
  | vertical x =>
    have nx := hc.num _ hl
    cases name <;> cases color <;> cases ident <;>
      simp [optAttr, lineAttrs, foldAttrs, guStep, guApply, nx, guFinish, hc.col, hn, hid]
  | horizontal y =>
    have ny := hc.num _ hl
    cases name <;> cases color <;> cases ident <;>
      simp [optAttr, lineAttrs, foldAttrs, guStep, guApply, ny, guFinish, hc.col, hn, hid]
  | angle x y d =>
    have nx := hc.num _ hl.1
    have ny := hc.num _ hl.2.1
    have nd := hc.num _ hl.2.2.1
    have ha := hl.2.2.2
    cases name <;> cases color <;> cases ident <;>
      simp [optAttr, lineAttrs, foldAttrs, guStep, guApply, nx, ny, nd, ha, guFinish, hc.col, hn, hid]

structure ValidPoint (ok : Nat → Prop) (seen : List Str) (p : Point) : Prop where
  x : ok p.x
  y : ok p.y
  name : ∀ n, p.name = some n → validName n = true
  ident : FreshId seen p.ident

@[simp] theorem readPointType_move : readPointType ['m', 'o', 'v', 'e'] = some .move := by decide
@[simp] theorem readPointType_line : readPointType ['l', 'i', 'n', 'e'] = some .line := by decide
@[simp] theorem readPointType_curve : readPointType ['c', 'u', 'r', 'v', 'e'] = some .curve := by decide
@[simp] theorem readPointType_qcurve : readPointType ['q', 'c', 'u', 'r', 'v', 'e'] = some .qcurve := by decide

/-- **point_roundtrip** -/
theorem point_roundtrip (hc : Codec f rd nc ok) {seen : List Str} {p : Point} (hv : ValidPoint ok seen p) :
    parsePoint rd 2 seen (pointAttrs f p) =
      some { x := p.x, y := p.y, typ := p.typ, smooth := p.smooth, name := p.name, ident := p.ident } := by
  obtain ⟨x, y, typ, smooth, name, ident, lib⟩ := p
  obtain ⟨hx, hy, hn, hi⟩ := hv
  simp only at hx hy hn hi
  have nx := hc.num _ hx
  have ny := hc.num _ hy
  have hid : ∀ i, ident = some i → readIdent 2 seen i = some i :=
    fun i h => readIdent_ok (hi i h).1 (hi i h).2
  unfold parsePoint pointAttrs
  cases name <;> cases typ <;> cases smooth <;> cases ident <;>
    simp [optAttr, pointTypeAttr, foldAttrs, pStep, pApply, nx, ny, pFinish, hn, hid]

/-! ### transforms -/

def OkT (ok : Nat → Prop) (t : Transform) : Prop :=
  ok t.xScale ∧ ok t.xyScale ∧ ok t.yxScale ∧ ok t.yScale ∧ ok t.xOffset ∧ ok t.yOffset

/-- what comes back of a transform: scales within 2^-52 of 1 are 1, offsets `-0` are `0` -/
def normT (t : Transform) : Transform :=
  { xScale := if farFromOne t.xScale then t.xScale else f64One
    xyScale := if nonZero t.xyScale then t.xyScale else 0
    yxScale := if nonZero t.yxScale then t.yxScale else 0
    yScale := if farFromOne t.yScale then t.yScale else f64One
    xOffset := if nonZero t.xOffset then t.xOffset else 0
    yOffset := if nonZero t.yOffset then t.yOffset else 0 }

theorem transform_fold_component (hc : Codec f rd nc ok) (seen : List Str) {t : Transform} (ht : OkT ok t)
    (b : Option Str) (i : Option Str) :
    foldAttrs (cStep rd 2 seen) { base := b, ident := i, transform := {} } (transformAttrs f t) =
      some { base := b, ident := i, transform := normT t } := by
  obtain ⟨h1, h2, h3, h4, h5, h6⟩ := ht
  have n1 := hc.num _ h1; have n2 := hc.num _ h2; have n3 := hc.num _ h3
  have n4 := hc.num _ h4; have n5 := hc.num _ h5; have n6 := hc.num _ h6
  unfold transformAttrs normT
  by_cases g1 : farFromOne t.xScale = true <;> by_cases g2 : nonZero t.xyScale = true <;>
  by_cases g3 : nonZero t.yxScale = true <;> by_cases g4 : farFromOne t.yScale = true <;>
  by_cases g5 : nonZero t.xOffset = true <;> by_cases g6 : nonZero t.yOffset = true <;>
    simp [g1, g2, g3, g4, g5, g6, foldAttrs, cStep, cApply, tSet, n1, n2, n3, n4, n5, n6]

theorem transform_fold_image (hc : Codec f rd nc ok) {t : Transform} (ht : OkT ok t)
    (fn : Option Str) (c : Option Color) :
    foldAttrs (iStep rd) { fileName := fn, color := c, transform := {} } (transformAttrs f t) =
      some { fileName := fn, color := c, transform := normT t } := by
  obtain ⟨h1, h2, h3, h4, h5, h6⟩ := ht
  have n1 := hc.num _ h1; have n2 := hc.num _ h2; have n3 := hc.num _ h3
  have n4 := hc.num _ h4; have n5 := hc.num _ h5; have n6 := hc.num _ h6
  unfold transformAttrs normT
  by_cases g1 : farFromOne t.xScale = true <;> by_cases g2 : nonZero t.xyScale = true <;>
  by_cases g3 : nonZero t.yxScale = true <;> by_cases g4 : farFromOne t.yScale = true <;>
  by_cases g5 : nonZero t.xOffset = true <;> by_cases g6 : nonZero t.yOffset = true <;>
    simp [g1, g2, g3, g4, g5, g6, foldAttrs, iStep, iApply, tSet, n1, n2, n3, n4, n5, n6]

structure ValidComponent (ok : Nat → Prop) (seen : List Str) (k : Component) : Prop where
  base : validName k.base = true
  transform : OkT ok k.transform
  ident : FreshId seen k.ident

/-- **component_roundtrip** -/
theorem component_roundtrip (hc : Codec f rd nc ok) {seen : List Str} {k : Component} (hv : ValidComponent ok seen k) :
    parseComponent rd 2 seen (componentAttrs f k) =
      some { base := k.base, transform := normT k.transform, ident := k.ident } := by
  obtain ⟨base, transform, ident, lib⟩ := k
  obtain ⟨hb, ht, hi⟩ := hv
  simp only at hb ht hi
  have hid : ∀ i, ident = some i → readIdent 2 seen i = some i :=
    fun i h => readIdent_ok (hi i h).1 (hi i h).2
  unfold parseComponent componentAttrs
  rw [foldAttrs_append, foldAttrs_append]
  have e1 : foldAttrs (cStep rd 2 seen) {} [("base".toList, base)] =
      some { base := some base, ident := none, transform := {} } := by
    simp [foldAttrs, cStep, cApply, hb]
  rw [e1]
  simp only [Option.bind_some, transform_fold_component hc seen ht]
  cases ident <;> simp [optAttr, foldAttrs, cStep, cApply, cFinish, hid]

structure ValidImage (ok : Nat → Prop) (i : Image) : Prop where
  name : imageNameOk i.fileName = true
  transform : OkT ok i.transform

/-- **image_roundtrip** -/
theorem image_roundtrip (hc : Codec f rd nc ok) {i : Image} (hv : ValidImage ok i) :
    parseImage rd (imageAttrs f i) =
      some { fileName := i.fileName, color := i.color.map nc, transform := normT i.transform } := by
  obtain ⟨fileName, color, transform⟩ := i
  obtain ⟨hn, ht⟩ := hv
  simp only at hn ht
  unfold parseImage imageAttrs
  rw [foldAttrs_append, foldAttrs_append]
  have e1 : foldAttrs (iStep rd) {} [("fileName".toList, fileName)] =
      some { fileName := some fileName, color := none, transform := {} } := by
    simp [foldAttrs, iStep, iApply]
  rw [e1]
  simp only [Option.bind_some, transform_fold_image hc ht]
  cases color <;> simp [optAttr, foldAttrs, iStep, iApply, iFinish, hn, hc.col]

/-- **advance_roundtrip**: a value that is written comes back; `±0` is not written and comes back as `0` -/
theorem advance_roundtrip (hc : Codec f rd nc ok) {w h : Nat} (hw : ok w) (hh : ok h) :
    parseAdvance rd (advanceAttrs f w h) =
      some (if nonZero w then w else 0, if nonZero h then h else 0) := by
  have nw := hc.num _ hw
  have nh := hc.num _ hh
  unfold parseAdvance advanceAttrs
  by_cases g1 : nonZero h = true <;> by_cases g2 : nonZero w = true <;>
    simp [g1, g2, foldAttrs, advStep, advApply, nw, nh]

/-- the `contour` start tag -/
theorem contourAttrs_roundtrip {seen : List Str} {cid : Option Str} (hi : FreshId seen cid) :
    parseContourAttrs 2 seen (optAttr "identifier" cid) = some cid := by
  cases cid with
  | none => simp [parseContourAttrs, optAttr, foldAttrs]
  | some i =>
    have := readIdent_ok (hi i rfl).1 (hi i rfl).2
    simp [parseContourAttrs, optAttr, foldAttrs, ctStep, sIdentifier_lit, this]

/-- the `glyph` start tag the writer produces -/
theorem glyphAttrs_roundtrip {name : Str} (hn : validName name = true) :
    parseGlyphAttrs (some [("name".toList, name), ("format".toList, ['2'])]) = .ok (name, 2) := by
  have : parseU32 10 ['2'] = some 2 := by decide
  simp [parseGlyphAttrs, foldAttrs, gStep, gApply, hn, this, gFinish]

/-! ### code points: `{:04X}` reads back -/

theorem digitVal_hexDigitU : ∀ d, d < 16 → digitVal 16 (hexDigitU d) = some d := by decide

theorem digitsVal_hexUpper : ∀ (fuel n : Nat) (acc : Str), n < 16 ^ fuel →
    ∃ k, ∀ a, digitsVal 16 (hexUpper fuel n acc) a = digitsVal 16 acc (a * 16 ^ k + n) := by
  intro fuel
  induction fuel with
  | zero =>
    intro n acc hn
    have : n = 0 := by simpa using hn
    subst this
    exact ⟨0, fun a => by simp [hexUpper]⟩
  | succ fuel ih =>
    intro n acc hn
    by_cases h0 : n = 0
    · subst h0
      exact ⟨0, fun a => by simp [hexUpper]⟩
    · have hq : n / 16 < 16 ^ fuel := by
        rw [Nat.pow_succ] at hn
        omega
      obtain ⟨k, hk⟩ := ih (n / 16) (hexDigitU (n % 16) :: acc) hq
      refine ⟨k + 1, fun a => ?_⟩
      have hd := digitVal_hexDigitU (n % 16) (Nat.mod_lt _ (by decide))
      simp only [hexUpper, h0, if_false, hk, digitsVal, hd]
      congr 1
      rw [Nat.add_mul, Nat.pow_succ, Nat.mul_assoc]
      omega

theorem digitsVal_zeros (k : Nat) (l : Str) : digitsVal 16 (List.replicate k '0' ++ l) 0 = digitsVal 16 l 0 := by
  induction k with
  | zero => rfl
  | succ k ih =>
    have : digitVal 16 '0' = some 0 := by decide
    simp [List.replicate_succ, digitsVal, this, ih]

theorem parseU32_of_digits {s : Str} {n : Nat} (hd : digitsVal 16 s 0 = some n) (hne : s ≠ [])
    (hn : n ≤ 4294967295) : parseU32 16 s = some n := by
  cases s with
  | nil => exact absurd rfl hne
  | cons c r =>
    have hc : c ≠ '+' := by
      intro h
      subst h
      have : digitVal 16 '+' = none := by decide
      simp [digitsVal, this] at hd
    unfold parseU32
    dsimp only
    split
    · rename_i heq; cases heq; exact absurd rfl hc
    · simp [hd, hn]

theorem showCodepoint_ne_nil (c : Nat) : showCodepoint c ≠ [] := by
  unfold showCodepoint
  intro h
  simp only at h
  have h' := congrArg List.length h
  simp only [List.length_append, List.length_replicate, List.length_nil] at h'
  omega

/-- `u32::from_str_radix(format!("{:04X}", c), 16)` then `char::try_from` gives `c` back, for a Unicode scalar value -/
theorem parseHex_showCodepoint {c : Nat} (h1 : c ≤ 0x10FFFF) (h2 : ¬(0xD800 ≤ c ∧ c ≤ 0xDFFF)) :
    parseHex (showCodepoint c) = some c := by
  have hlt : c < 16 ^ 8 := by
    have : (16 : Nat) ^ 8 = 4294967296 := by decide
    omega
  obtain ⟨k, hk⟩ := digitsVal_hexUpper 8 c [] hlt
  have hd : digitsVal 16 (showCodepoint c) 0 = some c := by
    unfold showCodepoint
    simp only [digitsVal_zeros, hk, digitsVal]
    simp
  have hp := parseU32_of_digits hd (showCodepoint_ne_nil c) (by omega)
  unfold parseHex
  simp only [hp]
  have : (decide (c ≤ 0x10FFFF) && !(decide (0xD800 ≤ c) && decide (c ≤ 0xDFFF))) = true := by
    simp only [Bool.and_eq_true, decide_eq_true_eq, Bool.not_eq_true', Bool.and_eq_false_iff, decide_eq_false_iff_not]
    refine ⟨h1, ?_⟩
    by_cases h : 0xD800 ≤ c
    · right; intro h3; exact h2 ⟨h, h3⟩
    · left; exact h
  simp only [this, if_true]

def ValidCodepoint (c : Nat) : Prop := c ≤ 0x10FFFF ∧ ¬(0xD800 ≤ c ∧ c ≤ 0xDFFF)

/-- **unicode_roundtrip** -/
theorem unicode_roundtrip {cps : List Nat} {c : Nat} (hc : ValidCodepoint c) :
    parseUnicode cps [(sHex, showCodepoint c)] = some (cpInsert cps c) := by
  simp [parseUnicode, foldAttrs, uniStep, parseHex_showCodepoint hc.1 hc.2]
end

/-! ## block-level reachability -/

section
variable {f : Fmt} {rd : Str → Option Nat} {nc : Color → Color} {ok : Nat → Prop}

theorem Reach.cast {s s' s'' : PS} {evs : List Ev} (h : Reach rd s evs s') (e : s' = s'') : Reach rd s evs s'' := e ▸ h

theorem Reach.append {s s' s'' : PS} {e₁ e₂ : List Ev} (h₁ : Reach rd s e₁ s') (h₂ : Reach rd s' e₂ s'') :
    Reach rd s (e₁ ++ e₂) s'' := by
  induction h₁ with
  | nil s => exact h₂
  | cons hs _ ih => exact Reach.cons hs (ih h₂)

theorem Reach.one {s s' : PS} {e : Ev} (h : step rd s e = .ok (.inl s')) : Reach rd s [e] s' :=
  Reach.cons h (Reach.nil s')

/-- identifiers recorded so far, newest first -/
def pushIds (seen : List Str) (ids : List Str) : List Str := ids.foldl (fun sn i => i :: sn) seen

theorem pushIds_nil (seen : List Str) : pushIds seen [] = seen := rfl
theorem pushIds_cons (seen : List Str) (i : Str) (r : List Str) : pushIds seen (i :: r) = pushIds (i :: seen) r := rfl
theorem pushIds_append (seen a b : List Str) : pushIds seen (a ++ b) = pushIds (pushIds seen a) b := by
  simp [pushIds, List.foldl_append]
theorem mem_pushIds {seen ids : List Str} {i : Str} : i ∈ pushIds seen ids ↔ i ∈ ids ∨ i ∈ seen := by
  induction ids generalizing seen with
  | nil => simp [pushIds]
  | cons j r ih =>
    rw [pushIds_cons, ih]
    simp only [List.mem_cons]
    constructor
    · rintro (h | h | h)
      · exact Or.inl (Or.inr h)
      · exact Or.inl (Or.inl h)
      · exact Or.inr h
    · rintro ((h | h) | h)
      · exact Or.inr (Or.inl h)
      · exact Or.inl h
      · exact Or.inr (Or.inr h)
theorem addSeen_eq (seen : List Str) (o : Option Str) : addSeen seen o = pushIds seen o.toList := by
  cases o <;> rfl

/-! ### anchors -/

structure AnchorOK (ok : Nat → Prop) (a : Anchor) : Prop where
  x : ok a.x
  y : ok a.y
  name : ∀ n, a.name = some n → validName n = true
  ident : ∀ i, a.ident = some i → validIdent i = true

/-- the anchor as the parser builds it (the lib is attached later, from `public.objectLibs`) -/
def pAnchor (nc : Color → Color) (a : Anchor) : Anchor :=
  { x := a.x, y := a.y, name := a.name, color := a.color.map nc, ident := a.ident }

theorem step_anchor (hc : Codec f rd nc ok) {s : PS} (hm : s.mode = .body) (hv : s.ver = 2) {a : Anchor}
    (ha : AnchorOK ok a) (hf : ∀ i, a.ident = some i → i ∉ s.seen) :
    step rd s (anchorEv f a) = .ok (.inl
      { s with
        seen := pushIds s.seen a.ident.toList
        g := { s.g with anchors := s.g.anchors ++ [pAnchor nc a] } }) := by
  have hv' : ValidAnchor ok s.seen a := ⟨ha.x, ha.y, ha.name, fun i hi => ⟨hf i hi, ha.ident i hi⟩⟩
  have hp := anchor_roundtrip hc hv'
  simp +decide [step, hm, stepBody, anchorEv, bodyEmpty, hv, hp, cont, addSeen_eq, pAnchor]

theorem reach_anchors (hc : Codec f rd nc ok) : ∀ (as : List Anchor) (s : PS), s.mode = .body → s.ver = 2 →
    (∀ a, a ∈ as → AnchorOK ok a) → (as.filterMap (·.ident)).Nodup →
    (∀ i, i ∈ as.filterMap (·.ident) → i ∉ s.seen) →
    Reach rd s (as.map (anchorEv f))
      { s with
        seen := pushIds s.seen (as.filterMap (·.ident))
        g := { s.g with anchors := s.g.anchors ++ as.map (pAnchor nc) } } := by
  intro as
  induction as with
  | nil => intro s _ _ _ _ _; exact (Reach.nil s).cast (by simp [pushIds_nil])
  | cons a r ih =>
    intro s hm hv hok hnd hfr
    have hida : ∀ i, a.ident = some i → i ∉ s.seen := fun i hi => hfr i (by simp [List.filterMap_cons, hi])
    have h1 := step_anchor hc hm hv (hok a List.mem_cons_self) hida
    have hnd' : (r.filterMap (·.ident)).Nodup := by
      cases hi : a.ident <;> simp [List.filterMap_cons, hi] at hnd <;> first | exact hnd | exact hnd.2
    have h2 := ih { s with
        seen := pushIds s.seen a.ident.toList
        g := { s.g with anchors := s.g.anchors ++ [pAnchor nc a] } } hm hv (fun b hb => hok b (List.mem_cons_of_mem _ hb)) hnd' (by
      intro i hi
      simp only [mem_pushIds, not_or]
      refine ⟨?_, hfr i (by cases hia : a.ident <;> simp [List.filterMap_cons, hia, hi])⟩
      cases hia : a.ident with
      | none => simp
      | some j =>
        have hnd2 : (j :: r.filterMap (·.ident)).Nodup := by simpa [List.filterMap_cons, hia] using hnd
        simp only [Option.toList, List.mem_singleton]
        intro e; subst e
        exact (List.nodup_cons.1 hnd2).1 hi)
    refine (Reach.cons h1 h2).cast ?_
    cases hia : a.ident <;> simp [List.filterMap_cons, hia, pushIds_cons, pushIds_nil, List.append_assoc]

/-! ### freshness bookkeeping -/

theorem fresh_split {o : Option Str} {ids seen : List Str} (hnd : (o.toList ++ ids).Nodup)
    (hfr : ∀ i, i ∈ o.toList ++ ids → i ∉ seen) :
    (∀ i, o = some i → i ∉ seen) ∧ ids.Nodup ∧ (∀ i, i ∈ ids → i ∉ pushIds seen o.toList) := by
  refine ⟨fun i hi => hfr i (by simp [hi]), ?_, ?_⟩
  · exact (List.nodup_append.1 hnd).2.1
  · intro i hi
    simp only [mem_pushIds, not_or]
    refine ⟨?_, hfr i (by simp [hi])⟩
    intro h
    exact (List.nodup_append.1 hnd).2.2 i h i hi rfl

theorem fresh_append {a b seen : List Str} (hnd : (a ++ b).Nodup) (hfr : ∀ i, i ∈ a ++ b → i ∉ seen) :
    a.Nodup ∧ (∀ i, i ∈ a → i ∉ seen) ∧ b.Nodup ∧ (∀ i, i ∈ b → i ∉ pushIds seen a) := by
  obtain ⟨h1, h2, h3⟩ := List.nodup_append.1 hnd
  refine ⟨h1, fun i hi => hfr i (by simp [hi]), h2, ?_⟩
  intro i hi
  simp only [mem_pushIds, not_or]
  exact ⟨fun h => h3 i h i hi rfl, hfr i (by simp [hi])⟩

theorem filterMap_ident_cons {α : Type} (id : α → Option Str) (a : α) (r : List α) :
    (a :: r).filterMap id = (id a).toList ++ r.filterMap id := by
  cases h : id a <;> simp [List.filterMap_cons, h]

/-! ### guidelines -/

structure GuidelineOK (ok : Nat → Prop) (g : Guideline) : Prop where
  line : match g.line with
    | .vertical x => ok x
    | .horizontal y => ok y
    | .angle x y d => ok x ∧ ok y ∧ ok d ∧ angleOk d = true
  name : ∀ n, g.name = some n → validName n = true
  ident : ∀ i, g.ident = some i → validIdent i = true

def pGuideline (nc : Color → Color) (g : Guideline) : Guideline :=
  { line := g.line, name := g.name, color := g.color.map nc, ident := g.ident }

theorem step_guideline (hc : Codec f rd nc ok) {s : PS} (hm : s.mode = .body) (hv : s.ver = 2) {a : Guideline}
    (ha : GuidelineOK ok a) (hf : ∀ i, a.ident = some i → i ∉ s.seen) :
    step rd s (guidelineEv f a) = .ok (.inl
      { s with
        seen := pushIds s.seen a.ident.toList
        g := { s.g with guidelines := s.g.guidelines ++ [pGuideline nc a] } }) := by
  have hv' : ValidGuideline ok s.seen a := ⟨ha.line, ha.name, fun i hi => ⟨hf i hi, ha.ident i hi⟩⟩
  have hp := guideline_roundtrip hc hv'
  simp +decide [step, hm, stepBody, guidelineEv, bodyEmpty, hv, hp, cont, addSeen_eq, pGuideline]

theorem reach_guidelines (hc : Codec f rd nc ok) : ∀ (as : List Guideline) (s : PS), s.mode = .body → s.ver = 2 →
    (∀ a, a ∈ as → GuidelineOK ok a) → (as.filterMap (·.ident)).Nodup →
    (∀ i, i ∈ as.filterMap (·.ident) → i ∉ s.seen) →
    Reach rd s (as.map (guidelineEv f))
      { s with
        seen := pushIds s.seen (as.filterMap (·.ident))
        g := { s.g with guidelines := s.g.guidelines ++ as.map (pGuideline nc) } } := by
  intro as
  induction as with
  | nil => intro s _ _ _ _ _; exact (Reach.nil s).cast (by simp [pushIds_nil])
  | cons a r ih =>
    intro s hm hv hok hnd hfr
    rw [filterMap_ident_cons] at hnd hfr
    obtain ⟨f1, f2, f3⟩ := fresh_split hnd hfr
    have h1 := step_guideline hc hm hv (hok a List.mem_cons_self) f1
    have h2 := ih { s with
        seen := pushIds s.seen a.ident.toList
        g := { s.g with guidelines := s.g.guidelines ++ [pGuideline nc a] } } hm hv
      (fun b hb => hok b (List.mem_cons_of_mem _ hb)) f2 f3
    refine (Reach.cons h1 h2).cast ?_
    simp [filterMap_ident_cons, pushIds_append, List.append_assoc]

/-! ### code points, advance, image, lib, note -/

theorem reach_unicodes : ∀ (cs : List Nat) (s : PS), s.mode = .body → (∀ c, c ∈ cs → ValidCodepoint c) →
    Reach rd s (cs.map (fun c => Ev.empty sUnicode (some [(sHex, showCodepoint c)])))
      { s with g := { s.g with codepoints := cs.foldl cpInsert s.g.codepoints } } := by
  intro cs
  induction cs with
  | nil => intro s _ _; exact (Reach.nil s).cast (by simp)
  | cons c r ih =>
    intro s hm hok
    have hp := unicode_roundtrip (cps := s.g.codepoints) (hok c List.mem_cons_self)
    have h1 : step rd s (Ev.empty sUnicode (some [(sHex, showCodepoint c)])) =
        .ok (.inl { s with g := { s.g with codepoints := cpInsert s.g.codepoints c } }) := by
      simp +decide [step, hm, stepBody, bodyEmpty, hp, cont]
    have h2 := ih { s with g := { s.g with codepoints := cpInsert s.g.codepoints c } } hm
      (fun b hb => hok b (List.mem_cons_of_mem _ hb))
    exact (Reach.cons h1 h2).cast (by simp [List.foldl_cons])

theorem step_advance (hc : Codec f rd nc ok) {s : PS} (hm : s.mode = .body) (hs : s.seenAdvance = false)
    {w h : Nat} (hw : ok w) (hh : ok h) :
    step rd s (.empty sAdvance (some (advanceAttrs f w h))) = .ok (.inl
      { s with
        seenAdvance := true
        g := { s.g with width := (if nonZero w then w else 0), height := (if nonZero h then h else 0) } }) := by
  have hp := advance_roundtrip hc hw hh
  simp +decide [step, hm, stepBody, bodyEmpty, hs, hp, cont]

def pImage (nc : Color → Color) (i : Image) : Image :=
  { fileName := i.fileName, color := i.color.map nc, transform := normT i.transform }

theorem step_image (hc : Codec f rd nc ok) {s : PS} (hm : s.mode = .body) (hv : s.ver = 2)
    (hs : s.g.image = none) {i : Image} (hi : ValidImage ok i) :
    step rd s (imageEv f i) = .ok (.inl { s with g := { s.g with image := some (pImage nc i) } }) := by
  have hp := image_roundtrip hc hi
  simp +decide [step, hm, stepBody, imageEv, bodyEmpty, hv, hs, hp, cont, pImage]

theorem reach_lib {s : PS} (hm : s.mode = .body) (hs : s.seenLib = false) (d : Dict) :
    Reach rd s [.startLib (some []) (.dict d), .close sLib]
      { s with
        seenLib := true
        g := { s.g with lib := d } } := by
  refine Reach.cons (s' := { s with seenLib := true, mode := .lib (.dict d) }) ?_ (Reach.one ?_)
  · simp [step, hm, stepBody, hs, cont]
  · simp [step, stepLib, cont, hm]

theorem reach_note {s : PS} (hm : s.mode = .body) (hv : s.ver = 2) (hs : s.g.note = none) {t : Str} (ht : t ≠ []) :
    Reach rd s (.start sNote (some []) :: ((if t.isEmpty then [] else [.text (some t)]) ++ [.close sNote]))
      { s with g := { s.g with note := some t } } := by
  have hte : t.isEmpty = false := by cases t <;> simp_all
  simp only [hte, List.cons_append, List.nil_append]
  refine Reach.cons (s' := { s with mode := .note }) ?_
    (Reach.cons (s' := { s with mode := .note, g := { s.g with note := some t } }) ?_ (Reach.one ?_))
  · simp +decide [step, hm, stepBody, bodyStart, hv, hs, cont]
  · simp [step, stepNote, cont]
  · simp [step, stepNote, cont, hm]

/-! ### outline: components, points, contours -/

structure ComponentOK (ok : Nat → Prop) (k : Component) : Prop where
  base : validName k.base = true
  transform : OkT ok k.transform
  ident : ∀ i, k.ident = some i → validIdent i = true

def pComponent (k : Component) : Component :=
  { base := k.base, transform := normT k.transform, ident := k.ident }

theorem step_component (hc : Codec f rd nc ok) {s : PS} {ob : OB} (hm : s.mode = .outline ob) (hv : s.ver = 2)
    {a : Component} (ha : ComponentOK ok a) (hf : ∀ i, a.ident = some i → i ∉ s.seen) :
    step rd s (componentEv f a) = .ok (.inl
      { s with
        seen := pushIds s.seen a.ident.toList
        mode := .outline { ob with components := ob.components ++ [pComponent a] } }) := by
  have hv' : ValidComponent ok s.seen a := ⟨ha.base, ha.transform, fun i hi => ⟨hf i hi, ha.ident i hi⟩⟩
  have hp := component_roundtrip hc hv'
  simp +decide [step, hm, stepOutline, componentEv, hv, hp, cont, addSeen_eq, pComponent]

theorem reach_components (hc : Codec f rd nc ok) : ∀ (as : List Component) (s : PS) (ob : OB),
    s.mode = .outline ob → s.ver = 2 →
    (∀ a, a ∈ as → ComponentOK ok a) → (as.filterMap (·.ident)).Nodup →
    (∀ i, i ∈ as.filterMap (·.ident) → i ∉ s.seen) →
    Reach rd s (as.map (componentEv f))
      { s with
        seen := pushIds s.seen (as.filterMap (·.ident))
        mode := .outline { ob with components := ob.components ++ as.map pComponent } } := by
  intro as
  induction as with
  | nil => intro s ob hm _ _ _ _; exact (Reach.nil s).cast (by cases s; simp_all [pushIds_nil])
  | cons a r ih =>
    intro s ob hm hv hok hnd hfr
    rw [filterMap_ident_cons] at hnd hfr
    obtain ⟨f1, f2, f3⟩ := fresh_split hnd hfr
    have h1 := step_component hc hm hv (hok a List.mem_cons_self) f1
    have h2 := ih { s with
        seen := pushIds s.seen a.ident.toList
        mode := .outline { ob with components := ob.components ++ [pComponent a] } }
      { ob with components := ob.components ++ [pComponent a] } rfl hv
      (fun b hb => hok b (List.mem_cons_of_mem _ hb)) f2 f3
    refine (Reach.cons h1 h2).cast ?_
    simp [filterMap_ident_cons, pushIds_append, List.append_assoc]

structure PointOK (ok : Nat → Prop) (p : Point) : Prop where
  x : ok p.x
  y : ok p.y
  name : ∀ n, p.name = some n → validName n = true
  ident : ∀ i, p.ident = some i → validIdent i = true

def pPoint (p : Point) : Point :=
  { x := p.x, y := p.y, typ := p.typ, smooth := p.smooth, name := p.name, ident := p.ident }

theorem step_point (hc : Codec f rd nc ok) {s : PS} {ob : OB} {cid : Option Str} {pts : List Point}
    (hm : s.mode = .contour ob cid pts) (hv : s.ver = 2)
    {a : Point} (ha : PointOK ok a) (hf : ∀ i, a.ident = some i → i ∉ s.seen) :
    step rd s (pointEv f a) = .ok (.inl
      { s with
        seen := pushIds s.seen a.ident.toList
        mode := .contour ob cid (pts ++ [pPoint a]) }) := by
  have hv' : ValidPoint ok s.seen a := ⟨ha.x, ha.y, ha.name, fun i hi => ⟨hf i hi, ha.ident i hi⟩⟩
  have hp := point_roundtrip hc hv'
  simp +decide [step, hm, stepContour, pointEv, hv, hp, cont, addSeen_eq, pPoint]

theorem reach_points (hc : Codec f rd nc ok) : ∀ (as : List Point) (s : PS) (ob : OB) (cid : Option Str) (pts : List Point),
    s.mode = .contour ob cid pts → s.ver = 2 →
    (∀ a, a ∈ as → PointOK ok a) → (as.filterMap (·.ident)).Nodup →
    (∀ i, i ∈ as.filterMap (·.ident) → i ∉ s.seen) →
    Reach rd s (as.map (pointEv f))
      { s with
        seen := pushIds s.seen (as.filterMap (·.ident))
        mode := .contour ob cid (pts ++ as.map pPoint) } := by
  intro as
  induction as with
  | nil => intro s ob cid pts hm _ _ _ _; exact (Reach.nil s).cast (by cases s; simp_all [pushIds_nil])
  | cons a r ih =>
    intro s ob cid pts hm hv hok hnd hfr
    rw [filterMap_ident_cons] at hnd hfr
    obtain ⟨f1, f2, f3⟩ := fresh_split hnd hfr
    have h1 := step_point hc hm hv (hok a List.mem_cons_self) f1
    have h2 := ih { s with
        seen := pushIds s.seen a.ident.toList
        mode := .contour ob cid (pts ++ [pPoint a]) } ob cid (pts ++ [pPoint a]) rfl hv
      (fun b hb => hok b (List.mem_cons_of_mem _ hb)) f2 f3
    refine (Reach.cons h1 h2).cast ?_
    simp [filterMap_ident_cons, pushIds_append, List.append_assoc]

structure ContourOK' (ok : Nat → Prop) (c : Contour) : Prop where
  points : ∀ p, p ∈ c.points → PointOK ok p
  legal : C11.accepts (c.points.map toPt) = true
  nonempty : c.points ≠ []
  ident : ∀ i, c.ident = some i → validIdent i = true

def pContour (c : Contour) : Contour := { points := c.points.map pPoint, ident := c.ident }

theorem toPt_pPoint (ps : List Point) : (ps.map pPoint).map toPt = ps.map toPt := by
  simp [List.map_map, Function.comp_def, toPt, pPoint]

theorem toPt_comp_pPoint : toPt ∘ pPoint = toPt := by funext p; simp [toPt, pPoint]

theorem reach_contour (hc : Codec f rd nc ok) {s : PS} {ob : OB} (hm : s.mode = .outline ob) (hv : s.ver = 2)
    {c : Contour} (hok : ContourOK' ok c) (hnd : (cIds c).Nodup) (hfr : ∀ i, i ∈ cIds c → i ∉ s.seen) :
    Reach rd s (contourEvs f c)
      { s with
        seen := pushIds s.seen (cIds c)
        mode := .outline { ob with contours := ob.contours ++ [pContour c] } } := by
  unfold cIds at hnd hfr
  obtain ⟨f1, f2, f3⟩ := fresh_split hnd hfr
  have hcid := contourAttrs_roundtrip (seen := s.seen) (cid := c.ident) (fun i hi => ⟨f1 i hi, hok.ident i hi⟩)
  have h1 : step rd s (.start sContour (some (optAttr "identifier" c.ident))) = .ok (.inl
      { s with
        seen := pushIds s.seen c.ident.toList
        mode := .contour ob c.ident [] }) := by
    simp +decide [step, hm, stepOutline, hv, hcid, cont, addSeen_eq]
  have h2 := reach_points hc c.points { s with
        seen := pushIds s.seen c.ident.toList
        mode := .contour ob c.ident [] } ob c.ident [] rfl hv hok.points f2 f3
  have hne : (c.points.map pPoint).isEmpty = false := by
    cases hp : c.points with
    | nil => exact absurd hp hok.nonempty
    | cons _ _ => simp
  have h3 : step rd { s with
        seen := pushIds (pushIds s.seen c.ident.toList) (c.points.filterMap (·.ident))
        mode := .contour ob c.ident ([] ++ c.points.map pPoint) } (.close sContour) = .ok (.inl
      { s with
        seen := pushIds (pushIds s.seen c.ident.toList) (c.points.filterMap (·.ident))
        mode := .outline { ob with contours := ob.contours ++ [pContour c] } }) := by
    simp [step, stepContour, toPt_comp_pPoint, hok.legal, hne, cont, pContour]
  unfold contourEvs
  refine (Reach.cons h1 (Reach.append h2 (Reach.one h3))).cast ?_
  simp [cIds, pushIds_append]

theorem reach_contours (hc : Codec f rd nc ok) : ∀ (cs : List Contour) (s : PS) (ob : OB),
    s.mode = .outline ob → s.ver = 2 →
    (∀ c, c ∈ cs → ContourOK' ok c) → (cs.flatMap cIds).Nodup →
    (∀ i, i ∈ cs.flatMap cIds → i ∉ s.seen) →
    Reach rd s (cs.flatMap (contourEvs f))
      { s with
        seen := pushIds s.seen (cs.flatMap cIds)
        mode := .outline { ob with contours := ob.contours ++ cs.map pContour } } := by
  intro cs
  induction cs with
  | nil => intro s ob hm _ _ _ _; exact (Reach.nil s).cast (by cases s; simp_all [pushIds_nil])
  | cons c r ih =>
    intro s ob hm hv hok hnd hfr
    rw [List.flatMap_cons] at hnd hfr
    obtain ⟨f1, f2, f3, f4⟩ := fresh_append hnd hfr
    have h1 := reach_contour hc hm hv (hok c List.mem_cons_self) f1 f2
    have h2 := ih { s with
        seen := pushIds s.seen (cIds c)
        mode := .outline { ob with contours := ob.contours ++ [pContour c] } }
      { ob with contours := ob.contours ++ [pContour c] } rfl hv
      (fun b hb => hok b (List.mem_cons_of_mem _ hb)) f3 f4
    rw [List.flatMap_cons]
    refine (Reach.append h1 h2).cast ?_
    simp [List.flatMap_cons, pushIds_append, List.append_assoc]
theorem reach_outline (hc : Codec f rd nc ok) {s : PS} (hm : s.mode = .body) (hv : s.ver = 2)
    (hs : s.seenOutline = false) (cs : List Contour) (ks : List Component)
    (hcs : ∀ c, c ∈ cs → ContourOK' ok c) (hks : ∀ k, k ∈ ks → ComponentOK ok k)
    (hnd : (cs.flatMap cIds ++ ks.filterMap (·.ident)).Nodup)
    (hfr : ∀ i, i ∈ cs.flatMap cIds ++ ks.filterMap (·.ident) → i ∉ s.seen) :
    Reach rd s (if !cs.isEmpty || !ks.isEmpty then
        .start sOutline (some []) :: (cs.flatMap (contourEvs f) ++ ks.map (componentEv f) ++ [.close sOutline])
      else [])
      { s with
        seenOutline := (!cs.isEmpty || !ks.isEmpty)
        seen := pushIds s.seen (cs.flatMap cIds ++ ks.filterMap (·.ident))
        g := { s.g with contours := s.g.contours ++ cs.map pContour, components := s.g.components ++ ks.map pComponent } } := by
  by_cases hcond : (!cs.isEmpty || !ks.isEmpty) = true
  · simp only [hcond, if_true]
    obtain ⟨f1, f2, f3, f4⟩ := fresh_append hnd hfr
    have h1 : step rd s (.start sOutline (some [])) = .ok (.inl { s with seenOutline := true, mode := .outline {} }) := by
      simp [step, hm, stepBody, bodyStart, hs, cont]
    have h2 := reach_contours hc cs { s with seenOutline := true, mode := .outline {} } {} rfl hv hcs f1 f2
    have h3 := reach_components hc ks { s with
        seenOutline := true
        seen := pushIds s.seen (cs.flatMap cIds)
        mode := .outline { contours := [] ++ cs.map pContour, components := [] } }
      { contours := [] ++ cs.map pContour, components := [] } rfl hv hks f3 f4
    have h4 : step rd { s with
        seenOutline := true
        seen := pushIds (pushIds s.seen (cs.flatMap cIds)) (ks.filterMap (·.ident))
        mode := .outline { contours := [] ++ cs.map pContour, components := [] ++ ks.map pComponent } }
        (.close sOutline) = .ok (.inl
      { s with
        seenOutline := true
        seen := pushIds (pushIds s.seen (cs.flatMap cIds)) (ks.filterMap (·.ident))
        mode := .body
        g := { s.g with contours := s.g.contours ++ cs.map pContour, components := s.g.components ++ ks.map pComponent } }) := by
      simp [step, stepOutline, cont, finishOutline, hv]
    refine (Reach.cons h1 (Reach.append (Reach.append h2 h3) (Reach.one h4))).cast ?_
    cases s with | mk g _ _ _ _ _ _ => cases g; simp_all [pushIds_append]
  · have hc1 : cs = [] := by cases cs <;> simp_all
    have hk1 : ks = [] := by cases ks <;> simp_all
    subst hc1; subst hk1
    simp only [hcond]
    exact (Reach.nil s).cast (by cases s with | mk g _ _ _ _ _ _ => cases g; simp_all [pushIds_nil])

theorem reach_advance_block (hc : Codec f rd nc ok) {s : PS} (hm : s.mode = .body) (hs : s.seenAdvance = false)
    {w h : Nat} (hw : ok w) (hh : ok h) :
    Reach rd s (if isNormal w || isNormal h then [.empty sAdvance (some (advanceAttrs f w h))] else [])
      { s with
        seenAdvance := (isNormal w || isNormal h)
        g := { s.g with
          width := (if isNormal w || isNormal h then (if nonZero w then w else 0) else s.g.width)
          height := (if isNormal w || isNormal h then (if nonZero h then h else 0) else s.g.height) } } := by
  by_cases hcond : (isNormal w || isNormal h) = true
  · simp only [hcond, if_true]
    exact Reach.one (step_advance hc hm hs hw hh)
  · simp only [hcond]
    exact (Reach.nil s).cast (by cases s with | mk g _ _ _ _ _ _ => cases g; simp_all)

def imageEvs (f : Fmt) : Option Image → List Ev
  | some i => [imageEv f i]
  | none => []

def noteEvs : Option Str → List Ev
  | some n =>
    let t := trimText n
    .start sNote (some []) :: ((if t.isEmpty then [] else [.text (some t)]) ++ [.close sNote])
  | none => []

theorem reach_image_block (hc : Codec f rd nc ok) {s : PS} (hm : s.mode = .body) (hv : s.ver = 2)
    (hs : s.g.image = none) (img : Option Image) (hi : ∀ i, img = some i → ValidImage ok i) :
    Reach rd s (imageEvs f img)
      { s with g := { s.g with image := img.map (pImage nc) } } := by
  unfold imageEvs
  cases img with
  | none => exact (Reach.nil s).cast (by cases s with | mk g _ _ _ _ _ _ => cases g; simp_all)
  | some i => exact Reach.one (step_image hc hm hv hs (hi i rfl))

theorem reach_lib_block {s : PS} (hm : s.mode = .body) (hs : s.seenLib = false) (hl : s.g.lib = []) (d d' : Dict)
    (hd : d.isEmpty = true → d' = []) :
    Reach rd s (if d.isEmpty then [] else [.startLib (some []) (.dict d'), .close sLib])
      { s with
        seenLib := !d.isEmpty
        g := { s.g with lib := d' } } := by
  by_cases hcond : d.isEmpty = true
  · simp only [hcond, if_true]
    exact (Reach.nil s).cast (by cases s with | mk g _ _ _ _ _ _ => cases g; simp_all)
  · simp only [hcond]
    exact (reach_lib hm hs d').cast (by simp [hcond])

/-- what is read back of the note: its trim, absent when that is empty -/
def pNote : Option Str → Option Str
  | some n => if (trimText n).isEmpty then none else some (trimText n)
  | none => none

theorem reach_note_block {s : PS} (hm : s.mode = .body) (hv : s.ver = 2) (hs : s.g.note = none) (note : Option Str) :
    Reach rd s (noteEvs note)
      { s with g := { s.g with note := pNote note } } := by
  unfold noteEvs
  cases note with
  | none => exact (Reach.nil s).cast (by cases s with | mk g _ _ _ _ _ _ => cases g; simp_all [pNote])
  | some n =>
    by_cases ht : (trimText n).isEmpty = true
    · simp only [ht, if_true, pNote, List.nil_append]
      have h1 : step rd s (.start sNote (some [])) = .ok (.inl { s with mode := .note }) := by
        simp +decide [step, hm, stepBody, bodyStart, hv, hs, cont]
      have h2 : step rd { s with mode := .note } (.close sNote) = .ok (.inl { s with mode := .body }) := by
        simp [step, stepNote, cont]
      refine (Reach.cons h1 (Reach.one h2)).cast ?_
      cases s with | mk g _ _ _ _ _ _ => cases g; simp_all
    · have hne : trimText n ≠ [] := by intro h; simp [h] at ht
      have := reach_note (rd := rd) hm hv hs hne
      have hf : (trimText n).isEmpty = false := by simpa using ht
      simp only [pNote, hf] at this ⊢
      exact this

theorem foldl_cpInsert_nodup : ∀ (cs acc : List Nat), (acc ++ cs).Nodup → cs.foldl cpInsert acc = acc ++ cs := by
  intro cs
  induction cs with
  | nil => intro acc _; simp
  | cons c r ih =>
    intro acc h
    have hc : c ∉ acc := by
      intro hm
      exact (List.nodup_append.1 h).2.2 c hm c List.mem_cons_self rfl
    have : cpInsert acc c = acc ++ [c] := by simp [cpInsert, hc]
    rw [List.foldl_cons, this, ih (acc ++ [c]) (by simpa [List.append_assoc] using h)]
    simp [List.append_assoc]

theorem ids_facts {A G C K : List Str} (h : (A ++ G ++ C ++ K).Nodup) :
    (C ++ K).Nodup ∧ A.Nodup ∧ G.Nodup ∧ (∀ i, i ∈ A → i ∉ C ++ K) ∧ (∀ i, i ∈ G → i ∉ A ∧ i ∉ C ++ K) := by
  obtain ⟨hAGC, hK, d1⟩ := List.nodup_append.1 h
  obtain ⟨hAG, hC, d2⟩ := List.nodup_append.1 hAGC
  obtain ⟨hA, hG, d3⟩ := List.nodup_append.1 hAG
  refine ⟨List.nodup_append.2 ⟨hC, hK, fun a ha b hb => d1 a (List.mem_append_right _ ha) b hb⟩, hA, hG, ?_, ?_⟩
  · intro i hi hm
    rcases List.mem_append.1 hm with hm | hm
    · exact d2 i (List.mem_append_left _ hi) i hm rfl
    · exact d1 i (List.mem_append_left _ (List.mem_append_left _ hi)) i hm rfl
  · intro i hi
    refine ⟨fun hm => d3 i hm i hi rfl, fun hm => ?_⟩
    rcases List.mem_append.1 hm with hm | hm
    · exact d2 i (List.mem_append_right _ hi) i hm rfl
    · exact d1 i (List.mem_append_left _ (List.mem_append_right _ hi)) i hm rfl

/-- the glif validity rules, for a glyph held in memory -/
structure ValidGlyph (ok : Nat → Prop) (g : Glyph) : Prop where
  name : validName g.name = true
  width : ok g.width
  height : ok g.height
  codepoints : ∀ c, c ∈ g.codepoints → ValidCodepoint c
  codepointsNodup : g.codepoints.Nodup
  image : ∀ i, g.image = some i → ValidImage ok i
  anchors : ∀ a, a ∈ g.anchors → AnchorOK ok a
  guidelines : ∀ a, a ∈ g.guidelines → GuidelineOK ok a
  contours : ∀ c, c ∈ g.contours → ContourOK' ok c
  components : ∀ k, k ∈ g.components → ComponentOK ok k
  idents : (Spec.glyphIdents g).Nodup

/-- the glyph the parser has built when it reaches `</glyph>`, before the object libs are moved -/
def preG (f : Fmt) (nc : Color → Color) (g : Glyph) : Glyph :=
  { name := g.name
    width := if isNormal g.width || isNormal g.height then (if nonZero g.width then g.width else 0) else 0
    height := if isNormal g.width || isNormal g.height then (if nonZero g.height then g.height else 0) else 0
    codepoints := g.codepoints
    note := pNote g.note
    guidelines := g.guidelines.map (pGuideline nc)
    anchors := g.anchors.map (pAnchor nc)
    components := g.components.map pComponent
    contours := g.contours.map pContour
    image := g.image.map (pImage nc)
    lib := reindentDict f.indent (writtenLib g) }

theorem reindentDict_nil (ind : Str) : reindentDict ind [] = [] := by simp [reindentDict]

/-- **parse ∘ encode, up to the object libs**: for every valid glyph the parser accepts what the writer produces
    and arrives at `</glyph>` with exactly `preG`; what is returned is `load_object_libs` of it -/
theorem parse_encode (hc : Codec f rd nc ok) {g : Glyph} (hv : ValidGlyph ok g) :
    parseGlif rd (encodeGlif f g) = loadObjectLibs (preG f nc g) := by
  obtain ⟨hCK, hA, hG, dA, dG⟩ := ids_facts (by simpa [Spec.glyphIdents, cIds_def] using hv.idents :
    (g.anchors.filterMap (·.ident) ++ g.guidelines.filterMap (·.ident) ++ g.contours.flatMap cIds ++
      g.components.filterMap (·.ident)).Nodup)
  let s0 : PS := { g := { name := g.name }, ver := 2 }
  have h1 := reach_unicodes (rd := rd) g.codepoints s0 rfl hv.codepoints
  have hall : ∃ s', Reach rd s0
      (g.codepoints.map (fun c => Ev.empty sUnicode (some [(sHex, showCodepoint c)])) ++
      ((if isNormal g.width || isNormal g.height then [Ev.empty sAdvance (some (advanceAttrs f g.width g.height))] else []) ++
      (imageEvs f g.image ++
      ((if !g.contours.isEmpty || !g.components.isEmpty then
          Ev.start sOutline (some []) :: (g.contours.flatMap (contourEvs f) ++ g.components.map (componentEv f) ++ [Ev.close sOutline])
        else []) ++
      (g.anchors.map (anchorEv f) ++
      (g.guidelines.map (guidelineEv f) ++
      ((if (writtenLib g).isEmpty then [] else
          [Ev.startLib (some []) (.dict (reindentDict f.indent (writtenLib g))), Ev.close sLib]) ++
      noteEvs g.note))))))) s' ∧ s'.mode = .body ∧ s'.g = preG f nc g := by
    refine ⟨_, Reach.append h1 (Reach.append (reach_advance_block hc ?_ ?_ hv.width hv.height)
      (Reach.append (reach_image_block hc ?_ ?_ ?_ g.image hv.image)
      (Reach.append (reach_outline hc ?_ ?_ ?_ g.contours g.components hv.contours hv.components hCK ?_)
      (Reach.append (reach_anchors hc g.anchors _ ?_ ?_ hv.anchors hA ?_)
      (Reach.append (reach_guidelines hc g.guidelines _ ?_ ?_ hv.guidelines hG ?_)
      (Reach.append (reach_lib_block ?_ ?_ ?_ (writtenLib g) (reindentDict f.indent (writtenLib g)) ?_)
        (reach_note_block ?_ ?_ ?_ g.note))))))), ?_, ?_⟩
    all_goals first | rfl | skip
    · intro i _; simp [s0]
    · intro i hi
      have := dA i hi
      simpa [s0, mem_pushIds, pushIds_nil] using this
    · intro i hi
      have := dG i hi
      simpa [s0, mem_pushIds, pushIds_nil, not_or, and_comm] using this
    · intro h
      have : writtenLib g = [] := by cases hw : writtenLib g <;> simp_all
      rw [this]; rfl
    · have hcp : g.codepoints.foldl cpInsert [] = g.codepoints := by
        have := foldl_cpInsert_nodup g.codepoints [] (by simpa using hv.codepointsNodup)
        simpa using this
      simp [preG, s0, hcp]
  obtain ⟨s', hr, hm, hg⟩ := hall
  have henc : encodeGlif f g = Ev.decl :: Ev.start sGlyph (some [("name".toList, g.name), ("format".toList, ['2'])]) ::
      ((g.codepoints.map (fun c => Ev.empty sUnicode (some [(sHex, showCodepoint c)])) ++
      ((if isNormal g.width || isNormal g.height then [Ev.empty sAdvance (some (advanceAttrs f g.width g.height))] else []) ++
      (imageEvs f g.image ++
      ((if !g.contours.isEmpty || !g.components.isEmpty then
          Ev.start sOutline (some []) :: (g.contours.flatMap (contourEvs f) ++ g.components.map (componentEv f) ++ [Ev.close sOutline])
        else []) ++
      (g.anchors.map (anchorEv f) ++
      (g.guidelines.map (guidelineEv f) ++
      ((if (writtenLib g).isEmpty then [] else
          [Ev.startLib (some []) (.dict (reindentDict f.indent (writtenLib g))), Ev.close sLib]) ++
      noteEvs g.note))))))) ++ [Ev.close sGlyph]) := by
    unfold encodeGlif imageEvs noteEvs
    cases g.image <;> cases g.note <;> simp [List.append_assoc]
  rw [henc]
  unfold parseGlif
  simp only [scanStart, if_true, glyphAttrs_roundtrip hv.name]
  rw [run_of_reach rd hr]
  cases hl : loadObjectLibs (preG f nc g) with
  | error k => simp [run, step, hm, stepBody, hg, hl]
  | ok g' => simp [run, step, hm, stepBody, hg, hl]

/-- no object carries a lib -/
structure NoObjectLibs (g : Glyph) : Prop where
  anchors : ∀ a, a ∈ g.anchors → a.lib = none
  guidelines : ∀ a, a ∈ g.guidelines → a.lib = none
  contours : ∀ c, c ∈ g.contours → c.lib = none ∧ ∀ p, p ∈ c.points → p.lib = none
  components : ∀ a, a ∈ g.components → a.lib = none

theorem dumpOne_none (id : Option Str) (acc : Dict) : dumpOne id none acc = acc := by
  cases id <;> rfl

theorem foldl_id_of {α β : Type} (fn : β → α → β) (l : List α) (b : β) (h : ∀ a, a ∈ l → ∀ b, fn b a = b) :
    l.foldl fn b = b := by
  induction l generalizing b with
  | nil => rfl
  | cons a r ih =>
    rw [List.foldl_cons, h a List.mem_cons_self b]
    exact ih b (fun x hx => h x (List.mem_cons_of_mem _ hx))

theorem dump_empty_of_no_libs {g : Glyph} (h : NoObjectLibs g) : dumpObjectLibs g = [] := by
  unfold dumpObjectLibs
  simp only
  rw [foldl_id_of _ g.anchors [] (fun a ha b => by rw [h.anchors a ha, dumpOne_none])]
  rw [foldl_id_of _ g.guidelines [] (fun a ha b => by rw [h.guidelines a ha, dumpOne_none])]
  rw [foldl_id_of _ g.contours [] (fun c hc b => by
    rw [(h.contours c hc).1, dumpOne_none]
    exact foldl_id_of _ c.points b (fun p hp b' => by rw [(h.contours c hc).2 p hp, dumpOne_none]))]
  exact foldl_id_of _ g.components [] (fun a ha b => by rw [h.components a ha, dumpOne_none])

theorem isNormal_nonZero {b : Nat} (h : isNormal b = true) : nonZero b = true := by
  cases hz : nonZero b with
  | true => rfl
  | false =>
    simp only [nonZero, Bool.not_eq_false', Bool.or_eq_true, beq_iff_eq] at hz
    rcases hz with rfl | rfl
    · exact absurd h (by decide)
    · exact absurd h (by decide)

/-- the glyph that comes back: colours as their three-decimal strings read, scales within 2^-52 of 1 as 1,
    `-0` offsets as `0`; everything else as it was -/
def normG (nc : Color → Color) (g : Glyph) : Glyph :=
  { g with
    guidelines := g.guidelines.map (pGuideline nc)
    anchors := g.anchors.map (pAnchor nc)
    components := g.components.map pComponent
    contours := g.contours.map pContour
    image := g.image.map (pImage nc) }


end

end Glif
