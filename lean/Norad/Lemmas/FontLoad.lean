import Norad.Model.FontLoad
/-!
Helper lemmas for C17: switch-guarded reads, the layer filter against `extractDefault`, stores.
-/
namespace FontLoad
open AbsFS FontSave

variable {β : Type}

/-! ### switch-guarded reads -/

theorem readOpt_of_true {α : Type} {fs : FS β} {cs} {parse : β → Option α} {name} {v : Option α}
    (h : readOpt true fs cs parse name = .ok v) (sw : Bool) :
    readOpt sw fs cs parse name = .ok (if sw then v else none) := by
  cases sw with
  | true => simpa using h
  | false => simp [readOpt]

theorem readOpt_false {α : Type} {fs : FS β} {cs} {parse : β → Option α} {name} :
    readOpt false fs cs parse name = .ok none := by simp [readOpt]

/-! ### `extractDefault` against `filter` -/

theorem extractDefault_isDefault {l : List ALayer} {d rest} (h : extractDefault l = some (d, rest)) :
    isDefaultLayer d = true := by
  induction l generalizing d rest with
  | nil => simp [extractDefault] at h
  | cons x xs ih =>
    unfold extractDefault at h
    by_cases hx : isDefaultLayer x = true
    · simp [hx] at h; rw [← h.1]; exact hx
    · simp [hx] at h
      cases he : extractDefault xs with
      | none => simp [he] at h
      | some p =>
        obtain ⟨d', r'⟩ := p
        simp [he] at h
        rw [← h.1]; exact ih he

theorem extractDefault_mem {l : List ALayer} {d rest} (h : extractDefault l = some (d, rest)) : d ∈ l := by
  induction l generalizing d rest with
  | nil => simp [extractDefault] at h
  | cons x xs ih =>
    unfold extractDefault at h
    by_cases hx : isDefaultLayer x = true
    · simp [hx] at h; simp [h.1]
    · simp [hx] at h
      cases he : extractDefault xs with
      | none => simp [he] at h
      | some p =>
        obtain ⟨d', r'⟩ := p
        simp [he] at h
        rw [← h.1]; exact List.mem_cons_of_mem _ (ih he)

theorem extractDefault_filter {p : ALayer → Bool} :
    ∀ {l : List ALayer} {d rest}, extractDefault l = some (d, rest) →
    (∀ x ∈ rest, isDefaultLayer x = false) →
    (p d = true → extractDefault (l.filter p) = some (d, rest.filter p)) ∧
    (p d = false → l.filter p = rest.filter p) := by
  intro l
  induction l with
  | nil => intro d rest h; simp [extractDefault] at h
  | cons x xs ih =>
    intro d rest h hrest
    unfold extractDefault at h
    by_cases hx : isDefaultLayer x = true
    · simp [hx] at h
      obtain ⟨rfl, rfl⟩ := h
      constructor
      · intro hp; simp [List.filter, hp, extractDefault, hx]
      · intro hp; simp [List.filter, hp]
    · simp [hx] at h
      cases he : extractDefault xs with
      | none => simp [he] at h
      | some q =>
        obtain ⟨d', r'⟩ := q
        simp [he] at h
        obtain ⟨rfl, rfl⟩ := h
        have hr' : ∀ y ∈ r', isDefaultLayer y = false := fun y hy => hrest y (List.mem_cons_of_mem _ hy)
        obtain ⟨ih1, ih2⟩ := ih he hr'
        constructor
        · intro hp
          by_cases hpx : p x = true
          · simp [List.filter, hpx, extractDefault, hx, ih1 hp]
          · simp [List.filter, hpx, ih1 hp]
        · intro hp
          by_cases hpx : p x = true
          · simp [List.filter, hpx, ih2 hp]
          · simp [List.filter, hpx, ih2 hp]

theorem extractDefault_append_placeholder :
    ∀ {l : List ALayer}, (∀ x ∈ l, isDefaultLayer x = false) →
    extractDefault (l ++ [placeholder]) = some (placeholder, l) := by
  intro l
  induction l with
  | nil => intro _; simp [extractDefault, isDefaultLayer, placeholder]
  | cons x xs ih =>
    intro h
    have hx : isDefaultLayer x = false := h x (List.mem_cons_self ..)
    have := ih (fun y hy => h y (List.mem_cons_of_mem _ hy))
    simp [extractDefault, hx, this]

theorem any_false_of_forall {l : List ALayer} (h : ∀ x ∈ l, isDefaultLayer x = false) :
    l.any isDefaultLayer = false := by
  simp only [List.any_eq_false]
  intro x hx; simp [h x hx]

/-- the default layer is selected by every request that includes the default layer -/
theorem shouldLoad_default {r : Request} {d : ALayer} (hd : isDefaultLayer d = true)
    (hinc : includesDefault r = true) : shouldLoad r d.name d.dir = true := by
  have hdir : d.dir = glyphsDir := by simpa [isDefaultLayer] using hd
  unfold includesDefault at hinc
  unfold shouldLoad
  cases hall : r.all with
  | true => simp
  | false =>
    have : r.loadDefault = true := by simpa [hall] using hinc
    simp [this, hdir]

/-- **layer core of C17**: finishing the filtered list of loaded layers gives the restriction of the
    finished full list — placeholder logic and move-to-front included -/
theorem finishLayers_filter {r : Request} {ls full : List ALayer}
    (hfull : finishLayers Request.everything ls = .ok full)
    (hone : ∀ x ∈ full.tail, isDefaultLayer x = false) :
    finishLayers r (ls.filter fun l => shouldLoad r l.name l.dir) = .ok (restrictLayers r full) := by
  unfold finishLayers at hfull
  simp only [includesDefault, Request.everything, Bool.true_or, Bool.not_true, Bool.false_and,
    Bool.false_eq_true, if_false] at hfull
  cases he : extractDefault ls with
  | none => simp [he] at hfull
  | some q =>
    obtain ⟨d, rest⟩ := q
    simp only [he] at hfull
    have hf : full = d :: rest := by cases hfull; rfl
    subst hf
    have hrest : ∀ x ∈ rest, isDefaultLayer x = false := by simpa using hone
    have hd := extractDefault_isDefault he
    obtain ⟨h1, h2⟩ := extractDefault_filter (p := fun l => shouldLoad r l.name l.dir) he hrest
    have hrestf : ∀ x ∈ rest.filter (fun l => shouldLoad r l.name l.dir), isDefaultLayer x = false :=
      fun x hx => hrest x (List.mem_filter.mp hx).1
    cases hp : shouldLoad r d.name d.dir with
    | true =>
      have hany : (ls.filter fun l => shouldLoad r l.name l.dir).any isDefaultLayer = true := by
        simp only [List.any_eq_true]
        refine ⟨d, ?_, hd⟩
        have hmem : d ∈ ls := extractDefault_mem he
        exact List.mem_filter.mpr ⟨hmem, hp⟩
      unfold finishLayers
      simp only [hany, Bool.not_true, Bool.and_false, Bool.false_eq_true, if_false, h1 hp]
      unfold restrictLayers
      simp [List.filter, hp, hd]
    | false =>
      have hinc : includesDefault r = false := by
        cases hi : includesDefault r with
        | false => rfl
        | true => rw [shouldLoad_default hd hi] at hp; cases hp
      unfold finishLayers
      rw [h2 hp]
      simp only [hinc, any_false_of_forall hrestf, Bool.not_false, Bool.and_self, if_true,
        extractDefault_append_placeholder hrestf]
      unfold restrictLayers
      simp [List.filter, hp, hinc, any_false_of_forall hrestf]

theorem finishLayers_default_first {r : Request} {ls out : List ALayer}
    (h : finishLayers r ls = .ok out) : ∃ d rest, out = d :: rest ∧ isDefaultLayer d = true := by
  unfold finishLayers at h
  generalize (if (!includesDefault r && !ls.any isDefaultLayer) = true then ls ++ [placeholder] else ls) = ls' at h
  cases he : extractDefault ls' with
  | none => simp [he] at h
  | some q =>
    obtain ⟨d, rest⟩ := q
    simp only [he] at h
    cases h
    exact ⟨d, rest, rfl, extractDefault_isDefault he⟩

end FontLoad
