import Norad.Model.FontLoad
/-!
Helper lemmas for C17: switch-guarded reads, the layer filter against `extractDefault`, stores.
-/
namespace FontLoad
open AbsFS FontSave

variable {β : Type}

/-! ### switch-guarded reads -/

theorem readOpt_of_true {α : Type} {fs : FS β} {cs} {parse : β → Option α} {name} {v : Option α}
    (h : readOpt true fs cs parse name = .ok v) (sw : Bool) :
    readOpt sw fs cs parse name = .ok (if sw then v else none) := by
  cases sw with
  | true => simpa using h
  | false => simp [readOpt]

theorem readOpt_false {α : Type} {fs : FS β} {cs} {parse : β → Option α} {name} :
    readOpt false fs cs parse name = .ok none := by simp [readOpt]

/-! ### `extractDefault` against `filter` -/

theorem extractDefault_isDefault {l : List ALayer} {d rest} (h : extractDefault l = some (d, rest)) :
    isDefaultLayer d = true := by
  induction l generalizing d rest with
  | nil => simp [extractDefault] at h
  | cons x xs ih =>
    unfold extractDefault at h
    by_cases hx : isDefaultLayer x = true
    · simp [hx] at h; rw [← h.1]; exact hx
    · simp [hx] at h
      cases he : extractDefault xs with
      | none => simp [he] at h
      | some p =>
        obtain ⟨d', r'⟩ := p
        simp [he] at h
        rw [← h.1]; exact ih he

theorem extractDefault_mem {l : List ALayer} {d rest} (h : extractDefault l = some (d, rest)) : d ∈ l := by
  induction l generalizing d rest with
  | nil => simp [extractDefault] at h
  | cons x xs ih =>
    unfold extractDefault at h
    by_cases hx : isDefaultLayer x = true
    · simp [hx] at h; simp [h.1]
    · simp [hx] at h
      cases he : extractDefault xs with
      | none => simp [he] at h
      | some p =>
        obtain ⟨d', r'⟩ := p
        simp [he] at h
        rw [← h.1]; exact List.mem_cons_of_mem _ (ih he)

theorem extractDefault_filter {p : ALayer → Bool} :
    ∀ {l : List ALayer} {d rest}, extractDefault l = some (d, rest) →
    (∀ x ∈ rest, isDefaultLayer x = false) →
    (p d = true → extractDefault (l.filter p) = some (d, rest.filter p)) ∧
    (p d = false → l.filter p = rest.filter p) := by
  intro l
  induction l with
  | nil => intro d rest h; simp [extractDefault] at h
  | cons x xs ih =>
    intro d rest h hrest
    unfold extractDefault at h
    by_cases hx : isDefaultLayer x = true
    · simp [hx] at h
      obtain ⟨rfl, rfl⟩ := h
      constructor
      · intro hp; simp [List.filter, hp, extractDefault, hx]
      · intro hp; simp [List.filter, hp]
    · simp [hx] at h
      cases he : extractDefault xs with
      | none => simp [he] at h
      | some q =>
        obtain ⟨d', r'⟩ := q
        simp [he] at h
        obtain ⟨rfl, rfl⟩ := h
        have hr' : ∀ y ∈ r', isDefaultLayer y = false := fun y hy => hrest y (List.mem_cons_of_mem _ hy)
        obtain ⟨ih1, ih2⟩ := ih he hr'
        constructor
        · intro hp
          by_cases hpx : p x = true
          · simp [List.filter, hpx, extractDefault, hx, ih1 hp]
          · simp [List.filter, hpx, ih1 hp]
        · intro hp
          by_cases hpx : p x = true
          · simp [List.filter, hpx, ih2 hp]
          · simp [List.filter, hpx, ih2 hp]

theorem extractDefault_append_placeholder :
    ∀ {l : List ALayer}, (∀ x ∈ l, isDefaultLayer x = false) →
    extractDefault (l ++ [placeholder]) = some (placeholder, l) := by
  intro l
  induction l with
  | nil => intro _; simp [extractDefault, isDefaultLayer, placeholder]
  | cons x xs ih =>
    intro h
    have hx : isDefaultLayer x = false := h x (List.mem_cons_self ..)
    have := ih (fun y hy => h y (List.mem_cons_of_mem _ hy))
    simp [extractDefault, hx, this]

theorem any_false_of_forall {l : List ALayer} (h : ∀ x ∈ l, isDefaultLayer x = false) :
    l.any isDefaultLayer = false := by
  simp only [List.any_eq_false]
  intro x hx; simp [h x hx]

/-- the default layer is selected by every request that includes the default layer -/
theorem shouldLoad_default {r : Request} {d : ALayer} (hd : isDefaultLayer d = true)
    (hinc : includesDefault r = true) : shouldLoad r d.name d.dir = true := by
  have hdir : d.dir = glyphsDir := by simpa [isDefaultLayer] using hd
  unfold includesDefault at hinc
  unfold shouldLoad
  cases hall : r.all with
  | true => simp
  | false =>
    have : r.loadDefault = true := by simpa [hall] using hinc
    simp [this, hdir]

/-- **layer core of C17**: finishing the filtered list of loaded layers gives the restriction of the
    finished full list — placeholder logic and move-to-front included -/
theorem finishLayers_filter {r : Request} {ls full : List ALayer}
    (hfull : finishLayers Request.everything ls = .ok full)
    (hone : ∀ x ∈ full.tail, isDefaultLayer x = false) :
    finishLayers r (ls.filter fun l => shouldLoad r l.name l.dir) = .ok (restrictLayers r full) := by
  unfold finishLayers at hfull
  simp only [includesDefault, Request.everything, Bool.true_or, Bool.not_true, Bool.false_and,
    Bool.false_eq_true, if_false] at hfull
  cases he : extractDefault ls with
  | none => simp [he] at hfull
  | some q =>
    obtain ⟨d, rest⟩ := q
    simp only [he] at hfull
    have hf : full = d :: rest := by cases hfull; rfl
    subst hf
    have hrest : ∀ x ∈ rest, isDefaultLayer x = false := by simpa using hone
    have hd := extractDefault_isDefault he
    obtain ⟨h1, h2⟩ := extractDefault_filter (p := fun l => shouldLoad r l.name l.dir) he hrest
    have hrestf : ∀ x ∈ rest.filter (fun l => shouldLoad r l.name l.dir), isDefaultLayer x = false :=
      fun x hx => hrest x (List.mem_filter.mp hx).1
    cases hp : shouldLoad r d.name d.dir with
    | true =>
      have hany : (ls.filter fun l => shouldLoad r l.name l.dir).any isDefaultLayer = true := by
        simp only [List.any_eq_true]
        refine ⟨d, ?_, hd⟩
        have hmem : d ∈ ls := extractDefault_mem he
        exact List.mem_filter.mpr ⟨hmem, hp⟩
      unfold finishLayers
      simp only [hany, Bool.not_true, Bool.and_false, Bool.false_eq_true, if_false, h1 hp]
      unfold restrictLayers
      simp [List.filter, hp, hd]
    | false =>
      have hinc : includesDefault r = false := by
        cases hi : includesDefault r with
        | false => rfl
        | true => rw [shouldLoad_default hd hi] at hp; cases hp
      unfold finishLayers
      rw [h2 hp]
      simp only [hinc, any_false_of_forall hrestf, Bool.not_false, Bool.and_self, if_true,
        extractDefault_append_placeholder hrestf]
      unfold restrictLayers
      simp [List.filter, hp, hinc, any_false_of_forall hrestf]

theorem finishLayers_default_first {r : Request} {ls out : List ALayer}
    (h : finishLayers r ls = .ok out) : ∃ d rest, out = d :: rest ∧ isDefaultLayer d = true := by
  unfold finishLayers at h
  generalize (if (!includesDefault r && !ls.any isDefaultLayer) = true then ls ++ [placeholder] else ls) = ls' at h
  cases he : extractDefault ls' with
  | none => simp [he] at h
  | some q =>
    obtain ⟨d, rest⟩ := q
    simp only [he] at h
    cases h
    exact ⟨d, rest, rfl, extractDefault_isDefault he⟩

end FontLoad

namespace FontLoad
open AbsFS FontSave

variable {β : Type}

/-! ### the single-file parts under a request -/

def stripLibs (i : AInfo) : AInfo := { i with guides := i.guides.map fun g => { g with lib := none } }

def restrictScalars (r : Request) (sc : Scalars) : Scalars :=
  { sc with
    lib := if r.lib then sc.lib else [],
    info := if r.lib then sc.info else stripLibs sc.info,
    groups := if r.groups then sc.groups else 0,
    kerning := if r.kerning then sc.kerning else 0,
    features := if r.features then sc.features else 0 }

theorem libStage_of_true {P : Parser β} {fs : FS β} {t : APath} {l}
    (h : libStage P fs t true = .ok l) (sw : Bool) :
    libStage P fs t sw = .ok (if sw then l else []) := by
  cases sw with
  | true => simpa using h
  | false => simp [libStage, readOpt]

theorem groupsStage_of_true {P : Parser β} {fs : FS β} {t : APath} {g}
    (h : groupsStage P fs t true = .ok g) (sw : Bool) :
    groupsStage P fs t sw = .ok (if sw then g else 0) := by
  cases sw with
  | true => simpa using h
  | false => simp [groupsStage, readOpt]

theorem tokStage_of_true {fs : FS β} {t : APath} {name} {parse : β → Option Nat} {g}
    (h : tokStage fs t true name parse = .ok g) (sw : Bool) :
    tokStage fs t sw name parse = .ok (if sw then g else 0) := by
  cases sw with
  | true => simpa using h
  | false => simp [tokStage, readOpt]

theorem assignLibs_strip (ol : List (Str × Option Nat)) :
    ∀ (gs : List (Option Str)) (out : List AGuide), assignLibs ol gs = some out →
      out.map (fun g => { g with lib := none }) = gs.map fun g => ({ ident := g, lib := none } : AGuide) := by
  intro gs
  induction gs with
  | nil => intro out h; simp [assignLibs] at h; subst h; rfl
  | cons g r ih =>
    intro out h
    unfold assignLibs at h
    cases hr : assignLibs ol r with
    | none => simp [hr] at h
    | some t =>
      simp only [hr] at h
      have iht := ih t hr
      cases g with
      | none => simp at h; subst h; simp [iht]
      | some i =>
        simp only at h
        cases hk : lookupKey i ol with
        | none => simp [hk] at h; subst h; simp [iht]
        | some v =>
          cases v with
          | none => simp [hk] at h
          | some l => simp [hk] at h; subst h; simp [iht]

theorem infoStage_without_lib {infoFile : Option InfoFile} {lib0 : List (Str × LVal)} {info lib}
    (h : infoStage infoFile lib0 = .ok (info, lib)) :
    infoStage infoFile [] = .ok (stripLibs info, []) := by
  cases infoFile with
  | none =>
    simp only [infoStage] at h ⊢
    cases h
    rfl
  | some i =>
    simp only [infoStage, loadFontInfo] at h ⊢
    by_cases hv : i.valid = true
    · simp only [hv, Bool.not_true, Bool.false_eq_true, if_false, lookupKey] at h ⊢
      cases hk : lookupKey objectLibsKey lib0 with
      | none =>
        simp only [hk] at h
        cases h
        simp [stripLibs]
      | some v =>
        cases v with
        | v n => simp [hk] at h
        | objNotDict => simp [hk] at h
        | objDict ol =>
          simp only [hk] at h
          cases ha : assignLibs ol i.guides with
          | none => simp [ha] at h
          | some gs =>
            simp only [ha] at h
            cases h
            have := assignLibs_strip ol i.guides gs ha
            simp [stripLibs, this]
    · simp [hv] at h

theorem loadScalars_restrict {P : Parser β} {fs : FS β} {t : APath} {sc : Scalars} (r : Request)
    (h : loadScalars P fs t Request.everything = .ok sc) :
    loadScalars P fs t r = .ok (restrictScalars r sc) := by
  unfold loadScalars at h ⊢
  cases hn : node fs t with
  | none => simp [hn] at h
  | some nd =>
    cases nd with
    | file b => simp [hn] at h
    | dir =>
      simp only [hn] at h ⊢
      by_cases hm : existsAt fs (sub t "metainfo.plist") = true
      · simp only [hm, Bool.not_true, Bool.false_eq_true, if_false] at h ⊢
        cases hmeta : readParsed fs (sub t "metainfo.plist") P.metainfo "metainfo.plist" with
        | error e => simp [hmeta] at h
        | ok vm =>
          obtain ⟨version, metaTok⟩ := vm
          simp only [hmeta] at h ⊢
          by_cases hv : version = 3
          · simp only [hv, ne_eq, not_true_eq_false, if_false] at h ⊢
            cases hlib : libStage P fs t true with
            | error e => simp [Request.everything, hlib] at h
            | ok lib0 =>
              simp only [Request.everything, hlib] at h
              rw [libStage_of_true hlib r.lib]
              simp only
              cases hinfo : readOpt true fs (sub t "fontinfo.plist") P.fontinfo "fontinfo.plist" with
              | error e => simp [hinfo] at h
              | ok infoFile =>
                simp only [hinfo] at h ⊢
                cases his : infoStage infoFile lib0 with
                | error e => simp [his] at h
                | ok il =>
                  obtain ⟨info, lib⟩ := il
                  simp only [his] at h
                  cases hg : groupsStage P fs t true with
                  | error e => simp [hg] at h
                  | ok groups =>
                    simp only [hg] at h
                    cases hk : tokStage fs t true "kerning.plist" P.kerning with
                    | error e => simp [hk] at h
                    | ok kerning =>
                      simp only [hk] at h
                      cases hf : tokStage fs t true "features.fea" P.features with
                      | error e => simp [hf] at h
                      | ok features =>
                        simp only [hf] at h
                        cases h
                        rw [groupsStage_of_true hg r.groups, tokStage_of_true hk r.kerning,
                          tokStage_of_true hf r.features]
                        cases hrl : r.lib with
                        | true => simp [his, restrictScalars, hrl]
                        | false =>
                          simp [infoStage_without_lib his, restrictScalars, hrl]
          · simp [hv] at h
      · simp [hm] at h

/-! ### layers -/

theorem loadLayer_spec {P : Parser β} {fs : FS β} {t : APath} {n d : Str} {l : ALayer}
    (h : loadLayer P fs t n d = .ok l) :
    l.name = n ∧ lastName (joinRel (tC t) (Path.parse d)) = some l.dir := by
  unfold loadLayer at h
  simp only at h
  split at h
  · cases h
  · split at h
    · cases h
    · split at h
      · cases h
      · split at h
        · cases h
        · split at h
          · cases h
          · rename_i dn hdn
            cases h
            exact ⟨rfl, hdn⟩

theorem shouldLoad_everything (n d : Str) : shouldLoad Request.everything n d = true := by
  simp [shouldLoad, Request.everything]

theorem loadLayers_filter {P : Parser β} {fs : FS β} {t : APath} (r : Request) :
    ∀ {lc : List (Str × Str)} {ls : List ALayer},
      loadLayers P fs t Request.everything lc = .ok ls →
      (∀ e ∈ lc, lastName (joinRel (tC t) (Path.parse e.2)) = some e.2) →
      loadLayers P fs t r lc = .ok (ls.filter fun l => shouldLoad r l.name l.dir) := by
  intro lc
  induction lc with
  | nil => intro ls h _; simp only [loadLayers] at h ⊢; cases h; rfl
  | cons e rest ih =>
    intro ls h hplain
    obtain ⟨n, d⟩ := e
    unfold loadLayers at h ⊢
    simp only [shouldLoad_everything, if_true] at h
    cases hl : loadLayer P fs t n d with
    | error x => simp [hl] at h
    | ok l =>
      simp only [hl] at h
      cases hr : loadLayers P fs t Request.everything rest with
      | error x => simp [hr] at h
      | ok ls' =>
        simp only [hr] at h
        cases h
        have ih' := ih hr (fun e he => hplain e (List.mem_cons_of_mem _ he))
        obtain ⟨hname, hdir⟩ := loadLayer_spec hl
        have hd : l.dir = d := by
          have := hplain (n, d) (List.mem_cons_self ..)
          simp only at this
          rw [this] at hdir
          cases hdir; rfl
        have hsame : shouldLoad r l.name l.dir = shouldLoad r n d := by rw [hname, hd]
        by_cases hs : shouldLoad r n d = true
        · simp only [hs, if_true, hl, ih']
          simp [List.filter, hsame, hs]
        · simp only [hs, Bool.false_eq_true, if_false, ih']
          simp [List.filter, hsame, hs]

theorem loadLayerSet_restrict {P : Parser β} {fs : FS β} {t : APath} {full : List ALayer} (r : Request)
    (h : loadLayerSet P fs t Request.everything = .ok full)
    (hone : ∀ x ∈ full.tail, isDefaultLayer x = false)
    (hplain : ∀ lc, readParsed fs (sub t "layercontents.plist") P.layercontents "layercontents.plist" = .ok lc →
      ∀ e ∈ lc, lastName (joinRel (tC t) (Path.parse e.2)) = some e.2) :
    loadLayerSet P fs t r = .ok (restrictLayers r full) := by
  unfold loadLayerSet at h ⊢
  simp only at h ⊢
  by_cases hex : existsAt fs (sub t "layercontents.plist") = true
  · simp only [hex, Bool.not_true, Bool.false_eq_true, if_false] at h ⊢
    cases hlc : readParsed fs (sub t "layercontents.plist") P.layercontents "layercontents.plist" with
    | error e => simp [hlc] at h
    | ok lc =>
      simp only [hlc] at h ⊢
      cases hls : loadLayers P fs t Request.everything lc with
      | error e => simp [hls] at h
      | ok ls =>
        simp only [hls] at h
        rw [loadLayers_filter r hls (hplain lc hlc)]
        exact finishLayers_filter h hone
  · simp [hex] at h

/-! ### stores -/

theorem loadStore_of_true {kind : StoreKind} {fs : FS β} {t : APath} {s : Store β}
    (h : loadStore true kind fs t = .ok s) (sw : Bool) :
    loadStore sw kind fs t = .ok (if sw then s else emptyStore) := by
  cases sw with
  | true => simpa using h
  | false => simp [loadStore, emptyStore]

end FontLoad
