import Norad.Lemmas.C18
import Std.Data.String.ToNat
import Std.Data.String.ToInt
/-!
# C18 — `CodecLaws` is satisfiable: `refCodec`

Discharged for the implementations the driver runs: decimal integers (`Int.repr`, `String.toInt?` with the
`i64`/`u64` range tests) and base64 (`b64enc`/`b64dec`).  The float and date components of `refCodec` are
stand-ins (an injective decimal rendering); for Rust's shortest-round-trip float `Display` and the `time`
crate's RFC 3339 dates the laws remain hypotheses, checked per string by the driver.
-/
namespace C18

theorem safe_of_isDigit (ch : Char) (h : ch.isDigit = true) : safeChar ch = true := by
  rw [Char.isDigit_iff_toNat] at h
  have h0 : '0'.toNat = 48 := rfl
  have h9 : '9'.toNat = 57 := rfl
  simp only [safeChar, Bool.and_eq_true, decide_eq_true_eq]
  omega

theorem nat_repr_digits (n : Nat) : ∀ ch ∈ n.repr.toList, ch.isDigit = true := by
  intro ch hch
  rw [Nat.toList_repr] at hch
  exact Nat.isDigit_of_mem_toDigits (by omega) (by omega) hch

theorem nat_repr_safe (n : Nat) : n.repr.toList.all safeChar = true :=
  List.all_eq_true.2 (fun ch hch => safe_of_isDigit ch (nat_repr_digits n ch hch))

theorem nat_repr_ne (n : Nat) : n.repr.toList ≠ [] := by
  rw [Nat.toList_repr]; exact Nat.toDigits_ne_nil

/-- every character of a printed integer is a digit or the minus sign -/
theorem int_repr_chars (i : Int) : ∀ ch ∈ i.repr.toList, ch.isDigit = true ∨ ch = '-' := by
  intro ch hch
  rw [Int.repr_eq_if] at hch
  split at hch
  · exact Or.inl (nat_repr_digits _ ch hch)
  · simp only [String.toList_append, List.mem_append] at hch
    rcases hch with h | h
    · right; simpa using h
    · exact Or.inl (nat_repr_digits _ ch h)

theorem int_repr_safe (i : Int) : (intShow i).toList.all safeChar = true := by
  apply List.all_eq_true.2
  intro ch hch
  rcases int_repr_chars i ch hch with h | h
  · exact safe_of_isDigit ch h
  · subst h; decide

theorem int_repr_no0x (i : Int) : hasPrefix0x (intShow i) = false := by
  unfold hasPrefix0x
  split
  · rename_i r heq
    have : 'x' ∈ (intShow i).toList := by rw [heq]; simp
    rcases int_repr_chars i 'x' this with h | h
    · exact absurd h (by decide)
    · exact absurd h (by decide)
  · rfl

theorem parseI64_show (i : Int) (h1 : i64Min ≤ i) (h2 : i ≤ i64Max) : parseI64 (intShow i) = some i := by
  simp [parseI64, intShow, h1, h2]

theorem parseU64_show (i : Int) (h1 : i64Max < i) (h2 : i ≤ u64Max) :
    parseI64 (intShow i) = none ∧ parseU64 (intShow i) = some i := by
  have h0 : (0 : Int) ≤ i := by unfold i64Max at h1; omega
  have h3 : ¬ i ≤ i64Max := by omega
  simp [parseI64, parseU64, intShow, h3, h2, h0]

/-! ## base64 -/

theorem b64val_char : ∀ i, i < 64 → b64val (b64char i) = some i := by decide

theorem b64char_ne_pad : ∀ i, i < 64 → b64char i ≠ '=' := by decide

theorem b64char_safe : ∀ i, i < 64 → safeChar (b64char i) = true := by decide

theorem b64_rt : ∀ bs : List UInt8, b64dec (b64enc bs) = some bs
  | [] => rfl
  | [a] => by
    have ha := a.toNat_lt
    have e1 := b64val_char (a.toNat * 65536 / 262144 % 64) (by omega)
    have e2 := b64val_char (a.toNat * 65536 / 4096 % 64) (by omega)
    simp only [b64enc, b64dec, e1, e2]
    have : a.toNat * 65536 / 4096 % 64 % 16 = 0 := by omega
    simp only [this, if_true, ne_eq, not_true_eq_false, if_false]
    have : (a.toNat * 65536 / 262144 % 64 * 64 + a.toNat * 65536 / 4096 % 64) / 16 = a.toNat := by omega
    simp [this]
  | [a, b] => by
    have ha := a.toNat_lt
    have hb := b.toNat_lt
    have e1 := b64val_char ((a.toNat * 65536 + b.toNat * 256) / 262144 % 64) (by omega)
    have e2 := b64val_char ((a.toNat * 65536 + b.toNat * 256) / 4096 % 64) (by omega)
    have e3 := b64val_char ((a.toNat * 65536 + b.toNat * 256) / 64 % 64) (by omega)
    have n3 := b64char_ne_pad ((a.toNat * 65536 + b.toNat * 256) / 64 % 64) (by omega)
    simp only [b64enc, b64dec, e1, e2, e3, n3]
    have h4 : (((a.toNat * 65536 + b.toNat * 256) / 262144 % 64 * 64 + (a.toNat * 65536 + b.toNat * 256) / 4096 % 64) * 64 +
        (a.toNat * 65536 + b.toNat * 256) / 64 % 64) % 4 = 0 := by omega
    have h5 : (((a.toNat * 65536 + b.toNat * 256) / 262144 % 64 * 64 + (a.toNat * 65536 + b.toNat * 256) / 4096 % 64) * 64 +
        (a.toNat * 65536 + b.toNat * 256) / 64 % 64) / 1024 = a.toNat := by omega
    have h6 : (((a.toNat * 65536 + b.toNat * 256) / 262144 % 64 * 64 + (a.toNat * 65536 + b.toNat * 256) / 4096 % 64) * 64 +
        (a.toNat * 65536 + b.toNat * 256) / 64 % 64) / 4 % 256 = b.toNat := by omega
    simp [h4, h5, h6]
  | a :: b :: c :: r => by
    have ha := a.toNat_lt
    have hb := b.toNat_lt
    have hc := c.toNat_lt
    have e1 := b64val_char ((a.toNat * 65536 + b.toNat * 256 + c.toNat) / 262144 % 64) (by omega)
    have e2 := b64val_char ((a.toNat * 65536 + b.toNat * 256 + c.toNat) / 4096 % 64) (by omega)
    have e3 := b64val_char ((a.toNat * 65536 + b.toNat * 256 + c.toNat) / 64 % 64) (by omega)
    have e4 := b64val_char ((a.toNat * 65536 + b.toNat * 256 + c.toNat) % 64) (by omega)
    have n4 := b64char_ne_pad ((a.toNat * 65536 + b.toNat * 256 + c.toNat) % 64) (by omega)
    simp only [b64enc, b64dec, e1, e2, e3, e4, n4, b64_rt r, if_false]
    have h5 : ((((a.toNat * 65536 + b.toNat * 256 + c.toNat) / 262144 % 64 * 64 +
        (a.toNat * 65536 + b.toNat * 256 + c.toNat) / 4096 % 64) * 64 +
        (a.toNat * 65536 + b.toNat * 256 + c.toNat) / 64 % 64) * 64 +
        (a.toNat * 65536 + b.toNat * 256 + c.toNat) % 64) = a.toNat * 65536 + b.toNat * 256 + c.toNat := by omega
    rw [h5]
    have h6 : (a.toNat * 65536 + b.toNat * 256 + c.toNat) / 65536 = a.toNat := by omega
    have h7 : (a.toNat * 65536 + b.toNat * 256 + c.toNat) / 256 % 256 = b.toNat := by omega
    have h8 : (a.toNat * 65536 + b.toNat * 256 + c.toNat) % 256 = c.toNat := by omega
    simp [h6, h7, h8]

theorem b64_safe : ∀ bs : List UInt8, (b64enc bs).all safeChar = true
  | [] => rfl
  | [a] => by
    have ha := a.toNat_lt
    simp [b64enc, b64char_safe _ (show a.toNat * 65536 / 262144 % 64 < 64 by omega),
      b64char_safe _ (show a.toNat * 65536 / 4096 % 64 < 64 by omega)]
    decide
  | [a, b] => by
    simp [b64enc, b64char_safe _ (Nat.mod_lt _ (by decide : 64 > 0))]
    decide
  | a :: b :: c :: r => by
    simp [b64enc, b64char_safe _ (Nat.mod_lt _ (by decide : 64 > 0)), b64_safe r]

end C18

namespace C18

/-- `CodecLaws` holds of the reference codec: the hypothesis of the C18 theorems is satisfiable, and its
    integer and base64 parts hold of the very functions the driver runs against Rust's output -/
theorem codecLaws_refCodec : CodecLaws refCodec where
  f32_rt x _ := by simp [refCodec]
  f32_ne x := nat_repr_ne _
  f32_safe x := nat_repr_safe _
  f64_rt x _ := by simp [refCodec]
  f64_safe x := nat_repr_safe _
  int_i64 := parseI64_show
  int_u64 := parseU64_show
  int_no0x := int_repr_no0x
  int_safe := int_repr_safe
  data_rt d := by simp [refCodec, b64_rt]
  data_safe d := by simp only [refCodec, String.toList_ofList]; exact b64_safe d
  date_rt d s h := by
    simp only [refCodec] at h ⊢
    split at h
    · rename_i hr
      simp only [Option.some.injEq] at h
      subst h
      simp only [Nat.toNat?_repr, Option.map_some, Option.some.injEq]
      obtain ⟨secs, nanos⟩ := d
      simp only at hr ⊢
      congr 1
      · have : (secs - dateLo).toNat * 1000000000 + nanos = nanos + 1000000000 * (secs - dateLo).toNat := by omega
        rw [this, Nat.add_mul_div_left _ _ (by decide), Nat.div_eq_of_lt hr.2.2]
        simp only [dateLo] at hr ⊢
        omega
      · omega
    · exact absurd h (by simp)
  date_safe d s h := by
    simp only [refCodec] at h
    split at h
    · simp only [Option.some.injEq] at h; subst h; exact nat_repr_safe _
    · exact absurd h (by simp)

end C18
