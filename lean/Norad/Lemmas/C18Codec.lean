import Norad.Lemmas.C18
import Std.Data.String.ToNat
import Std.Data.String.ToInt
/-!
# C18 — `CodecLaws` is satisfiable: `refCodec`

Discharged for the implementations the driver runs: decimal integers (`Int.repr`, `String.toInt?` with the
`i64`/`u64` range tests) and base64 (`b64enc`/`b64dec`).  The float and date components of `refCodec` are
stand-ins (an injective decimal rendering); for Rust's shortest-round-trip float `Display` and the `time`
crate's RFC 3339 dates the laws remain hypotheses, checked per string by the driver.
-/
namespace C18

theorem safe_of_isDigit (ch : Char) (h : ch.isDigit = true) : safeChar ch = true := by
  rw [Char.isDigit_iff_toNat] at h
  have h0 : '0'.toNat = 48 := rfl
  have h9 : '9'.toNat = 57 := rfl
  simp only [safeChar, Bool.and_eq_true, decide_eq_true_eq]
  omega

theorem nat_repr_digits (n : Nat) : ∀ ch ∈ n.repr.toList, ch.isDigit = true := by
  intro ch hch
  rw [Nat.toList_repr] at hch
  exact Nat.isDigit_of_mem_toDigits (by omega) (by omega) hch

theorem nat_repr_safe (n : Nat) : n.repr.toList.all safeChar = true :=
  List.all_eq_true.2 (fun ch hch => safe_of_isDigit ch (nat_repr_digits n ch hch))

theorem nat_repr_ne (n : Nat) : n.repr.toList ≠ [] := by
  rw [Nat.toList_repr]; exact Nat.toDigits_ne_nil

/-- every character of a printed integer is a digit or the minus sign -/
theorem int_repr_chars (i : Int) : ∀ ch ∈ i.repr.toList, ch.isDigit = true ∨ ch = '-' := by
  intro ch hch
  rw [Int.repr_eq_if] at hch
  split at hch
  · exact Or.inl (nat_repr_digits _ ch hch)
  · simp only [String.toList_append, List.mem_append] at hch
    rcases hch with h | h
    · right; simpa using h
    · exact Or.inl (nat_repr_digits _ ch h)

theorem int_repr_safe (i : Int) : (intShow i).toList.all safeChar = true := by
  apply List.all_eq_true.2
  intro ch hch
  rcases int_repr_chars i ch hch with h | h
  · exact safe_of_isDigit ch h
  · subst h; decide

theorem int_repr_no0x (i : Int) : hasPrefix0x (intShow i) = false := by
  unfold hasPrefix0x
  split
  · rename_i r heq
    have : 'x' ∈ (intShow i).toList := by rw [heq]; simp
    rcases int_repr_chars i 'x' this with h | h
    · exact absurd h (by decide)
    · exact absurd h (by decide)
  · rfl

theorem parseI64_show (i : Int) (h1 : i64Min ≤ i) (h2 : i ≤ i64Max) : parseI64 (intShow i) = some i := by
  simp [parseI64, intShow, h1, h2]

theorem parseU64_show (i : Int) (h1 : i64Max < i) (h2 : i ≤ u64Max) :
    parseI64 (intShow i) = none ∧ parseU64 (intShow i) = some i := by
  have h0 : (0 : Int) ≤ i := by unfold i64Max at h1; omega
  have h3 : ¬ i ≤ i64Max := by omega
  simp [parseI64, parseU64, intShow, h3, h2, h0]

/-! ## base64 -/

theorem b64val_char : ∀ i, i < 64 → b64val (b64char i) = some i := by decide

theorem b64char_ne_pad : ∀ i, i < 64 → b64char i ≠ '=' := by decide

theorem b64char_safe : ∀ i, i < 64 → safeChar (b64char i) = true := by decide

theorem b64_rt : ∀ bs : List UInt8, b64dec (b64enc bs) = some bs
  | [] => rfl
  | [a] => by
    have ha := a.toNat_lt
    have e1 := b64val_char (a.toNat * 65536 / 262144 % 64) (by omega)
    have e2 := b64val_char (a.toNat * 65536 / 4096 % 64) (by omega)
    simp only [b64enc, b64dec, e1, e2]
    have : a.toNat * 65536 / 4096 % 64 % 16 = 0 := by omega
    simp only [this, if_true, ne_eq, not_true_eq_false, if_false]
    have : (a.toNat * 65536 / 262144 % 64 * 64 + a.toNat * 65536 / 4096 % 64) / 16 = a.toNat := by omega
    simp [this]
  | [a, b] => by
    have ha := a.toNat_lt
    have hb := b.toNat_lt
    have e1 := b64val_char ((a.toNat * 65536 + b.toNat * 256) / 262144 % 64) (by omega)
    have e2 := b64val_char ((a.toNat * 65536 + b.toNat * 256) / 4096 % 64) (by omega)
    have e3 := b64val_char ((a.toNat * 65536 + b.toNat * 256) / 64 % 64) (by omega)
    have n3 := b64char_ne_pad ((a.toNat * 65536 + b.toNat * 256) / 64 % 64) (by omega)
    simp only [b64enc, b64dec, e1, e2, e3, n3]
    have h4 : (((a.toNat * 65536 + b.toNat * 256) / 262144 % 64 * 64 + (a.toNat * 65536 + b.toNat * 256) / 4096 % 64) * 64 +
        (a.toNat * 65536 + b.toNat * 256) / 64 % 64) % 4 = 0 := by omega
    have h5 : (((a.toNat * 65536 + b.toNat * 256) / 262144 % 64 * 64 + (a.toNat * 65536 + b.toNat * 256) / 4096 % 64) * 64 +
        (a.toNat * 65536 + b.toNat * 256) / 64 % 64) / 1024 = a.toNat := by omega
    have h6 : (((a.toNat * 65536 + b.toNat * 256) / 262144 % 64 * 64 + (a.toNat * 65536 + b.toNat * 256) / 4096 % 64) * 64 +
        (a.toNat * 65536 + b.toNat * 256) / 64 % 64) / 4 % 256 = b.toNat := by omega
    simp [h4, h5, h6]
  | a :: b :: c :: r => by
    have ha := a.toNat_lt
    have hb := b.toNat_lt
    have hc := c.toNat_lt
    have e1 := b64val_char ((a.toNat * 65536 + b.toNat * 256 + c.toNat) / 262144 % 64) (by omega)
    have e2 := b64val_char ((a.toNat * 65536 + b.toNat * 256 + c.toNat) / 4096 % 64) (by omega)
    have e3 := b64val_char ((a.toNat * 65536 + b.toNat * 256 + c.toNat) / 64 % 64) (by omega)
    have e4 := b64val_char ((a.toNat * 65536 + b.toNat * 256 + c.toNat) % 64) (by omega)
    have n4 := b64char_ne_pad ((a.toNat * 65536 + b.toNat * 256 + c.toNat) % 64) (by omega)
    simp only [b64enc, b64dec, e1, e2, e3, e4, n4, b64_rt r, if_false]
    have h5 : ((((a.toNat * 65536 + b.toNat * 256 + c.toNat) / 262144 % 64 * 64 +
        (a.toNat * 65536 + b.toNat * 256 + c.toNat) / 4096 % 64) * 64 +
        (a.toNat * 65536 + b.toNat * 256 + c.toNat) / 64 % 64) * 64 +
        (a.toNat * 65536 + b.toNat * 256 + c.toNat) % 64) = a.toNat * 65536 + b.toNat * 256 + c.toNat := by omega
    rw [h5]
    have h6 : (a.toNat * 65536 + b.toNat * 256 + c.toNat) / 65536 = a.toNat := by omega
    have h7 : (a.toNat * 65536 + b.toNat * 256 + c.toNat) / 256 % 256 = b.toNat := by omega
    have h8 : (a.toNat * 65536 + b.toNat * 256 + c.toNat) % 256 = c.toNat := by omega
    simp [h6, h7, h8]

theorem b64_safe : ∀ bs : List UInt8, (b64enc bs).all safeChar = true
  | [] => rfl
  | [a] => by
    have ha := a.toNat_lt
    simp [b64enc, b64char_safe _ (show a.toNat * 65536 / 262144 % 64 < 64 by omega),
      b64char_safe _ (show a.toNat * 65536 / 4096 % 64 < 64 by omega)]
    decide
  | [a, b] => by
    simp [b64enc, b64char_safe _ (Nat.mod_lt _ (by decide : 64 > 0))]
    decide
  | a :: b :: c :: r => by
    simp [b64enc, b64char_safe _ (Nat.mod_lt _ (by decide : 64 > 0)), b64_safe r]

end C18

namespace C18

/-- `CodecLaws` holds of the reference codec: the hypothesis of the C18 theorems is satisfiable, and its
    integer and base64 parts hold of the very functions the driver runs against Rust's output -/
theorem codecLaws_refCodec : CodecLaws refCodec where
  f32_rt x _ := by simp [refCodec]
  f32_ne x := nat_repr_ne _
  f32_safe x := nat_repr_safe _
  f64_rt x _ := by simp [refCodec]
  f64_safe x := nat_repr_safe _
  int_i64 := parseI64_show
  int_u64 := parseU64_show
  int_no0x := int_repr_no0x
  int_safe := int_repr_safe
  data_rt d := by simp [refCodec, b64_rt]
  data_safe d := by simp only [refCodec, String.toList_ofList]; exact b64_safe d
  date_rt d s h := by
    simp only [refCodec] at h ⊢
    split at h
    · rename_i hr
      simp only [Option.some.injEq] at h
      subst h
      simp only [Nat.toNat?_repr, Option.map_some, Option.some.injEq]
      obtain ⟨secs, nanos⟩ := d
      simp only at hr ⊢
      congr 1
      · have : (secs - dateLo).toNat * 1000000000 + nanos = nanos + 1000000000 * (secs - dateLo).toNat := by omega
        rw [this, Nat.add_mul_div_left _ _ (by decide), Nat.div_eq_of_lt hr.2.2]
        simp only [dateLo] at hr ⊢
        omega
      · omega
    · exact absurd h (by simp)
  date_safe d s h := by
    simp only [refCodec] at h
    split at h
    · simp only [Option.some.injEq] at h; subst h; exact nat_repr_safe _
    · exact absurd h (by simp)

end C18

namespace C18

/-! ## the RFC 3339 date codec: the fixed-width decimal layer -/

theorem digitVal_digitChar (d : Nat) : digitVal? (digitChar d) = some (d % 10) := by
  have h : ∀ k, k < 10 → digitVal? (Char.ofNat (48 + k)) = some k := by decide
  exact h (d % 10) (Nat.mod_lt _ (by decide))

theorem parse_show2 (n : Nat) (h : n < 100) : parseDigits (show2 n) = some n := by
  simp only [show2, parseDigits, List.foldl, digitVal_digitChar]
  congr 1; omega

theorem parse_show4 (n : Nat) (h : n < 10000) : parseDigits (show4 n) = some n := by
  simp only [show4, parseDigits, List.foldl, digitVal_digitChar]
  congr 1; omega

theorem parse_show9 (n : Nat) (h : n < 1000000000) : parseDigits (show9 n) = some n := by
  simp only [show9, parseDigits, List.foldl, digitVal_digitChar]
  congr 1; omega

/-- dropping trailing zeros loses nothing that padding with zeros does not restore -/
theorem dropTrailingZeros_pad (l : List Char) :
    dropTrailingZeros l ++ List.replicate (l.length - (dropTrailingZeros l).length) '0' = l := by
  unfold dropTrailingZeros
  have h := List.takeWhile_append_dropWhile (p := (· == '0')) (l := l.reverse)
  have htw : l.reverse.takeWhile (· == '0') = List.replicate (l.reverse.takeWhile (· == '0')).length '0' := by
    apply List.eq_replicate_iff.2
    refine ⟨rfl, fun b hb => ?_⟩
    have hall := List.all_takeWhile (p := (· == '0')) (l := l.reverse)
    have := List.all_eq_true.1 hall b hb
    simpa using this
  have hl : l = (l.reverse.dropWhile (· == '0')).reverse ++ (l.reverse.takeWhile (· == '0')).reverse := by
    rw [← List.reverse_append, h, List.reverse_reverse]
  have hlen : l.length - (l.reverse.dropWhile (· == '0')).reverse.length = (l.reverse.takeWhile (· == '0')).length := by
    have := congrArg List.length hl
    simp only [List.length_append, List.length_reverse] at this ⊢
    omega
  rw [hlen]
  conv => rhs; rw [hl]
  rw [htw, List.reverse_replicate, List.length_replicate]

end C18

namespace C18

theorem dropTrailingZeros_length_le (l : List Char) : (dropTrailingZeros l).length ≤ l.length := by
  unfold dropTrailingZeros
  simp only [List.length_reverse]
  have := (List.dropWhile_suffix (· == '0') (l := l.reverse)).length_le
  simpa using this

/-- the text layer of the date codec, for real: a time stamp whose fields fit their widths is read back -/
theorem parse_showStamp (t : Stamp) (hy : t.year < 10000) (hm : t.month < 100) (hd : t.day < 100)
    (hh : t.hour < 100) (hi : t.minute < 100) (hs : t.second < 100) (hn : t.nanos < 1000000000) :
    parseStamp (showStamp t) = some t := by
  have e4 := parse_show4 t.year hy
  have em := parse_show2 t.month hm
  have ed := parse_show2 t.day hd
  have eh := parse_show2 t.hour hh
  have ei := parse_show2 t.minute hi
  have es := parse_show2 t.second hs
  simp only [show4, show2] at e4 em ed eh ei es
  by_cases h0 : t.nanos = 0
  · simp only [showStamp, show4, show2, h0, if_true, List.cons_append, List.nil_append, parseStamp,
      e4, em, ed, eh, ei, es]
    cases t; simp_all
  · have hpad := dropTrailingZeros_pad (show9 t.nanos)
    have hlen9 : (show9 t.nanos).length = 9 := rfl
    rw [hlen9] at hpad
    have hle := dropTrailingZeros_length_le (show9 t.nanos)
    rw [hlen9] at hle
    have hne : dropTrailingZeros (show9 t.nanos) ≠ [] := by
      intro e
      rw [e] at hpad
      have h9 := parse_show9 t.nanos hn
      rw [← hpad] at h9
      have : parseDigits ([] ++ List.replicate (9 - ([] : List Char).length) '0') = some 0 := by decide
      rw [this] at h9
      exact h0 (by simpa using h9.symm)
    have hfrac : parseDigits (dropTrailingZeros (show9 t.nanos) ++
        List.replicate (9 - (dropTrailingZeros (show9 t.nanos)).length) '0') = some t.nanos := by
      rw [hpad]; exact parse_show9 t.nanos hn
    simp only [showStamp, show4, show2, h0, if_false, List.cons_append, List.nil_append, parseStamp,
      e4, em, ed, eh, ei, es, List.reverse_append, List.reverse_cons, List.reverse_nil, List.reverse_reverse,
      List.singleton_append]
    have hcond : ¬ ((dropTrailingZeros (show9 t.nanos)).isEmpty = true ∨ 9 < (dropTrailingZeros (show9 t.nanos)).length) := by
      intro h
      rcases h with h | h
      · exact hne (List.isEmpty_iff.1 h)
      · omega
    simp only [hcond, if_false, hfrac]

end C18

namespace C18

/-- NAMED HYPOTHESIS (not proved; `omega` does not decide it and no enumeration is used): on the day numbers
    of years 0000–9999 Hinnant's `civil_from_days` yields a calendar date with fields in range whose
    `days_from_civil` is the day number again.  Spot-checked at the range ends in Props/C18.lean and against
    the `time` crate on every date of every run (driver tag `date-impl-differs`). -/
def CalendarInverse : Prop :=
  ∀ z : Int, -719528 ≤ z → z ≤ 2932896 →
    0 ≤ (civilFromDays z).1 ∧ (civilFromDays z).1 < 10000 ∧
    1 ≤ (civilFromDays z).2.1 ∧ (civilFromDays z).2.1 ≤ 12 ∧
    1 ≤ (civilFromDays z).2.2 ∧ (civilFromDays z).2.2 ≤ 31 ∧
    daysFromCivil (civilFromDays z).1 (civilFromDays z).2.1 (civilFromDays z).2.2 = z

/-- the date codec for real (`rfc3339Show` / `rfc3339Read`): under the calendar hypothesis every printable
    date is read back, nanoseconds included -/
theorem rfc3339_roundtrip_of_calendar (H : CalendarInverse) (d : Date) (s : String)
    (h : rfc3339Show d = some s) : rfc3339Read s = some d := by
  obtain ⟨secs, nanos⟩ := d
  unfold rfc3339Show at h
  simp only [dateLo', dateHi'] at h
  by_cases hr : -62167219200 ≤ secs ∧ secs ≤ 253402300799 ∧ nanos < 1000000000
  · simp only [hr, and_self, if_true] at h
    obtain ⟨h1, h2, h3⟩ := hr
    obtain ⟨c1, c2, c3, c4, c5, c6, c7⟩ := H (secs / 86400) (by omega) (by omega)
    simp only [Option.some.injEq] at h
    subst h
    have hsod : (secs % 86400).toNat < 86400 := by omega
    have py : (civilFromDays (secs / 86400)).1.toNat < 10000 := by omega
    have pm : (civilFromDays (secs / 86400)).2.1 < 100 := by omega
    have pd : (civilFromDays (secs / 86400)).2.2 < 100 := by omega
    have ph : (secs % 86400).toNat / 3600 < 100 := by omega
    have pi : (secs % 86400).toNat / 60 % 60 < 100 := by omega
    have ps : (secs % 86400).toNat % 60 < 100 := by omega
    unfold rfc3339Read
    rw [String.toList_ofList, parse_showStamp _ py pm pd ph pi ps h3]
    have hcond : 1 ≤ (civilFromDays (secs / 86400)).2.1 ∧ (civilFromDays (secs / 86400)).2.1 ≤ 12 ∧
        1 ≤ (civilFromDays (secs / 86400)).2.2 ∧ (civilFromDays (secs / 86400)).2.2 ≤ 31 ∧
        (secs % 86400).toNat / 3600 < 24 ∧
        (secs % 86400).toNat / 60 % 60 < 60 ∧ (secs % 86400).toNat % 60 < 60 := by
      refine ⟨c3, c4, c5, c6, ?_, ?_, ?_⟩ <;> omega
    simp only [hcond, and_self, if_true]
    have hy : (((civilFromDays (secs / 86400)).1.toNat : Nat) : Int) = (civilFromDays (secs / 86400)).1 := by omega
    rw [hy, c7]
    have hsecs : secs / 86400 * 86400 +
        (((secs % 86400).toNat / 3600 * 3600 + (secs % 86400).toNat / 60 % 60 * 60 + (secs % 86400).toNat % 60 : Nat) : Int)
          = secs := by omega
    rw [hsecs]
  · simp [hr] at h

end C18

namespace C18

theorem digitChar_safe (d : Nat) : safeChar (digitChar d) = true := by
  have h : ∀ k, k < 10 → safeChar (Char.ofNat (48 + k)) = true := by decide
  exact h (d % 10) (Nat.mod_lt _ (by decide))

theorem mem_dropTrailingZeros {l : List Char} {ch : Char} (h : ch ∈ dropTrailingZeros l) : ch ∈ l := by
  unfold dropTrailingZeros at h
  have h1 : ch ∈ l.reverse.dropWhile (· == '0') := by simpa using h
  have := (List.dropWhile_suffix (· == '0') (l := l.reverse)).subset h1
  simpa using this

theorem showStamp_safe (t : Stamp) : (showStamp t).all safeChar = true := by
  apply List.all_eq_true.2
  intro ch hch
  have h9 : ∀ x ∈ show9 t.nanos, safeChar x = true := by
    intro x hx
    simp only [show9, List.mem_cons, List.not_mem_nil, or_false] at hx
    rcases hx with h | h | h | h | h | h | h | h | h <;> subst h <;> exact digitChar_safe _
  simp only [showStamp, show4, show2, List.mem_append, List.mem_cons, List.not_mem_nil, or_false,
    List.cons_append, List.nil_append] at hch
  rcases hch with h | h | h | h | h | h | h | h | h | h | h | h | h | h | h | h | h | h | h | h | h
  all_goals first
    | (subst h; exact digitChar_safe _)
    | (subst h; decide)
    | skip
  · split at h
    · simp at h
    · simp only [List.mem_cons] at h
      rcases h with h | h
      · subst h; decide
      · exact h9 ch (mem_dropTrailingZeros h)


/-- under the calendar hypothesis alone, `CodecLaws` holds with real integers, real base64 and real dates;
    only the float component is still a stand-in -/
theorem codecLaws_realDateCodec (H : CalendarInverse) : CodecLaws realDateCodec :=
  { codecLaws_refCodec with
    date_rt := fun d s h => rfc3339_roundtrip_of_calendar H d s h
    date_safe := fun d s h => by
      simp only [realDateCodec, rfc3339Show] at h
      split at h
      · simp only [Option.some.injEq] at h; subst h
        simp only [String.toList_ofList]; exact showStamp_safe _
      · exact absurd h (by simp) }

end C18
