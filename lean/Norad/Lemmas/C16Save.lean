import Norad.Lemmas.C16Stable
/-! Lemmas for `save_never_panics`: the cells written after the wipe are the cells forced before it. -/
namespace C16
open Path

theorem keys_get (s : Store) (disk : Disk) (k : Key) : keys (get s disk k).1 = keys s := by
  unfold get
  split
  · rfl
  · rename_i hf; simp only [keys]; exact keys_setCell_of_hasKey (find?_hasKey hf)
  · rfl

theorem kind_get (s : Store) (disk : Disk) (k : Key) : (get s disk k).1.kind = s.kind := by
  unfold get
  split <;> rfl

theorem keys_forceUntilError (s : Store) (disk : Disk) (ks : List Key) :
    keys (forceUntilError s disk ks).1 = keys s := by
  induction ks generalizing s with
  | nil => rfl
  | cons k r ih =>
    simp only [forceUntilError]
    have hk := keys_get s disk k
    split
    · rename_i s1 _ heq; rw [heq] at hk; rw [ih, hk]
    · rename_i s1 _ _ heq; rw [heq] at hk; exact hk

theorem kind_forceUntilError (s : Store) (disk : Disk) (ks : List Key) :
    (forceUntilError s disk ks).1.kind = s.kind := by
  induction ks generalizing s with
  | nil => rfl
  | cons k r ih =>
    simp only [forceUntilError]
    have hk := kind_get s disk k
    split
    · rename_i s1 _ heq; rw [heq] at hk; rw [ih, hk]
    · rename_i s1 _ _ heq; rw [heq] at hk; exact hk

theorem settled_forceUntilError {s : Store} {disk : Disk} {k : Key} {c : Cell} (ks : List Key)
    (h : Settled s k c) : Settled (forceUntilError s disk ks).1 k c := by
  induction ks generalizing s with
  | nil => exact h
  | cons k' r ih =>
    simp only [forceUntilError]
    have hg := settled_get (disk := disk) (k' := k') h
    split
    · rename_i s1 _ heq; rw [heq] at hg; exact ih hg
    · rename_i s1 _ _ heq; rw [heq] at hg; exact hg

/-- a forcing pass that found no error has left every visited key loaded -/
theorem forceUntilError_none_loaded {s s1 : Store} {disk : Disk} {ks : List Key}
    (h : forceUntilError s disk ks = (s1, none)) : ∀ k ∈ ks, ∃ b, Settled s1 k (.loaded b) := by
  induction ks generalizing s with
  | nil => intro k hk; simp at hk
  | cons k' r ih =>
    simp only [forceUntilError] at h
    split at h
    · rename_i s' b heq
      intro k hk
      rcases List.mem_cons.1 hk with rfl | hk
      · have h2 : (get s disk k).2 = some (.ok b) := by rw [heq]
        obtain ⟨c, hs, hr⟩ := get_settles h2
        rw [heq] at hs
        have hc : c = .loaded b := by
          cases c with
          | notLoaded => exact absurd rfl hs.2
          | error e => simp [cellResult] at hr
          | loaded b' => simp [cellResult] at hr; rw [hr]
        subst hc
        have := settled_forceUntilError (disk := disk) r hs
        rw [h] at this
        exact ⟨b, this⟩
      · exact ih h k hk
    · simp at h

/-- in a map (keys distinct by components) the entry found through an entry's own key is that entry -/
theorem find?_self_of_nodup {items : Items} (hn : (items.map fun e => parse e.1).Nodup)
    {e : Key × Cell} (he : e ∈ items) : find? items e.1 = some e := by
  induction items with
  | nil => simp at he
  | cons x r ih =>
    unfold find? at ih ⊢
    simp only [List.map_cons, List.nodup_cons] at hn
    by_cases hx : parse x.1 = parse e.1
    · rw [List.find?_cons_of_pos (by simpa using hx)]
      rcases List.mem_cons.1 he with rfl | her
      · rfl
      · exfalso
        exact hn.1 (hx ▸ List.mem_map.2 ⟨e, her, rfl⟩)
    · rw [List.find?_cons_of_neg (by simpa using hx)]
      rcases List.mem_cons.1 he with rfl | her
      · exact absurd rfl hx
      · exact ih hn.2 her

theorem writesOfItems_isSome {kind : Kind} {items : Items}
    (h : ∀ e ∈ items, ∃ b, e.2 = .loaded b) : (writesOfItems kind items).isSome = true := by
  induction items with
  | nil => rfl
  | cons e r ih =>
    obtain ⟨k, c⟩ := e
    obtain ⟨b, hb⟩ := h (k, c) (List.mem_cons_self ..)
    simp only at hb
    subst hb
    have := ih (fun e he => h e (List.mem_cons_of_mem _ he))
    simp only [writesOfItems]
    cases hw : writesOfItems kind r with
    | none => rw [hw] at this; simp at this
    | some ws => rfl

/-- after a forcing pass over all keys without error, under the invariant, phase 2 finds every cell loaded -/
theorem writesOf_isSome_after_force {s s1 : Store} {disk : Disk} (hi : Inv s)
    (h : forceUntilError s disk (keys s) = (s1, none)) : (writesOf s1).isSome = true := by
  have hinv : Inv s1 := by have := inv_forceUntilError s disk (keys s) hi; rw [h] at this; exact this
  have hkeys : keys s1 = keys s := by have := keys_forceUntilError s disk (keys s); rw [h] at this; exact this
  have hl := forceUntilError_none_loaded h
  unfold writesOf
  apply writesOfItems_isSome
  intro e he
  have hk : e.1 ∈ keys s := by rw [← hkeys]; exact List.mem_map.2 ⟨e, he, rfl⟩
  obtain ⟨b, ⟨k0, hf⟩, _⟩ := hl e.1 hk
  have hn : (s1.items.map fun e => parse e.1).Nodup := by
    have := hinv.keysOK.distinct
    simp only [keys, List.map_map] at this
    exact this
  rw [find?_self_of_nodup hn he] at hf
  injection hf with hf
  exact ⟨b, by rw [hf]⟩

end C16
