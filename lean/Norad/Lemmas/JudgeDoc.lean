import Norad.Lemmas.JudgeLink
import Norad.Lemmas.GlifGen
import Norad.Props.C11
namespace Glif
open Spec

/-! ### utilities -/

theorem dedup_nil : ∀ {l : List String}, dedup l = [] → l = [] := by
  intro l
  induction l with
  | nil => intro _; rfl
  | cons x r ih =>
    intro h
    simp only [dedup] at h
    split at h
    · rename_i hc
      have := ih h
      subst this
      simp at hc
    · cases h

theorem hasDup_false_nodup : ∀ {l : List Str}, hasDup l = false → l.Nodup := by
  intro l
  induction l with
  | nil => intro _; exact List.nodup_nil
  | cons x r ih =>
    intro h
    simp only [hasDup, Bool.or_eq_false_iff] at h
    refine List.nodup_cons.2 ⟨?_, ih h.2⟩
    intro hm
    have : r.contains x = true := by simpa using hm
    rw [this] at h
    cases h.1

theorem get_of_mem_nodup {as : List Attr} {k : String} {v : Str} (hnd : (as.map (·.1)).Nodup)
    (hm : (k.toList, v) ∈ as) : Spec.get as k = some v := by
  induction as with
  | nil => cases hm
  | cons a r ih =>
    simp only [List.map_cons, List.nodup_cons] at hnd
    unfold Spec.get at ih ⊢
    simp only [List.find?_cons]
    rcases List.mem_cons.1 hm with h | h
    · subst h; simp
    · have hne : a.1 ≠ k.toList := by
        intro e
        apply hnd.1
        rw [e]
        exact List.mem_map.2 ⟨_, h, rfl⟩
      simp only [hne, decide_false]
      exact ih hnd.2 h

theorem get_mem {as : List Attr} {k : String} {v : Str} (h : Spec.get as k = some v) : (k.toList, v) ∈ as := by
  unfold Spec.get at h
  cases hf : as.find? (fun a => a.1 = k.toList) with
  | none => simp [hf] at h
  | some a =>
    simp only [hf, Option.some.injEq] at h
    have h1 := List.mem_of_find?_eq_some hf
    have h2 := List.find?_some hf
    simp only [decide_eq_true_eq] at h2
    obtain ⟨a1, a2⟩ := a
    simp only at h h2
    subst h; subst h2
    exact h1

/-- the value a field ends with when only key `k` writes it and every `k`-attribute of the list writes `w` -/
theorem foldAttrs_value {σ τ : Type} (step : σ → Attr → Option σ) (f : σ → τ) (k : Str) (w : τ) (as : List Attr)
    (hother : ∀ acc a acc', a.1 ≠ k → step acc a = some acc' → f acc' = f acc)
    (hk : ∀ acc a acc', a ∈ as → a.1 = k → step acc a = some acc' → f acc' = w) :
    ∀ (acc acc' : σ), foldAttrs step acc as = some acc' →
      (k ∈ as.map (·.1) → f acc' = w) ∧ (k ∉ as.map (·.1) → f acc' = f acc) := by
  induction as with
  | nil => intro acc acc' h; simp [foldAttrs] at h; subst h; simp
  | cons a r ih =>
    intro acc acc' h
    simp only [foldAttrs] at h
    cases hs : step acc a with
    | none => simp [hs] at h
    | some acc1 =>
      simp only [hs] at h
      obtain ⟨i1, i2⟩ := ih (fun acc b acc' hb => hk acc b acc' (List.mem_cons_of_mem _ hb)) acc1 acc' h
      by_cases hak : a.1 = k
      · have e1 := hk acc a acc1 List.mem_cons_self hak hs
        constructor
        · intro _
          by_cases hr : k ∈ r.map (·.1)
          · exact i1 hr
          · rw [i2 hr, e1]
        · intro hn; exact absurd (by simp [hak]) hn
      · have e1 := hother acc a acc1 hak hs
        constructor
        · intro hm
          simp only [List.map_cons, List.mem_cons] at hm
          rcases hm with hm | hm
          · exact absurd hm.symm hak
          · exact i1 hm
        · intro hn
          simp only [List.map_cons, List.mem_cons, not_or] at hn
          rw [i2 hn.2, e1]

/-! ### `judge`, unpacked -/

structure JudgeClean (rd : Str → Option Nat) (d : Doc) (ver : Nat) : Prop where
  version : (docVersion d).1 = some ver
  glyph : glyphAttrCheck d = []
  items : ∀ it, it ∈ d.items → itemCheck rd ver it = ([], false)
  once : ∀ n, n ∈ onceOnly → countName d n.toList ≤ 1
  idents : (docIdents d).Nodup
  objlibs : objectLibsCheck d = []
  trailer : d.trailer = []

theorem judge_clean {rd : Str → Option Nat} {d : Doc} (h : judge rd d = ([], false)) : ∃ ver, JudgeClean rd d ver := by
  unfold judge at h
  cases hv : docVersion d with
  | mk ver? verOdd =>
    simp only [hv] at h
    cases ver? with
    | none =>
      simp only [Prod.mk.injEq] at h
      have := dedup_nil h.1
      simp only [List.append_eq_nil_iff] at this
      rw [h.2] at this
      simp at this
    | some ver =>
      simp only [Prod.mk.injEq, Bool.or_eq_false_iff] at h
      obtain ⟨h1, h2, h3⟩ := h
      have hl := dedup_nil h1
      simp only [List.append_eq_nil_iff] at hl
      obtain ⟨⟨⟨⟨hg, hper⟩, hdups⟩, hids⟩, hol⟩ := hl
      refine ⟨ver, by simp [hv], hg, ?_, ?_, ?_, hol, by simpa using h3⟩
      · exact merge_clean (rs := d.items.map (itemCheck rd ver)) (by
          simp only [merge, Prod.mk.injEq]; exact ⟨hper, h2⟩) |> fun hm it hit => hm _ (List.mem_map.2 ⟨it, hit, rfl⟩)
      · intro n hn
        have := List.filterMap_eq_nil_iff.1 hdups n hn
        by_cases hc : countName d n.toList > 1
        · simp [hc] at this
        · omega
      · apply hasDup_false_nodup
        by_cases hd : hasDup (docIdents d) = true
        · simp [hd] at hids
        · simpa using hd
/-! ### the `glyph` start tag -/

section
variable {rd : Str → Option Nat}

def gKeyName : GKey → Str
  | .name => "name".toList | .format => "format".toList | .formatMinor => "formatMinor".toList

theorem gKeyOf_eq {s : Str} {k : GKey} (h : gKeyOf s = some k) : s = gKeyName k := by
  unfold gKeyOf at h
  repeat' split at h
  all_goals first | (cases h; done) | (cases h; rename_i hh; rw [hh]; rfl)

theorem glyph_start_clean {d : Doc} {ver : Nat} (hj : JudgeClean rd d ver) {as : List Attr} (has : d.gattrs = some as)
    (hnd : (as.map (·.1)).Nodup) :
    (ver = 1 ∨ ver = 2) ∧ ∃ name, parseGlyphAttrs (some as) = .ok (name, ver) := by
  -- the version clause
  have hver := hj.version
  unfold docVersion at hver
  simp only [has] at hver
  have hfmt : (ver = 1 ∨ ver = 2) ∧ (Spec.get as "format" = some (if ver = 1 then ['1'] else ['2'])) ∧
      (∀ m, Spec.get as "formatMinor" = some m → m = ['0']) := by
    cases hf : Spec.get as "format" with
    | none => simp [hf] at hver
    | some f =>
      simp only [hf] at hver
      split at hver
      · rename_i h1
        cases hm : Spec.get as "formatMinor" with
        | none => simp [hm] at hver; subst hver; exact ⟨Or.inl rfl, by simp at h1 ⊢; exact h1, by intro m h; cases h⟩
        | some m =>
          simp only [hm] at hver
          by_cases he : m = ['0']
          · simp [he] at hver; subst hver; exact ⟨Or.inl rfl, by simp at h1 ⊢; exact h1, by intro m' h; cases h; exact he⟩
          · simp [he] at hver
      · rename_i h2
        cases hm : Spec.get as "formatMinor" with
        | none => simp [hm] at hver; subst hver; exact ⟨Or.inr rfl, by simp at h2 ⊢; exact h2, by intro m h; cases h⟩
        | some m =>
          simp only [hm] at hver
          by_cases he : m = ['0']
          · simp [he] at hver; subst hver; exact ⟨Or.inr rfl, by simp at h2 ⊢; exact h2, by intro m' h; cases h; exact he⟩
          · simp [he] at hver
      · simp at hver
      · rename_i hh; cases hh
  obtain ⟨hv12, hformat, hminor⟩ := hfmt
  -- the name clause and the attribute set
  have hg := hj.glyph
  unfold glyphAttrCheck at hg
  simp only [has, List.append_eq_nil_iff] at hg
  obtain ⟨hname, hset⟩ := hg
  have hn : ∃ n, Spec.get as "name" = some n ∧ validName n = true := by
    cases hgn : Spec.get as "name" with
    | none => simp [hgn] at hname
    | some n =>
      simp only [hgn] at hname
      by_cases hok : nameOk n = true
      · exact ⟨n, rfl, nameOk_validName hok⟩
      · simp [hok] at hname
  obtain ⟨n, hgn, hvn⟩ := hn
  have hall : ∀ a, a ∈ as → a.1 = "name".toList ∨ a.1 = "format".toList ∨ a.1 = "formatMinor".toList := by
    split at hset
    · rename_i hc
      intro a ha
      exact of_decide_eq_true (List.all_eq_true.1 hc a ha)
    · cases hset
  have hfv : parseU32 10 (if ver = 1 then ['1'] else ['2']) = some ver := by
    rcases hv12 with rfl | rfl <;> decide
  -- every step succeeds
  have hstep : ∀ a, a ∈ as → ∀ acc, ∃ acc', gStep acc a = some acc' := by
    intro a ha acc
    obtain ⟨a1, a2⟩ := a
    rcases hall _ ha with h | h | h <;> simp only at h <;> subst h
    · have := get_of_mem_nodup hnd ha
      rw [hgn] at this; cases this
      exact Option.isSome_iff_exists.1 (by simp [gStep, gApply, hvn])
    · have := get_of_mem_nodup hnd ha
      rw [hformat] at this; cases this
      exact Option.isSome_iff_exists.1 (by simp [gStep, gApply, hfv])
    · have := hminor a2 (get_of_mem_nodup hnd ha)
      subst this
      have : parseU32 10 ['0'] = some 0 := by decide
      exact Option.isSome_iff_exists.1 (by simp [gStep, gApply, this])
  obtain ⟨acc, hacc⟩ := foldAttrs_isSome _ as hstep {}
  have hnameP : acc.name.isSome = true := by
    refine foldAttrs_establishes gStep (fun a => a.name.isSome = true) "name".toList ?_ ?_ as {} acc hacc
      (Or.inr (List.mem_map.2 ⟨_, get_mem hgn, rfl⟩))
    · intro acc a acc' hp hs
      unfold gStep at hs; split at hs
      · cases hs
      · rename_i k _; cases k <;> simp only [gApply] at hs <;> repeat' split at hs
        all_goals first | (cases hs; done) | (cases hs; first | exact hp | rfl)
    · intro acc a acc' hk hs
      have hk' : gKeyOf a.1 = some .name := by rw [hk]; decide
      simp only [gStep, hk', gApply] at hs
      split at hs <;> cases hs; rfl
  have hmajor : acc.major = ver := by
    refine (foldAttrs_value gStep (fun a => a.major) "format".toList ver as ?_ ?_ {} acc hacc).1
      (List.mem_map.2 ⟨_, get_mem hformat, rfl⟩)
    · intro acc a acc' hne hs
      unfold gStep at hs; split at hs
      · cases hs
      · rename_i k hk
        have := gKeyOf_eq hk
        cases k <;> simp only [gApply] at hs <;> repeat' split at hs
        all_goals first | (cases hs; done) | (cases hs; first | rfl | exact absurd this hne)
    · intro acc a acc' ha hk hs
      obtain ⟨a1, a2⟩ := a
      simp only at hk; subst hk
      have := get_of_mem_nodup hnd ha
      rw [hformat] at this; cases this
      have hk' : gKeyOf "format".toList = some .format := by decide
      simp only [gStep, hk', gApply, hfv] at hs
      cases hs; rfl
  have hminorP : acc.minor = 0 := by
    have hv := foldAttrs_value gStep (fun a => a.minor) "formatMinor".toList 0 as ?_ ?_ {} acc hacc
    · by_cases hm : "formatMinor".toList ∈ as.map (·.1)
      · exact hv.1 hm
      · exact hv.2 hm
    · intro acc a acc' hne hs
      unfold gStep at hs; split at hs
      · cases hs
      · rename_i k hk
        have := gKeyOf_eq hk
        cases k <;> simp only [gApply] at hs <;> repeat' split at hs
        all_goals first | (cases hs; done) | (cases hs; first | rfl | exact absurd this hne)
    · intro acc a acc' ha hk hs
      obtain ⟨a1, a2⟩ := a
      simp only at hk; subst hk
      have := hminor a2 (get_of_mem_nodup hnd ha)
      subst this
      have hk' : gKeyOf "formatMinor".toList = some .formatMinor := by decide
      have h0 : parseU32 10 ['0'] = some 0 := by decide
      simp only [gStep, hk', gApply, h0] at hs
      cases hs; rfl
  refine ⟨hv12, ?_⟩
  cases hnn : acc.name with
  | none => simp [hnn] at hnameP
  | some nm =>
    refine ⟨nm, ?_⟩
    simp only [parseGlyphAttrs, hacc, gFinish, hnn, hmajor, hminorP]
    rcases hv12 with rfl | rfl <;> simp
end

/-! ### points: the parsed type and smooth flag -/

section
variable {rd : Str → Option Nat}

def pKeyName : PKey → Str
  | .x => "x".toList | .y => "y".toList | .name => "name".toList | .typ => "type".toList
  | .smooth => "smooth".toList | .ident => sIdentifier

theorem pKeyOf_eq {s : Str} {k : PKey} (h : pKeyOf s = some k) : s = pKeyName k := by
  unfold pKeyOf at h
  repeat' split at h
  all_goals first | (cases h; done) | (cases h; rename_i hh; rw [hh]; rfl)

theorem not_mem_of_get_none {as : List Attr} {k : String} (h : Spec.get as k = none) : k.toList ∉ as.map (·.1) := by
  intro hm
  have := mem_has hm
  unfold has at this
  rw [h] at this
  cases this

/-- the parsed point carries the type and smooth flag the specification reads off the element -/
theorem point_clean_toPt {ver : Nat} {seen : List Str} {e : Elem} {as : List Attr} {x : Point}
    (hattrs : e.attrs = some as) (hnd : (as.map (·.1)).Nodup) (hp : parsePoint rd ver seen as = some x) :
    toPt x = ptOfElem e := by
  unfold parsePoint at hp
  cases hacc : foldAttrs (pStep rd ver seen) {} as with
  | none => simp [hacc] at hp
  | some acc =>
    simp only [hacc] at hp
    have hx : x.typ = acc.typ ∧ x.smooth = acc.smooth := by
      unfold pFinish at hp
      repeat' split at hp
      all_goals first | (cases hp; done) | (cases hp; exact ⟨rfl, rfl⟩)
    have htyp : acc.typ = (match Spec.get as "type" with | some v => (readPointType v).getD .off | none => .off) := by
      cases hg : Spec.get as "type" with
      | none =>
        have := (foldAttrs_value (pStep rd ver seen) (fun a => a.typ) "type".toList C11.PT.off as ?_ ?_ {} acc hacc).2
          (not_mem_of_get_none hg)
        · exact this
        · intro acc a acc' hne hs
          unfold pStep at hs; split at hs
          · cases hs
          · rename_i k hk
            have := pKeyOf_eq hk
            cases k <;> simp only [pApply] at hs <;> repeat' split at hs
            all_goals first | (cases hs; done) | (cases hs; first | rfl | exact absurd this hne)
        · intro acc a acc' ha hk hs
          exact absurd (List.mem_map.2 ⟨a, ha, hk⟩) (not_mem_of_get_none hg)
      | some v =>
        refine (foldAttrs_value (pStep rd ver seen) (fun a => a.typ) "type".toList _ as ?_ ?_ {} acc hacc).1
          (List.mem_map.2 ⟨_, get_mem hg, rfl⟩)
        · intro acc a acc' hne hs
          unfold pStep at hs; split at hs
          · cases hs
          · rename_i k hk
            have := pKeyOf_eq hk
            cases k <;> simp only [pApply] at hs <;> repeat' split at hs
            all_goals first | (cases hs; done) | (cases hs; first | rfl | exact absurd this hne)
        · intro acc a acc' ha hk hs
          obtain ⟨a1, a2⟩ := a
          simp only at hk; subst hk
          have := get_of_mem_nodup hnd ha
          rw [hg] at this; cases this
          have hk' : pKeyOf "type".toList = some .typ := by decide
          simp only [pStep, hk', pApply] at hs
          split at hs
          · rename_i t ht; cases hs; simp [ht]
          · cases hs
    have hsm : acc.smooth = (Spec.get as "smooth" == some "yes".toList) := by
      cases hg : Spec.get as "smooth" with
      | none =>
        have := (foldAttrs_value (pStep rd ver seen) (fun a => a.smooth) "smooth".toList false as ?_ ?_ {} acc hacc).2
          (not_mem_of_get_none hg)
        · simpa using this
        · intro acc a acc' hne hs
          unfold pStep at hs; split at hs
          · cases hs
          · rename_i k hk
            have := pKeyOf_eq hk
            cases k <;> simp only [pApply] at hs <;> repeat' split at hs
            all_goals first | (cases hs; done) | (cases hs; first | rfl | exact absurd this hne)
        · intro acc a acc' ha hk hs
          exact absurd (List.mem_map.2 ⟨a, ha, hk⟩) (not_mem_of_get_none hg)
      | some v =>
        have := (foldAttrs_value (pStep rd ver seen) (fun a => a.smooth) "smooth".toList (decide (v = "yes".toList)) as ?_ ?_ {} acc hacc).1
          (List.mem_map.2 ⟨_, get_mem hg, rfl⟩)
        · rw [this]
          by_cases hy : v = "yes".toList
          · subst hy; rfl
          · have h1 : decide (v = "yes".toList) = false := decide_eq_false hy
            have h2 : (some v == some "yes".toList) = false := by
              cases hb : (some v == some "yes".toList) with
              | false => rfl
              | true => exact absurd (Option.some.inj (of_decide_eq_true (by simpa using hb) : some v = some "yes".toList)) hy
            rw [h1, h2]
        · intro acc a acc' hne hs
          unfold pStep at hs; split at hs
          · cases hs
          · rename_i k hk
            have := pKeyOf_eq hk
            cases k <;> simp only [pApply] at hs <;> repeat' split at hs
            all_goals first | (cases hs; done) | (cases hs; first | rfl | exact absurd this hne)
        · intro acc a acc' ha hk hs
          obtain ⟨a1, a2⟩ := a
          simp only at hk; subst hk
          have := get_of_mem_nodup hnd ha
          rw [hg] at this; cases this
          have hk' : pKeyOf "smooth".toList = some .smooth := by decide
          simp only [pStep, hk', pApply] at hs
          cases hs; rfl
    unfold toPt ptOfElem
    simp only [hattrs, hx.1, hx.2, htyp, hsm]
    cases Spec.get as "type" <;> rfl
end

/-! ### the identifier an element parser returns is exactly the `identifier` attribute -/

section
variable {rd : Str → Option Nat}

theorem readIdent_eq {ver : Nat} {seen : List Str} {v i : Str} (h : readIdent ver seen v = some i) : i = v := by
  unfold readIdent at h
  repeat' split at h
  all_goals first | (cases h; done) | (cases h; rfl)

/-- the identifier an attribute loop ends with is the value of the `identifier` attribute, when the loop sets it only there -/
theorem fold_ident_exact {σ : Type} (st : σ → Attr → Option σ) (f : σ → Option Str)
    (hset : ∀ acc a acc', a.1 = sIdentifier → st acc a = some acc' → f acc' = some a.2)
    (hkeep : ∀ acc a acc', a.1 ≠ sIdentifier → st acc a = some acc' → f acc' = f acc)
    {as : List Attr} (hnd : (as.map (·.1)).Nodup) {acc acc' : σ} (h : foldAttrs st acc as = some acc') (h0 : f acc = none) :
    f acc' = Spec.get as "identifier" := by
  cases hg : Spec.get as "identifier" with
  | none =>
    have := (foldAttrs_value st f sIdentifier none as hkeep
      (fun acc a acc' ha hk _ => absurd (List.mem_map.2 ⟨a, ha, hk⟩) (not_mem_of_get_none hg)) acc acc' h).2
      (not_mem_of_get_none hg)
    rw [this, h0]
  | some i =>
    refine (foldAttrs_value st f sIdentifier (some i) as hkeep ?_ acc acc' h).1 (List.mem_map.2 ⟨_, get_mem hg, rfl⟩)
    intro acc a acc' ha hk hs
    obtain ⟨a1, a2⟩ := a
    simp only at hk; subst hk
    have := get_of_mem_nodup hnd ha
    rw [hg] at this; cases this
    exact hset _ _ _ rfl hs

theorem parseAnchor_ident {ver : Nat} {seen : List Str} {as : List Attr} {x : Anchor} (hnd : (as.map (·.1)).Nodup)
    (hp : parseAnchor rd ver seen as = some x) : x.ident = Spec.get as "identifier" := by
  unfold parseAnchor at hp
  cases hacc : foldAttrs (aStep rd ver seen) {} as with
  | none => simp [hacc] at hp
  | some acc =>
    simp only [hacc] at hp
    have hx : x.ident = acc.ident := by
      unfold aFinish at hp
      repeat' split at hp
      all_goals first | (cases hp; done) | (cases hp; rfl)
    rw [hx]
    refine fold_ident_exact (aStep rd ver seen) (·.ident) ?_ ?_ hnd hacc rfl
    · intro acc a acc' hk hs
      have hkk : aKeyOf sIdentifier = some .ident := by decide
      simp only [aStep, hk, hkk, aApply] at hs
      split at hs
      · rename_i i hi; cases hs; simp [readIdent_eq hi]
      · cases hs
    · intro acc a acc' hne hs
      unfold aStep at hs; split at hs
      · cases hs
      · rename_i k hk
        cases k <;> simp only [aApply] at hs <;> repeat' split at hs
        all_goals first | (cases hs; done) | (cases hs; first | rfl | exact absurd (aKeyOf_ident_eq hk) hne)
theorem guKeyOf_ident_eq {s : Str} (h : guKeyOf s = some GuKey.ident) : s = sIdentifier := by
  have := guKeyOf_eq h; simpa [guKeyName] using this

theorem parseGuideline_ident {ver : Nat} {seen : List Str} {as : List Attr} {x : Guideline} (hnd : (as.map (·.1)).Nodup)
    (hp : parseGuideline rd ver seen as = some x) : x.ident = Spec.get as "identifier" := by
  unfold parseGuideline at hp
  cases hacc : foldAttrs (guStep rd ver seen) {} as with
  | none => simp [hacc] at hp
  | some acc =>
    simp only [hacc] at hp
    have hx : x.ident = acc.ident := by
      unfold guFinish at hp
      repeat' split at hp
      all_goals first | (cases hp; done) | (cases hp; rfl)
    rw [hx]
    refine fold_ident_exact (guStep rd ver seen) (·.ident) ?_ ?_ hnd hacc rfl
    · intro acc a acc' hk hs
      have hkk : guKeyOf sIdentifier = some .ident := by decide
      simp only [guStep, hk, hkk, guApply] at hs
      split at hs
      · rename_i i hi; cases hs; simp [readIdent_eq hi]
      · cases hs
    · intro acc a acc' hne hs
      unfold guStep at hs; split at hs
      · cases hs
      · rename_i k hk
        cases k <;> simp only [guApply] at hs <;> repeat' split at hs
        all_goals first | (cases hs; done) | (cases hs; first | rfl | exact absurd (guKeyOf_ident_eq hk) hne)

theorem parsePoint_ident {ver : Nat} {seen : List Str} {as : List Attr} {x : Point} (hnd : (as.map (·.1)).Nodup)
    (hp : parsePoint rd ver seen as = some x) : x.ident = Spec.get as "identifier" := by
  unfold parsePoint at hp
  cases hacc : foldAttrs (pStep rd ver seen) {} as with
  | none => simp [hacc] at hp
  | some acc =>
    simp only [hacc] at hp
    have hx : x.ident = acc.ident := by
      unfold pFinish at hp
      repeat' split at hp
      all_goals first | (cases hp; done) | (cases hp; rfl)
    rw [hx]
    refine fold_ident_exact (pStep rd ver seen) (·.ident) ?_ ?_ hnd hacc rfl
    · intro acc a acc' hk hs
      have hkk : pKeyOf sIdentifier = some .ident := by decide
      simp only [pStep, hk, hkk, pApply] at hs
      split at hs
      · rename_i i hi; cases hs; simp [readIdent_eq hi]
      · cases hs
    · intro acc a acc' hne hs
      unfold pStep at hs; split at hs
      · cases hs
      · rename_i k hk
        cases k <;> simp only [pApply] at hs <;> repeat' split at hs
        all_goals first | (cases hs; done) | (cases hs; first | rfl | exact absurd (pKeyOf_ident_eq hk) hne)

theorem parseComponent_ident {ver : Nat} {seen : List Str} {as : List Attr} {x : Component} (hnd : (as.map (·.1)).Nodup)
    (hp : parseComponent rd ver seen as = some x) : x.ident = Spec.get as "identifier" := by
  unfold parseComponent at hp
  cases hacc : foldAttrs (cStep rd ver seen) {} as with
  | none => simp [hacc] at hp
  | some acc =>
    simp only [hacc] at hp
    have hx : x.ident = acc.ident := by
      unfold cFinish at hp
      repeat' split at hp
      all_goals first | (cases hp; done) | (cases hp; rfl)
    rw [hx]
    refine fold_ident_exact (cStep rd ver seen) (·.ident) ?_ ?_ hnd hacc rfl
    · intro acc a acc' hk hs
      have hkk : cKeyOf sIdentifier = some .ident := by decide
      simp only [cStep, hk, hkk, cApply] at hs
      split at hs
      · rename_i i hi; cases hs; simp [readIdent_eq hi]
      · cases hs
    · intro acc a acc' hne hs
      unfold cStep at hs; split at hs
      · cases hs
      · rename_i k hk
        cases k <;> simp only [cApply] at hs <;> repeat' split at hs
        all_goals first | (cases hs; done) | (cases hs; first | rfl | exact absurd (cKeyOf_ident_eq hk) hne)

end

/-! ### contours and outlines -/

section
variable {rd : Str → Option Nat}

/-! ### what the tokeniser and the shape reader guarantee of a `Spec.Doc` (not `judge`'s business) -/

def NodupAttrs (a : Option (List Attr)) : Prop := ∀ as, a = some as → (as.map (·.1)).Nodup

def CShaped : CItem → Prop
  | .elem e => NodupAttrs e.attrs ∧ e.selfClosed = true
  | .comment => True

def OShaped : OItem → Prop
  | .contour a _ kids => NodupAttrs a ∧ ∀ k, k ∈ kids → CShaped k
  | .elem e => NodupAttrs e.attrs ∧ e.selfClosed = true
  | .comment => True

theorem ident_fresh_of_get {as : List Attr} {seen : List Str} (hnd : (as.map (·.1)).Nodup)
    (h : ∀ i, Spec.get as "identifier" = some i → i ∉ seen) : ∀ v, (sIdentifier, v) ∈ as → v ∉ seen :=
  fun v hv => h v (get_of_mem_nodup hnd hv)

theorem elemIdent_eq {e : Elem} {as : List Attr} (h : e.attrs = some as) :
    elemIdent e = (Spec.get as "identifier").toList := by
  unfold elemIdent
  simp only [h]
  cases Spec.get as "identifier" <;> rfl

/-- points and comments inside a contour -/
theorem contour_kids_reach (law : ReadsNumerals rd) : ∀ (ks : List CItem) (s : PS) (ob : OB) (cid : Option Str) (pts : List Point),
    s.mode = .contour ob cid pts →
    (∀ k, k ∈ ks → CShaped k) →
    (∀ e, CItem.elem e ∈ ks → e.name = sPoint ∧ elemCheck rd s.ver e = ([], false)) →
    (ks.flatMap citemIdents).Nodup → (∀ i, i ∈ ks.flatMap citemIdents → i ∉ s.seen) →
    ∃ sn newpts, Reach rd s (ks.flatMap CItem.evs) { s with seen := sn, mode := .contour ob cid (pts ++ newpts) } ∧
      (∀ i, i ∈ sn → i ∈ s.seen ∨ i ∈ ks.flatMap citemIdents) ∧
      newpts.map toPt = (contourElems ks).map ptOfElem ∧
      (∀ i, (i ∈ s.seen ∨ i ∈ ks.flatMap citemIdents) → i ∈ sn) := by
  intro ks
  induction ks with
  | nil =>
    intro s ob cid pts hm _ _ _ _
    exact ⟨s.seen, [], (Reach.nil s).cast (by cases s with | mk g _ _ _ _ _ _ => simp_all), fun i hi => Or.inl hi, rfl,
      fun i hi => hi.elim id (fun h => by simp at h)⟩
  | cons k r ih =>
    intro s ob cid pts hm hsh hel hnd hfr
    rw [List.flatMap_cons] at hnd hfr
    obtain ⟨n1, n2, n3⟩ := List.nodup_append.1 hnd
    cases k with
    | comment =>
      have h1 : step rd s .comment = .ok (.inl s) := by simp [step, hm, stepContour, cont]
      obtain ⟨sn, np, hr, hs1, hs2, hs3⟩ := ih s ob cid pts hm (fun k hk => hsh k (List.mem_cons_of_mem _ hk))
        (fun e he => hel e (List.mem_cons_of_mem _ he)) n2 (fun i hi => hfr i (List.mem_append_right _ hi))
      refine ⟨sn, np, by simpa [List.flatMap_cons, CItem.evs] using Reach.cons h1 hr, ?_, ?_, ?_⟩
      · intro i hi; rcases hs1 i hi with h | h
        · exact Or.inl h
        · exact Or.inr (by simp [List.flatMap_cons, citemIdents, h])
      · simpa [contourElems, List.filterMap_cons] using hs2
      · intro i hi
        exact hs3 i (hi.imp id (fun h => by simpa [List.flatMap_cons, citemIdents] using h))
    | elem e =>
      obtain ⟨hname, hclean⟩ := hel e List.mem_cons_self
      obtain ⟨hndA, hsc⟩ := hsh _ List.mem_cons_self
      obtain ⟨tbl, as, hc⟩ := elemCheck_clean hclean
      have hnda := hndA as hc.attrs
      have hids : citemIdents (.elem e) = (Spec.get as "identifier").toList := by
        simp [citemIdents, hname, elemIdent_eq hc.attrs]
      obtain ⟨x, hp, hxid⟩ := point_clean_accepted law hc hname (ident_fresh_of_get hnda (fun i hi =>
        hfr i (List.mem_append_left _ (by rw [hids, hi]; simp))))
      have hxi : ∀ i, x.ident = some i → Spec.get as "identifier" = some i := fun i hi => get_of_mem_nodup hnda (hxid i hi)
      have h1 : step rd s (.empty e.name e.attrs) = .ok (.inl
          { s with seen := addSeen s.seen x.ident, mode := .contour ob cid (pts ++ [x]) }) := by
        rw [hname, hc.attrs]; simp +decide [step, hm, stepContour, hp, cont]
      have hseen1 : ∀ i, i ∈ addSeen s.seen x.ident → i ∈ s.seen ∨ i ∈ citemIdents (.elem e) := by
        intro i hi
        cases hx : x.ident with
        | none => simp [addSeen, hx] at hi; exact Or.inl hi
        | some j =>
          simp only [addSeen, hx, List.mem_cons] at hi
          rcases hi with rfl | hi
          · exact Or.inr (by rw [hids, hxi _ hx]; simp)
          · exact Or.inl hi
      obtain ⟨sn, np, hr, hs1, hs2, hs3⟩ := ih { s with seen := addSeen s.seen x.ident, mode := .contour ob cid (pts ++ [x]) }
        ob cid (pts ++ [x]) rfl (fun k hk => hsh k (List.mem_cons_of_mem _ hk))
        (fun e he => hel e (List.mem_cons_of_mem _ he)) n2 (by
          intro i hi hmem
          rcases hseen1 i hmem with h | h
          · exact hfr i (List.mem_append_right _ hi) h
          · exact n3 i h i hi rfl)
      have hlow : ∀ i, (i ∈ s.seen ∨ i ∈ (CItem.elem e :: r).flatMap citemIdents) → i ∈ sn := by
        intro i hi
        rw [List.flatMap_cons, List.mem_append, hids] at hi
        rcases hi with h | h | h
        · exact hs3 i (Or.inl (mem_addSeen h))
        · refine hs3 i (Or.inl ?_)
          rw [parsePoint_ident hnda hp]
          cases hg : Spec.get as "identifier" with
          | none => simp [hg] at h
          | some j => simp [hg] at h; simp [addSeen, h]
        · exact hs3 i (Or.inr h)
      refine ⟨sn, x :: np, ?_, ?_, ?_, hlow⟩
      · have := Reach.cons h1 hr
        simp only [List.flatMap_cons, CItem.evs, Elem.evs, hsc, if_true, List.cons_append, List.nil_append]
        exact this.cast (by simp [List.append_assoc])
      · intro i hi
        rcases hs1 i hi with h | h
        · rcases hseen1 i h with h' | h'
          · exact Or.inl h'
          · exact Or.inr (by rw [List.flatMap_cons]; exact List.mem_append_left _ h')
        · exact Or.inr (by rw [List.flatMap_cons]; exact List.mem_append_right _ h)
      · simp only [contourElems, List.filterMap_cons, List.map_cons] at hs2 ⊢
        rw [hs2]
        rw [point_clean_toPt hc.attrs hnda hp]

/-- the `contour` start tag of a clean contour -/
theorem contour_start_clean {ver : Nat} {seen : List Str} {as : List Attr} (hnd : (as.map (·.1)).Nodup)
    (hown : ∀ a, a ∈ as → a.1 = "identifier".toList ∧ ver ≠ 1 ∧ validIdent a.2 = true)
    (hfr : ∀ i, Spec.get as "identifier" = some i → i ∉ seen) :
    parseContourAttrs ver seen as = some (Spec.get as "identifier") := by
  match as, hnd, hown, hfr with
  | [], _, _, _ => rfl
  | [a], _, hown, hfr =>
    obtain ⟨a1, a2⟩ := a
    obtain ⟨h1, h2, h3⟩ := hown _ List.mem_cons_self
    simp only at h1; subst h1
    have hg : Spec.get [("identifier".toList, a2)] "identifier" = some a2 := by simp [Spec.get]
    have hf := hfr a2 hg
    rw [hg]
    simp [parseContourAttrs, foldAttrs, ctStep, h2, sIdentifier_lit, readIdent, h3, hf]
  | a :: b :: r, hnd, hown, _ =>
    have h1 := (hown a List.mem_cons_self).1
    have h2 := (hown b (List.mem_cons_of_mem _ List.mem_cons_self)).1
    simp only [List.map_cons, List.nodup_cons, List.mem_cons, not_or] at hnd
    exact absurd (h1.trans h2.symm) hnd.1.1

theorem contourCheck_clean {ver : Nat} {a : Option (List Attr)} {kids : List CItem}
    (h : contourCheck rd ver a kids = ([], false)) :
    (∃ as, a = some as ∧ ∀ x, x ∈ as → x.1 = "identifier".toList ∧ ver ≠ 1 ∧ validIdent x.2 = true) ∧
    (∀ e, CItem.elem e ∈ kids → e.name = sPoint ∧ elemCheck rd ver e = ([], false)) ∧
    C11.legalB ((contourElems kids).map ptOfElem) = true := by
  unfold contourCheck at h
  have hm := merge_clean h
  have hper : ∀ e, CItem.elem e ∈ kids → e.name = sPoint ∧ elemCheck rd ver e = ([], false) := by
    intro e he
    have hmem : e ∈ contourElems kids := List.mem_filterMap.2 ⟨_, he, rfl⟩
    have := hm _ (List.mem_cons_of_mem _ (List.mem_cons_of_mem _ (List.mem_map.2 ⟨e, hmem, rfl⟩)))
    by_cases hn : e.name = sPoint
    · simp only [hn, if_true] at this; exact ⟨hn, this⟩
    · simp [hn] at this
  refine ⟨?_, hper, ?_⟩
  · have := hm _ List.mem_cons_self
    cases a with
    | none => simp at this
    | some as =>
      refine ⟨as, rfl, ?_⟩
      intro x hx
      have hx' := merge_clean this _ (List.mem_map.2 ⟨x, hx, rfl⟩)
      by_cases hi : x.1 = "identifier".toList
      · simp only [hi, if_true] at hx'
        by_cases hv : ver = 1
        · subst hv; simp at hx'
        · have hv' : (ver == 1) = false := by simpa using hv
          simp only [hv', Bool.false_eq_true, if_false] at hx'
          exact ⟨hi, hv, (valueCheck_clean hx' : validIdent x.2 = true ∧ x.2 ≠ []).1⟩
      · rw [if_neg hi] at hx'
        cases hx'
  · have := hm _ (List.mem_cons_of_mem _ List.mem_cons_self)
    simp only [Prod.mk.injEq, and_true] at this
    have hall : ((contourElems kids).all (fun e => decide (e.name = sPoint))) = true := by
      apply List.all_eq_true.2
      intro e he
      obtain ⟨k, hk, hke⟩ := List.mem_filterMap.1 he
      cases k with
      | comment => cases hke
      | elem e' => cases hke; simpa using (hper _ hk).1
    cases hl : C11.legalB ((contourElems kids).map ptOfElem) with
    | true => rfl
    | false =>
      rw [if_pos ⟨hall, by rw [hl]; rfl⟩] at this
      cases this

/-- contours (either spelling), components and comments inside an outline -/
theorem outline_kids_reach (law : ReadsNumerals rd) : ∀ (ks : List OItem) (s : PS) (ob : OB),
    s.mode = .outline ob →
    (∀ k, k ∈ ks → OShaped k) → (∀ k, k ∈ ks → oitemCheck rd s.ver k = ([], false)) →
    (ks.flatMap oitemIdents).Nodup → (∀ i, i ∈ ks.flatMap oitemIdents → i ∉ s.seen) →
    ∃ sn ob', Reach rd s (ks.flatMap OItem.evs) { s with seen := sn, mode := .outline ob' } ∧
      (∀ i, i ∈ sn → i ∈ s.seen ∨ i ∈ ks.flatMap oitemIdents) ∧
      (∀ i, (i ∈ s.seen ∨ i ∈ ks.flatMap oitemIdents) → i ∈ sn) := by
  intro ks
  induction ks with
  | nil =>
    intro s ob hm _ _ _ _
    exact ⟨s.seen, ob, (Reach.nil s).cast (by cases s with | mk g _ _ _ _ _ _ => simp_all), fun i hi => Or.inl hi,
      fun i hi => hi.elim id (fun h => by simp at h)⟩
  | cons k r ih =>
    intro s ob hm hsh hcl hnd hfr
    rw [List.flatMap_cons] at hnd hfr
    obtain ⟨n1, n2, n3⟩ := List.nodup_append.1 hnd
    -- one item: from `s` to a state of the same form
    have hone : ∃ sn ob', Reach rd s (OItem.evs k) { s with seen := sn, mode := .outline ob' } ∧
        (∀ i, i ∈ sn → i ∈ s.seen ∨ i ∈ oitemIdents k) ∧ (∀ i, (i ∈ s.seen ∨ i ∈ oitemIdents k) → i ∈ sn) := by
      have hk := hcl k List.mem_cons_self
      have hs := hsh k List.mem_cons_self
      cases k with
      | comment =>
        have h1 : step rd s .comment = .ok (.inl s) := by simp [step, hm, stepOutline, cont]
        exact ⟨s.seen, ob, (Reach.one h1).cast (by cases s with | mk g _ _ _ _ _ _ => simp_all), fun i hi => Or.inl hi,
          fun i hi => hi.elim id (fun h => by simp [oitemIdents] at h)⟩
      | elem e =>
        obtain ⟨hndA, hsc⟩ := hs
        simp only [oitemCheck] at hk
        by_cases hn : e.name = sComponent
        · simp only [hn, if_true] at hk
          obtain ⟨tbl, as, hc⟩ := elemCheck_clean hk
          have hnda := hndA as hc.attrs
          have hids : oitemIdents (.elem e) = (Spec.get as "identifier").toList := by
            simp [oitemIdents, hn, elemIdent_eq hc.attrs]
          obtain ⟨x, hp, hxid⟩ := component_clean_accepted law hc hn (ident_fresh_of_get hnda (fun i hi =>
            hfr i (List.mem_append_left _ (by rw [hids, hi]; simp))))
          have h1 : step rd s (.empty e.name e.attrs) = .ok (.inl
              { s with seen := addSeen s.seen x.ident, mode := .outline { ob with components := ob.components ++ [x] } }) := by
            rw [hn, hc.attrs]; simp +decide [step, hm, stepOutline, hp, cont]
          refine ⟨addSeen s.seen x.ident, { ob with components := ob.components ++ [x] }, ?_, ?_, ?_⟩
          rotate_left 2
          · intro i hi
            rw [hids] at hi
            rcases hi with h | h
            · exact mem_addSeen h
            · rw [parseComponent_ident hnda hp]
              cases hg : Spec.get as "identifier" with
              | none => simp [hg] at h
              | some j => simp [hg] at h; simp [addSeen, h]
          · simp only [OItem.evs, Elem.evs, hsc, if_true]
            exact Reach.one h1
          · intro i hi
            cases hx : x.ident with
            | none => simp [addSeen, hx] at hi; exact Or.inl hi
            | some j =>
              simp only [addSeen, hx, List.mem_cons] at hi
              rcases hi with rfl | hi
              · exact Or.inr (by rw [hids, get_of_mem_nodup hnda (hxid _ hx)]; simp)
              · exact Or.inl hi
        · simp [hn] at hk
      | contour a sc kids =>
        obtain ⟨hndA, hkids⟩ := hs
        cases sc with
        | true =>
          have h1 : step rd s (.empty sContour a) = .ok (.inl s) := by simp [step, hm, stepOutline, cont]
          exact ⟨s.seen, ob, (Reach.one h1).cast (by cases s with | mk g _ _ _ _ _ _ => simp_all), fun i hi => Or.inl hi,
            fun i hi => hi.elim id (fun h => by simp [oitemIdents] at h)⟩
        | false =>
          simp only [oitemCheck] at hk
          obtain ⟨⟨as, rfl, hown⟩, hper, hleg⟩ := contourCheck_clean hk
          have hnda := hndA as rfl
          have hids : oitemIdents (.contour (some as) false kids) =
              (Spec.get as "identifier").toList ++ kids.flatMap citemIdents := by
            simp only [oitemIdents]; cases Spec.get as "identifier" <;> rfl
          rw [hids] at n1 hfr
          obtain ⟨m1, m2, m3⟩ := List.nodup_append.1 n1
          have hstart := contour_start_clean (ver := s.ver) (seen := s.seen) hnda hown (fun i hi =>
            hfr i (List.mem_append_left _ (List.mem_append_left _ (by rw [hi]; simp))))
          have h1 : step rd s (.start sContour (some as)) = .ok (.inl
              { s with seen := addSeen s.seen (Spec.get as "identifier"), mode := .contour ob (Spec.get as "identifier") [] }) := by
            simp +decide [step, hm, stepOutline, hstart, cont]
          have hseen1 : ∀ i, i ∈ addSeen s.seen (Spec.get as "identifier") → i ∈ s.seen ∨ i ∈ (Spec.get as "identifier").toList := by
            intro i hi
            cases hg : Spec.get as "identifier" with
            | none => simp [addSeen, hg] at hi; exact Or.inl hi
            | some j =>
              simp only [addSeen, hg, List.mem_cons] at hi
              rcases hi with rfl | hi
              · exact Or.inr (by simp)
              · exact Or.inl hi
          obtain ⟨sn, np, hr, hs1, hs2, hs3⟩ := contour_kids_reach law kids
            { s with seen := addSeen s.seen (Spec.get as "identifier"), mode := .contour ob (Spec.get as "identifier") [] }
            ob (Spec.get as "identifier") [] rfl hkids hper m2 (by
              intro i hi hmem
              rcases hseen1 i hmem with h | h
              · exact hfr i (List.mem_append_left _ (List.mem_append_right _ hi)) h
              · exact m3 i h i hi rfl)
          have hacc : C11.accepts (([] ++ np).map toPt) = true := by
            rw [List.nil_append, hs2, C11.accepts_eq_legalB]; exact hleg
          have h3 : step rd { s with seen := sn, mode := .contour ob (Spec.get as "identifier") ([] ++ np) } (.close sContour) =
              .ok (.inl { s with seen := sn, mode := .outline (if ([] ++ np).isEmpty then ob else
                { ob with contours := ob.contours ++ [{ points := [] ++ np, ident := Spec.get as "identifier" }] }) }) := by
            simp only [step, stepContour, hacc, if_true, cont]
          refine ⟨sn, (if ([] ++ np).isEmpty then ob else
                { ob with contours := ob.contours ++ [{ points := [] ++ np, ident := Spec.get as "identifier" }] }), ?_, ?_, ?_⟩
          rotate_left 2
          · intro i hi
            rw [hids, List.mem_append] at hi
            rcases hi with h | h | h
            · exact hs3 i (Or.inl (mem_addSeen h))
            · refine hs3 i (Or.inl ?_)
              cases hg : Spec.get as "identifier" with
              | none => simp [hg] at h
              | some j => simp [hg] at h; simp [addSeen, h]
            · exact hs3 i (Or.inr h)
          · simp only [OItem.evs]
            exact Reach.cons h1 (Reach.append hr (Reach.one h3))
          · intro i hi
            rcases hs1 i hi with h | h
            · rcases hseen1 i h with h' | h'
              · exact Or.inl h'
              · exact Or.inr (by rw [hids]; exact List.mem_append_left _ h')
            · exact Or.inr (by rw [hids]; exact List.mem_append_right _ h)
    obtain ⟨sn1, ob1, hr1, hb1, hl1⟩ := hone
    obtain ⟨sn2, ob2, hr2, hb2, hl2⟩ := ih { s with seen := sn1, mode := .outline ob1 } ob1 rfl
      (fun k hk => hsh k (List.mem_cons_of_mem _ hk)) (fun k hk => hcl k (List.mem_cons_of_mem _ hk)) n2 (by
        intro i hi hmem
        rcases hb1 i hmem with h | h
        · exact hfr i (List.mem_append_right _ hi) h
        · exact n3 i h i hi rfl)
    refine ⟨sn2, ob2, ?_, ?_, ?_⟩
    rotate_left 2
    · intro i hi
      rw [List.flatMap_cons, List.mem_append] at hi
      rcases hi with h | h | h
      · exact hl2 i (Or.inl (hl1 i (Or.inl h)))
      · exact hl2 i (Or.inl (hl1 i (Or.inr h)))
      · exact hl2 i (Or.inr h)
    · rw [List.flatMap_cons]
      exact (Reach.append hr1 hr2).cast (by simp)
    · intro i hi
      rcases hb2 i hi with h | h
      · rcases hb1 i h with h' | h'
        · exact Or.inl h'
        · exact Or.inr (by rw [List.flatMap_cons]; exact List.mem_append_left _ h')
      · exact Or.inr (by rw [List.flatMap_cons]; exact List.mem_append_right _ h)
end

section
variable {rd : Str → Option Nat}

/-! ### body items -/

def libSkips : Ev → Bool
  | .error => false
  | .close n => n != sLib
  | _ => true

def NShaped : NItem → Prop
  | .text none => False
  | _ => True

def IShaped : Item → Prop
  | .elem e => NodupAttrs e.attrs ∧ (if e.name = sNote then e.selfClosed = false else e.selfClosed = true)
  | .outline _ sc kids => (∀ k, k ∈ kids → OShaped k) ∧ (sc = true → kids = [])
  | .lib _ _ inner => ∀ e, e ∈ inner → libSkips e = true
  | .note _ kids => ∀ k, k ∈ kids → NShaped k
  | .comment => True

/-- `public.objectLibs`, if present, is a dictionary of dictionaries -/
def LibOK (l : Dict) : Prop := ∀ v, dictGet objectLibsKey l = some v → ∃ ol, v = PV.dict ol ∧ AllDicts ol

/-- the lower bounds: what the item certainly left in the state -/
structure BodyLow (s' : PS) (ids : List Str) (nm : Option Str) : Prop where
  seen : ∀ i, i ∈ ids → i ∈ s'.seen
  adv : nm = some sAdvance → s'.seenAdvance = true
  outline : nm = some sOutline → s'.seenOutline = true
  lib : nm = some sLib → s'.seenLib = true
  image : nm = some sImage → s'.g.image.isSome = true

/-- a `note` element with text in it -/
def noteWithText : Item → Prop
  | .note _ kids => ∃ t, NItem.text (some t) ∈ kids
  | _ => False

structure BodyStep (s s' : PS) (ids : List Str) (nm : Option Str) : Prop where
  mode : s'.mode = .body
  ver : s'.ver = s.ver
  seen : ∀ i, i ∈ s'.seen → i ∈ s.seen ∨ i ∈ ids
  adv : s'.seenAdvance = true → s.seenAdvance = true ∨ nm = some sAdvance
  outline : s'.seenOutline = true → s.seenOutline = true ∨ nm = some sOutline
  lib : s'.seenLib = true → s.seenLib = true ∨ nm = some sLib
  note : s'.g.note.isSome = true → s.g.note.isSome = true ∨ nm = some sNote
  image : s'.g.image.isSome = true → s.g.image.isSome = true ∨ nm = some sImage
  low : BodyLow s' ids nm

theorem containerAttrs_nil {a : Option (List Attr)} (h : containerAttrs a = []) : a = some [] := by
  cases a with
  | none => simp [containerAttrs] at h
  | some as => cases as with
    | nil => rfl
    | cons _ _ => simp [containerAttrs] at h

theorem lib_skip_reach {v : LibV} : ∀ (inner : List Ev) (s : PS), s.mode = .lib v →
    (∀ e, e ∈ inner → libSkips e = true) → Reach rd s inner s := by
  intro inner
  induction inner with
  | nil => intro s _ _; exact Reach.nil s
  | cons e r ih =>
    intro s hm h
    have he := h e List.mem_cons_self
    have h1 : step rd s e = .ok (.inl s) := by
      cases e <;> simp only [libSkips] at he <;> first | (simp [step, hm, stepLib, cont]; done) | skip
      · cases he
      · rename_i n
        have hn : n ≠ sLib := by simpa using he
        simp [step, hm, stepLib, hn, cont]
    exact Reach.cons h1 (ih s hm (fun x hx => h x (List.mem_cons_of_mem _ hx)))

theorem note_kids_reach : ∀ (kids : List NItem) (s : PS), s.mode = .note → (∀ k, k ∈ kids → NShaped k) →
    ∃ nt, Reach rd s (kids.flatMap NItem.evs) { s with g := { s.g with note := nt } } ∧
      ((s.g.note.isSome = true ∨ ∃ t, NItem.text (some t) ∈ kids) → nt.isSome = true) := by
  intro kids
  induction kids with
  | nil =>
    intro s _ _
    exact ⟨s.g.note, (Reach.nil s).cast (by cases s with | mk g _ _ _ _ _ _ => cases g; rfl),
      fun h => h.elim id (fun ⟨t, ht⟩ => by simp at ht)⟩
  | cons k r ih =>
    intro s hm h
    have hk := h k List.mem_cons_self
    cases k with
    | comment =>
      have h1 : step rd s .comment = .ok (.inl s) := by simp [step, hm, stepNote, cont]
      obtain ⟨nt, hr, hlo⟩ := ih s hm (fun x hx => h x (List.mem_cons_of_mem _ hx))
      exact ⟨nt, by simpa [List.flatMap_cons, NItem.evs] using Reach.cons h1 hr,
        fun hh => hlo (hh.imp id (fun ⟨t, ht⟩ => ⟨t, by simpa using ht⟩))⟩
    | cdata =>
      have h1 : step rd s .cdata = .ok (.inl s) := by simp [step, hm, stepNote, cont]
      obtain ⟨nt, hr, hlo⟩ := ih s hm (fun x hx => h x (List.mem_cons_of_mem _ hx))
      exact ⟨nt, by simpa [List.flatMap_cons, NItem.evs] using Reach.cons h1 hr,
        fun hh => hlo (hh.imp id (fun ⟨t, ht⟩ => ⟨t, by simpa using ht⟩))⟩
    | text t =>
      cases t with
      | none => exact absurd hk (by simp [NShaped])
      | some t =>
        have h1 : step rd s (.text (some t)) = .ok (.inl { s with g := { s.g with note := some t } }) := by
          simp [step, hm, stepNote, cont]
        obtain ⟨nt, hr, hlo⟩ := ih { s with g := { s.g with note := some t } } hm (fun x hx => h x (List.mem_cons_of_mem _ hx))
        exact ⟨nt, by simpa [List.flatMap_cons, NItem.evs] using Reach.cons h1 hr, fun _ => hlo (Or.inl rfl)⟩

theorem bodyStep_same (s : PS) (hm : s.mode = .body) : BodyStep s s [] none :=
  ⟨hm, rfl, fun i hi => Or.inl hi, Or.inl, Or.inl, Or.inl, Or.inl, Or.inl,
    ⟨fun i hi => (by simp at hi), fun h => (by cases h), fun h => (by cases h), fun h => (by cases h), fun h => (by cases h)⟩⟩

/-- one body item of a `judge`-clean document, from any state that fits -/
theorem item_reach (law : ReadsNumerals rd) {s : PS} (hm : s.mode = .body) (it : Item)
    (hclean : itemCheck rd s.ver it = ([], false)) (hsh : IShaped it)
    (hnd : (itemIdents it).Nodup) (hfr : ∀ i, i ∈ itemIdents it → i ∉ s.seen)
    (hadv : itemName it = some sAdvance → s.seenAdvance = false)
    (hout : itemName it = some sOutline → s.seenOutline = false)
    (hlib : itemName it = some sLib → s.seenLib = false)
    (hnote : itemName it = some sNote → s.g.note = none)
    (himg : itemName it = some sImage → s.g.image = none)
    (hl : LibOK s.g.lib) (hlnew : ∀ a d inner, it = .lib a (.dict d) inner → LibOK d) :
    ∃ s', Reach rd s (Item.evs it) s' ∧ BodyStep s s' (itemIdents it) (itemName it) ∧ LibOK s'.g.lib := by
  cases it with
  | comment =>
    have h1 : step rd s .comment = .ok (.inl s) := by simp [step, hm, stepBody, cont]
    exact ⟨s, Reach.one h1, bodyStep_same s hm, hl⟩
  | note a kids =>
    simp only [itemCheck] at hclean
    have hmc := merge_clean hclean
    have ha := containerAttrs_nil (by simpa using hmc _ List.mem_cons_self : containerAttrs a = [])
    have hv : s.ver ≠ 1 := by
      intro e
      have := hmc _ (List.mem_cons_of_mem _ List.mem_cons_self)
      simp [e] at this
    have hn := hnote rfl
    have h1 : step rd s (.start sNote a) = .ok (.inl { s with mode := .note }) := by
      simp +decide [step, hm, stepBody, bodyStart, hv, hn, cont]
    obtain ⟨nt, hr, _⟩ := note_kids_reach (rd := rd) kids { s with mode := .note } rfl hsh
    have h3 : step rd { s with mode := .note, g := { s.g with note := nt } } (.close sNote) =
        .ok (.inl { s with mode := .body, g := { s.g with note := nt } }) := by
      simp [step, stepNote, cont]
    refine ⟨{ s with mode := .body, g := { s.g with note := nt } }, ?_, ?_, hl⟩
    · simp only [Item.evs]
      exact Reach.cons h1 (Reach.append hr (Reach.one h3))
    · exact ⟨rfl, rfl, fun i hi => Or.inl hi, Or.inl, Or.inl, Or.inl, fun _ => Or.inr rfl, Or.inl,
        ⟨fun i hi => (by simp [itemIdents] at hi), fun h => (by simp +decide [itemName] at h), fun h => (by simp +decide [itemName] at h),
          fun h => (by simp +decide [itemName] at h), fun h => (by simp +decide [itemName] at h)⟩⟩
  | lib a v inner =>
    simp only [itemCheck] at hclean
    have hmc := merge_clean hclean
    have ha := containerAttrs_nil (by simpa using hmc _ List.mem_cons_self : containerAttrs a = [])
    have hv := hmc _ (List.mem_cons_of_mem _ List.mem_cons_self)
    cases v with
    | bad => simp at hv
    | notDict => simp at hv
    | dict d =>
      have hs := hlib rfl
      have h1 : step rd s (.startLib a (.dict d)) = .ok (.inl { s with seenLib := true, mode := .lib (.dict d) }) := by
        simp [step, hm, stepBody, hs, cont]
      have hr := lib_skip_reach (rd := rd) inner { s with seenLib := true, mode := .lib (.dict d) } rfl hsh
      have h3 : step rd { s with seenLib := true, mode := .lib (.dict d) } (.close sLib) =
          .ok (.inl { s with seenLib := true, mode := .body, g := { s.g with lib := d } }) := by
        simp [step, stepLib, cont]
      refine ⟨{ s with seenLib := true, mode := .body, g := { s.g with lib := d } }, ?_, ?_, hlnew a d inner rfl⟩
      · simp only [Item.evs]
        exact Reach.cons h1 (Reach.append hr (Reach.one h3))
      · exact ⟨rfl, rfl, fun i hi => Or.inl hi, Or.inl, Or.inl, fun _ => Or.inr rfl, Or.inl, Or.inl,
          ⟨fun i hi => (by simp [itemIdents] at hi), fun h => (by simp +decide [itemName] at h), fun h => (by simp +decide [itemName] at h),
            fun _ => rfl, fun h => (by simp +decide [itemName] at h)⟩⟩
  | outline a sc kids =>
    simp only [itemCheck] at hclean
    have hmc := merge_clean hclean
    have ha := containerAttrs_nil (by simpa using hmc _ List.mem_cons_self : containerAttrs a = [])
    have hso := hout rfl
    obtain ⟨hsh, hscE⟩ := hsh
    cases sc with
    | true =>
      have h1 : step rd s (.empty sOutline a) = .ok (.inl { s with seenOutline := true }) := by
        simp [step, hm, stepBody, bodyEmpty, hso, cont]
      refine ⟨{ s with seenOutline := true }, by simpa [Item.evs] using Reach.one h1, ?_, hl⟩
      exact ⟨hm, rfl, fun i hi => Or.inl hi, Or.inl, fun _ => Or.inr rfl, Or.inl, Or.inl, Or.inl,
        ⟨fun i hi => (by simp [itemIdents, hscE rfl] at hi), fun h => (by simp +decide [itemName] at h), fun _ => rfl,
          fun h => (by simp +decide [itemName] at h), fun h => (by simp +decide [itemName] at h)⟩⟩
    | false =>
      have h1 : step rd s (.start sOutline a) = .ok (.inl { s with seenOutline := true, mode := .outline {} }) := by
        simp [step, hm, stepBody, bodyStart, hso, cont]
      obtain ⟨sn, ob', hr, hb, hlo⟩ := outline_kids_reach law kids { s with seenOutline := true, mode := .outline {} } {} rfl hsh
        (fun k hk => hmc _ (List.mem_cons_of_mem _ (List.mem_map.2 ⟨k, hk, rfl⟩))) hnd hfr
      have h3 : step rd { s with seenOutline := true, seen := sn, mode := .outline ob' } (.close sOutline) =
          .ok (.inl (finishOutline { s with seenOutline := true, seen := sn, mode := .outline ob' } ob')) := by
        simp [step, stepOutline, cont]
      refine ⟨finishOutline { s with seenOutline := true, seen := sn, mode := .outline ob' } ob', ?_, ?_, ?_⟩
      · simp only [Item.evs]
        exact Reach.cons h1 (Reach.append hr (Reach.one h3))
      · unfold finishOutline
        split
        · cases upgradeV1 ob'.contours
          exact ⟨rfl, rfl, hb, Or.inl, fun _ => Or.inr rfl, Or.inl, Or.inl, Or.inl,
            ⟨fun i hi => hlo i (Or.inr hi), fun h => (by simp +decide [itemName] at h), fun _ => rfl,
              fun h => (by simp +decide [itemName] at h), fun h => (by simp +decide [itemName] at h)⟩⟩
        · exact ⟨rfl, rfl, hb, Or.inl, fun _ => Or.inr rfl, Or.inl, Or.inl, Or.inl,
            ⟨fun i hi => hlo i (Or.inr hi), fun h => (by simp +decide [itemName] at h), fun _ => rfl,
              fun h => (by simp +decide [itemName] at h), fun h => (by simp +decide [itemName] at h)⟩⟩
      · unfold finishOutline
        split
        · cases upgradeV1 ob'.contours; exact hl
        · exact hl
  | elem e =>
    obtain ⟨hndA, hsc⟩ := hsh
    simp only [itemCheck] at hclean
    by_cases hb : bodyNames.contains e.name = true
    · simp only [hb, if_true] at hclean
      have hne : e.name ≠ sNote := by
        intro h; rw [h] at hb; exact absurd hb (by decide)
      simp only [hne, if_false] at hsc
      obtain ⟨tbl, as, hc⟩ := elemCheck_clean hclean
      have hnda := hndA as hc.attrs
      have hevs : Item.evs (.elem e) = [.empty e.name (some as)] := by simp [Item.evs, Elem.evs, hsc, hc.attrs]
      simp only [bodyNames, List.contains_cons, List.contains_nil, Bool.or_false, Bool.or_eq_true, beq_iff_eq] at hb
      rcases hb with hn | hn | hn | hn | hn
      · -- advance
        obtain ⟨⟨w, h⟩, hp⟩ := advance_clean_accepted law hc hn
        have hs := hadv (by simp [itemName, hn])
        have h1 : step rd s (.empty e.name (some as)) = .ok (.inl
            { s with seenAdvance := true, g := { s.g with width := w, height := h } }) := by
          rw [hn]; simp +decide [step, hm, stepBody, bodyEmpty, hs, hp, cont]
        refine ⟨{ s with seenAdvance := true, g := { s.g with width := w, height := h } }, by rw [hevs]; exact Reach.one h1, ?_, hl⟩
        exact ⟨hm, rfl, fun i hi => Or.inl hi, fun _ => Or.inr (by simp [itemName, hn]), Or.inl, Or.inl, Or.inl, Or.inl,
          ⟨fun i hi => (by simp +decide [itemIdents, hn] at hi), fun _ => rfl, fun h => (by simp +decide [itemName, hn] at h),
            fun h => (by simp +decide [itemName, hn] at h), fun h => (by simp +decide [itemName, hn] at h)⟩⟩
      · -- unicode
        obtain ⟨cps, hp⟩ := unicode_clean_accepted hc hn s.g.codepoints
        have h1 : step rd s (.empty e.name (some as)) = .ok (.inl { s with g := { s.g with codepoints := cps } }) := by
          rw [hn]; simp +decide [step, hm, stepBody, bodyEmpty, hp, cont]
        refine ⟨{ s with g := { s.g with codepoints := cps } }, by rw [hevs]; exact Reach.one h1, ?_, hl⟩
        exact ⟨hm, rfl, fun i hi => Or.inl hi, Or.inl, Or.inl, Or.inl, Or.inl, Or.inl,
          ⟨fun i hi => (by simp +decide [itemIdents, hn] at hi), fun h => (by simp +decide [itemName, hn] at h),
            fun h => (by simp +decide [itemName, hn] at h), fun h => (by simp +decide [itemName, hn] at h),
            fun h => (by simp +decide [itemName, hn] at h)⟩⟩
      · -- anchor
        have hids : itemIdents (.elem e) = (Spec.get as "identifier").toList := by
          simp [itemIdents, hn, elemIdent_eq hc.attrs]
        obtain ⟨x, hp, hxid⟩ := anchor_clean_accepted law hc hn (ident_fresh_of_get hnda (fun i hi =>
          hfr i (by rw [hids, hi]; simp)))
        have hv : s.ver ≠ 1 := fun h => hc.v1 ⟨h, Or.inl hn⟩
        have h1 : step rd s (.empty e.name (some as)) = .ok (.inl
            { s with seen := addSeen s.seen x.ident, g := { s.g with anchors := s.g.anchors ++ [x] } }) := by
          rw [hn]; simp +decide [step, hm, stepBody, bodyEmpty, hv, hp, cont]
        refine ⟨{ s with seen := addSeen s.seen x.ident, g := { s.g with anchors := s.g.anchors ++ [x] } }, by rw [hevs]; exact Reach.one h1, ?_, hl⟩
        refine ⟨hm, rfl, ?_, Or.inl, Or.inl, Or.inl, Or.inl, Or.inl,
          ⟨?_, fun h => (by simp +decide [itemName, hn] at h), fun h => (by simp +decide [itemName, hn] at h),
            fun h => (by simp +decide [itemName, hn] at h), fun h => (by simp +decide [itemName, hn] at h)⟩⟩
        rotate_left 1
        · intro i hi
          rw [hids] at hi
          show i ∈ addSeen s.seen x.ident
          rw [parseAnchor_ident hnda hp]
          cases hg : Spec.get as "identifier" with
          | none => simp [hg] at hi
          | some j => simp [hg] at hi; simp [addSeen, hi]
        intro i hi
        cases hx : x.ident with
        | none => simp [addSeen, hx] at hi; exact Or.inl hi
        | some j =>
          simp only [addSeen, hx, List.mem_cons] at hi
          rcases hi with rfl | hi
          · exact Or.inr (by rw [hids, get_of_mem_nodup hnda (hxid _ hx)]; simp)
          · exact Or.inl hi
      · -- guideline
        have hids : itemIdents (.elem e) = (Spec.get as "identifier").toList := by
          simp [itemIdents, hn, elemIdent_eq hc.attrs]
        obtain ⟨x, hp, hxid⟩ := guideline_clean_accepted law hc hn (ident_fresh_of_get hnda (fun i hi =>
          hfr i (by rw [hids, hi]; simp)))
        have hv : s.ver ≠ 1 := fun h => hc.v1 ⟨h, Or.inr (Or.inl hn)⟩
        have h1 : step rd s (.empty e.name (some as)) = .ok (.inl
            { s with seen := addSeen s.seen x.ident, g := { s.g with guidelines := s.g.guidelines ++ [x] } }) := by
          rw [hn]; simp +decide [step, hm, stepBody, bodyEmpty, hv, hp, cont]
        refine ⟨{ s with seen := addSeen s.seen x.ident, g := { s.g with guidelines := s.g.guidelines ++ [x] } }, by rw [hevs]; exact Reach.one h1, ?_, hl⟩
        refine ⟨hm, rfl, ?_, Or.inl, Or.inl, Or.inl, Or.inl, Or.inl,
          ⟨?_, fun h => (by simp +decide [itemName, hn] at h), fun h => (by simp +decide [itemName, hn] at h),
            fun h => (by simp +decide [itemName, hn] at h), fun h => (by simp +decide [itemName, hn] at h)⟩⟩
        rotate_left 1
        · intro i hi
          rw [hids] at hi
          show i ∈ addSeen s.seen x.ident
          rw [parseGuideline_ident hnda hp]
          cases hg : Spec.get as "identifier" with
          | none => simp [hg] at hi
          | some j => simp [hg] at hi; simp [addSeen, hi]
        intro i hi
        cases hx : x.ident with
        | none => simp [addSeen, hx] at hi; exact Or.inl hi
        | some j =>
          simp only [addSeen, hx, List.mem_cons] at hi
          rcases hi with rfl | hi
          · exact Or.inr (by rw [hids, get_of_mem_nodup hnda (hxid _ hx)]; simp)
          · exact Or.inl hi
      · -- image
        obtain ⟨x, hp⟩ := image_clean_accepted law hc hn
        have hv : s.ver ≠ 1 := fun h => hc.v1 ⟨h, Or.inr (Or.inr hn)⟩
        have hi := himg (by simp [itemName, hn])
        have h1 : step rd s (.empty e.name (some as)) = .ok (.inl { s with g := { s.g with image := some x } }) := by
          rw [hn]; simp +decide [step, hm, stepBody, bodyEmpty, hv, hi, hp, cont]
        refine ⟨{ s with g := { s.g with image := some x } }, by rw [hevs]; exact Reach.one h1, ?_, hl⟩
        exact ⟨hm, rfl, fun i hi => Or.inl hi, Or.inl, Or.inl, Or.inl, Or.inl, fun _ => Or.inr (by simp [itemName, hn]),
          ⟨fun i hi => (by simp +decide [itemIdents, hn] at hi), fun h => (by simp +decide [itemName, hn] at h),
            fun h => (by simp +decide [itemName, hn] at h), fun h => (by simp +decide [itemName, hn] at h), fun _ => rfl⟩⟩
    · simp only [hb] at hclean
      by_cases hnn : e.name = sNote
      · -- an empty note, explicit close
        simp only [hnn, if_true] at hclean hsc
        have hmc := merge_clean hclean
        have ha := containerAttrs_nil (by simpa using hmc _ List.mem_cons_self : containerAttrs e.attrs = [])
        have hv : s.ver ≠ 1 := by
          intro h
          have := hmc _ (List.mem_cons_of_mem _ List.mem_cons_self)
          simp [h] at this
        have hn := hnote (by simp [itemName, hnn])
        have h1 : step rd s (.start sNote (some [])) = .ok (.inl { s with mode := .note }) := by
          simp +decide [step, hm, stepBody, bodyStart, hv, hn, cont]
        have h2 : step rd { s with mode := .note } (.close sNote) = .ok (.inl { s with mode := .body }) := by
          simp [step, stepNote, cont]
        refine ⟨{ s with mode := .body }, ?_, ?_, hl⟩
        · simp only [Item.evs, Elem.evs, hsc, hnn, ha]
          exact Reach.cons h1 (Reach.one h2)
        · exact ⟨rfl, rfl, fun i hi => Or.inl hi, Or.inl, Or.inl, Or.inl, Or.inl, Or.inl,
            ⟨fun i hi => (by simp +decide [itemIdents, hnn] at hi), fun h => (by simp +decide [itemName, hnn] at h),
              fun h => (by simp +decide [itemName, hnn] at h), fun h => (by simp +decide [itemName, hnn] at h),
              fun h => (by simp +decide [itemName, hnn] at h)⟩⟩
      · simp only [hnn, if_false] at hclean
        by_cases hll : e.name = sLib <;> simp [hll] at hclean

/-- consuming an event list is deterministic -/
theorem reach_unique {rd : Str → Option Nat} {s s1 s2 : PS} {evs : List Ev} (h1 : Reach rd s evs s1) (h2 : Reach rd s evs s2) :
    s1 = s2 := by
  induction h1 with
  | nil s => cases h2; rfl
  | cons hs _ ih =>
    cases h2 with
    | cons hs' hr' => rw [hs] at hs'; cases hs'; exact ih hr'

/-- `item_reach`, with what a note that has text leaves behind -/
theorem item_reach_note (law : ReadsNumerals rd) {s : PS} (hm : s.mode = .body) (it : Item)
    (hclean : itemCheck rd s.ver it = ([], false)) (hsh : IShaped it)
    (hnd : (itemIdents it).Nodup) (hfr : ∀ i, i ∈ itemIdents it → i ∉ s.seen)
    (hadv : itemName it = some sAdvance → s.seenAdvance = false)
    (hout : itemName it = some sOutline → s.seenOutline = false)
    (hlib : itemName it = some sLib → s.seenLib = false)
    (hnote : itemName it = some sNote → s.g.note = none)
    (himg : itemName it = some sImage → s.g.image = none)
    (hl : LibOK s.g.lib) (hlnew : ∀ a d inner, it = .lib a (.dict d) inner → LibOK d) :
    ∃ s', Reach rd s (Item.evs it) s' ∧ BodyStep s s' (itemIdents it) (itemName it) ∧ LibOK s'.g.lib ∧
      (noteWithText it → s'.g.note.isSome = true) := by
  obtain ⟨s', hr, hb, hl'⟩ := item_reach law hm it hclean hsh hnd hfr hadv hout hlib hnote himg hl hlnew
  refine ⟨s', hr, hb, hl', ?_⟩
  cases it with
  | note a kids =>
    intro hwt
    -- the same steps again, now keeping track of the text
    simp only [itemCheck] at hclean
    have hmc := merge_clean hclean
    have hv : s.ver ≠ 1 := by
      intro e
      have := hmc _ (List.mem_cons_of_mem _ List.mem_cons_self)
      simp [e] at this
    have hn := hnote rfl
    have h1 : step rd s (.start sNote a) = .ok (.inl { s with mode := .note }) := by
      simp +decide [step, hm, stepBody, bodyStart, hv, hn, cont]
    obtain ⟨nt, hr2, hlo⟩ := note_kids_reach (rd := rd) kids { s with mode := .note } rfl hsh
    have h3 : step rd { s with mode := .note, g := { s.g with note := nt } } (.close sNote) =
        .ok (.inl { s with mode := .body, g := { s.g with note := nt } }) := by
      simp [step, stepNote, cont]
    have hr' : Reach rd s (Item.evs (.note a kids)) { s with mode := .body, g := { s.g with note := nt } } := by
      simp only [Item.evs]
      exact Reach.cons h1 (Reach.append hr2 (Reach.one h3))
    have := reach_unique hr hr'
    rw [this]
    exact hlo (Or.inr hwt)
  | comment => intro h; exact h.elim
  | lib _ _ _ => intro h; exact h.elim
  | outline _ _ _ => intro h; exact h.elim
  | elem _ => intro h; exact h.elim

/-! ### a whole body, and the document -/

def cnt (its : List Item) (n : Str) : Nat := (its.filter (fun i => itemName i == some n)).length

theorem cnt_cons (it : Item) (r : List Item) (n : Str) :
    cnt (it :: r) n = cnt r n + (if itemName it = some n then 1 else 0) := by
  unfold cnt
  by_cases h : itemName it = some n
  · simp [List.filter_cons, h]
  · have : (itemName it == some n) = false := by
      cases hb : (itemName it == some n) with
      | false => rfl
      | true => exact absurd (by simpa using hb) h
    simp [List.filter_cons, this, h]

/-- the exact effect of a clean list of body items on the parser state: which identifiers have been seen, which once-only
    elements have occurred -/
structure BodyRun (s s' : PS) (its : List Item) : Prop where
  ver : s'.ver = s.ver
  seen : ∀ i, i ∈ s'.seen ↔ (i ∈ s.seen ∨ i ∈ its.flatMap itemIdents)
  adv : s'.seenAdvance = true ↔ (s.seenAdvance = true ∨ 0 < cnt its sAdvance)
  outline : s'.seenOutline = true ↔ (s.seenOutline = true ∨ 0 < cnt its sOutline)
  lib : s'.seenLib = true ↔ (s.seenLib = true ∨ 0 < cnt its sLib)
  image : s'.g.image.isSome = true ↔ (s.g.image.isSome = true ∨ 0 < cnt its sImage)
  note : s'.g.note.isSome = true → (s.g.note.isSome = true ∨ 0 < cnt its sNote)
  noteLow : (s.g.note.isSome = true ∨ ∃ it, it ∈ its ∧ noteWithText it) → s'.g.note.isSome = true

theorem bodyRun_nil (s : PS) : BodyRun s s [] := by
  constructor <;> simp [cnt]

theorem bodyRun_cons {s s1 s2 : PS} {it : Item} {r : List Item} (hm : Mono s s1)
    (hb : BodyStep s s1 (itemIdents it) (itemName it)) (hnt : noteWithText it → s1.g.note.isSome = true)
    (hr : BodyRun s1 s2 r) : BodyRun s s2 (it :: r) := by
  have flag : ∀ (n : Str) (a a1 a2 : Prop), (a1 ↔ (a ∨ itemName it = some n)) → (a2 ↔ (a1 ∨ 0 < cnt r n)) →
      (a2 ↔ (a ∨ 0 < cnt (it :: r) n)) := by
    intro n a a1 a2 h1 h2
    rw [h2, h1, cnt_cons]
    by_cases hn : itemName it = some n
    · simp [hn]
    · simp [hn]
  constructor
  · rw [hr.ver, hb.ver]
  · intro i
    rw [hr.seen, List.flatMap_cons, List.mem_append]
    constructor
    · rintro (h | h)
      · rcases hb.seen i h with h' | h'
        · exact Or.inl h'
        · exact Or.inr (Or.inl h')
      · exact Or.inr (Or.inr h)
    · rintro (h | h | h)
      · exact Or.inl (hm.seen i h)
      · exact Or.inl (hb.low.seen i h)
      · exact Or.inr h
  · exact flag sAdvance _ _ _ ⟨hb.adv, fun h => h.elim hm.adv hb.low.adv⟩ hr.adv
  · exact flag sOutline _ _ _ ⟨hb.outline, fun h => h.elim hm.outline hb.low.outline⟩ hr.outline
  · exact flag sLib _ _ _ ⟨hb.lib, fun h => h.elim hm.lib hb.low.lib⟩ hr.lib
  · exact flag sImage _ _ _ ⟨hb.image, fun h => h.elim hm.image hb.low.image⟩ hr.image
  · intro h
    rcases hr.note h with h1 | h1
    · rcases hb.note h1 with h2 | h2
      · exact Or.inl h2
      · right; rw [cnt_cons, if_pos h2]; omega
    · right; rw [cnt_cons]; omega
  · rintro (h | ⟨x, hx, hw⟩)
    · exact hr.noteLow (Or.inl (hm.note h))
    · rcases List.mem_cons.1 hx with rfl | hx
      · exact hr.noteLow (Or.inl (hnt hw))
      · exact hr.noteLow (Or.inr ⟨x, hx, hw⟩)

theorem items_reach (law : ReadsNumerals rd) : ∀ (its : List Item) (s : PS), s.mode = .body →
    (∀ it, it ∈ its → itemCheck rd s.ver it = ([], false)) → (∀ it, it ∈ its → IShaped it) →
    (its.flatMap itemIdents).Nodup → (∀ i, i ∈ its.flatMap itemIdents → i ∉ s.seen) →
    (∀ n, cnt its n ≤ 1 ∨ (n ≠ sAdvance ∧ n ≠ sOutline ∧ n ≠ sLib ∧ n ≠ sNote ∧ n ≠ sImage)) →
    (s.seenAdvance = true → cnt its sAdvance = 0) → (s.seenOutline = true → cnt its sOutline = 0) →
    (s.seenLib = true → cnt its sLib = 0) → (s.g.note.isSome = true → cnt its sNote = 0) →
    (s.g.image.isSome = true → cnt its sImage = 0) →
    LibOK s.g.lib → (∀ a d inner, Item.lib a (.dict d) inner ∈ its → LibOK d) →
    ∃ s', Reach rd s (its.flatMap Item.evs) s' ∧ s'.mode = .body ∧ LibOK s'.g.lib ∧ BodyRun s s' its := by
  intro its
  induction its with
  | nil => intro s hm _ _ _ _ _ _ _ _ _ _ hl _; exact ⟨s, Reach.nil s, hm, hl, bodyRun_nil s⟩
  | cons it r ih =>
    intro s hm hcl hsh hnd hfr hcnt ha ho hli hn hi hl hlnew
    rw [List.flatMap_cons] at hnd hfr
    obtain ⟨n1, n2, n3⟩ := List.nodup_append.1 hnd
    have once : ∀ n, (n = sAdvance ∨ n = sOutline ∨ n = sLib ∨ n = sNote ∨ n = sImage) → cnt (it :: r) n ≤ 1 := by
      intro n hn'
      rcases hcnt n with h | h
      · exact h
      · rcases hn' with e | e | e | e | e
        · exact absurd e h.1
        · exact absurd e h.2.1
        · exact absurd e h.2.2.1
        · exact absurd e h.2.2.2.1
        · exact absurd e h.2.2.2.2
    -- a flag that is set excludes the element from the rest, so the head cannot be it
    have pre : ∀ n, (cnt (it :: r) n = 0) → itemName it ≠ some n := by
      intro n h0 e
      rw [cnt_cons, if_pos e] at h0
      omega
    have bfalse : ∀ {b : Bool}, (b = true → False) → b = false := by intro b h; cases b <;> simp_all
    obtain ⟨s1, hr1, hb1, hl1, hnt1⟩ := item_reach_note law hm it (hcl it List.mem_cons_self) (hsh it List.mem_cons_self) n1
      (fun i hi => hfr i (List.mem_append_left _ hi))
      (fun e => bfalse (fun h => pre _ (ha h) e)) (fun e => bfalse (fun h => pre _ (ho h) e))
      (fun e => bfalse (fun h => pre _ (hli h) e))
      (fun e => by
        cases hgn : s.g.note with
        | none => rfl
        | some _ => exact absurd e (pre _ (hn (by simp [hgn]))))
      (fun e => by
        cases hgi : s.g.image with
        | none => rfl
        | some _ => exact absurd e (pre _ (hi (by simp [hgi]))))
      hl (fun a d inner e => hlnew a d inner (by rw [e]; exact List.mem_cons_self))
    -- after the head: what a set flag says about the rest
    have post : ∀ n, (n = sAdvance ∨ n = sOutline ∨ n = sLib ∨ n = sNote ∨ n = sImage) →
        (cnt (it :: r) n = 0 ∨ itemName it = some n) → cnt r n = 0 := by
      intro n hn' h
      have h1 := once n hn'
      rw [cnt_cons] at h1
      rcases h with h | h
      · rw [cnt_cons] at h; omega
      · rw [if_pos h] at h1; omega
    obtain ⟨s2, hr2, hm2, hl2, hrun2⟩ := ih s1 hb1.mode
      (fun x hx => by rw [hb1.ver]; exact hcl x (List.mem_cons_of_mem _ hx))
      (fun x hx => hsh x (List.mem_cons_of_mem _ hx)) n2
      (by
        intro i hi hmem
        rcases hb1.seen i hmem with h | h
        · exact hfr i (List.mem_append_right _ hi) h
        · exact n3 i h i hi rfl)
      (by
        intro n
        rcases hcnt n with h | h
        · left; rw [cnt_cons] at h; omega
        · right; exact h)
      (fun h => post _ (Or.inl rfl) ((hb1.adv h).imp ha id))
      (fun h => post _ (Or.inr (Or.inl rfl)) ((hb1.outline h).imp ho id))
      (fun h => post _ (Or.inr (Or.inr (Or.inl rfl))) ((hb1.lib h).imp hli id))
      (fun h => post _ (Or.inr (Or.inr (Or.inr (Or.inl rfl)))) ((hb1.note h).imp hn id))
      (fun h => post _ (Or.inr (Or.inr (Or.inr (Or.inr rfl)))) ((hb1.image h).imp hi id))
      hl1 (fun a d inner hx => hlnew a d inner (List.mem_cons_of_mem _ hx))
    exact ⟨s2, by rw [List.flatMap_cons]; exact Reach.append hr1 hr2, hm2, hl2, bodyRun_cons (reach_mono rd hr1) hb1 hnt1 hrun2⟩

/-- what the tokeniser and the shape reader guarantee of a document, and the three spellings the recorded findings
    exclude (content-free elements self-closing, `note` and `glyph` not self-closed) -/
structure Shaped (d : Doc) : Prop where
  prolog : ∀ e, e ∈ d.prolog → isProlog e = true
  gattrs : NodupAttrs d.gattrs
  glyphOpen : d.gSelfClosed = false
  items : ∀ it, it ∈ d.items → IShaped it

theorem libOK_of_objectLibsCheck {d : Doc} (h : objectLibsCheck d = []) :
    ∀ a l inner, Item.lib a (.dict l) inner ∈ d.items → LibOK l := by
  intro a l inner hmem v hv
  have := (List.flatMap_eq_nil_iff.1 h) _ hmem
  simp only [hv] at this
  cases v with
  | dict ol =>
    refine ⟨ol, rfl, ?_⟩
    simp at this
    intro e he
    obtain ⟨k, v'⟩ := e
    have h2 := this k v' he
    cases v' with
    | dict d' => exact ⟨d', rfl⟩
    | str _ => simp at h2
    | atom _ => simp at h2
    | arr _ => simp at h2
  | str _ => simp at this
  | atom _ => simp at this
  | arr _ => simp at this

/-- **judge_clean_accepted**: a document the specification judges clean (`Spec.judge rd d = ([], false)`: no rule
    broken, nothing unspecified), of the shape the tokeniser delivers and in the spellings the recorded findings leave
    (`Shaped`), is accepted by the parser — format 1 and format 2, any element order, any attribute order, comments
    anywhere.  `ReadsNumerals rd`: Rust's float parser reads every plain decimal numeral. -/
theorem judge_clean_accepted (law : ReadsNumerals rd) {d : Doc} (hj : judge rd d = ([], false)) (hs : Shaped d) :
    ∃ g, parseGlif rd (Spec.flatten d) = .ok g := by
  obtain ⟨ver, hc⟩ := judge_clean hj
  have hga : ∃ as, d.gattrs = some as := by
    cases hg : d.gattrs with
    | none => have := hc.glyph; simp [glyphAttrCheck, hg] at this
    | some as => exact ⟨as, rfl⟩
  obtain ⟨as, has⟩ := hga
  obtain ⟨hv12, name, hparse⟩ := glyph_start_clean hc has (hs.gattrs as has)
  have hcnt : ∀ n, cnt d.items n ≤ 1 ∨ (n ≠ sAdvance ∧ n ≠ sOutline ∧ n ≠ sLib ∧ n ≠ sNote ∧ n ≠ sImage) := by
    intro n
    by_cases h : n = sAdvance ∨ n = sOutline ∨ n = sLib ∨ n = sNote ∨ n = sImage
    · left
      rcases h with rfl | rfl | rfl | rfl | rfl
      · exact hc.once "advance" (by decide)
      · exact hc.once "outline" (by decide)
      · exact hc.once "lib" (by decide)
      · exact hc.once "note" (by decide)
      · exact hc.once "image" (by decide)
    · right
      simp only [not_or] at h
      exact h
  obtain ⟨s', hr, hm', hl', _⟩ := items_reach law d.items { g := { name := name }, ver := ver } rfl hc.items hs.items
    hc.idents (by simp) hcnt (by intro h; cases h) (by intro h; cases h) (by intro h; cases h)
    (by intro h; simp at h) (by intro h; simp at h) (by intro v hv; simp [dictGet] at hv)
    (libOK_of_objectLibsCheck hc.objlibs)
  obtain ⟨g, hg⟩ := loadObjectLibs_ok hl'
  refine ⟨g, ?_⟩
  unfold parseGlif Spec.flatten
  simp only [hs.glyphOpen, hc.trailer, List.append_nil, has, Bool.false_eq_true, if_false]
  rw [scanStart_prolog _ _ hs.prolog]
  simp only [scanStart, if_true, hparse]
  rw [run_of_reach rd hr]
  simp [run, step, hm', stepBody, hg]
end

end Glif
