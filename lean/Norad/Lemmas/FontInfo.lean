import Norad.Spec.FontInfo
/-! Helper lemmas for C13 (the property theorems live in `Props/C13.lean`). -/
namespace C13
open FI

theorem andThen_ok (o k : Outcome) : o.andThen k = .ok ↔ o = .ok ∧ k = .ok := by
  cases o <;> simp [Outcome.andThen]

theorem andThen_ne_panic (o k : Outcome) (h1 : o ≠ .panic) (h2 : k ≠ .panic) : o.andThen k ≠ .panic := by
  cases o <;> simp_all [Outcome.andThen]

theorem stepAndThen_tt (s k : Step) : s.andThen k = .tt ↔ s = .tt ∧ k = .tt := by
  cases s <;> simp [Step.andThen]

theorem stepAndThen_ne_panic (s k : Step) (h1 : s ≠ .panic) (h2 : k ≠ .panic) : s.andThen k ≠ .panic := by
  cases s <;> simp_all [Step.andThen]

/-! ### characters -/

theorem le_iff (a b : Char) : a ≤ b ↔ a.toNat ≤ b.toNat := by
  rw [Char.le_def]
  exact UInt32.le_iff_toNat_le

theorem okChar_cases {c : Char} (h : okChar c = true) :
    (48 ≤ c.toNat ∧ c.toNat ≤ 57) ∨ c = ' ' ∨ c = '/' ∨ c = ':' := by
  simp only [okChar, Bool.or_eq_true, Bool.and_eq_true, decide_eq_true_eq, beq_iff_eq, le_iff] at h
  rcases h with ((⟨h1, h2⟩ | h) | h) | h
  · left; exact ⟨h1, h2⟩
  · right; left; exact h
  · right; right; left; exact h
  · right; right; right; exact h

theorem okChar_size {c : Char} (h : okChar c = true) : utf8Size c = 1 := by
  rcases okChar_cases h with ⟨_, h2⟩ | h | h | h
  · simp only [utf8Size]; rw [if_pos (by omega)]
  all_goals (subst h; decide)

theorem okChar_ne_plus {c : Char} (h : okChar c = true) : c ≠ '+' := by
  intro e; subst e; exact absurd h (by decide)

theorem isDig_okChar {c : Char} (h : isDig c = true) : okChar c = true := by
  simp only [isDig, Bool.and_eq_true, decide_eq_true_eq] at h
  simp only [okChar, Bool.or_eq_true, Bool.and_eq_true, decide_eq_true_eq, le_iff]
  left; left; left; exact h

theorem digitVal_eq (c : Char) : digitVal c = if isDig c = true then some (dig c) else none := by
  simp only [digitVal, isDig, dig, le_iff, Bool.and_eq_true, decide_eq_true_eq]
  rfl

theorem dig_le {c : Char} (h : isDig c = true) : dig c ≤ 9 := by
  simp only [isDig, Bool.and_eq_true, decide_eq_true_eq] at h
  simp only [dig]; omega

/-! ### byte length and slicing of ASCII-only strings -/

theorem byteLen_ascii : ∀ v : List Char, (∀ c ∈ v, utf8Size c = 1) → byteLen v = v.length
  | [], _ => rfl
  | c :: r, h => by
    simp only [byteLen, List.length_cons]
    rw [h c (by simp), byteLen_ascii r (fun x hx => h x (by simp [hx]))]
    omega

theorem splitAtByte_ascii : ∀ (v : List Char) (n : Nat), (∀ c ∈ v, utf8Size c = 1) → n ≤ v.length →
    splitAtByte v n = some (v.take n, v.drop n)
  | v, 0, _, _ => by cases v <;> simp [splitAtByte]
  | [], n + 1, _, h => by simp at h
  | c :: r, n + 1, hs, h => by
    have hc : utf8Size c = 1 := hs c (by simp)
    have ih := splitAtByte_ascii r n (fun x hx => hs x (by simp [hx])) (by simpa using h)
    simp only [splitAtByte, hc, Nat.add_sub_cancel, ih, List.take_succ_cons, List.drop_succ_cons]
    rw [if_pos (by omega)]

theorem slice_ascii (v : List Char) (a b : Nat) (hs : ∀ c ∈ v, utf8Size c = 1) (hab : a ≤ b)
    (hb : b ≤ v.length) : slice v a b = some ((v.drop a).take (b - a)) := by
  unfold slice
  rw [splitAtByte_ascii v a hs (by omega)]
  simp only
  rw [splitAtByte_ascii (v.drop a) (b - a) (fun c hc => hs c (List.mem_of_mem_drop hc))
    (by simp only [List.length_drop]; omega)]

theorem len19 (v : List Char) (h : v.length = 19) :
    ∃ c0 c1 c2 c3 c4 c5 c6 c7 c8 c9 c10 c11 c12 c13 c14 c15 c16 c17 c18 : Char, v = [c0, c1, c2, c3, c4, c5, c6, c7, c8, c9, c10, c11, c12, c13, c14, c15, c16, c17, c18] := by
  rcases v with _ | ⟨c0, v⟩
  · simp at h
  rcases v with _ | ⟨c1, v⟩
  · simp at h
  rcases v with _ | ⟨c2, v⟩
  · simp at h
  rcases v with _ | ⟨c3, v⟩
  · simp at h
  rcases v with _ | ⟨c4, v⟩
  · simp at h
  rcases v with _ | ⟨c5, v⟩
  · simp at h
  rcases v with _ | ⟨c6, v⟩
  · simp at h
  rcases v with _ | ⟨c7, v⟩
  · simp at h
  rcases v with _ | ⟨c8, v⟩
  · simp at h
  rcases v with _ | ⟨c9, v⟩
  · simp at h
  rcases v with _ | ⟨c10, v⟩
  · simp at h
  rcases v with _ | ⟨c11, v⟩
  · simp at h
  rcases v with _ | ⟨c12, v⟩
  · simp at h
  rcases v with _ | ⟨c13, v⟩
  · simp at h
  rcases v with _ | ⟨c14, v⟩
  · simp at h
  rcases v with _ | ⟨c15, v⟩
  · simp at h
  rcases v with _ | ⟨c16, v⟩
  · simp at h
  rcases v with _ | ⟨c17, v⟩
  · simp at h
  rcases v with _ | ⟨c18, v⟩
  · simp at h
  rcases v with _ | ⟨c19, v⟩
  · exact ⟨c0, c1, c2, c3, c4, c5, c6, c7, c8, c9, c10, c11, c12, c13, c14, c15, c16, c17, c18, rfl⟩
  · simp only [List.length_cons] at h; omega

theorem stripPlus_cons {a : Char} (r : List Char) (h : a ≠ '+') : stripPlus (a :: r) = a :: r := by
  unfold stripPlus
  split
  · rename_i r' heq; simp only [List.cons.injEq] at heq; exact absurd heq.1 h
  · rfl

theorem parse2 (max : Nat) (a b : Char) (ha : okChar a = true) (hmax : 99 ≤ max) :
    parseUnsigned max [a, b] =
      if isDig a = true ∧ isDig b = true then some (dig a * 10 + dig b) else none := by
  unfold parseUnsigned
  rw [stripPlus_cons _ (okChar_ne_plus ha)]
  simp only [List.isEmpty_cons, Bool.false_eq_true, if_false, parseDigits, digitVal_eq]
  by_cases h1 : isDig a = true <;> by_cases h2 : isDig b = true <;> simp [h1, h2]
  have := dig_le h1; have := dig_le h2
  omega

theorem parse4 (a b c d : Char) (ha : okChar a = true) :
    (parseUnsigned 65535 [a, b, c, d]).isSome =
      (isDig a && isDig b && isDig c && isDig d) := by
  unfold parseUnsigned
  rw [stripPlus_cons _ (okChar_ne_plus ha)]
  simp only [List.isEmpty_cons, Bool.false_eq_true, if_false, parseDigits, digitVal_eq]
  by_cases h1 : isDig a = true <;> by_cases h2 : isDig b = true <;> by_cases h3 : isDig c = true <;>
    by_cases h4 : isDig d = true <;> simp [h1, h2, h3, h4]
  have := dig_le h1; have := dig_le h2; have := dig_le h3; have := dig_le h4
  omega

/-- what `DateOK` says of a nineteen-character string, position by position -/
theorem dateOK_19 (c0 c1 c2 c3 c4 c5 c6 c7 c8 c9 c10 c11 c12 c13 c14 c15 c16 c17 c18 : Char) :
    DateOK [c0, c1, c2, c3, c4, c5, c6, c7, c8, c9, c10, c11, c12, c13, c14, c15, c16, c17, c18] ↔
      (isDig c0 = true ∧ isDig c1 = true ∧ isDig c2 = true ∧ isDig c3 = true ∧ isDig c5 = true ∧
       isDig c6 = true ∧ isDig c8 = true ∧ isDig c9 = true ∧ isDig c11 = true ∧ isDig c12 = true ∧
       isDig c14 = true ∧ isDig c15 = true ∧ isDig c17 = true ∧ isDig c18 = true) ∧
      c4 = '/' ∧ c7 = '/' ∧ c10 = ' ' ∧ c13 = ':' ∧ c16 = ':' ∧
      (1 ≤ dig c5 * 10 + dig c6 ∧ dig c5 * 10 + dig c6 ≤ 12) ∧
      (1 ≤ dig c8 * 10 + dig c9 ∧ dig c8 * 10 + dig c9 ≤ 31) ∧
      dig c11 * 10 + dig c12 ≤ 23 ∧ dig c14 * 10 + dig c15 ≤ 59 ∧ dig c17 * 10 + dig c18 ≤ 59 := by
  simp [DateOK, digitPositions, num2]

theorem sep_okChar {c : Char} (h : c = '/' ∨ c = ' ' ∨ c = ':') : okChar c = true := by
  rcases h with h | h | h <;> (subst h; decide)

theorem dateOK_ascii {v : List Char} (h : DateOK v) : v.length = 19 ∧ v.all okChar = true := by
  have hl : v.length = 19 := h.1
  refine ⟨hl, ?_⟩
  obtain ⟨c0, c1, c2, c3, c4, c5, c6, c7, c8, c9, c10, c11, c12, c13, c14, c15, c16, c17, c18, rfl⟩ := len19 v hl
  rw [dateOK_19] at h
  obtain ⟨⟨d0, d1, d2, d3, d5, d6, d8, d9, d11, d12, d14, d15, d17, d18⟩, s4, s7, s10, s13, s16, _⟩ := h
  simp only [List.all_cons, List.all_nil, Bool.and_true, Bool.and_eq_true]
  exact ⟨isDig_okChar d0, isDig_okChar d1, isDig_okChar d2, isDig_okChar d3, sep_okChar (.inl s4),
    isDig_okChar d5, isDig_okChar d6, sep_okChar (.inl s7), isDig_okChar d8, isDig_okChar d9,
    sep_okChar (.inr (.inl s10)), isDig_okChar d11, isDig_okChar d12, sep_okChar (.inr (.inr s13)),
    isDig_okChar d14, isDig_okChar d15, sep_okChar (.inr (.inr s16)), isDig_okChar d17, isDig_okChar d18⟩

theorem slice19 (c0 c1 c2 c3 c4 c5 c6 c7 c8 c9 c10 c11 c12 c13 c14 c15 c16 c17 c18 : Char) (h0 : okChar c0 = true) (h1 : okChar c1 = true) (h2 : okChar c2 = true) (h3 : okChar c3 = true) (h4 : okChar c4 = true) (h5 : okChar c5 = true) (h6 : okChar c6 = true) (h7 : okChar c7 = true) (h8 : okChar c8 = true) (h9 : okChar c9 = true) (h10 : okChar c10 = true) (h11 : okChar c11 = true) (h12 : okChar c12 = true) (h13 : okChar c13 = true) (h14 : okChar c14 = true) (h15 : okChar c15 = true) (h16 : okChar c16 = true) (h17 : okChar c17 = true) (h18 : okChar c18 = true) (a b : Nat) (hab : a ≤ b) (hb : b ≤ 19) :
    slice [c0, c1, c2, c3, c4, c5, c6, c7, c8, c9, c10, c11, c12, c13, c14, c15, c16, c17, c18] a b = some (([c0, c1, c2, c3, c4, c5, c6, c7, c8, c9, c10, c11, c12, c13, c14, c15, c16, c17, c18].drop a).take (b - a)) := by
  apply slice_ascii _ _ _ _ hab (by simpa using hb)
  intro c hc
  simp only [List.mem_cons, List.not_mem_nil, or_false] at hc
  rcases hc with rfl | rfl | rfl | rfl | rfl | rfl | rfl | rfl | rfl | rfl | rfl | rfl | rfl | rfl | rfl | rfl | rfl | rfl | rfl <;> exact okChar_size ‹_›

theorem sepAt_19 (c0 c1 c2 c3 c4 c5 c6 c7 c8 c9 c10 c11 c12 c13 c14 c15 c16 c17 c18 : Char) (h0 : okChar c0 = true) (h1 : okChar c1 = true) (h2 : okChar c2 = true) (h3 : okChar c3 = true) (h4 : okChar c4 = true) (h5 : okChar c5 = true) (h6 : okChar c6 = true) (h7 : okChar c7 = true) (h8 : okChar c8 = true) (h9 : okChar c9 = true) (h10 : okChar c10 = true) (h11 : okChar c11 = true) (h12 : okChar c12 = true) (h13 : okChar c13 = true) (h14 : okChar c14 = true) (h15 : okChar c15 = true) (h16 : okChar c16 = true) (h17 : okChar c17 = true) (h18 : okChar c18 = true) (a : Nat) (ch : Char) (ha : a < 19) :
    sepAt [c0, c1, c2, c3, c4, c5, c6, c7, c8, c9, c10, c11, c12, c13, c14, c15, c16, c17, c18] a ch = if [c0, c1, c2, c3, c4, c5, c6, c7, c8, c9, c10, c11, c12, c13, c14, c15, c16, c17, c18].getD a ' ' = ch then .tt else .ff := by
  unfold sepAt
  rw [slice19 c0 c1 c2 c3 c4 c5 c6 c7 c8 c9 c10 c11 c12 c13 c14 c15 c16 c17 c18 h0 h1 h2 h3 h4 h5 h6 h7 h8 h9 h10 h11 h12 h13 h14 h15 h16 h17 h18 a (a + 1) (by omega) (by omega)]
  have : a = 0 ∨ a = 1 ∨ a = 2 ∨ a = 3 ∨ a = 4 ∨ a = 5 ∨ a = 6 ∨ a = 7 ∨ a = 8 ∨ a = 9 ∨ a = 10 ∨ a = 11 ∨
      a = 12 ∨ a = 13 ∨ a = 14 ∨ a = 15 ∨ a = 16 ∨ a = 17 ∨ a = 18 := by omega
  rcases this with rfl | rfl | rfl | rfl | rfl | rfl | rfl | rfl | rfl | rfl | rfl | rfl | rfl | rfl | rfl | rfl | rfl | rfl | rfl <;> simp

theorem fieldIn_of_slice (v : List Char) (a b lo hi : Nat) (x y : Char) (hx : okChar x = true)
    (hsl : slice v a b = some [x, y]) :
    fieldIn v a b lo hi =
      if isDig x = true ∧ isDig y = true then
        (if lo ≤ dig x * 10 + dig y ∧ dig x * 10 + dig y ≤ hi then .tt else .ff)
      else .err := by
  unfold fieldIn
  rw [hsl]
  simp only [parse2 255 x y hx (by omega)]
  by_cases hd : isDig x = true ∧ isDig y = true
  · simp only [hd, and_self, if_true]
  · simp only [hd, if_false]

theorem yearOk_of_slice (v : List Char) (a b c d : Char) (ha : okChar a = true)
    (hsl : slice v 0 4 = some [a, b, c, d]) :
    yearOk v = if (isDig a && isDig b && isDig c && isDig d) = true then .tt else .ff := by
  unfold yearOk
  rw [hsl]
  simp only [parse4 a b c d ha]

/-- the `&&` chain on nineteen characters of the allowed set: every slice is on a boundary, and the
    chain is true exactly when the pattern and the ranges hold -/
theorem dateChain_19 (c0 c1 c2 c3 c4 c5 c6 c7 c8 c9 c10 c11 c12 c13 c14 c15 c16 c17 c18 : Char) (h0 : okChar c0 = true) (h1 : okChar c1 = true) (h2 : okChar c2 = true) (h3 : okChar c3 = true) (h4 : okChar c4 = true) (h5 : okChar c5 = true) (h6 : okChar c6 = true) (h7 : okChar c7 = true) (h8 : okChar c8 = true) (h9 : okChar c9 = true) (h10 : okChar c10 = true) (h11 : okChar c11 = true) (h12 : okChar c12 = true) (h13 : okChar c13 = true) (h14 : okChar c14 = true) (h15 : okChar c15 = true) (h16 : okChar c16 = true) (h17 : okChar c17 = true) (h18 : okChar c18 = true) :
    dateChain [c0, c1, c2, c3, c4, c5, c6, c7, c8, c9, c10, c11, c12, c13, c14, c15, c16, c17, c18] ≠ .panic ∧ (dateChain [c0, c1, c2, c3, c4, c5, c6, c7, c8, c9, c10, c11, c12, c13, c14, c15, c16, c17, c18] = .tt ↔ DateOK [c0, c1, c2, c3, c4, c5, c6, c7, c8, c9, c10, c11, c12, c13, c14, c15, c16, c17, c18]) := by
  have y := yearOk_of_slice [c0, c1, c2, c3, c4, c5, c6, c7, c8, c9, c10, c11, c12, c13, c14, c15, c16, c17, c18] c0 c1 c2 c3 h0 (by rw [slice19 c0 c1 c2 c3 c4 c5 c6 c7 c8 c9 c10 c11 c12 c13 c14 c15 c16 c17 c18 h0 h1 h2 h3 h4 h5 h6 h7 h8 h9 h10 h11 h12 h13 h14 h15 h16 h17 h18 0 4 (by omega) (by omega)]; rfl)
  have s4 := sepAt_19 c0 c1 c2 c3 c4 c5 c6 c7 c8 c9 c10 c11 c12 c13 c14 c15 c16 c17 c18 h0 h1 h2 h3 h4 h5 h6 h7 h8 h9 h10 h11 h12 h13 h14 h15 h16 h17 h18 4 '/' (by omega)
  have s7 := sepAt_19 c0 c1 c2 c3 c4 c5 c6 c7 c8 c9 c10 c11 c12 c13 c14 c15 c16 c17 c18 h0 h1 h2 h3 h4 h5 h6 h7 h8 h9 h10 h11 h12 h13 h14 h15 h16 h17 h18 7 '/' (by omega)
  have s10 := sepAt_19 c0 c1 c2 c3 c4 c5 c6 c7 c8 c9 c10 c11 c12 c13 c14 c15 c16 c17 c18 h0 h1 h2 h3 h4 h5 h6 h7 h8 h9 h10 h11 h12 h13 h14 h15 h16 h17 h18 10 ' ' (by omega)
  have s13 := sepAt_19 c0 c1 c2 c3 c4 c5 c6 c7 c8 c9 c10 c11 c12 c13 c14 c15 c16 c17 c18 h0 h1 h2 h3 h4 h5 h6 h7 h8 h9 h10 h11 h12 h13 h14 h15 h16 h17 h18 13 ':' (by omega)
  have s16 := sepAt_19 c0 c1 c2 c3 c4 c5 c6 c7 c8 c9 c10 c11 c12 c13 c14 c15 c16 c17 c18 h0 h1 h2 h3 h4 h5 h6 h7 h8 h9 h10 h11 h12 h13 h14 h15 h16 h17 h18 16 ':' (by omega)
  have f5 := (fieldIn_of_slice _ 5 7 1 12 c5 c6 h5 (by rw [slice19 c0 c1 c2 c3 c4 c5 c6 c7 c8 c9 c10 c11 c12 c13 c14 c15 c16 c17 c18 h0 h1 h2 h3 h4 h5 h6 h7 h8 h9 h10 h11 h12 h13 h14 h15 h16 h17 h18 5 7 (by omega) (by omega)]; rfl))
  have f8 := (fieldIn_of_slice _ 8 10 1 31 c8 c9 h8 (by rw [slice19 c0 c1 c2 c3 c4 c5 c6 c7 c8 c9 c10 c11 c12 c13 c14 c15 c16 c17 c18 h0 h1 h2 h3 h4 h5 h6 h7 h8 h9 h10 h11 h12 h13 h14 h15 h16 h17 h18 8 10 (by omega) (by omega)]; rfl))
  have f11 := (fieldIn_of_slice _ 11 13 0 23 c11 c12 h11 (by rw [slice19 c0 c1 c2 c3 c4 c5 c6 c7 c8 c9 c10 c11 c12 c13 c14 c15 c16 c17 c18 h0 h1 h2 h3 h4 h5 h6 h7 h8 h9 h10 h11 h12 h13 h14 h15 h16 h17 h18 11 13 (by omega) (by omega)]; rfl))
  have f14 := (fieldIn_of_slice _ 14 16 0 59 c14 c15 h14 (by rw [slice19 c0 c1 c2 c3 c4 c5 c6 c7 c8 c9 c10 c11 c12 c13 c14 c15 c16 c17 c18 h0 h1 h2 h3 h4 h5 h6 h7 h8 h9 h10 h11 h12 h13 h14 h15 h16 h17 h18 14 16 (by omega) (by omega)]; rfl))
  have f17 := (fieldIn_of_slice _ 17 19 0 59 c17 c18 h17 (by rw [slice19 c0 c1 c2 c3 c4 c5 c6 c7 c8 c9 c10 c11 c12 c13 c14 c15 c16 c17 c18 h0 h1 h2 h3 h4 h5 h6 h7 h8 h9 h10 h11 h12 h13 h14 h15 h16 h17 h18 17 19 (by omega) (by omega)]; rfl))
  simp only [List.getD_cons_succ, List.getD_cons_zero] at s4 s7 s10 s13 s16
  constructor
  · unfold dateChain
    rw [y, s4, s7, s10, s13, s16, f5, f8, f11, f14, f17]
    repeat' (first | apply stepAndThen_ne_panic | (split <;> simp))
  · rw [dateOK_19]
    unfold dateChain
    simp only [stepAndThen_tt]
    rw [y, s4, s7, s10, s13, s16, f5, f8, f11, f14, f17]
    simp only [Bool.and_eq_true, ite_eq_left_iff, reduceCtorEq, imp_false, Decidable.not_not,
      Nat.zero_le, true_and]
    constructor
    · rintro ⟨⟨⟨⟨a0, a1⟩, a2⟩, a3⟩, b4, x5, b7, x8, b10, x11, b13, x14, b16, x17⟩
      split at x5 <;> simp at x5
      split at x8 <;> simp at x8
      split at x11 <;> simp at x11
      split at x14 <;> simp at x14
      split at x17 <;> simp at x17
      rename_i d5 d8 d11 d14 d17
      exact ⟨⟨a0, a1, a2, a3, d5.1, d5.2, d8.1, d8.2, d11.1, d11.2, d14.1, d14.2, d17.1, d17.2⟩,
        b4, b7, b10, b13, b16, x5, x8, x11, x14, x17⟩
    · rintro ⟨⟨a0, a1, a2, a3, d5, d6, d8, d9, d11, d12, d14, d15, d17, d18⟩, b4, b7, b10, b13, b16,
        x5, x8, x11, x14, x17⟩
      simp [a0, a1, a2, a3, d5, d6, d8, d9, d11, d12, d14, d15, d17, d18, b4, b7, b10, b13, b16, x5, x8,
        x11, x14, x17]

/-- **date**: never a slicing panic, and accepted exactly when the pattern and the ranges hold -/
theorem validateDate_spec (v : List Char) :
    validateDate v ≠ .panic ∧ (validateDate v = .ok ↔ DateOK v) := by
  unfold validateDate
  by_cases hlen : byteLen v = 19
  case neg =>
    simp only [ne_eq, hlen, not_false_eq_true, if_true, reduceCtorEq, false_iff, true_and]
    intro hd
    obtain ⟨hl, ha⟩ := dateOK_ascii hd
    apply hlen
    rw [byteLen_ascii v (fun c hc => okChar_size (List.all_eq_true.1 ha c hc)), hl]
  by_cases hall : v.all okChar = true
  case neg =>
    simp only [ne_eq, hlen, not_true_eq_false, if_false, hall, Bool.not_false, if_true, reduceCtorEq,
      not_false_eq_true, false_iff, true_and]
    intro hd
    exact hall (dateOK_ascii hd).2
  have hs : ∀ c ∈ v, utf8Size c = 1 := fun c hc => okChar_size (List.all_eq_true.1 hall c hc)
  have hl : v.length = 19 := by rw [← byteLen_ascii v hs]; exact hlen
  obtain ⟨c0, c1, c2, c3, c4, c5, c6, c7, c8, c9, c10, c11, c12, c13, c14, c15, c16, c17, c18, rfl⟩ := len19 v hl
  have hall' := hall
  simp only [List.all_cons, List.all_nil, Bool.and_true, Bool.and_eq_true] at hall'
  obtain ⟨h0, h1, h2, h3, h4, h5, h6, h7, h8, h9, h10, h11, h12, h13, h14, h15, h16, h17, h18⟩ := hall'
  obtain ⟨hp, hiff⟩ := dateChain_19 c0 c1 c2 c3 c4 c5 c6 c7 c8 c9 c10 c11 c12 c13 c14 c15 c16 c17 c18 h0 h1 h2 h3 h4 h5 h6 h7 h8 h9 h10 h11 h12 h13 h14 h15 h16 h17 h18
  simp only [ne_eq, hlen, not_true_eq_false, if_false, hall, Bool.not_true, Bool.false_eq_true]
  rw [← hiff]
  cases hc : dateChain [c0, c1, c2, c3, c4, c5, c6, c7, c8, c9, c10, c11, c12, c13, c14, c15, c16, c17, c18] <;> simp_all


/-! ### gasp -/

theorem gaspLoop_spec (l : List Nat) : ∀ last : Nat,
    gaspLoop last l ≠ .panic ∧ (gaspLoop last l = .ok ↔ List.Pairwise (· ≤ ·) (last :: l)) := by
  induction l with
  | nil => intro last; simp [gaspLoop]
  | cons c r ih =>
    intro last
    simp only [gaspLoop]
    by_cases h : last > c
    · simp only [h, if_true, ne_eq, reduceCtorEq, not_false_eq_true, false_iff, true_and]
      intro hp
      have := (List.pairwise_cons.1 hp).1 c (by simp)
      omega
    · simp only [h, if_false]
      refine ⟨(ih c).1, ?_⟩
      rw [(ih c).2, List.pairwise_cons (a := last)]
      constructor
      · intro hp
        refine ⟨?_, hp⟩
        intro x hx
        rcases List.mem_cons.1 hx with rfl | hx
        · omega
        · have := (List.pairwise_cons.1 hp).1 x hx
          omega
      · exact fun hp => hp.2

theorem checkGasp_spec (i : Info) :
    checkGasp i ≠ .panic ∧ (checkGasp i = .ok ↔ whenSome GaspSorted i.gasp) := by
  unfold checkGasp
  cases hg : i.gasp with
  | none => simp [whenSome]
  | some v =>
    simp only [whenSome, GaspSorted]
    match v with
    | [] => simp
    | [a] => simp
    | a :: b :: r =>
      simp only [List.length_cons, gt_iff_lt, Nat.lt_add_left_iff_pos, Nat.zero_lt_succ, if_true]
      exact gaspLoop_spec (b :: r) a

/-! ### guidelines -/

theorem angleBad_eq (l : Line) : angleBad l = !lineAngleOK l := by
  cases l <;> simp [angleBad, lineAngleOK]

theorem guideLoop_spec (gs : List Guide) : ∀ seen : List (List Char),
    guideLoop seen gs ≠ .panic ∧
    (guideLoop seen gs = .ok ↔
      ((gs.filterMap (·.ident)).Nodup ∧ ∀ x ∈ gs.filterMap (·.ident), x ∉ seen) ∧
      ∀ g ∈ gs, lineAngleOK g.line = true) := by
  induction gs with
  | nil => intro seen; simp [guideLoop]
  | cons g r ih =>
    intro seen
    unfold guideLoop
    cases hid : g.ident with
    | none =>
      simp only [angleBad_eq, List.filterMap_cons, hid, List.mem_cons, forall_eq_or_imp]
      by_cases ha : lineAngleOK g.line = true
      · simp only [ha, Bool.not_true, Bool.false_eq_true, if_false, true_and]
        exact ih seen
      · simp [ha]
    | some id =>
      simp only [angleBad_eq, List.filterMap_cons, hid, List.mem_cons, forall_eq_or_imp,
        List.nodup_cons, List.contains_eq_mem, decide_eq_true_eq]
      by_cases hs : id ∈ seen
      · simp [hs]
      · by_cases ha : lineAngleOK g.line = true
        · simp only [hs, if_false, ha, Bool.not_true, Bool.false_eq_true, not_false_eq_true, true_and]
          refine ⟨(ih (id :: seen)).1, ?_⟩
          rw [(ih (id :: seen)).2]
          simp only [List.mem_cons, not_or]
          constructor
          · rintro ⟨⟨hn, hx⟩, hang⟩
            exact ⟨⟨⟨fun hm => (hx id hm).1 rfl, hn⟩, fun x hm => (hx x hm).2⟩, hang⟩
          · rintro ⟨⟨⟨hni, hn⟩, hx⟩, hang⟩
            exact ⟨⟨hn, fun x hm => ⟨fun e => hni (e ▸ hm), hx x hm⟩⟩, hang⟩
        · simp [hs, ha]

theorem checkGuidelines_spec (i : Info) :
    checkGuidelines i ≠ .panic ∧
    (checkGuidelines i = .ok ↔ whenSome IdsUnique i.guidelines ∧ whenSome AnglesOK i.guidelines) := by
  unfold checkGuidelines
  cases hg : i.guidelines with
  | none => simp [whenSome]
  | some gs =>
    simp only [whenSome, IdsUnique, AnglesOK]
    refine ⟨(guideLoop_spec gs []).1, ?_⟩
    rw [(guideLoop_spec gs []).2]
    simp

/-! ### bits, class, lists -/

theorem checkSelection_spec (i : Info) :
    checkSelection i ≠ .panic ∧ (checkSelection i = .ok ↔ whenSome SelectionOK i.selection) := by
  unfold checkSelection
  cases i.selection with
  | none => simp [whenSome]
  | some v =>
    simp only [whenSome, SelectionOK, List.contains_eq_mem]
    by_cases h0 : 0 ∈ v <;> by_cases h5 : 5 ∈ v <;> by_cases h6 : 6 ∈ v <;> simp [h0, h5, h6]

theorem checkFamilyClass_spec (i : Info) :
    checkFamilyClass i ≠ .panic ∧ (checkFamilyClass i = .ok ↔ whenSome ClassOK i.familyClass) := by
  unfold checkFamilyClass
  cases i.familyClass with
  | none => simp [whenSome]
  | some p =>
    obtain ⟨c, s⟩ := p
    simp only [whenSome, ClassOK]
    by_cases h : (c ≤ 14 && s ≤ 15) = true
    · simp only [h, if_true]; simpa using h
    · simp only [h]; simpa using h

theorem checkBlue_spec (len : Option Nat) (max : Nat) :
    checkBlue len max ≠ .panic ∧ (checkBlue len max = .ok ↔ whenSome (BlueOK max) len) := by
  unfold checkBlue
  cases len with
  | none => simp [whenSome]
  | some n =>
    simp only [whenSome, BlueOK]
    by_cases h1 : n > max
    · simp only [h1, if_true]; simp; omega
    · by_cases h2 : n % 2 = 0
      · simp [h1, h2]; omega
      · simp [h1, h2]

theorem checkStem_spec (len : Option Nat) :
    checkStem len ≠ .panic ∧ (checkStem len = .ok ↔ whenSome StemOK len) := by
  unfold checkStem
  cases len with
  | none => simp [whenSome]
  | some n =>
    simp only [whenSome, StemOK]
    by_cases h1 : n > 12
    · simp only [h1, if_true]; simp; omega
    · simp only [h1, if_false]; simp; omega

/-! ### WOFF -/

theorem itemLoop_spec (l : List ExtItem) :
    itemLoop l ≠ .panic ∧ (itemLoop l = .ok ↔ ∀ it ∈ l, 0 < it.names ∧ 0 < it.values) := by
  induction l with
  | nil => simp [itemLoop]
  | cons it r ih =>
    simp only [itemLoop, List.mem_cons, forall_eq_or_imp]
    by_cases h : (it.names = 0 || it.values = 0) = true
    · simp only [h, if_true]
      simp only [Bool.or_eq_true, decide_eq_true_eq] at h
      simp; omega
    · simp only [h, Bool.false_eq_true, if_false]
      simp only [Bool.or_eq_true, decide_eq_true_eq, not_or] at h
      refine ⟨ih.1, ?_⟩
      rw [ih.2]
      simp; omega

theorem recordLoop_spec (l : List (List ExtItem)) :
    recordLoop l ≠ .panic ∧
    (recordLoop l = .ok ↔ ∀ items ∈ l, items ≠ [] ∧ ∀ it ∈ items, 0 < it.names ∧ 0 < it.values) := by
  induction l with
  | nil => simp [recordLoop]
  | cons items r ih =>
    simp only [recordLoop, List.mem_cons, forall_eq_or_imp]
    by_cases h : items.isEmpty = true
    · simp only [h, if_true]
      simp only [List.isEmpty_iff] at h
      simp [h]
    · simp only [h, Bool.false_eq_true, if_false]
      simp only [List.isEmpty_iff] at h
      refine ⟨andThen_ne_panic _ _ (itemLoop_spec items).1 ih.1, ?_⟩
      rw [andThen_ok, (itemLoop_spec items).2, ih.2]
      simp [h]

theorem checkExtensions_spec (i : Info) :
    checkExtensions i ≠ .panic ∧ (checkExtensions i = .ok ↔ whenSome ExtensionsOK i.woffExtensions) := by
  unfold checkExtensions
  cases i.woffExtensions with
  | none => simp [whenSome]
  | some v =>
    simp only [whenSome, ExtensionsOK]
    by_cases h : v.isEmpty = true
    · simp only [h, if_true]
      simp only [List.isEmpty_iff] at h
      simp [h]
    · simp only [h, Bool.false_eq_true, if_false]
      simp only [List.isEmpty_iff] at h
      refine ⟨(recordLoop_spec v).1, ?_⟩
      rw [(recordLoop_spec v).2]
      simp [h]

theorem checkNonEmpty_spec (n : Option Nat) :
    checkNonEmpty n ≠ .panic ∧ (checkNonEmpty n = .ok ↔ whenSome NonEmpty n) := by
  unfold checkNonEmpty
  cases n with
  | none => simp [whenSome]
  | some k =>
    simp only [whenSome, NonEmpty]
    by_cases h : k = 0
    · simp [h]
    · simp only [h, if_false]; simp; omega

theorem checkDate_spec (i : Info) :
    checkDate i ≠ .panic ∧ (checkDate i = .ok ↔ whenSome DateOK i.created) := by
  unfold checkDate
  cases i.created with
  | none => simp [whenSome]
  | some v => exact validateDate_spec v



/-! ### save / load helpers -/

theorem serGuides_spec (gs : List Guide) :
    serGuides gs ≠ .panic ∧ (serGuides gs = .ok ↔ AnglesOK gs) := by
  induction gs with
  | nil => simp [serGuides, AnglesOK]
  | cons g r ih =>
    simp only [serGuides, angleBad_eq, AnglesOK, List.mem_cons, forall_eq_or_imp]
    by_cases ha : lineAngleOK g.line = true
    · simp only [ha, Bool.not_true, Bool.false_eq_true, if_false, true_and]
      exact ih
    · simp [ha]

theorem serializeInfo_spec (i : Info) :
    serializeInfo i ≠ .panic ∧ (serializeInfo i = .ok ↔ whenSome AnglesOK i.guidelines) := by
  unfold serializeInfo
  cases i.guidelines with
  | none => simp [whenSome]
  | some gs => exact serGuides_spec gs

theorem narrow_ofNat (max n : Nat) (h : n ≤ max) : narrow max (Int.ofNat n) = some n := by
  unfold narrow
  rw [if_pos ⟨Int.natCast_nonneg n, Int.ofNat_le.2 h⟩]
  simp

theorem narrowAll_ofNat (max : Nat) : ∀ l : List Nat, (∀ n ∈ l, n ≤ max) →
    narrowAll max (l.map Int.ofNat) = some l
  | [], _ => rfl
  | n :: r, h => by
    simp only [List.map_cons, narrowAll, narrow_ofNat max n (h n (by simp)),
      narrowAll_ofNat max r (fun x hx => h x (by simp [hx]))]

theorem shapeGuide_raw (g : Guide) : shapeGuide (rawGuide g) = some g := by
  obtain ⟨id, line⟩ := g
  cases line <;> simp [rawGuide, shapeGuide]

theorem deserGuides_raw : ∀ gs : List Guide, AnglesOK gs →
    deserGuides true (gs.map rawGuide) = some gs
  | [], _ => rfl
  | g :: r, h => by
    have hg : lineAngleOK g.line = true := h g (by simp)
    have ih := deserGuides_raw r (fun x hx => h x (by simp [hx]))
    simp only [deserGuides, if_true] at ih ⊢
    simp only [List.map_cons, mapAll, deserGuide, shapeGuide_raw, angleBad_eq, hg, Bool.not_true,
      Bool.false_eq_true, if_false, ih]

theorem deser_toRaw (i : Info) (ht : WellTyped i) (ha : whenSome AnglesOK i.guidelines) :
    deser (toRaw i) = some i := by
  obtain ⟨created, gasp, guidelines, selection, familyClass, bv, ob, fb, fob, sh, sv, we, wc, wp, wd, wt, wl⟩ := i
  have h1 : optMap (narrowAll u32Max) (gasp.map (·.map Int.ofNat)) = some gasp := by
    cases gasp with
    | none => rfl
    | some l => simp [optMap, narrowAll_ofNat u32Max l (ht.gasp l rfl)]
  have h2 : optMap (deserGuides true) (guidelines.map (·.map rawGuide)) = some guidelines := by
    cases guidelines with
    | none => rfl
    | some l => simp [optMap, deserGuides_raw l ha]
  have h3 : optMap (narrowAll 255) (selection.map (·.map Int.ofNat)) = some selection := by
    cases selection with
    | none => rfl
    | some l => simp [optMap, narrowAll_ofNat 255 l (ht.selection l rfl)]
  have h4 : optMap deserFamilyClass (familyClass.map (fun p => [Int.ofNat p.1, Int.ofNat p.2])) =
      some familyClass := by
    cases familyClass with
    | none => rfl
    | some p =>
      obtain ⟨c, s⟩ := p
      have := ht.familyClass (c, s) rfl
      simp only at this
      have e1 : narrow 255 (c : Int) = some c := narrow_ofNat 255 c this.1
      have e2 : narrow 255 (s : Int) = some s := narrow_ofNat 255 s this.2
      simp [optMap, deserFamilyClass, narrowAll, e1, e2]
  simp only [deser, deserWith, toRaw, h1, h2, h3, h4]
  rfl

/-! ### the kind of a refusal, per block -/

theorem andThen_err (o k : Outcome) (e : Kind) :
    o.andThen k = .err e ↔ o = .err e ∨ (o = .ok ∧ k = .err e) := by
  cases o <;> simp [Outcome.andThen]

theorem validateDate_err (v : List Char) (k : Kind) (h : validateDate v = .err k) : k = .date := by
  unfold validateDate at h
  split at h
  · cases h; rfl
  · split at h
    · cases h; rfl
    · split at h <;> first | (cases h; rfl) | cases h

theorem checkDate_err (i : Info) (k : Kind) (h : checkDate i = .err k) : KindViolated k i := by
  have hne : checkDate i ≠ .ok := by rw [h]; simp
  have hk : k = .date := by
    unfold checkDate at h
    cases hc : i.created with
    | none => simp [hc] at h
    | some v => simp only [hc] at h; exact validateDate_err v k h
  subst hk
  exact fun hr => hne ((checkDate_spec i).2.2 hr)

theorem gaspLoop_err (l : List Nat) : ∀ last k, gaspLoop last l = .err k → k = .gasp := by
  induction l with
  | nil => intro last k h; simp [gaspLoop] at h
  | cons c r ih =>
    intro last k h
    simp only [gaspLoop] at h
    split at h
    · cases h; rfl
    · exact ih c k h

theorem checkGasp_err (i : Info) (k : Kind) (h : checkGasp i = .err k) : KindViolated k i := by
  have hne : checkGasp i ≠ .ok := by rw [h]; simp
  have hk : k = .gasp := by
    unfold checkGasp at h
    cases hc : i.gasp with
    | none => simp [hc] at h
    | some v =>
      simp only [hc] at h
      split at h
      · match v, h with
        | [], h => cases h
        | a :: r, h => exact gaspLoop_err r a k h
      · cases h
  subst hk
  exact fun hr => hne ((checkGasp_spec i).2.2 hr)

theorem guideLoop_err (gs : List Guide) : ∀ (seen : List (List Char)) (k : Kind),
    guideLoop seen gs = .err k →
      (k = .dupId ∧ ¬ ((gs.filterMap (·.ident)).Nodup ∧ ∀ x ∈ gs.filterMap (·.ident), x ∉ seen)) ∨
      (k = .angle ∧ ¬ ∀ g ∈ gs, lineAngleOK g.line = true) := by
  induction gs with
  | nil => intro seen k h; simp [guideLoop] at h
  | cons g r ih =>
    intro seen k h
    unfold guideLoop at h
    cases hid : g.ident with
    | none =>
      simp only [hid, angleBad_eq] at h
      by_cases ha : lineAngleOK g.line = true
      · simp only [ha, Bool.not_true, Bool.false_eq_true, if_false] at h
        rcases ih seen k h with ⟨e, hn⟩ | ⟨e, hn⟩
        · left; refine ⟨e, ?_⟩; simpa [List.filterMap_cons, hid] using hn
        · right; refine ⟨e, fun hall => hn fun x hx => hall x (by simp [hx])⟩
      · simp only [ha, Bool.not_false, if_true] at h
        cases h
        right; exact ⟨rfl, fun hall => ha (hall g (by simp))⟩
    | some id =>
      simp only [hid, angleBad_eq, List.contains_eq_mem, decide_eq_true_eq] at h
      by_cases hs : id ∈ seen
      · simp only [hs, if_true] at h
        cases h
        left; refine ⟨rfl, ?_⟩
        simp only [List.filterMap_cons, hid]
        exact fun hh => hh.2 id (by simp) hs
      · simp only [hs, if_false] at h
        by_cases ha : lineAngleOK g.line = true
        · simp only [ha, Bool.not_true, Bool.false_eq_true, if_false] at h
          rcases ih (id :: seen) k h with ⟨e, hn⟩ | ⟨e, hn⟩
          · left; refine ⟨e, ?_⟩
            simp only [List.filterMap_cons, hid, List.nodup_cons]
            intro hh
            apply hn
            refine ⟨hh.1.2, fun x hx => ?_⟩
            simp only [List.mem_cons, not_or]
            exact ⟨fun e' => hh.1.1 (e' ▸ hx), hh.2 x (by simp [hx])⟩
          · right; refine ⟨e, fun hall => hn fun x hx => hall x (by simp [hx])⟩
        · simp only [ha, Bool.not_false, if_true] at h
          cases h
          right; exact ⟨rfl, fun hall => ha (hall g (by simp))⟩

theorem checkGuidelines_err (i : Info) (k : Kind) (h : checkGuidelines i = .err k) : KindViolated k i := by
  unfold checkGuidelines at h
  cases hc : i.guidelines with
  | none => simp [hc] at h
  | some gs =>
    simp only [hc] at h
    rcases guideLoop_err gs [] k h with ⟨e, hn⟩ | ⟨e, hn⟩
    · subst e
      simp only [KindViolated, hc, whenSome, IdsUnique]
      intro hu; exact hn ⟨hu, by simp⟩
    · subst e
      simp only [KindViolated, hc, whenSome, AnglesOK]
      exact hn

theorem checkSelection_err (i : Info) (k : Kind) (h : checkSelection i = .err k) : KindViolated k i := by
  have hne : checkSelection i ≠ .ok := by rw [h]; simp
  have hk : k = .selBits := by
    unfold checkSelection at h
    cases hc : i.selection with
    | none => simp [hc] at h
    | some v => simp only [hc] at h; split at h <;> cases h; rfl
  subst hk
  exact fun hr => hne ((checkSelection_spec i).2.2 hr)

theorem checkFamilyClass_err (i : Info) (k : Kind) (h : checkFamilyClass i = .err k) : KindViolated k i := by
  have hne : checkFamilyClass i ≠ .ok := by rw [h]; simp
  have hk : k = .familyClass := by
    unfold checkFamilyClass at h
    cases hc : i.familyClass with
    | none => simp [hc] at h
    | some p => obtain ⟨c, s⟩ := p; simp only [hc] at h; split at h <;> cases h; rfl
  subst hk
  exact fun hr => hne ((checkFamilyClass_spec i).2.2 hr)

theorem checkBlue_err (len : Option Nat) (max : Nat) (k : Kind) (h : checkBlue len max = .err k) :
    (k = .listLen ∧ ¬ lenWithin max len) ∨ (k = .listPairs ∧ ¬ lenEven len) := by
  unfold checkBlue at h
  cases len with
  | none => simp at h
  | some n =>
    simp only at h
    split at h
    · cases h; left; exact ⟨rfl, by simp only [lenWithin]; omega⟩
    · split at h
      · cases h; right; exact ⟨rfl, by simp only [lenEven]; omega⟩
      · cases h

theorem checkStem_err (len : Option Nat) (k : Kind) (h : checkStem len = .err k) :
    k = .listLen ∧ ¬ lenWithin 12 len := by
  unfold checkStem at h
  cases len with
  | none => simp at h
  | some n =>
    simp only at h
    split at h
    · cases h; exact ⟨rfl, by simp only [lenWithin]; omega⟩
    · cases h

theorem itemLoop_err (l : List ExtItem) (k : Kind) (h : itemLoop l = .err k) : k = .emptyWoff := by
  induction l with
  | nil => simp [itemLoop] at h
  | cons it r ih =>
    simp only [itemLoop] at h
    split at h
    · cases h; rfl
    · exact ih h

theorem recordLoop_err (l : List (List ExtItem)) (k : Kind) (h : recordLoop l = .err k) : k = .emptyWoff := by
  induction l with
  | nil => simp [recordLoop] at h
  | cons items r ih =>
    simp only [recordLoop] at h
    split at h
    · cases h; rfl
    · rcases (andThen_err _ _ _).1 h with h1 | ⟨_, h2⟩
      · exact itemLoop_err items k h1
      · exact ih h2

theorem checkExtensions_err (i : Info) (k : Kind) (h : checkExtensions i = .err k) : k = .emptyWoff := by
  unfold checkExtensions at h
  cases hc : i.woffExtensions with
  | none => simp [hc] at h
  | some v =>
    simp only [hc] at h
    split at h
    · cases h; rfl
    · exact recordLoop_err v k h

theorem checkNonEmpty_err (n : Option Nat) (k : Kind) (h : checkNonEmpty n = .err k) : k = .emptyWoff := by
  unfold checkNonEmpty at h
  cases n with
  | none => simp at h
  | some m => simp only at h; split at h <;> cases h; rfl

end C13
