import Norad.Spec.FontInfo
/-! Helper lemmas for C13 (the property theorems live in `Props/C13.lean`). -/
namespace C13
open FI

theorem andThen_ok (o k : Outcome) : o.andThen k = .ok ↔ o = .ok ∧ k = .ok := by
  cases o <;> simp [Outcome.andThen]

end C13
