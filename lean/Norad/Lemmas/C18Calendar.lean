import Norad.Lemmas.C18Codec
/-!
# C18 — the calendar hypothesis, proved

`days_from_civil ∘ civil_from_days = id` with fields in range, and the converse on valid civil dates, for ALL
day numbers / years.  Route: the computation inside a 400-year era depends only on the day of the era
(146 097 values).  ONE table fact is settled by kernel evaluation over the complete era (`decide +kernel`,
four chunks, no `native_decide`): the year-of-era formula puts every day of the era into its year
(`rowA`).  Everything else is structural: month/day inside a year by `omega`, the composition, and the lift
from one era to every era by div/mod arithmetic.
-/
namespace C18

def allFrom (f : Nat → Bool) (lo : Nat) : Nat → Bool
  | 0 => true
  | n + 1 => f (lo + n) && allFrom f lo n

theorem allFrom_sound (f : Nat → Bool) (lo : Nat) : ∀ n, allFrom f lo n = true →
    ∀ i, lo ≤ i → i < lo + n → f i = true
  | 0, _, i, h1, h2 => by omega
  | n + 1, h, i, h1, h2 => by
    simp only [allFrom, Bool.and_eq_true] at h
    by_cases e : i = lo + n
    · subst e; exact h.1
    · exact allFrom_sound f lo n h.2 i h1 (by omega)

/-- the table row: day `i` of the era lies inside the year the formula assigns to it, and the last 60 days of
    the era (January, February of the civil year ≡ 0 mod 400) are exactly those from day 146 037 on -/
def rowA' (i y : Nat) : Bool :=
  Nat.ble (baseOf y) i && Nat.blt i (baseOf y + yearLen y) && Nat.blt y 400 &&
  (Nat.ble 146037 i == (Nat.beq y 399 && Nat.ble (baseOf y + 306) i))
def rowA (i : Nat) : Bool := rowA' i (yoeOf i)

theorem tableA_0 : allFrom rowA 0 36525 = true := by decide +kernel
theorem tableA_1 : allFrom rowA 36525 36524 = true := by decide +kernel
theorem tableA_2 : allFrom rowA 73049 36524 = true := by decide +kernel
theorem tableA_3 : allFrom rowA 109573 36524 = true := by decide +kernel

theorem rowA_all (i : Nat) (h : i < 146097) : rowA i = true := by
  by_cases h0 : i < 36525
  · exact allFrom_sound rowA 0 _ tableA_0 i (by omega) (by omega)
  · by_cases h1 : i < 73049
    · exact allFrom_sound rowA 36525 _ tableA_1 i (by omega) (by omega)
    · by_cases h2 : i < 109573
      · exact allFrom_sound rowA 73049 _ tableA_2 i (by omega) (by omega)
      · exact allFrom_sound rowA 109573 _ tableA_3 i (by omega) (by omega)

theorem yearLen_le (y : Nat) : yearLen y ≤ 366 ∧ 365 ≤ yearLen y := by
  unfold yearLen; split <;> omega

/-- fact A: what the table says about a day of the era -/
theorem factA (doe : Nat) (h : doe < 146097) :
    baseOf (yoeOf doe) ≤ doe ∧ doe < baseOf (yoeOf doe) + yearLen (yoeOf doe) ∧ yoeOf doe < 400 ∧
    (146037 ≤ doe ↔ (yoeOf doe = 399 ∧ baseOf (yoeOf doe) + 306 ≤ doe)) := by
  have := rowA_all doe h
  simp only [rowA, rowA', Bool.and_eq_true, Nat.ble_eq, Nat.blt_eq, beq_iff_eq] at this
  obtain ⟨⟨⟨h1, h2⟩, h3⟩, h4⟩ := this
  refine ⟨h1, h2, h3, ?_⟩
  constructor
  · intro hge
    have : Nat.ble 146037 doe = true := by simpa using hge
    rw [this] at h4
    have h5 := h4.symm
    simp only [Bool.and_eq_true] at h5
    exact ⟨Nat.eq_of_beq_eq_true h5.1, Nat.le_of_ble_eq_true h5.2⟩
  · intro ⟨e1, e2⟩
    have hb : Nat.beq (yoeOf doe) 399 = true := by rw [e1]; rfl
    have hl : Nat.ble (baseOf (yoeOf doe) + 306) doe = true := Nat.ble_eq_true_of_le e2
    rw [hb, hl] at h4
    exact Nat.le_of_ble_eq_true (by simpa using h4)

/-- fact B: month and day inside a (March-based) year, by arithmetic -/
theorem factB (doy : Nat) (h : doy < 366) :
    mpOf doy ≤ 11 ∧ dpreOf (mpOf doy) ≤ doy ∧ doy - dpreOf (mpOf doy) ≤ 30 ∧
    mpOfMonth (monthOfMp (mpOf doy)) = mpOf doy ∧ 1 ≤ monthOfMp (mpOf doy) ∧ monthOfMp (mpOf doy) ≤ 12 ∧
    (monthOfMp (mpOf doy) ≤ 2 ↔ 306 ≤ doy) := by
  simp only [mpOf, dpreOf, monthOfMp, mpOfMonth]
  by_cases h10 : (5 * doy + 2) / 153 < 10 <;> simp only [h10, if_true, if_false] <;> omega

/-- inside one era: the civil fields are in range and lead back to the day of the era -/
theorem era_inverse (doe : Nat) (h : doe < 146097) :
    (civilOfDoe doe).1 < 400 ∧ 1 ≤ (civilOfDoe doe).2.1 ∧ (civilOfDoe doe).2.1 ≤ 12 ∧
    1 ≤ (civilOfDoe doe).2.2 ∧ (civilOfDoe doe).2.2 ≤ 31 ∧
    doeOfCivil (civilOfDoe doe).1 (civilOfDoe doe).2.1 (civilOfDoe doe).2.2 = doe ∧
    (146037 ≤ doe ↔ ((civilOfDoe doe).1 = 399 ∧ (civilOfDoe doe).2.1 ≤ 2)) := by
  obtain ⟨a1, a2, a3, a4⟩ := factA doe h
  have hl := yearLen_le (yoeOf doe)
  obtain ⟨b1, b2, b3, b4, b5, b6, b7⟩ := factB (doe - baseOf (yoeOf doe)) (by omega)
  simp only [civilOfDoe, doeOfCivil, b4]
  refine ⟨a3, b5, b6, by omega, by omega, by omega, ?_⟩
  rw [a4, b7]
  constructor
  · intro ⟨e1, e2⟩; exact ⟨e1, by omega⟩
  · intro ⟨e1, e2⟩; exact ⟨e1, by omega⟩

/-- **the calendar hypothesis holds** (for every day number, not only years 0000–9999: the range only
    matters for the bounds on the year) -/
theorem calendarInverse : CalendarInverse := by
  intro z hlo hhi
  have hdoe : ((z + 719468) - (z + 719468) / 146097 * 146097).toNat < 146097 := by omega
  obtain ⟨e1, e2, e3, e4, e5, e6, e7⟩ := era_inverse _ hdoe
  generalize hc : civilOfDoe ((z + 719468) - (z + 719468) / 146097 * 146097).toNat = c at e1 e2 e3 e4 e5 e6 e7
  obtain ⟨yoe, m, d⟩ := c
  simp only at e1 e2 e3 e4 e5 e6 e7
  simp only [civilFromDays, hc]
  have hera : -1 ≤ (z + 719468) / 146097 ∧ (z + 719468) / 146097 ≤ 24 := by omega
  refine ⟨?_, ?_, e2, e3, e4, e5, ?_⟩
  · -- 0 ≤ year
    by_cases hm : m ≤ 2 <;> simp only [hm, if_true, if_false]
    · by_cases he : (z + 719468) / 146097 = -1
      · have : 146037 ≤ ((z + 719468) - (z + 719468) / 146097 * 146097).toNat := by omega
        have := e7.1 this
        omega
      · omega
    · by_cases he : (z + 719468) / 146097 = -1
      · have : 146037 ≤ ((z + 719468) - (z + 719468) / 146097 * 146097).toNat := by omega
        have := e7.1 this
        omega
      · omega
  · -- year < 10000
    by_cases hm : m ≤ 2 <;> simp only [hm, if_true, if_false]
    · by_cases he : (z + 719468) / 146097 = 24
      · have hnot : ¬ 146037 ≤ ((z + 719468) - (z + 719468) / 146097 * 146097).toNat := by omega
        have : ¬ (yoe = 399 ∧ m ≤ 2) := fun hh => hnot (e7.2 hh)
        omega
      · omega
    · omega
  · -- back to the day number
    simp only [daysFromCivil]
    by_cases hm : m ≤ 2 <;> simp only [hm, if_true, if_false]
    · have hy : ((yoe : Int) + (z + 719468) / 146097 * 400 + 1 - 1) / 400 = (z + 719468) / 146097 := by omega
      have hyo : ((yoe : Int) + (z + 719468) / 146097 * 400 + 1 - 1 -
          ((yoe : Int) + (z + 719468) / 146097 * 400 + 1 - 1) / 400 * 400).toNat = yoe := by omega
      rw [hyo, hy, e6]; omega
    · have hy : ((yoe : Int) + (z + 719468) / 146097 * 400 + 0) / 400 = (z + 719468) / 146097 := by omega
      have hyo : ((yoe : Int) + (z + 719468) / 146097 * 400 + 0 -
          ((yoe : Int) + (z + 719468) / 146097 * 400 + 0) / 400 * 400).toNat = yoe := by omega
      rw [hyo, hy, e6]; omega

/-! ## the converse: a valid civil date is what its day number is converted back to -/

theorem base_step (y : Nat) (h : y ≤ 398) : baseOf (y + 1) = baseOf y + yearLen y := by
  simp only [baseOf, yearLen]
  split <;> omega

theorem base_mono (a b : Nat) (h : a ≤ b) : baseOf a ≤ baseOf b := by
  simp only [baseOf]
  rcases Nat.eq_or_lt_of_le h with e | e
  · subst e; exact Nat.le_refl _
  · have h1 : a / 100 ≤ a / 4 := by omega
    have h2 : b / 100 ≤ b / 4 := by omega
    have h3 : a / 4 ≤ b / 4 := by omega
    have h4 : b / 100 ≤ a / 100 + (b - a) := by omega
    omega

/-- the years of an era do not overlap: a day of the era lies in one year only -/
theorem year_unique (doe Y y : Nat) (hY : Y < 400) (hy : y < 400)
    (h1 : baseOf Y ≤ doe) (h2 : doe < baseOf Y + yearLen Y)
    (h3 : baseOf y ≤ doe) (h4 : doe < baseOf y + yearLen y) : Y = y := by
  rcases Nat.lt_trichotomy Y y with h | h | h
  · have := base_step Y (by omega)
    have := base_mono (Y + 1) y (by omega)
    omega
  · exact h
  · have := base_step y (by omega)
    have := base_mono (y + 1) Y (by omega)
    omega

/-- month and day → day of the (March-based) year and back, for a day that exists in that month -/
theorem monthDay_inverse (m d : Nat) (hm1 : 1 ≤ m) (hm : m ≤ 12) (hd1 : 1 ≤ d)
    (hd : d ≤ (if m = 2 then 29 else if m = 4 ∨ m = 6 ∨ m = 9 ∨ m = 11 then 30 else 31)) :
    mpOf (dpreOf (mpOfMonth m) + d - 1) = mpOfMonth m ∧ monthOfMp (mpOfMonth m) = m ∧
    dpreOf (mpOfMonth m) + d - 1 - dpreOf (mpOfMonth m) + 1 = d ∧
    (m = 2 → d ≤ 28 → dpreOf (mpOfMonth m) + d - 1 < 365) ∧ (m ≠ 2 → dpreOf (mpOfMonth m) + d - 1 < 365) ∧
    dpreOf (mpOfMonth m) + d - 1 < 366 := by
  have : m = 1 ∨ m = 2 ∨ m = 3 ∨ m = 4 ∨ m = 5 ∨ m = 6 ∨ m = 7 ∨ m = 8 ∨ m = 9 ∨ m = 10 ∨ m = 11 ∨ m = 12 := by
    omega
  rcases this with e | e | e | e | e | e | e | e | e | e | e | e <;> subst e <;>
    simp only [mpOf, dpreOf, mpOfMonth, monthOfMp] at hd ⊢ <;> simp at hd ⊢ <;> omega

/-- **civil_from_days ∘ days_from_civil = id** on every valid civil date of every year -/
theorem civil_of_days_of_civil (y : Int) (m d : Nat) (hm1 : 1 ≤ m) (hm : m ≤ 12) (hd1 : 1 ≤ d)
    (hd : d ≤ daysInMonth y m) : civilFromDays (daysFromCivil y m d) = (y, m, d) := by
  -- the era and the year of the era
  generalize hy' : (if m ≤ 2 then y - 1 else y) = y'
  have hyoe : (y' - y' / 400 * 400).toNat < 400 := by omega
  generalize hyo : (y' - y' / 400 * 400).toNat = yoe at hyoe
  have hyy : y' = y' / 400 * 400 + (yoe : Int) := by omega
  -- the day exists in its month
  have hdim : d ≤ (if m = 2 then 29 else if m = 4 ∨ m = 6 ∨ m = 9 ∨ m = 11 then 30 else 31) := by
    unfold daysInMonth at hd
    by_cases h2 : m = 2
    · simp only [h2, if_true] at hd ⊢; split at hd <;> omega
    · simp only [h2, if_false] at hd ⊢; exact hd
  obtain ⟨k1, k2, k3, k4, k5, k6⟩ := monthDay_inverse m d hm1 hm hd1 hdim
  -- the day of the year fits the year
  have hfit : dpreOf (mpOfMonth m) + d - 1 < yearLen yoe := by
    have hl := yearLen_le yoe
    by_cases h2 : m = 2
    · by_cases h28 : d ≤ 28
      · have := k4 h2 h28; omega
      · -- February 29: the civil year `y = y' + 1` is a leap year, so is the year of the era
        have hleap : isLeap y = true := by
          unfold daysInMonth at hd
          simp only [h2, if_true] at hd
          by_cases hl : isLeap y = true
          · exact hl
          · have hlf : isLeap y = false := by simpa using hl
            rw [hlf] at hd
            simp at hd
            omega
        have hy1 : y = y' + 1 := by subst h2; simp at hy'; omega
        simp only [isLeap, decide_eq_true_eq] at hleap
        have : yearLen yoe = 366 := by
          unfold yearLen
          have c1 : (yoe + 1) % 4 = 0 := by omega
          have c2 : (yoe + 1) % 100 ≠ 0 ∨ (yoe + 1) % 400 = 0 := by omega
          simp [c1, c2]
        omega
    · have := k5 h2; omega
  -- the day of the era and the year the formula finds for it
  have hdoe : doeOfCivil yoe m d < 146097 := by
    unfold doeOfCivil
    by_cases h399 : yoe = 399
    · subst h399
      have : baseOf 399 = 145731 := by decide
      have := yearLen_le 399
      omega
    · have := base_step yoe (by omega)
      have := base_mono (yoe + 1) 399 (by omega)
      have : baseOf 399 = 145731 := by decide
      omega
  obtain ⟨a1, a2, a3, _⟩ := factA (doeOfCivil yoe m d) hdoe
  have hY : yoeOf (doeOfCivil yoe m d) = yoe :=
    year_unique (doeOfCivil yoe m d) _ yoe a3 hyoe a1 a2 (by unfold doeOfCivil; omega)
      (by unfold doeOfCivil; omega)
  have hciv : civilOfDoe (doeOfCivil yoe m d) = (yoe, m, d) := by
    have hsub : doeOfCivil yoe m d - baseOf yoe = dpreOf (mpOfMonth m) + d - 1 := by
      unfold doeOfCivil; omega
    simp only [civilOfDoe, hY, hsub, k1, k2, k3]
  -- lift through the era
  simp only [daysFromCivil, hy', hyo]
  have hz : (y' / 400 * 146097 + ((doeOfCivil yoe m d : Nat) : Int) - 719468 + 719468) / 146097 = y' / 400 := by omega
  have hzn : (y' / 400 * 146097 + ((doeOfCivil yoe m d : Nat) : Int) - 719468 + 719468 -
      (y' / 400 * 146097 + ((doeOfCivil yoe m d : Nat) : Int) - 719468 + 719468) / 146097 * 146097).toNat
        = doeOfCivil yoe m d := by omega
  have hzn' : (y' / 400 * 146097 + ((doeOfCivil yoe m d : Nat) : Int) - 719468 + 719468 -
      y' / 400 * 146097).toNat = doeOfCivil yoe m d := by omega
  simp only [civilFromDays, hz, hzn', hciv]
  by_cases h2 : m ≤ 2
  · simp only [h2, if_true] at hy' ⊢
    have : (yoe : Int) + y' / 400 * 400 + 1 = y := by omega
    rw [this]
  · simp only [h2, if_false] at hy' ⊢
    have : (yoe : Int) + y' / 400 * 400 + 0 = y := by omega
    rw [this]

end C18
