import Norad.Model.Plist
import Norad.Lemmas.C10
/-! Lemmas for the plist key-sort model and the store-write model (C10). -/
namespace StrMap

variable {β : Type}

theorem keys_insertEntry (e : Str × β) (m : List (Str × β)) :
    keys (insertEntry e m) = insertPos e.1 (keys m) := by
  induction m with
  | nil => rfl
  | cons y ys ih =>
    simp only [insertEntry, keys, List.map_cons, insertPos]
    split
    · simp only [List.map_cons]
      have : List.map (fun x : Str × β => x.1) (insertEntry e ys) = insertPos e.1 (List.map (fun x => x.1) ys) := ih
      rw [this]
    · rfl

theorem keys_sortEntries (m : List (Str × β)) (h : (keys m).Nodup) :
    keys (sortEntries m) = sortDedup (keys m) := by
  induction m with
  | nil => rfl
  | cons e r ih =>
    have hn : e.1 ∉ keys r ∧ (keys r).Nodup := List.nodup_cons.mp h
    have e1 : sortEntries (e :: r) = insertEntry e (sortEntries r) := rfl
    have e2 : sortDedup (keys (e :: r)) = setInsert e.1 (sortDedup (keys r)) := rfl
    rw [e1, e2, keys_insertEntry, ih hn.2]
    unfold setInsert
    have hnm : e.1 ∉ sortDedup (keys r) := by rw [mem_sortDedup]; exact hn.1
    have : (sortDedup (keys r)).contains e.1 = false := by simpa using hnm
    rw [this]; simp

theorem mem_keys_sortEntries (m : List (Str × β)) (h : (keys m).Nodup) (k : Str) :
    k ∈ keys (sortEntries m) ↔ k ∈ keys m := by
  rw [keys_sortEntries m h, mem_sortDedup]

theorem sorted_keys_sortEntries (m : List (Str × β)) (h : (keys m).Nodup) :
    Sorted (keys (sortEntries m)) := by
  rw [keys_sortEntries m h]; exact sorted_sortDedup _

theorem lookup_none_of_not_mem {k : Str} {m : List (Str × β)} (h : k ∉ keys m) : lookup k m = none := by
  cases hl : lookup k m with
  | none => rfl
  | some v => exact absurd (hasKey_iff_mem_keys.mp (by simp [hasKey, hl])) h

theorem lookup_insertEntry (e : Str × β) (m : List (Str × β)) (h : e.1 ∉ keys m) (k : Str) :
    lookup k (insertEntry e m) = if e.1 = k then some e.2 else lookup k m := by
  induction m with
  | nil => simp [insertEntry, lookup]
  | cons y ys ih =>
    have hy : e.1 ≠ y.1 := fun he => h (by simp [keys, he])
    have hys : e.1 ∉ keys ys := fun he => h (List.mem_cons_of_mem _ he)
    simp only [insertEntry]
    split
    · obtain ⟨yk, yv⟩ := y
      by_cases hk : yk = k
      · subst hk
        have : ¬ e.1 = yk := hy
        simp [lookup, this]
      · rw [lookup_cons_ne hk, ih hys, lookup_cons_ne hk]
    · obtain ⟨ek, ev⟩ := e
      by_cases hk : ek = k
      · subst hk; simp [lookup]
      · rw [lookup_cons_ne hk]; simp [hk]

theorem lookup_sortEntries (m : List (Str × β)) (h : (keys m).Nodup) (k : Str) :
    lookup k (sortEntries m) = lookup k m := by
  induction m with
  | nil => rfl
  | cons e r ih =>
    have hn : e.1 ∉ keys r ∧ (keys r).Nodup := List.nodup_cons.mp h
    have e1 : sortEntries (e :: r) = insertEntry e (sortEntries r) := rfl
    have hnot : e.1 ∉ keys (sortEntries r) := by rw [mem_keys_sortEntries r hn.2]; exact hn.1
    rw [e1, lookup_insertEntry e _ hnot, ih hn.2]
    obtain ⟨ek, ev⟩ := e
    by_cases hk : ek = k
    · subst hk; simp [lookup]
    · simp [hk, lookup_cons_ne hk]

/-- a list of entries with strictly ascending keys is determined by its lookup function -/
theorem sortedE_ext : ∀ {m₁ m₂ : List (Str × β)}, Sorted (keys m₁) → Sorted (keys m₂) →
    (∀ k, lookup k m₁ = lookup k m₂) → m₁ = m₂
  | [], [], _, _, _ => rfl
  | [], (k, v) :: r, _, _, h => by have := h k; simp [lookup] at this
  | (k, v) :: r, [], _, _, h => by have := h k; simp [lookup] at this
  | (k1, v1) :: r1, (k2, v2) :: r2, h1, h2, h => by
    have s1 : (∀ b ∈ keys r1, strLt k1 b = true) ∧ Sorted (keys r1) := List.pairwise_cons.mp h1
    have s2 : (∀ b ∈ keys r2, strLt k2 b = true) ∧ Sorted (keys r2) := List.pairwise_cons.mp h2
    have hk : k1 = k2 := by
      by_cases e : k1 = k2
      · exact e
      · exfalso
        have a := h k1
        rw [lookup_cons_self, lookup_cons_ne (fun x => e x.symm)] at a
        have a' : k1 ∈ keys r2 := hasKey_iff_mem_keys.mp (by simp [hasKey, ← a])
        have b := h k2
        rw [lookup_cons_self, lookup_cons_ne e] at b
        have b' : k2 ∈ keys r1 := hasKey_iff_mem_keys.mp (by simp [hasKey, b])
        have x := s2.1 k1 a'
        have y := s1.1 k2 b'
        rw [strLt_asymm x] at y; cases y
    subst hk
    have hv : v1 = v2 := by
      have := h k1
      rw [lookup_cons_self, lookup_cons_self] at this
      exact Option.some.inj this
    subst hv
    have hn1 : k1 ∉ keys r1 := fun e => strLt_ne (s1.1 k1 e) rfl
    have hn2 : k1 ∉ keys r2 := fun e => strLt_ne (s2.1 k1 e) rfl
    have htl : ∀ k, lookup k r1 = lookup k r2 := by
      intro k
      by_cases e : k1 = k
      · subst e; rw [lookup_none_of_not_mem hn1, lookup_none_of_not_mem hn2]
      · have := h k
        rw [lookup_cons_ne e, lookup_cons_ne e] at this; exact this
    rw [sortedE_ext s1.2 s2.2 htl]

/-- `sort_keys` gives the same list for every insertion order of the same map -/
theorem sortEntries_perm {m m' : List (Str × β)} (hp : m.Perm m') (hn : (keys m).Nodup) :
    sortEntries m = sortEntries m' := by
  have hn' : (keys m').Nodup := (List.Perm.map (fun e : Str × β => e.1) hp).nodup_iff.mp hn
  apply sortedE_ext (sorted_keys_sortEntries m hn) (sorted_keys_sortEntries m' hn')
  intro k
  rw [lookup_sortEntries m hn, lookup_sortEntries m' hn', Kern.lookup_perm hp hn]

end StrMap

namespace StrMap
variable {β : Type}

theorem insertEntry_perm (e : Str × β) (m : List (Str × β)) : (insertEntry e m).Perm (e :: m) := by
  induction m with
  | nil => simp [insertEntry]
  | cons y ys ih =>
    simp only [insertEntry]
    split
    · exact (List.Perm.cons y ih).trans (List.Perm.swap e y ys)
    · exact List.Perm.refl _

theorem sortEntries_perm_self (m : List (Str × β)) : (sortEntries m).Perm m := by
  induction m with
  | nil => exact List.Perm.refl _
  | cons e r ih =>
    have e1 : sortEntries (e :: r) = insertEntry e (sortEntries r) := rfl
    rw [e1]
    exact (insertEntry_perm e _).trans (List.Perm.cons e ih)

end StrMap

namespace PlistM
open StrMap

theorem sortVals_eq_map (es : List (Str × PV)) : sortVals es = es.map (fun e => (e.1, sortRec e.2)) := by
  induction es with
  | nil => rfl
  | cons e r ih => obtain ⟨k, v⟩ := e; simp [sortVals, ih]

theorem keys_sortVals (es : List (Str × PV)) : keys (sortVals es) = keys es := by
  rw [sortVals_eq_map]; simp [keys]

mutual
/-- well-formed as `plist::Dictionary`s: keys distinct in every dictionary the sort reaches -/
def WF : PV → Prop
  | .dict es => (keys es).Nodup ∧ WFE es
  | _ => True
def WFE : List (Str × PV) → Prop
  | [] => True
  | (_, v) :: r => WF v ∧ WFE r
end

mutual
/-- every dictionary reachable from the value through dictionary values only (never through an
    array) has strictly ascending keys -/
def SortedReach : PV → Prop
  | .dict es => Sorted (keys es) ∧ SortedReachE es
  | _ => True
def SortedReachE : List (Str × PV) → Prop
  | [] => True
  | (_, v) :: r => SortedReach v ∧ SortedReachE r
end

theorem sortedReachE_iff (es : List (Str × PV)) : SortedReachE es ↔ ∀ e ∈ es, SortedReach e.2 := by
  induction es with
  | nil => simp [SortedReachE]
  | cons e r ih => obtain ⟨k, v⟩ := e; simp [SortedReachE, ih]

mutual
theorem sortRec_sortedReach : ∀ v : PV, WF v → SortedReach (sortRec v)
  | .dict es, h => by
    have h' : (keys es).Nodup ∧ WFE es := by simpa only [WF] using h
    simp only [sortRec, SortedReach]
    refine ⟨sorted_keys_sortEntries _ (by rw [keys_sortVals]; exact h'.1), ?_⟩
    rw [sortedReachE_iff]
    intro e he
    have hm : e ∈ sortVals es := (sortEntries_perm_self _).mem_iff.mp he
    exact (sortedReachE_iff _).mp (sortVals_sortedReach es h'.2) e hm
  | .int _, _ => by simp [sortRec, SortedReach]
  | .str _, _ => by simp [sortRec, SortedReach]
  | .arr _, _ => by simp [sortRec, SortedReach]
theorem sortVals_sortedReach : ∀ es : List (Str × PV), WFE es → SortedReachE (sortVals es)
  | [], _ => by simp [sortVals, SortedReachE]
  | (k, v) :: r, h => by
    have h' : WF v ∧ WFE r := by simpa only [WFE] using h
    simp only [sortVals, SortedReachE]
    exact ⟨sortRec_sortedReach v h'.1, sortVals_sortedReach r h'.2⟩
end

mutual
/-- the same map built by another insertion history: at every dictionary the sort reaches the
    entries may come in another order; scalars and arrays (with everything below them) are identical -/
inductive Reorder : PV → PV → Prop
  | refl (v : PV) : Reorder v v
  | dict {es es' es'' : List (Str × PV)} : ReorderE es es' → es'.Perm es'' → Reorder (.dict es) (.dict es'')
inductive ReorderE : List (Str × PV) → List (Str × PV) → Prop
  | nil : ReorderE [] []
  | cons {k : Str} {v v' : PV} {r r' : List (Str × PV)} :
      Reorder v v' → ReorderE r r' → ReorderE ((k, v) :: r) ((k, v') :: r')
end

mutual
theorem sortRec_reorder : ∀ {v v' : PV}, Reorder v v' → WF v → sortRec v = sortRec v'
  | _, _, .refl _, _ => rfl
  | _, _, @Reorder.dict es es' es'' hE hp, h => by
    have h' : (keys es).Nodup ∧ WFE es := by simpa only [WF] using h
    have e1 : sortVals es = sortVals es' := sortVals_reorder hE h'.2
    have hp' : (sortVals es').Perm (sortVals es'') := by
      rw [sortVals_eq_map, sortVals_eq_map]; exact hp.map _
    have hn : (keys (sortVals es')).Nodup := by rw [← e1, keys_sortVals]; exact h'.1
    simp only [sortRec]
    rw [e1, sortEntries_perm hp' hn]
theorem sortVals_reorder : ∀ {es es' : List (Str × PV)}, ReorderE es es' → WFE es → sortVals es = sortVals es'
  | _, _, .nil, _ => rfl
  | _, _, @ReorderE.cons k v v' r r' hv hr, h => by
    have h' : WF v ∧ WFE r := by simpa only [WFE] using h
    simp only [sortVals]
    rw [sortRec_reorder hv h'.1, sortVals_reorder hr h'.2]
end

/-! ### store writes -/

theorem writeFile_comm (p q : List Str) (a b : Str) (fs : Files) (h : p ≠ q) :
    writeFile p a (writeFile q b fs) = writeFile q b (writeFile p a fs) := by
  funext r
  simp only [writeFile]
  by_cases h1 : r = p
  · by_cases h2 : r = q
    · exact absurd (h1.symm.trans h2) h
    · subst h1; simp [h]
  · simp [h1]

theorem writeAll_cons (e : Str × Str) (l : List (Str × Str)) (fs : Files) :
    writeAll (e :: l) fs = writeAll l (writeFile (normKey e.1) e.2 fs) := rfl

theorem writeAll_perm {l l' : List (Str × Str)} (hp : l.Perm l')
    (hn : (l.map (fun e => normKey e.1)).Nodup) (fs : Files) : writeAll l fs = writeAll l' fs := by
  induction hp generalizing fs with
  | nil => rfl
  | cons x _ ih =>
    rw [writeAll_cons, writeAll_cons]
    exact ih (List.nodup_cons.mp hn).2 _
  | swap x y l =>
    rw [writeAll_cons, writeAll_cons, writeAll_cons, writeAll_cons]
    have hne : normKey y.1 ≠ normKey x.1 := by
      have := (List.nodup_cons.mp hn).1
      intro e; apply this; simp [e]
    rw [writeFile_comm _ _ _ _ _ hne.symm]
  | trans h1 _ ih1 ih2 =>
    rw [ih1 hn, ih2 ((List.Perm.map _ h1).nodup_iff.mp hn)]

/-! ### a reordered lib compares equal (`==`) -/

theorem lookupPV_eq_lookup (k : Str) (m : List (Str × PV)) : lookupPV k m = lookup k m := by
  induction m with
  | nil => rfl
  | cons e r ih => obtain ⟨k', v⟩ := e; simp only [lookupPV, lookup, ih]

theorem lookup_of_mem_nodup_pv {m : List (Str × PV)} (hn : (keys m).Nodup) {e : Str × PV} (he : e ∈ m) :
    lookup e.1 m = some e.2 :=
  Kern.lookup_of_mem_nodup hn (by cases e; exact he)

mutual
/-- well-formed at every depth, also inside arrays: every dictionary has distinct keys
    (what a `plist::Dictionary` guarantees) -/
def WFAll : PV → Prop
  | .dict es => (keys es).Nodup ∧ WFAllE es
  | .arr xs => WFAllA xs
  | _ => True
def WFAllE : List (Str × PV) → Prop
  | [] => True
  | (_, v) :: r => WFAll v ∧ WFAllE r
def WFAllA : List PV → Prop
  | [] => True
  | v :: r => WFAll v ∧ WFAllA r
end

/-- how `entriesIn` is established -/
theorem entriesIn_of (a b : List (Str × PV))
    (h : ∀ e ∈ a, ∃ v', lookup e.1 b = some v' ∧ pvEq e.2 v' = true) : entriesIn a b = true := by
  induction a with
  | nil => simp [entriesIn]
  | cons e r ih =>
    obtain ⟨k, v⟩ := e
    obtain ⟨v', h1, h2⟩ := h (k, v) (by simp)
    simp only [entriesIn, lookupPV_eq_lookup, h1, h2, Bool.true_and]
    exact ih (fun e he => h e (List.mem_cons_of_mem _ he))

mutual
theorem pvEq_refl : ∀ v : PV, WFAll v → pvEq v v = true
  | .int _, _ => by simp [pvEq]
  | .str _, _ => by simp [pvEq]
  | .dict es, h => by
    have h' : (keys es).Nodup ∧ WFAllE es := by simpa only [WFAll] using h
    simp only [pvEq, beq_self_eq_true, Bool.true_and]
    apply entriesIn_of
    intro e he
    exact ⟨e.2, lookup_of_mem_nodup_pv h'.1 he, entries_refl es h'.2 e he⟩
  | .arr xs, h => by
    have h' : WFAllA xs := by simpa only [WFAll] using h
    simp only [pvEq]; exact arr_refl xs h'
theorem entries_refl : ∀ es : List (Str × PV), WFAllE es → ∀ e ∈ es, pvEq e.2 e.2 = true
  | [], _, _, he => by simp at he
  | (k, v) :: r, h, e, he => by
    have h' : WFAll v ∧ WFAllE r := by simpa only [WFAllE] using h
    rcases List.mem_cons.mp he with rfl | he'
    · exact pvEq_refl v h'.1
    · exact entries_refl r h'.2 e he'
theorem arr_refl : ∀ xs : List PV, WFAllA xs → arrEq xs xs = true
  | [], _ => by simp [arrEq]
  | v :: r, h => by
    have h' : WFAll v ∧ WFAllA r := by simpa only [WFAllA] using h
    simp only [arrEq, pvEq_refl v h'.1, arr_refl r h'.2, Bool.and_self]
end

theorem reorderE_keys : ∀ {es es' : List (Str × PV)}, ReorderE es es' → keys es = keys es'
  | _, _, .nil => rfl
  | _, _, @ReorderE.cons k v v' r r' _ hr => by
    have := reorderE_keys hr
    simp only [keys, List.map_cons] at this ⊢
    rw [this]

mutual
theorem pvEq_of_reorder : ∀ {v v' : PV}, Reorder v v' → WFAll v → pvEq v v' = true
  | _, _, .refl v, h => pvEq_refl v h
  | _, _, @Reorder.dict es es' es'' hE hp, h => by
    have h' : (keys es).Nodup ∧ WFAllE es := by simpa only [WFAll] using h
    have hk : keys es = keys es' := reorderE_keys hE
    have hl : es.length = es''.length := by
      have h1 : es.length = es'.length := by
        have := congrArg List.length hk; simpa [keys] using this
      rw [h1, hp.length_eq]
    have hn' : (keys es').Nodup := by rw [← hk]; exact h'.1
    have hn'' : (keys es'').Nodup :=
      (List.Perm.map (fun e : Str × PV => e.1) hp).nodup_iff.mp hn'
    simp only [pvEq, hl, beq_self_eq_true, Bool.true_and]
    apply entriesIn_of
    intro e he
    obtain ⟨v', hm, hv⟩ := reorderE_mem hE h'.2 e he
    exact ⟨v', lookup_of_mem_nodup_pv hn'' (hp.subset hm), hv⟩
theorem reorderE_mem : ∀ {es es' : List (Str × PV)}, ReorderE es es' → WFAllE es →
    ∀ e ∈ es, ∃ v', (e.1, v') ∈ es' ∧ pvEq e.2 v' = true
  | _, _, .nil, _, _, he => by simp at he
  | _, _, @ReorderE.cons k v v' r r' hv hr, h, e, he => by
    have h' : WFAll v ∧ WFAllE r := by simpa only [WFAllE] using h
    rcases List.mem_cons.mp he with rfl | he'
    · exact ⟨v', by simp, pvEq_of_reorder hv h'.1⟩
    · obtain ⟨w, hw1, hw2⟩ := reorderE_mem hr h'.2 e he'
      exact ⟨w, List.mem_cons_of_mem _ hw1, hw2⟩
end

mutual
theorem wf_of_wfAll : ∀ v : PV, WFAll v → WF v
  | .dict es, h => by
    have h' : (keys es).Nodup ∧ WFAllE es := by simpa only [WFAll] using h
    simp only [WF]; exact ⟨h'.1, wfE_of_wfAllE es h'.2⟩
  | .int _, _ => by simp [WF]
  | .str _, _ => by simp [WF]
  | .arr _, _ => by simp [WF]
theorem wfE_of_wfAllE : ∀ es : List (Str × PV), WFAllE es → WFE es
  | [], _ => by simp [WFE]
  | (k, v) :: r, h => by
    have h' : WFAll v ∧ WFAllE r := by simpa only [WFAllE] using h
    simp only [WFE]; exact ⟨wf_of_wfAll v h'.1, wfE_of_wfAllE r h'.2⟩
end

end PlistM
