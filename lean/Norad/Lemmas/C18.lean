import Norad.Model.C18
import Norad.Model.DSCodec
import Norad.Spec.C18
/-!
# C18 — helper lemmas (codec laws, trimming, dictionary insertion, the plist glue by mutual induction)
-/
namespace C18
open C18.Spec

/-- what the theorems assume of `std`/`base64`/`plist` formatting: shortest-round-trip `Display`/`FromStr`
    for non-NaN floats, decimal integers, base64, RFC 3339 dates; every produced string consists of
    printable ASCII characters other than the blank (`safeChar`), a float string is not empty, an integer
    string does not start with `0x`.  Hypotheses, never axioms.  `codecLaws_refCodec` (Props) shows they are
    satisfiable, with the integer and base64 parts discharged for the implementations the driver runs; the
    driver checks them on every string the harness reports (`codec-law-broken`). -/
structure CodecLaws (c : Codec) : Prop where
  f32_rt : ∀ x, x.notNaN = true → c.readF32 (c.showF32 x) = some x
  f32_ne : ∀ x, (c.showF32 x).toList ≠ []
  f32_safe : ∀ x, (c.showF32 x).toList.all safeChar = true
  f64_rt : ∀ x, x.notNaN = true → c.readF64 (c.showF64 x) = some x
  f64_safe : ∀ x, (c.showF64 x).toList.all safeChar = true
  int_i64 : ∀ i, i64Min ≤ i → i ≤ i64Max → c.parseI64 (c.showInt i) = some i
  int_u64 : ∀ i, i64Max < i → i ≤ u64Max → c.parseI64 (c.showInt i) = none ∧ c.parseU64 (c.showInt i) = some i
  int_no0x : ∀ i, hasPrefix0x (c.showInt i) = false
  int_safe : ∀ i, (c.showInt i).toList.all safeChar = true
  data_rt : ∀ d, c.decData (c.encData d) = some d
  data_safe : ∀ d, (c.encData d).toList.all safeChar = true
  date_rt : ∀ d s, c.showDate d = some s → c.readDate s = some d
  date_safe : ∀ d s, c.showDate d = some s → s.toList.all safeChar = true

/-! ## trimming -/

theorem dropWhile_self {p : Char → Bool} : ∀ l : List Char, (∀ ch, l.head? = some ch → p ch = false) →
    l.dropWhile p = l
  | [], _ => rfl
  | ch :: r, h => by
    have := h ch rfl
    simp [List.dropWhile, this]

theorem trimChars_self (cs : List Char) (h1 : ∀ ch, cs.head? = some ch → isXmlBlank ch = false)
    (h2 : ∀ ch, cs.getLast? = some ch → isXmlBlank ch = false) : trimChars cs = cs := by
  unfold trimChars
  rw [dropWhile_self cs h1, dropWhile_self cs.reverse (by simpa [List.head?_reverse] using h2)]
  simp

theorem trimXml_of_edgeClean (s : String) (h : edgeClean s = true) : trimXml s = s := by
  unfold trimXml
  have : trimChars s.toList = s.toList := by
    unfold edgeClean at h
    cases hs : s.toList with
    | nil => rfl
    | cons ch r =>
      rw [hs] at h
      simp only [Bool.and_eq_true, Bool.not_eq_true'] at h
      apply trimChars_self
      · intro x hx; simp at hx; subst hx; exact h.1
      · intro x hx
        have : (ch :: r).getLast?.getD ch = x := by rw [hx]; rfl
        rw [this] at h; exact h.2
  rw [this]; simp

theorem trimXml_empty : trimXml "" = "" := by decide

theorem safeChar_not_blank (ch : Char) (h : safeChar ch = true) : isXmlBlank ch = false := by
  simp only [safeChar, Bool.and_eq_true, decide_eq_true_eq] at h
  simp only [isXmlBlank, Bool.or_eq_false_iff, beq_eq_false_iff_ne]
  refine ⟨⟨⟨?_, ?_⟩, ?_⟩, ?_⟩ <;> (intro e; subst e; revert h; decide)

theorem trimXml_of_safe (s : String) (h : s.toList.all safeChar = true) : trimXml s = s := by
  apply trimXml_of_edgeClean
  unfold edgeClean
  cases hs : s.toList with
  | nil => rfl
  | cons ch r =>
    rw [hs] at h
    simp only [List.all_eq_true] at h
    have h1 := safeChar_not_blank ch (h ch (by simp))
    have hl : (ch :: r).getLast?.getD ch ∈ ch :: r := by
      cases hg : (ch :: r).getLast? with
      | none => simp
      | some x => simpa using List.mem_of_getLast? hg
    have h2 := safeChar_not_blank _ (h _ hl)
    simp [h1, h2]

namespace CodecLaws
variable {c : Codec} (L : CodecLaws c)
include L
theorem f64_clean (x : F64) : trimXml (c.showF64 x) = c.showF64 x := trimXml_of_safe _ (L.f64_safe x)
theorem int_clean (i : Int) : trimXml (c.showInt i) = c.showInt i := trimXml_of_safe _ (L.int_safe i)
theorem data_clean (d : List UInt8) : trimXml (c.encData d) = c.encData d := trimXml_of_safe _ (L.data_safe d)
theorem date_clean (d : Date) (s : String) (h : c.showDate d = some s) : trimXml s = s :=
  trimXml_of_safe _ (L.date_safe d s h)
theorem f32_word (x : F32) : (c.showF32 x).toList ≠ [] ∧ ' ' ∉ (c.showF32 x).toList := by
  refine ⟨L.f32_ne x, fun hm => ?_⟩
  have := L.f32_safe x
  simp only [List.all_eq_true] at this
  have := this ' ' hm
  revert this; decide
end CodecLaws

/-- the writer's text content read back through quick-xml: trimmed -/
theorem elemText_content (s : String) :
    elemText (if s = "" then [] else [Tree.txt s]) = some (trimXml s) := by
  split
  · rename_i h; subst h; simp [elemText, rawText, trimXml_empty]
  · simp [elemText, rawText]

/-! ## dictionary insertion -/

theorem KVs.append_nil : ∀ a : KVs, a.append .nil = a
  | .nil => rfl
  | .cons k v r => by simp [KVs.append, KVs.append_nil r]

theorem KVs.append_assoc : ∀ a b c : KVs, (a.append b).append c = a.append (b.append c)
  | .nil, _, _ => rfl
  | .cons k v r, b, c => by simp [KVs.append, KVs.append_assoc r b c]

theorem KVs.keys_append : ∀ a b : KVs, (a.append b).keys = a.keys ++ b.keys
  | .nil, _ => rfl
  | .cons k v r, b => by simp [KVs.append, KVs.keys, KVs.keys_append r b]

theorem KVs.insert_fresh : ∀ (a : KVs) (k : String) (v : PV), k ∉ a.keys →
    a.insert k v = a.append (.cons k v .nil)
  | .nil, _, _, _ => rfl
  | .cons k' v' r, k, v, h => by
    simp only [KVs.keys, List.mem_cons, not_or] at h
    have hne : ¬ k' = k := fun e => h.1 e.symm
    simp [KVs.insert, KVs.append, hne, KVs.insert_fresh r k v h.2]

/-- keys pairwise different, as a proposition on the key list -/
def KVs.distinct : KVs → Prop
  | .nil => True
  | .cons k _ r => k ∉ r.keys ∧ r.distinct

theorem KVs.insertAll_fresh : ∀ (b a : KVs), b.distinct → (∀ k, k ∈ b.keys → k ∉ a.keys) →
    a.insertAll b = a.append b
  | .nil, a, _, _ => by simp [KVs.insertAll, KVs.append_nil]
  | .cons k v r, a, hd, hdis => by
    have hk : k ∉ a.keys := hdis k (by simp [KVs.keys])
    simp only [KVs.insertAll]
    rw [KVs.insert_fresh a k v hk, KVs.insertAll_fresh r _ hd.2, KVs.append_assoc]
    · rfl
    · intro k' hk' hmem
      rw [KVs.keys_append] at hmem
      simp only [KVs.keys, List.mem_append, List.mem_cons, List.not_mem_nil, or_false] at hmem
      rcases hmem with h | h
      · exact hdis k' (by simp [KVs.keys, hk']) h
      · subst h; exact hd.1 hk'

theorem KVs.insertAll_nil (b : KVs) (h : b.distinct) : KVs.nil.insertAll b = b := by
  rw [KVs.insertAll_fresh b .nil h (by intro k _; simp [KVs.keys])]; rfl

theorem kvsStated_distinct : ∀ kvs : KVs, kvsStated kvs = true → kvs.distinct
  | .nil, _ => trivial
  | .cons k v r, h => by
    simp only [kvsStated, Bool.and_eq_true, Bool.not_eq_true', List.contains_eq_mem,
      decide_eq_false_iff_not] at h
    exact ⟨h.1.1, kvsStated_distinct r h.2⟩

/-! ## integers -/

theorem readIntText_show {c : Codec} (L : CodecLaws c) (i : Int) (h1 : i64Min ≤ i) (h2 : i ≤ u64Max) :
    readIntText c (c.showInt i) = some i := by
  unfold readIntText
  rw [L.int_no0x i]
  simp only [Bool.false_eq_true, if_false]
  by_cases h : i ≤ i64Max
  · rw [L.int_i64 i h1 h]
  · have := L.int_u64 i (by omega) h2
    rw [this.1, this.2]

/-! ## the plist glue, by mutual induction over `PV` / `PVs` / `KVs` -/

mutual
theorem pv_rt {c : Codec} (L : CodecLaws c) : ∀ v : PV, pvStated v = true → pvClean v = true →
    pvDates c v = true → ∃ t, serializeWithin c v = .ok t ∧ readValue c t = some v
  | .str s, _, hc, _ => by
    refine ⟨_, by simp [serializeWithin, leafInner, Out.map]; rfl, ?_⟩
    simp only [pvClean] at hc
    simp [readValue, elemText_content, trimXml_of_edgeClean s hc]
  | .int i, hs, _, _ => by
    refine ⟨_, by simp [serializeWithin, leafInner, Out.map]; rfl, ?_⟩
    simp only [pvStated, Bool.and_eq_true, decide_eq_true_eq] at hs
    simp [readValue, elemText_content, L.int_clean, readIntText_show L i hs.1 hs.2]
  | .real r, hs, _, _ => by
    refine ⟨_, by simp [serializeWithin, leafInner, Out.map]; rfl, ?_⟩
    simp only [pvStated] at hs
    simp [readValue, elemText_content, L.f64_clean, L.f64_rt r hs]
  | .bool true, _, _, _ => ⟨.elem "true" [] [], by simp [serializeWithin], by simp [readValue]⟩
  | .bool false, _, _, _ => ⟨.elem "false" [] [], by simp [serializeWithin], by simp [readValue]⟩
  | .data d, _, _, _ => by
    refine ⟨_, by simp [serializeWithin, leafInner, Out.map]; rfl, ?_⟩
    simp [readValue, elemText_content, L.data_clean, L.data_rt]
  | .date d, _, _, hd => by
    simp only [pvDates, Option.isSome_iff_exists] at hd
    obtain ⟨s, hs⟩ := hd
    refine ⟨_, by simp [serializeWithin, leafInner, Out.map, hs]; rfl, ?_⟩
    simp [readValue, elemText_content, L.date_clean d s hs, L.date_rt d s hs]
  | .arr xs, hs, hc, hd => by
    simp only [pvStated] at hs; simp only [pvClean] at hc; simp only [pvDates] at hd
    obtain ⟨ts, h1, h2⟩ := pvs_rt L xs hs hc hd
    exact ⟨_, by simp [serializeWithin, h1, Out.map]; rfl, by simp [readValue, h2]⟩
  | .dict kvs, hs, hc, hd => by
    simp only [pvStated] at hs; simp only [pvClean] at hc; simp only [pvDates] at hd
    obtain ⟨ts, h1, h2⟩ := kvs_rt L kvs hs hc hd
    exact ⟨_, by simp [serializeWithin, h1, Out.map]; rfl,
      by simp [readValue, h2, KVs.insertAll_nil kvs (kvsStated_distinct kvs hs)]⟩
  | .uid _, hs, _, _ => by simp [pvStated] at hs
theorem pvs_rt {c : Codec} (L : CodecLaws c) : ∀ xs : PVs, pvsStated xs = true → pvsClean xs = true →
    pvsDates c xs = true → ∃ ts, arrayInner c xs = .ok ts ∧ readArray c ts = some xs
  | .nil, _, _, _ => ⟨[], by simp [arrayInner], by simp [readArray]⟩
  | .cons v r, hs, hc, hd => by
    simp only [pvsStated, Bool.and_eq_true] at hs
    simp only [pvsClean, Bool.and_eq_true] at hc
    simp only [pvsDates, Bool.and_eq_true] at hd
    obtain ⟨t, h1, h2⟩ := pv_rt L v hs.1 hc.1 hd.1
    obtain ⟨ts, h3, h4⟩ := pvs_rt L r hs.2 hc.2 hd.2
    exact ⟨t :: ts, by simp [arrayInner, h1, h3, Out.bind], by simp [readArray, h2, h4]⟩
theorem kvs_rt {c : Codec} (L : CodecLaws c) : ∀ kvs : KVs, kvsStated kvs = true → kvsClean kvs = true →
    kvsDates c kvs = true → ∃ ts, dictInner c kvs = .ok ts ∧ readPairs c ts = some kvs
  | .nil, _, _, _ => ⟨[], by simp [dictInner], by simp [readPairs]⟩
  | .cons k v r, hs, hc, hd => by
    simp only [kvsStated, Bool.and_eq_true] at hs
    simp only [kvsClean, Bool.and_eq_true] at hc
    simp only [kvsDates, Bool.and_eq_true] at hd
    obtain ⟨t, h1, h2⟩ := pv_rt L v hs.1.2 hc.1.2 hd.1
    obtain ⟨ts, h3, h4⟩ := kvs_rt L r hs.2 hc.2 hd.2
    refine ⟨textElem "key" k :: t :: ts, by simp [dictInner, h1, h3, Out.bind], ?_⟩
    simp [readPairs, readKey, textElem, elemText_content, trimXml_of_edgeClean k hc.1.1, h2, h4]
end

/-! ## no panic in the glue -/

def Out.isPanic {α : Type} : Out α → Bool
  | .panic => true
  | _ => false

theorem Out.isPanic_map {α β : Type} (f : α → β) (o : Out α) : (o.map f).isPanic = o.isPanic := by
  cases o <;> rfl

mutual
theorem pv_np (c : Codec) : ∀ v : PV, pvDates c v = true → (serializeWithin c v).isPanic = false
  | .str _, _ => by simp [serializeWithin, leafInner, Out.map, Out.isPanic]
  | .int _, _ => by simp [serializeWithin, leafInner, Out.map, Out.isPanic]
  | .real _, _ => by simp [serializeWithin, leafInner, Out.map, Out.isPanic]
  | .bool true, _ => by simp [serializeWithin, Out.isPanic]
  | .bool false, _ => by simp [serializeWithin, Out.isPanic]
  | .data _, _ => by simp [serializeWithin, leafInner, Out.map, Out.isPanic]
  | .date d, h => by
    simp only [pvDates, Option.isSome_iff_exists] at h
    obtain ⟨s, hs⟩ := h
    simp [serializeWithin, leafInner, Out.map, Out.isPanic, hs]
  | .arr xs, h => by
    simp only [pvDates] at h
    simp [serializeWithin, Out.isPanic_map, pvs_np c xs h]
  | .dict kvs, h => by
    simp only [pvDates] at h
    simp [serializeWithin, Out.isPanic_map, kvs_np c kvs h]
  | .uid _, _ => by simp [serializeWithin, Out.isPanic]
theorem pvs_np (c : Codec) : ∀ xs : PVs, pvsDates c xs = true → (arrayInner c xs).isPanic = false
  | .nil, _ => by simp [arrayInner, Out.isPanic]
  | .cons v r, h => by
    simp only [pvsDates, Bool.and_eq_true] at h
    have h1 := pv_np c v h.1
    have h2 := pvs_np c r h.2
    simp only [arrayInner]
    cases hv : serializeWithin c v <;> simp [hv, Out.bind, Out.isPanic] at h1 ⊢
    cases hr : arrayInner c r <;> simp [hr, Out.isPanic] at h2 ⊢
theorem kvs_np (c : Codec) : ∀ kvs : KVs, kvsDates c kvs = true → (dictInner c kvs).isPanic = false
  | .nil, _ => by simp [dictInner, Out.isPanic]
  | .cons k v r, h => by
    simp only [kvsDates, Bool.and_eq_true] at h
    have h1 := pv_np c v h.1
    have h2 := kvs_np c r h.2
    simp only [dictInner]
    cases hv : serializeWithin c v <;> simp [hv, Out.bind, Out.isPanic] at h1 ⊢
    cases hr : dictInner c r <;> simp [hr, Out.isPanic] at h2 ⊢
end

end C18
