import Norad.Lemmas.C16
/-! Lemmas for `newStore_inv`: the keys produced by listing a directory tree satisfy the invariant. -/
namespace C16
open Path

/-- a directory entry name as `read_dir` yields it -/
def ValidName (n : List Char) : Prop := n ≠ [] ∧ '/' ∉ n ∧ n ≠ ['.'] ∧ n ≠ ['.', '.']

theorem splitSlash_name {n : List Char} (h : '/' ∉ n) : splitSlash n = [n] := by
  induction n with
  | nil => rfl
  | cons c r ih =>
    have hc : c ≠ '/' := fun hc => h (by simp [hc])
    have hr : '/' ∉ r := fun hr => h (List.mem_cons_of_mem _ hr)
    rw [splitSlash]
    simp only [hc, ↓reduceIte, ih hr]

theorem splitSlash_name_slash {n : List Char} (h : '/' ∉ n) (rest : List Char) :
    splitSlash (n ++ '/' :: rest) = n :: splitSlash rest := by
  induction n with
  | nil => simp [splitSlash]
  | cons c r ih =>
    have hc : c ≠ '/' := fun hc => h (by simp [hc])
    have hr : '/' ∉ r := fun hr => h (List.mem_cons_of_mem _ hr)
    rw [List.cons_append, splitSlash]
    simp only [hc, ↓reduceIte, ih hr]

theorem splitSlash_keyOfNames {ns : List (List Char)} (hne : ns ≠ []) (h : ∀ n ∈ ns, '/' ∉ n) :
    splitSlash (keyOfNames ns) = ns := by
  induction ns with
  | nil => exact absurd rfl hne
  | cons n r ih =>
    cases r with
    | nil => simp only [keyOfNames]; exact splitSlash_name (h n (List.mem_cons_self ..))
    | cons m rest =>
      simp only [keyOfNames]
      rw [splitSlash_name_slash (h n (List.mem_cons_self ..)),
        ih (by simp) (fun x hx => h x (List.mem_cons_of_mem _ hx))]

theorem compOfPiece_valid {n : List Char} (h : ValidName n) : compOfPiece n = some (.normal n) := by
  unfold compOfPiece
  simp [h.1, h.2.2.1, h.2.2.2]

theorem filterMap_compOfPiece_valid {ns : List (List Char)} (h : ∀ n ∈ ns, ValidName n) :
    ns.filterMap compOfPiece = ns.map .normal := by
  induction ns with
  | nil => rfl
  | cons n r ih =>
    rw [List.filterMap_cons, compOfPiece_valid (h n (List.mem_cons_self ..)),
      ih (fun x hx => h x (List.mem_cons_of_mem _ hx))]
    rfl

theorem keyOfNames_head {ns : List (List Char)} (hne : ns ≠ []) (h : ∀ n ∈ ns, ValidName n) :
    ¬ ((keyOfNames ns).head? = some '/') := by
  cases ns with
  | nil => exact absurd rfl hne
  | cons n r =>
    have hv := h n (List.mem_cons_self ..)
    cases n with
    | nil => exact absurd rfl hv.1
    | cons c n' =>
      have hc : c ≠ '/' := fun hc => hv.2.1 (by simp [hc])
      cases r with
      | nil => simp [keyOfNames, hc]
      | cons m rest => simp [keyOfNames, hc]

/-- the key of a listed entry parses back to exactly its names, all normal components -/
theorem parse_keyOfNames {ns : List (List Char)} (hne : ns ≠ []) (h : ∀ n ∈ ns, ValidName n) :
    parse (keyOfNames ns) = ⟨false, ns.map .normal⟩ := by
  unfold parse
  rw [if_neg (keyOfNames_head hne h)]
  unfold relComps
  rw [splitSlash_keyOfNames hne (fun n hn => (h n hn).2.1)]
  cases ns with
  | nil => exact absurd rfl hne
  | cons n r =>
    have hv := h n (List.mem_cons_self ..)
    have hf : firstComp n = some (.normal n) := by
      unfold firstComp
      rw [if_neg hv.2.2.1]
      exact compOfPiece_valid hv
    simp only [hf, Option.toList_some, List.map_cons, List.singleton_append]
    rw [filterMap_compOfPiece_valid (fun x hx => h x (List.mem_cons_of_mem _ hx))]

theorem map_normal_prefix {a b : List (List Char)} (h : a.map Comp.normal <+: b.map Comp.normal) :
    a <+: b := by
  induction a generalizing b with
  | nil => exact List.nil_prefix
  | cons x a ih =>
    cases b with
    | nil => simp at h
    | cons y b =>
      simp only [List.map_cons, List.cons_prefix_cons, Comp.normal.injEq] at h
      rw [List.cons_prefix_cons]
      exact ⟨h.1, ih h.2⟩

theorem map_normal_inj {a b : List (List Char)} (h : a.map Comp.normal = b.map Comp.normal) : a = b := by
  induction a generalizing b with
  | nil => cases b with
    | nil => rfl
    | cons y b => simp at h
  | cons x a ih =>
    cases b with
    | nil => simp at h
    | cons y b =>
      simp only [List.map_cons, List.cons.injEq, Comp.normal.injEq] at h
      rw [h.1, ih h.2]

/-- what `read_dir`, followed recursively through plain directories, enumerates: entries are name
    paths of valid names, no path twice, and every proper non-empty prefix of an entry is itself an
    entry of kind `dir` (an entry is only found inside a directory) -/
structure ListingWF (t : Listing) : Prop where
  names : ∀ e ∈ t, e.1 ≠ [] ∧ ∀ n ∈ e.1, ValidName n
  distinct : (t.map (·.1)).Nodup
  parents : ∀ e ∈ t, ∀ q, q <+: e.1 → q ≠ e.1 → q ≠ [] → (q, NodeKind.dir) ∈ t

theorem eq_of_nodup_fst {t : Listing} (h : (t.map (·.1)).Nodup) {a b : List (List Char) × NodeKind}
    (ha : a ∈ t) (hb : b ∈ t) (hab : a.1 = b.1) : a = b := by
  induction t with
  | nil => simp at ha
  | cons c cs ih =>
    simp only [List.map_cons, List.nodup_cons, List.mem_map, not_exists, not_and] at h
    simp only [List.mem_cons] at ha hb
    rcases ha with rfl | ha <;> rcases hb with rfl | hb
    · rfl
    · exact absurd hab.symm (h.1 b hb)
    · exact absurd hab (h.1 a ha)
    · exact ih h.2 ha hb

/-- the key clauses for the keys of any sub-list `es` of a well-formed listing that consists of
    plain files (and, for images, of top-level entries) -/
theorem keysOK_of_listing {kind : Kind} {t es : Listing} (hwf : ListingWF t)
    (hsub : es.Sublist t) (hfile : ∀ e ∈ es, e.2 = NodeKind.file)
    (hflat : kind = .image → ∀ e ∈ es, e.1.length = 1) :
    KeysOK kind (es.map fun e => keyOfNames e.1) := by
  have hmem : ∀ e ∈ es, e ∈ t := fun e he => hsub.subset he
  have hp : ∀ e ∈ es, parse (keyOfNames e.1) = ⟨false, e.1.map .normal⟩ :=
    fun e he => parse_keyOfNames (hwf.names e (hmem e he)).1 (hwf.names e (hmem e he)).2
  constructor
  · intro k hk
    obtain ⟨e, he, rfl⟩ := List.mem_map.1 hk
    intro hnil
    have := hp e he
    rw [hnil] at this
    have h2 : (parse []).comps = [] := by decide
    rw [this] at h2
    simp only [List.map_eq_nil_iff] at h2
    exact (hwf.names e (hmem e he)).1 h2
  · intro k hk
    obtain ⟨e, he, rfl⟩ := List.mem_map.1 hk
    rw [hp e he]
  · rw [List.map_map]
    have hnd : (es.map (·.1)).Nodup := hwf.distinct.sublist (hsub.map _)
    have hcongr : es.map (parse ∘ fun e => keyOfNames e.1) = es.map (fun e => (⟨false, e.1.map .normal⟩ : P)) :=
      List.map_congr_left (fun e he => hp e he)
    rw [hcongr]
    unfold List.Nodup at hnd ⊢
    rw [List.pairwise_map] at hnd ⊢
    refine hnd.imp ?_
    intro a b hab hc
    injection hc with _ hc
    exact hab (map_normal_inj hc)
  · intro ka hka kb hkb hsw
    obtain ⟨a, ha, rfl⟩ := List.mem_map.1 hka
    obtain ⟨b, hb, rfl⟩ := List.mem_map.1 hkb
    rw [hp a ha, hp b hb] at hsw ⊢
    have hpre := map_normal_prefix ((startsWith_rel rfl rfl).1 hsw)
    by_cases heq : a.1 = b.1
    · rw [heq]
    · exfalso
      have hd := hwf.parents b (hmem b hb) a.1 hpre heq (hwf.names a (hmem a ha)).1
      have := eq_of_nodup_fst hwf.distinct (hmem a ha) hd rfl
      have hk := hfile a ha
      rw [this] at hk
      simp at hk
  · intro hk k hkm
    obtain ⟨e, he, rfl⟩ := List.mem_map.1 hkm
    rw [hp e he]
    simp [hflat hk e he]

end C16
