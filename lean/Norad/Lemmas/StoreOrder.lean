/-!
# Order independence of a sequence of file writes (core Lean only; shared by C16 and C10)

`Font::save` writes the entries of the data and image stores in `HashMap` iteration order
(`font.rs:526-553`): for every entry `create_dir_all(parent(dest))` and `write(dest, bytes)`.
`writeEntry` is the state such a pair of calls leaves **when it succeeds** on a tree without symbolic
links: `dest` is a plain file with the bytes, every proper prefix of `dest` is a directory (it was one
or has been created), everything else is untouched.  Writes to pairwise *different, non-nested*
destinations commute, hence the tree after the loop does not depend on the order of the loop
(`writes_order_independent`), which is all that the hash order can influence.
-/
namespace StoreOrder

/-- a fold of pairwise commuting updates does not depend on the order of the list -/
theorem foldl_perm_of_comm {σ α : Type} (f : σ → α → σ) (R : α → α → Prop)
    (hsymm : ∀ {a b}, R a b → R b a)
    (hcomm : ∀ s a b, R a b → f (f s a) b = f (f s b) a)
    {l₁ l₂ : List α} (hp : l₁.Perm l₂) (hpw : l₁.Pairwise R) (s : σ) :
    l₁.foldl f s = l₂.foldl f s := by
  induction hp generalizing s with
  | nil => rfl
  | cons x _ ih =>
    simp only [List.foldl_cons]
    exact ih (List.pairwise_cons.1 hpw).2 _
  | swap x y l =>
    simp only [List.foldl_cons]
    have hyx : R y x := (List.pairwise_cons.1 hpw).1 x (List.mem_cons_self ..)
    rw [hcomm s y x hyx]
  | trans h₁ _ ih₁ ih₂ =>
    rw [ih₁ hpw s]
    exact ih₂ ((h₁.pairwise_iff hsymm).1 hpw) s

abbrev Loc := List (List Char)
abbrev Bytes := List UInt8

inductive FNode
  | dir
  | file (b : Bytes)
  deriving DecidableEq, Repr

/-- a file tree, extensionally -/
abbrev Tree := Loc → Option FNode

/-- `q` is a proper prefix of `d` -/
def below (q d : Loc) : Bool := q.isPrefixOf d && q != d

/-- the state after a successful `create_dir_all(parent(dest))` + `write(dest, b)` -/
def writeEntry (t : Tree) (w : Loc × Bytes) : Tree :=
  fun q => if q = w.1 then some (.file w.2) else if below q w.1 then some .dir else t q

/-- two destinations are different and neither lies below the other -/
def NonNested (a b : Loc × Bytes) : Prop := a.1.isPrefixOf b.1 = false ∧ b.1.isPrefixOf a.1 = false

theorem NonNested.symm {a b : Loc × Bytes} (h : NonNested a b) : NonNested b a := ⟨h.2, h.1⟩

theorem isPrefixOf_self (l : Loc) : l.isPrefixOf l = true :=
  List.isPrefixOf_iff_prefix.2 (List.prefix_refl l)

theorem writeEntry_comm (t : Tree) (a b : Loc × Bytes) (h : NonNested a b) :
    writeEntry (writeEntry t a) b = writeEntry (writeEntry t b) a := by
  funext q
  unfold writeEntry
  by_cases hqa : q = a.1
  · subst hqa
    have hne : ¬ a.1 = b.1 := by
      intro hqb; have := h.1; rw [← hqb, isPrefixOf_self] at this; simp at this
    have hnb : below a.1 b.1 = false := by
      unfold below; rw [h.1]; rfl
    simp [hne, hnb]
  · by_cases hqb : q = b.1
    · subst hqb
      have hna : below b.1 a.1 = false := by
        unfold below; rw [h.2]; rfl
      simp [hqa, hna]
    · simp only [hqa, hqb, ↓reduceIte]
      cases below q a.1 <;> cases below q b.1 <;> rfl

/-- the tree after writing a list of entries, in list order -/
def writeAll (t : Tree) (ws : List (Loc × Bytes)) : Tree := ws.foldl writeEntry t

/-- **order independence**: two orders of the same pairwise non-nested writes leave the same tree -/
theorem writes_order_independent (t : Tree) {ws₁ ws₂ : List (Loc × Bytes)} (hp : ws₁.Perm ws₂)
    (hpw : ws₁.Pairwise NonNested) : writeAll t ws₁ = writeAll t ws₂ :=
  foldl_perm_of_comm writeEntry NonNested NonNested.symm (fun s a b h => writeEntry_comm s a b h) hp hpw t

/-- … and every written file holds exactly its bytes afterwards, whatever the order -/
theorem writeAll_lookup (t : Tree) (ws : List (Loc × Bytes)) (hpw : ws.Pairwise NonNested)
    (w : Loc × Bytes) (hw : w ∈ ws) : writeAll t ws w.1 = some (.file w.2) := by
  induction ws generalizing t with
  | nil => simp at hw
  | cons x r ih =>
    have hp := List.pairwise_cons.1 hpw
    unfold writeAll at ih ⊢
    rw [List.foldl_cons]
    rcases List.mem_cons.1 hw with rfl | hw
    · -- later writes do not touch `w.1`
      clear ih
      have key : ∀ (r : List (Loc × Bytes)) (t : Tree), (∀ y ∈ r, NonNested w y) →
          t w.1 = some (.file w.2) → r.foldl writeEntry t w.1 = some (.file w.2) := by
        intro r
        induction r with
        | nil => intro t _ h; exact h
        | cons y r ih2 =>
          intro t hy h
          rw [List.foldl_cons]
          apply ih2 _ (fun z hz => hy z (List.mem_cons_of_mem _ hz))
          have hn := hy y (List.mem_cons_self ..)
          unfold writeEntry
          have h1 : ¬ w.1 = y.1 := by
            intro hc; have := hn.1; rw [hc, isPrefixOf_self] at this; simp at this
          have h2 : below w.1 y.1 = false := by unfold below; rw [hn.1]; rfl
          simp [h1, h2, h]
      exact key r _ hp.1 (by unfold writeEntry; simp)
    · exact ih _ hp.2 hw

end StoreOrder
