import Norad.Lemmas.AbsFSOk
import Norad.Lemmas.SaveRun
import Norad.Lemmas.StoreOrder
/-!
The tie between `StoreOrder.writeEntry` (the state a successful `create_dir_all(parent)` + `write` leaves)
and the kernel-level abstract file system of the FS family: the two effects of one store entry
(`FontSave.planDataItem`) succeed on `AbsFS` and leave exactly `writeEntry`'s tree; hence a whole list of
pairwise non-nested entries runs and leaves `StoreOrder.writeAll`'s tree.
Cites `Lemmas/AbsFS.lean`, `Lemmas/SaveRun.lean` (what successful calls did) and `Lemmas/AbsFSOk.lean` (that they succeed).
-/
namespace StorePlan
open AbsFS FontSave StoreOrder
open Path (Comp)

abbrev B := StoreOrder.Bytes

def conv : Node B → FNode
  | .dir => .dir
  | .file b => .file b

/-- the abstract file system seen as a `StoreOrder.Tree` -/
def treeOf (fs : FS B) : Tree := fun q => (node fs q).map conv

/-- the two effects of one entry: `create_dir_all(destination.parent())`, `write(destination, bytes)` -/
def itemEffs (w : Loc × B) : List (Eff B) := [.mkdirAll (tC w.1.dropLast), .write (tC w.1) w.2]

theorem prefix_dropLast {α : Type} {q l : List α} (h : q <+: l) (hne : q ≠ l) : q <+: l.dropLast := by
  rcases List.eq_nil_or_concat l with rfl | ⟨l', s, rfl⟩
  · exact absurd (List.prefix_nil.1 h) hne
  · simp only [List.concat_eq_append] at h hne ⊢
    rw [List.dropLast_concat]
    rcases List.prefix_concat_iff.1 h with h1 | h1
    · exact absurd h1 hne
    · exact h1

theorem mkdirAll_tC_ok (fs : FS B) (l : APath)
    (h : ∀ m, m <+: l → m ≠ [] → ∀ b, node fs m ≠ some (.file b)) : (mkdirAll fs (tC l)).2 = none := by
  have e : (tC l).reverse = l.reverse.map Comp.normal := by simp [tC, List.map_reverse]
  unfold mkdirAll
  rw [e]
  exact mkdirAllRev_ok l.reverse fs (by simpa using h)

/-- **one entry**: on a file system where no proper prefix of the destination is a plain file and the
    destination is not a directory, the two effects succeed and leave `writeEntry`'s tree -/
theorem item_runs (fs : FS B) (w : Loc × B) (hne : w.1 ≠ [])
    (h1 : ∀ m, m <+: w.1.dropLast → m ≠ [] → ∀ b, node fs m ≠ some (.file b))
    (h2 : isDir fs w.1 = false) :
    ∃ fs', runEffs (itemEffs w) fs = (none, fs') ∧ treeOf fs' = writeEntry (treeOf fs) w := by
  obtain ⟨d, b⟩ := w
  simp only at hne h1 h2 ⊢
  rcases List.eq_nil_or_concat d with rfl | ⟨dd, s, rfl⟩
  · exact absurd rfl hne
  simp only [List.concat_eq_append] at hne h1 h2 ⊢
  rw [List.dropLast_concat] at h1
  have hok := mkdirAll_tC_ok fs dd h1
  have hdirs := mkdirAll_tC_dirs fs dd hok
  have hch := mkdirAll_tC_changes fs dd
  generalize hpair : mkdirAll fs (tC dd) = pr at hok hdirs hch
  obtain ⟨fs1, e1⟩ := pr
  simp only at hok hdirs hch
  subst hok
  have hsame : lookup fs1 (dd ++ [s]) = lookup fs (dd ++ [s]) := by
    apply Classical.byContradiction
    intro hc
    obtain ⟨a, _, _, _⟩ := hch _ hc
    have := a.length_le
    simp only [List.length_append, List.length_singleton] at this
    omega
  have hd1 : isDir fs1 (dd ++ [s]) = false := by
    unfold isDir at h2 ⊢
    rw [node_of_ne_nil _ hne] at h2 ⊢
    rw [hsame]; exact h2
  have hw : writeFile fs1 (tC (dd ++ [s])) b = .ok (AbsFS.set fs1 (dd ++ [s]) (.file b)) :=
    writeFile_normal_ok b hdirs hd1
  refine ⟨AbsFS.set fs1 (dd ++ [s]) (.file b), ?_, ?_⟩
  · simp only [itemEffs, List.dropLast_concat, runEffs, runEff, hpair, hw]
  · funext q
    unfold treeOf writeEntry
    simp only
    by_cases hq : q = dd ++ [s]
    · subst hq
      simp [node_set _ _ _ _ hne, conv]
    · have hq' : ¬ dd ++ [s] = q := fun h => hq h.symm
      rw [if_neg hq, node_set _ _ _ _ hne, if_neg hq']
      by_cases hb : below q (dd ++ [s]) = true
      · rw [if_pos hb]
        unfold below at hb
        simp only [Bool.and_eq_true, bne_iff_ne, ne_eq] at hb
        have hpre : q <+: dd := by
          have := prefix_dropLast (List.isPrefixOf_iff_prefix.1 hb.1) hb.2
          rwa [List.dropLast_concat] at this
        by_cases hq0 : q = []
        · subst hq0; simp [node, conv]
        · have := hdirs q hpre hq0
          rw [isDir_iff] at this
          rw [this]; rfl
      · rw [if_neg hb]
        have hnp : ¬ (q <+: dd ∧ q ≠ []) := by
          intro ⟨hp, _⟩
          apply hb
          unfold below
          simp only [Bool.and_eq_true, bne_iff_ne, ne_eq]
          exact ⟨List.isPrefixOf_iff_prefix.2 (hp.trans (List.prefix_append _ _)), hq⟩
        have hl : lookup fs1 q = lookup fs q := by
          apply Classical.byContradiction
          intro hc
          obtain ⟨a, b', _, _⟩ := hch q hc
          exact hnp ⟨a, b'⟩
        unfold node
        rw [hl]

/-! ### a list of entries -/

/-- what an entry needs of the tree: a destination, no plain file on the way to it, not a directory there -/
def Ready (T : Tree) (w : Loc × B) : Prop :=
  w.1 ≠ [] ∧ (∀ m, below m w.1 = true → ∀ b, T m ≠ some (.file b)) ∧ T w.1 ≠ some .dir

theorem ready_fs {fs : FS B} {w : Loc × B} (h : Ready (treeOf fs) w) :
    w.1 ≠ [] ∧ (∀ m, m <+: w.1.dropLast → m ≠ [] → ∀ b, node fs m ≠ some (.file b)) ∧ isDir fs w.1 = false := by
  obtain ⟨h0, h1, h2⟩ := h
  refine ⟨h0, ?_, ?_⟩
  · intro m hm _ b hb
    have hbel : below m w.1 = true := by
      unfold below
      simp only [Bool.and_eq_true, bne_iff_ne, ne_eq]
      refine ⟨List.isPrefixOf_iff_prefix.2 (hm.trans (List.dropLast_prefix _)), ?_⟩
      intro heq
      have := hm.length_le
      rw [heq, List.length_dropLast] at this
      have : w.1.length ≠ 0 := by simpa using h0
      omega
    exact h1 m hbel b (by simp [treeOf, hb, conv])
  · rw [← Bool.not_eq_true, isDir_iff]
    intro hd
    exact h2 (by simp [treeOf, hd, conv])

theorem ready_writeEntry {T : Tree} {a w : Loc × B} (hn : NonNested a w) (h : Ready T w) :
    Ready (writeEntry T a) w := by
  obtain ⟨h0, h1, h2⟩ := h
  refine ⟨h0, ?_, ?_⟩
  · intro m hm b
    unfold writeEntry
    by_cases hma : m = a.1
    · -- `a`'s destination would lie on the way to `w`'s
      exfalso
      unfold below at hm
      simp only [Bool.and_eq_true] at hm
      rw [hma, hn.1] at hm
      simp at hm
    · rw [if_neg hma]
      split
      · simp
      · exact h1 m hm b
  · unfold writeEntry
    by_cases hwa : w.1 = a.1
    · exfalso
      have := hn.1
      rw [← hwa, isPrefixOf_self] at this
      simp at this
    · rw [if_neg hwa]
      have hb : below w.1 a.1 = false := by unfold below; rw [hn.2]; rfl
      rw [hb]
      simpa using h2

/-- **the store-writing plan runs**: pairwise non-nested entries, each `Ready` on the initial file
    system, are all written successfully, and the file system reached is `StoreOrder.writeAll`'s tree -/
theorem plan_runs (ws : List (Loc × B)) (hpw : ws.Pairwise NonNested) :
    ∀ (fs : FS B), (∀ w ∈ ws, Ready (treeOf fs) w) →
      ∃ fs', runEffs (ws.flatMap itemEffs) fs = (none, fs') ∧ treeOf fs' = writeAll (treeOf fs) ws := by
  induction ws with
  | nil => intro fs _; exact ⟨fs, by simp [runEffs], rfl⟩
  | cons w r ih =>
    intro fs hready
    have hp := List.pairwise_cons.1 hpw
    obtain ⟨a0, a1, a2⟩ := ready_fs (hready w (List.mem_cons_self ..))
    obtain ⟨fs1, hrun1, htree1⟩ := item_runs fs w a0 a1 a2
    have hready1 : ∀ x ∈ r, Ready (treeOf fs1) x := by
      intro x hx
      rw [htree1]
      exact ready_writeEntry (hp.1 x hx) (hready x (List.mem_cons_of_mem _ hx))
    obtain ⟨fs', hrun, htree⟩ := ih hp.2 fs1 hready1
    refine ⟨fs', ?_, ?_⟩
    · rw [List.flatMap_cons, runEffs_append, hrun1]
      exact hrun
    · rw [htree, htree1]
      rfl

/-! ### plain writes into an existing directory (the images half: one `mkdir`, then `write`s) -/

/-- **one plain write**: all directories on the way exist, the destination is not a directory -/
theorem write_runs (fs : FS B) (w : Loc × B) (hne : w.1 ≠ [])
    (h1 : ∀ m, m <+: w.1.dropLast → m ≠ [] → isDir fs m = true) (h2 : isDir fs w.1 = false) :
    runEffs [Eff.write (tC w.1) w.2] fs = (none, AbsFS.set fs w.1 (.file w.2)) ∧
    treeOf (AbsFS.set fs w.1 (.file w.2)) = writeEntry (treeOf fs) w := by
  obtain ⟨d, b⟩ := w
  simp only at hne h1 h2 ⊢
  rcases List.eq_nil_or_concat d with rfl | ⟨dd, s, rfl⟩
  · exact absurd rfl hne
  simp only [List.concat_eq_append] at hne h1 h2 ⊢
  rw [List.dropLast_concat] at h1
  have hw : writeFile fs (tC (dd ++ [s])) b = .ok (AbsFS.set fs (dd ++ [s]) (.file b)) :=
    writeFile_normal_ok b h1 h2
  refine ⟨by simp only [runEffs, runEff, hw], ?_⟩
  funext q
  unfold treeOf writeEntry
  simp only
  by_cases hq : q = dd ++ [s]
  · subst hq
    simp [node_set _ _ _ _ hne, conv]
  · have hq' : ¬ dd ++ [s] = q := fun h => hq h.symm
    rw [if_neg hq, node_set _ _ _ _ hne, if_neg hq']
    by_cases hb : below q (dd ++ [s]) = true
    · rw [if_pos hb]
      unfold below at hb
      simp only [Bool.and_eq_true, bne_iff_ne, ne_eq] at hb
      have hpre : q <+: dd := by
        have := prefix_dropLast (List.isPrefixOf_iff_prefix.1 hb.1) hb.2
        rwa [List.dropLast_concat] at this
      by_cases hq0 : q = []
      · subst hq0; simp [node, conv]
      · have := h1 q hpre hq0
        rw [isDir_iff] at this
        rw [this]; rfl
    · rw [if_neg hb]

/-- what a plain write needs of the file system -/
def ReadyW (fs : FS B) (w : Loc × B) : Prop :=
  w.1 ≠ [] ∧ (∀ m, m <+: w.1.dropLast → m ≠ [] → isDir fs m = true) ∧ isDir fs w.1 = false

theorem readyW_set {fs : FS B} {a w : Loc × B} (hn : NonNested a w) (ha : a.1 ≠ []) (h : ReadyW fs w) :
    ReadyW (AbsFS.set fs a.1 (.file a.2)) w := by
  obtain ⟨h0, h1, h2⟩ := h
  refine ⟨h0, ?_, ?_⟩
  · intro m hm hm0
    have hne : a.1 ≠ m := by
      intro heq
      have : a.1.isPrefixOf w.1 = true :=
        List.isPrefixOf_iff_prefix.2 (heq ▸ hm.trans (List.dropLast_prefix _))
      rw [hn.1] at this; simp at this
    rw [isDir_iff, node_set _ _ _ _ ha, if_neg hne, ← isDir_iff]
    exact h1 m hm hm0
  · rw [← Bool.not_eq_true, isDir_iff, node_set _ _ _ _ ha]
    by_cases heq : a.1 = w.1
    · rw [if_pos heq]; simp
    · rw [if_neg heq, ← isDir_iff, h2]; simp

/-- a list of plain writes to pairwise non-nested destinations runs and leaves `writeAll`'s tree -/
theorem writes_run (ws : List (Loc × B)) (hpw : ws.Pairwise NonNested) :
    ∀ (fs : FS B), (∀ w ∈ ws, ReadyW fs w) →
      ∃ fs', runEffs (ws.map fun w => Eff.write (tC w.1) w.2) fs = (none, fs') ∧
        treeOf fs' = writeAll (treeOf fs) ws := by
  induction ws with
  | nil => intro fs _; exact ⟨fs, by simp [runEffs], rfl⟩
  | cons w r ih =>
    intro fs hready
    have hp := List.pairwise_cons.1 hpw
    obtain ⟨a0, a1, a2⟩ := hready w (List.mem_cons_self ..)
    obtain ⟨hrun1, htree1⟩ := write_runs fs w a0 a1 a2
    have hready1 : ∀ x ∈ r, ReadyW (AbsFS.set fs w.1 (.file w.2)) x :=
      fun x hx => readyW_set (hp.1 x hx) a0 (hready x (List.mem_cons_of_mem _ hx))
    obtain ⟨fs', hrun, htree⟩ := ih hp.2 _ hready1
    refine ⟨fs', ?_, ?_⟩
    · have : (w :: r).map (fun w => Eff.write (tC w.1) w.2) =
          [Eff.write (tC w.1) w.2] ++ r.map (fun w => Eff.write (tC w.1) w.2) := rfl
      rw [this, runEffs_append, hrun1]
      exact hrun
    · rw [htree, htree1]
      rfl

/-- creating the common parent directory first makes no difference to the tree the writes leave -/
theorem writeAll_after_mkdir (T : Tree) (base : Loc) (ws : List (Loc × B)) (hne : ws ≠ [])
    (hb : ∀ w ∈ ws, below base w.1 = true) :
    writeAll (fun q => if q = base then some .dir else T q) ws = writeAll T ws := by
  cases ws with
  | nil => exact absurd rfl hne
  | cons w r =>
    unfold writeAll
    simp only [List.foldl_cons]
    congr 1
    funext q
    unfold writeEntry
    have hbw := hb w (List.mem_cons_self ..)
    by_cases hq : q = w.1
    · simp [hq]
    · rw [if_neg hq, if_neg hq]
      by_cases hqb : q = base
      · subst hqb; simp [hbw]
      · simp [hqb]

end StorePlan
