import Norad.Model.RoundTrip
/-!
# Per-part lemmas for the font round trip (C01/C04): key sorting, line endings, default layer
-/
namespace RT

variable {P : Parts}

/-! ## recursive key sorting does not change a plist value as a map -/

theorem lookup_insertKV (k : String) (a : String × PV) (l : Dict) :
    lookupKV k (insertKV a l) = if a.1 = k then some a.2 else lookupKV k l := by
  obtain ⟨ak, av⟩ := a
  induction l with
  | nil => simp [insertKV, lookupKV]
  | cons b r ih =>
    obtain ⟨bk, bv⟩ := b
    unfold insertKV
    split
    · rename_i hlt
      simp only [lookupKV, ih]
      by_cases h1 : bk = k
      · have : ak ≠ k := by
          intro h2; subst h1; subst h2; exact absurd hlt (String.lt_irrefl _)
        simp [h1, this]
      · simp [h1]
    · simp [lookupKV]

theorem lookup_sortKV (k : String) (l : Dict) : lookupKV k (sortKV l) = lookupKV k l := by
  induction l with
  | nil => rfl
  | cons a r ih =>
    obtain ⟨ak, av⟩ := a
    simp only [sortKV, lookup_insertKV, ih, lookupKV]

theorem lookup_sortRecL (k : String) (l : Dict) : lookupKV k (sortRecL l) = (lookupKV k l).map sortRec := by
  induction l with
  | nil => simp [sortRecL, lookupKV]
  | cons a r ih =>
    obtain ⟨ak, av⟩ := a
    simp only [sortRecL, lookupKV, ih]
    split <;> simp

theorem length_insertKV (a : String × PV) (l : Dict) : (insertKV a l).length = l.length + 1 := by
  induction l with
  | nil => simp [insertKV]
  | cons b r ih => unfold insertKV; split <;> simp [ih]

theorem length_sortKV (l : Dict) : (sortKV l).length = l.length := by
  induction l with
  | nil => rfl
  | cons a r ih => simp [sortKV, length_insertKV, ih]

theorem length_sortRecL (l : Dict) : (sortRecL l).length = l.length := by
  induction l with
  | nil => simp [sortRecL]
  | cons a r ih => obtain ⟨ak, av⟩ := a; simp [sortRecL, ih]

theorem leaf_sortRec (a : PV) : (sortRec a).leaf = a.leaf := by
  cases a <;> simp [sortRec, PV.leaf, length_sortKV, length_sortRecL]

/-- at every path the sorted value shows the same node as the original -/
theorem sortRec_get_leaf (p : List Seg) : ∀ a : PV,
    ((sortRec a).get p).map PV.leaf = (a.get p).map PV.leaf := by
  induction p with
  | nil => intro a; simp [PV.get, leaf_sortRec]
  | cons s p ih =>
    intro a
    cases a with
    | dict l =>
      cases s with
      | key k =>
        simp only [sortRec, PV.get, lookup_sortKV, lookup_sortRecL]
        cases h : lookupKV k l with
        | none => simp
        | some v => simp only [Option.map_some]; exact ih v
      | idx i => simp [sortRec, PV.get]
    | str _ => simp [sortRec]
    | int _ => simp [sortRec]
    | real _ => simp [sortRec]
    | bool _ => simp [sortRec]
    | data _ => simp [sortRec]
    | date _ => simp [sortRec]
    | arr _ => simp [sortRec]

/-! ## feature text: CR LF → LF keeps the line-ending normal form -/

theorem startsCRsLF_crlfToLf (s : List Char) : startsCRsLF (crlfToLf s) = startsCRsLF s := by
  fun_induction crlfToLf s with
  | case1 r ih => simp [startsCRsLF]
  | case2 c r hne ih =>
    by_cases h1 : c = '\r'
    · subst h1; simp [startsCRsLF, ih]
    · by_cases h2 : c = '\n'
      · subst h2; simp [startsCRsLF]
      · unfold startsCRsLF; split <;> simp_all
  | case3 => rfl

theorem lfNorm_crlfToLf (s : List Char) : lfNorm (crlfToLf s) = lfNorm s := by
  fun_induction crlfToLf s with
  | case1 r ih => simp [lfNorm, startsCRsLF, ih]
  | case2 c r hne ih => simp [lfNorm, startsCRsLF_crlfToLf, ih]
  | case3 => rfl

/-! ## layers: a default layer that is already first stays first, the others keep their order -/

theorem defaultFirst_id (l : (Layer P)) (r : List (Layer P)) (h : l.dir = glyphsDir) :
    defaultFirst (l :: r) = .ok (l :: r) := by
  simp [defaultFirst, findDefault, h]

/-- in general the default layer is moved to the front and the relative order of the others is kept -/
theorem findDefault_spec (ls : List (Layer P)) (i : Nat) (h : findDefault ls = some i) :
    ∃ d, ls[i]? = some d ∧ d.dir = glyphsDir ∧ ∀ j, j < i → ∀ x, ls[j]? = some x → x.dir ≠ glyphsDir := by
  induction ls generalizing i with
  | nil => simp [findDefault] at h
  | cons l r ih =>
    unfold findDefault at h
    split at h
    · rename_i hd
      cases h
      exact ⟨l, by simp, hd, by intro j hj; omega⟩
    · rename_i hd
      cases hf : findDefault r with
      | none => simp [hf] at h
      | some k =>
        simp [hf] at h
        subst h
        obtain ⟨d, h1, h2, h3⟩ := ih k hf
        refine ⟨d, by simpa using h1, h2, ?_⟩
        intro j hj x hx
        cases j with
        | zero => simp at hx; subst hx; exact hd
        | succ j => exact h3 j (by omega) x (by simpa using hx)

end RT
