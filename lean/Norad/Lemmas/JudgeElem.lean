import Norad.Lemmas.JudgeDoc
import Norad.Lemmas.GlifTables
namespace Glif
open Spec
section
variable {rd : Str → Option Nat}

/-- the model's reader refuses the value `v` of an attribute of kind `k` (`fileName` and `smooth` are never refused in the
    attribute loop: the file name is checked when the element is finished) -/
def Refuses (rd : Str → Option Nat) (ver : Nat) (seen : List Str) : AK → Str → Prop
  | .num, v => rd v = none
  | .angle, v => ∀ b, rd v = some b → angleOk b = false
  | .name, v => validName v = false
  | .color, v => readCol rd v = none
  | .ident, v => readIdent ver seen v = none
  | .hex, v => parseHex v = none
  | .ptype, v => readPointType v = none
  | .smooth, _ => False
  | .file, _ => False

/-- an attribute that stops the attribute loop of element `n`: a name outside the specification's table of `n`, or a value
    the model's reader refuses -/
def AttrBad (rd : Str → Option Nat) (ver : Nat) (seen : List Str) (n : Str) (a : Attr) : Prop :=
  match attrTable n with
  | none => False
  | some tbl => match tbl.find? (fun t => t.1.toList = a.1) with
    | none => True
    | some (_, k) => Refuses rd ver seen k a.2

def aKeyName : AKey → Str
  | .x => "x".toList | .y => "y".toList | .name => "name".toList | .color => "color".toList | .ident => sIdentifier

theorem aKeyOf_eq {s : Str} {k : AKey} (h : aKeyOf s = some k) : s = aKeyName k := by
  unfold aKeyOf at h
  repeat' split at h
  all_goals first | (cases h; done) | (cases h; assumption)

/-- closes one key case of an `…_attrBad` proof: `h` is `Refuses … k a2` up to unfolding -/
syntax "refuse_case " ident ident : tactic
macro_rules
  | `(tactic| refuse_case $ap:ident $h:ident) => `(tactic|
      first
      | (have h' : False := $h; exact h'.elim)
      | (have h' : (_ : Option _) = none := $h; simp [$ap:ident, h'])
      | (have h' : (_ : Bool) = false := $h; simp [$ap:ident, h']))

theorem anchor_attrBad {ver : Nat} {seen : List Str} {a : Attr} (h : AttrBad rd ver seen sAnchor a) :
    ∀ acc, aStep rd ver seen acc a = none := by
  intro acc
  unfold aStep
  cases hk : aKeyOf a.1 with
  | none => rfl
  | some k =>
    have hname := aKeyOf_eq hk
    obtain ⟨a1, a2⟩ := a
    simp only at hname hk h ⊢; subst hname
    cases k <;> refuse_case aApply h

theorem guideline_attrBad {ver : Nat} {seen : List Str} {a : Attr} (h : AttrBad rd ver seen sGuideline a) :
    ∀ acc, guStep rd ver seen acc a = none := by
  intro acc
  unfold guStep
  cases hk : guKeyOf a.1 with
  | none => rfl
  | some k =>
    have hname := guKeyOf_eq hk
    obtain ⟨a1, a2⟩ := a
    simp only at hname hk h ⊢; subst hname
    cases k
    case angle =>
      have h' : ∀ b, rd a2 = some b → angleOk b = false := h
      cases hr : rd a2 with
      | none => simp [guApply, hr]
      | some b => simp [guApply, hr, h' b hr]
    all_goals refuse_case guApply h

theorem point_attrBad {ver : Nat} {seen : List Str} {a : Attr} (h : AttrBad rd ver seen sPoint a) :
    ∀ acc, pStep rd ver seen acc a = none := by
  intro acc
  unfold pStep
  cases hk : pKeyOf a.1 with
  | none => rfl
  | some k =>
    have hname := pKeyOf_eq hk
    obtain ⟨a1, a2⟩ := a
    simp only at hname hk h ⊢; subst hname
    cases k <;> refuse_case pApply h

def advKeyName : AdvKey → Str
  | .width => "width".toList | .height => "height".toList

theorem advKeyOf_eq {s : Str} {k : AdvKey} (h : advKeyOf s = some k) : s = advKeyName k := by
  unfold advKeyOf at h
  repeat' split at h
  all_goals first | (cases h; done) | (cases h; assumption)

theorem advance_attrBad {ver : Nat} {seen : List Str} {a : Attr} (h : AttrBad rd ver seen sAdvance a) :
    ∀ acc, advStep rd acc a = none := by
  intro acc
  unfold advStep
  cases hk : advKeyOf a.1 with
  | none => rfl
  | some k =>
    have hname := advKeyOf_eq hk
    obtain ⟨a1, a2⟩ := a
    simp only at hname hk h ⊢; subst hname
    cases k <;> refuse_case advApply h

theorem unicode_attrBad {ver : Nat} {seen : List Str} {a : Attr} (h : AttrBad rd ver seen sUnicode a) :
    ∀ acc, uniStep acc a = none := by
  intro acc
  unfold uniStep
  by_cases hk : a.1 = sHex
  · obtain ⟨a1, a2⟩ := a
    simp only at hk h ⊢; subst hk
    have h' : parseHex a2 = none := h
    simp [h']
  · simp [hk]

def tKeyName : TKey → Str
  | .xScale => "xScale".toList | .xyScale => "xyScale".toList | .yxScale => "yxScale".toList
  | .yScale => "yScale".toList | .xOffset => "xOffset".toList | .yOffset => "yOffset".toList

theorem tKeyOf_eq {s : Str} {k : TKey} (h : tKeyOf s = some k) : s = tKeyName k := by
  unfold tKeyOf at h
  repeat' split at h
  all_goals first | (cases h; done) | (cases h; assumption)

def iKeyName : IKey → Str
  | .t k => tKeyName k | .color => "color".toList | .fileName => "fileName".toList

theorem iKeyOf_eq {s : Str} {k : IKey} (h : iKeyOf s = some k) : s = iKeyName k := by
  unfold iKeyOf at h
  split at h
  · rename_i tk htk; cases h; exact tKeyOf_eq htk
  · repeat' split at h
    all_goals first | (cases h; done) | (cases h; assumption)

theorem image_attrBad {ver : Nat} {seen : List Str} {a : Attr} (h : AttrBad rd ver seen sImage a) :
    ∀ acc, iStep rd acc a = none := by
  intro acc
  unfold iStep
  cases hk : iKeyOf a.1 with
  | none => rfl
  | some k =>
    have hname := iKeyOf_eq hk
    obtain ⟨a1, a2⟩ := a
    simp only at hname hk h ⊢; subst hname
    cases k with
    | t tk => cases tk <;> refuse_case iApply h
    | color => refuse_case iApply h
    | fileName => refuse_case iApply h

def cKeyName : CKey → Str
  | .t k => tKeyName k | .base => "base".toList | .ident => sIdentifier

theorem cKeyOf_eq {s : Str} {k : CKey} (h : cKeyOf s = some k) : s = cKeyName k := by
  unfold cKeyOf at h
  split at h
  · rename_i tk htk; cases h; exact tKeyOf_eq htk
  · repeat' split at h
    all_goals first | (cases h; done) | (cases h; assumption)

theorem component_attrBad {ver : Nat} {seen : List Str} {a : Attr} (h : AttrBad rd ver seen sComponent a) :
    ∀ acc, cStep rd ver seen acc a = none := by
  intro acc
  unfold cStep
  cases hk : cKeyOf a.1 with
  | none => rfl
  | some k =>
    have hname := cKeyOf_eq hk
    obtain ⟨a1, a2⟩ := a
    simp only at hname hk h ⊢; subst hname
    cases k with
    | t tk => cases tk <;> refuse_case cApply h
    | base => refuse_case cApply h
    | ident => refuse_case cApply h

/-! ### errors that show when the element is finished: a required attribute is missing, the guideline shape, the image file name -/

theorem anchor_missing {ver : Nat} {seen : List Str} {as : List Attr}
    (h : has as "x" = false ∨ has as "y" = false) : parseAnchor rd ver seen as = none := by
  unfold parseAnchor
  cases hacc : foldAttrs (aStep rd ver seen) {} as with
  | none => rfl
  | some acc =>
    simp only
    rcases h with h | h
    · have : ¬ (acc.x.isSome = true) := by
        refine foldAttrs_absent (aStep rd ver seen) (fun a => a.x.isSome = true) "x".toList ?_ as {} acc hacc (by simp)
          (has_false_not_mem h)
        intro acc a acc' hne hp hs
        unfold aStep at hs; split at hs
        · cases hs
        · rename_i k hk
          have hnm := aKeyOf_eq hk
          cases k <;> simp only [aApply] at hs <;> repeat' split at hs
          all_goals first | (cases hs; done) | (cases hs; first | exact hp | exact absurd hnm hne)
      cases hx : acc.x with
      | none => simp [aFinish, hx]
      | some _ => simp [hx] at this
    · have : ¬ (acc.y.isSome = true) := by
        refine foldAttrs_absent (aStep rd ver seen) (fun a => a.y.isSome = true) "y".toList ?_ as {} acc hacc (by simp)
          (has_false_not_mem h)
        intro acc a acc' hne hp hs
        unfold aStep at hs; split at hs
        · cases hs
        · rename_i k hk
          have hnm := aKeyOf_eq hk
          cases k <;> simp only [aApply] at hs <;> repeat' split at hs
          all_goals first | (cases hs; done) | (cases hs; first | exact hp | exact absurd hnm hne)
      cases hy : acc.y with
      | none => cases hx : acc.x <;> simp [aFinish, hx, hy]
      | some _ => simp [hy] at this

theorem point_missing {ver : Nat} {seen : List Str} {as : List Attr}
    (h : has as "x" = false ∨ has as "y" = false) : parsePoint rd ver seen as = none := by
  unfold parsePoint
  cases hacc : foldAttrs (pStep rd ver seen) {} as with
  | none => rfl
  | some acc =>
    simp only
    rcases h with h | h
    · have : ¬ (acc.x.isSome = true) := by
        refine foldAttrs_absent (pStep rd ver seen) (fun a => a.x.isSome = true) "x".toList ?_ as {} acc hacc (by simp)
          (has_false_not_mem h)
        intro acc a acc' hne hp hs
        unfold pStep at hs; split at hs
        · cases hs
        · rename_i k hk
          have hnm := pKeyOf_eq hk
          cases k <;> simp only [pApply] at hs <;> repeat' split at hs
          all_goals first | (cases hs; done) | (cases hs; first | exact hp | exact absurd hnm hne)
      cases hx : acc.x with
      | none => simp [pFinish, hx]
      | some _ => simp [hx] at this
    · have : ¬ (acc.y.isSome = true) := by
        refine foldAttrs_absent (pStep rd ver seen) (fun a => a.y.isSome = true) "y".toList ?_ as {} acc hacc (by simp)
          (has_false_not_mem h)
        intro acc a acc' hne hp hs
        unfold pStep at hs; split at hs
        · cases hs
        · rename_i k hk
          have hnm := pKeyOf_eq hk
          cases k <;> simp only [pApply] at hs <;> repeat' split at hs
          all_goals first | (cases hs; done) | (cases hs; first | exact hp | exact absurd hnm hne)
      cases hy : acc.y with
      | none => cases hx : acc.x <;> simp [pFinish, hx, hy]
      | some _ => simp [hy] at this

theorem component_missing {ver : Nat} {seen : List Str} {as : List Attr}
    (h : has as "base" = false) : parseComponent rd ver seen as = none := by
  unfold parseComponent
  cases hacc : foldAttrs (cStep rd ver seen) {} as with
  | none => rfl
  | some acc =>
    simp only
    have : ¬ (acc.base.isSome = true) := by
        refine foldAttrs_absent (cStep rd ver seen) (fun a => a.base.isSome = true) "base".toList ?_ as {} acc hacc (by simp)
          (has_false_not_mem h)
        intro acc a acc' hne hp hs
        unfold cStep at hs; split at hs
        · cases hs
        · rename_i k hk
          have hnm := cKeyOf_eq hk
          cases k <;> simp only [cApply] at hs <;> repeat' split at hs
          all_goals first | (cases hs; done) | (cases hs; first | exact hp | exact absurd hnm hne)
    cases hb : acc.base with
    | none => simp [cFinish, hb]
    | some _ => simp [hb] at this

theorem image_missing {as : List Attr} (h : has as "fileName" = false) : parseImage rd as = none := by
  unfold parseImage
  cases hacc : foldAttrs (iStep rd) {} as with
  | none => rfl
  | some acc =>
    simp only
    have : ¬ (acc.fileName.isSome = true) := by
        refine foldAttrs_absent (iStep rd) (fun a => a.fileName.isSome = true) "fileName".toList ?_ as {} acc hacc (by simp)
          (has_false_not_mem h)
        intro acc a acc' hne hp hs
        unfold iStep at hs; split at hs
        · cases hs
        · rename_i k hk
          have hnm := iKeyOf_eq hk
          cases k <;> simp only [iApply] at hs <;> repeat' split at hs
          all_goals first | (cases hs; done) | (cases hs; first | exact hp | exact absurd hnm hne)
    cases hb : acc.fileName with
    | none => simp [iFinish, hb]
    | some _ => simp [hb] at this

/-- presence of a guideline field after the loop = presence of its attribute -/
theorem guideline_presence {ver : Nat} {seen : List Str} {as : List Attr} {acc : GuideAcc}
    (hacc : foldAttrs (guStep rd ver seen) {} as = some acc) :
    acc.x.isSome = has as "x" ∧ acc.y.isSome = has as "y" ∧ acc.angle.isSome = has as "angle" := by
  refine ⟨?_, ?_, ?_⟩
  · cases h : has as "x" with
    | false =>
      have : ¬ (acc.x.isSome = true) := by
        refine foldAttrs_absent (guStep rd ver seen) (fun a => a.x.isSome = true) "x".toList ?_ as {} acc hacc (by simp)
          (has_false_not_mem h)
        intro acc a acc' hne hp hs
        unfold guStep at hs; split at hs
        · cases hs
        · rename_i k hk
          have hnm := guKeyOf_eq hk
          cases k <;> simp only [guApply] at hs <;> repeat' split at hs
          all_goals first | (cases hs; done) | (cases hs; first | exact hp | exact absurd hnm hne)
      simpa using this
    | true =>
      refine foldAttrs_establishes (guStep rd ver seen) (fun a => a.x.isSome = true) "x".toList ?_ ?_ as {} acc hacc
        (Or.inr (has_mem h))
      · intro acc a acc' hp hs
        unfold guStep at hs; split at hs
        · cases hs
        · rename_i k hk
          cases k <;> simp only [guApply] at hs <;> repeat' split at hs
          all_goals first | (cases hs; done) | (cases hs; first | exact hp | rfl)
      · intro acc a acc' hk hs
        have hkk : guKeyOf a.1 = some .x := by rw [hk]; decide
        simp only [guStep, hkk, guApply] at hs
        split at hs
        · cases hs; rfl
        · cases hs
  · cases h : has as "y" with
    | false =>
      have : ¬ (acc.y.isSome = true) := by
        refine foldAttrs_absent (guStep rd ver seen) (fun a => a.y.isSome = true) "y".toList ?_ as {} acc hacc (by simp)
          (has_false_not_mem h)
        intro acc a acc' hne hp hs
        unfold guStep at hs; split at hs
        · cases hs
        · rename_i k hk
          have hnm := guKeyOf_eq hk
          cases k <;> simp only [guApply] at hs <;> repeat' split at hs
          all_goals first | (cases hs; done) | (cases hs; first | exact hp | exact absurd hnm hne)
      simpa using this
    | true =>
      refine foldAttrs_establishes (guStep rd ver seen) (fun a => a.y.isSome = true) "y".toList ?_ ?_ as {} acc hacc
        (Or.inr (has_mem h))
      · intro acc a acc' hp hs
        unfold guStep at hs; split at hs
        · cases hs
        · rename_i k hk
          cases k <;> simp only [guApply] at hs <;> repeat' split at hs
          all_goals first | (cases hs; done) | (cases hs; first | exact hp | rfl)
      · intro acc a acc' hk hs
        have hkk : guKeyOf a.1 = some .y := by rw [hk]; decide
        simp only [guStep, hkk, guApply] at hs
        split at hs
        · cases hs; rfl
        · cases hs
  · cases h : has as "angle" with
    | false =>
      have : ¬ (acc.angle.isSome = true) := by
        refine foldAttrs_absent (guStep rd ver seen) (fun a => a.angle.isSome = true) "angle".toList ?_ as {} acc hacc (by simp)
          (has_false_not_mem h)
        intro acc a acc' hne hp hs
        unfold guStep at hs; split at hs
        · cases hs
        · rename_i k hk
          have hnm := guKeyOf_eq hk
          cases k <;> simp only [guApply] at hs <;> repeat' split at hs
          all_goals first | (cases hs; done) | (cases hs; first | exact hp | exact absurd hnm hne)
      simpa using this
    | true =>
      refine foldAttrs_establishes (guStep rd ver seen) (fun a => a.angle.isSome = true) "angle".toList ?_ ?_ as {} acc hacc
        (Or.inr (has_mem h))
      · intro acc a acc' hp hs
        unfold guStep at hs; split at hs
        · cases hs
        · rename_i k hk
          cases k <;> simp only [guApply] at hs <;> repeat' split at hs
          all_goals first | (cases hs; done) | (cases hs; first | exact hp | rfl)
      · intro acc a acc' hk hs
        have hkk : guKeyOf a.1 = some .angle := by rw [hk]; decide
        simp only [guStep, hkk, guApply] at hs
        repeat' split at hs
        all_goals first | (cases hs; done) | (cases hs; rfl)

/-- the three shapes of a guideline the format knows -/
def guidelineShapeOk (as : List Attr) : Bool :=
  match has as "x", has as "y", has as "angle" with
  | true, false, false => true
  | false, true, false => true
  | true, true, true => true
  | _, _, _ => false

theorem guideline_shape_bad {ver : Nat} {seen : List Str} {as : List Attr} (h : guidelineShapeOk as = false) :
    parseGuideline rd ver seen as = none := by
  unfold parseGuideline
  cases hacc : foldAttrs (guStep rd ver seen) {} as with
  | none => rfl
  | some acc =>
    simp only
    obtain ⟨h1, h2, h3⟩ := guideline_presence hacc
    unfold guidelineShapeOk at h
    unfold guFinish
    cases hx : acc.x <;> cases hy : acc.y <;> cases ha : acc.angle <;>
      simp only [hx, hy, ha, Option.isSome_none, Option.isSome_some] at h1 h2 h3 <;>
      simp only [← h1, ← h2, ← h3] at h <;> first | rfl | (simp at h)

/-- an image whose file name the model refuses -/
theorem image_file_bad {as : List Attr} (hnd : (as.map (·.1)).Nodup) {f : Str} (hg : Spec.get as "fileName" = some f)
    (hbad : imageNameOk f = false) : parseImage rd as = none := by
  unfold parseImage
  cases hacc : foldAttrs (iStep rd) {} as with
  | none => rfl
  | some acc =>
    simp only
    have hf : acc.fileName = some f := by
      refine (foldAttrs_value (iStep rd) (fun a => a.fileName) "fileName".toList (some f) as ?_ ?_ {} acc hacc).1
        (List.mem_map.2 ⟨_, get_mem hg, rfl⟩)
      · intro acc a acc' hne hs
        unfold iStep at hs; split at hs
        · cases hs
        · rename_i k hk
          have hnm := iKeyOf_eq hk
          cases k <;> simp only [iApply] at hs <;> repeat' split at hs
          all_goals first | (cases hs; done) | (cases hs; first | rfl | exact absurd hnm hne)
      · intro acc a acc' ha hk hs
        obtain ⟨a1, a2⟩ := a
        simp only at hk; subst hk
        have := get_of_mem_nodup hnd ha
        rw [hg] at this; cases this
        have hk' : iKeyOf "fileName".toList = some .fileName := by decide
        simp only [iStep, hk', iApply] at hs
        cases hs; rfl
    simp [iFinish, hf, hbad]

/-! ### the hard errors of one content-free element, and the model's verdict -/

/-- the hard errors of a content-free element named `n` with attribute list `as`, in a glyph of format `ver` where the
    identifiers `seen` are taken: an attribute outside the table of `n` or with a value the reader refuses (a malformed
    number, an angle out of range, an invalid name, colour or point type, a malformed code point, an identifier that is
    invalid, already used or not allowed in format 1), a required attribute missing, a guideline that has none of the three
    shapes, an image file name with a directory part -/
inductive ElemBad (rd : Str → Option Nat) (ver : Nat) (seen : List Str) (n : Str) (as : List Attr) : Prop
  | attr (a : Attr) : a ∈ as → AttrBad rd ver seen n a → ElemBad rd ver seen n as
  | missing (r : String) : r ∈ required n → has as r = false → ElemBad rd ver seen n as
  | shape : n = sGuideline → guidelineShapeOk as = false → ElemBad rd ver seen n as
  | file (f : Str) : n = sImage → (as.map (·.1)).Nodup → Spec.get as "fileName" = some f → imageNameOk f = false →
      ElemBad rd ver seen n as

/-- **every hard error of an element makes the model's parser of that element fail** -/
theorem elemBad_fails {ver : Nat} {seen : List Str} {n : Str} {as : List Attr} (h : ElemBad rd ver seen n as) :
    (n = sAdvance → parseAdvance rd as = none) ∧ (n = sUnicode → ∀ cps, parseUnicode cps as = none) ∧
    (n = sAnchor → parseAnchor rd ver seen as = none) ∧ (n = sGuideline → parseGuideline rd ver seen as = none) ∧
    (n = sImage → parseImage rd as = none) ∧ (n = sPoint → parsePoint rd ver seen as = none) ∧
    (n = sComponent → parseComponent rd ver seen as = none) := by
  cases h with
  | attr a ha hbad =>
    refine ⟨?_, ?_, ?_, ?_, ?_, ?_, ?_⟩ <;> intro hn <;> subst hn
    · exact foldAttrs_none_of_mem _ _ (advance_attrBad hbad) as _ ha
    · intro cps; exact foldAttrs_none_of_mem _ _ (unicode_attrBad hbad) as _ ha
    · simp [parseAnchor, foldAttrs_none_of_mem _ _ (anchor_attrBad hbad) as _ ha]
    · simp [parseGuideline, foldAttrs_none_of_mem _ _ (guideline_attrBad hbad) as _ ha]
    · simp [parseImage, foldAttrs_none_of_mem _ _ (image_attrBad hbad) as _ ha]
    · simp [parsePoint, foldAttrs_none_of_mem _ _ (point_attrBad hbad) as _ ha]
    · simp [parseComponent, foldAttrs_none_of_mem _ _ (component_attrBad hbad) as _ ha]
  | missing r hr hhas =>
    have rA : required sAdvance = [] := by decide
    have rU : required sUnicode = [] := by decide
    have rG : required sGuideline = [] := by decide
    have rAn : required sAnchor = ["x", "y"] := by decide
    have rP : required sPoint = ["x", "y"] := by decide
    have rI : required sImage = ["fileName"] := by decide
    have rC : required sComponent = ["base"] := by decide
    refine ⟨?_, ?_, ?_, ?_, ?_, ?_, ?_⟩ <;> intro hn <;> subst hn
    · rw [rA] at hr; cases hr
    · rw [rU] at hr; cases hr
    · rw [rAn] at hr
      have : r = "x" ∨ r = "y" := by simpa using hr
      rcases this with rfl | rfl
      · exact anchor_missing (Or.inl hhas)
      · exact anchor_missing (Or.inr hhas)
    · rw [rG] at hr; cases hr
    · rw [rI] at hr
      have : r = "fileName" := by simpa using hr
      subst this; exact image_missing hhas
    · rw [rP] at hr
      have : r = "x" ∨ r = "y" := by simpa using hr
      rcases this with rfl | rfl
      · exact point_missing (Or.inl hhas)
      · exact point_missing (Or.inr hhas)
    · rw [rC] at hr
      have : r = "base" := by simpa using hr
      subst this; exact component_missing hhas
  | shape hn hsh =>
    subst hn
    refine ⟨?_, ?_, ?_, ?_, ?_, ?_, ?_⟩ <;> intro hn
    all_goals first | exact absurd hn (by decide) | exact guideline_shape_bad hsh
  | file f hn hnd hg hbad =>
    subst hn
    refine ⟨?_, ?_, ?_, ?_, ?_, ?_, ?_⟩ <;> intro hn
    all_goals first | exact absurd hn (by decide) | exact image_file_bad hnd hg hbad
end
end Glif
