import Norad.Model.Par
/-! Helper lemmas for the C19 model: interning steps, the per-task invariant, conservation of tasks
    under any schedule, permutation invariance of folds whose steps commute. -/
namespace Par

/-! ## interning -/

theorem lookup_str {s : NameSet} {n : Str} {e : NameObj} (h : lookup s n = some e) : e.str = n := by
  have := List.find?_some h
  simpa using this

theorem lookup_mem {s : NameSet} {n : Str} {e : NameObj} (h : lookup s n = some e) : e ∈ s :=
  List.mem_of_find?_eq_some h

theorem lookup_none {s : NameSet} {n : Str} (h : lookup s n = none) : ∀ e ∈ s, e.str ≠ n := by
  intro e he
  have := List.find?_eq_none.mp h e he
  simpa using this

theorem writeStep_str (b : Bool) (s : NameSet) (req : NameObj) : (writeStep b s req).2.str = req.str := by
  unfold writeStep
  cases b with
  | false => simp
  | true =>
    simp only [if_true]
    cases h : lookup (insertIfAbsent s req) req.str with
    | none => simp
    | some e => simpa using lookup_str h

theorem getAtomic_str (b : Bool) (s : NameSet) (req : NameObj) : (getAtomic b s req).2.str = req.str := by
  unfold getAtomic
  split
  · rename_i e h; exact lookup_str h
  · exact writeStep_str b s req

/-- no two elements of the set carry the same text -/
def SetOK (s : NameSet) : Prop := s.Pairwise (fun a b => a.str ≠ b.str)

theorem insertIfAbsent_ok {s : NameSet} (h : SetOK s) (x : NameObj) : SetOK (insertIfAbsent s x) := by
  unfold insertIfAbsent
  split
  · exact h
  · rename_i hn
    exact List.pairwise_cons.mpr ⟨fun e he => fun heq => lookup_none hn e he heq.symm, h⟩

theorem insertIfAbsent_mem {s : NameSet} {x e : NameObj} (h : e ∈ insertIfAbsent s x) : e ∈ s ∨ e = x := by
  unfold insertIfAbsent at h
  split at h
  · exact Or.inl h
  · rcases List.mem_cons.mp h with h | h
    · exact Or.inr h
    · exact Or.inl h

theorem insertIfAbsent_sub {s : NameSet} {x e : NameObj} (h : e ∈ s) : e ∈ insertIfAbsent s x := by
  unfold insertIfAbsent
  split
  · exact h
  · exact List.mem_cons_of_mem _ h

/-! ## folds whose steps commute are invariant under permutation -/

theorem foldl_perm {α β : Type} (f : β → α → β) {l₁ l₂ : List α} (p : l₁.Perm l₂)
    (comm : ∀ x ∈ l₁, ∀ y ∈ l₁, ∀ z, f (f z x) y = f (f z y) x) (z : β) :
    l₁.foldl f z = l₂.foldl f z := by
  induction p generalizing z with
  | nil => rfl
  | cons x _ ih =>
    simp only [List.foldl_cons]
    exact ih (fun a ha b hb => comm a (List.mem_cons_of_mem _ ha) b (List.mem_cons_of_mem _ hb)) _
  | swap x y l =>
    simp only [List.foldl_cons]
    rw [comm y (by simp) x (by simp)]
  | trans p₁ _ ih₁ ih₂ =>
    rw [ih₁ comm z]
    exact ih₂ (fun a ha b hb => comm a (p₁.mem_iff.mpr ha) b (p₁.mem_iff.mpr hb)) z

/-- two members of a list with pairwise distinct images are equal or have different images -/
theorem eq_or_ne_of_nodup_map {α β : Type} (f : α → β) {l : List α} (h : (l.map f).Nodup)
    {a b : α} (ha : a ∈ l) (hb : b ∈ l) : a = b ∨ f a ≠ f b := by
  induction l with
  | nil => simp at ha
  | cons c cs ih =>
    simp only [List.map_cons, List.nodup_cons, List.mem_map, not_exists, not_and] at h
    simp only [List.mem_cons] at ha hb
    rcases ha with rfl | ha <;> rcases hb with rfl | hb
    · exact Or.inl rfl
    · exact Or.inr (fun e => h.1 b hb e.symm)
    · exact Or.inr (fun e => h.1 a ha e)
    · exact ih h.2 ha hb

/-! ## the collector -/

theorem insertView_comm (m : LayerMap) (a b : View) (h : a = b ∨ a.name ≠ b.name) :
    insertView (insertView m a) b = insertView (insertView m b) a := by
  rcases h with rfl | h
  · rfl
  · funext k
    simp only [insertView]
    by_cases h1 : k = b.name
    · by_cases h2 : k = a.name
      · exact absurd (h2.symm.trans h1) h
      · simp [h1, Ne.symm h]
    · by_cases h2 : k = a.name
      · simp [h2, h]
      · simp [h1, h2]

theorem all_perm {α : Type} (p : α → Bool) {l₁ l₂ : List α} (h : l₁.Perm l₂) : l₁.all p = l₂.all p := by
  rw [Bool.eq_iff_iff]
  simp only [List.all_eq_true]
  exact ⟨fun H x hx => H x (h.mem_iff.mpr hx), fun H x hx => H x (h.mem_iff.mp hx)⟩

/-- the collected map depends only on the multiset of handed-over items, provided glyph names are
    pairwise distinct -/
theorem layerOf_perm {l₁ l₂ : List IView} (h : l₁.Perm l₂)
    (nd : ((l₁.filterMap IView.glyph?).map View.name).Nodup) : layerOf l₁ = layerOf l₂ := by
  unfold layerOf
  rw [all_perm _ h]
  split
  · congr 1
    apply foldl_perm _ (h.filterMap _)
    intro x hx y hy z
    exact insertView_comm z x y (eq_or_ne_of_nodup_map View.name nd hx hy)
  · rfl

/-! ## the collector as a sorted list (what `BTreeMap` iteration shows) -/

/-- the order of `Name` (byte-wise comparison of the text) as a Boolean test; the theorems need only that
    it is a strict total order -/
structure StrictTotal (lt : Str → Str → Bool) : Prop where
  irrefl : ∀ a, lt a a = false
  trans : ∀ a b c, lt a b = true → lt b c = true → lt a c = true
  tri : ∀ a b, a = b ∨ lt a b = true ∨ lt b a = true

theorem StrictTotal.asymm {lt : Str → Str → Bool} (h : StrictTotal lt) {a b : Str} (hab : lt a b = true) :
    lt b a = false := by
  cases hba : lt b a with
  | false => rfl
  | true =>
    have := h.trans a b a hab hba
    rw [h.irrefl] at this
    exact absurd this (by decide)

theorem StrictTotal.ne {lt : Str → Str → Bool} (h : StrictTotal lt) {a b : Str} (hab : lt a b = true) : a ≠ b := by
  intro e; subst e; rw [h.irrefl] at hab; exact absurd hab (by decide)

theorem lexLt_strictTotal : StrictTotal lexLt where
  irrefl a := by simp [lexLt, List.lt_irrefl]
  trans a b c h1 h2 := by
    simp only [lexLt, decide_eq_true_eq] at *
    exact List.lt_trans h1 h2
  tri a b := by
    simp only [lexLt, decide_eq_true_eq]
    by_cases h1 : a < b
    · exact Or.inr (Or.inl h1)
    · by_cases h2 : b < a
      · exact Or.inr (Or.inr h2)
      · exact Or.inl (List.le_antisymm (List.not_lt.mp h2) (List.not_lt.mp h1))

set_option linter.unusedSimpArgs false in
theorem insertSorted_comm {lt : Str → Str → Bool} (h : StrictTotal lt) (a b : View) (hne : a.name ≠ b.name)
    (m : List View) :
    insertSorted lt a (insertSorted lt b m) = insertSorted lt b (insertSorted lt a m) := by
  have hne' : b.name ≠ a.name := Ne.symm hne
  induction m with
  | nil =>
    rcases h.tri a.name b.name with e | l | g
    · exact absurd e hne
    · simp [insertSorted, l, h.asymm l, hne, hne']
    · simp [insertSorted, g, h.asymm g, hne, hne']
  | cons w r ih =>
    rcases h.tri a.name b.name with e | lab | lba
    · exact absurd e hne
    · -- a < b
      have nba := h.asymm lab
      rcases h.tri a.name w.name with eaw | law | lwa
      · -- a = w, hence w < b
        have lwb : lt w.name b.name = true := eaw ▸ lab
        have nbw := h.asymm lwb
        have nwb : b.name ≠ w.name := fun e => hne (eaw.trans e.symm)
        simp [insertSorted, eaw, h.irrefl, lwb, nbw, nwb, Ne.symm nwb]
      · -- a < w
        rcases h.tri b.name w.name with ebw | lbw | lwb
        · simp [insertSorted, law, ebw, h.irrefl, h.asymm law, lab, nba, hne, hne', h.ne law]
          simp [← ebw, lab, nba, hne, hne', insertSorted]
        · simp [insertSorted, law, lbw, lab, nba, hne, hne', h.asymm law, h.asymm lbw, h.ne law, h.ne lbw]
        · simp [insertSorted, law, lwb, lab, nba, hne, hne', h.asymm law, h.asymm lwb, h.ne law,
            Ne.symm (h.ne lwb)]
      · -- w < a < b
        have lwb := h.trans _ _ _ lwa lab
        simp [insertSorted, lwa, lwb, h.asymm lwa, h.asymm lwb, Ne.symm (h.ne lwa), Ne.symm (h.ne lwb), ih]
    · -- b < a
      have nab := h.asymm lba
      rcases h.tri b.name w.name with ebw | lbw | lwb
      · have lwa : lt w.name a.name = true := ebw ▸ lba
        have naw := h.asymm lwa
        have nwa : a.name ≠ w.name := fun e => hne' (ebw.trans e.symm)
        simp [insertSorted, ebw, h.irrefl, lwa, naw, nwa, Ne.symm nwa]
      · rcases h.tri a.name w.name with eaw | law | lwa
        · simp [insertSorted, lbw, eaw, h.irrefl, h.asymm lbw, lba, nab, hne, hne', h.ne lbw]
          simp [← eaw, lba, nab, hne, hne', insertSorted]
        · simp [insertSorted, law, lbw, lba, nab, hne, hne', h.asymm law, h.asymm lbw, h.ne law, h.ne lbw]
        · simp [insertSorted, lbw, lwa, lba, nab, hne, hne', h.asymm lbw, h.asymm lwa, h.ne lbw,
            Ne.symm (h.ne lwa)]
      · have lwa := h.trans _ _ _ lwb lba
        simp [insertSorted, lwa, lwb, h.asymm lwa, h.asymm lwb, Ne.symm (h.ne lwa), Ne.symm (h.ne lwb), ih]


/-- the sorted collector too depends only on the multiset of items (glyph names pairwise distinct) -/
theorem sortedLayerOf_perm {lt : Str → Str → Bool} (h : StrictTotal lt) {l₁ l₂ : List IView} (hp : l₁.Perm l₂)
    (nd : ((l₁.filterMap IView.glyph?).map View.name).Nodup) : sortedLayerOf lt l₁ = sortedLayerOf lt l₂ := by
  unfold sortedLayerOf
  rw [all_perm _ hp]
  split
  · congr 1
    apply foldl_perm _ (hp.filterMap _)
    intro x hx y hy z
    rcases eq_or_ne_of_nodup_map View.name nd hx hy with rfl | hne
    · rfl
    · exact insertSorted_comm h y x (Ne.symm hne) z
  · rfl

/-! ## tasks -/

/-- the names handed out so far, the request waiting for the write lock and the requests not yet
    started are together the requests of the file, and every name handed out equals its request -/
def JobOK (j : Job) : Prop :=
  j.got.map (·.str) ++ (j.wr.map (·.str)).toList ++ j.todo = j.file.reqs

def WOK (w : Worker) : Prop := ∀ j, w.cur = some j → JobOK j

theorem jobOK_new (f : File) : JobOK (Job.new f) := by simp [JobOK, Job.new]

theorem buildItem_view {f : File} {got : List NameObj} (h : got.map (·.str) = f.reqs) :
    (buildItem f got).view = f.expect := by
  unfold buildItem File.expect
  split
  · rfl
  · match got, h with
    | k :: a :: cs, h =>
      simp only [File.reqs, List.map_cons, List.cons.injEq] at h
      simp [Item.view, Glyph.view, File.view, h.1, h.2.2]
    | [], h => simp [File.reqs] at h
    | [_], h => simp [File.reqs] at h

/-- what is still owed by a worker: its task in progress and its queue -/
def pending (w : Worker) : List IView := (w.cur.map (·.file.expect)).toList ++ w.rest.map File.expect

/-- one step of a worker: tasks are conserved (what it appends to the collector plus what it still owes
    is what it owed before), its task stays well-formed -/
theorem worker_step (b : Bool) (w : Worker) (sh : Shared) (hw : WOK w) :
    WOK (w.step b sh).1 ∧
    ∃ extra, (w.step b sh).2.out = sh.out ++ extra ∧
      extra.map Item.view ++ pending (w.step b sh).1 = pending w := by
  obtain ⟨cur, rest⟩ := w
  cases cur with
  | none =>
    cases rest with
    | nil => exact ⟨by simpa [Worker.step] using hw, [], by simp [Worker.step]⟩
    | cons f r =>
      refine ⟨?_, [], by simp [Worker.step, pending, Job.new]⟩
      intro j hj
      simp only [Worker.step, Option.some.injEq] at hj
      subst hj
      exact jobOK_new f
  | some j =>
    have hj : JobOK j := hw j rfl
    obtain ⟨file, todo, wr, got⟩ := j
    cases wr with
    | some req =>
      refine ⟨?_, [], by simp [Worker.step, pending]⟩
      intro j' hj'
      simp only [Worker.step, Option.some.injEq] at hj'
      subst hj'
      simp only [JobOK, Option.map_some, Option.toList_some] at hj
      simp only [JobOK, List.map_append, List.map_cons, List.map_nil, Option.map_none, Option.toList_none,
        List.append_nil, writeStep_str]
      simpa using hj
    | none =>
      cases todo with
      | cons n t =>
        simp only [JobOK, Option.map_none, Option.toList_none, List.append_nil] at hj
        cases hl : lookup sh.set n with
        | some e =>
          refine ⟨?_, [], by simp [Worker.step, pending, hl]⟩
          intro j' hj'
          simp only [Worker.step, hl, Option.some.injEq] at hj'
          subst hj'
          simp only [JobOK, List.map_append, List.map_cons, List.map_nil, Option.map_none,
            Option.toList_none, List.append_nil, lookup_str hl]
          simpa using hj
        | none =>
          refine ⟨?_, [], by simp [Worker.step, pending, hl]⟩
          intro j' hj'
          simp only [Worker.step, hl, Option.some.injEq] at hj'
          subst hj'
          simp only [JobOK, Option.map_some, Option.toList_some]
          simpa using hj
      | nil =>
        simp only [JobOK, Option.map_none, Option.toList_none, List.append_nil] at hj
        refine ⟨by intro j' hj'; simp [Worker.step] at hj', [buildItem file got], by simp [Worker.step], ?_⟩
        simp only [Worker.step, pending, List.map_cons, List.map_nil, Option.map_none, Option.toList_none,
          List.nil_append, Option.map_some, Option.toList_some]
        rw [buildItem_view hj]

def owed (ws : List Worker) : List IView := ws.flatMap pending

theorem stepAt_inv (b : Bool) (i : Nat) (ws : List Worker) (sh : Shared) (hw : ∀ w ∈ ws, WOK w) :
    (∀ w ∈ (stepAt b i ws sh).1, WOK w) ∧
    ∃ extra, (stepAt b i ws sh).2.out = sh.out ++ extra ∧
      (extra.map Item.view ++ owed (stepAt b i ws sh).1).Perm (owed ws) := by
  induction ws generalizing i with
  | nil => exact ⟨by simp [stepAt], [], by simp [stepAt], by simp [stepAt, owed]⟩
  | cons w r ih =>
    cases i with
    | zero =>
      obtain ⟨h1, extra, h2, h3⟩ := worker_step b w sh (hw w (by simp))
      refine ⟨?_, extra, h2, ?_⟩
      · intro w' hw'
        simp only [stepAt, List.mem_cons] at hw'
        rcases hw' with rfl | hw'
        · exact h1
        · exact hw w' (by simp [hw'])
      · simp only [stepAt, owed, List.flatMap_cons]
        rw [← List.append_assoc, h3]
    | succ i =>
      obtain ⟨h1, extra, h2, h3⟩ := ih i (fun w' hw' => hw w' (by simp [hw']))
      refine ⟨?_, extra, h2, ?_⟩
      · intro w' hw'
        simp only [stepAt, List.mem_cons] at hw'
        rcases hw' with rfl | hw'
        · exact hw _ (by simp)
        · exact h1 w' hw'
      · simp only [stepAt, owed, List.flatMap_cons]
        have : (extra.map Item.view ++ (pending w ++ List.flatMap pending (stepAt b i r sh).1)).Perm
            (pending w ++ (extra.map Item.view ++ List.flatMap pending (stepAt b i r sh).1)) := by
          rw [← List.append_assoc, ← List.append_assoc]
          exact List.Perm.append_right _ List.perm_append_comm
        exact this.trans (List.Perm.append_left _ h3)

/-- what has been handed over plus what is still owed -/
def St.ledger (st : St) : List IView := st.sh.out.map Item.view ++ owed st.ws

def St.ok (st : St) : Prop := ∀ w ∈ st.ws, WOK w

theorem step_inv (b : Bool) (st : St) (i : Nat) (h : st.ok) :
    (st.step b i).ok ∧ (st.step b i).ledger.Perm st.ledger := by
  obtain ⟨h1, extra, h2, h3⟩ := stepAt_inv b i st.ws st.sh h
  refine ⟨h1, ?_⟩
  simp only [St.ledger, St.step, h2, List.map_append, List.append_assoc]
  exact List.Perm.append_left _ h3

theorem run_inv (b : Bool) (sched : List Nat) (st : St) (h : st.ok) :
    (run b sched st).ok ∧ (run b sched st).ledger.Perm st.ledger := by
  induction sched generalizing st with
  | nil => exact ⟨h, List.Perm.refl _⟩
  | cons i t ih =>
    obtain ⟨h1, h2⟩ := step_inv b st i h
    obtain ⟨h3, h4⟩ := ih (st.step b i) h1
    exact ⟨h3, h4.trans h2⟩

theorem owed_done {ws : List Worker} (h : ws.all Worker.done = true) : owed ws = [] := by
  induction ws with
  | nil => rfl
  | cons w r ih =>
    simp only [List.all_cons, Bool.and_eq_true] at h
    obtain ⟨cur, rest⟩ := w
    simp only [Worker.done, Bool.and_eq_true, Option.isNone_iff_eq_none, List.isEmpty_iff] at h
    obtain ⟨⟨rfl, rfl⟩, h2⟩ := h
    simp only [owed, List.flatMap_cons] at ih ⊢
    rw [ih h2]
    simp [pending]

theorem init_ok (s0 : NameSet) (n0 : Nat) (assign : List (List File)) : (St.init s0 n0 assign).ok := by
  intro w hw j hj
  simp only [St.init, List.mem_map] at hw
  obtain ⟨fs, _, rfl⟩ := hw
  simp at hj

theorem init_ledger (s0 : NameSet) (n0 : Nat) (assign : List (List File)) :
    (St.init s0 n0 assign).ledger = assign.flatten.map File.expect := by
  simp only [St.ledger, St.init, List.map_nil, List.nil_append, owed]
  induction assign with
  | nil => rfl
  | cons fs r ih => simp [List.flatMap_cons, pending, ih]

/-- **conservation**: when every worker is done, the collector holds, in some order, exactly one item per
    file, and that item is the one the file calls for -/
theorem done_out_perm (b : Bool) (s0 : NameSet) (n0 : Nat) (assign : List (List File)) (sched : List Nat)
    (hd : (run b sched (St.init s0 n0 assign)).allDone = true) :
    ((run b sched (St.init s0 n0 assign)).sh.out.map Item.view).Perm (assign.flatten.map File.expect) := by
  obtain ⟨_, h2⟩ := run_inv b sched _ (init_ok s0 n0 assign)
  rw [init_ledger] at h2
  simp only [St.ledger, owed_done hd, List.append_nil] at h2
  exact h2

/-! ## the shared set under any schedule -/

theorem worker_step_set (b : Bool) (w : Worker) (sh : Shared) :
    (w.step b sh).2.set = sh.set ∨ ∃ req, (w.step b sh).2.set = insertIfAbsent sh.set req := by
  obtain ⟨cur, rest⟩ := w
  cases cur with
  | none => cases rest <;> simp [Worker.step]
  | some j =>
    obtain ⟨file, todo, wr, got⟩ := j
    cases wr with
    | some req => exact Or.inr ⟨req, by simp [Worker.step, writeStep]⟩
    | none =>
      cases todo with
      | nil => simp [Worker.step]
      | cons n t =>
        cases hl : lookup sh.set n <;> simp [Worker.step, hl]

theorem stepAt_set (b : Bool) (i : Nat) (ws : List Worker) (sh : Shared) :
    (stepAt b i ws sh).2.set = sh.set ∨ ∃ req, (stepAt b i ws sh).2.set = insertIfAbsent sh.set req := by
  induction ws generalizing i with
  | nil => simp [stepAt]
  | cons w r ih =>
    cases i with
    | zero => simpa [stepAt] using worker_step_set b w sh
    | succ i => simpa [stepAt] using ih i

/-- whatever is preserved by `HashSet::insert` is preserved by every schedule -/
theorem run_set_invariant (P : NameSet → Prop) (hP : ∀ s req, P s → P (insertIfAbsent s req))
    (b : Bool) (sched : List Nat) (st : St) (h : P st.sh.set) : P (run b sched st).sh.set := by
  induction sched generalizing st with
  | nil => exact h
  | cons i t ih =>
    apply ih
    rcases stepAt_set b i st.ws st.sh with e | ⟨req, e⟩
    · simpa [St.step, e] using h
    · simpa [St.step, e] using hP _ req h

/-! ## the sequential build -/

theorem internAll_strs (b : Bool) (s : NameSet) (nx : Nat) (l : List Str) :
    (internAll b s nx l).2.2.map (·.str) = l := by
  induction l generalizing s nx with
  | nil => rfl
  | cons n t ih => simp [internAll, getAtomic_str, ih]

theorem seqItems_views (b : Bool) (s : NameSet) (nx : Nat) (files : List File) :
    (seqItems b s nx files).2.2.map Item.view = files.map File.expect := by
  induction files generalizing s nx with
  | nil => rfl
  | cons f fs ih => simp [seqItems, buildItem_view (internAll_strs b s nx f.reqs), ih]

/-! ## the expected items of files with distinct keys have distinct glyph names -/

theorem expect_names_sublist (files : List File) :
    (((files.map File.expect).filterMap IView.glyph?).map View.name).Sublist (files.map File.key) := by
  induction files with
  | nil => simp
  | cons f fs ih =>
    simp only [List.map_cons, File.expect]
    by_cases hb : f.bad = true
    · simp only [hb, if_true, List.filterMap_cons, IView.glyph?]
      exact ih.trans (List.sublist_cons_self _ _)
    · simp only [hb, List.filterMap_cons, IView.glyph?, File.view]
      exact ih.cons_cons _

end Par
