import Norad.Spec.C20
import Norad.Lemmas.C11
