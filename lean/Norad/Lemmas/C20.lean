import Norad.Spec.C20
import Norad.Lemmas.C11
/-! Helper lemmas for C20 (the property theorems live in `Props/C20.lean`). -/
namespace C20
open C11 (PT trailOffs)

variable {α : Type}

/-! ### the loop against the segment specification -/

theorem qcurveLoop_eq_quads (mid : α → α → α) (a : α) (offs : List α) (e : α) :
    qcurveLoop mid (a :: offs) e = quads mid (a :: offs) e := by
  induction offs generalizing a with
  | nil => rfl
  | cons b r ih => simp [qcurveLoop, quads, ih]

theorem qcurveArm_eq_quads (mid : α → α → α) (offs : List α) (e : α) :
    qcurveArm mid offs e = quads mid offs e := by
  cases offs with
  | nil => simp [qcurveArm, qcurveLoop, quads]
  | cons a r => simp [qcurveArm, qcurveLoop_eq_quads]

/-- well-formedness of a segment, as guaranteed by C11's `Legal` -/
def SegOK (s : List α × Pt α) : Prop :=
  (s.2.typ = .line ∨ s.2.typ = .move → s.1 = []) ∧ (s.2.typ = .curve → s.1.length ≤ 2)

theorem curveArm_eq_spec (mid : α → α → α) (offs : List α) (p : Pt α) (ht : p.typ = .curve)
    (h : offs.length ≤ 2) : curveArm offs p.pos = .ok (specEls mid (offs, p)) := by
  unfold curveArm specEls
  match offs, h with
  | [], _ => simp [ht]
  | [a], _ => simp [ht]
  | [a, b], _ => simp [ht]
  | _ :: _ :: _ :: _, h3 => simp at h3

/-- the queue-driven loop draws exactly the segment specification -/
theorem go_eq_spec (mid : α → α → α) (ps : List (Pt α)) (offs : List α)
    (h : ∀ s ∈ segments offs ps, SegOK s) :
    go mid offs ps = .ok ((segments offs ps).flatMap (specEls mid)) := by
  induction ps generalizing offs with
  | nil => simp [go, segments]
  | cons p ps ih =>
    by_cases hp : p.typ = .off
    · have hs : segments offs (p :: ps) = segments (offs ++ [p.pos]) ps := by simp [segments, hp]
      rw [hs] at h ⊢
      have := ih (offs ++ [p.pos]) h
      unfold go; simp [hp, this]
    · have hs : segments offs (p :: ps) = (offs, p) :: segments [] ps := by simp [segments, hp]
      rw [hs] at h ⊢
      have h0 : SegOK (offs, p) := h _ (by simp)
      have hrest := ih [] (fun s hs' => h s (by simp [hs']))
      simp only [List.flatMap_cons]
      cases ht : p.typ with
      | off => exact absurd ht hp
      | curve =>
        have hc := curveArm_eq_spec mid offs p ht (h0.2 ht)
        unfold go; simp [ht, hc, hrest, prepend]
      | qcurve =>
        unfold go
        simp [ht, hrest, prepend, qcurveArm_eq_quads, specEls]
      | move =>
        have hoff : offs = [] := h0.1 (Or.inr ht)
        subst hoff
        unfold go; simp [ht, hrest, prepend, specEls]
      | line =>
        have hoff : offs = [] := h0.1 (Or.inl ht)
        subst hoff
        unfold go; simp [ht, hrest, prepend, specEls]

/-- leading off-curves just fill the queue -/
theorem segments_offs_prefix (post rest : List (Pt α)) (offs : List α)
    (h : ∀ q ∈ post, q.typ = .off) :
    segments offs (post ++ rest) = segments (offs ++ post.map (·.pos)) rest := by
  induction post generalizing offs with
  | nil => simp
  | cons q qs ih =>
    have hq := h q (by simp)
    simp only [List.cons_append, segments, hq, if_true]
    rw [ih _ (fun r hr => h r (by simp [hr]))]
    simp

/-- one segment per on-curve point, in order -/
theorem segments_endpoints (ps : List (Pt α)) (offs : List α) :
    (segments offs ps).map (·.2) = ps.filter (fun p => p.typ != .off) := by
  induction ps generalizing offs with
  | nil => simp [segments]
  | cons p ps ih =>
    by_cases hp : p.typ = .off
    · simp [segments, hp, ih]
    · simp [segments, hp, ih]

/-- no point is lost: off-curves and end points of the segments, in order, are the input -/
theorem segments_cover (ps : List (Pt α)) (offs : List α)
    (hlast : ∀ q, ps.getLast? = some q → q.typ ≠ .off) (hne : ps = [] → offs = []) :
    (segments offs ps).flatMap (fun s => s.1 ++ [s.2.pos]) = offs ++ ps.map (·.pos) := by
  induction ps generalizing offs with
  | nil => simp [segments, hne rfl]
  | cons p ps ih =>
    by_cases hp : p.typ = .off
    · have hps : ps ≠ [] := by
        intro hc; subst hc
        exact (hlast p (by simp)) hp
      have := ih (offs ++ [p.pos])
        (fun q hq => hlast q (by
          cases ps with
          | nil => exact absurd rfl hps
          | cons r rs => simpa [List.getLast?_cons_cons] using hq))
        (fun hc => absurd hc hps)
      simp [segments, hp, this]
    · have := ih []
        (fun q hq => hlast q (by
          cases ps with
          | nil => simp at hq
          | cons r rs => simpa [List.getLast?_cons_cons] using hq))
        (fun _ => rfl)
      simp [segments, hp, this]

/-- the length of the queue at every on-curve point is C11's run of off-curves before it -/
theorem segments_run (w : List (Pt α)) (offs : List α) (pre0 : List C11.Pt)
    (h0 : offs.length = trailOffs pre0) :
    ∀ s ∈ segments offs w, ∃ a b, w = a ++ s.2 :: b ∧ s.2.typ ≠ .off ∧
      s.1.length = trailOffs (pre0 ++ a.map (·.base)) := by
  induction w generalizing offs pre0 with
  | nil => simp [segments]
  | cons p ps ih =>
    intro s hs
    by_cases hp : p.typ = .off
    · simp only [segments, hp, if_true] at hs
      have h1 : (offs ++ [p.pos]).length = trailOffs (pre0 ++ [p.base]) := by
        rw [C11.trailOffs_snoc]; simp [hp, h0]
      obtain ⟨a, b, hab, hso, hlen⟩ := ih (offs ++ [p.pos]) (pre0 ++ [p.base]) h1 s hs
      exact ⟨p :: a, b, by simp [hab], hso, by simpa using hlen⟩
    · simp only [segments, hp, if_false, List.mem_cons] at hs
      rcases hs with rfl | hs
      · exact ⟨[], ps, rfl, hp, by simpa using h0⟩
      · have h1 : ([] : List α).length = trailOffs (pre0 ++ [p.base]) := by
          rw [C11.trailOffs_snoc]; simp [hp]
        obtain ⟨a, b, hab, hso, hlen⟩ := ih [] (pre0 ++ [p.base]) h1 s hs
        exact ⟨p :: a, b, by simp [hab], hso, by simpa using hlen⟩

/-! ### the split at the last on-curve point, and the rotation of `to_kurbo` -/

theorem splitLastOn_some (pts pre post : List (Pt α)) (s : Pt α)
    (h : splitLastOn pts = some (pre, s, post)) :
    pts = pre ++ s :: post ∧ s.typ ≠ .off ∧ ∀ q ∈ post, q.typ = .off := by
  induction pts generalizing pre with
  | nil => simp [splitLastOn] at h
  | cons p ps ih =>
    simp only [splitLastOn] at h
    cases hr : splitLastOn ps with
    | some t =>
      obtain ⟨pre', s', post'⟩ := t
      simp only [hr, Option.some.injEq, Prod.mk.injEq] at h
      obtain ⟨rfl, rfl, rfl⟩ := h
      obtain ⟨h1, h2, h3⟩ := ih pre' hr
      exact ⟨by simp [h1], h2, h3⟩
    | none =>
      simp only [hr] at h
      by_cases hp : p.typ = .off
      · simp [hp] at h
      · simp only [hp, if_false, Option.some.injEq, Prod.mk.injEq] at h
        obtain ⟨rfl, rfl, rfl⟩ := h
        refine ⟨by simp, hp, ?_⟩
        -- `splitLastOn ps = none` means all of `ps` are off-curves
        clear ih
        induction ps with
        | nil => simp
        | cons q qs ihq =>
          simp only [splitLastOn] at hr
          cases hr2 : splitLastOn qs with
          | some t => simp [hr2] at hr
          | none =>
            simp only [hr2] at hr
            by_cases hq : q.typ = .off
            · intro r hr'
              simp at hr'
              rcases hr' with rfl | hr'
              · exact hq
              · exact ihq hr2 r hr'
            · simp [hq] at hr

theorem splitLastOn_none (pts : List (Pt α)) (h : splitLastOn pts = none) :
    ∀ q ∈ pts, q.typ = .off := by
  induction pts with
  | nil => simp
  | cons p ps ih =>
    simp only [splitLastOn] at h
    cases hr : splitLastOn ps with
    | some t => obtain ⟨a, b, c⟩ := t; simp [hr] at h
    | none =>
      simp only [hr] at h
      by_cases hp : p.typ = .off
      · intro q hq
        simp at hq
        rcases hq with rfl | hq
        · exact hp
        · exact ih hr q hq
      · simp [hp] at h

theorem findIdx?_all_false {β : Type} (p : β → Bool) (l : List β) (h : ∀ q ∈ l, p q = false) :
    l.findIdx? p = none := by
  rw [List.findIdx?_eq_none_iff]
  exact h

theorem rotateIdx_none (pts : List (Pt α)) (h : ∀ q ∈ pts, q.typ = .off) : rotateIdx pts = none := by
  unfold rotateIdx
  rw [findIdx?_all_false]
  intro q hq
  simp at hq
  simp [h q hq]

theorem rotateIdx_split (pre post : List (Pt α)) (s : Pt α) (hs : s.typ ≠ .off)
    (hpost : ∀ q ∈ post, q.typ = .off) :
    rotateIdx (pre ++ s :: post) = some pre.length := by
  unfold rotateIdx
  have hrev : (pre ++ s :: post).reverse = post.reverse ++ s :: pre.reverse := by simp
  have hidx : (post.reverse ++ s :: pre.reverse).findIdx? (fun p => p.typ != .off) = some post.length := by
    rw [List.findIdx?_append]
    rw [findIdx?_all_false _ post.reverse (by intro q hq; simp at hq; simp [hpost q hq])]
    simp [List.findIdx?_cons, hs]
  rw [hrev, hidx]
  simp

theorem cycleSkipTake_split (pre post : List (Pt α)) (s : Pt α) :
    cycleSkipTake (pre ++ s :: post) pre.length ((pre ++ s :: post).length + 1)
      = s :: (post ++ pre ++ [s]) := by
  unfold cycleSkipTake
  have h1 : ((pre ++ s :: post) ++ (pre ++ s :: post)).drop pre.length
      = (s :: (post ++ pre ++ [s])) ++ post := by
    rw [List.append_assoc, List.drop_left']
    · simp
    · rfl
  rw [h1, List.take_left']
  simp
  omega

theorem cycleSkipTake_zero (pts : List (Pt α)) : cycleSkipTake pts 0 pts.length = pts := by
  unfold cycleSkipTake
  simp

theorem isClosed_eq (pts : List (Pt α)) : isClosed pts = C11.isClosed (pts.map (·.base)) := by
  cases pts with
  | nil => rfl
  | cons p ps => simp only [isClosed, C11.isClosed, Pt.typ, List.map_cons]; cases p.base.typ <;> decide

/-! ### closed contour of off-curves only -/

theorem allOff_zip (mid : α → α → α) (x : Pt α) (a : Pt α) (l : List (Pt α)) (last : Pt α)
    (hl : (a :: l).getLast? = some last) :
    ((a :: l).zip (l ++ [x])).map (fun pn => El.quadTo pn.1.pos (mid pn.1.pos pn.2.pos))
      = quads mid ((a :: l).map (·.pos)) (mid last.pos x.pos) := by
  induction l generalizing a with
  | nil => simp at hl; subst hl; simp [quads]
  | cons b r ih =>
    rw [List.getLast?_cons_cons] at hl
    have := ih b hl
    simp only [List.cons_append, List.zip_cons_cons, List.map_cons] at this ⊢
    rw [this]
    simp [quads]

/-! ### legality gives well-formed segments -/

/-- what `Legal` guarantees of every segment of the outline -/
def SegGood (s : List α × Pt α) : Prop :=
  SegOK s ∧ s.2.typ ≠ .off ∧ s.2.typ ≠ .move

theorem open_segGood (m : Pt α) (rest : List (Pt α)) (hm : m.typ = .move)
    (hl : C11.LinearOK ((m :: rest).map (·.base))) :
    ∀ s ∈ segments [] rest, SegGood s := by
  intro s hs
  have hm' : m.base.typ = .move := hm
  have h0 : ([] : List α).length = trailOffs [m.base] := by
    have := C11.trailOffs_snoc [] m.base
    simp [hm'] at this
    simp [this]
  obtain ⟨a, b, hab, hso, hlen⟩ := segments_run rest [] [m.base] h0 s hs
  have hpt := hl (m.base :: a.map (·.base)) s.2.base (b.map (·.base)) (by simp [hab])
  obtain ⟨hmv, hline, hcurve, _⟩ := hpt
  have hnm : s.2.typ ≠ .move := fun hc => by simpa using hmv hc
  refine ⟨⟨?_, ?_⟩, hso, hnm⟩
  · rintro (hc | hc)
    · have := hline hc
      simp only [List.singleton_append] at hlen
      exact List.eq_nil_of_length_eq_zero (by omega)
    · exact absurd hc hnm
  · intro hc
    have := hcurve hc
    simp only [List.singleton_append] at hlen
    omega

theorem closed_segGood (pre post : List (Pt α)) (s : Pt α) (hs : s.typ ≠ .off)
    (hpost : ∀ q ∈ post, q.typ = .off)
    (hc : C11.isClosed ((pre ++ s :: post).map (·.base)) = true)
    (hl : C11.LinearOK ((pre ++ s :: post).map (·.base)))
    (hcy : C11.CyclicOK ((pre ++ s :: post).map (·.base))) :
    ∀ t ∈ segments [] (post ++ pre ++ [s]), SegGood t := by
  intro t ht
  rw [List.append_assoc, segments_offs_prefix post (pre ++ [s]) [] hpost] at ht
  have hs' : s.base.typ ≠ .off := hs
  have hB : (pre ++ s :: post).map (·.base)
      = (pre.map (·.base) ++ [s.base]) ++ post.map (·.base) := by simp
  have h0 : (([] : List α) ++ post.map (fun q => q.pos)).length
      = trailOffs ((pre ++ s :: post).map (·.base)) := by
    rw [hB, C11.trailOffs_append_offs _ _ (by
      intro q hq
      simp at hq
      obtain ⟨r, hr, rfl⟩ := hq
      exact hpost r hr), C11.trailOffs_snoc]
    simp [hs']
  obtain ⟨a, b, hab, hto, hlen⟩ :=
    segments_run (pre ++ [s]) (([] : List α) ++ post.map (fun q => q.pos)) _ h0 t ht
  have hsplit : (pre ++ s :: post).map (·.base)
      = a.map (·.base) ++ t.2.base :: (b ++ post).map (·.base) := by
    have : pre ++ s :: post = (pre ++ [s]) ++ post := by simp
    rw [this, hab]; simp
  obtain ⟨hline, hcurve⟩ := hcy _ _ _ hsplit
  have hnm : t.2.typ ≠ .move :=
    C11.closed_no_move _ hc hl t.2.base (by rw [hsplit]; simp)
  refine ⟨⟨?_, ?_⟩, hto, hnm⟩
  · rintro (h1 | h1)
    · have := hline h1
      exact List.eq_nil_of_length_eq_zero (by omega)
    · exact absurd h1 hnm
  · intro h1
    have := hcurve h1
    omega

/-! ### shape of what a segment draws -/

theorem quads_ne_nil (mid : α → α → α) (o : List α) (e : α) : quads mid o e ≠ [] := by
  match o with
  | [] => simp [quads]
  | [a] => simp [quads]
  | a :: b :: r => simp [quads]

theorem quads_last (mid : α → α → α) (o : List α) (e : α) :
    (quads mid o e).getLast?.bind El.endPt = some e := by
  induction o with
  | nil => simp [quads, El.endPt]
  | cons a r ih =>
    cases r with
    | nil => simp [quads, El.endPt]
    | cons b r' =>
      simp only [quads]
      rw [List.getLast?_cons_of_ne_nil (quads_ne_nil mid (b :: r') e)]
      exact ih

theorem quads_noMove (mid : α → α → α) (o : List α) (e : α) :
    ∀ x ∈ quads mid o e, x.isMove = false := by
  induction o with
  | nil => simp [quads, El.isMove]
  | cons a r ih =>
    cases r with
    | nil => simp [quads, El.isMove]
    | cons b r' =>
      intro x hx
      simp only [quads, List.mem_cons] at hx
      rcases hx with rfl | hx
      · rfl
      · exact ih x hx

theorem quads_sublist (mid : α → α → α) (o : List α) (e : α) :
    List.Sublist (o ++ [e]) ((quads mid o e).flatMap El.points) := by
  induction o with
  | nil => simp [quads, El.points]
  | cons a r ih =>
    cases r with
    | nil => simp [quads, El.points]
    | cons b r' =>
      simp only [quads, List.flatMap_cons, El.points, List.cons_append, List.nil_append]
      exact List.Sublist.cons_cons a (List.Sublist.cons _ (by simpa using ih))

theorem specEls_last (mid : α → α → α) (s : List α × Pt α) (h : s.2.typ ≠ .off) :
    (specEls mid s).getLast?.bind El.endPt = some s.2.pos := by
  obtain ⟨o, p⟩ := s
  unfold specEls
  simp only at h ⊢
  cases ht : p.typ with
  | off => exact absurd ht h
  | move => simp [El.endPt]
  | line => simp [El.endPt]
  | qcurve => simpa using quads_last mid o p.pos
  | curve =>
    match o with
    | [] => simp [El.endPt]
    | [a] => simp [El.endPt]
    | [a, b] => simp [El.endPt]
    | _ :: _ :: _ :: _ => simp [El.endPt]

theorem specEls_ne_nil (mid : α → α → α) (s : List α × Pt α) (h : s.2.typ ≠ .off) :
    specEls mid s ≠ [] := by
  intro hc
  have := specEls_last mid s h
  simp [hc] at this

theorem specEls_noMove (mid : α → α → α) (s : List α × Pt α) (h : s.2.typ ≠ .move) :
    ∀ x ∈ specEls mid s, x.isMove = false := by
  obtain ⟨o, p⟩ := s
  unfold specEls
  simp only at h ⊢
  cases ht : p.typ with
  | move => exact absurd ht h
  | off => simp
  | line => simp [El.isMove]
  | qcurve => simpa using quads_noMove mid o p.pos
  | curve =>
    match o with
    | [] => simp [El.isMove]
    | [a] => simp [El.isMove]
    | [a, b] => simp [El.isMove]
    | _ :: _ :: _ :: _ => simp [El.isMove]

theorem specEls_sublist (mid : α → α → α) (s : List α × Pt α) (h : SegGood s) :
    List.Sublist (s.1 ++ [s.2.pos]) ((specEls mid s).flatMap El.points) := by
  obtain ⟨o, p⟩ := s
  obtain ⟨⟨hl, hc⟩, hoff, hmv⟩ := h
  unfold specEls
  simp only at hl hc hoff hmv ⊢
  cases ht : p.typ with
  | move => exact absurd ht hmv
  | off => exact absurd ht hoff
  | line => simp [hl (Or.inl ht), El.points]
  | qcurve => simpa using quads_sublist mid o p.pos
  | curve =>
    have := hc ht
    match o, this with
    | [], _ => simp [El.points]
    | [a], _ => simp [El.points]
    | [a, b], _ => simp [El.points]
    | _ :: _ :: _ :: _, h3 => simp at h3

theorem flatMap_sublist {β γ : Type} (l : List β) (f g : β → List γ)
    (h : ∀ x ∈ l, List.Sublist (f x) (g x)) : List.Sublist (l.flatMap f) (l.flatMap g) := by
  induction l with
  | nil => simp
  | cons x xs ih =>
    simp only [List.flatMap_cons]
    exact List.Sublist.append (h x (by simp)) (ih (fun y hy => h y (by simp [hy])))

/-- the last segment of a walk that ends in an on-curve point is that point's -/
theorem segments_snoc (w : List (Pt α)) (s : Pt α) (offs : List α) (hs : s.typ ≠ .off) :
    ∃ o, segments offs (w ++ [s]) = segments offs w ++ [(o, s)] := by
  induction w generalizing offs with
  | nil => exact ⟨offs, by simp [segments, hs]⟩
  | cons p ps ih =>
    by_cases hp : p.typ = .off
    · obtain ⟨o, ho⟩ := ih (offs ++ [p.pos])
      exact ⟨o, by simp [segments, hp, ho]⟩
    · obtain ⟨o, ho⟩ := ih []
      exact ⟨o, by simp [segments, hp, ho]⟩

theorem getLast?_append_ne_nil {β : Type} (l₁ l₂ : List β) (h : l₂ ≠ []) :
    (l₁ ++ l₂).getLast? = l₂.getLast? := by
  rw [List.getLast?_append]
  cases h2 : l₂.getLast? with
  | none => rw [List.getLast?_eq_none_iff] at h2; exact absurd h2 h
  | some x => simp

/-! ### the executable rules of `Spec/C20.lean` -/

section oracle
variable (mid : α → α → α)

theorem quads_length (o : List α) (e : α) : (quads mid o e).length = max 1 o.length := by
  induction o with
  | nil => simp [quads]
  | cons a r ih =>
    cases r with
    | nil => simp [quads]
    | cons b r' => simp only [quads, List.length_cons] at ih ⊢; omega

theorem specEls_length (s : List α × Pt α) (h : SegGood s) : (specEls mid s).length = segWidth s := by
  obtain ⟨o, p⟩ := s
  obtain ⟨⟨hl, hc⟩, hoff, hmv⟩ := h
  unfold specEls segWidth
  simp only at hl hc hoff hmv ⊢
  cases ht : p.typ with
  | move => exact absurd ht hmv
  | off => exact absurd ht hoff
  | line => simp
  | qcurve => simpa using quads_length mid o p.pos
  | curve =>
    have := hc ht
    match o, this with
    | [], _ => simp
    | [a], _ => simp
    | [a, b], _ => simp
    | _ :: _ :: _ :: _, h3 => simp at h3

theorem chunks_flatMap {β γ : Type} (l : List β) (f : β → List γ) (w : β → Nat)
    (h : ∀ x ∈ l, (f x).length = w x) : chunks (l.map w) (l.flatMap f) = some (l.map f) := by
  induction l with
  | nil => simp [chunks]
  | cons x xs ih =>
    have hx := h x (by simp)
    have := ih (fun y hy => h y (by simp [hy]))
    simp only [List.map_cons, List.flatMap_cons, chunks, List.length_append]
    rw [if_neg (by omega), ← hx, List.drop_left, this, List.take_left]

theorem isSublist_of_sublist [DecidableEq α] (a b : List α) (h : List.Sublist a b) : isSublist a b = true := by
  induction b generalizing a with
  | nil => simp at h; subst h; simp [isSublist]
  | cons y bs ih =>
    cases a with
    | nil => simp [isSublist]
    | cons x as =>
      simp only [isSublist]
      by_cases hxy : x = y
      · subst hxy
        simp only [if_true]
        exact ih as (List.cons_sublist_cons.1 h)
      · simp only [hxy, if_false]
        apply ih
        cases h with
        | cons _ h' => exact h'
        | cons_cons _ h' => exact absurd rfl hxy


theorem length_flatMap_eq {β γ : Type} (l : List β) (f : β → List γ) (w : β → Nat)
    (h : ∀ x ∈ l, (f x).length = w x) : (l.flatMap f).length = (l.map w).sum := by
  induction l with
  | nil => simp
  | cons x xs ih =>
    simp only [List.flatMap_cons, List.length_append, List.map_cons, List.sum_cons]
    rw [h x (by simp), ih (fun y hy => h y (by simp [hy]))]

end oracle

end C20
