import Norad.Model.FontSave
/-!
Helper lemmas about `FontSave.validatePhase` and the forcing of store cells.
-/
namespace FontSave
open AbsFS

variable {β : Type}

theorem validatePhase_ok {cfg : Cfg β} {f : AFont β} {fs : FS β} {di}
    (h : validatePhase cfg f fs = .ok di) :
    f.version = 3 ∧ hasObjectLibsKey f.lib = false ∧ f.groupsValid = true ∧ f.info.valid = true ∧
    (forceStore cfg .data fs f.data).isSome ∧ (forceStore cfg .images fs f.images).isSome := by
  unfold validatePhase at h
  by_cases h1 : f.version = 3
  · cases h2 : hasObjectLibsKey f.lib
    · cases h3 : f.groupsValid
      · simp [h1, h2, h3] at h
      · cases h4 : f.info.valid
        · simp [h1, h2, h3, h4] at h
        · cases hd : forceStore cfg .data fs f.data
          · simp [h1, h2, h3, h4, hd] at h
          · cases hi : forceStore cfg .images fs f.images
            · simp [h1, h2, h3, h4, hd, hi] at h
            · simp [h1]
    · simp [h1, h2] at h
  · simp [h1] at h

theorem validatePhase_refuses {cfg : Cfg β} {f : AFont β} {fs : FS β}
    (h : f.version ≠ 3 ∨ hasObjectLibsKey f.lib = true ∨ f.groupsValid = false ∨ f.info.valid = false ∨
      (forceStore cfg .data fs f.data = none ∨ forceStore cfg .images fs f.images = none)) :
    ∃ k, validatePhase cfg f fs = .error k := by
  cases hv : validatePhase cfg f fs with
  | error k => exact ⟨k, rfl⟩
  | ok di =>
    obtain ⟨h1, h2, h3, h4, h5, h6⟩ := validatePhase_ok hv
    rcases h with h | h | h | h | h | h
    · exact absurd h1 h
    · simp [h2] at h
    · simp [h3] at h
    · simp [h4] at h
    · simp [h] at h5
    · simp [h] at h6

theorem forceList_none_of_bad_aux {cfg : Cfg β} {kind : StoreKind} {fs : FS β} {root : APath}
    {keys : List Path.P} {k : Path.P} {c : Cell β} :
    ∀ {items : List (Path.P × Cell β)}, (k, c) ∈ items →
    (∀ b, forceCell cfg kind fs root keys k c ≠ .loaded b) →
    forceList cfg kind fs root keys items = none := by
  intro items
  induction items with
  | nil => intro h; cases h
  | cons e r ih =>
    intro hmem hbad
    obtain ⟨k', c'⟩ := e
    unfold forceList
    cases hmem with
    | head =>
      split
      · rename_i b hb; exact absurd hb (hbad b)
      · rfl
    | tail _ hr =>
      split
      · rw [ih hr hbad]
      · rfl

theorem forceList_none_of_bad {cfg : Cfg β} {kind : StoreKind} {fs : FS β} {s : Store β}
    {k : Path.P} {c : Cell β} (hmem : (k, c) ∈ s.items)
    (hbad : ∀ b, forceCell cfg kind fs s.root (s.items.map (·.1)) k c ≠ .loaded b) :
    forceStore cfg kind fs s = none :=
  forceList_none_of_bad_aux hmem hbad

end FontSave
