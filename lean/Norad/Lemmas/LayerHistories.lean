import Norad.Lemmas.LayerSet
/-!
Helper lemmas for `Props/C06Histories.lean`: what `insert_glyph` does to ONE name whatever the state of the two
indices, and what the loader lists.
-/
namespace Layers

section
variable (lower : Str → Str) (assignG : Str → List Str → Option Str)

/-- … and touches no other name, in either index -/
theorem insert_other_names (L : Layer) (g m : Str) (hm : m ≠ g) :
    (m ∈ (insertGlyph lower assignG L g).1.glyphs ↔ m ∈ L.glyphs) ∧
    (m ∈ keys (insertGlyph lower assignG L g).1.contents ↔ m ∈ keys L.contents) := by
  unfold insertGlyph
  split
  · simp [mem_addGlyphName, hm]
  · cases ha : assignG g L.pathSet with
    | none => simp
    | some p => simp [mem_addGlyphName, keys, hm]

/-- the two indices agree on every name but `n` -/
def SyncBut (n : Str) (L : Layer) : Prop := ∀ m, m ≠ n → (m ∈ L.glyphs ↔ m ∈ keys L.contents)

theorem syncBut_entryOrInsert (L : Layer) (n : Str) (h : Sync L) : SyncBut n (entryOrInsert L n) := by
  intro m hm
  simp only [entryOrInsert, mem_addGlyphName, hm, false_or]
  exact h m

theorem syncBut_entryRemove (L : Layer) (n : Str) (h : Sync L) : SyncBut n (entryRemove L n) := by
  intro m hm
  simp only [entryRemove, List.mem_filter, ne_eq, hm, not_false_eq_true, decide_true, and_true]
  exact h m

end

theorem loadLayers_listed (lower : Str → Str) (dirs : List (Str × DirT)) (lc : List (Str × Str)) (ls : List Layer)
    (h : loadLayers lower dirs lc = some ls) : ∀ e ∈ lc, ∃ l ∈ ls, l.name = e.1 ∧ l.path = e.2 := by
  induction lc generalizing ls with
  | nil => intro e he; simp at he
  | cons a r ih =>
    obtain ⟨n, p⟩ := a
    unfold loadLayers at h
    cases hd : lookupDir p dirs with
    | none => simp [hd] at h
    | some d =>
      simp only [hd] at h
      cases hL : loadLayer lower n p d with
      | none => simp [hL] at h
      | some L =>
        cases hr : loadLayers lower dirs r with
        | none => simp [hL, hr] at h
        | some Ls =>
          simp only [hL, hr, Option.some.injEq] at h
          subst h
          intro e he
          rcases List.mem_cons.1 he with rfl | he
          · refine ⟨L, List.mem_cons_self, ?_⟩
            unfold loadLayer at hL
            split at hL
            · simp only [Option.some.injEq] at hL
              subst hL
              exact ⟨rfl, rfl⟩
            · simp at hL
          · obtain ⟨l, hl, hn⟩ := ih Ls hr e he
            exact ⟨l, List.mem_cons_of_mem _ hl, hn⟩

theorem mem_removeFirst_of_not (p : Layer → Bool) (ls : List Layer) (l : Layer) (hl : l ∈ ls) (hp : p l = false) :
    l ∈ removeFirst p ls := by
  induction ls with
  | nil => simp at hl
  | cons a r ih =>
    unfold removeFirst
    rcases List.mem_cons.1 hl with rfl | hl
    · simp [hp]
    · split
      · exact hl
      · exact List.mem_cons_of_mem _ (ih hl)

end Layers
