import Norad.Lemmas.Inplace
import Norad.Lemmas.FontLoad
/-!
Load side of C09: the directory a loaded layer keeps is one normal component (`file_name()`, layer.rs:376), and
the keys of a loaded store are safe relative paths.
-/
namespace FontLoad
open AbsFS FontSave
open Path (Comp)

variable {β : Type}

/-- a string that is one normal path component: not empty, no separator, neither `.` nor `..` -/
def goodName (s : List Char) : Bool := !s.isEmpty && !s.contains '/' && s != ['.'] && s != ['.', '.']

theorem goodName_iff {s : List Char} :
    goodName s = true ↔ s ≠ [] ∧ '/' ∉ s ∧ s ≠ ['.'] ∧ s ≠ ['.', '.'] := by
  unfold goodName
  simp only [Bool.and_eq_true, Bool.not_eq_true', bne_iff_ne, ne_eq, List.isEmpty_eq_false_iff]
  constructor
  · rintro ⟨⟨⟨a, b⟩, c⟩, d⟩
    exact ⟨a, by simpa [List.contains_iff_mem] using b, c, d⟩
  · rintro ⟨a, b, c, d⟩
    exact ⟨⟨⟨a, by simpa [List.contains_iff_mem] using b⟩, c⟩, d⟩

theorem splitSlash_noSlash : ∀ (s : List Char), '/' ∉ s → Path.splitSlash s = [s] := by
  intro s
  induction s with
  | nil => intro _; rfl
  | cons c r ih =>
    intro h
    have hc : c ≠ '/' := fun e => h (e ▸ List.mem_cons_self ..)
    have hr : '/' ∉ r := fun e => h (List.mem_cons_of_mem _ e)
    simp [Path.splitSlash, hc, ih hr]

theorem splitSlash_pieces : ∀ (s : List Char), ∀ p ∈ Path.splitSlash s, '/' ∉ p := by
  intro s
  induction s with
  | nil => intro p hp; simp [Path.splitSlash] at hp; subst hp; simp
  | cons c r ih =>
    intro p hp
    unfold Path.splitSlash at hp
    by_cases hc : c = '/'
    · simp only [hc, if_true, List.mem_cons] at hp
      rcases hp with rfl | hp
      · simp
      · exact ih p hp
    · simp only [hc, if_false] at hp
      cases hs : Path.splitSlash r with
      | nil => simp [hs] at hp; subst hp; simp; exact fun e => hc e.symm
      | cons p0 ps =>
        simp only [hs, List.mem_cons] at hp
        rcases hp with rfl | hp
        · have := ih p0 (by rw [hs]; exact List.mem_cons_self ..)
          intro hm
          rcases List.mem_cons.mp hm with h1 | h1
          · exact hc h1.symm
          · exact this h1
        · exact ih p (by rw [hs]; exact List.mem_cons_of_mem _ hp)

theorem compOfPiece_normal {p q : List Char} (h : Path.compOfPiece p = some (.normal q)) :
    q = p ∧ p ≠ [] ∧ p ≠ ['.'] ∧ p ≠ ['.', '.'] := by
  unfold Path.compOfPiece at h
  by_cases h1 : p = []
  · simp [h1] at h
  · by_cases h2 : p = ['.']
    · simp [h2] at h
    · by_cases h3 : p = ['.', '.']
      · simp [h3] at h
      · simp [h1, h2, h3] at h
        exact ⟨h.symm, h1, h2, h3⟩

theorem firstComp_normal {p q : List Char} (h : Path.firstComp p = some (.normal q)) :
    q = p ∧ p ≠ [] ∧ p ≠ ['.'] ∧ p ≠ ['.', '.'] := by
  unfold Path.firstComp at h
  by_cases h2 : p = ['.']
  · simp [h2] at h
  · simp only [h2, if_false] at h
    exact compOfPiece_normal h

/-- every normal component `Path.parse` produces is a good name -/
theorem parse_comps_good (s q : List Char) (h : Comp.normal q ∈ (Path.parse s).comps) : goodName q = true := by
  have key : ∀ p, p ∈ Path.splitSlash s → (Path.compOfPiece p = some (.normal q) ∨ Path.firstComp p = some (.normal q)) →
      goodName q = true := by
    intro p hp hc
    have hns := splitSlash_pieces s p hp
    have : q = p ∧ p ≠ [] ∧ p ≠ ['.'] ∧ p ≠ ['.', '.'] := by
      rcases hc with hc | hc
      · exact compOfPiece_normal hc
      · exact firstComp_normal hc
    obtain ⟨rfl, a, b, c⟩ := this
    exact goodName_iff.mpr ⟨a, hns, b, c⟩
  unfold Path.parse at h
  by_cases habs : s.head? = some '/'
  · simp only [habs, if_true, List.mem_filterMap] at h
    obtain ⟨p, hp, hc⟩ := h
    exact key p hp (Or.inl hc)
  · simp only [habs, if_false] at h
    unfold Path.relComps at h
    cases hs : Path.splitSlash s with
    | nil => simp [hs] at h
    | cons p0 ps =>
      simp only [hs, List.mem_append, List.mem_filterMap] at h
      rcases h with h | ⟨p, hp, hc⟩
      · have : Path.firstComp p0 = some (.normal q) := by
          cases hf : Path.firstComp p0 with
          | none => simp [hf] at h
          | some c => simp [hf] at h; rw [h]
        exact key p0 (by rw [hs]; exact List.mem_cons_self ..) (Or.inr this)
      · exact key p (by rw [hs]; exact List.mem_cons_of_mem _ hp) (Or.inl hc)

/-- a good name, read back as a path, is that one normal component -/
theorem parse_goodName {s : List Char} (h : goodName s = true) : Path.parse s = ⟨false, [.normal s]⟩ := by
  obtain ⟨h1, h2, h3, h4⟩ := goodName_iff.mp h
  have hhead : ¬ s.head? = some '/' := by
    cases s with
    | nil => exact absurd rfl h1
    | cons c r => intro e; simp at e; exact h2 (e ▸ List.mem_cons_self ..)
  unfold Path.parse
  simp only [hhead, if_false]
  unfold Path.relComps
  rw [splitSlash_noSlash s h2]
  simp [Path.firstComp, Path.compOfPiece, h1, h3, h4]

theorem safeRel_goodName {s : List Char} (h : goodName s = true) : safeRel (Path.parse s) = true := by
  rw [parse_goodName h]; rfl

theorem lastName_mem {cs : List Comp} {x : List Char} (h : lastName cs = some x) : Comp.normal x ∈ cs := by
  unfold lastName at h
  cases hl : cs.getLast? with
  | none => simp [hl] at h
  | some c =>
    cases c with
    | normal s => simp [hl] at h; subst h; exact List.mem_of_getLast? hl
    | cur => simp [hl] at h
    | parent => simp [hl] at h

theorem lastName_joinRel_good {t : APath} (ht : ∀ n ∈ t, goodName n = true) {d x : List Char}
    (h : lastName (joinRel (tC t) (Path.parse d)) = some x) : goodName x = true := by
  have hm := lastName_mem h
  unfold joinRel at hm
  by_cases habs : (Path.parse d).abs = true
  · simp only [habs, if_true] at hm
    exact parse_comps_good d x hm
  · simp only [habs, Bool.false_eq_true, if_false, List.mem_append] at hm
    rcases hm with hm | hm
    · simp only [tC, List.mem_map] at hm
      obtain ⟨n, hn, he⟩ := hm
      have hnx : n = x := Comp.normal.inj he
      subst hnx; exact ht n hn
    · apply parse_comps_good d x
      cases hc : (Path.parse d).comps with
      | nil => rw [hc] at hm; cases hm
      | cons c r =>
        rw [hc] at hm
        cases c with
        | cur => exact List.mem_cons_of_mem _ hm
        | normal s => exact hm
        | parent => exact hm

/-! ### through the layer pipeline -/

theorem loadLayers_dirs_good {P : Parser β} {fs : FS β} {t : APath} {r : Request}
    (ht : ∀ n ∈ t, goodName n = true) :
    ∀ {lc : List (Str × Str)} {ls : List ALayer}, loadLayers P fs t r lc = .ok ls →
      ∀ l ∈ ls, goodName l.dir = true := by
  intro lc
  induction lc with
  | nil => intro ls h l hl; simp only [loadLayers] at h; cases h; cases hl
  | cons e rest ih =>
    intro ls h l hl
    obtain ⟨n, d⟩ := e
    unfold loadLayers at h
    by_cases hs : shouldLoad r n d = true
    · simp only [hs, if_true] at h
      cases hld : loadLayer P fs t n d with
      | error x => simp [hld] at h
      | ok l0 =>
        simp only [hld] at h
        cases hr : loadLayers P fs t r rest with
        | error x => simp [hr] at h
        | ok ls' =>
          simp only [hr] at h
          cases h
          rcases List.mem_cons.mp hl with rfl | hl'
          · exact lastName_joinRel_good ht (loadLayer_spec hld).2
          · exact ih hr l hl'
    · simp only [hs, Bool.false_eq_true, if_false] at h
      exact ih h l hl

theorem extractDefault_subset {l : List ALayer} {d rest} (h : extractDefault l = some (d, rest)) :
    ∀ x ∈ d :: rest, x ∈ l := by
  induction l generalizing d rest with
  | nil => simp [extractDefault] at h
  | cons a xs ih =>
    unfold extractDefault at h
    by_cases ha : isDefaultLayer a = true
    · simp [ha] at h; obtain ⟨rfl, rfl⟩ := h; intro x hx; exact hx
    · simp [ha] at h
      cases he : extractDefault xs with
      | none => simp [he] at h
      | some p =>
        obtain ⟨d', r'⟩ := p
        simp [he] at h
        obtain ⟨rfl, rfl⟩ := h
        intro x hx
        have ih' := ih he
        rcases List.mem_cons.mp hx with rfl | hx
        · exact List.mem_cons_of_mem _ (ih' _ (List.mem_cons_self ..))
        · rcases List.mem_cons.mp hx with rfl | hx
          · exact List.mem_cons_self ..
          · exact List.mem_cons_of_mem _ (ih' _ (List.mem_cons_of_mem _ hx))

theorem finishLayers_dirs_good {r : Request} {ls out : List ALayer} (h : finishLayers r ls = .ok out)
    (hg : ∀ l ∈ ls, goodName l.dir = true) : ∀ l ∈ out, goodName l.dir = true := by
  unfold finishLayers at h
  have hg' : ∀ l ∈ (if (!includesDefault r && !ls.any isDefaultLayer) = true then ls ++ [placeholder] else ls),
      goodName l.dir = true := by
    intro l hl
    split at hl
    · rcases List.mem_append.mp hl with h1 | h1
      · exact hg l h1
      · simp only [List.mem_singleton] at h1; subst h1; decide
    · exact hg l hl
  generalize (if (!includesDefault r && !ls.any isDefaultLayer) = true then ls ++ [placeholder] else ls) = ls' at h hg'
  cases he : extractDefault ls' with
  | none => simp [he] at h
  | some q =>
    obtain ⟨d, rest⟩ := q
    simp only [he] at h
    cases h
    intro l hl
    exact hg' l (extractDefault_subset he l hl)

theorem loadImpl_layers {P : Parser β} {fs : FS β} {t : APath} {r : Request} {f : AFont β}
    (h : loadImpl P fs t r = .ok f) : loadLayerSet P fs t r = .ok f.layers := by
  unfold loadImpl at h
  cases hs : loadScalars P fs t r with
  | error e => simp [hs] at h
  | ok sc =>
    cases hl : loadLayerSet P fs t r with
    | error e => simp [hs, hl] at h
    | ok layers =>
      cases hd : loadStore r.data .data fs t with
      | error e => simp [hs, hl, hd] at h
      | ok data =>
        cases hi : loadStore r.images .images fs t with
        | error e => simp [hs, hl, hd, hi] at h
        | ok images => simp only [hs, hl, hd, hi] at h; cases h; rfl

/-- **every layer of a loaded font has a single-normal-component directory** -/
theorem loadImpl_layer_dirs_good {P : Parser β} {fs : FS β} {t : APath} {r : Request} {f : AFont β}
    (h : loadImpl P fs t r = .ok f) (ht : ∀ n ∈ t, goodName n = true) :
    ∀ l ∈ f.layers, goodName l.dir = true := by
  have hl := loadImpl_layers h
  unfold loadLayerSet at hl
  simp only at hl
  split at hl
  · cases hl
  · split at hl
    · cases hl
    · split at hl
      · cases hl
      · rename_i ls hls
        exact finishLayers_dirs_good hl (loadLayers_dirs_good ht hls)

/-! ### store keys of a loaded font -/

theorem listBelow_go_nonempty (d : APath) :
    ∀ (fs : FS β) (seen : List APath), ∀ e ∈ listBelow.go d fs seen, e.1 ≠ [] := by
  intro fs
  induction fs with
  | nil => intro seen e he; simp [listBelow.go] at he
  | cons x r ih =>
    intro seen e he
    obtain ⟨a, n⟩ := x
    unfold listBelow.go at he
    split at he
    · exact ih seen e he
    · split at he
      · rename_i hcond
        rcases List.mem_cons.mp he with rfl | he
        · simp only [Bool.and_eq_true, decide_eq_true_eq] at hcond
          intro hnil
          have := congrArg List.length hnil
          simp only [List.length_drop, List.length_nil] at this
          omega
        · exact ih _ e he
      · exact ih _ e he

theorem safeRel_relKey {rel : APath} (h : rel ≠ []) : safeRel (relKey rel) = true := by
  unfold safeRel relKey Path.P.allNormal
  cases rel with
  | nil => exact absurd rfl h
  | cons a r => simp

theorem loadStore_keys_safe {sw : Bool} {kind : StoreKind} {fs : FS β} {t : APath} {s : Store β}
    (h : loadStore sw kind fs t = .ok s) : ∀ kc ∈ s.items, safeRel kc.1 = true := by
  unfold loadStore at h
  simp only at h
  split at h
  · split at h
    · cases h
    · have hne := listBelow_go_nonempty (β := β) (t ++ [(storeDirName kind).toList]) fs []
      cases kind with
      | data =>
        simp only at h
        cases h
        intro kc hkc
        simp only [List.mem_map, List.mem_filter] at hkc
        obtain ⟨e, ⟨he, _⟩, rfl⟩ := hkc
        exact safeRel_relKey (hne e (by simpa [listBelow] using he))
      | images =>
        simp only at h
        split at h
        · cases h
        · cases h
          intro kc hkc
          simp only [List.mem_map] at hkc
          obtain ⟨e, he, rfl⟩ := hkc
          exact safeRel_relKey (hne e (by simpa [listBelow] using he))
  · cases h; intro kc hkc; cases hkc

end FontLoad
