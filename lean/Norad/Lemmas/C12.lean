import Norad.Spec.C12
/-! Helper lemmas for C12 (core Lean only). -/
namespace Glif

/-! ### attribute folds -/

theorem foldAttrs_none_of_mem {σ : Type} (step : σ → Attr → Option σ) (a : Attr)
    (h : ∀ acc, step acc a = none) :
    ∀ (as : List Attr) (acc : σ), a ∈ as → foldAttrs step acc as = none := by
  intro as
  induction as with
  | nil => intro acc hm; cases hm
  | cons b bs ih =>
    intro acc hm
    simp only [foldAttrs]
    cases hb : step acc b with
    | none => rfl
    | some acc' =>
      simp only
      rcases List.mem_cons.1 hm with rfl | hm'
      · rw [h acc] at hb; cases hb
      · exact ih acc' hm'

theorem foldAttrs_append {σ : Type} (step : σ → Attr → Option σ) (acc : σ) (l₁ l₂ : List Attr) :
    foldAttrs step acc (l₁ ++ l₂) = (foldAttrs step acc l₁).bind (fun acc' => foldAttrs step acc' l₂) := by
  induction l₁ generalizing acc with
  | nil => simp [foldAttrs]
  | cons a as ih =>
    simp only [List.cons_append, foldAttrs]
    cases step acc a with
    | none => simp
    | some acc' => simp [ih]

/-- a property of the accumulator that every successful step preserves holds at the end -/
theorem foldAttrs_inv {σ : Type} (step : σ → Attr → Option σ) (P : σ → Prop)
    (hstep : ∀ acc a acc', P acc → step acc a = some acc' → P acc') :
    ∀ (as : List Attr) (acc acc' : σ), P acc → foldAttrs step acc as = some acc' → P acc' := by
  intro as
  induction as with
  | nil => intro acc acc' hp h; simp [foldAttrs] at h; exact h ▸ hp
  | cons b bs ih =>
    intro acc acc' hp h
    simp only [foldAttrs] at h
    cases hb : step acc b with
    | none => simp [hb] at h
    | some acc1 => simp only [hb] at h; exact ih acc1 acc' (hstep acc b acc1 hp hb) h

/-- like `foldAttrs_inv`, for a property that needs the attribute to be one of the list -/
theorem foldAttrs_inv_mem {σ : Type} (step : σ → Attr → Option σ) (P : σ → Prop) (as : List Attr)
    (hstep : ∀ acc a acc', a ∈ as → P acc → step acc a = some acc' → P acc') :
    ∀ (acc acc' : σ), P acc → foldAttrs step acc as = some acc' → P acc' := by
  induction as with
  | nil => intro acc acc' hp h; simp [foldAttrs] at h; exact h ▸ hp
  | cons b bs ih =>
    intro acc acc' hp h
    simp only [foldAttrs] at h
    cases hb : step acc b with
    | none => simp [hb] at h
    | some acc1 =>
      simp only [hb] at h
      exact ih (fun acc a acc' ha => hstep acc a acc' (List.mem_cons_of_mem _ ha)) acc1 acc'
        (hstep acc b acc1 (List.mem_cons_self) hp hb) h

/-! ### the state machine: what a successful step never undoes -/

section
variable (rd : Str → Option Nat)

/-- what a successful step never undoes -/
structure Mono (s s' : PS) : Prop where
  ver : s'.ver = s.ver
  name : s'.g.name = s.g.name
  adv : s.seenAdvance = true → s'.seenAdvance = true
  lib : s.seenLib = true → s'.seenLib = true
  outline : s.seenOutline = true → s'.seenOutline = true
  image : s.g.image.isSome = true → s'.g.image.isSome = true
  note : s.g.note.isSome = true → s'.g.note.isSome = true
  seen : ∀ i, i ∈ s.seen → i ∈ s'.seen

theorem mem_addSeen {seen : List Str} {o : Option Str} {i : Str} (h : i ∈ seen) : i ∈ addSeen seen o := by
  cases o <;> simp [addSeen, h]

theorem step_mono (s s' : PS) (e : Ev) (h : step rd s e = .ok (.inl s')) : Mono s s' := by
  unfold step at h
  split at h
  · unfold stepBody at h
    split at h
    · cases h
    · unfold bodyStart cont at h
      repeat' split at h
      all_goals first | (cases h; done) | (cases h; constructor <;> simp_all)
    · unfold cont at h
      repeat' split at h
      all_goals first | (cases h; done) | (cases h; constructor <;> simp_all)
    · unfold bodyEmpty cont at h
      repeat' split at h
      all_goals first | (cases h; done) | (cases h; constructor <;> simp_all [mem_addSeen])
    · repeat' split at h
      all_goals first | (cases h; done)
    · unfold cont at h; cases h; constructor <;> simp_all
    · cases h
  · unfold stepOutline cont finishOutline at h
    repeat' split at h
    all_goals first | (cases h; done) | (cases h; constructor <;> simp_all [mem_addSeen])
  · unfold stepContour cont at h
    repeat' split at h
    all_goals first | (cases h; done) | (cases h; constructor <;> simp_all [mem_addSeen])
  · unfold stepLib cont at h
    repeat' split at h
    all_goals first | (cases h; done) | (cases h; constructor <;> simp_all [mem_addSeen])
  · unfold stepNote cont at h
    repeat' split at h
    all_goals first | (cases h; done) | (cases h; constructor <;> simp_all [mem_addSeen])

/-- `Reach s evs s'`: consuming `evs` from state `s` succeeds event by event and ends in `s'` -/
inductive Reach : PS → List Ev → PS → Prop
  | nil (s : PS) : Reach s [] s
  | cons {s s' s'' : PS} {e : Ev} {es : List Ev} :
      step rd s e = .ok (.inl s') → Reach s' es s'' → Reach s (e :: es) s''

theorem run_of_reach {s s' : PS} {pre : List Ev} (h : Reach rd s pre s') (rest : List Ev) :
    run rd s (pre ++ rest) = run rd s' rest := by
  induction h with
  | nil s => rfl
  | cons hs _ ih => simp only [List.cons_append, run, hs]; exact ih

theorem mono_refl (s : PS) : Mono s s := by constructor <;> simp

theorem mono_trans {a b c : PS} (h₁ : Mono a b) (h₂ : Mono b c) : Mono a c := by
  constructor
  · rw [h₂.ver, h₁.ver]
  · rw [h₂.name, h₁.name]
  · exact fun h => h₂.adv (h₁.adv h)
  · exact fun h => h₂.lib (h₁.lib h)
  · exact fun h => h₂.outline (h₁.outline h)
  · exact fun h => h₂.image (h₁.image h)
  · exact fun h => h₂.note (h₁.note h)
  · exact fun i h => h₂.seen i (h₁.seen i h)

theorem reach_mono {s s' : PS} {evs : List Ev} (h : Reach rd s evs s') : Mono s s' := by
  induction h with
  | nil s => exact mono_refl s
  | cons hs _ ih => exact mono_trans (step_mono rd _ _ _ hs) ih

theorem run_error_of_step {s : PS} {e : Ev} {k : Kind} (h : step rd s e = .error k) (es : List Ev) :
    run rd s (e :: es) = .error k := by
  simp [run, h]

end

section
variable (rd : Str → Option Nat)


theorem run_ok {s : PS} {evs : List Ev} {g : Glyph} (h : run rd s evs = .ok g) :
    ∃ pre s' e post, evs = pre ++ e :: post ∧ Reach rd s pre s' ∧ step rd s' e = .ok (.inr g) := by
  induction evs generalizing s with
  | nil => simp [run] at h
  | cons e es ih =>
    simp only [run] at h
    cases hs : step rd s e with
    | error k => simp [hs] at h
    | ok r =>
      cases r with
      | inr g' =>
        simp only [hs] at h
        cases h
        exact ⟨[], s, e, es, rfl, Reach.nil s, hs⟩
      | inl s1 =>
        simp only [hs] at h
        obtain ⟨pre, s', e', post, he, hr, hd⟩ := ih h
        exact ⟨e :: pre, s', e', post, by simp [he], Reach.cons hs hr, hd⟩

theorem step_done {s : PS} {e : Ev} {g : Glyph} (h : step rd s e = .ok (.inr g)) :
    s.mode = .body ∧ e = .close sGlyph ∧ loadObjectLibs s.g = .ok g := by
  unfold step at h
  split at h
  · rename_i hm
    unfold stepBody at h
    split at h
    · cases h
    · unfold bodyStart cont at h
      repeat' split at h
      all_goals cases h
    · unfold cont at h
      repeat' split at h
      all_goals cases h
    · unfold bodyEmpty cont at h
      repeat' split at h
      all_goals cases h
    · split at h
      · rename_i hn
        split at h
        · rename_i g' hl
          cases h
          exact ⟨hm, by rw [hn], hl⟩
        · cases h
      · cases h
    · cases h
    · cases h
  · unfold stepOutline cont at h
    repeat' split at h
    all_goals cases h
  · unfold stepContour cont at h
    repeat' split at h
    all_goals cases h
  · unfold stepLib cont at h
    repeat' split at h
    all_goals cases h
  · unfold stepNote cont at h
    repeat' split at h
    all_goals cases h

end

section
variable (rd : Str → Option Nat)


theorem dictGet_erase (k : Str) (d : Dict) : dictGet k (dictErase k d) = none := by
  induction d with
  | nil => rfl
  | cons e r ih =>
    simp only [dictErase] at ih ⊢
    by_cases h : e.1 = k
    · simp only [List.filter, h, ne_eq, not_true_eq_false, decide_false]
      exact ih
    · simp only [List.filter, h, ne_eq, not_false_eq_true, decide_true, dictGet, if_false]
      exact ih

theorem loadObjectLibs_no_key {g g' : Glyph} (h : loadObjectLibs g = .ok g') :
    dictGet objectLibsKey g'.lib = none := by
  unfold loadObjectLibs at h
  split at h
  · rename_i hn; cases h; exact hn
  · repeat' split at h
    all_goals first | (cases h; done) | (cases h; exact dictGet_erase _ _)
  · cases h


end

end Glif
