import Norad.Spec.C12
/-! Helper lemmas for C12 (core Lean only). -/
namespace Glif

/-! ### attribute folds -/

theorem foldAttrs_none_of_mem {σ : Type} (step : σ → Attr → Option σ) (a : Attr)
    (h : ∀ acc, step acc a = none) :
    ∀ (as : List Attr) (acc : σ), a ∈ as → foldAttrs step acc as = none := by
  intro as
  induction as with
  | nil => intro acc hm; cases hm
  | cons b bs ih =>
    intro acc hm
    simp only [foldAttrs]
    cases hb : step acc b with
    | none => rfl
    | some acc' =>
      simp only
      rcases List.mem_cons.1 hm with rfl | hm'
      · rw [h acc] at hb; cases hb
      · exact ih acc' hm'

theorem foldAttrs_append {σ : Type} (step : σ → Attr → Option σ) (acc : σ) (l₁ l₂ : List Attr) :
    foldAttrs step acc (l₁ ++ l₂) = (foldAttrs step acc l₁).bind (fun acc' => foldAttrs step acc' l₂) := by
  induction l₁ generalizing acc with
  | nil => simp [foldAttrs]
  | cons a as ih =>
    simp only [List.cons_append, foldAttrs]
    cases step acc a with
    | none => simp
    | some acc' => simp [ih]

/-- a property of the accumulator that every successful step preserves holds at the end -/
theorem foldAttrs_inv {σ : Type} (step : σ → Attr → Option σ) (P : σ → Prop)
    (hstep : ∀ acc a acc', P acc → step acc a = some acc' → P acc') :
    ∀ (as : List Attr) (acc acc' : σ), P acc → foldAttrs step acc as = some acc' → P acc' := by
  intro as
  induction as with
  | nil => intro acc acc' hp h; simp [foldAttrs] at h; exact h ▸ hp
  | cons b bs ih =>
    intro acc acc' hp h
    simp only [foldAttrs] at h
    cases hb : step acc b with
    | none => simp [hb] at h
    | some acc1 => simp only [hb] at h; exact ih acc1 acc' (hstep acc b acc1 hp hb) h

/-- like `foldAttrs_inv`, for a property that needs the attribute to be one of the list -/
theorem foldAttrs_inv_mem {σ : Type} (step : σ → Attr → Option σ) (P : σ → Prop) (as : List Attr)
    (hstep : ∀ acc a acc', a ∈ as → P acc → step acc a = some acc' → P acc') :
    ∀ (acc acc' : σ), P acc → foldAttrs step acc as = some acc' → P acc' := by
  induction as with
  | nil => intro acc acc' hp h; simp [foldAttrs] at h; exact h ▸ hp
  | cons b bs ih =>
    intro acc acc' hp h
    simp only [foldAttrs] at h
    cases hb : step acc b with
    | none => simp [hb] at h
    | some acc1 =>
      simp only [hb] at h
      exact ih (fun acc a acc' ha => hstep acc a acc' (List.mem_cons_of_mem _ ha)) acc1 acc'
        (hstep acc b acc1 (List.mem_cons_self) hp hb) h

/-! ### the state machine: what a successful step never undoes -/

section
variable (rd : Str → Option Nat)

/-- what a successful step never undoes -/
structure Mono (s s' : PS) : Prop where
  ver : s'.ver = s.ver
  name : s'.g.name = s.g.name
  adv : s.seenAdvance = true → s'.seenAdvance = true
  lib : s.seenLib = true → s'.seenLib = true
  outline : s.seenOutline = true → s'.seenOutline = true
  image : s.g.image.isSome = true → s'.g.image.isSome = true
  note : s.g.note.isSome = true → s'.g.note.isSome = true
  seen : ∀ i, i ∈ s.seen → i ∈ s'.seen

theorem mem_addSeen {seen : List Str} {o : Option Str} {i : Str} (h : i ∈ seen) : i ∈ addSeen seen o := by
  cases o <;> simp [addSeen, h]

theorem step_mono (s s' : PS) (e : Ev) (h : step rd s e = .ok (.inl s')) : Mono s s' := by
  unfold step at h
  split at h
  · unfold stepBody at h
    split at h
    · cases h
    · unfold bodyStart cont at h
      repeat' split at h
      all_goals first | (cases h; done) | (cases h; constructor <;> simp_all)
    · unfold cont at h
      repeat' split at h
      all_goals first | (cases h; done) | (cases h; constructor <;> simp_all)
    · unfold bodyEmpty cont at h
      repeat' split at h
      all_goals first | (cases h; done) | (cases h; constructor <;> simp_all [mem_addSeen])
    · repeat' split at h
      all_goals first | (cases h; done)
    · unfold cont at h; cases h; constructor <;> simp_all
    · cases h
  · unfold stepOutline cont finishOutline at h
    repeat' split at h
    all_goals first | (cases h; done) | (cases h; constructor <;> simp_all [mem_addSeen])
  · unfold stepContour cont at h
    repeat' split at h
    all_goals first | (cases h; done) | (cases h; constructor <;> simp_all [mem_addSeen])
  · unfold stepLib cont at h
    repeat' split at h
    all_goals first | (cases h; done) | (cases h; constructor <;> simp_all [mem_addSeen])
  · unfold stepNote cont at h
    repeat' split at h
    all_goals first | (cases h; done) | (cases h; constructor <;> simp_all [mem_addSeen])

/-- `Reach s evs s'`: consuming `evs` from state `s` succeeds event by event and ends in `s'` -/
inductive Reach : PS → List Ev → PS → Prop
  | nil (s : PS) : Reach s [] s
  | cons {s s' s'' : PS} {e : Ev} {es : List Ev} :
      step rd s e = .ok (.inl s') → Reach s' es s'' → Reach s (e :: es) s''

theorem run_of_reach {s s' : PS} {pre : List Ev} (h : Reach rd s pre s') (rest : List Ev) :
    run rd s (pre ++ rest) = run rd s' rest := by
  induction h with
  | nil s => rfl
  | cons hs _ ih => simp only [List.cons_append, run, hs]; exact ih

theorem mono_refl (s : PS) : Mono s s := by constructor <;> simp

theorem mono_trans {a b c : PS} (h₁ : Mono a b) (h₂ : Mono b c) : Mono a c := by
  constructor
  · rw [h₂.ver, h₁.ver]
  · rw [h₂.name, h₁.name]
  · exact fun h => h₂.adv (h₁.adv h)
  · exact fun h => h₂.lib (h₁.lib h)
  · exact fun h => h₂.outline (h₁.outline h)
  · exact fun h => h₂.image (h₁.image h)
  · exact fun h => h₂.note (h₁.note h)
  · exact fun i h => h₂.seen i (h₁.seen i h)

theorem reach_mono {s s' : PS} {evs : List Ev} (h : Reach rd s evs s') : Mono s s' := by
  induction h with
  | nil s => exact mono_refl s
  | cons hs _ ih => exact mono_trans (step_mono rd _ _ _ hs) ih

theorem run_error_of_step {s : PS} {e : Ev} {k : Kind} (h : step rd s e = .error k) (es : List Ev) :
    run rd s (e :: es) = .error k := by
  simp [run, h]

end

section
variable (rd : Str → Option Nat)


theorem run_ok {s : PS} {evs : List Ev} {g : Glyph} (h : run rd s evs = .ok g) :
    ∃ pre s' e post, evs = pre ++ e :: post ∧ Reach rd s pre s' ∧ step rd s' e = .ok (.inr g) := by
  induction evs generalizing s with
  | nil => simp [run] at h
  | cons e es ih =>
    simp only [run] at h
    cases hs : step rd s e with
    | error k => simp [hs] at h
    | ok r =>
      cases r with
      | inr g' =>
        simp only [hs] at h
        cases h
        exact ⟨[], s, e, es, rfl, Reach.nil s, hs⟩
      | inl s1 =>
        simp only [hs] at h
        obtain ⟨pre, s', e', post, he, hr, hd⟩ := ih h
        exact ⟨e :: pre, s', e', post, by simp [he], Reach.cons hs hr, hd⟩

theorem step_done {s : PS} {e : Ev} {g : Glyph} (h : step rd s e = .ok (.inr g)) :
    s.mode = .body ∧ e = .close sGlyph ∧ loadObjectLibs s.g = .ok g := by
  unfold step at h
  split at h
  · rename_i hm
    unfold stepBody at h
    split at h
    · cases h
    · unfold bodyStart cont at h
      repeat' split at h
      all_goals cases h
    · unfold cont at h
      repeat' split at h
      all_goals cases h
    · unfold bodyEmpty cont at h
      repeat' split at h
      all_goals cases h
    · split at h
      · rename_i hn
        split at h
        · rename_i g' hl
          cases h
          exact ⟨hm, by rw [hn], hl⟩
        · cases h
      · cases h
    · cases h
    · cases h
  · unfold stepOutline cont at h
    repeat' split at h
    all_goals cases h
  · unfold stepContour cont at h
    repeat' split at h
    all_goals cases h
  · unfold stepLib cont at h
    repeat' split at h
    all_goals cases h
  · unfold stepNote cont at h
    repeat' split at h
    all_goals cases h

end

section
variable (rd : Str → Option Nat)


theorem dictGet_erase (k : Str) (d : Dict) : dictGet k (dictErase k d) = none := by
  induction d with
  | nil => rfl
  | cons e r ih =>
    simp only [dictErase] at ih ⊢
    by_cases h : e.1 = k
    · simp only [List.filter, h, ne_eq, not_true_eq_false, decide_false]
      exact ih
    · simp only [List.filter, h, ne_eq, not_false_eq_true, decide_true, dictGet, if_false]
      exact ih

theorem loadObjectLibs_no_key {g g' : Glyph} (h : loadObjectLibs g = .ok g') :
    dictGet objectLibsKey g'.lib = none := by
  unfold loadObjectLibs at h
  split at h
  · rename_i hn; cases h; exact hn
  · repeat' split at h
    all_goals first | (cases h; done) | (cases h; exact dictGet_erase _ _)
  · cases h


end

section
variable (rd : Str → Option Nat)


/-! ### element parsers: what a parsed object satisfies -/

def FreshId (seen : List Str) (o : Option Str) : Prop := ∀ i, o = some i → i ∉ seen ∧ validIdent i = true

theorem freshId_none (seen : List Str) : FreshId seen none := by intro i hi; cases hi

theorem readIdent_some {ver : Nat} {seen : List Str} {v i : Str} (h : readIdent ver seen v = some i) :
    i = v ∧ v ∉ seen ∧ validIdent v = true := by
  unfold readIdent at h
  split at h
  · cases h
  · split at h
    · rename_i hc
      cases h
      simp at hc
      exact ⟨rfl, hc.2, hc.1⟩
    · cases h

theorem freshId_of_read {ver : Nat} {seen : List Str} {v i : Str} (h : readIdent ver seen v = some i) :
    FreshId seen (some i) := by
  intro j hj; cases hj
  obtain ⟨rfl, h1, h2⟩ := readIdent_some h
  exact ⟨h1, h2⟩

theorem parseAnchor_fresh {ver seen as x} (h : parseAnchor rd ver seen as = some x) : FreshId seen x.ident := by
  unfold parseAnchor at h
  split at h
  · cases h
  · rename_i acc hf
    have hacc : FreshId seen acc.ident := by
      refine foldAttrs_inv _ (fun a => FreshId seen a.ident) ?_ as {} acc (freshId_none _) hf
      intro a b a' hp hs
      unfold aStep at hs
      split at hs
      · cases hs
      · rename_i k _
        cases k <;> simp only [aApply] at hs <;> repeat' split at hs
        all_goals first | (cases hs; done) | (cases hs; first | exact hp | exact freshId_of_read ‹_›)
    unfold aFinish at h
    split at h
    · cases h; exact hacc
    · cases h

theorem parseGuideline_fresh {ver seen as x} (h : parseGuideline rd ver seen as = some x) :
    FreshId seen x.ident ∧ (∀ a b d, x.line = .angle a b d → angleOk d = true) := by
  unfold parseGuideline at h
  split at h
  · cases h
  · rename_i acc hf
    have hacc : FreshId seen acc.ident ∧ (∀ d, acc.angle = some d → angleOk d = true) := by
      refine foldAttrs_inv _ (fun a => FreshId seen a.ident ∧ (∀ d, a.angle = some d → angleOk d = true)) ?_ as {} acc
        ⟨freshId_none _, by intro d hd; cases hd⟩ hf
      intro a b a' hp hs
      unfold guStep at hs
      split at hs
      · cases hs
      · rename_i k _
        cases k <;> simp only [guApply] at hs <;> repeat' split at hs
        all_goals first | (cases hs; done) | (cases hs; first | exact hp | exact ⟨freshId_of_read ‹_›, hp.2⟩ | skip)
        refine ⟨hp.1, ?_⟩
        intro d hd; cases hd; assumption
    unfold guFinish at h
    repeat' split at h
    all_goals first | (cases h; done) | (cases h; refine ⟨hacc.1, ?_⟩; intro a b d hl; first | (cases hl; done) | (cases hl; exact hacc.2 _ ‹_›))

theorem parsePoint_fresh {ver seen as x} (h : parsePoint rd ver seen as = some x) : FreshId seen x.ident := by
  unfold parsePoint at h
  split at h
  · cases h
  · rename_i acc hf
    have hacc : FreshId seen acc.ident := by
      refine foldAttrs_inv _ (fun a => FreshId seen a.ident) ?_ as {} acc (freshId_none _) hf
      intro a b a' hp hs
      unfold pStep at hs
      split at hs
      · cases hs
      · rename_i k _
        cases k <;> simp only [pApply] at hs <;> repeat' split at hs
        all_goals first | (cases hs; done) | (cases hs; first | exact hp | exact freshId_of_read ‹_›)
    unfold pFinish at h
    split at h
    · cases h; exact hacc
    · cases h

theorem parseComponent_fresh {ver seen as x} (h : parseComponent rd ver seen as = some x) : FreshId seen x.ident := by
  unfold parseComponent at h
  split at h
  · cases h
  · rename_i acc hf
    have hacc : FreshId seen acc.ident := by
      refine foldAttrs_inv _ (fun a => FreshId seen a.ident) ?_ as {} acc (freshId_none _) hf
      intro a b a' hp hs
      unfold cStep at hs
      split at hs
      · cases hs
      · rename_i k _
        cases k <;> simp only [cApply] at hs <;> repeat' split at hs
        all_goals first | (cases hs; done) | (cases hs; first | exact hp | exact freshId_of_read ‹_›)
    unfold cFinish at h
    split at h
    · cases h; exact hacc
    · cases h

theorem parseContourAttrs_fresh {ver seen as x} (h : parseContourAttrs ver seen as = some x) : FreshId seen x := by
  refine foldAttrs_inv _ (fun a => FreshId seen a) ?_ as none x (freshId_none _) h
  intro a b a' hp hs
  unfold ctStep at hs
  repeat' split at hs
  all_goals first | (cases hs; done) | (cases hs; exact freshId_of_read ‹_›)

theorem parseImage_name {as x} (h : parseImage rd as = some x) : imageNameOk x.fileName = true := by
  unfold parseImage at h
  split at h
  · cases h
  · unfold iFinish at h
    repeat' split at h
    all_goals first | (cases h; done) | (cases h; assumption)


end

section
variable (rd : Str → Option Nat)


def cIds (c : Contour) : List Str := c.ident.toList ++ c.points.filterMap (·.ident)
def obIds (ob : OB) : List Str := ob.contours.flatMap cIds ++ ob.components.filterMap (·.ident)
def modeIds : Mode → List Str
  | .outline ob => obIds ob
  | .contour ob cid pts => obIds ob ++ (cid.toList ++ pts.filterMap (·.ident))
  | _ => []
def allIds (s : PS) : List Str := Spec.glyphIdents s.g ++ modeIds s.mode

def ContourOK (c : Contour) : Prop := C11.accepts (c.points.map toPt) = true ∧ c.points ≠ []
def modeOB : Mode → OB
  | .outline ob => ob
  | .contour ob _ _ => ob
  | _ => {}

structure Inv (s : PS) : Prop where
  cnt : ∀ i, (allIds s).count i ≤ 1
  mem : ∀ i, i ∈ allIds s → i ∈ s.seen
  contours : ∀ c, c ∈ s.g.contours → ContourOK c
  obc : ∀ c, c ∈ (modeOB s.mode).contours → ContourOK c
  guides : ∀ x, x ∈ s.g.guidelines → ∀ a b d, x.line = .angle a b d → angleOk d = true
  image : ∀ i, s.g.image = some i → imageNameOk i.fileName = true

theorem ids_step {ids ids' seen : List Str} (new : Option Str)
    (hcnt : ∀ i, ids.count i ≤ 1) (hmem : ∀ i, i ∈ ids → i ∈ seen)
    (hf : FreshId seen new)
    (hc : ∀ i, ids'.count i ≤ ids.count i + new.toList.count i) :
    (∀ i, ids'.count i ≤ 1) ∧ (∀ i, i ∈ ids' → i ∈ addSeen seen new) := by
  have key : ∀ i, ids'.count i ≤ 1 ∧ (i ∈ ids' → i ∈ addSeen seen new) := by
    intro i
    by_cases hn : new = some i
    · subst hn
      have h0 : ids.count i = 0 := List.count_eq_zero.2 (fun h => (hf i rfl).1 (hmem i h))
      have := hc i
      simp [h0] at this
      exact ⟨this, fun _ => by simp [addSeen]⟩
    · have h0 : new.toList.count i = 0 := by
        cases new with
        | none => simp
        | some j =>
          have : j ≠ i := fun h => hn (by rw [h])
          simp [List.count_cons, this]
      have h1 := hc i
      rw [h0] at h1
      refine ⟨Nat.le_trans h1 (hcnt i), fun hm => ?_⟩
      have : 0 < ids'.count i := List.count_pos_iff.2 hm
      have : i ∈ ids := List.count_pos_iff.1 (by omega)
      exact mem_addSeen (hmem i this)
  exact ⟨fun i => (key i).1, fun i => (key i).2⟩

theorem inv_body {s s' : PS} {e : Ev} (hm : s.mode = .body) (hi : Inv s) (h : stepBody rd s e = .ok (.inl s')) : Inv s' := by
  obtain ⟨hcnt, hmem, hcont, hobc, hgu, him⟩ := hi
  have hall : allIds s = Spec.glyphIdents s.g := by simp [allIds, modeIds, hm]
  rw [hall] at hcnt hmem
  have same := ids_step (ids' := Spec.glyphIdents s.g) none hcnt hmem (freshId_none _) (by intro i; simp)
  unfold stepBody at h
  split at h
  · cases h
  · unfold bodyStart cont at h
    repeat' split at h
    all_goals first | (cases h; done) | skip
    all_goals cases h
    all_goals
      refine ⟨?_, ?_, ?_, ?_, ?_, ?_⟩ <;> first | assumption | (simp [modeOB]; done) | (simpa [allIds, modeIds, obIds, addSeen] using same.1) | (simpa [allIds, modeIds, obIds, addSeen] using same.2)
  · unfold cont at h
    repeat' split at h
    all_goals first | (cases h; done) | skip
    all_goals cases h
    all_goals
      refine ⟨?_, ?_, ?_, ?_, ?_, ?_⟩ <;> first | assumption | (simp [modeOB]; done) | (simpa [allIds, modeIds, obIds, addSeen] using same.1) | (simpa [allIds, modeIds, obIds, addSeen] using same.2)
  · unfold bodyEmpty cont at h
    repeat' split at h
    all_goals first | (cases h; done) | skip
    all_goals cases h
    -- outline, advance, unicode
    iterate 3
      refine ⟨?_, ?_, ?_, ?_, ?_, ?_⟩ <;> first | assumption | (simp [modeOB, hm]; done) | (simpa [allIds, modeIds, obIds, addSeen, hm, Spec.glyphIdents] using same.1) | (simpa [allIds, modeIds, obIds, addSeen, hm, Spec.glyphIdents] using same.2)
    · -- anchor
      rename_i x hx
      have hf := parseAnchor_fresh rd hx
      obtain ⟨h1, h2⟩ := ids_step (ids' := Spec.glyphIdents { s.g with anchors := s.g.anchors ++ [x] }) x.ident hcnt hmem hf (by
        intro i
        cases hxi : x.ident <;> simp [Spec.glyphIdents, List.filterMap_append, List.count_append, hxi, List.count_cons] <;> omega)
      refine ⟨?_, ?_, ?_, ?_, ?_, ?_⟩ <;> first | assumption | (simp [modeOB, hm]; done) | (simpa [allIds, modeIds, hm] using h1) | (simpa [allIds, modeIds, hm] using h2)
    · -- guideline
      rename_i x hx
      have hf := parseGuideline_fresh rd hx
      obtain ⟨h1, h2⟩ := ids_step (ids' := Spec.glyphIdents { s.g with guidelines := s.g.guidelines ++ [x] }) x.ident hcnt hmem hf.1 (by
        intro i
        cases hxi : x.ident <;> simp [Spec.glyphIdents, List.filterMap_append, List.count_append, hxi, List.count_cons] <;> omega)
      refine ⟨?_, ?_, ?_, ?_, ?_, ?_⟩ <;> first | assumption | (simp [modeOB, hm]; done) | (simpa [allIds, modeIds, hm] using h1) | (simpa [allIds, modeIds, hm] using h2) | skip
      intro y hy
      rcases List.mem_append.1 hy with hy | hy
      · exact hgu y hy
      · simp at hy; subst hy; exact hf.2
    · -- image
      rename_i x hx
      refine ⟨?_, ?_, ?_, ?_, ?_, ?_⟩ <;> first | assumption | (simp [modeOB, hm]; done) | (simpa [allIds, modeIds, obIds, addSeen, hm, Spec.glyphIdents] using same.1) | (simpa [allIds, modeIds, obIds, addSeen, hm, Spec.glyphIdents] using same.2) | skip
      intro i hi; simp at hi; subst hi; exact parseImage_name rd hx
  · repeat' split at h
    all_goals cases h
  · unfold cont at h; cases h
    refine ⟨?_, ?_, ?_, ?_, ?_, ?_⟩ <;> first | assumption | (simpa [allIds, modeIds, hm] using same.1) | (simpa [allIds, modeIds, hm, addSeen] using same.2)
  · cases h

theorem cIds_def : cIds = fun c : Contour => c.ident.toList ++ c.points.filterMap (·.ident) := rfl

theorem upgradeV1_spec (cs : List Contour) :
    (∀ i, (((upgradeV1 cs).2).flatMap cIds).count i ≤ (cs.flatMap cIds).count i) ∧
    ((upgradeV1 cs).1.filterMap (·.ident) = []) ∧ (∀ c, c ∈ (upgradeV1 cs).2 → c ∈ cs) := by
  induction cs with
  | nil => simp [upgradeV1]
  | cons c r ih =>
    obtain ⟨h1, h2, h3⟩ := ih
    unfold upgradeV1
    cases hu : upgradeV1 r with
    | mk as cs' =>
      rw [hu] at h1 h2 h3
      simp only at h1 h2 h3 ⊢
      cases ha : implicitAnchor c with
      | some a =>
        have hid : a.ident = none := by
          unfold implicitAnchor at ha
          repeat' split at ha
          all_goals first | (cases ha; done) | (cases ha; rfl)
        refine ⟨?_, ?_, ?_⟩
        · intro i; have := h1 i; simp [List.flatMap_cons, List.count_append]; omega
        · simp [List.filterMap_cons, hid, h2]
        · intro c' hc'; exact List.mem_cons_of_mem _ (h3 c' hc')
      | none =>
        refine ⟨?_, ?_, ?_⟩
        · intro i; have := h1 i; simp [List.flatMap_cons, List.count_append]; omega
        · exact h2
        · intro c' hc'
          rcases List.mem_cons.1 hc' with rfl | hc'
          · exact List.mem_cons_self
          · exact List.mem_cons_of_mem _ (h3 c' hc')

theorem inv_outline {s s' : PS} {e : Ev} {ob : OB} (hm : s.mode = .outline ob) (hi : Inv s)
    (h : stepOutline rd s ob e = .ok (.inl s')) : Inv s' := by
  obtain ⟨hcnt, hmem, hcont, hobc, hgu, him⟩ := hi
  have same := ids_step (ids' := allIds s) none hcnt hmem (freshId_none _) (by intro i; simp)
  unfold stepOutline at h
  split at h
  · cases h
  · -- start
    unfold cont at h
    repeat' split at h
    all_goals first | (cases h; done) | skip
    rename_i cid hx
    cases h
    have hf := parseContourAttrs_fresh hx
    obtain ⟨h1, h2⟩ := ids_step (ids' := allIds s ++ cid.toList) cid hcnt hmem hf (by
      intro i; simp [List.count_append])
    refine ⟨?_, ?_, ?_, ?_, ?_, ?_⟩ <;> first | assumption | (simpa [allIds, modeIds, hm, List.append_assoc] using h1) | (simpa [allIds, modeIds, hm, List.append_assoc] using h2) | (simpa [modeOB, hm] using hobc)
  · -- empty
    unfold cont at h
    repeat' split at h
    all_goals first | (cases h; done) | skip
    · cases h; exact ⟨hcnt, hmem, hcont, hobc, hgu, him⟩
    · rename_i x hx
      cases h
      have hf := parseComponent_fresh rd hx
      obtain ⟨h1, h2⟩ := ids_step (ids' := Spec.glyphIdents s.g ++ obIds { ob with components := ob.components ++ [x] }) x.ident hcnt hmem hf (by
        intro i
        cases hxi : x.ident <;> simp [allIds, modeIds, hm, obIds, List.filterMap_append, List.count_append, hxi, List.count_cons] <;> omega)
      refine ⟨?_, ?_, ?_, ?_, ?_, ?_⟩ <;> first | assumption | (simpa [allIds, modeIds] using h1) | (simpa [allIds, modeIds] using h2) | (simpa [modeOB, hm] using hobc)
  · -- close
    unfold cont at h
    split at h
    · cases h
      have hobc' : ∀ c, c ∈ ob.contours → ContourOK c := by simpa [modeOB, hm] using hobc
      unfold finishOutline
      split
      · obtain ⟨u1, u2, u3⟩ := upgradeV1_spec ob.contours
        cases hu : upgradeV1 ob.contours with
        | mk as cs =>
          rw [hu] at u1 u2 u3
          simp only at u1 u2 u3 ⊢
          obtain ⟨h1, h2⟩ := ids_step (ids' := Spec.glyphIdents { s.g with anchors := s.g.anchors ++ as, contours := s.g.contours ++ cs, components := s.g.components ++ ob.components }) none hcnt hmem (freshId_none _) (by
            intro i; have := u1 i
            simp [allIds, modeIds, hm, obIds, cIds_def, Spec.glyphIdents, List.filterMap_append, List.flatMap_append, List.count_append, u2]
            simp only [cIds_def] at this
            omega)
          refine ⟨?_, ?_, ?_, ?_, ?_, ?_⟩ <;> first | assumption | (simp [modeOB]; done) | (simpa [allIds, modeIds] using h1) | (simpa [allIds, modeIds, addSeen] using h2) | skip
          intro c hc
          rcases List.mem_append.1 hc with hc | hc
          · exact hcont c hc
          · exact hobc' c (u3 c hc)
      · obtain ⟨h1, h2⟩ := ids_step (ids' := Spec.glyphIdents { s.g with contours := s.g.contours ++ ob.contours, components := s.g.components ++ ob.components }) none hcnt hmem (freshId_none _) (by
          intro i
          simp [allIds, modeIds, hm, obIds, cIds_def, Spec.glyphIdents, List.filterMap_append, List.flatMap_append, List.count_append]
          omega)
        refine ⟨?_, ?_, ?_, ?_, ?_, ?_⟩ <;> first | assumption | (simp [modeOB]; done) | (simpa [allIds, modeIds] using h1) | (simpa [allIds, modeIds, addSeen] using h2) | skip
        intro c hc
        rcases List.mem_append.1 hc with hc | hc
        · exact hcont c hc
        · exact hobc' c hc
    · cases h
  · unfold cont at h; cases h; exact ⟨hcnt, hmem, hcont, hobc, hgu, him⟩
  · cases h


theorem inv_contour {s s' : PS} {e : Ev} {ob : OB} {cid : Option Str} {pts : List Point}
    (hm : s.mode = .contour ob cid pts) (hi : Inv s)
    (h : stepContour rd s ob cid pts e = .ok (.inl s')) : Inv s' := by
  obtain ⟨hcnt, hmem, hcont, hobc, hgu, him⟩ := hi
  have hobc' : ∀ c, c ∈ ob.contours → ContourOK c := by simpa [modeOB, hm] using hobc
  unfold stepContour at h
  split at h
  · cases h
  · -- close
    unfold cont at h
    split at h
    case isFalse => cases h
    split at h
    case isFalse => cases h
    rename_i hacc
    by_cases hp : pts = []
    · subst hp
      simp only [List.isEmpty_nil, if_true] at h
      cases h
      obtain ⟨h1, h2⟩ := ids_step (ids' := Spec.glyphIdents s.g ++ obIds ob) none hcnt hmem (freshId_none _) (by
        intro i; simp [allIds, modeIds, hm, List.count_append])
      refine ⟨?_, ?_, ?_, ?_, ?_, ?_⟩ <;> first | assumption | (simpa [allIds, modeIds] using h1) | (simpa [allIds, modeIds, addSeen] using h2) | (simpa [modeOB] using hobc')
    · have hpe : pts.isEmpty = false := by cases pts <;> simp_all
      simp only [hpe] at h
      cases h
      obtain ⟨h1, h2⟩ := ids_step (ids' := Spec.glyphIdents s.g ++ obIds { ob with contours := ob.contours ++ [{ points := pts, ident := cid }] }) none hcnt hmem (freshId_none _) (by
        intro i
        simp [allIds, modeIds, hm, obIds, cIds_def, List.flatMap_append, List.count_append]
        omega)
      refine ⟨?_, ?_, ?_, ?_, ?_, ?_⟩ <;> first | assumption | (simpa [allIds, modeIds, hpe] using h1) | (simpa [allIds, modeIds, addSeen, hpe] using h2) | skip
      simp only [modeOB]
      intro c hc
      rcases List.mem_append.1 hc with hc | hc
      · exact hobc' c hc
      · simp at hc; subst hc; exact ⟨hacc, hp⟩
  · -- point
    unfold cont at h
    repeat' split at h
    all_goals first | (cases h; done) | skip
    rename_i x hx
    cases h
    have hf := parsePoint_fresh rd hx
    obtain ⟨h1, h2⟩ := ids_step (ids' := Spec.glyphIdents s.g ++ (obIds ob ++ (cid.toList ++ (pts ++ [x]).filterMap (·.ident)))) x.ident hcnt hmem hf (by
      intro i
      cases hxi : x.ident <;> simp [allIds, modeIds, hm, List.filterMap_append, List.count_append, hxi, List.count_cons] <;> omega)
    refine ⟨?_, ?_, ?_, ?_, ?_, ?_⟩ <;> first | assumption | (simpa [allIds, modeIds] using h1) | (simpa [allIds, modeIds] using h2) | (simpa [modeOB] using hobc')
  · unfold cont at h; cases h; exact ⟨hcnt, hmem, hcont, hobc, hgu, him⟩
  · cases h

theorem inv_lib {s s' : PS} {e : Ev} {v : LibV} (hm : s.mode = .lib v) (hi : Inv s)
    (h : stepLib s v e = .ok (.inl s')) : Inv s' := by
  obtain ⟨hcnt, hmem, hcont, hobc, hgu, him⟩ := hi
  unfold stepLib cont at h
  repeat' split at h
  all_goals first | (cases h; done) | skip
  all_goals cases h
  all_goals first
    | exact ⟨hcnt, hmem, hcont, hobc, hgu, him⟩
    | (refine ⟨?_, ?_, ?_, ?_, ?_, ?_⟩ <;> first | assumption | (simp [modeOB]; done) | (simpa [allIds, modeIds, hm, Spec.glyphIdents] using hcnt) | (simpa [allIds, modeIds, hm, Spec.glyphIdents] using hmem))

theorem inv_note {s s' : PS} {e : Ev} (hm : s.mode = .note) (hi : Inv s)
    (h : stepNote s e = .ok (.inl s')) : Inv s' := by
  obtain ⟨hcnt, hmem, hcont, hobc, hgu, him⟩ := hi
  unfold stepNote cont at h
  repeat' split at h
  all_goals first | (cases h; done) | skip
  all_goals cases h
  all_goals first
    | exact ⟨hcnt, hmem, hcont, hobc, hgu, him⟩
    | (refine ⟨?_, ?_, ?_, ?_, ?_, ?_⟩ <;> first | assumption | (simp [modeOB, hm]; done) | (simpa [allIds, modeIds, hm, Spec.glyphIdents] using hcnt) | (simpa [allIds, modeIds, hm, Spec.glyphIdents] using hmem))

theorem inv_step {s s' : PS} {e : Ev} (hi : Inv s) (h : step rd s e = .ok (.inl s')) : Inv s' := by
  unfold step at h
  split at h
  · exact inv_body rd ‹_› hi h
  · exact inv_outline rd ‹_› hi h
  · exact inv_contour rd ‹_› hi h
  · exact inv_lib ‹_› hi h
  · exact inv_note ‹_› hi h

theorem inv_reach {s s' : PS} {evs : List Ev} (hi : Inv s) (h : Reach rd s evs s') : Inv s' := by
  induction h with
  | nil s => exact hi
  | cons hs _ ih => exact ih (inv_step rd hi hs)

theorem inv_init (name : Str) (ver : Nat) : Inv { g := { name := name }, ver := ver } := by
  refine ⟨?_, ?_, ?_, ?_, ?_, ?_⟩ <;> simp [allIds, modeIds, Spec.glyphIdents, modeOB]


end

section
variable (rd : Str → Option Nat)


theorem loadAnchors_ids : ∀ (as : List Anchor) (ol : Dict) (as' : List Anchor) (ol' : Dict),
    loadAnchors as ol = some (as', ol') → as'.filterMap (·.ident) = as.filterMap (·.ident) := by
  intro as
  induction as with
  | nil => intro ol as' ol' h; simp [loadAnchors] at h; simp [h.1.symm]
  | cons a r ih =>
    intro ol as' ol' h
    simp only [loadAnchors] at h
    repeat' split at h
    all_goals first | (cases h; done) | skip
    cases h
    simp [List.filterMap_cons, ih _ _ _ ‹_›]

theorem loadComponents_ids : ∀ (as : List Component) (ol : Dict) (as' : List Component) (ol' : Dict),
    loadComponents as ol = some (as', ol') → as'.filterMap (·.ident) = as.filterMap (·.ident) := by
  intro as
  induction as with
  | nil => intro ol as' ol' h; simp [loadComponents] at h; simp [h.1.symm]
  | cons a r ih =>
    intro ol as' ol' h
    simp only [loadComponents] at h
    repeat' split at h
    all_goals first | (cases h; done) | skip
    cases h
    simp [List.filterMap_cons, ih _ _ _ ‹_›]

theorem loadGuidelines_ids : ∀ (as : List Guideline) (ol : Dict) (as' : List Guideline) (ol' : Dict),
    loadGuidelines as ol = some (as', ol') →
    as'.filterMap (·.ident) = as.filterMap (·.ident) ∧ (∀ x, x ∈ as' → ∃ y, y ∈ as ∧ x.line = y.line) := by
  intro as
  induction as with
  | nil => intro ol as' ol' h; simp [loadGuidelines] at h; obtain ⟨rfl, _⟩ := h; simp
  | cons a r ih =>
    intro ol as' ol' h
    simp only [loadGuidelines] at h
    repeat' split at h
    all_goals first | (cases h; done) | skip
    cases h
    obtain ⟨i1, i2⟩ := ih _ _ _ ‹_›
    refine ⟨by simp [List.filterMap_cons, i1], ?_⟩
    intro x hx
    rcases List.mem_cons.1 hx with rfl | hx
    · exact ⟨a, List.mem_cons_self, rfl⟩
    · obtain ⟨y, hy, hl⟩ := i2 x hx
      exact ⟨y, List.mem_cons_of_mem _ hy, hl⟩

theorem loadPoints_ids : ∀ (as : List Point) (ol : Dict) (as' : List Point) (ol' : Dict),
    loadPoints as ol = some (as', ol') →
    as'.filterMap (·.ident) = as.filterMap (·.ident) ∧ as'.map toPt = as.map toPt := by
  intro as
  induction as with
  | nil => intro ol as' ol' h; simp [loadPoints] at h; simp [h.1.symm]
  | cons a r ih =>
    intro ol as' ol' h
    simp only [loadPoints] at h
    repeat' split at h
    all_goals first | (cases h; done) | skip
    cases h
    obtain ⟨i1, i2⟩ := ih _ _ _ ‹_›
    exact ⟨by simp [List.filterMap_cons, i1], by simp [i2, toPt]⟩

theorem loadContours_ids : ∀ (cs : List Contour) (ol : Dict) (cs' : List Contour) (ol' : Dict),
    loadContours cs ol = some (cs', ol') →
    cs'.flatMap cIds = cs.flatMap cIds ∧
    (∀ x, x ∈ cs' → ∃ y, y ∈ cs ∧ x.points.map toPt = y.points.map toPt) := by
  intro cs
  induction cs with
  | nil => intro ol cs' ol' h; simp [loadContours] at h; obtain ⟨rfl, _⟩ := h; simp
  | cons c r ih =>
    intro ol cs' ol' h
    simp only [loadContours] at h
    repeat' split at h
    all_goals first | (cases h; done) | skip
    cases h
    obtain ⟨i1, i2⟩ := ih _ _ _ ‹_›
    obtain ⟨p1, p2⟩ := loadPoints_ids _ _ _ _ ‹_›
    refine ⟨by simp [List.flatMap_cons, i1, cIds, p1], ?_⟩
    intro x hx
    rcases List.mem_cons.1 hx with rfl | hx
    · exact ⟨c, List.mem_cons_self, p2⟩
    · obtain ⟨y, hy, hl⟩ := i2 x hx
      exact ⟨y, List.mem_cons_of_mem _ hy, hl⟩


end

end Glif
