import Norad.Model.RoundTrip
import Mathlib.Data.Rat.Floor
import Mathlib.Tactic.Linarith
import Mathlib.Tactic.NormNum
/-!
# The int-or-float writers on exact rationals: tolerance lemmas (C01)
-/
namespace RT

/-- strictly relative tolerance of DESIGN section 8 -/
def Close (a b : ℚ) : Prop := |a - b| ≤ (1 / 1000000000) * max |a| |b|

theorem absQ_eq (x : ℚ) : absQ x = |x| := by
  unfold absQ
  split
  · rw [abs_of_nonneg (by assumption)]
  · rw [abs_of_neg (by linarith)]

theorem floor_eq (x : ℚ) : x.floor = ⌊x⌋ := rfl

theorem eps_pos : 0 < eps := by unfold eps; norm_num
theorem eps_small : eps < 1 / 1000000000 := by unfold eps; norm_num

theorem close_refl (x : ℚ) : Close x x := by
  unfold Close; simp

theorem truncQ_zero : truncQ 0 = 0 := by
  unfold truncQ; simp [floor_eq]

theorem roundQ_zero : roundQ 0 = 0 := by
  unfold roundQ; simp [floor_eq]; norm_num

/-- an integer within ε of `v`, for `v = 0` or `|v| > ε`, is within the tolerance -/
theorem close_of_int_near (v : ℚ) (n : ℤ) (hn : |v - n| ≤ eps) (h0 : v = 0 → n = 0)
    (hv : v = 0 ∨ eps < |v|) : Close (n : ℚ) v := by
  unfold Close
  rcases hv with hv | hv
  · subst hv; rw [h0 rfl]; simp
  · have hne : n ≠ 0 := by
      intro h; subst h; simp at hn; linarith
    have h1 : (1 : ℚ) ≤ |(n : ℚ)| := by
      have : (1 : ℤ) ≤ |n| := Int.one_le_abs hne
      exact_mod_cast this
    have hmax : (1 : ℚ) ≤ max |(n : ℚ)| |v| := le_trans h1 (le_max_left _ _)
    have hsm := eps_small
    rw [abs_sub_comm]
    nlinarith

theorem sat32_id (n : ℤ) (h1 : i32Min ≤ n) (h2 : n ≤ i32Max) : sat32 n = n := by
  unfold sat32; split
  · omega
  · split
    · omega
    · rfl

theorem fits32_iff (x : ℚ) : fits32 x = true ↔ ((i32Min : ℤ) : ℚ) ≤ x ∧ x ≤ ((i32Max : ℤ) : ℚ) := by
  unfold fits32; simp

/-- truncation stays inside any integer interval containing the value and 0 -/
theorem truncQ_bounds (v : ℚ) (a b : ℤ) (ha : a ≤ 0) (hb : 0 ≤ b) (h1 : (a : ℚ) ≤ v) (h2 : v ≤ (b : ℚ)) :
    a ≤ truncQ v ∧ truncQ v ≤ b := by
  unfold truncQ
  split
  · rename_i h
    rw [floor_eq]
    constructor
    · have : 0 ≤ ⌊v⌋ := Int.floor_nonneg.2 h
      omega
    · have : (⌊v⌋ : ℚ) ≤ b := le_trans (Int.floor_le v) h2
      exact_mod_cast this
  · rename_i h
    rw [floor_eq]
    have hneg : 0 ≤ -v := by linarith
    constructor
    · have : (⌊-v⌋ : ℚ) ≤ -a := le_trans (Int.floor_le (-v)) (by linarith)
      have : ⌊-v⌋ ≤ -a := by exact_mod_cast this
      omega
    · have : 0 ≤ ⌊-v⌋ := Int.floor_nonneg.2 hneg
      omega

theorem kern_close (v : ℚ) (hv : v = 0 ∨ eps < |v|) : Close (kernWrite v).val v := by
  unfold kernWrite
  split
  · rename_i h
    obtain ⟨h1, h2⟩ := h
    rw [absQ_eq] at h1
    rw [fits32_iff] at h2
    have hs : sat32 (roundQ v) = roundQ v :=
      sat32_id _ (by exact_mod_cast h2.1) (by exact_mod_cast h2.2)
    simp only [Num.val, hs]
    exact close_of_int_near v (roundQ v) (le_of_lt h1) (fun h => by subst h; exact roundQ_zero) hv
  · exact close_refl v

theorem fract_abs (v : ℚ) : absQ (fractQ v) = |v - (truncQ v : ℤ)| := by
  rw [absQ_eq]; rfl

theorem info_close (v : ℚ) (hv : v = 0 ∨ eps < |v|) : Close (infoWrite v).val v := by
  unfold infoWrite
  split
  · rename_i h
    obtain ⟨h1, h2⟩ := h
    rw [fract_abs] at h1
    rw [fits32_iff] at h2
    have hb := truncQ_bounds v i32Min i32Max (by decide) (by decide) h2.1 h2.2
    have hs : sat32 (truncQ v) = truncQ v := sat32_id _ hb.1 hb.2
    simp only [Num.val, hs]
    exact close_of_int_near v (truncQ v) h1 (fun h => by subst h; exact truncQ_zero) hv
  · exact close_refl v

theorem upm_close (v : ℚ) (h0 : 0 ≤ v) (hv : v = 0 ∨ eps < |v|) : Close (upmWrite v).val v := by
  unfold upmWrite
  split
  · rename_i h
    obtain ⟨h1, h2⟩ := h
    rw [fract_abs] at h1
    have hb := truncQ_bounds v i32Min i32Max (by decide) (by decide)
      (le_trans (by unfold i32Min; norm_num) h0) h2
    have hs : sat32 (truncQ v) = truncQ v := sat32_id _ hb.1 hb.2
    simp only [Num.val, hs]
    exact close_of_int_near v (truncQ v) (le_of_lt h1) (fun h => by subst h; exact truncQ_zero) hv
  · exact close_refl v

end RT
