import Norad.Lemmas.C18Doc
/-!
# C18 — the independent reader: `conformView` is the identity on what `toTree` writes for an `XmlSafe`
document, and `specRead` finds the document in that tree
-/
namespace C18
open C18.Spec

/-! ## a conforming processor changes nothing in plain strings -/

theorem normEol_id : ∀ cs : List Char, '\r' ∉ cs → normEol false cs = cs
  | [], _ => rfl
  | ch :: r, h => by
    simp only [List.mem_cons, not_or] at h
    have h1 : ¬ ch = '\r' := fun e => h.1 e.symm
    simp [normEol, h1, normEol_id r h.2]

theorem not_mem_of_any_false {p : Char → Bool} {cs : List Char} (h : cs.any p = false) {x : Char}
    (hx : p x = true) : x ∉ cs := by
  intro hm
  have := List.any_eq_true.2 ⟨x, hm, hx⟩
  rw [h] at this; exact Bool.noConfusion this

theorem normText_id (s : String) (h : textPlain s = true) : normText s = s := by
  simp only [textPlain, Bool.and_eq_true, Bool.not_eq_true'] at h
  unfold normText
  rw [normEol_id _ (not_mem_of_any_false (p := (· == '\r')) h.2 (by decide))]
  simp

theorem normAttr_id (s : String) (h : attrPlain s = true) : normAttr s = s := by
  simp only [attrPlain, Bool.and_eq_true, Bool.not_eq_true', hasAttrWs] at h
  unfold normAttr
  rw [normEol_id _ (not_mem_of_any_false h.2 (by decide))]
  have : s.toList.map (fun ch => if ch = '\t' ∨ ch = '\n' then ' ' else ch) = s.toList := by
    conv => rhs; rw [← List.map_id s.toList]
    apply List.map_congr_left
    intro ch hch
    have h1 : ch ≠ '\t' := fun e => not_mem_of_any_false h.2 (x := '\t') (by decide) (e ▸ hch)
    have h2 : ch ≠ '\n' := fun e => not_mem_of_any_false h.2 (x := '\n') (by decide) (e ▸ hch)
    simp [h1, h2]
  rw [this]; simp

def attrsPlain (a : List (String × String)) : Bool := a.all fun p => attrPlain p.2

mutual
def treePlain : Tree → Bool
  | .txt s => textPlain s
  | .elem _ a k => attrsPlain a && treesPlain k
def treesPlain : List Tree → Bool
  | [] => true
  | t :: r => treePlain t && treesPlain r
end

theorem normAttrs_plain : ∀ a : List (String × String), attrsPlain a = true → normAttrs a = some a
  | [], _ => rfl
  | (k, v) :: r, h => by
    simp only [attrsPlain, List.all_cons, Bool.and_eq_true] at h
    have hf : hasForbidden v = false := by
      have := h.1; simp only [attrPlain, Bool.and_eq_true, Bool.not_eq_true'] at this; exact this.1
    simp [normAttrs, hf, normAttr_id v h.1, normAttrs_plain r (by simpa [attrsPlain] using h.2)]

mutual
theorem conformView_plain : ∀ t : Tree, treePlain t = true → conformView t = some t
  | .txt s, h => by
    simp only [treePlain] at h
    have hf : hasForbidden s = false := by
      have := h; simp only [textPlain, Bool.and_eq_true, Bool.not_eq_true'] at this; exact this.1
    simp [conformView, hf, normText_id s h]
  | .elem n a k, h => by
    simp only [treePlain, Bool.and_eq_true] at h
    simp [conformView, normAttrs_plain a h.1, conformViews_plain k h.2]
theorem conformViews_plain : ∀ ts : List Tree, treesPlain ts = true → conformViews ts = some ts
  | [], _ => rfl
  | t :: r, h => by
    simp only [treesPlain, Bool.and_eq_true] at h
    simp [conformViews, conformView_plain t h.1, conformViews_plain r h.2]
end

/-! ## plainness of what the writer produces -/

theorem treesPlain_append : ∀ a b : List Tree, treesPlain (a ++ b) = (treesPlain a && treesPlain b)
  | [], b => by simp [treesPlain]
  | t :: r, b => by simp [treesPlain, treesPlain_append r b, Bool.and_assoc]

theorem treesPlain_map {α : Type} (g : α → Tree) : ∀ xs : List α, (∀ x ∈ xs, treePlain (g x) = true) →
    treesPlain (xs.map g) = true
  | [], _ => rfl
  | x :: r, h => by
    simp [treesPlain, h x (by simp), treesPlain_map g r (fun y hy => h y (by simp [hy]))]

theorem treesPlain_of_forall : ∀ ts : List Tree, (∀ t ∈ ts, treePlain t = true) → treesPlain ts = true
  | [], _ => rfl
  | t :: r, h => by
    simp [treesPlain, h t (by simp), treesPlain_of_forall r (fun y hy => h y (by simp [hy]))]

theorem attrsPlain_mk : ∀ fs : List (String × Option String), (∀ p ∈ fs, optPlain p.2 = true) →
    attrsPlain (mkAttrs fs) = true
  | [], _ => rfl
  | (k, none) :: r, h => by
    simpa [mkAttrs] using attrsPlain_mk r (fun p hp => h p (by simp [hp]))
  | (k, some v) :: r, h => by
    have h1 := h (k, some v) (by simp)
    have h2 := attrsPlain_mk r (fun p hp => h p (by simp [hp]))
    simp only [optPlain] at h1
    simp only [attrsPlain] at h2
    simp [mkAttrs, attrsPlain, h1, h2]

theorem safeChar_props (ch : Char) (h : safeChar ch = true) :
    xmlForbidden ch = false ∧ (ch == '\t' || ch == '\n' || ch == '\r') = false := by
  simp only [safeChar, Bool.and_eq_true, decide_eq_true_eq] at h
  constructor
  · simp only [xmlForbidden, Bool.or_eq_false_iff, Bool.and_eq_false_imp, decide_eq_true_eq,
      beq_eq_false_iff_ne]
    refine ⟨⟨fun h' => by omega, by omega⟩, by omega⟩
  · simp only [Bool.or_eq_false_iff, beq_eq_false_iff_ne]
    refine ⟨⟨?_, ?_⟩, ?_⟩ <;> (intro e; subst e; revert h; decide)

/-- characters that are safe or the blank (an `xs:list` of numbers) are plain in an attribute -/
theorem attrPlain_of_chars (s : String) (h : ∀ ch ∈ s.toList, safeChar ch = true ∨ ch = ' ') :
    attrPlain s = true := by
  simp only [attrPlain, hasForbidden, hasAttrWs, Bool.and_eq_true, Bool.not_eq_true', List.any_eq_false]
  constructor
  · intro ch hch
    rcases h ch hch with h1 | h1
    · simp [(safeChar_props ch h1).1]
    · subst h1; decide
  · intro ch hch
    rcases h ch hch with h1 | h1
    · simp [(safeChar_props ch h1).2]
    · subst h1; decide

theorem attrPlain_of_safe (s : String) (h : s.toList.all safeChar = true) : attrPlain s = true :=
  attrPlain_of_chars s (fun ch hch => Or.inl (List.all_eq_true.1 h ch hch))

theorem textPlain_of_safe (s : String) (h : s.toList.all safeChar = true) : textPlain s = true := by
  have := attrPlain_of_safe s h
  simp only [attrPlain, textPlain, hasAttrWs, hasCR, Bool.and_eq_true, Bool.not_eq_true', List.any_eq_false] at this ⊢
  refine ⟨this.1, fun ch hch => ?_⟩
  have := this.2 ch hch
  simp only [Bool.or_eq_true, beq_iff_eq, not_or] at this
  simp [this.2]

theorem joinSp_chars (p : Char → Prop) (hsp : p ' ') : ∀ ws : List (List Char), (∀ w ∈ ws, ∀ ch ∈ w, p ch) →
    ∀ ch ∈ joinSp ws, p ch
  | [], _ => by simp [joinSp]
  | [w], h => by simpa [joinSp] using h w (by simp)
  | w :: w2 :: r, h => by
    intro ch hch
    simp only [joinSp, List.mem_append, List.mem_cons] at hch
    rcases hch with h1 | h1 | h1
    · exact h w (by simp) ch h1
    · subst h1; exact hsp
    · exact joinSp_chars p hsp (w2 :: r) (fun x hx => h x (by simp [hx])) ch h1

theorem showValues_plain {c : Codec} (L : CodecLaws c) (vs : List F32) : attrPlain (showValues c vs) = true := by
  apply attrPlain_of_chars
  unfold showValues
  simp only [String.toList_ofList]
  apply joinSp_chars (fun ch => safeChar ch = true ∨ ch = ' ') (Or.inr rfl)
  intro w hw ch hch
  simp only [List.mem_map] at hw
  obtain ⟨v, _, rfl⟩ := hw
  exact Or.inl (List.all_eq_true.1 (L.f32_safe v) ch hch)

theorem optPlain_show {c : Codec} (L : CodecLaws c) (ov : Option F32) : optPlain (ov.map c.showF32) = true := by
  cases ov with
  | none => rfl
  | some v => exact attrPlain_of_safe _ (L.f32_safe v)

end C18

namespace C18
open C18.Spec

/-! ## every node the writer produces is plain -/

@[simp] theorem optPlain_some (v : String) : optPlain (some v) = attrPlain v := rfl
@[simp] theorem optPlain_none : optPlain none = true := rfl

theorem dimension_plain {c : Codec} (L : CodecLaws c) (d : Dimension) (h : attrPlain d.name = true) :
    treePlain (dimensionNode c d) = true := by
  simp only [dimensionNode, treePlain, treesPlain, Bool.and_true]
  apply attrsPlain_mk
  simp [h, optPlain_show L]

theorem location_plain {c : Codec} (L : CodecLaws c) (l : List Dimension) (h : locXml l = true) :
    treePlain (locationNode c l) = true := by
  simp only [locXml, List.all_eq_true] at h
  simp only [locationNode, treePlain, attrsPlain, List.all_nil, Bool.true_and]
  exact treesPlain_map _ _ (fun x hx => dimension_plain L x (h x hx))

theorem map_plain {c : Codec} (L : CodecLaws c) (m : AxisMapping) : treePlain (mapNode c m) = true := by
  simp only [mapNode, treePlain, treesPlain, Bool.and_true]
  apply attrsPlain_mk
  simp [attrPlain_of_safe _ (L.f32_safe _)]

theorem axis_plain {c : Codec} (L : CodecLaws c) (a : Axis) (h : (attrPlain a.name && attrPlain a.tag) = true) :
    treePlain (axisNode c a) = true := by
  simp only [Bool.and_eq_true] at h
  simp only [axisNode, treePlain, Bool.and_eq_true]
  constructor
  · apply attrsPlain_mk
    have hv : optPlain (a.values.map (showValues c)) = true := by
      cases a.values with
      | none => rfl
      | some vs => exact showValues_plain L vs
    have hh : optPlain (if a.hidden = true then some "true" else none) = true := by
      cases a.hidden
      · rfl
      · decide
    simp [h.1, h.2, optPlain_show L, attrPlain_of_safe _ (L.f32_safe _), hv, hh]
  · cases a.map with
    | none => rfl
    | some ms => exact treesPlain_map _ _ (fun x _ => map_plain L x)

theorem rule_plain {c : Codec} (L : CodecLaws c) (r : Rule) (h : ruleXml r = true) :
    treePlain (ruleNode c r) = true := by
  simp only [ruleXml, Bool.and_eq_true, List.all_eq_true] at h
  obtain ⟨⟨h1, h2⟩, h3⟩ := h
  simp only [ruleNode, treePlain, Bool.and_eq_true, treesPlain_append]
  refine ⟨attrsPlain_mk _ (by simpa using h1), treesPlain_map _ _ ?_, treesPlain_map _ _ ?_⟩
  · intro s hs
    simp only [conditionSetNode, treePlain, attrsPlain, List.all_nil, Bool.true_and]
    apply treesPlain_map
    intro x hx
    simp only [conditionNode, treePlain, treesPlain, Bool.and_true]
    apply attrsPlain_mk
    simp [h2 s hs x hx, optPlain_show L]
  · intro s hs
    have := h3 s hs
    simp only [subNode, treePlain, treesPlain, Bool.and_true]
    apply attrsPlain_mk
    simp [this.1, this.2]

theorem rules_plain {c : Codec} (L : CodecLaws c) (r : Rules) (h : r.rules.all ruleXml = true) :
    treePlain (rulesNode c r) = true := by
  simp only [List.all_eq_true] at h
  simp only [rulesNode, treePlain, Bool.and_eq_true]
  refine ⟨attrsPlain_mk _ ?_, treesPlain_map _ _ (fun x hx => rule_plain L x (h x hx))⟩
  have : attrPlain (showProcessing r.processing) = true := by cases r.processing <;> decide
  simp [this]

theorem source_plain {c : Codec} (L : CodecLaws c) (s : Source) (h : sourceXml s = true) :
    treePlain (sourceNode c s) = true := by
  simp only [sourceXml, Bool.and_eq_true] at h
  obtain ⟨⟨⟨⟨⟨h1, h2⟩, h3⟩, h4⟩, h5⟩, h6⟩ := h
  simp only [sourceNode, treePlain, treesPlain, Bool.and_true, Bool.and_eq_true]
  exact ⟨attrsPlain_mk _ (by simp [h1, h2, h3, h4, h5]), location_plain L _ h6⟩

mutual
theorem pv_plain {c : Codec} (L : CodecLaws c) : ∀ (v : PV) (t : Tree), pvXml v = true →
    serializeWithin c v = .ok t → treePlain t = true
  | .str s, t, h, e => by
    simp only [pvXml] at h
    simp only [serializeWithin, leafInner, Out.map, Out.ok.injEq] at e
    subst e; by_cases hs : s = "" <;> simp [treePlain, treesPlain, attrsPlain, hs, h]
  | .int i, t, _, e => by
    simp only [serializeWithin, leafInner, Out.map, Out.ok.injEq] at e
    subst e
    by_cases hs : c.showInt i = "" <;>
      simp [treePlain, treesPlain, attrsPlain, hs, textPlain_of_safe _ (L.int_safe i)]
  | .real r, t, _, e => by
    simp only [serializeWithin, leafInner, Out.map, Out.ok.injEq] at e
    subst e
    by_cases hs : c.showF64 r = "" <;>
      simp [treePlain, treesPlain, attrsPlain, hs, textPlain_of_safe _ (L.f64_safe r)]
  | .bool true, t, _, e => by
    simp only [serializeWithin, Out.ok.injEq] at e; subst e; rfl
  | .bool false, t, _, e => by
    simp only [serializeWithin, Out.ok.injEq] at e; subst e; rfl
  | .data d, t, _, e => by
    simp only [serializeWithin, leafInner, Out.map, Out.ok.injEq] at e
    subst e
    by_cases hs : c.encData d = "" <;>
      simp [treePlain, treesPlain, attrsPlain, hs, textPlain_of_safe _ (L.data_safe d)]
  | .date d, t, _, e => by
    cases hd : c.showDate d with
    | none => simp [serializeWithin, leafInner, Out.map, hd] at e
    | some s =>
      simp only [serializeWithin, leafInner, Out.map, hd, Out.ok.injEq] at e
      subst e
      by_cases hs : s = "" <;>
        simp [treePlain, treesPlain, attrsPlain, hs, textPlain_of_safe _ (L.date_safe d s hd)]
  | .arr xs, t, h, e => by
    simp only [pvXml] at h
    cases ha : arrayInner c xs with
    | ok ts =>
      simp only [serializeWithin, ha, Out.map, Out.ok.injEq] at e
      subst e
      simp [treePlain, attrsPlain, pvs_plain L xs ts h ha]
    | err => simp [serializeWithin, ha, Out.map] at e
    | panic => simp [serializeWithin, ha, Out.map] at e
  | .dict kvs, t, h, e => by
    simp only [pvXml] at h
    cases ha : dictInner c kvs with
    | ok ts =>
      simp only [serializeWithin, ha, Out.map, Out.ok.injEq] at e
      subst e
      simp [treePlain, attrsPlain, kvs_plain L kvs ts h ha]
    | err => simp [serializeWithin, ha, Out.map] at e
    | panic => simp [serializeWithin, ha, Out.map] at e
  | .uid _, t, _, e => by simp [serializeWithin] at e
theorem pvs_plain {c : Codec} (L : CodecLaws c) : ∀ (xs : PVs) (ts : List Tree), pvsXml xs = true →
    arrayInner c xs = .ok ts → treesPlain ts = true
  | .nil, ts, _, e => by simp only [arrayInner, Out.ok.injEq] at e; subst e; rfl
  | .cons v r, ts, h, e => by
    simp only [pvsXml, Bool.and_eq_true] at h
    cases hv : serializeWithin c v with
    | ok t =>
      cases hr : arrayInner c r with
      | ok rs =>
        simp only [arrayInner, hv, hr, Out.bind, Out.ok.injEq] at e
        subst e
        simp [treesPlain, pv_plain L v t h.1 hv, pvs_plain L r rs h.2 hr]
      | err => simp [arrayInner, hv, hr, Out.bind] at e
      | panic => simp [arrayInner, hv, hr, Out.bind] at e
    | err => simp [arrayInner, hv, Out.bind] at e
    | panic => simp [arrayInner, hv, Out.bind] at e
theorem kvs_plain {c : Codec} (L : CodecLaws c) : ∀ (kvs : KVs) (ts : List Tree), kvsXml kvs = true →
    dictInner c kvs = .ok ts → treesPlain ts = true
  | .nil, ts, _, e => by simp only [dictInner, Out.ok.injEq] at e; subst e; rfl
  | .cons k v r, ts, h, e => by
    simp only [kvsXml, Bool.and_eq_true] at h
    cases hv : serializeWithin c v with
    | ok t =>
      cases hr : dictInner c r with
      | ok rs =>
        simp only [dictInner, hv, hr, Out.bind, Out.ok.injEq] at e
        subst e
        have hk : treePlain (textElem "key" k) = true := by
          by_cases hs : k = "" <;> simp [textElem, treePlain, treesPlain, attrsPlain, hs, h.1.1]
        simp [treesPlain, hk, pv_plain L v t h.1.2 hv, kvs_plain L r rs h.2 hr]
      | err => simp [dictInner, hv, hr, Out.bind] at e
      | panic => simp [dictInner, hv, hr, Out.bind] at e
    | err => simp [dictInner, hv, Out.bind] at e
    | panic => simp [dictInner, hv, Out.bind] at e
end

theorem lib_plain {c : Codec} (L : CodecLaws c) (l : KVs) (ls : List Tree) (h : kvsXml l = true)
    (e : libNodes c l = .ok ls) : treesPlain ls = true := by
  cases l with
  | nil => simp only [libNodes, Out.ok.injEq] at e; subst e; rfl
  | cons k v r =>
    cases hd : dictInner c (.cons k v r) with
    | ok ts =>
      simp only [libNodes, hd, Out.map, Out.ok.injEq] at e
      subst e
      simp [treesPlain, treePlain, attrsPlain, kvs_plain L _ ts h hd]
    | err => simp [libNodes, hd, Out.map] at e
    | panic => simp [libNodes, hd, Out.map] at e

theorem instance_plain {c : Codec} (L : CodecLaws c) (i : Instance) (t : Tree) (h : instanceXml i = true)
    (e : instanceNode c i = .ok t) : treePlain t = true := by
  simp only [instanceXml, Bool.and_eq_true] at h
  obtain ⟨⟨⟨⟨⟨⟨⟨⟨h1, h2⟩, h3⟩, h4⟩, h5⟩, h6⟩, h7⟩, h8⟩, h9⟩ := h
  cases hl : libNodes c i.lib with
  | ok ls =>
    simp only [instanceNode, hl, Out.map, Out.ok.injEq] at e
    subst e
    simp only [treePlain, treesPlain, Bool.and_eq_true]
    exact ⟨attrsPlain_mk _ (by simp [h1, h2, h3, h4, h5, h6, h7]), location_plain L _ h8,
      lib_plain L _ ls h9 hl⟩
  | err => simp [instanceNode, hl, Out.map] at e
  | panic => simp [instanceNode, hl, Out.map] at e

theorem instances_plain {c : Codec} (L : CodecLaws c) : ∀ (is : List Instance) (ts : List Tree),
    (∀ i ∈ is, instanceXml i = true) → instanceNodes c is = .ok ts → treesPlain ts = true
  | [], ts, _, e => by simp only [instanceNodes, Out.ok.injEq] at e; subst e; rfl
  | i :: r, ts, h, e => by
    cases hv : instanceNode c i with
    | ok t =>
      cases hr : instanceNodes c r with
      | ok rs =>
        simp only [instanceNodes, hv, hr, Out.bind, Out.ok.injEq] at e
        subst e
        simp [treesPlain, instance_plain L i t (h i (by simp)) hv,
          instances_plain L r rs (fun x hx => h x (by simp [hx])) hr]
      | err => simp [instanceNodes, hv, hr, Out.bind] at e
      | panic => simp [instanceNodes, hv, hr, Out.bind] at e
    | err => simp [instanceNodes, hv, Out.bind] at e
    | panic => simp [instanceNodes, hv, Out.bind] at e

theorem wrapList_plain (n : String) (items : List Tree) (h : treesPlain items = true) :
    treesPlain (wrapList n items) = true := by
  unfold wrapList
  by_cases he : items.isEmpty = true <;> simp [he, treesPlain, treePlain, attrsPlain, h]

/-- the tree `toTree` writes for an `XmlSafe` document is read unchanged by a conforming processor -/
theorem toTree_plain {c : Codec} (L : CodecLaws c) (d : Doc) (t : Tree) (h : XmlSafe d = true)
    (e : toTree c d = .ok t) : treePlain t = true := by
  simp only [XmlSafe, Bool.and_eq_true, List.all_eq_true] at h
  obtain ⟨⟨⟨⟨h1, h2⟩, h3⟩, h4⟩, h5⟩ := h
  cases hi : instanceNodes c d.instances with
  | ok insts =>
    cases hl : libNodes c d.lib with
    | ok ls =>
      simp only [toTree, hi, hl, Out.bind, Out.ok.injEq] at e
      subst e
      simp only [treePlain, Bool.and_eq_true, treesPlain_append]
      refine ⟨attrsPlain_mk _ (by simp [attrPlain_of_safe _ (L.f32_safe _)]),
        ⟨⟨⟨wrapList_plain _ _ (treesPlain_map _ _ (fun a ha => axis_plain L a (by simpa using h1 a ha))), ?_⟩,
          wrapList_plain _ _ (treesPlain_map _ _ (fun s hs => source_plain L s (h3 s hs)))⟩,
          wrapList_plain _ _ (instances_plain L _ insts h4 hi)⟩, lib_plain L _ ls h5 hl⟩
      by_cases hr : rulesIsEmpty d.rules = true
      · simp [hr, treesPlain]
      · simp [hr, treesPlain, rules_plain L d.rules (by simpa [List.all_eq_true] using h2)]
    | err => simp [toTree, hi, hl, Out.bind] at e
    | panic => simp [toTree, hi, hl, Out.bind] at e
  | err => simp [toTree, hi, Out.bind] at e
  | panic => simp [toTree, hi, Out.bind] at e

end C18
