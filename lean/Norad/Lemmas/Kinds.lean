import Norad.Lemmas.SafePlan
/-!
Kind tracking: which paths exist after a successful run of normal-form effects, and of which kind
(`false` = directory, `true` = plain file).  Used by C09's `exactly_the_determined_files`.
-/
namespace FontSave
open AbsFS
open Path (Comp)

variable {β : Type}

def kindOf : Node β → Bool
  | .file _ => true
  | .dir => false

/-- the kind of the node at `q`, if there is one -/
def kindAt (fs : FS β) (q : APath) : Option Bool := (node fs q).map kindOf

/-- the paths (with kind) a successful effect makes exist -/
def EffPath : NEff β → APath → Bool → Prop
  | .mkdir l, q, k => q = l ∧ k = false
  | .write l _, q, k => q = l ∧ k = true
  | .mkdirAll l, q, k => q <+: l ∧ k = false
  | .fail _, _, _ => False

theorem kindAt_root (fs : FS β) : kindAt fs [] = some false := by simp [kindAt, node, kindOf]

theorem kindAt_of_lookup_eq {g g' : FS β} {q : APath} (h : lookup g' q = lookup g q) : kindAt g' q = kindAt g q := by
  unfold kindAt node; rw [h]

theorem kindAt_dir {g : FS β} {q : APath} (h : isDir g q = true) : kindAt g q = some false := by
  rw [isDir_iff] at h; simp [kindAt, h, kindOf]

/-- **per-effect kind tracking**: after a successful effect a path has kind `k` iff it had it before or the effect
    made it so -/
theorem runEff_kinds (e : NEff β) {g g' : FS β} (h : runEff e.toEff g = (none, g')) (q : APath) (k : Bool) :
    kindAt g' q = some k ↔ (kindAt g q = some k ∨ EffPath e q k) := by
  cases e with
  | mkdir l =>
    simp only [NEff.toEff, runEff] at h
    cases hm : mkdir g (tC l) with
    | error x => simp [hm] at h
    | ok a =>
      simp only [hm] at h; cases h
      obtain ⟨hne, hnone, rfl, _⟩ := mkdir_tC hm
      simp only [EffPath]
      by_cases hq : l = q
      · subst hq
        have h1 : kindAt (AbsFS.set g l .dir) l = some false := by simp [kindAt, node_set _ _ _ _ hne, kindOf]
        have h2 : kindAt g l = none := by simp [kindAt, hnone]
        rw [h1, h2]; simp
      · have h1 : kindAt (AbsFS.set g l .dir) q = kindAt g q := kindAt_of_lookup_eq (lookup_set_ne g _ hq)
        rw [h1]
        have : ¬ q = l := fun e => hq e.symm
        simp [this]
  | write l b =>
    simp only [NEff.toEff, runEff] at h
    cases hm : writeFile g (tC l) b with
    | error x => simp [hm] at h
    | ok a =>
      simp only [hm] at h; cases h
      obtain ⟨hne, hnd, rfl, _⟩ := writeFile_tC hm
      simp only [EffPath]
      by_cases hq : l = q
      · subst hq
        have h1 : kindAt (AbsFS.set g l (.file b)) l = some true := by simp [kindAt, node_set _ _ _ _ hne, kindOf]
        rw [h1]
        constructor
        · intro hk; cases hk; exact Or.inr ⟨rfl, rfl⟩
        · intro hk
          rcases hk with hk | hk
          · -- an existing node at `l` that is not a directory is a file
            unfold kindAt at hk
            cases hn : node g l with
            | none => simp [hn] at hk
            | some n =>
              cases n with
              | dir => rw [isDir, hn] at hnd; cases hnd
              | file c => simp [hn, kindOf] at hk; rw [hk]
          · rw [hk.2]
      · have h1 : kindAt (AbsFS.set g l (.file b)) q = kindAt g q := kindAt_of_lookup_eq (lookup_set_ne g _ hq)
        rw [h1]
        have : ¬ q = l := fun e => hq e.symm
        simp [this]
  | mkdirAll l =>
    have eg : g' = (mkdirAll g (tC l)).1 := by
      rw [← runEff_mkdirAll_snd]; simp only [NEff.toEff] at h; rw [h]
    have hok : (mkdirAll g (tC l)).2 = none := by
      simp only [NEff.toEff, runEff] at h
      generalize mkdirAll g (tC l) = r at h
      obtain ⟨x, o⟩ := r
      cases o with
      | none => rfl
      | some y => simp at h
    subst eg
    simp only [EffPath]
    by_cases hc : lookup (mkdirAll g (tC l)).1 q = lookup g q
    · rw [kindAt_of_lookup_eq hc]
      constructor
      · exact Or.inl
      · intro hk
        rcases hk with hk | ⟨hpre, hkf⟩
        · exact hk
        · subst hkf
          by_cases hq0 : q = []
          · subst hq0; exact kindAt_root g
          · rw [← kindAt_of_lookup_eq hc]
            exact kindAt_dir (mkdirAll_tC_dirs g l hok q hpre hq0)
    · obtain ⟨hpre, hq0, hnone, hdir⟩ := mkdirAll_tC_changes g l q hc
      have h1 : kindAt (mkdirAll g (tC l)).1 q = some false := by
        simp [kindAt, node_of_ne_nil _ hq0, hdir, kindOf]
      have h2 : kindAt g q = none := by simp [kindAt, hnone]
      rw [h1, h2]
      simp only [reduceCtorEq, false_or, Option.some.injEq]
      constructor
      · intro hk; exact ⟨hpre, hk.symm⟩
      · intro hk; exact hk.2.symm
  | fail x => simp [NEff.toEff, runEff] at h

theorem runN_kinds (es : List (NEff β)) :
    ∀ {g g' : FS β}, runN es g = (none, g') → ∀ q k,
      (kindAt g' q = some k ↔ (kindAt g q = some k ∨ ∃ e ∈ es, EffPath e q k)) := by
  induction es with
  | nil =>
    intro g g' h q k
    simp only [runN, List.map, runEffs] at h
    cases h; simp
  | cons e r ih =>
    intro g g' h q k
    obtain ⟨g2, h1, h2⟩ := (by
      simp only [runN, List.map, runEffs] at h
      generalize hr : runEff e.toEff g = res at h
      obtain ⟨o, x⟩ := res
      cases o with
      | none => exact ⟨x, rfl, h⟩
      | some y => simp at h : ∃ g2, runEff e.toEff g = (none, g2) ∧ runN r g2 = (none, g'))
    rw [ih h2 q k, runEff_kinds e h1 q k]
    simp only [List.mem_cons, exists_eq_or_imp]
    constructor
    · rintro ((h | h) | h)
      · exact Or.inl h
      · exact Or.inr (Or.inl h)
      · exact Or.inr (Or.inr h)
    · rintro (h | h | h)
      · exact Or.inl (Or.inl h)
      · exact Or.inl (Or.inr h)
      · exact Or.inr h

/-- a successful run contains no `fail` effect -/
theorem runN_no_fail (es : List (NEff β)) :
    ∀ {g g' : FS β}, runN es g = (none, g') → ∀ x, NEff.fail x ∉ es := by
  induction es with
  | nil => intro g g' _ x hx; cases hx
  | cons e r ih =>
    intro g g' h x hx
    simp only [runN, List.map, runEffs] at h
    generalize hr : runEff e.toEff g = res at h
    obtain ⟨o, y⟩ := res
    cases o with
    | some z => simp at h
    | none =>
      rcases List.mem_cons.mp hx with h1 | h1
      · subst h1; simp [NEff.toEff, runEff] at hr
      · exact ih h x h1

end FontSave
