import Norad.Lemmas.RoundTrip
/-!
# Assembly lemmas for `font_roundtrip` (C01): what `loadFont (saveFont f)` is, part by part
-/
namespace RT

/-- What is assumed of the un-modelled parts — one NAMED field per hypothesis; `Props/C01Bridge.lean`
    says which theorem of which property discharges each of them for norad's own codecs. -/
structure PartLaws (P : Parts) where
  /-- guard of the glif round trip -/
  glyphOK : P.Glyph → Prop
  /-- what the parser returns for a written glyph (colour to 3 decimals, …) -/
  normGlyph : P.Glyph → P.Glyph
  /-- **glyph files** — C02 `glif_roundtrip_partial_no_object_libs` / `parse_encode` -/
  glyph_rt : ∀ g, glyphOK g → P.decGlyph (P.encGlyph g) = some (normGlyph g)
  /-- **other font-info fields** — serde field table ↔ plist dictionary for a valid value -/
  rest_rt : ∀ r, P.restValid r = true → P.decRest (P.encRest r) = some r

/-- needed for C04 only: a glyph that was read back is inside the guard again -/
structure NormLaws {P : Parts} (L : PartLaws P) : Prop where
  norm_ok : ∀ g, L.glyphOK g → L.glyphOK (L.normGlyph g)

/-- the laws hold trivially for opaque tokens -/
def tokenLaws : PartLaws tokenParts where
  glyphOK := fun _ => True
  normGlyph := id
  glyph_rt := fun _ _ => rfl
  rest_rt := fun _ _ => rfl

theorem tokenNorm : NormLaws tokenLaws := ⟨fun _ _ => trivial⟩

variable {P : Parts} (L : PartLaws P)

/-! ## generic list facts -/

theorem nodupS_cons (a : String) (r : List String) : nodupS (a :: r) = true ↔ a ∉ r ∧ nodupS r = true := by
  simp [nodupS]

theorem lookupS_map {α β : Type} (key : α → String) (val : α → β) (ls : List α)
    (h : nodupS (ls.map key) = true) (x : α) (hx : x ∈ ls) :
    lookupS (key x) (ls.map fun y => (key y, val y)) = some (val x) := by
  induction ls with
  | nil => cases hx
  | cons y r ih =>
    simp only [List.map_cons, nodupS_cons] at h
    simp only [List.map_cons, lookupS]
    rcases List.mem_cons.1 hx with rfl | hx'
    · simp
    · have hne : key y ≠ key x := by
        intro he
        exact h.1 (he ▸ List.mem_map_of_mem hx')
      simp [hne, ih h.2 hx']

theorem lookupKV_append_ne (k k' : String) (v : PV) (l : Dict) (h : k' ≠ k) :
    lookupKV k (l ++ [(k', v)]) = lookupKV k l := by
  induction l with
  | nil => simp [lookupKV, h]
  | cons a r ih => obtain ⟨ak, av⟩ := a; simp only [List.cons_append, lookupKV, ih]

theorem lookupKV_append_self (k : String) (v : PV) (l : Dict) (h : lookupKV k l = none) :
    lookupKV k (l ++ [(k, v)]) = some v := by
  induction l with
  | nil => simp [lookupKV]
  | cons a r ih =>
    obtain ⟨ak, av⟩ := a
    simp only [lookupKV] at h
    split at h
    · cases h
    · rename_i hne; simp only [List.cons_append, lookupKV, hne, if_false, ih h]

theorem lookupKV_erase_ne (k j : String) (l : Dict) (h : j ≠ k) : lookupKV j (eraseKV k l) = lookupKV j l := by
  induction l with
  | nil => rfl
  | cons a r ih =>
    obtain ⟨ak, av⟩ := a
    simp only [eraseKV]
    split
    · rename_i he; subst he
      simp only [lookupKV, ih]
      simp [Ne.symm h]
    · simp only [lookupKV, ih]

theorem lookupKV_erase_self (k : String) (l : Dict) : lookupKV k (eraseKV k l) = none := by
  induction l with
  | nil => rfl
  | cons a r ih =>
    obtain ⟨ak, av⟩ := a
    simp only [eraseKV]
    split
    · exact ih
    · rename_i hne; simp only [lookupKV, hne, if_false, ih]

theorem lookup_sortDict (k : String) (d : Dict) : lookupKV k (sortDict d) = (lookupKV k d).map sortRec := by
  simp [sortDict, lookup_sortKV, lookup_sortRecL]

theorem sortDict_nil : sortDict [] = [] := by simp [sortDict, sortRecL, sortKV]

theorem sortDict_isEmpty (d : Dict) : (sortDict d).isEmpty = d.isEmpty := by
  cases d with
  | nil => simp [sortDict_nil]
  | cons a r =>
    have : (sortDict (a :: r)).length = (a :: r).length := by simp [sortDict, length_sortKV, length_sortRecL]
    cases h : sortDict (a :: r) with
    | nil => rw [h] at this; simp at this
    | cons _ _ => simp

/-! ## object libs out and back -/

def objLibsOf : List Guide → Dict
  | [] => []
  | g :: r =>
    match g.lib, g.id with
    | some l, some i => (i, PV.dict l) :: objLibsOf r
    | _, _ => objLibsOf r

def LibsHaveIds (gs : List Guide) : Prop := ∀ g ∈ gs, ∀ l, g.lib = some l → ∃ i, g.id = some i

theorem dumpObjectLibs_ok (gs : List Guide) (h : LibsHaveIds gs) : dumpObjectLibs gs = .ok (objLibsOf gs) := by
  induction gs with
  | nil => rfl
  | cons g r ih =>
    have hr : LibsHaveIds r := fun g' hg' => h g' (List.mem_cons_of_mem _ hg')
    simp only [dumpObjectLibs, ih hr, objLibsOf]
    cases hl : g.lib with
    | none => simp
    | some l =>
      obtain ⟨i, hi⟩ := h g (List.mem_cons_self ..) l hl
      simp [hi]

def sortGuide (g : Guide) : Guide := { g with lib := g.lib.map sortDict }
def toGuideF (g : Guide) : GuideF := { id := g.id, rest := g.rest }

theorem idsNodup_cons_some (i : String) (r : List (Option String)) :
    idsNodup (some i :: r) = true ↔ some i ∉ r ∧ idsNodup r = true := by
  simp [idsNodup]

theorem attachLibs_spec (gs : List Guide) : ∀ (d : Dict), idsNodup (gs.map (·.id)) = true → LibsHaveIds gs →
    (∀ g ∈ gs, ∀ i, g.id = some i → lookupKV i d = g.lib.map (fun l => PV.dict (sortDict l))) →
    attachLibs (gs.map toGuideF) d = .ok (gs.map sortGuide) := by
  induction gs with
  | nil => intro d _ _ _; rfl
  | cons g r ih =>
    intro d hn hl hd
    have hlr : LibsHaveIds r := fun g' hg' => hl g' (List.mem_cons_of_mem _ hg')
    cases hid : g.id with
    | none =>
      have hlib : g.lib = none := by
        cases hg : g.lib with
        | none => rfl
        | some l => obtain ⟨i, hi⟩ := hl g (List.mem_cons_self ..) l hg; rw [hid] at hi; cases hi
      have hn' : idsNodup (r.map (·.id)) = true := by simpa [idsNodup, hid] using hn
      have := ih d hn' hlr (fun g' hg' => hd g' (List.mem_cons_of_mem _ hg'))
      simp only [List.map_cons, attachLibs, toGuideF, hid, this, sortGuide, hlib, Option.map_none]
    | some i =>
      have hn2 : some i ∉ r.map (·.id) ∧ idsNodup (r.map (·.id)) = true := by
        have := hn; simp only [List.map_cons, hid] at this; exact (idsNodup_cons_some i _).1 this
      have hlk := hd g (List.mem_cons_self ..) i hid
      cases hlib : g.lib with
      | none =>
        rw [hlib] at hlk
        have := ih d hn2.2 hlr (fun g' hg' => hd g' (List.mem_cons_of_mem _ hg'))
        simp only [List.map_cons, attachLibs, toGuideF, hid, hlk, Option.map_none, this, sortGuide, hlib]
      | some l =>
        rw [hlib] at hlk
        have hrest : ∀ g' ∈ r, ∀ j, g'.id = some j →
            lookupKV j (eraseKV i d) = g'.lib.map (fun l => PV.dict (sortDict l)) := by
          intro g' hg' j hj
          have hne : j ≠ i := by
            intro he; subst he
            exact hn2.1 (hj ▸ List.mem_map_of_mem (f := (·.id)) hg')
          rw [lookupKV_erase_ne _ _ _ hne]
          exact hd g' (List.mem_cons_of_mem _ hg') j hj
        have := ih (eraseKV i d) hn2.2 hlr hrest
        simp only [List.map_cons, attachLibs, toGuideF, hid, hlk, Option.map_some, this, sortGuide, hlib]

theorem lookup_objLibsOf (gs : List Guide) (hn : idsNodup (gs.map (·.id)) = true) :
    ∀ g ∈ gs, ∀ i, g.id = some i → lookupKV i (objLibsOf gs) = g.lib.map PV.dict := by
  induction gs with
  | nil => intro g hg; cases hg
  | cons g0 r ih =>
    intro g hg i hi
    cases hid0 : g0.id with
    | none =>
      have hn' : idsNodup (r.map (·.id)) = true := by simpa [idsNodup, hid0] using hn
      have hobj : objLibsOf (g0 :: r) = objLibsOf r := by
        simp only [objLibsOf, hid0]; cases g0.lib <;> rfl
      rw [hobj]
      rcases List.mem_cons.1 hg with rfl | hg'
      · rw [hid0] at hi; cases hi
      · exact ih hn' g hg' i hi
    | some i0 =>
      have hn2 : some i0 ∉ r.map (·.id) ∧ idsNodup (r.map (·.id)) = true := by
        have := hn; simp only [List.map_cons, hid0] at this; exact (idsNodup_cons_some i0 _).1 this
      rcases List.mem_cons.1 hg with rfl | hg'
      · rw [hid0] at hi; cases hi
        cases hl : g.lib with
        | none =>
          simp only [objLibsOf, hl, Option.map_none]
          -- no other guideline carries this identifier
          have : ∀ (r : List Guide), some i ∉ r.map (·.id) → lookupKV i (objLibsOf r) = none := by
            intro r
            induction r with
            | nil => intro _; rfl
            | cons x xs ihx =>
              intro hx
              simp only [List.map_cons, List.mem_cons, not_or] at hx
              simp only [objLibsOf]
              cases hxl : x.lib with
              | none => exact ihx hx.2
              | some xl =>
                cases hxi : x.id with
                | none => exact ihx hx.2
                | some xi =>
                  have : xi ≠ i := by intro he; subst he; exact hx.1 (by rw [hxi])
                  simp [lookupKV, this, ihx hx.2]
          exact this r hn2.1
        | some l => simp [objLibsOf, hl, hid0, lookupKV]
      · have hne : i0 ≠ i := by
          intro he; subst he
          exact hn2.1 (hi ▸ List.mem_map_of_mem (f := (·.id)) hg')
        have hrec := ih hn2.2 g hg' i hi
        simp only [objLibsOf, hid0]
        cases g0.lib with
        | none => exact hrec
        | some l0 => simp [lookupKV, hne, hrec]

theorem objLibsOf_nil_libs (gs : List Guide) (hl : LibsHaveIds gs) (h : objLibsOf gs = []) :
    ∀ g ∈ gs, g.lib = none := by
  induction gs with
  | nil => intro g hg; cases hg
  | cons g0 r ih =>
    have hlr : LibsHaveIds r := fun g' hg' => hl g' (List.mem_cons_of_mem _ hg')
    intro g hg
    cases hl0 : g0.lib with
    | none =>
      have : objLibsOf r = [] := by simpa [objLibsOf, hl0] using h
      rcases List.mem_cons.1 hg with rfl | hg'
      · exact hl0
      · exact ih hlr this g hg'
    | some l =>
      obtain ⟨i, hi⟩ := hl g0 (List.mem_cons_self ..) l hl0
      simp [objLibsOf, hl0, hi] at h

theorem sortGuide_of_noLib (gs : List Guide) (h : ∀ g ∈ gs, g.lib = none) :
    plainGuides (gs.map toGuideF) = gs.map sortGuide := by
  induction gs with
  | nil => rfl
  | cons g r ih =>
    have h0 := h g (List.mem_cons_self ..)
    have := ih (fun g' hg' => h g' (List.mem_cons_of_mem _ hg'))
    simp only [plainGuides, List.map_cons, List.map_map] at this ⊢
    rw [this]
    cases g; simp_all [toGuideF, sortGuide]

/-! ## layers -/

def milliCol (c : ColV) : ColV :=
  ColV.milli (saveColor c).1 (saveColor c).2.1 (saveColor c).2.2.1 (saveColor c).2.2.2

/-- what a layer is after save + load: colour to three decimals, lib with sorted keys -/
def normE (g : (GlyphE P)) : (GlyphE P) := { g with tok := L.normGlyph g.tok }

def rtLayer (l : (Layer P)) : (Layer P) :=
  { l with color := l.color.map milliCol, lib := sortDict l.lib, glyphs := l.glyphs.map (normE L) }

theorem loadGlyphs_spec (l : (Layer P)) (h : nodupS (l.glyphs.map (·.file)) = true)
    (hok : ∀ g ∈ l.glyphs, L.glyphOK g.tok) :
    ∀ xs : List (GlyphE P), (∀ x ∈ xs, x ∈ l.glyphs) →
      loadGlyphs (saveLayerDir l) (xs.map fun g => (g.name, g.file)) = some (xs.map (normE L)) := by
  intro xs
  induction xs with
  | nil => intro _; rfl
  | cons g r ih =>
    intro hx
    have hg : g ∈ l.glyphs := hx g (List.mem_cons_self ..)
    have hr := ih (fun x hx' => hx x (List.mem_cons_of_mem _ hx'))
    have hl : lookupS g.file (saveLayerDir l).glifs = some (P.encGlyph g.tok) := by
      simpa [saveLayerDir] using lookupS_map (·.file) (fun x => P.encGlyph x.tok) l.glyphs h g hg
    simp only [List.map_cons, loadGlyphs, hl, hr, Option.bind_some, L.glyph_rt g.tok (hok g hg), normE]

theorem loadLayer_spec (l : (Layer P)) (h : nodupS (l.glyphs.map (·.file)) = true)
    (hok : ∀ g ∈ l.glyphs, L.glyphOK g.tok) :
    loadLayer l.name l.dir (saveLayerDir l) = some (rtLayer L l) := by
  have hg : loadGlyphs (saveLayerDir l) (saveLayerDir l).contents = some (l.glyphs.map (normE L)) := by
    simpa [saveLayerDir] using loadGlyphs_spec L l h hok l.glyphs (fun _ hx => hx)
  unfold loadLayer
  rw [hg]
  simp only [saveLayerDir, saveLayerInfo, rtLayer]
  by_cases hc : (l.color.isNone && l.lib.isEmpty) = true
  · simp only [hc, if_true, Option.bind_none, Option.map_none, Option.getD_none]
    simp only [Bool.and_eq_true, Option.isNone_iff_eq_none, List.isEmpty_iff] at hc
    simp [hc.1, hc.2, sortDict_nil]
  · simp only [hc]
    by_cases he : l.lib.isEmpty = true
    · have : l.lib = [] := List.isEmpty_iff.1 he
      simp [this, sortDict_nil, Option.map_map, Function.comp_def]; rfl
    · simp [he, Option.map_map, Function.comp_def]; rfl

theorem loadLayers_spec (ls : List (Layer P)) (t : (Tree P))
    (ht : t.dirs = ls.map (fun l => (l.dir, saveLayerDir l)))
    (hd : nodupS (ls.map (·.dir)) = true)
    (hf : ∀ l ∈ ls, nodupS (l.glyphs.map (·.file)) = true)
    (hok : ∀ l ∈ ls, ∀ g ∈ l.glyphs, L.glyphOK g.tok) :
    ∀ xs : List (Layer P), (∀ x ∈ xs, x ∈ ls) →
      loadLayers t (xs.map fun l => (l.name, l.dir)) = .ok (xs.map (rtLayer L)) := by
  intro xs
  induction xs with
  | nil => intro _; rfl
  | cons l r ih =>
    intro hx
    have hl : l ∈ ls := hx l (List.mem_cons_self ..)
    have hr := ih (fun x hx' => hx x (List.mem_cons_of_mem _ hx'))
    have hlk : lookupS l.dir t.dirs = some (saveLayerDir l) := by
      rw [ht]; exact lookupS_map (·.dir) saveLayerDir ls hd l hl
    simp only [List.map_cons, loadLayers, hlk, loadLayer_spec L l (hf l hl) (hok l hl), hr]

/-! ## the whole font -/

/-- the validity that `Font::save` relies on, as far as this model sees it: format 3, the reserved lib
    key absent, guideline identifiers unique and present where a lib is attached (guaranteed by
    `replace_lib`), layer directories distinct with the default layer first and glif file names
    distinct inside a layer (the container invariant of C06) -/
structure ValidFont (f : (Font P)) : Prop where
  fv : f.fv = 3
  noKey : lookupKV objectLibsKey f.lib = none
  ids : idsNodup ((f.info.guides.getD []).map (·.id)) = true
  libIds : LibsHaveIds (f.info.guides.getD [])
  dirs : nodupS (f.layers.map (·.dir)) = true
  defFirst : ∃ l r, f.layers = l :: r ∧ l.dir = glyphsDir
  files : ∀ l ∈ f.layers, nodupS (l.glyphs.map (·.file)) = true
  /-- every glyph is inside the guard of the glif round trip (C02) -/
  glyphsOK : ∀ l ∈ f.layers, ∀ g ∈ l.glyphs, L.glyphOK g.tok
  /-- the other font-info fields pass `FontInfo::validate` (C13 `validate_iff_rules`: iff the rules hold) -/
  restValid : restOK f.info = true

def rtLib (f : (Font P)) : Dict :=
  if (objLibsOf (f.info.guides.getD [])).isEmpty then sortDict f.lib
  else eraseKV objectLibsKey (sortDict (f.lib ++ [(objectLibsKey, PV.dict (objLibsOf (f.info.guides.getD [])))]))

def rtInfo (i : (Info P)) : (Info P) :=
  { nums := loadNums (saveNums i.nums), upm := (i.upm.map (writeWith upmWrite)).map readNum,
    guides := i.guides.map (·.map sortGuide), rest := i.rest }

/-- the font that `load(save(f))` returns -/
def rtFont (f : (Font P)) : (Font P) :=
  { creator := some defaultCreator, fv := 3, minor := if f.creator = some defaultCreator then f.minor else 0,
    info := rtInfo f.info, lib := rtLib f, groups := f.groups,
    kerning := loadKerning (saveKerning f.kerning), features := crlfToLf f.features,
    layers := f.layers.map (rtLayer L), data := f.data, images := f.images }

theorem saveFont_ok (f : (Font P)) (hv : ValidFont L f) :
    saveFont f = .ok (mkTree f (objLibsOf (f.info.guides.getD []))) := by
  unfold saveFont
  simp [hv.fv, hv.noKey, hv.ids, hv.restValid, dumpObjectLibs_ok _ hv.libIds, hv.dirs]

theorem gate_groups (g : List (String × List String)) : (if g.isEmpty = true then none else some g).getD [] = g := by
  cases g <;> simp

theorem gate_kerning (k : List (String × List (String × NumV))) :
    ((if k.isEmpty = true then none else some (saveKerning k)).map loadKerning).getD [] = loadKerning (saveKerning k) := by
  cases k <;> simp [saveKerning, loadKerning]

theorem gate_features (s : List Char) : (if s.isEmpty = true then none else some (crlfToLf s)).getD [] = crlfToLf s := by
  cases s <;> simp [crlfToLf]

theorem saveInfo_ids (i : (Info P)) :
    ((saveInfo i).guides.getD []).map (·.id) = (i.guides.getD []).map (·.id) := by
  unfold saveInfo
  cases i.guides <;> simp

theorem saveInfo_guides (i : (Info P)) : (saveInfo i).guides = i.guides.map (·.map toGuideF) := rfl

theorem sortRec_dict (l : Dict) : sortRec (PV.dict l) = PV.dict (sortDict l) := by simp [sortRec, sortDict]

/-- the un-modelled fields of a valid font info come back as they were (law `rest_rt`) -/
theorem loadRest_saved (L : PartLaws P) (i : (Info P)) (h : restOK i = true) :
    loadRest (saveInfo i).rest = some i.rest := by
  unfold restOK at h
  simp only [saveInfo, loadRest]
  cases hr : i.rest with
  | none => rfl
  | some r =>
    rw [hr] at h
    simp only at h
    simp [L.rest_rt r h, h]

theorem loadInfo_spec (f : (Font P)) (hv : ValidFont L f) :
    loadInfo (saveInfo f.info)
      ((if (if (objLibsOf (f.info.guides.getD [])).isEmpty = true then f.lib
            else f.lib ++ [(objectLibsKey, PV.dict (objLibsOf (f.info.guides.getD [])))]).isEmpty = true then none
        else some (sortDict (if (objLibsOf (f.info.guides.getD [])).isEmpty = true then f.lib
            else f.lib ++ [(objectLibsKey, PV.dict (objLibsOf (f.info.guides.getD [])))]))).getD [])
      = .ok (rtInfo f.info, rtLib f) := by
  unfold loadInfo
  rw [saveInfo_ids, hv.ids, loadRest_saved L f.info hv.restValid]
  simp only [Bool.not_true, Bool.false_eq_true, if_false]
  by_cases hol : (objLibsOf (f.info.guides.getD [])).isEmpty = true
  · -- no object libs: the lib is written as it is (sorted), nothing to move back
    have hol' : objLibsOf (f.info.guides.getD []) = [] := List.isEmpty_iff.1 hol
    have hlib0 : (if f.lib.isEmpty = true then none else some (sortDict f.lib)).getD [] = sortDict f.lib := by
      cases hl : f.lib with
      | nil => simp [sortDict_nil]
      | cons a r => simp
    simp only [hol, if_true, hlib0, lookup_sortDict, hv.noKey, Option.map_none]
    have hnl := objLibsOf_nil_libs _ hv.libIds hol'
    have hg : (saveInfo f.info).guides.map plainGuides = f.info.guides.map (·.map sortGuide) := by
      rw [saveInfo_guides]
      cases hgs : f.info.guides with
      | none => rfl
      | some gs =>
        rw [hgs] at hnl
        simp only [Option.map_some, Option.some.injEq]
        exact sortGuide_of_noLib gs hnl
    simp only [rtInfo, rtLib, hol, if_true, hg]
    rfl
  · -- object libs present: they travel under the reserved key and are handed back to the guidelines
    have hne : (f.lib ++ [(objectLibsKey, PV.dict (objLibsOf (f.info.guides.getD [])))]).isEmpty = false := by
      cases f.lib <;> simp
    simp only [hol, if_false, hne, Bool.false_eq_true, Option.getD_some, lookup_sortDict,
      lookupKV_append_self _ _ _ hv.noKey, Option.map_some, sortRec_dict]
    cases hgs : f.info.guides with
    | none => rw [hgs] at hol; simp [objLibsOf] at hol
    | some gs =>
      rw [saveInfo_guides, hgs]
      simp only [Option.map_some]
      have hids : idsNodup (gs.map (·.id)) = true := by have := hv.ids; rw [hgs] at this; exact this
      have hli : LibsHaveIds gs := by have := hv.libIds; rw [hgs] at this; exact this
      have hprem : ∀ g ∈ gs, ∀ i, g.id = some i →
          lookupKV i (sortDict (objLibsOf gs)) = g.lib.map (fun l => PV.dict (sortDict l)) := by
        intro g hg i hi
        rw [lookup_sortDict, lookup_objLibsOf gs hids g hg i hi]
        cases g.lib <;> simp [sortRec_dict]
      have hat := attachLibs_spec gs (sortDict (objLibsOf gs)) hids hli hprem
      simp only [Option.getD_some] at hat ⊢
      rw [hat]
      have hol2 : ¬ (objLibsOf gs).isEmpty = true := by simpa [hgs] using hol
      simp only [rtInfo, rtLib, hgs, Option.getD_some, hol2, Option.map_some, saveInfo]
      simp

theorem isEmpty_rtInfo (i : (Info P)) (h : i.isEmpty = true) : rtInfo i = {} := by
  cases i with
  | mk nums upm guides rest =>
    simp only [Info.isEmpty, Bool.and_eq_true, List.isEmpty_iff, Option.isNone_iff_eq_none] at h
    obtain ⟨⟨⟨h1, h2⟩, h3⟩, h4⟩ := h
    subst h1 h2 h3 h4
    simp [rtInfo, loadNums, saveNums]

theorem mkTree_fontinfo (f : (Font P)) (ol : Dict) :
    (mkTree f ol).fontinfo = if f.info.isEmpty = true then none else some (saveInfo f.info) := rfl
theorem mkTree_lib (f : (Font P)) (ol : Dict) :
    (mkTree f ol).lib =
      if (if ol.isEmpty = true then f.lib else f.lib ++ [(objectLibsKey, PV.dict ol)]).isEmpty = true then none
      else some (sortDict (if ol.isEmpty = true then f.lib else f.lib ++ [(objectLibsKey, PV.dict ol)])) := rfl
theorem mkTree_groups (f : (Font P)) (ol : Dict) :
    (mkTree f ol).groups = if f.groups.isEmpty = true then none else some f.groups := rfl
theorem mkTree_kerning (f : (Font P)) (ol : Dict) :
    (mkTree f ol).kerning = if f.kerning.isEmpty = true then none else some (saveKerning f.kerning) := rfl
theorem mkTree_features (f : (Font P)) (ol : Dict) :
    (mkTree f ol).features = if f.features.isEmpty = true then none else some (crlfToLf f.features) := rfl
theorem mkTree_creator (f : (Font P)) (ol : Dict) : (mkTree f ol).creator = some defaultCreator := by
  simp only [mkTree]; split <;> simp_all
theorem mkTree_minor (f : (Font P)) (ol : Dict) :
    (mkTree f ol).minor = if f.creator = some defaultCreator then f.minor else 0 := rfl
theorem mkTree_data (f : (Font P)) (ol : Dict) : (mkTree f ol).data = f.data := rfl
theorem mkTree_images (f : (Font P)) (ol : Dict) : (mkTree f ol).images = f.images := rfl
theorem mkTree_layercontents (f : (Font P)) (ol : Dict) :
    (mkTree f ol).layercontents = f.layers.map fun l => (l.name, l.dir) := rfl

/-- `load(save(f))` succeeds and is `rtFont L f` -/
theorem save_load_eq (f : (Font P)) (hv : ValidFont L f) :
    ∃ t, saveFont f = .ok t ∧ loadFont t = .ok (rtFont L f) := by
  refine ⟨_, saveFont_ok L f hv, ?_⟩
  have hlay : loadLayers (mkTree f (objLibsOf (f.info.guides.getD []))) (f.layers.map fun l => (l.name, l.dir)) =
      .ok (f.layers.map (rtLayer L)) :=
    loadLayers_spec L f.layers _ rfl hv.dirs hv.files hv.glyphsOK f.layers (fun _ h => h)
  have hdf : defaultFirst (f.layers.map (rtLayer L)) = .ok (f.layers.map (rtLayer L)) := by
    obtain ⟨l, r, h1, h2⟩ := hv.defFirst
    rw [h1]
    exact defaultFirst_id (rtLayer L l) (r.map (rtLayer L)) h2
  unfold loadFont
  rw [mkTree_layercontents, hlay]
  simp only [hdf, mkTree_fontinfo, mkTree_lib, mkTree_groups, mkTree_kerning, mkTree_features, mkTree_creator,
    mkTree_minor, mkTree_data, mkTree_images, gate_groups, gate_kerning, gate_features]
  by_cases hie : f.info.isEmpty = true
  · -- no fontinfo.plist
    have hg : f.info.guides = none := by
      cases hi : f.info with
      | mk nums upm guides rest =>
        rw [hi] at hie
        simp only [Info.isEmpty, Bool.and_eq_true, Option.isNone_iff_eq_none] at hie
        exact hie.1.2
    have hol : objLibsOf (f.info.guides.getD []) = [] := by rw [hg]; rfl
    have hlib0 : (if f.lib.isEmpty = true then none else some (sortDict f.lib)).getD [] = sortDict f.lib := by
      cases hl : f.lib with
      | nil => simp [sortDict_nil]
      | cons a r => simp
    simp only [hie, if_true, hol, List.isEmpty_nil, hlib0]
    simp only [rtFont, isEmpty_rtInfo _ hie, rtLib, hol, List.isEmpty_nil, if_true]
  · have hinfo := loadInfo_spec L f hv
    simp only [hie, Bool.false_eq_true, if_false]
    rw [hinfo]
    rfl

end RT
