import Norad.Model.FontLoad
import Norad.Lemmas.SaveRun
/-!
Ingredients of C08's in-place theorem: well-formed file systems, the store listing of a load, what
forcing a lazy cell reads, the data / images part of the plan in normal form.
-/
namespace FontSave
open AbsFS FontLoad
open Path (Comp)

variable {β : Type}

/-- every proper ancestor of an existing path is a directory -/
def WF (fs : FS β) : Prop :=
  ∀ p, (lookup fs p).isSome = true → ∀ m, m <+: p → m ≠ p → isDir fs m = true

theorem walk_of_dirs (fs : FS β) :
    ∀ (l : List Name) (st : APath), (∀ m, m <+: l → m ≠ [] → isDir fs (st ++ m) = true) →
      walk fs st (l.map Comp.normal) = .ok (st ++ l) := by
  intro l
  induction l with
  | nil => intro st _; simp [walk]
  | cons s r ih =>
    intro st h
    have h1 : isDir fs (st ++ [s]) = true := h [s] (by simp) (by simp)
    simp only [List.map, walk, isDir_iff.mp h1]
    have := ih (st ++ [s]) (by
      intro m hm hne
      have := h (s :: m) (List.cons_prefix_cons.mpr ⟨rfl, hm⟩) (by simp)
      simpa using this)
    simpa using this

theorem existsAt_of_dirs {fs : FS β} {l : APath} (hne : l ≠ []) (h : ∀ m, m <+: l → m ≠ [] → isDir fs m = true) :
    existsAt fs (tC l) = true ∧ isDir fs l = true := by
  have hl : isDir fs l = true := h l (List.prefix_refl _) hne
  refine ⟨?_, hl⟩
  rcases List.eq_nil_or_concat l with rfl | ⟨l', s, rfl⟩
  · exact absurd rfl hne
  · simp only [List.concat_eq_append] at *
    unfold existsAt
    show (match locate fs ((l' ++ [s]).map Comp.normal) with
      | .ok (p, false) => (node fs p).isSome
      | .ok (_, true) => true
      | .error _ => false) = true
    rw [locate_snoc]
    have hw := walk_of_dirs fs l' [] (by
      intro m hm hmne
      simpa using h m (hm.trans (List.prefix_append _ _)) hmne)
    simp only [List.nil_append] at hw
    rw [hw]
    simp only
    rw [isDir_iff.mp hl]; rfl

/-! ### the listing -/

theorem listBelow_go_mem (d : APath) :
    ∀ (fs : FS β) (seen : List APath) (q : APath) (n : Node β),
      lookup fs q = some n → q ∉ seen → d <+: q → q.length > d.length →
      (q.drop d.length, match n with | .file _ => true | .dir => false) ∈ listBelow.go d fs seen := by
  intro fs
  induction fs with
  | nil => intro seen q n h; simp [lookup] at h
  | cons e r ih =>
    intro seen q n h hseen hpre hlen
    obtain ⟨a, n'⟩ := e
    simp only [lookup] at h
    by_cases haq : a = q
    · subst haq
      simp only [if_true] at h
      cases h
      have hc : seen.contains a = false := by
        cases hh : seen.contains a with
        | false => rfl
        | true => exact absurd (List.contains_iff_mem.mp hh) hseen
      have hp : d.isPrefixOf a = true := List.isPrefixOf_iff_prefix.mpr hpre
      have hl2 : decide (a.length > d.length) = true := decide_eq_true hlen
      unfold listBelow.go
      simp only [hc, Bool.false_eq_true, if_false, hp, hl2, Bool.and_self, if_true]
      exact List.mem_cons_self ..
    · simp only [haq, if_false] at h
      unfold listBelow.go
      by_cases hc : seen.contains a = true
      · simp only [hc, if_true]; exact ih seen q n h hseen hpre hlen
      · have hq' : q ∉ a :: seen := by
          intro hm
          rcases List.mem_cons.mp hm with h1 | h1
          · exact haq h1.symm
          · exact hseen h1
        have hc' : seen.contains a = false := by
          cases hh : seen.contains a with
          | false => rfl
          | true => exact absurd hh hc
        simp only [hc', Bool.false_eq_true, if_false]
        split
        · exact List.mem_cons_of_mem _ (ih (a :: seen) q n h hq' hpre hlen)
        · exact ih (a :: seen) q n h hq' hpre hlen

theorem listBelow_mem_file {fs : FS β} {d rel : APath} {b : β} (hrel : rel ≠ [])
    (h : lookup fs (d ++ rel) = some (.file b)) : (rel, true) ∈ listBelow fs d := by
  have := listBelow_go_mem d fs [] (d ++ rel) (.file b) h (by simp) (List.prefix_append _ _)
    (by simp; exact List.length_pos_iff.mpr hrel)
  simpa [listBelow] using this

/-! ### forcing -/

theorem forceList_spec {cfg : Cfg β} {kind : StoreKind} {fs : FS β} {root : APath} {keys : List Path.P} :
    ∀ {items : List (Path.P × Cell β)} {d : List (Path.P × β)},
      forceList cfg kind fs root keys items = some d →
      (∀ k b, (k, b) ∈ d → ∃ c, (k, c) ∈ items ∧ forceCell cfg kind fs root keys k c = .loaded b) ∧
      (∀ k c, (k, c) ∈ items → ∃ b, (k, b) ∈ d ∧ forceCell cfg kind fs root keys k c = .loaded b) := by
  intro items
  induction items with
  | nil => intro d h; simp [forceList] at h; subst h; simp
  | cons e r ih =>
    intro d h
    obtain ⟨k0, c0⟩ := e
    unfold forceList at h
    cases hc : forceCell cfg kind fs root keys k0 c0 with
    | notLoaded => simp [hc] at h
    | error => simp [hc] at h
    | loaded b0 =>
      simp only [hc] at h
      cases hr : forceList cfg kind fs root keys r with
      | none => simp [hr] at h
      | some l =>
        simp only [hr] at h
        cases h
        obtain ⟨i1, i2⟩ := ih hr
        constructor
        · intro k b hm
          rcases List.mem_cons.mp hm with h1 | h1
          · cases h1; exact ⟨c0, List.mem_cons_self .., hc⟩
          · obtain ⟨c, hc1, hc2⟩ := i1 k b h1
            exact ⟨c, List.mem_cons_of_mem _ hc1, hc2⟩
        · intro k c hm
          rcases List.mem_cons.mp hm with h1 | h1
          · cases h1; exact ⟨b0, List.mem_cons_self .., hc⟩
          · obtain ⟨b, hb1, hb2⟩ := i2 k c h1
            exact ⟨b, List.mem_cons_of_mem _ hb1, hb2⟩

/-! ### the store part of the plan in normal form -/

theorem tC_append (a b : APath) : tC (a ++ b) = tC a ++ tC b := by simp [tC]

theorem joinRel_relKey (base : List Comp) (rel : APath) :
    joinRel base (relKey rel) = base ++ tC rel := by
  cases rel <;> simp [joinRel, relKey, tC]

theorem sub_eq (t : APath) (name : String) : sub t name = tC (t ++ [name.toList]) := by
  simp [sub, tC]

def storePath (t : APath) (kind : StoreKind) (rel : APath) : APath := t ++ [(storeDirName kind).toList] ++ rel

theorem dest_data (t rel : APath) :
    joinRel (sub t "data") (relKey rel) = tC (storePath t .data rel) := by
  rw [joinRel_relKey, sub_eq]; simp [storePath, storeDirName, tC]

theorem dest_images (t rel : APath) :
    joinRel (sub t "images") (relKey rel) = tC (storePath t .images rel) := by
  rw [joinRel_relKey, sub_eq]; simp [storePath, storeDirName, tC]

def dataItemN (t : APath) (rb : APath × β) : List (NEff β) :=
  [.mkdirAll (storePath t .data rb.1).dropLast, .write (storePath t .data rb.1) rb.2]

theorem planDataItem_normal (t : APath) (rb : APath × β) :
    planDataItem t (relKey rb.1, rb.2) = (dataItemN t rb).map NEff.toEff := by
  simp only [planDataItem, dataItemN, List.map, NEff.toEff, dest_data]
  simp [tC, List.map_dropLast]

theorem planData_normal (t : APath) (d : List (APath × β)) :
    (d.map fun rb => (relKey rb.1, rb.2)).flatMap (planDataItem t) = (d.flatMap (dataItemN t)).map NEff.toEff := by
  induction d with
  | nil => rfl
  | cons x r ih =>
    simp only [List.map, List.flatMap_cons, List.map_append]
    rw [ih, planDataItem_normal]

def imageWriteN (t : APath) (rb : APath × β) : NEff β := .write (storePath t .images rb.1) rb.2

theorem imageWrites_normal (t : APath) (i : List (APath × β)) :
    ((i.map fun rb => (relKey rb.1, rb.2)).map fun kb => Eff.write (joinRel (sub t "images") kb.1) kb.2) =
      (i.map (imageWriteN t)).map NEff.toEff := by
  induction i with
  | nil => rfl
  | cons x r ih =>
    simp only [List.map] at ih ⊢
    rw [ih]
    simp [imageWriteN, NEff.toEff, dest_images]

theorem namesOf_relKey (rel : APath) : namesOf (relKey rel) = rel := by
  simp only [namesOf, relKey]
  induction rel with
  | nil => rfl
  | cons a r' ih' => simp [List.filterMap, ih']

/-- a forced list all of whose keys are `relKey`s, as a list of name lists -/
theorem relKey_shape (d : List (Path.P × β)) (h : ∀ kb ∈ d, ∃ rel, kb.1 = relKey rel) :
    d = (d.map fun kb => (namesOf kb.1, kb.2)).map fun rb => (relKey rb.1, rb.2) := by
  induction d with
  | nil => rfl
  | cons x r ih =>
    obtain ⟨rel, hrel⟩ := h x (List.mem_cons_self ..)
    obtain ⟨k, b⟩ := x
    simp only at hrel
    subst hrel
    have hn : namesOf (relKey rel) = rel := namesOf_relKey rel
    simp only [List.map, hn]
    congr 1
    exact ih (fun kb hkb => h kb (List.mem_cons_of_mem _ hkb))

theorem relKey_inj {a b : APath} (h : relKey a = relKey b) : a = b := by
  have := congrArg namesOf h
  simpa [namesOf_relKey] using this

/-! ### the load side -/

theorem loadImpl_stores {P : Parser β} {fs : FS β} {t : APath} {r : Request} {f : AFont β}
    (h : loadImpl P fs t r = .ok f) :
    loadStore r.data .data fs t = .ok f.data ∧ loadStore r.images .images fs t = .ok f.images := by
  unfold loadImpl at h
  cases hs : loadScalars P fs t r with
  | error e => simp [hs] at h
  | ok sc =>
    cases hl : loadLayerSet P fs t r with
    | error e => simp [hs, hl] at h
    | ok layers =>
      cases hd : loadStore r.data .data fs t with
      | error e => simp [hs, hl, hd] at h
      | ok data =>
        cases hi : loadStore r.images .images fs t with
        | error e => simp [hs, hl, hd, hi] at h
        | ok images =>
          simp only [hs, hl, hd, hi] at h
          cases h
          exact ⟨rfl, rfl⟩

/-- a requested store of a loaded font: rooted at the UFO, one lazy cell per plain file below the store directory -/
theorem loadStore_spec {kind : StoreKind} {fs : FS β} {t : APath} {s : Store β}
    (h : loadStore true kind fs t = .ok s)
    (hex : existsAt fs (tC (t ++ [(storeDirName kind).toList])) = true) :
    s.root = t ∧ (∀ kc ∈ s.items, kc.2 = .notLoaded ∧ ∃ rel, kc.1 = relKey rel) ∧
    (∀ rel, (rel, true) ∈ listBelow fs (t ++ [(storeDirName kind).toList]) → (relKey rel, Cell.notLoaded) ∈ s.items) := by
  unfold loadStore at h
  simp only [Bool.true_and, hex, if_true] at h
  by_cases hd : isDir fs (t ++ [(storeDirName kind).toList]) = true
  · simp only [hd, Bool.not_true, Bool.false_eq_true, if_false] at h
    cases kind with
    | data =>
      simp only at h
      cases h
      refine ⟨rfl, ?_, ?_⟩
      · intro kc hkc
        simp only [List.mem_map] at hkc
        obtain ⟨e, _, rfl⟩ := hkc
        exact ⟨rfl, e.1, rfl⟩
      · intro rel hrel
        simp only [List.mem_map, List.mem_filter]
        exact ⟨(rel, true), ⟨hrel, rfl⟩, rfl⟩
    | images =>
      simp only at h
      split at h
      · cases h
      · cases h
        refine ⟨rfl, ?_, ?_⟩
        · intro kc hkc
          simp only [List.mem_map] at hkc
          obtain ⟨e, _, rfl⟩ := hkc
          exact ⟨rfl, e.1, rfl⟩
        · intro rel hrel
          simp only [List.mem_map]
          exact ⟨(rel, true), hrel, rfl⟩
  · simp [hd] at h

end FontSave

namespace FontSave
open AbsFS FontLoad
open Path (Comp)

variable {β : Type}

/-! ### the shape of a successful save -/

theorem saveImpl_ok {cfg : Cfg β} {f : AFont β} {fs fs' : FS β} {t : APath}
    (h : saveImpl cfg f fs t = (none, fs')) :
    ∃ d i fs1, validatePhase cfg f fs = .ok (d, i) ∧ wipe fs t = .ok fs1 ∧
      runEffs (plan cfg f d i t) fs1 = (none, fs') := by
  unfold saveImpl at h
  cases hv : validatePhase cfg f fs with
  | error k => simp [hv] at h
  | ok di =>
    obtain ⟨d, i⟩ := di
    simp only [hv] at h
    cases hw : wipe fs t with
    | error e => simp [hw] at h
    | ok fs1 => simp only [hw] at h; exact ⟨d, i, fs1, rfl, rfl, h⟩

theorem validatePhase_ok_stores {cfg : Cfg β} {f : AFont β} {fs : FS β} {d i}
    (h : validatePhase cfg f fs = .ok (d, i)) :
    forceStore cfg .data fs f.data = some d ∧ forceStore cfg .images fs f.images = some i := by
  unfold validatePhase at h
  by_cases h1 : f.version = 3
  · cases h2 : hasObjectLibsKey f.lib
    · cases h3 : f.groupsValid
      · simp [h1, h2, h3] at h
      · cases h4 : f.info.valid
        · simp [h1, h2, h3, h4] at h
        · cases hd : forceStore cfg .data fs f.data
          · simp [h1, h2, h3, h4, hd] at h
          · cases hi : forceStore cfg .images fs f.images
            · simp [h1, h2, h3, h4, hd, hi] at h
            · simp [h1, h2, h3, h4, hd, hi] at h
              obtain ⟨rfl, rfl⟩ := h
              exact ⟨rfl, rfl⟩
    · simp [h1, h2] at h
  · simp [h1] at h

theorem forceCell_notLoaded {cfg : Cfg β} {kind : StoreKind} {fs : FS β} {root : APath} {keys : List Path.P}
    {k : Path.P} {b : β} (h : forceCell cfg kind fs root keys k .notLoaded = .loaded b) :
    readFile fs (joinRel (sub root (storeDirName kind)) k) = .ok b := by
  unfold forceCell at h
  cases hr : readFile fs (joinRel (sub root (storeDirName kind)) k) with
  | error e => simp [hr] at h
  | ok b' =>
    simp only [hr] at h
    split at h
    · cases h; rfl
    · cases h

theorem loadStore_keys_shape {sw : Bool} {kind : StoreKind} {fs : FS β} {t : APath} {s : Store β}
    (h : loadStore sw kind fs t = .ok s) :
    (s.root = t ∨ s.items = []) ∧ ∀ kc ∈ s.items, kc.2 = .notLoaded ∧ ∃ rel, kc.1 = relKey rel := by
  unfold loadStore at h
  simp only at h
  split at h
  · split at h
    · cases h
    · cases kind with
      | data =>
        simp only at h
        cases h
        refine ⟨Or.inl rfl, ?_⟩
        intro kc hkc
        simp only [List.mem_map] at hkc
        obtain ⟨e, _, rfl⟩ := hkc
        exact ⟨rfl, e.1, rfl⟩
      | images =>
        simp only at h
        split at h
        · cases h
        · cases h
          refine ⟨Or.inl rfl, ?_⟩
          intro kc hkc
          simp only [List.mem_map] at hkc
          obtain ⟨e, _, rfl⟩ := hkc
          exact ⟨rfl, e.1, rfl⟩
  · cases h
    exact ⟨Or.inr rfl, by intro kc hkc; cases hkc⟩

/-- what step 5 put into the forced list of a store that came from a load: every entry is a `relKey` and
    carries the bytes the *input* file system holds at that place -/
theorem forced_entries {cfg : Cfg β} {sw : Bool} {kind : StoreKind} {fs : FS β} {t : APath} {s : Store β}
    {d : List (Path.P × β)}
    (hl : loadStore sw kind fs t = .ok s) (hf : forceStore cfg kind fs s = some d) :
    ∀ k b, (k, b) ∈ d → ∃ rel, k = relKey rel ∧ node fs (storePath t kind rel) = some (.file b) := by
  intro k b hkb
  obtain ⟨hroot, hshape⟩ := loadStore_keys_shape hl
  obtain ⟨p1, _⟩ := forceList_spec hf
  obtain ⟨c, hc1, hc2⟩ := p1 k b hkb
  obtain ⟨hnl, rel, hrel⟩ := hshape (k, c) hc1
  simp only at hnl hrel
  subst hnl; subst hrel
  refine ⟨rel, rfl, ?_⟩
  have hr := forceCell_notLoaded hc2
  have hroot' : s.root = t := by
    rcases hroot with h | h
    · exact h
    · rw [h] at hc1; cases hc1
  rw [hroot'] at hr
  have hdest : joinRel (sub t (storeDirName kind)) (relKey rel) = tC (storePath t kind rel) := by
    cases kind
    · exact dest_data t rel
    · exact dest_images t rel
  rw [hdest] at hr
  exact (readFile_tC hr).2

/-! ### one write followed by normal effects -/

theorem runEffs_single {e : Eff β} {fs fs' : FS β} (h : runEffs [e] fs = (none, fs')) :
    runEff e fs = (none, fs') := by
  simp only [runEffs] at h
  generalize runEff e fs = r at h
  obtain ⟨o, g⟩ := r
  cases o with
  | none => simpa [runEffs] using h
  | some x => simp at h

theorem run_segment {A : List (Eff β)} {p : APath} {b : β} {S : List (NEff β)} {fs1 fs' : FS β}
    (h : runEffs (A ++ [Eff.write (tC p) b] ++ S.map NEff.toEff) fs1 = (none, fs'))
    (hw : ∀ b', NEff.write p b' ∈ S → b' = b) :
    lookup fs' p = some (.file b) := by
  obtain ⟨fsC, h1, h2⟩ := runEffs_append_ok h
  obtain ⟨fsB, _, h4⟩ := runEffs_append_ok h1
  have h5 := runEffs_single h4
  simp only [runEff] at h5
  cases hwf : writeFile fsB (tC p) b with
  | error x => simp [hwf] at h5
  | ok g =>
    simp only [hwf] at h5
    cases h5
    obtain ⟨hp0, _, rfl, _⟩ := writeFile_tC hwf
    have hC : lookup (AbsFS.set fsB p (.file b)) p = some (.file b) := by simp [lookup_set]
    have := runN_keeps_file S p b hp0 hw _ hC
    unfold runN at this
    rw [h2] at this
    exact this

/-! ### the plan, cut at the stores -/

def planHead (cfg : Cfg β) (f : AFont β) (t : APath) : List (Eff β) :=
  [.mkdir (tC t), .write (sub t "metainfo.plist") (cfg.render (.metainfo f.metaTok))] ++
  planFontinfo cfg t f.info ++
  planLib cfg t f ++
  planOpt t "groups.plist" f.groups (cfg.render (.groups f.groups)) ++
  planOpt t "kerning.plist" f.kerning (cfg.render (.kerning f.kerning)) ++
  planOpt t "features.fea" f.features (cfg.render (.features f.features)) ++
  [.write (sub t "layercontents.plist") (cfg.render (.layercontents (f.layers.map fun l => (l.name, l.dir))))] ++
  f.layers.flatMap (planLayer cfg t)

theorem plan_split (cfg : Cfg β) (f : AFont β) (d i : List (Path.P × β)) (t : APath) :
    plan cfg f d i t = planHead cfg f t ++ d.flatMap (planDataItem t) ++ planImages t i := rfl

def imagesN (t : APath) (ir : List (APath × β)) : List (NEff β) :=
  if ir.isEmpty then [] else .mkdir (t ++ ["images".toList]) :: ir.map (imageWriteN t)

theorem planImages_normal (t : APath) (ir : List (APath × β)) :
    planImages t (ir.map fun rb => (relKey rb.1, rb.2)) = (imagesN t ir).map NEff.toEff := by
  unfold planImages imagesN
  cases ir with
  | nil => rfl
  | cons x r =>
    simp only [List.map, List.isEmpty_cons, Bool.false_eq_true, if_false]
    have := imageWrites_normal t (x :: r)
    simp only [List.map] at this
    rw [this]
    simp [NEff.toEff, sub_eq]

theorem storePath_kind_ne (t r1 r2 : APath) : storePath t .images r1 ≠ storePath t .data r2 := by
  intro h
  simp only [storePath, storeDirName, List.append_assoc] at h
  have h2 := List.append_cancel_left h
  simp only [List.cons_append, List.nil_append, List.cons.injEq] at h2
  exact absurd h2.1 (by decide)

/-- **core of the in-place theorem**: a successful save of a font whose stores came from a load of `t` leaves at
    every store path the bytes the input file system had there -/
theorem inplace_core {cfg : Cfg β} {f : AFont β} {fs fs' : FS β} {t : APath} {sd si : Bool}
    (hld : loadStore sd .data fs t = .ok f.data) (hli : loadStore si .images fs t = .ok f.images)
    (hsave : saveImpl cfg f fs t = (none, fs'))
    (kind : StoreKind) (rel : APath) (b : β)
    (hmem : (relKey rel, Cell.notLoaded) ∈ (f.store kind).items)
    (hfile : node fs (storePath t kind rel) = some (.file b)) :
    lookup fs' (storePath t kind rel) = some (.file b) := by
  obtain ⟨d, i, fs1, hv, _, hrun⟩ := saveImpl_ok hsave
  obtain ⟨hfd, hfi⟩ := validatePhase_ok_stores hv
  have Gd := forced_entries hld hfd
  have Gi := forced_entries hli hfi
  have hdshape : ∀ kb ∈ d, ∃ rel, kb.1 = relKey rel := fun kb hkb => by
    obtain ⟨r, hr, _⟩ := Gd kb.1 kb.2 hkb; exact ⟨r, hr⟩
  have hishape : ∀ kb ∈ i, ∃ rel, kb.1 = relKey rel := fun kb hkb => by
    obtain ⟨r, hr, _⟩ := Gi kb.1 kb.2 hkb; exact ⟨r, hr⟩
  have hne : "images".toList ≠ "data".toList := by decide
  rw [plan_split] at hrun
  cases kind with
  | data =>
    obtain ⟨_, p2⟩ := forceList_spec hfd
    obtain ⟨b', hb', _⟩ := p2 _ _ hmem
    obtain ⟨rel', hrel', hnode⟩ := Gd _ _ hb'
    have := relKey_inj hrel'; subst this
    rw [hfile] at hnode; cases hnode
    obtain ⟨d1, d2, hsplit⟩ := List.append_of_mem hb'
    have hd2shape : ∀ kb ∈ d2, ∃ rel, kb.1 = relKey rel := fun kb hkb =>
      hdshape kb (by rw [hsplit]; simp [hkb])
    have e2 := relKey_shape d2 hd2shape
    have ei := relKey_shape i hishape
    have hplan : planHead cfg f t ++ d.flatMap (planDataItem t) ++ planImages t i =
        (planHead cfg f t ++ d1.flatMap (planDataItem t) ++ [Eff.mkdirAll (tC (storePath t .data rel).dropLast)]) ++
          [Eff.write (tC (storePath t .data rel)) b] ++
          ((d2.map fun kb => (namesOf kb.1, kb.2)).flatMap (dataItemN t) ++
            imagesN t (i.map fun kb => (namesOf kb.1, kb.2))).map NEff.toEff := by
      rw [List.map_append, ← planData_normal, ← planImages_normal, ← e2, ← ei, hsplit]
      simp only [List.flatMap_append, List.flatMap_cons, List.append_assoc]
      have := planDataItem_normal t (rel, b)
      simp only [dataItemN, List.map, NEff.toEff] at this
      rw [this]
      simp
    rw [hplan] at hrun
    apply run_segment hrun
    intro b' hb'
    rcases List.mem_append.mp hb' with h1 | h1
    · simp only [List.mem_flatMap, dataItemN, List.mem_cons, List.mem_map] at h1
      obtain ⟨rb, ⟨kb, hkb, rfl⟩, h2⟩ := h1
      rcases h2 with h2 | h2 | h2
      · cases h2
      · simp only [NEff.write.injEq] at h2
        obtain ⟨hp, rfl⟩ := h2
        obtain ⟨r2, hr2, hn2⟩ := Gd kb.1 kb.2 (by rw [hsplit]; simp [hkb])
        rw [hr2, namesOf_relKey] at hp
        have : r2 = rel := by
          simp only [storePath] at hp
          exact (List.append_cancel_left hp).symm ▸ rfl
        subst this
        rw [hfile] at hn2; cases hn2; rfl
      · cases h2
    · unfold imagesN at h1
      split at h1
      · cases h1
      · simp only [List.mem_cons, List.mem_map, imageWriteN] at h1
        rcases h1 with h1 | ⟨rb, _, h1⟩
        · cases h1
        · simp only [NEff.write.injEq] at h1
          exact absurd h1.1 (storePath_kind_ne t _ _)
  | images =>
    obtain ⟨_, p2⟩ := forceList_spec hfi
    obtain ⟨b', hb', _⟩ := p2 _ _ hmem
    obtain ⟨rel', hrel', hnode⟩ := Gi _ _ hb'
    have := relKey_inj hrel'; subst this
    rw [hfile] at hnode; cases hnode
    obtain ⟨i1, i2, hsplit⟩ := List.append_of_mem hb'
    have hi2shape : ∀ kb ∈ i2, ∃ rel, kb.1 = relKey rel := fun kb hkb =>
      hishape kb (by rw [hsplit]; simp [hkb])
    have e2 := relKey_shape i2 hi2shape
    have hplan : planHead cfg f t ++ d.flatMap (planDataItem t) ++ planImages t i =
        (planHead cfg f t ++ d.flatMap (planDataItem t) ++
          (Eff.mkdir (sub t "images") :: i1.map fun kb => Eff.write (joinRel (sub t "images") kb.1) kb.2)) ++
          [Eff.write (tC (storePath t .images rel)) b] ++
          ((i2.map fun kb => (namesOf kb.1, kb.2)).map (imageWriteN t)).map NEff.toEff := by
      rw [← imageWrites_normal, ← e2, hsplit]
      unfold planImages
      simp [dest_images, List.append_assoc]
    rw [hplan] at hrun
    apply run_segment hrun
    intro b' hb'
    simp only [List.mem_map, imageWriteN] at hb'
    obtain ⟨rb, ⟨kb, hkb, rfl⟩, h2⟩ := hb'
    simp only [NEff.write.injEq] at h2
    obtain ⟨hp, rfl⟩ := h2
    obtain ⟨r2, hr2, hn2⟩ := Gi kb.1 kb.2 (by rw [hsplit]; simp [hkb])
    rw [hr2, namesOf_relKey] at hp
    have : r2 = rel := by
      simp only [storePath] at hp
      exact (List.append_cancel_left hp).symm ▸ rfl
    subst this
    rw [hfile] at hn2; cases hn2; rfl

end FontSave
