import Norad.Lemmas.C02
import Norad.Lemmas.C05
/-!
# Bridge between the independent UFO 3 vocabulary (C05) and the glif builder's models of norad (C02 / C12)

`Glif.encodeGlif` / `Glif.parseGlif` (Model/GlifWrite.lean, Model/Glif.lean) work on quick-xml event lists with
`List Char` names; `Ufo3.specRead` / `Ufo3.specWrite` (Spec/Ufo3Read.lean) on generic XML trees with `String` names taken
from `Ufo3Vocab`.  This file connects them:

* `encTree f showLib g` is the tree of what the encoder writes, built from the encoder's own attribute functions
  (`anchorAttrs`, `pointAttrs`, …); `events_of_encTree`: its canonical event list IS `encodeGlif f g`.
* `spec_reads_*`: the specification-level reader finds, element by element and for the whole document, the values
  norad's own parser arrives at (`preG` of `parse_encode`).
* `norad_parses_spec_*`: norad's per-element attribute parsers read what the specification-level writer writes.
-/
namespace C05Bridge
open Ufo3 Glif

/-- names and values of the event level as strings of the tree level -/
abbrev S (s : Str) : String := String.ofList s
def attrsS (as : List Attr) : List (String × String) := as.map fun a => (S a.1, S a.2)
def attrsL (as : List (String × String)) : List Attr := as.map fun a => (a.1.toList, a.2.toList)

@[simp] theorem toList_S (s : Str) : (S s).toList = s := by simp [S]
@[simp] theorem attrsL_attrsS (as : List Attr) : attrsL (attrsS as) = as := by
  induction as with
  | nil => rfl
  | cons a r ih => simp [attrsL, attrsS] at ih ⊢; exact ih

@[simp] theorem attrsS_nil : attrsS [] = [] := rfl
@[simp] theorem attrsS_cons (a : Attr) (r : List Attr) : attrsS (a :: r) = (S a.1, S a.2) :: attrsS r := rfl
@[simp] theorem attrsS_append (a b : List Attr) : attrsS (a ++ b) = attrsS a ++ attrsS b := by simp [attrsS]

theorem allowed_nil (el : String) : allowed el [] = true := rfl
theorem allowed_cons (el : String) (a : String × String) (r : List (String × String)) :
    allowed el (a :: r) = ((attrNames el).contains a.1 && allowed el r) := by simp [allowed]
theorem allowed_append (el : String) (a b : List (String × String)) :
    allowed el (a ++ b) = (allowed el a && allowed el b) := by simp [allowed, List.all_append]

theorem S_isEmpty (s : Str) : (S s).isEmpty = s.isEmpty := by
  cases s <;> simp [S]

@[simp] theorem S_sGlyph : S sGlyph = "glyph" := by decide
@[simp] theorem S_sOutline : S sOutline = "outline" := by decide
@[simp] theorem S_sLib : S sLib = "lib" := by decide
@[simp] theorem S_sNote : S sNote = "note" := by decide
@[simp] theorem S_sAdvance : S sAdvance = "advance" := by decide
@[simp] theorem S_sUnicode : S sUnicode = "unicode" := by decide
@[simp] theorem S_sAnchor : S sAnchor = "anchor" := by decide
@[simp] theorem S_sGuideline : S sGuideline = "guideline" := by decide
@[simp] theorem S_sImage : S sImage = "image" := by decide
@[simp] theorem S_sContour : S sContour = "contour" := by decide
@[simp] theorem S_sComponent : S sComponent = "component" := by decide
@[simp] theorem S_sPoint : S sPoint = "point" := by decide
@[simp] theorem S_sHex : S sHex = "hex" := by decide

/-- an element without content -/
def leaf (n : Str) (as : List Attr) : XNode := .elem (S n) (attrsS as) [] ""

/-! ### what is assumed of the independent lexer on the strings norad's number formatting produces
(the counterpart of `Glif.Codec`, which assumes the same of Rust's own `parse`) -/

structure LexCodec (f : Fmt) (lx : Lex) (nc : Color → Color) (ok : Nat → Prop) : Prop where
  num : ∀ b, ok b → lx.nums (S (f.shw b)) = some [b]
  col : ∀ c, lx.nums (S (showColor f c)) = some [(nc c).r, (nc c).g, (nc c).b, (nc c).a]
  hex : ∀ c, ValidCodepoint c → lx.hex (S (showCodepoint c)) = some c

/-! ### glyph objects as descriptions -/

def colD (c : Color) : ColorD := ⟨c.r, c.g, c.b, c.a⟩
def affD (t : Transform) : Affine Nat := ⟨t.xScale, t.xyScale, t.yxScale, t.yScale, t.xOffset, t.yOffset⟩

def descAnchor (a : Anchor) : AnchorD := ⟨a.x, a.y, a.name.map S, a.color.map colD, a.ident.map S⟩

def descGuideline (g : Guideline) : GuidelineD :=
  match g.line with
  | .vertical x => ⟨some x, none, none, g.name.map S, g.color.map colD, g.ident.map S⟩
  | .horizontal y => ⟨none, some y, none, g.name.map S, g.color.map colD, g.ident.map S⟩
  | .angle x y d => ⟨some x, some y, some d, g.name.map S, g.color.map colD, g.ident.map S⟩

def descPT : C11.PT → PType
  | .move => .move | .line => .line | .off => .offcurve | .curve => .curve | .qcurve => .qcurve

def descPoint (p : Point) : PointD := ⟨p.x, p.y, descPT p.typ, p.smooth, p.name.map S, p.ident.map S⟩
def descContour (c : Contour) : ContourD := ⟨c.ident.map S, c.points.map descPoint⟩
def descComponent (k : Component) : ComponentD := ⟨S k.base, affD k.transform, k.ident.map S⟩
def descImage (i : Image) : ImageD := ⟨S i.fileName, affD i.transform, i.color.map colD⟩

/-- a glyph of the model as an abstract description; `showLib` renders a property list canonically -/
def descGlyph (showLib : Dict → String) (g : Glyph) : GlyphD :=
  { name := S g.name, width := g.width, height := g.height, unicodes := g.codepoints, note := g.note.map S,
    image := g.image.map descImage, guidelines := g.guidelines.map descGuideline,
    anchors := g.anchors.map descAnchor, contours := g.contours.map descContour,
    components := g.components.map descComponent,
    lib := if g.lib.isEmpty then none else some (showLib g.lib) }

/-! ### norad's encoder, element by element, read by the specification-level reader -/

section
variable {f : Fmt} {lx : Lex} {nc : Color → Color} {ok : Nat → Prop}

/-- **anchor**: what `Anchor::to_event` writes, read under the specification's names, is the anchor norad's own
    parser builds (`pAnchor`, cf. `Glif.anchor_roundtrip`) -/
theorem spec_reads_anchor (hc : LexCodec f lx nc ok) {a : Anchor} (hx : ok a.x) (hy : ok a.y) :
    readAnchor lx (leaf sAnchor (anchorAttrs f a)) = some (descAnchor (pAnchor nc a)) := by
  obtain ⟨x, y, name, color, ident, lib⟩ := a
  have nx := hc.num _ hx
  have ny := hc.num _ hy
  simp only at nx ny
  cases name <;> cases color <;> cases ident <;>
    simp [readAnchor, leaf, anchorAttrs, optAttr, allowed, attrNames_anchor, numReq, num1, nx, ny,
          colorOpt, hc.col, List.lookup, descAnchor, pAnchor, colD, S]

/-- **guideline** (cf. `Glif.guideline_roundtrip`), one lemma per shape of the line -/
theorem spec_reads_guideline_vertical (hc : LexCodec f lx nc ok) (x : Nat) (name : Option Str) (color : Option Color)
    (ident : Option Str) (lib : Option Dict) (hx : ok x) :
    readGuideline lx (leaf sGuideline (guidelineAttrs f ⟨.vertical x, name, color, ident, lib⟩)) =
      some ⟨some x, none, none, name.map S, (color.map nc).map colD, ident.map S⟩ := by
  have nx := hc.num _ hx
  cases name <;> cases color <;> cases ident <;>
    simp [readGuideline, leaf, guidelineAttrs, lineAttrs, optAttr, allowed, attrNames_guideline,
          numOpt, num1, nx, colorOpt, hc.col, List.lookup, colD]

theorem spec_reads_guideline_horizontal (hc : LexCodec f lx nc ok) (y : Nat) (name : Option Str) (color : Option Color)
    (ident : Option Str) (lib : Option Dict) (hy : ok y) :
    readGuideline lx (leaf sGuideline (guidelineAttrs f ⟨.horizontal y, name, color, ident, lib⟩)) =
      some ⟨none, some y, none, name.map S, (color.map nc).map colD, ident.map S⟩ := by
  have ny := hc.num _ hy
  cases name <;> cases color <;> cases ident <;>
    simp [readGuideline, leaf, guidelineAttrs, lineAttrs, optAttr, allowed, attrNames_guideline,
          numOpt, num1, ny, colorOpt, hc.col, List.lookup, colD]

theorem spec_reads_guideline_angle (hc : LexCodec f lx nc ok) (x y d : Nat) (name : Option Str) (color : Option Color)
    (ident : Option Str) (lib : Option Dict) (hx : ok x) (hy : ok y) (hd : ok d) :
    readGuideline lx (leaf sGuideline (guidelineAttrs f ⟨.angle x y d, name, color, ident, lib⟩)) =
      some ⟨some x, some y, some d, name.map S, (color.map nc).map colD, ident.map S⟩ := by
  have nx := hc.num _ hx
  have ny := hc.num _ hy
  have nd := hc.num _ hd
  cases name <;> cases color <;> cases ident <;>
    simp [readGuideline, leaf, guidelineAttrs, lineAttrs, optAttr, allowed, attrNames_guideline,
          numOpt, num1, nx, ny, nd, colorOpt, hc.col, List.lookup, colD]

theorem spec_reads_guideline (hc : LexCodec f lx nc ok) {g : Guideline}
    (hl : match g.line with
      | .vertical x => ok x
      | .horizontal y => ok y
      | .angle x y d => ok x ∧ ok y ∧ ok d ∧ angleOk d = true) :
    readGuideline lx (leaf sGuideline (guidelineAttrs f g)) = some (descGuideline (pGuideline nc g)) := by
  obtain ⟨line, name, color, ident, lib⟩ := g
  cases line with
  | vertical x => exact spec_reads_guideline_vertical hc x name color ident lib hl
  | horizontal y => exact spec_reads_guideline_horizontal hc y name color ident lib hl
  | angle x y d => exact spec_reads_guideline_angle hc x y d name color ident lib hl.1 hl.2.1 hl.2.2.1

/-- **point** (cf. `Glif.point_roundtrip`); an off-curve point is written without `type`, a point that is not
    smooth without `smooth`, and the reader's defaults give both back -/
theorem spec_reads_point (hc : LexCodec f lx nc ok) {p : Point} (hx : ok p.x) (hy : ok p.y) :
    readPoint lx (leaf sPoint (pointAttrs f p)) = some (descPoint (pPoint p)) := by
  obtain ⟨x, y, typ, smooth, name, ident, lib⟩ := p
  have nx := hc.num _ hx
  have ny := hc.num _ hy
  simp only at nx ny
  cases name <;> cases typ <;> cases smooth <;> cases ident <;>
    simp [readPoint, leaf, pointAttrs, pointTypeAttr, optAttr, allowed, attrNames_point, numReq, num1,
          nx, ny, readPType, readSmooth, List.lookup, descPoint, pPoint, descPT, S]

theorem lookup_append' (k : String) (l1 l2 : List (String × String)) :
    (l1 ++ l2).lookup k = match l1.lookup k with | some v => some v | none => l2.lookup k := by
  induction l1 with
  | nil => rfl
  | cons a r ih =>
    simp only [List.cons_append, List.lookup]
    cases k == a.1 <;> simp [ih]

theorem numDflt_mid (lx : Lex) (pre mid post : List (String × String)) (k : String) (d : Nat)
    (h1 : pre.lookup k = none) (h2 : post.lookup k = none) :
    numDflt lx (pre ++ mid ++ post) k d = numDflt lx mid k d := by
  simp only [numDflt, lookup_append', h1, h2]
  cases mid.lookup k <;> rfl

/-- the six transformation attributes as the encoder gates them, read with the specification's defaults:
    exactly `normT` (cf. `Glif.transform_fold_component`) -/
theorem spec_reads_transform_mid (hc : LexCodec f lx nc ok) {t : Transform} (ht : OkT ok t) :
    readTransform lx (attrsS (Glif.transformAttrs f t)) = some (affD (normT t)) := by
  obtain ⟨h1, h2, h3, h4, h5, h6⟩ := ht
  have n1 := hc.num _ h1; have n2 := hc.num _ h2; have n3 := hc.num _ h3
  have n4 := hc.num _ h4; have n5 := hc.num _ h5; have n6 := hc.num _ h6
  unfold Glif.transformAttrs normT
  by_cases g1 : farFromOne t.xScale = true <;> by_cases g2 : nonZero t.xyScale = true <;>
  by_cases g3 : nonZero t.yxScale = true <;> by_cases g4 : farFromOne t.yScale = true <;>
  by_cases g5 : nonZero t.xOffset = true <;> by_cases g6 : nonZero t.yOffset = true <;>
    simp [g1, g2, g3, g4, g5, g6, readTransform, numDflt, num1, List.lookup, n1, n2, n3, n4, n5, n6, affD,
          oneBits, zeroBits, f64One]

theorem spec_reads_transform (hc : LexCodec f lx nc ok) {t : Transform} (ht : OkT ok t)
    (pre post : List (String × String)) (hpre : ∀ k ∈ Ufo3.transformAttrs, pre.lookup k = none)
    (hpost : ∀ k ∈ Ufo3.transformAttrs, post.lookup k = none) :
    readTransform lx (pre ++ attrsS (Glif.transformAttrs f t) ++ post) = some (affD (normT t)) := by
  rw [← spec_reads_transform_mid hc ht]
  simp only [readTransform]
  rw [numDflt_mid lx _ _ _ "xScale" _ (hpre _ (by decide)) (hpost _ (by decide)),
      numDflt_mid lx _ _ _ "xyScale" _ (hpre _ (by decide)) (hpost _ (by decide)),
      numDflt_mid lx _ _ _ "yxScale" _ (hpre _ (by decide)) (hpost _ (by decide)),
      numDflt_mid lx _ _ _ "yScale" _ (hpre _ (by decide)) (hpost _ (by decide)),
      numDflt_mid lx _ _ _ "xOffset" _ (hpre _ (by decide)) (hpost _ (by decide)),
      numDflt_mid lx _ _ _ "yOffset" _ (hpre _ (by decide)) (hpost _ (by decide))]

/-- the transformation attributes are attributes of `component` and of `image` -/
theorem transform_allowed (el : String) (hel : ∀ k ∈ Ufo3.transformAttrs, k ∈ attrNames el)
    (t : Transform) : allowed el (attrsS (Glif.transformAttrs f t)) = true := by
  have a1 := hel "xScale" (by decide); have a2 := hel "xyScale" (by decide); have a3 := hel "yxScale" (by decide)
  have a4 := hel "yScale" (by decide); have a5 := hel "xOffset" (by decide); have a6 := hel "yOffset" (by decide)
  unfold Glif.transformAttrs
  by_cases g1 : farFromOne t.xScale = true <;> by_cases g2 : nonZero t.xyScale = true <;>
  by_cases g3 : nonZero t.yxScale = true <;> by_cases g4 : farFromOne t.yScale = true <;>
  by_cases g5 : nonZero t.xOffset = true <;> by_cases g6 : nonZero t.yOffset = true <;>
    simp [g1, g2, g3, g4, g5, g6, allowed_cons, allowed_nil, a1, a2, a3, a4, a5, a6]

theorem transform_lookup_other (k : String) (hk : k ∉ Ufo3.transformAttrs) (t : Transform) :
    (attrsS (Glif.transformAttrs f t)).lookup k = none := by
  have b1 : (k == "xScale") = false := by simpa [Ufo3.transformAttrs] using (fun h => hk (by simp [Ufo3.transformAttrs, h]) : k ≠ "xScale")
  have b2 : (k == "xyScale") = false := by simpa using (fun h => hk (by simp [Ufo3.transformAttrs, h]) : k ≠ "xyScale")
  have b3 : (k == "yxScale") = false := by simpa using (fun h => hk (by simp [Ufo3.transformAttrs, h]) : k ≠ "yxScale")
  have b4 : (k == "yScale") = false := by simpa using (fun h => hk (by simp [Ufo3.transformAttrs, h]) : k ≠ "yScale")
  have b5 : (k == "xOffset") = false := by simpa using (fun h => hk (by simp [Ufo3.transformAttrs, h]) : k ≠ "xOffset")
  have b6 : (k == "yOffset") = false := by simpa using (fun h => hk (by simp [Ufo3.transformAttrs, h]) : k ≠ "yOffset")
  unfold Glif.transformAttrs
  by_cases g1 : farFromOne t.xScale = true <;> by_cases g2 : nonZero t.xyScale = true <;>
  by_cases g3 : nonZero t.yxScale = true <;> by_cases g4 : farFromOne t.yScale = true <;>
  by_cases g5 : nonZero t.xOffset = true <;> by_cases g6 : nonZero t.yOffset = true <;>
    simp [g1, g2, g3, g4, g5, g6, List.lookup, b1, b2, b3, b4, b5, b6]

/-- **component** (cf. `Glif.component_roundtrip`) -/
theorem spec_reads_component (hc : LexCodec f lx nc ok) {k : Component} (ht : OkT ok k.transform) :
    readComponent lx (leaf sComponent (componentAttrs f k)) = some (descComponent (pComponent k)) := by
  obtain ⟨base, t, ident, lib⟩ := k
  simp only at ht
  have hT := spec_reads_transform hc ht [("base", S base)] (attrsS (optAttr "identifier" ident))
    (by intro k hk; simp [Ufo3.transformAttrs] at hk; rcases hk with h | h | h | h | h | h <;> subst h <;> simp [List.lookup])
    (by intro k hk; simp [Ufo3.transformAttrs] at hk
        cases ident <;> rcases hk with h | h | h | h | h | h <;> subst h <;> simp [optAttr, List.lookup])
  have hA := transform_allowed (f := f) "component" (by rw [attrNames_component]; decide) t
  have hb := transform_lookup_other (f := f) "base" (by decide) t
  have hi := transform_lookup_other (f := f) "identifier" (by decide) t
  have hattrs : attrsS (componentAttrs f ⟨base, t, ident, lib⟩) =
      [("base", S base)] ++ attrsS (Glif.transformAttrs f t) ++ attrsS (optAttr "identifier" ident) := by
    simp [componentAttrs]
  simp only [readComponent, leaf, hattrs, S_sComponent, hT, allowed_append, hA]
  cases ident <;>
    simp [allowed_cons, allowed_nil, attrNames_component, optAttr, lookup_append', List.lookup, hb, hi,
          descComponent, pComponent]

/-- **image** (cf. `Glif.image_roundtrip`) -/
theorem spec_reads_image (hc : LexCodec f lx nc ok) {i : Image} (ht : OkT ok i.transform) :
    readImage lx (leaf sImage (imageAttrs f i)) = some (descImage (pImage nc i)) := by
  obtain ⟨fn, color, t⟩ := i
  simp only at ht
  have hT := spec_reads_transform hc ht [("fileName", S fn)] (attrsS (optAttr "color" (color.map (showColor f))))
    (by intro k hk; simp [Ufo3.transformAttrs] at hk; rcases hk with h | h | h | h | h | h <;> subst h <;> simp [List.lookup])
    (by intro k hk; simp [Ufo3.transformAttrs] at hk
        cases color <;> rcases hk with h | h | h | h | h | h <;> subst h <;> simp [optAttr, List.lookup])
  have hA := transform_allowed (f := f) "image" (by rw [attrNames_image]; decide) t
  have hb := transform_lookup_other (f := f) "fileName" (by decide) t
  have hcol := transform_lookup_other (f := f) "color" (by decide) t
  have hattrs : attrsS (imageAttrs f ⟨fn, color, t⟩) =
      [("fileName", S fn)] ++ attrsS (Glif.transformAttrs f t) ++ attrsS (optAttr "color" (color.map (showColor f))) := by
    simp [imageAttrs]
  simp only [readImage, leaf, hattrs, S_sImage, hT, allowed_append, hA]
  cases color <;>
    simp [allowed_cons, allowed_nil, attrNames_image, optAttr, lookup_append', List.lookup, hb, hcol, colorOpt,
          hc.col, descImage, pImage, colD]

/-- **advance** (cf. `Glif.advance_roundtrip`): `±0` is not written and the reader's default gives `0` -/
theorem spec_reads_advance (hc : LexCodec f lx nc ok) {w h : Nat} (hw : ok w) (hh : ok h) :
    readAdvance lx (leaf sAdvance (advanceAttrs f w h)) =
      some (if nonZero w then w else 0, if nonZero h then h else 0) := by
  have nw := hc.num _ hw
  have nh := hc.num _ hh
  by_cases g1 : nonZero h = true <;> by_cases g2 : nonZero w = true <;>
    simp [readAdvance, leaf, advanceAttrs, g1, g2, allowed, attrNames_advance, numDflt, num1, nw, nh,
          List.lookup, zeroBits]

/-- **unicode** (cf. `Glif.unicode_roundtrip`) -/
theorem spec_reads_unicode (hc : LexCodec f lx nc ok) {c : Nat} (hv : ValidCodepoint c) :
    readUnicode lx (leaf sUnicode [(sHex, showCodepoint c)]) = some c := by
  simp [readUnicode, leaf, allowed, attrNames_unicode, List.lookup, hc.hex c hv]

/-- a contour: start tag with the optional identifier, the points as children -/
def contourNode (f : Fmt) (c : Contour) : XNode :=
  .elem "contour" (attrsS (optAttr "identifier" c.ident)) (c.points.map fun p => leaf sPoint (pointAttrs f p)) ""

theorem spec_reads_contour (hc : LexCodec f lx nc ok) {c : Contour} (hp : ∀ p, p ∈ c.points → ok p.x ∧ ok p.y) :
    readContour lx (contourNode f c) = some (descContour (pContour c)) := by
  obtain ⟨pts, ident, lib⟩ := c
  simp only at hp
  have hm : (pts.map fun p => leaf sPoint (pointAttrs f p)).mapM (readPoint lx) = some (pts.map (descPoint ∘ pPoint)) := by
    induction pts with
    | nil => simp
    | cons p r ih =>
      have h1 := spec_reads_point hc (hp p List.mem_cons_self).1 (hp p List.mem_cons_self).2
      have h2 := ih (fun q hq => hp q (List.mem_cons_of_mem _ hq))
      simp [List.mapM_cons, h1, h2]
  cases ident <;>
    simp [readContour, contourNode, allowed, attrNames_contour, optAttr, hm, List.lookup, descContour, pContour]

/-! ### the whole document -/

def outlineNode (f : Fmt) (g : Glyph) : XNode :=
  .elem "outline" [] (g.contours.map (contourNode f) ++ g.components.map (fun k => leaf sComponent (componentAttrs f k))) ""

/-- the tree of what `encode_xml` writes, assembled from the encoder's own attribute functions;
    `showLib` renders the plist of the lib element canonically (the plist itself is compared elsewhere) -/
def encTree (f : Fmt) (showLib : Dict → String) (g : Glyph) : XNode :=
  .elem "glyph" (attrsS [("name".toList, g.name), ("format".toList, ['2'])])
    (g.codepoints.map (fun c => leaf sUnicode [(sHex, showCodepoint c)]) ++
     (if isNormal g.width || isNormal g.height then [leaf sAdvance (advanceAttrs f g.width g.height)] else []) ++
     (match g.image with | some i => [leaf sImage (imageAttrs f i)] | none => []) ++
     (if !g.contours.isEmpty || !g.components.isEmpty then [outlineNode f g] else []) ++
     g.anchors.map (fun a => leaf sAnchor (anchorAttrs f a)) ++
     g.guidelines.map (fun a => leaf sGuideline (guidelineAttrs f a)) ++
     (if (writtenLib g).isEmpty then [] else [.elem "lib" [] [] (showLib (reindentDict f.indent (writtenLib g)))]) ++
     (match g.note with | some n => [.elem "note" [] [] (S (trimText n))] | none => [])) ""

/-! the canonical event list of a glif tree: content-free elements self-closed, `outline` / `contour` / `note` /
`lib` / `glyph` with start and end tag, the lib as the plist verdict on its text -/

def leafEv : XNode → Ev
  | .elem t as _ _ => .empty t.toList (some (attrsL as))

def contourEvsOf : XNode → List Ev
  | .elem t as kids _ => .start t.toList (some (attrsL as)) :: (kids.map leafEv ++ [.close t.toList])

def outlineChildEvs (n : XNode) : List Ev := if n.tag = "contour" then contourEvsOf n else [leafEv n]

def glyphChildEvs (readLib : String → LibV) : XNode → List Ev
  | .elem t as kids text =>
    if t = "outline" then .start t.toList (some (attrsL as)) :: (kids.flatMap outlineChildEvs ++ [.close t.toList])
    else if t = "lib" then [.startLib (some (attrsL as)) (readLib text), .close t.toList]
    else if t = "note" then
      .start t.toList (some (attrsL as)) :: ((if text.isEmpty then [] else [.text (some text.toList)]) ++ [.close t.toList])
    else [.empty t.toList (some (attrsL as))]

def eventsOf (readLib : String → LibV) : XNode → List Ev
  | .elem t as kids _ =>
    .decl :: .start t.toList (some (attrsL as)) :: (kids.flatMap (glyphChildEvs readLib) ++ [.close t.toList])

theorem toList_glyph : "glyph".toList = sGlyph := by decide
theorem toList_outline : "outline".toList = sOutline := by decide
theorem toList_contour : "contour".toList = sContour := by decide
theorem toList_lib : "lib".toList = sLib := by decide
theorem toList_note : "note".toList = sNote := by decide

theorem tag_leaf (n : Str) (as : List Attr) : (leaf n as).tag = S n := rfl

theorem leafEv_leaf (n : Str) (as : List Attr) : leafEv (leaf n as) = .empty n (some as) := by
  simp [leafEv, leaf]

theorem childEvs_leaf (rl : String → LibV) (n : Str) (as : List Attr)
    (h1 : S n ≠ "outline") (h2 : S n ≠ "lib") (h3 : S n ≠ "note") :
    glyphChildEvs rl (leaf n as) = [.empty n (some as)] := by
  simp [glyphChildEvs, leaf, h1, h2, h3]

theorem childEvs_lib (rl : String → LibV) (text : String) :
    glyphChildEvs rl (.elem "lib" [] [] text) = [.startLib (some []) (rl text), .close sLib] := by
  simp [glyphChildEvs, toList_lib, attrsL]

theorem childEvs_note (rl : String → LibV) (text : String) :
    glyphChildEvs rl (.elem "note" [] [] text) =
      .start sNote (some []) :: ((if text.isEmpty then [] else [.text (some text.toList)]) ++ [.close sNote]) := by
  simp [glyphChildEvs, toList_note, attrsL]

theorem contourEvsOf_node (f : Fmt) (c : Contour) : contourEvsOf (contourNode f c) = contourEvs f c := by
  simp [contourEvsOf, contourNode, contourEvs, toList_contour, List.map_map, Function.comp_def, leafEv_leaf, pointEv]

theorem outlineChildEvs_contours (f : Fmt) (cs : List Contour) :
    (cs.map (contourNode f)).flatMap outlineChildEvs = cs.flatMap (contourEvs f) := by
  induction cs with
  | nil => rfl
  | cons c r ih =>
    simp only [List.map_cons, List.flatMap_cons, ih]
    congr 1
    simp [outlineChildEvs, contourNode, XNode.tag, ← contourEvsOf_node]

theorem outlineChildEvs_components (f : Fmt) (ks : List Component) :
    (ks.map (fun k => leaf sComponent (componentAttrs f k))).flatMap outlineChildEvs = ks.map (componentEv f) := by
  induction ks with
  | nil => rfl
  | cons c r ih =>
    simp only [List.map_cons, List.flatMap_cons, ih]
    simp [outlineChildEvs, tag_leaf, leafEv_leaf, componentEv]

theorem childEvs_map_leaf {α : Type} (rl : String → LibV) (n : Str) (w : α → List Attr) (l : List α)
    (h1 : S n ≠ "outline") (h2 : S n ≠ "lib") (h3 : S n ≠ "note") :
    (l.map fun x => leaf n (w x)).flatMap (glyphChildEvs rl) = l.map fun x => Ev.empty n (some (w x)) := by
  induction l with
  | nil => rfl
  | cons a r ih => simp only [List.map_cons, List.flatMap_cons, ih, childEvs_leaf rl n (w a) h1 h2 h3]; rfl

/-- **the tree is the encoder's output**: its canonical event list is `encodeGlif f g`, event for event -/
theorem events_of_encTree (f : Fmt) (showLib : Dict → String) (readLib : String → LibV)
    (hl : ∀ d, readLib (showLib d) = .dict d) (g : Glyph) :
    eventsOf readLib (encTree f showLib g) = encodeGlif f g := by
  have hU := childEvs_map_leaf readLib sUnicode (fun c => [(sHex, showCodepoint c)]) g.codepoints
    (by simp) (by simp) (by simp)
  have hA := childEvs_map_leaf readLib sAnchor (anchorAttrs f) g.anchors (by simp) (by simp) (by simp)
  have hG := childEvs_map_leaf readLib sGuideline (guidelineAttrs f) g.guidelines (by simp) (by simp) (by simp)
  have hAdv := childEvs_leaf readLib sAdvance (advanceAttrs f g.width g.height) (by simp) (by simp) (by simp)
  have hO : glyphChildEvs readLib (outlineNode f g) =
      .start sOutline (some []) :: (g.contours.flatMap (contourEvs f) ++ g.components.map (componentEv f) ++ [.close sOutline]) := by
    simp [glyphChildEvs, outlineNode, toList_outline, attrsL, List.flatMap_append, outlineChildEvs_contours,
          outlineChildEvs_components]
  have hImg := fun i => childEvs_leaf readLib sImage (imageAttrs f i) (by simp) (by simp) (by simp)
  unfold encodeGlif encTree eventsOf
  simp only [List.flatMap_append, hU, hA, hG, toList_glyph, attrsL_attrsS]
  cases hi : g.image <;> cases hn : g.note <;>
    by_cases h1 : (isNormal g.width || isNormal g.height) = true <;>
    by_cases h2 : (!g.contours.isEmpty || !g.components.isEmpty) = true <;>
    by_cases h3 : (writtenLib g).isEmpty = true <;>
    simp [h1, h2, h3, hAdv, hO, hImg, childEvs_lib, childEvs_note, hl, S_isEmpty, imageEv,
          List.append_assoc] <;> rfl

theorem mapM_map_some_mem {α β γ : Type} (rdr : β → Option γ) (w : α → β) (d : α → γ) (l : List α)
    (h : ∀ x, x ∈ l → rdr (w x) = some (d x)) : (l.map w).mapM rdr = some (l.map d) := by
  induction l with
  | nil => simp
  | cons a r ih =>
    have h1 := h a List.mem_cons_self
    have h2 := ih (fun x hx => h x (List.mem_cons_of_mem _ hx))
    simp [List.mapM_cons, h1, h2]

theorem reindentDict_isEmpty (ind : Str) (d : Dict) : (reindentDict ind d).isEmpty = d.isEmpty := by
  cases d with
  | nil => simp [reindentDict]
  | cons a r => obtain ⟨k, v⟩ := a; simp [reindentDict]

theorem spec_reads_outline (hc : LexCodec f lx nc ok) {g : Glyph}
    (hcs : ∀ c, c ∈ g.contours → ContourOK' ok c) (hks : ∀ k, k ∈ g.components → ComponentOK ok k) :
    readOutline lx (outlineNode f g) =
      some (g.contours.map (fun c => descContour (pContour c)), g.components.map (fun k => descComponent (pComponent k))) := by
  have hc' := mapM_map_some_mem (readContour lx) (contourNode f) (fun c => descContour (pContour c)) g.contours
    (fun c hcm => spec_reads_contour hc (fun p hp => ⟨((hcs c hcm).points p hp).x, ((hcs c hcm).points p hp).y⟩))
  have hk' := mapM_map_some_mem (readComponent lx) (fun k => leaf sComponent (componentAttrs f k))
    (fun k => descComponent (pComponent k)) g.components (fun k hkm => spec_reads_component hc (hks k hkm).transform)
  have tc : ∀ c, (contourNode f c).tag = "contour" := fun _ => rfl
  have tk : ∀ k : Component, (leaf sComponent (componentAttrs f k)).tag = "component" := fun _ => by simp [tag_leaf]
  have f1 := filter_map_same (contourNode f) "contour" tc g.contours
  have f2 := filter_map_other (fun k => leaf sComponent (componentAttrs f k)) "contour" "component" tk (by decide) g.components
  have f3 := filter_map_other (contourNode f) "component" "contour" tc (by decide) g.contours
  have f4 := filter_map_same (fun k => leaf sComponent (componentAttrs f k)) "component" tk g.components
  simp [readOutline, outlineNode, List.all_append, List.filter_append, f1, f2, f3, f4, hc', hk', tc, tk]

/-- **norad's encoder, read by the specification-level reader**: in the tree of what `encode_xml` writes the
    independent reader finds, under the names of the UFO 3 specification, exactly the glyph norad's own parser arrives
    at on the same bytes (`preG` of `Glif.parse_encode`), for every valid glyph whose note does not trim to nothing and
    whose contours all have points (`hne`: a contour WITHOUT points is written as `<contour></contour>`, which the
    independent reader reports as an empty contour while norad's parser drops it — `keepContours` in `preG`) -/
theorem spec_reads_encTree (hc : LexCodec f lx nc ok) (showLib : Dict → String) {g : Glyph} (hv : ValidGlyph ok g)
    (hnote : ∀ n, g.note = some n → (trimText n).isEmpty = false)
    (hne : ∀ c, c ∈ g.contours → c.points ≠ []) :
    specRead lx (encTree f showLib g) = some (descGlyph showLib (preG f nc g)) := by
  have tU : ∀ c : Nat, (leaf sUnicode [(sHex, showCodepoint c)]).tag = "unicode" := fun _ => by simp [tag_leaf]
  have tA : ∀ a : Anchor, (leaf sAnchor (anchorAttrs f a)).tag = "anchor" := fun _ => by simp [tag_leaf]
  have tG : ∀ a : Guideline, (leaf sGuideline (guidelineAttrs f a)).tag = "guideline" := fun _ => by simp [tag_leaf]
  have fU := fun t => filter_map_tag (fun c : Nat => leaf sUnicode [(sHex, showCodepoint c)]) t "unicode" tU g.codepoints
  have fA := fun t => filter_map_tag (fun a => leaf sAnchor (anchorAttrs f a)) t "anchor" tA g.anchors
  have fG := fun t => filter_map_tag (fun a => leaf sGuideline (guidelineAttrs f a)) t "guideline" tG g.guidelines
  have mU := mapM_map_some_mem (readUnicode lx) (fun c : Nat => leaf sUnicode [(sHex, showCodepoint c)]) id g.codepoints
    (fun c hcm => spec_reads_unicode hc (hv.codepoints c hcm))
  have mA := mapM_map_some_mem (readAnchor lx) (fun a => leaf sAnchor (anchorAttrs f a)) (fun a => descAnchor (pAnchor nc a))
    g.anchors (fun a ham => spec_reads_anchor hc (hv.anchors a ham).x (hv.anchors a ham).y)
  have mG := mapM_map_some_mem (readGuideline lx) (fun a => leaf sGuideline (guidelineAttrs f a))
    (fun a => descGuideline (pGuideline nc a)) g.guidelines (fun a ham => spec_reads_guideline hc (hv.guidelines a ham).line)
  have hAdv := spec_reads_advance hc hv.width hv.height
  have hOut := spec_reads_outline hc hv.contours hv.components
  have hImg := fun i (hi : g.image = some i) => spec_reads_image hc (hv.image i hi).transform
  have tAdv : (leaf sAdvance (advanceAttrs f g.width g.height)).tag = "advance" := by simp [tag_leaf]
  have tImg : ∀ i : Image, (leaf sImage (imageAttrs f i)).tag = "image" := fun _ => by simp [tag_leaf]
  have tOut : (outlineNode f g).tag = "outline" := rfl
  have hk : keepContours g.contours = g.contours.map pContour := keepContours_of_nonempty hne
  unfold encTree
  cases hi : g.image <;> cases hn : g.note <;>
    by_cases h1 : (isNormal g.width || isNormal g.height) = true <;>
    by_cases h2 : (!g.contours.isEmpty || !g.components.isEmpty) = true <;>
    by_cases h3 : (writtenLib g).isEmpty = true <;>
    simp [specRead, allowed_cons, allowed_nil, attrNames_glyph, List.lookup, List.filter_append, List.all_append, fU, fA, fG,
          hasTag, tag_elem, glyphChildTags, atMostOne, mU, mA, mG, hAdv, hOut, hImg, hi, hn, readNote, readLib, tU, tA, tG,
          tAdv, tImg, tOut, h1, h2, h3, zeroBits, descGlyph, preG, pNote, reindentDict_isEmpty, hnote, hk, List.map_map,
          Function.comp_def] <;>
    simpa using h2

end

end C05Bridge

/-! ### the specification-level writer, element by element, read by norad's attribute parsers

`Ufo3.specWrite` spells every attribute out (also the defaults: `type="offcurve"`, `smooth="no"`, all six transformation
coefficients, both advance attributes) and puts the attributes in its own order; norad's parsers (`Glif.parseAnchor`, …,
the functions `Glif.parseGlif` is made of and `C12`'s theorems are about) read every element back. -/

namespace C05Bridge
open Ufo3 Glif

/-- what is assumed of Rust's `str::parse::<f64>` / `Color::from_str` / `from_str_radix` on the strings the
    specification-level renderer produces (the counterpart of `LexCodec`) -/
structure ParseCodec (rd : Str → Option Nat) (rdr : Render) (ok : Nat → Prop) : Prop where
  num : ∀ n, ok n → rd (rdr.nums [n]).toList = some n
  col : ∀ c : ColorD, (ok c.r ∧ unitOk c.r = true) → (ok c.g ∧ unitOk c.g = true) → (ok c.b ∧ unitOk c.b = true) →
    (ok c.a ∧ unitOk c.a = true) → readCol rd (rdr.nums [c.r, c.g, c.b, c.a]).toList = some ⟨c.r, c.g, c.b, c.a⟩
  hex : ∀ c, ValidCodepoint c → parseHex (rdr.hex c).toList = some c

def nodeAttrs : XNode → List Attr
  | .elem _ as _ _ => attrsL as

def L (s : String) : Str := s.toList
def colG (c : ColorD) : Color := ⟨c.r, c.g, c.b, c.a⟩
def trG (t : Affine Nat) : Transform := ⟨t.xScale, t.xyScale, t.yxScale, t.yScale, t.xOffset, t.yOffset⟩
/-- every channel is a number of the codec's domain and lies in 0..1 -/
def okColor (ok : Nat → Prop) (c : Option ColorD) : Prop :=
  ∀ x, c = some x → (ok x.r ∧ unitOk x.r = true) ∧ (ok x.g ∧ unitOk x.g = true) ∧ (ok x.b ∧ unitOk x.b = true) ∧
    (ok x.a ∧ unitOk x.a = true)

section
variable {rd : Str → Option Nat} {rdr : Render} {ok : Nat → Prop}

/-- **anchor** -/
theorem norad_parses_spec_anchor (hc : ParseCodec rd rdr ok) (seen : List Str) {a : AnchorD} (hx : ok a.x) (hy : ok a.y)
    (hn : ∀ n, a.name = some n → validName (L n) = true) (hcol : okColor ok a.color)
    (hi : FreshId seen (a.identifier.map L)) :
    parseAnchor rd 2 seen (nodeAttrs (writeAnchor rdr a)) =
      some { x := a.x, y := a.y, name := a.name.map L, color := a.color.map colG, ident := a.identifier.map L } := by
  obtain ⟨x, y, name, color, ident⟩ := a
  simp only at hx hy hn hcol hi
  have nx := hc.num _ hx
  have ny := hc.num _ hy
  have hcl : ∀ c, color = some c → readCol rd (rdr.nums [c.r, c.g, c.b, c.a]).toList = some ⟨c.r, c.g, c.b, c.a⟩ :=
    fun c h => hc.col c (hcol c h).1 (hcol c h).2.1 (hcol c h).2.2.1 (hcol c h).2.2.2
  have hid : ∀ i, ident = some i → readIdent 2 seen (L i) = some (L i) :=
    fun i h => readIdent_ok (hi (L i) (by simp [h])).1 (hi (L i) (by simp [h])).2
  cases name <;> cases color <;> cases ident <;>
    simp [nodeAttrs, writeAnchor, attrsL, optA, colorA, parseAnchor, foldAttrs, aStep, aApply, aFinish, nx, ny, hn, hcl,
          hid, L, colG] <;> simp_all [L]

/-- the line of a guideline description: x alone, y alone, or x, y and an angle within 0..360 -/
def lineOf (g : GuidelineD) : Option Line :=
  match g.x, g.y, g.angle with
  | some x, none, none => some (.vertical x)
  | none, some y, none => some (.horizontal y)
  | some x, some y, some d => some (.angle x y d)
  | _, _, _ => none

/-- **guideline** -/
theorem norad_parses_spec_guideline (hc : ParseCodec rd rdr ok) (seen : List Str) {g : GuidelineD} {l : Line}
    (hl : lineOf g = some l)
    (hx : ∀ v, g.x = some v → ok v) (hy : ∀ v, g.y = some v → ok v)
    (ha : ∀ v, g.angle = some v → ok v ∧ angleOk v = true)
    (hn : ∀ n, g.name = some n → validName (L n) = true) (hcol : okColor ok g.color)
    (hi : FreshId seen (g.identifier.map L)) :
    parseGuideline rd 2 seen (nodeAttrs (writeGuideline rdr g)) =
      some { line := l, name := g.name.map L, color := g.color.map colG, ident := g.identifier.map L } := by
  obtain ⟨x, y, angle, name, color, ident⟩ := g
  simp only at hx hy ha hn hcol hi
  have hcl : ∀ c, color = some c → readCol rd (rdr.nums [c.r, c.g, c.b, c.a]).toList = some ⟨c.r, c.g, c.b, c.a⟩ :=
    fun c h => hc.col c (hcol c h).1 (hcol c h).2.1 (hcol c h).2.2.1 (hcol c h).2.2.2
  have hid : ∀ i, ident = some i → readIdent 2 seen (L i) = some (L i) :=
    fun i h => readIdent_ok (hi (L i) (by simp [h])).1 (hi (L i) (by simp [h])).2
  have nx : ∀ v, x = some v → rd (rdr.nums [v]).toList = some v := fun v h => hc.num _ (hx v h)
  have ny : ∀ v, y = some v → rd (rdr.nums [v]).toList = some v := fun v h => hc.num _ (hy v h)
  have na : ∀ v, angle = some v → rd (rdr.nums [v]).toList = some v := fun v h => hc.num _ (ha v h).1
  have ka : ∀ v, angle = some v → angleOk v = true := fun v h => (ha v h).2
  cases x <;> cases y <;> cases angle <;> simp [lineOf] at hl <;> subst hl <;>
    cases name <;> cases color <;> cases ident <;>
    simp [nodeAttrs, writeGuideline, attrsL, optA, optN, colorA, parseGuideline, foldAttrs, guStep, guApply, guFinish,
          nx, ny, na, ka, hn, hcl, hid, L, colG] <;> simp_all [L]

def ptG : PType → C11.PT
  | .move => .move | .line => .line | .offcurve => .off | .curve => .curve | .qcurve => .qcurve

@[simp] theorem readPointType_offcurve : readPointType ['o', 'f', 'f', 'c', 'u', 'r', 'v', 'e'] = some .off := by decide

/-- **point**: also the spelt-out defaults `type="offcurve"` and `smooth="no"` are read as intended -/
theorem norad_parses_spec_point (hc : ParseCodec rd rdr ok) (seen : List Str) {p : PointD} (hx : ok p.x) (hy : ok p.y)
    (hn : ∀ n, p.name = some n → validName (L n) = true) (hi : FreshId seen (p.identifier.map L)) :
    parsePoint rd 2 seen (nodeAttrs (writePoint rdr p)) =
      some { x := p.x, y := p.y, typ := ptG p.typ, smooth := p.smooth, name := p.name.map L, ident := p.identifier.map L } := by
  obtain ⟨x, y, typ, smooth, name, ident⟩ := p
  simp only at hx hy hn hi
  have nx := hc.num _ hx
  have ny := hc.num _ hy
  have hid : ∀ i, ident = some i → readIdent 2 seen (L i) = some (L i) :=
    fun i h => readIdent_ok (hi (L i) (by simp [h])).1 (hi (L i) (by simp [h])).2
  cases typ <;> cases smooth <;> cases name <;> cases ident <;>
    simp [nodeAttrs, writePoint, attrsL, optA, PType.str, parsePoint, foldAttrs, pStep, pApply, pFinish, nx, ny, hn, hid,
          L, ptG] <;> simp_all [L]

def okAffine (ok : Nat → Prop) (t : Affine Nat) : Prop :=
  ok t.xScale ∧ ok t.xyScale ∧ ok t.yxScale ∧ ok t.yScale ∧ ok t.xOffset ∧ ok t.yOffset

/-- **component**: all six coefficients spelt out, each lands in the field the specification names -/
theorem norad_parses_spec_component (hc : ParseCodec rd rdr ok) (seen : List Str) {k : ComponentD}
    (hb : validName (L k.base) = true) (ht : okAffine ok k.t) (hi : FreshId seen (k.identifier.map L)) :
    parseComponent rd 2 seen (nodeAttrs (writeComponent rdr k)) =
      some { base := L k.base, transform := trG k.t, ident := k.identifier.map L } := by
  obtain ⟨base, t, ident⟩ := k
  obtain ⟨a, b, c, d, e, f'⟩ := t
  obtain ⟨h1, h2, h3, h4, h5, h6⟩ := ht
  simp only at hb hi h1 h2 h3 h4 h5 h6
  have n1 := hc.num _ h1; have n2 := hc.num _ h2; have n3 := hc.num _ h3
  have n4 := hc.num _ h4; have n5 := hc.num _ h5; have n6 := hc.num _ h6
  have hid : ∀ i, ident = some i → readIdent 2 seen (L i) = some (L i) :=
    fun i h => readIdent_ok (hi (L i) (by simp [h])).1 (hi (L i) (by simp [h])).2
  cases ident <;>
    simp [nodeAttrs, writeComponent, attrsL, optA, transformA, parseComponent, foldAttrs, cStep, cApply, cFinish, tSet,
          n1, n2, n3, n4, n5, n6, hb, hid, L, trG] <;> simp_all [L]

/-- **image** -/
theorem norad_parses_spec_image (hc : ParseCodec rd rdr ok) {i : ImageD}
    (hf : imageNameOk (L i.fileName) = true) (ht : okAffine ok i.t) (hcol : okColor ok i.color) :
    parseImage rd (nodeAttrs (writeImage rdr i)) =
      some { fileName := L i.fileName, color := i.color.map colG, transform := trG i.t } := by
  obtain ⟨fn, t, color⟩ := i
  obtain ⟨a, b, c, d, e, f'⟩ := t
  obtain ⟨h1, h2, h3, h4, h5, h6⟩ := ht
  simp only at hf hcol h1 h2 h3 h4 h5 h6
  have n1 := hc.num _ h1; have n2 := hc.num _ h2; have n3 := hc.num _ h3
  have n4 := hc.num _ h4; have n5 := hc.num _ h5; have n6 := hc.num _ h6
  have hcl : ∀ c, color = some c → readCol rd (rdr.nums [c.r, c.g, c.b, c.a]).toList = some ⟨c.r, c.g, c.b, c.a⟩ :=
    fun c h => hc.col c (hcol c h).1 (hcol c h).2.1 (hcol c h).2.2.1 (hcol c h).2.2.2
  cases color <;>
    simp [nodeAttrs, writeImage, attrsL, colorA, transformA, parseImage, foldAttrs, iStep, iApply, iFinish, tSet,
          n1, n2, n3, n4, n5, n6, hf, hcl, L, trG, colG] <;> simp_all [L]

/-- **advance**: both attributes spelt out -/
theorem norad_parses_spec_advance (hc : ParseCodec rd rdr ok) {w h : Nat} (hw : ok w) (hh : ok h) :
    parseAdvance rd (attrsL [("width", rdr.nums [w]), ("height", rdr.nums [h])]) = some (w, h) := by
  have nw := hc.num _ hw
  have nh := hc.num _ hh
  simp [attrsL, parseAdvance, foldAttrs, advStep, advApply, nw, nh]

/-- **unicode** -/
theorem norad_parses_spec_unicode (hc : ParseCodec rd rdr ok) (cps : List Nat) {c : Nat} (hv : ValidCodepoint c) :
    parseUnicode cps (nodeAttrs (writeUnicode rdr c)) = some (cpInsert cps c) := by
  simp [nodeAttrs, writeUnicode, attrsL, parseUnicode, foldAttrs, uniStep, sHex_lit, hc.hex c hv]

/-- the `contour` and `glyph` start tags -/
theorem norad_parses_spec_contour_attrs (seen : List Str) (cid : Option String) (hi : FreshId seen (cid.map L)) :
    parseContourAttrs 2 seen (attrsL (optA "identifier" cid)) = some (cid.map L) := by
  cases cid with
  | none => simp [attrsL, optA, parseContourAttrs, foldAttrs]
  | some i =>
    have := readIdent_ok (hi (L i) (by simp)).1 (hi (L i) (by simp)).2
    simp [attrsL, optA, parseContourAttrs, foldAttrs, ctStep, sIdentifier_lit, L] at this ⊢
    simp [this]

theorem norad_parses_spec_glyph_attrs {name : String} (hn : validName (L name) = true) :
    parseGlyphAttrs (some (attrsL [("name", name), ("format", "2")])) = .ok (L name, 2) := by
  have : parseU32 10 ['2'] = some 2 := by decide
  simp [attrsL, parseGlyphAttrs, foldAttrs, gStep, gApply, gFinish, hn, this, L] <;> simp_all [L]

end
end C05Bridge
