import Norad.Lemmas.StrMap
import Norad.Model.Kerning
import Norad.Spec.Kerning
/-! Helper lemmas for C15 / C10 (validator, unique names, the renaming fold, the pair rewriting). -/
namespace Kern
open StrMap

/-! ## the validator -/

theorem insertAll_some_iff (set ms set' : List Str) :
    insertAll set ms = some set' ↔ set' = ms.reverse ++ set ∧ ms.Nodup ∧ ∀ m ∈ ms, m ∉ set := by
  induction ms generalizing set with
  | nil => simp [insertAll, eq_comm]
  | cons m ms ih =>
    simp only [insertAll]
    split
    · rename_i h
      have hm : m ∈ set := by simpa using h
      simp only [reduceCtorEq, false_iff]
      rintro ⟨_, _, h3⟩
      exact h3 m (by simp) hm
    · rename_i h
      have hm : m ∉ set := by simpa using h
      rw [ih]
      simp only [List.reverse_cons, List.append_assoc, List.singleton_append, List.nodup_cons,
        List.mem_cons, forall_eq_or_imp, not_or]
      constructor
      · rintro ⟨h1, h2, h3⟩
        exact ⟨h1, ⟨fun hc => (h3 m hc).1 rfl, h2⟩, hm, fun x hx => (h3 x hx).2⟩
      · rintro ⟨h1, ⟨h2, h3⟩, h4, h5⟩
        exact ⟨h1, h3, fun x hx => ⟨fun hxm => h2 (hxm ▸ hx), h5 x hx⟩⟩

theorem insertAll_none_iff (set ms : List Str) :
    insertAll set ms = none ↔ ¬ (ms.Nodup ∧ ∀ m ∈ ms, m ∉ set) := by
  constructor
  · intro h ⟨h1, h2⟩
    have := (insertAll_some_iff set ms (ms.reverse ++ set)).2 ⟨rfl, h1, h2⟩
    rw [h] at this; cases this
  · intro h
    cases hi : insertAll set ms with
    | none => rfl
    | some s => exact absurd ((insertAll_some_iff set ms s).1 hi).2 h

theorem byteLen_append (a b : Str) : byteLen (a ++ b) = byteLen a + byteLen b := by
  simp [byteLen]

theorem byteLen_eq_zero {s : Str} (h : byteLen s = 0) : s = [] := by
  cases s with
  | nil => rfl
  | cons c cs =>
    have := Char.utf8Size_pos c
    simp [byteLen] at h
    omega

theorem byteLen_pfx1 : byteLen pfx1 = 13 := by decide
theorem byteLen_pfx2 : byteLen pfx2 = 13 := by decide

/-- `starts_with(prefix) && len() == 13` is "the name is the prefix" -/
theorem prefixOnly_iff {pfx name : Str} (hp : byteLen pfx = 13) (h : pfx.isPrefixOf name = true) :
    (byteLen name == 13) = true ↔ name = pfx := by
  rw [List.isPrefixOf_iff_prefix] at h
  obtain ⟨t, rfl⟩ := h
  rw [beq_iff_eq, byteLen_append, hp]
  constructor
  · intro h'
    have : t = [] := byteLen_eq_zero (by omega)
    simp [this]
  · intro h'
    have : t = [] := by simpa using h'
    simp [this, byteLen]

theorem not_both_prefixes {name : Str} (h1 : pfx1.isPrefixOf name = true) :
    pfx2.isPrefixOf name = false := by
  cases h2 : pfx2.isPrefixOf name with
  | false => rfl
  | true =>
    rw [List.isPrefixOf_iff_prefix, List.prefix_iff_eq_take] at h1 h2
    have : pfx1 = pfx2 := by
      rw [h1, h2]
      have : pfx1.length = pfx2.length := by decide
      rw [this]
    exact absurd this (by decide)

theorem pfx1_eq : pfx1 = KernSpec.p1 := rfl
theorem pfx2_eq : pfx2 = KernSpec.p2 := rfl

theorem sideMembers_cons_pos {pfx name : Str} {ms : List Str} {rest : Groups}
    (h : pfx.isPrefixOf name = true) :
    KernSpec.sideMembers pfx ((name, ms) :: rest) = ms ++ KernSpec.sideMembers pfx rest := by
  simp [KernSpec.sideMembers, List.filter_cons, h]

theorem sideMembers_cons_neg {pfx name : Str} {ms : List Str} {rest : Groups}
    (h : pfx.isPrefixOf name = false) :
    KernSpec.sideMembers pfx ((name, ms) :: rest) = KernSpec.sideMembers pfx rest := by
  simp [KernSpec.sideMembers, List.filter_cons, h]

/-- names are acceptable: non-empty and not just a kerning prefix -/
def NamesOK (g : Groups) : Prop := ∀ e ∈ g, e.1 ≠ [] ∧ e.1 ≠ pfx1 ∧ e.1 ≠ pfx2

theorem namesOK_cons {e : Str × List Str} {rest : Groups} :
    NamesOK (e :: rest) ↔ (e.1 ≠ [] ∧ e.1 ≠ pfx1 ∧ e.1 ≠ pfx2) ∧ NamesOK rest := by
  simp [NamesOK]

theorem not_prefix_of_ne_self {pfx name : Str} (h : pfx.isPrefixOf name = false) : name ≠ pfx := by
  intro he; subst he
  have : name.isPrefixOf name = true := by rw [List.isPrefixOf_iff_prefix]; exact List.prefix_refl _
  rw [this] at h; cases h

/-- the loop invariant: what the two sets hold is disjoint from what is still to come -/
theorem validateLoop_ok_iff (g : Groups) (k1 k2 : List Str) :
    validateLoop g k1 k2 = .ok () ↔
      NamesOK g ∧
      ((KernSpec.sideMembers pfx1 g).Nodup ∧ ∀ x ∈ KernSpec.sideMembers pfx1 g, x ∉ k1) ∧
      ((KernSpec.sideMembers pfx2 g).Nodup ∧ ∀ x ∈ KernSpec.sideMembers pfx2 g, x ∉ k2) := by
  induction g generalizing k1 k2 with
  | nil => simp [validateLoop, NamesOK, KernSpec.sideMembers]
  | cons e rest ih =>
    obtain ⟨name, ms⟩ := e
    simp only [validateLoop]
    rw [namesOK_cons]
    by_cases hE : name.isEmpty = true
    · have : name = [] := by simpa using hE
      simp [hE, this]
    · have hne : name ≠ [] := by simpa using hE
      simp only [hE, Bool.false_eq_true, if_false]
      by_cases h1 : pfx1.isPrefixOf name = true
      · have h2 := not_both_prefixes h1
        have hne2 : name ≠ pfx2 := not_prefix_of_ne_self h2
        simp only [h1, if_true]
        rw [sideMembers_cons_pos h1, sideMembers_cons_neg h2]
        by_cases hl : (byteLen name == 13) = true
        · have := (prefixOnly_iff byteLen_pfx1 h1).1 hl
          simp only [hl, if_true]
          simp [this]
        · have hne1 : name ≠ pfx1 := fun he => hl ((prefixOnly_iff byteLen_pfx1 h1).2 he)
          simp only [hl, Bool.false_eq_true, if_false]
          cases hi : insertAll k1 ms with
          | none =>
            have := (insertAll_none_iff k1 ms).1 hi
            simp only [reduceCtorEq, false_iff]
            rintro ⟨_, ⟨hn, hd⟩, _⟩
            rw [List.nodup_append] at hn
            exact this ⟨hn.1, fun m hm => hd m (List.mem_append_left _ hm)⟩
          | some k1' =>
            obtain ⟨rfl, hn, hd⟩ := (insertAll_some_iff k1 ms k1').1 hi
            simp only
            rw [ih, List.nodup_append]
            simp only [List.mem_append, List.mem_reverse, not_or]
            constructor
            · rintro ⟨hN, ⟨hR, hRd⟩, h2'⟩
              refine ⟨⟨⟨hne, hne1, hne2⟩, hN⟩, ⟨⟨hn, hR, ?_⟩, ?_⟩, h2'⟩
              · intro a ha b hb hab; subst hab; exact (hRd a hb).1 ha
              · rintro x (hx | hx)
                · exact hd x hx
                · exact (hRd x hx).2
            · rintro ⟨⟨_, hN⟩, ⟨⟨_, hR, hdis⟩, hall⟩, h2'⟩
              refine ⟨hN, ⟨hR, fun x hx => ⟨fun hxm => hdis x hxm x hx rfl, hall x (Or.inr hx)⟩⟩, h2'⟩
      · have h1' : pfx1.isPrefixOf name = false := (Bool.not_eq_true _).mp h1
        have hne1 : name ≠ pfx1 := not_prefix_of_ne_self h1'
        simp only [h1, Bool.false_eq_true, if_false]
        rw [sideMembers_cons_neg h1']
        by_cases h2 : pfx2.isPrefixOf name = true
        · simp only [h2, if_true]
          rw [sideMembers_cons_pos h2]
          by_cases hl : (byteLen name == 13) = true
          · have := (prefixOnly_iff byteLen_pfx2 h2).1 hl
            simp only [hl, if_true]
            simp [this]
          · have hne2 : name ≠ pfx2 := fun he => hl ((prefixOnly_iff byteLen_pfx2 h2).2 he)
            simp only [hl, Bool.false_eq_true, if_false]
            cases hi : insertAll k2 ms with
            | none =>
              have := (insertAll_none_iff k2 ms).1 hi
              simp only [reduceCtorEq, false_iff]
              rintro ⟨_, _, ⟨hn, hd⟩⟩
              rw [List.nodup_append] at hn
              exact this ⟨hn.1, fun m hm => hd m (List.mem_append_left _ hm)⟩
            | some k2' =>
              obtain ⟨rfl, hn, hd⟩ := (insertAll_some_iff k2 ms k2').1 hi
              simp only
              rw [ih, List.nodup_append]
              simp only [List.mem_append, List.mem_reverse, not_or]
              constructor
              · rintro ⟨hN, h1'', ⟨hR, hRd⟩⟩
                refine ⟨⟨⟨hne, hne1, hne2⟩, hN⟩, h1'', ⟨⟨hn, hR, ?_⟩, ?_⟩⟩
                · intro a ha b hb hab; subst hab; exact (hRd a hb).1 ha
                · rintro x (hx | hx)
                  · exact hd x hx
                  · exact (hRd x hx).2
              · rintro ⟨⟨_, hN⟩, h1'', ⟨⟨_, hR, hdis⟩, hall⟩⟩
                refine ⟨hN, h1'', ⟨hR, fun x hx => ⟨fun hxm => hdis x hxm x hx rfl, hall x (Or.inr hx)⟩⟩⟩
        · have h2' : pfx2.isPrefixOf name = false := (Bool.not_eq_true _).mp h2
          have hne2 : name ≠ pfx2 := not_prefix_of_ne_self h2'
          simp only [h2, Bool.false_eq_true, if_false]
          rw [sideMembers_cons_neg h2', ih]
          constructor
          · rintro ⟨hN, r1, r2⟩; exact ⟨⟨⟨hne, hne1, hne2⟩, hN⟩, r1, r2⟩
          · rintro ⟨⟨_, hN⟩, r1, r2⟩; exact ⟨hN, r1, r2⟩

theorem nodupB_iff (l : List Str) : KernSpec.nodupB l = true ↔ l.Nodup := by
  induction l with
  | nil => simp [KernSpec.nodupB]
  | cons x xs ih => simp [KernSpec.nodupB, ih]

/-! ## unique names (`make_unique_group_name`) -/

theorem mkName_eq_some {s u : Str} (h : mkName s = some u) : u = s ∧ validName s = true := by
  unfold mkName at h
  split at h
  · rename_i hv; simp at h; exact ⟨h.symm, hv⟩
  · simp at h

theorem mkName_of_valid {s : Str} (h : validName s = true) : mkName s = some s := by simp [mkName, h]

theorem tryNames_ok {sfx : Nat → Str} {name : Str} {g : Groups} {fuel c : Nat} {u : Str}
    (h : tryNames sfx name g fuel c = .ok u) : hasKey u g = false ∧ name <+: u := by
  induction fuel generalizing c with
  | zero => simp [tryNames] at h
  | succ f ih =>
    simp only [tryNames] at h
    cases hm : mkName (name ++ sfx c) with
    | none => simp [hm] at h
    | some cand =>
      simp only [hm] at h
      obtain ⟨rfl, _⟩ := mkName_eq_some hm
      split at h
      · exact ih h
      · rename_i hc
        simp only [Res.ok.injEq] at h; subst h
        exact ⟨by simpa using hc, List.prefix_append _ _⟩

theorem makeUnique_ok {sfx : Nat → Str} {name : Str} {g : Groups} {fuel : Nat} {u : Str}
    (h : makeUnique sfx name g fuel = .ok u) : hasKey u g = false ∧ name <+: u := by
  unfold makeUnique at h
  split at h
  · exact tryNames_ok h
  · rename_i hc
    simp only [Res.ok.injEq] at h; subst h
    exact ⟨by simpa using hc, List.prefix_refl _⟩

theorem makeUnique_of_absent {sfx : Nat → Str} {name : Str} {g : Groups} {fuel : Nat}
    (h : hasKey name g = false) : makeUnique sfx name g fuel = .ok name := by simp [makeUnique, h]

/-- without panic sites: every candidate is a valid name -/
theorem tryNames_cases {sfx : Nat → Str} {name : Str} {g : Groups}
    (hv : ∀ c, validName (name ++ sfx c) = true) (fuel c : Nat) :
    (∃ u, tryNames sfx name g fuel c = .ok u) ∨
    (tryNames sfx name g fuel c = .outOfFuel ∧ ∀ i, i < fuel → hasKey (name ++ sfx (c + i)) g = true) := by
  induction fuel generalizing c with
  | zero => right; simp [tryNames]
  | succ f ih =>
    simp only [tryNames, mkName_of_valid (hv c)]
    by_cases hc : hasKey (name ++ sfx c) g = true
    · simp only [hc, if_true]
      rcases ih (c + 1) with h | ⟨h1, h2⟩
      · exact Or.inl h
      · right
        refine ⟨h1, ?_⟩
        intro i hi
        cases i with
        | zero => simpa using hc
        | succ j =>
          have := h2 j (by omega)
          have e : c + 1 + j = c + (j + 1) := by omega
          rw [e] at this; exact this
    · left; simp [hc]

/-- the fuel `g.length + 1` suffices: `g.length + 1` distinct candidates cannot all be keys -/
theorem tryNames_enough_fuel {sfx : Nat → Str} {name : Str} {g : Groups}
    (hinj : ∀ a b, sfx a = sfx b → a = b) (hv : ∀ c, validName (name ++ sfx c) = true) (c : Nat) :
    ∃ u, tryNames sfx name g (g.length + 1) c = .ok u := by
  rcases tryNames_cases (g := g) hv (g.length + 1) c with h | ⟨_, h2⟩
  · exact h
  · exfalso
    let L := (List.range (g.length + 1)).map (fun i => name ++ sfx (c + i))
    have hnd : L.Nodup := by
      show List.Pairwise (· ≠ ·) L
      rw [List.pairwise_map]
      refine List.Pairwise.imp ?_ (List.nodup_range (n := g.length + 1))
      intro a b hab he
      have := hinj _ _ (List.append_cancel_left he)
      omega
    have hsub : L ⊆ keys g := by
      intro x hx
      obtain ⟨i, hi, rfl⟩ := List.mem_map.mp hx
      exact hasKey_iff_mem_keys.mp (h2 i (List.mem_range.mp hi))
    have := List.Nodup.length_le_of_subset hnd hsub
    simp [L, keys] at this
    omega

theorem makeUnique_total {sfx : Nat → Str} {name : Str} {g : Groups}
    (hinj : ∀ a b, sfx a = sfx b → a = b) (hv : ∀ c, validName (name ++ sfx c) = true) :
    ∃ u, makeUnique sfx name g (g.length + 1) = .ok u := by
  unfold makeUnique
  split
  · exact tryNames_enough_fuel hinj hv 1
  · exact ⟨name, rfl⟩

/-! ## one renaming loop -/

/-- inversion of one step of a successful run -/
theorem renameSide_cons_ok {sfx : Nat → Str} {pfx legacy n : Str} {ns : List Str} {g : Groups}
    {tbl : Table} {r : Groups × Table}
    (h : renameSide sfx pfx legacy (n :: ns) g tbl = .ok r) :
    ∃ u members, makeUnique sfx (pfx ++ removeAll legacy n) g (g.length + 1) = .ok u ∧
      lookup n g = some members ∧
      renameSide sfx pfx legacy ns ((u, members) :: g) ((n, u) :: tbl) = .ok r := by
  simp only [renameSide] at h
  cases hm : mkName (pfx ++ removeAll legacy n) with
  | none => simp [hm] at h
  | some base =>
    obtain ⟨rfl, _⟩ := mkName_eq_some hm
    simp only [hm] at h
    cases hu : makeUnique sfx (pfx ++ removeAll legacy n) g (g.length + 1) with
    | panic s => simp [hu] at h
    | outOfFuel => simp [hu] at h
    | ok u =>
      simp only [hu] at h
      cases hl : lookup n g with
      | none => simp [hl] at h
      | some members =>
        simp only [hl] at h
        exact ⟨u, members, rfl, rfl, h⟩

/-- every group present before the loop is still there, unchanged -/
theorem renameSide_keeps {sfx : Nat → Str} {pfx legacy : Str} (ns : List Str) (g g' : Groups)
    (tbl tbl' : Table) (h : renameSide sfx pfx legacy ns g tbl = .ok (g', tbl')) :
    ∀ k, hasKey k g = true → lookup k g' = lookup k g := by
  induction ns generalizing g tbl with
  | nil => simp only [renameSide, Res.ok.injEq, Prod.mk.injEq] at h; obtain ⟨rfl, rfl⟩ := h; intros; rfl
  | cons n ns ih =>
    obtain ⟨u, members, hu, _, hrec⟩ := renameSide_cons_ok h
    intro k hk
    have hne : u ≠ k := hasKey_false_ne (makeUnique_ok hu).1 hk
    have hk' : hasKey k ((u, members) :: g) = true := by rw [hasKey_cons, hk]; simp
    rw [ih _ _ hrec k hk', lookup_cons_ne hne]

/-- shape of the result: the table and the map grow by the same new names, one per visited group -/
theorem renameSide_struct {sfx : Nat → Str} {pfx legacy : Str} (ns : List Str) (g g' : Groups)
    (tbl tbl' : Table) (h : renameSide sfx pfx legacy ns g tbl = .ok (g', tbl')) :
    ∃ new : Table, tbl' = new ++ tbl ∧ keys g' = new.map (·.2) ++ keys g ∧ new.map (·.1) = ns.reverse := by
  induction ns generalizing g tbl with
  | nil =>
    simp only [renameSide, Res.ok.injEq, Prod.mk.injEq] at h; obtain ⟨rfl, rfl⟩ := h
    exact ⟨[], by simp⟩
  | cons n ns ih =>
    obtain ⟨u, members, _, _, hrec⟩ := renameSide_cons_ok h
    obtain ⟨new, h1, h2, h3⟩ := ih _ _ hrec
    refine ⟨new ++ [(n, u)], by simp [h1], ?_, by simp [h3]⟩
    rw [h2]; simp [keys]

theorem renameSide_nodup {sfx : Nat → Str} {pfx legacy : Str} (ns : List Str) (g g' : Groups)
    (tbl tbl' : Table) (h : renameSide sfx pfx legacy ns g tbl = .ok (g', tbl'))
    (hg : (keys g).Nodup) : (keys g').Nodup := by
  induction ns generalizing g tbl with
  | nil => simp only [renameSide, Res.ok.injEq, Prod.mk.injEq] at h; obtain ⟨rfl, rfl⟩ := h; exact hg
  | cons n ns ih =>
    obtain ⟨u, members, hu, _, hrec⟩ := renameSide_cons_ok h
    apply ih _ _ hrec
    have : u ∉ keys g := hasKey_false_iff.mp (makeUnique_ok hu).1
    show (u :: keys g).Nodup
    exact List.nodup_cons.mpr ⟨this, hg⟩

/-- every visited group gets a table entry; its new name is absent from the map the loop started
    with, carries the prefix and the stripped old name, and holds the members of the old group -/
theorem renameSide_table {sfx : Nat → Str} {pfx legacy : Str} (ns : List Str) (g g' : Groups)
    (tbl tbl' : Table) (h : renameSide sfx pfx legacy ns g tbl = .ok (g', tbl'))
    (hns : ∀ n ∈ ns, hasKey n g = true) :
    ∀ n ∈ ns, ∃ u, (n, u) ∈ tbl' ∧ hasKey u g = false ∧ lookup u g' = lookup n g ∧
      (pfx ++ removeAll legacy n) <+: u := by
  induction ns generalizing g tbl with
  | nil => simp
  | cons n ns ih =>
    obtain ⟨u, members, hu, hm, hrec⟩ := renameSide_cons_ok h
    obtain ⟨hfresh, hpre⟩ := makeUnique_ok hu
    have hkeep := renameSide_keeps ns _ g' _ tbl' hrec
    obtain ⟨new, htbl, _, _⟩ := renameSide_struct ns _ g' _ tbl' hrec
    intro x hx
    rcases List.mem_cons.mp hx with rfl | hx
    · refine ⟨u, by rw [htbl]; simp, hfresh, ?_, hpre⟩
      have : hasKey u ((u, members) :: g) = true := by rw [hasKey_cons]; simp
      rw [hkeep u this, lookup_cons_self, hm]
    · have hxk : hasKey x g = true := hns x (List.mem_cons_of_mem _ hx)
      have hns' : ∀ m ∈ ns, hasKey m ((u, members) :: g) = true := by
        intro m hm'
        rw [hasKey_cons, hns m (List.mem_cons_of_mem _ hm')]; simp
      obtain ⟨v, hv1, hv2, hv3, hv4⟩ := ih _ _ hrec hns' x hx
      refine ⟨v, hv1, ?_, ?_, hv4⟩
      · rw [hasKey_cons] at hv2
        cases hvg : hasKey v g with
        | false => rfl
        | true => simp [hvg] at hv2
      · rw [hv3, lookup_cons_ne (hasKey_false_ne hfresh hxk)]

/-- the loop neither panics nor runs out of fuel when it visits groups of the map with valid names -/
theorem renameSide_total {sfx : Nat → Str} {pfx legacy : Str}
    (hinj : ∀ a b, sfx a = sfx b → a = b) (hsfx : ∀ c, ∀ ch ∈ sfx c, isCtl ch = false)
    (hpfx : pfx ≠ [] ∧ ∀ ch ∈ pfx, isCtl ch = false)
    (ns : List Str) (g : Groups) (tbl : Table)
    (hns : ∀ n ∈ ns, hasKey n g = true ∧ validName n = true) :
    ∃ r, renameSide sfx pfx legacy ns g tbl = .ok r := by
  induction ns generalizing g tbl with
  | nil => exact ⟨_, rfl⟩
  | cons n ns ih =>
    obtain ⟨hk, hvn⟩ := hns n (by simp)
    have hnctl : ∀ ch ∈ n, isCtl ch = false := by
      simp only [validName, Bool.and_eq_true, Bool.not_eq_true', List.any_eq_false] at hvn
      intro ch hch; simpa using hvn.2 ch hch
    have hbase : ∀ ch ∈ pfx ++ removeAll legacy n, isCtl ch = false := by
      intro ch hch
      rcases List.mem_append.mp hch with h | h
      · exact hpfx.2 ch h
      · exact hnctl ch (mem_removeAll h)
    have hvalid : ∀ t : Str, (∀ ch ∈ t, isCtl ch = false) →
        validName ((pfx ++ removeAll legacy n) ++ t) = true := by
      intro t ht
      simp only [validName, Bool.and_eq_true, Bool.not_eq_true', List.any_eq_false]
      refine ⟨?_, ?_⟩
      · cases hp : pfx with
        | nil => exact absurd hp hpfx.1
        | cons a as => simp
      · intro ch hch
        rcases List.mem_append.mp hch with h | h
        · simp [hbase ch h]
        · simp [ht ch h]
    have hvb : validName (pfx ++ removeAll legacy n) = true := by
      have := hvalid [] (by simp); simpa using this
    obtain ⟨u, hu⟩ := makeUnique_total (g := g) hinj (fun c => hvalid (sfx c) (hsfx c))
    obtain ⟨members, hm⟩ := lookup_isSome_of_hasKey hk
    have hns' : ∀ m ∈ ns, hasKey m ((u, members) :: g) = true ∧ validName m = true := by
      intro m hm'
      obtain ⟨h1, h2⟩ := hns m (List.mem_cons_of_mem _ hm')
      exact ⟨by rw [hasKey_cons, h1]; simp, h2⟩
    obtain ⟨r, hr⟩ := ih ((u, members) :: g) ((n, u) :: tbl) hns'
    exact ⟨r, by simp only [renameSide, mkName_of_valid hvb, hu, hm, hr]⟩

/-! ## tables -/

theorem lookup_of_mem_nodup {β : Type} {k : Str} {v : β} {m : List (Str × β)} (hn : (keys m).Nodup)
    (h : (k, v) ∈ m) : lookup k m = some v := by
  induction m with
  | nil => simp at h
  | cons e r ih =>
    obtain ⟨k', v'⟩ := e
    have hn' : k' ∉ keys r ∧ (keys r).Nodup := List.nodup_cons.mp hn
    rcases List.mem_cons.mp h with he | hr
    · simp only [Prod.mk.injEq] at he; obtain ⟨rfl, rfl⟩ := he; exact lookup_cons_self
    · have hne : k' ≠ k := by
        intro he; subst he
        exact hn'.1 (List.mem_map.mpr ⟨(k', v), hr, rfl⟩)
      rw [lookup_cons_ne hne]; exact ih hn'.2 hr

theorem mem_snd_of_lookup {n u : Str} {t : Table} (h : lookup n t = some u) : u ∈ t.map (·.2) :=
  List.mem_map.mpr ⟨(n, u), lookup_mem h, rfl⟩

/-- with pairwise distinct new names, two old names with the same new name are equal -/
theorem lookup_inj_of_nodup_snd {a b u : Str} {t : Table} (hn : (t.map (·.2)).Nodup)
    (ha : lookup a t = some u) (hb : lookup b t = some u) : a = b := by
  induction t with
  | nil => simp [lookup] at ha
  | cons e r ih =>
    obtain ⟨k, v⟩ := e
    have hn' : v ∉ r.map (·.2) ∧ (r.map (·.2)).Nodup := List.nodup_cons.mp hn
    by_cases hka : k = a
    · by_cases hkb : k = b
      · rw [← hka, ← hkb]
      · subst hka
        rw [lookup_cons_self] at ha; rw [lookup_cons_ne hkb] at hb
        simp only [Option.some.injEq] at ha; subst ha
        exact absurd (mem_snd_of_lookup hb) hn'.1
    · by_cases hkb : k = b
      · subst hkb
        rw [lookup_cons_self] at hb; rw [lookup_cons_ne hka] at ha
        simp only [Option.some.injEq] at hb; subst hb
        exact absurd (mem_snd_of_lookup ha) hn'.1
      · rw [lookup_cons_ne hka] at ha; rw [lookup_cons_ne hkb] at hb
        exact ih hn'.2 ha hb

theorem rn_of_lookup {t : Table} {n u : Str} (h : lookup n t = some u) : rn t n = u := by simp [rn, h]
theorem rn_of_none {t : Table} {n : Str} (h : lookup n t = none) : rn t n = n := by simp [rn, h]

/-- renaming is injective on a key set, provided no key outside the table equals a new name -/
theorem rn_injOn {t : Table} {K : List Str} (hn : (t.map (·.2)).Nodup)
    (hK : ∀ b ∈ K, lookup b t = none → b ∉ t.map (·.2)) :
    ∀ a ∈ K, ∀ b ∈ K, rn t a = rn t b → a = b := by
  intro a ha b hb hab
  cases hla : lookup a t with
  | some u =>
    cases hlb : lookup b t with
    | some v =>
      rw [rn_of_lookup hla, rn_of_lookup hlb] at hab; subst hab
      exact lookup_inj_of_nodup_snd hn hla hlb
    | none =>
      rw [rn_of_lookup hla, rn_of_none hlb] at hab; subst hab
      exact absurd (mem_snd_of_lookup hla) (hK _ hb hlb)
  | none =>
    cases hlb : lookup b t with
    | some v =>
      rw [rn_of_none hla, rn_of_lookup hlb] at hab; subst hab
      exact absurd (mem_snd_of_lookup hlb) (hK _ ha hla)
    | none => rw [rn_of_none hla, rn_of_none hlb] at hab; exact hab

/-! ## rewriting a map through `insert` under renamed keys -/

section fold
variable {α β : Type} (f : Str → Str) (h : α → β)

/-- the loop `for (k, v) in m { out.insert(f(k), h(v)) }` -/
def foldIns (acc : List (Str × β)) (m : List (Str × α)) : List (Str × β) :=
  m.foldl (fun acc e => insert (f e.1) (h e.2) acc) acc

theorem foldIns_cons (acc : List (Str × β)) (e : Str × α) (m : List (Str × α)) :
    foldIns f h acc (e :: m) = foldIns f h (insert (f e.1) (h e.2) acc) m := rfl

/-- a key no entry is renamed to keeps what the accumulator held -/
theorem foldIns_untouched (m : List (Str × α)) (acc : List (Str × β)) (k' : Str)
    (hk : ∀ e ∈ m, f e.1 ≠ k') : lookup k' (foldIns f h acc m) = lookup k' acc := by
  induction m generalizing acc with
  | nil => rfl
  | cons e r ih =>
    rw [foldIns_cons, ih _ (fun e' he' => hk e' (List.mem_cons_of_mem _ he'))]
    exact lookup_insert_ne (hk e (by simp))

/-- when the renaming is injective on the keys, every entry is found under its renamed key -/
theorem foldIns_lookup (m : List (Str × α)) (acc : List (Str × β)) (hn : (keys m).Nodup)
    (hinj : ∀ a ∈ keys m, ∀ b ∈ keys m, f a = f b → a = b) :
    ∀ e ∈ m, lookup (f e.1) (foldIns f h acc m) = some (h e.2) := by
  induction m generalizing acc with
  | nil => simp
  | cons e r ih =>
    have hn' : e.1 ∉ keys r ∧ (keys r).Nodup := List.nodup_cons.mp hn
    intro x hx
    rw [foldIns_cons]
    rcases List.mem_cons.mp hx with rfl | hx
    · rw [foldIns_untouched]
      · exact lookup_insert_self
      · intro e' he' heq
        have h1 : e'.1 ∈ keys r := List.mem_map.mpr ⟨e', he', rfl⟩
        have := hinj e'.1 (List.mem_cons_of_mem _ h1) x.1 (by simp [keys]) heq
        exact hn'.1 (this ▸ h1)
    · exact ih _ hn'.2 (fun a ha b hb => hinj a (List.mem_cons_of_mem _ ha) b (List.mem_cons_of_mem _ hb)) x hx

/-- nothing comes from nowhere: an entry of the result is an input entry under its renamed key, or
    was in the accumulator -/
theorem foldIns_origin (m : List (Str × α)) (acc : List (Str × β)) (k' : Str) (w : β)
    (hl : lookup k' (foldIns f h acc m) = some w) :
    (∃ e ∈ m, f e.1 = k' ∧ h e.2 = w) ∨ lookup k' acc = some w := by
  induction m generalizing acc with
  | nil => exact Or.inr hl
  | cons e r ih =>
    rw [foldIns_cons] at hl
    rcases ih _ hl with ⟨e', he', h1, h2⟩ | hacc
    · exact Or.inl ⟨e', List.mem_cons_of_mem _ he', h1, h2⟩
    · by_cases hk : f e.1 = k'
      · subst hk; rw [lookup_insert_self] at hacc
        simp only [Option.some.injEq] at hacc
        exact Or.inl ⟨e, by simp, rfl, hacc⟩
      · rw [lookup_insert_ne hk] at hacc; exact Or.inr hacc

end fold

theorem rewriteSeconds_eq (t2 : Table) (secs : Seconds) :
    rewriteSeconds t2 secs = foldIns (rn t2) id [] secs := rfl

theorem rewriteKerning_eq (t1 t2 : Table) (k : Kerning) :
    rewriteKerning t1 t2 k = foldIns (rn t1) (rewriteSeconds t2) [] k := rfl

end Kern
