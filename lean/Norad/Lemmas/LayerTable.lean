import Norad.Lemmas.SaveTable
/-!
# The (guard, step) table of `Layer::save_with_options`, read against the model's `planLayer` (C09 source-level tie)

`Generated.SaveOrder.layerTable` is regenerated from `src/layer.rs` on every run (`layerinfo_to_file_if_needed` inlined).
The model's layer info is ONE token (`info = 0`: neither colour nor lib, no layerinfo.plist); whether it is the colour or
the lib that makes it non-empty, and the key sort, are facts the model does not look at: parameters / no-ops here.
-/
namespace C08.Source
open AbsFS FontSave

inductive LAtom | infoNonEmpty | hasColor | libNonEmpty
  deriving DecidableEq, Repr

inductive LStep | createDir | writeContents | insertColor | insertLib | sortInfo | writeLayerinfo | saveGlyphs
  deriving DecidableEq, Repr

def latomTable : List (String × LAtom) := [
  ("!(self.color.is_none()&&self.lib.is_empty())", .infoNonEmpty),
  ("some:self.color", .hasColor),
  ("!self.lib.is_empty()", .libNonEmpty)]

def lstepTable : List (String × LStep) := [
  ("create_dir:path!CreateDir", .createDir),
  ("write:path/contents.plist<-self.contents", .writeContents),
  ("insert:dict[color]", .insertColor),
  ("insert:dict[lib]=self.lib", .insertLib),
  ("sort-keys:dict", .sortInfo),
  ("write:path/layerinfo.plist<-dict", .writeLayerinfo),
  ("each(self.contents.iter())[get:self.glyphs[name].expect();save_glyph:path/<glyph_path>]", .saveGlyphs)]

abbrev LRow := List LAtom × LStep

def parseLRow (r : List (List Char) × List Char) : Option LRow :=
  match allSome (r.1.map (lookupS latomTable)), lookupS lstepTable r.2 with
  | some g, some s => some (g, s)
  | _, _ => none

def parseLayerTable (t : List (List (List Char) × List Char)) : Option (List LRow) := allSome (t.map parseLRow)

/-- `Layer::save_with_options` as the model has it, in the table's vocabulary -/
def modelLayerRows : List LRow := [
  ([], .createDir),
  ([], .writeContents),
  ([.infoNonEmpty, .hasColor], .insertColor),
  ([.infoNonEmpty, .libNonEmpty], .insertLib),
  ([.infoNonEmpty], .sortInfo),
  ([.infoNonEmpty], .writeLayerinfo),
  ([], .saveGlyphs)]

theorem layerTable_parses : parseLayerTable Generated.SaveOrder.layerTable = some modelLayerRows := by decide +kernel

variable {β : Type}

def latomHolds (l : ALayer) (color libne : Bool) : LAtom → Bool
  | .infoNonEmpty => decide (l.info ≠ 0)
  | .hasColor => color
  | .libNonEmpty => libne

def lstepEffs (cfg : Cfg β) (t : APath) (l : ALayer) : LStep → List (Eff β)
  | .createDir => [.mkdir (joinRel (tC t) (Path.parse l.dir))]
  | .writeContents =>
    [.write (joinRel (tC t) (Path.parse l.dir) ++ [.normal contentsFile.toList])
      (cfg.render (.contents (l.entries.map fun e => (e.name, e.file))))]
  | .writeLayerinfo =>
    [.write (joinRel (tC t) (Path.parse l.dir) ++ [.normal layerinfoFile.toList]) (cfg.render (.layerinfo l.info))]
  | .saveGlyphs => l.entries.flatMap (planGlyph cfg (joinRel (tC t) (Path.parse l.dir)))
  | _ => []          -- what goes into the layer-info dictionary, and its key order: inside the model's one token

/-- the effects of the rows, each executed iff all its guard atoms hold -/
def layerRowsPlan (cfg : Cfg β) (t : APath) (l : ALayer) (color libne : Bool) (rows : List LRow) : List (Eff β) :=
  rows.flatMap fun r => if r.1.all (latomHolds l color libne) then lstepEffs cfg t l r.2 else []

theorem layerRows_model (cfg : Cfg β) (t : APath) (l : ALayer) (color libne : Bool) :
    layerRowsPlan cfg t l color libne modelLayerRows = planLayer cfg t l := by
  unfold layerRowsPlan modelLayerRows planLayer
  by_cases h : l.info = 0 <;> cases color <;> cases libne <;> simp [latomHolds, lstepEffs, h]

end C08.Source
