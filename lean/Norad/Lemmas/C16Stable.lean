import Norad.Lemmas.C16
/-! Lemmas for `get_stable_afterwards`: a settled cell (loaded or failed) is not touched by any
    read-only operation, whatever the disk does. -/
namespace C16
open Path

/-- the cell reached through `k` is `c`, and `c` is not lazy any more -/
def Settled (s : Store) (k : Key) (c : Cell) : Prop :=
  (∃ k0, find? s.items k = some (k0, c)) ∧ c ≠ .notLoaded

theorem find?_congr {items : Items} {k k' : Key} (h : parse k' = parse k) :
    find? items k' = find? items k := by
  unfold find?; rw [h]

/-- the function `setCell` maps over the entries when the key is present -/
def upd (k' : Key) (c' : Cell) (e : Key × Cell) : Key × Cell :=
  if parse e.1 == parse k' then (e.1, c') else e

theorem upd_fst (k' : Key) (c' : Cell) (e : Key × Cell) : (upd k' c' e).1 = e.1 := by
  unfold upd; split <;> rfl

theorem upd_other {k' : Key} {c' : Cell} {e : Key × Cell} (h : parse e.1 ≠ parse k') : upd k' c' e = e := by
  unfold upd; rw [if_neg (by simpa using h)]

theorem upd_same {k' : Key} {c' : Cell} {e : Key × Cell} (h : parse e.1 = parse k') :
    upd k' c' e = (e.1, c') := by
  unfold upd; rw [if_pos (by simpa using h)]

theorem setCell_of_hasKey {items : Items} {k : Key} {c : Cell} (h : hasKey items (parse k) = true) :
    setCell items k c = items.map (upd k c) := by
  unfold setCell; rw [if_pos h]; rfl

theorem find?_map_other (items : Items) (k k' : Key) (c' : Cell) (hne : parse k' ≠ parse k) :
    find? (items.map (upd k' c')) k = find? items k := by
  induction items with
  | nil => rfl
  | cons e r ih =>
    unfold find? at ih ⊢
    rw [List.map_cons]
    by_cases h1 : parse e.1 = parse k
    · have h2 : parse e.1 ≠ parse k' := fun h => hne (h.symm.trans h1)
      rw [upd_other h2, List.find?_cons_of_pos (by simpa using h1), List.find?_cons_of_pos (by simpa using h1)]
    · rw [List.find?_cons_of_neg (by rw [upd_fst]; simpa using h1), List.find?_cons_of_neg (by simpa using h1)]
      exact ih

theorem find?_map_same (items : Items) (k : Key) (c' : Cell) (k0 : Key) (c : Cell)
    (h : find? items k = some (k0, c)) :
    find? (items.map (upd k c')) k = some (k0, c') := by
  induction items with
  | nil => simp [find?] at h
  | cons e r ih =>
    unfold find? at ih h ⊢
    rw [List.map_cons]
    by_cases h1 : parse e.1 = parse k
    · rw [List.find?_cons_of_pos (by simpa using h1)] at h
      rw [List.find?_cons_of_pos (by rw [upd_fst]; simpa using h1), upd_same h1]
      injection h with h
      rw [h]
    · rw [List.find?_cons_of_neg (by simpa using h1)] at h
      rw [List.find?_cons_of_neg (by rw [upd_fst]; simpa using h1)]
      exact ih h

theorem loadItem_ne_notLoaded (kind : Kind) (disk : Disk) (k : Key) (items : Items) :
    loadItem kind disk k items ≠ .notLoaded := by
  unfold loadItem
  split
  · simp
  · split <;> simp

theorem settled_get {s : Store} {disk : Disk} {k k' : Key} {c : Cell} (h : Settled s k c) :
    Settled (get s disk k').1 k c := by
  unfold get
  split
  · exact h
  · rename_i k0 hf
    by_cases hp : parse k' = parse k
    · exfalso
      obtain ⟨⟨k1, h1⟩, h2⟩ := h
      rw [find?_congr hp, h1] at hf
      injection hf with hf
      injection hf with _ hc
      exact h2 hc
    · obtain ⟨⟨k1, h1⟩, h2⟩ := h
      refine ⟨⟨k1, ?_⟩, h2⟩
      show find? (setCell s.items k' _) k = _
      rw [setCell_of_hasKey (find?_hasKey hf), find?_map_other _ _ _ _ hp]
      exact h1
  · exact h

theorem settled_iterFrom {s : Store} {disk : Disk} {k : Key} {c : Cell} (ks : List Key)
    (h : Settled s k c) : Settled (iterFrom s disk ks).1 k c := by
  induction ks generalizing s with
  | nil => exact h
  | cons k' r ih =>
    simp only [iterFrom]
    exact ih (settled_get h)

def Op.readOnly : Op → Bool
  | .get _ => true
  | .iter => true
  | .keys => true
  | .isEmpty => true
  | .setDisk _ => true
  | _ => false

theorem settled_step {st : State} {op : Op} {k : Key} {c : Cell} (hro : op.readOnly = true)
    (h : Settled st.store k c) : Settled (step st op).1.store k c := by
  cases op with
  | insert k b => simp [Op.readOnly] at hro
  | remove k => simp [Op.readOnly] at hro
  | clear => simp [Op.readOnly] at hro
  | get k' => exact settled_get h
  | iter => exact settled_iterFrom _ h
  | keys => exact h
  | isEmpty => exact h
  | setDisk d => exact h

theorem settled_run {st : State} {k : Key} {c : Cell} (ops : List Op)
    (hro : ∀ op ∈ ops, op.readOnly = true) (h : Settled st.store k c) :
    Settled (run st ops).store k c := by
  induction ops generalizing st with
  | nil => exact h
  | cons op r ih =>
    exact ih (fun o ho => hro o (List.mem_cons_of_mem _ ho)) (settled_step (hro op (List.mem_cons_self ..)) h)

theorem get_settles {s : Store} {disk : Disk} {k : Key} {r : Except Err Bytes}
    (h : (get s disk k).2 = some r) : ∃ c, Settled (get s disk k).1 k c ∧ cellResult c = r := by
  cases hf : find? s.items k with
  | none => unfold get at h; simp [hf] at h
  | some e =>
    obtain ⟨k0, c⟩ := e
    by_cases hc : c = .notLoaded
    · subst hc
      have hg : get s disk k = ({ s with items := setCell s.items k (loadItem s.kind disk k s.items) },
          some (cellResult (loadItem s.kind disk k s.items))) := by
        unfold get; simp [hf]
      rw [hg] at h ⊢
      simp only [Option.some.injEq] at h
      refine ⟨loadItem s.kind disk k s.items, ⟨⟨k0, ?_⟩, loadItem_ne_notLoaded _ _ _ _⟩, h⟩
      show find? (setCell s.items k _) k = _
      rw [setCell_of_hasKey (find?_hasKey hf)]
      exact find?_map_same _ _ _ _ _ hf
    · have hg : get s disk k = (s, some (cellResult c)) := by
        unfold get; rw [hf]
        cases c with
        | notLoaded => exact absurd rfl hc
        | loaded b => rfl
        | error e => rfl
      rw [hg] at h ⊢
      simp only [Option.some.injEq] at h
      exact ⟨c, ⟨⟨k0, hf⟩, hc⟩, h⟩

end C16
