import Norad.Model.C07
import Norad.Spec.C07
/-! Helper lemmas for C07 (may be edited freely; the property theorems live in `Props/C07.lean`). -/
namespace C07

/-! ## byte sizes -/

@[simp] theorem usize_nil : usize [] = 0 := rfl
@[simp] theorem usize_cons (c : Char) (s : Str) : usize (c :: s) = c.utf8Size + usize s := by
  simp [usize]
@[simp] theorem usize_append (a b : Str) : usize (a ++ b) = usize a + usize b := by
  induction a with
  | nil => simp
  | cons c a ih => simp [ih]; omega

theorem csize_pos (c : Char) : 0 < c.utf8Size := Char.utf8Size_pos c
theorem csize_le4 (c : Char) : c.utf8Size ≤ 4 := Char.utf8Size_le_four c

theorem usize_replicate_ascii (k : Nat) (c : Char) (h : c.utf8Size = 1) :
    usize (List.replicate k c) = k := by
  induction k with
  | zero => rfl
  | succ k ih => simp [List.replicate_succ, ih, h]; omega

theorem usize_prefix_le {p s : Str} (h : p <+: s) : usize p ≤ usize s := by
  obtain ⟨t, rfl⟩ := h; simp

/-! ## `takeBytes`: longest character prefix of at most `n` bytes -/

theorem takeBytes_prefix (n : Nat) (s : Str) : takeBytes n s <+: s := by
  induction s generalizing n with
  | nil => simp [takeBytes]
  | cons c cs ih =>
    unfold takeBytes
    split
    · exact List.cons_prefix_cons.2 ⟨rfl, ih _⟩
    · exact List.nil_prefix

theorem usize_takeBytes_le (n : Nat) (s : Str) : usize (takeBytes n s) ≤ n := by
  induction s generalizing n with
  | nil => simp [takeBytes]
  | cons c cs ih =>
    unfold takeBytes
    split
    · have := ih (n - c.utf8Size); simp; omega
    · simp

theorem takeBytes_of_le {n : Nat} {s : Str} (h : usize s ≤ n) : takeBytes n s = s := by
  induction s generalizing n with
  | nil => simp [takeBytes]
  | cons c cs ih =>
    simp at h
    unfold takeBytes
    rw [if_pos (by omega), ih (by omega)]

/-- the cut is at most 3 bytes below the requested index (a character has at most 4 bytes) -/
theorem takeBytes_gap {n : Nat} {s : Str} (h : n < usize s) : n < usize (takeBytes n s) + 4 := by
  induction s generalizing n with
  | nil => simp at h
  | cons c cs ih =>
    simp at h
    unfold takeBytes
    split
    · have := @ih (n - c.utf8Size) (by omega); simp; omega
    · have := csize_le4 c; simp; omega

theorem takeBytes_append_left {n : Nat} {a : Str} (b : Str) (h : n ≤ usize a) :
    takeBytes n (a ++ b) = takeBytes n a := by
  induction a generalizing n with
  | nil =>
    simp at h; subst h
    cases b with
    | nil => rfl
    | cons c cs => have := csize_pos c; simp [takeBytes]; omega
  | cons c cs ih =>
    simp at h
    simp only [List.cons_append]
    unfold takeBytes
    split
    · rw [ih (by omega)]
    · rfl

theorem takeBytes_keeps_prefix {p s : Str} {n : Nat} (hp : p <+: s) (hn : usize p ≤ n) :
    p <+: takeBytes n s := by
  induction p generalizing s n with
  | nil => exact List.nil_prefix
  | cons c p ih =>
    obtain ⟨t, rfl⟩ := hp
    simp at hn
    simp only [List.cons_append]
    unfold takeBytes
    rw [if_pos (by omega)]
    exact List.cons_prefix_cons.2 ⟨rfl, ih (List.prefix_append _ _) (by omega)⟩

theorem takeBytes_ne_nil {s : Str} {n : Nat} (hs : s ≠ []) (hn : 4 ≤ n) : takeBytes n s ≠ [] := by
  cases s with
  | nil => exact absurd rfl hs
  | cons c cs =>
    have := csize_le4 c
    unfold takeBytes
    rw [if_pos (by omega)]; simp

theorem takeBytes_head {s : Str} {n : Nat} (hn : 4 ≤ n) : (takeBytes n s).head? = s.head? := by
  cases s with
  | nil => rfl
  | cons c cs =>
    have := csize_le4 c
    unfold takeBytes
    rw [if_pos (by omega)]; rfl

/-- any index between the size of the cut and the requested index gives the same cut -/
theorem takeBytes_stable {m k : Nat} {s : Str} (h1 : usize (takeBytes m s) ≤ k) (h2 : k ≤ m) :
    takeBytes k s = takeBytes m s := by
  induction s generalizing m k with
  | nil => simp [takeBytes]
  | cons c cs ih =>
    unfold takeBytes at h1 ⊢
    by_cases hc : c.utf8Size ≤ m
    · rw [if_pos hc] at h1 ⊢
      simp at h1
      rw [if_pos (by omega), ih (m := m - c.utf8Size) (k := k - c.utf8Size) (by omega) (by omega)]
    · rw [if_neg hc] at h1 ⊢
      rw [if_neg (by omega)]

/-! ## char boundaries, the back-off loop, `truncate` -/

theorem isCharBoundary_iff (s : Str) (n : Nat) :
    isCharBoundary s n = true ↔ usize (takeBytes n s) = n := by
  induction s generalizing n with
  | nil => cases n <;> simp [isCharBoundary, takeBytes]
  | cons c cs ih =>
    cases n with
    | zero =>
      have := csize_pos c
      unfold isCharBoundary takeBytes
      rw [if_neg (by omega)]; simp
    | succ n =>
      unfold isCharBoundary takeBytes
      by_cases hc : c.utf8Size ≤ n + 1
      · rw [if_pos hc, if_pos hc, ih]; simp; omega
      · rw [if_neg hc, if_neg hc]; simp

/-- the back-off loop stops at the size of the longest character prefix that fits -/
theorem backoff_eq (s : Str) (n : Nat) : backoff s n = usize (takeBytes n s) := by
  induction n with
  | zero =>
    have := usize_takeBytes_le 0 s
    unfold backoff; omega
  | succ n ih =>
    unfold backoff
    split
    · rename_i h; exact ((isCharBoundary_iff s (n + 1)).1 h).symm
    · rename_i h
      rw [isCharBoundary_iff] at h
      have hle := usize_takeBytes_le (n + 1) s
      rw [ih, takeBytes_stable (m := n + 1) (k := n) (by omega) (by omega)]

theorem truncateAt_prefix (p t : Str) : truncateAt (p ++ t) (usize p) = some p := by
  induction p with
  | nil => cases t <;> simp [truncateAt]
  | cons c p ih =>
    have := csize_pos c
    simp only [List.cons_append, usize_cons]
    obtain ⟨m, hm⟩ : ∃ m, c.utf8Size + usize p = m + 1 := ⟨c.utf8Size + usize p - 1, by omega⟩
    rw [hm]
    unfold truncateAt
    rw [if_pos (by omega)]
    have : m + 1 - c.utf8Size = usize p := by omega
    rw [this, ih]; rfl

/-- `truncate` after the back-off never panics and yields `takeBytes` -/
theorem truncateAt_backoff (s : Str) (n : Nat) :
    truncateAt s (backoff s n) = some (takeBytes n s) := by
  rw [backoff_eq]
  obtain ⟨t, ht⟩ := takeBytes_prefix n s
  conv => lhs; arg 1; rw [← ht]
  exact truncateAt_prefix _ _

/-- the back-off loop runs at most three times when it starts inside the string -/
theorem backoff_gap {s : Str} {n : Nat} (h : n ≤ usize s) : n ≤ backoff s n + 3 := by
  rw [backoff_eq]
  by_cases hn : n < usize s
  · have := takeBytes_gap hn; omega
  · have : takeBytes n s = s := takeBytes_of_le (by omega)
    rw [this]; omega

/-! ## the escaping loop -/

theorem escChar_ne_nil (U : Char → Bool) (b : Bool) (c : Char) : escChar U b c ≠ [] := by
  unfold escChar; repeat' split
  all_goals simp

theorem escapeInto_eq (U : Char → Bool) (acc name : Str) :
    escapeInto U acc name = acc ++ escape U acc.isEmpty name := by
  induction name generalizing acc with
  | nil => simp [escapeInto, escape]
  | cons c cs ih =>
    unfold escapeInto escape
    rw [ih]
    have : (acc ++ escChar U acc.isEmpty c).isEmpty = false := by
      have := escChar_ne_nil U acc.isEmpty c
      cases h : escChar U acc.isEmpty c with
      | nil => exact absurd h this
      | cons x xs => cases acc <;> simp
    rw [this]; simp

/-! ## closed forms of the `Option`-valued blocks: no char-boundary panic -/

theorem clip_eq (suf r : Str) :
    clip suf r = some (if usize r + usize suf > maxLen then takeBytes (maxLen - usize suf) r else r) := by
  unfold clip
  split
  · exact truncateAt_backoff _ _
  · rfl

theorem firstCandidate_eq (U : Char → Bool) (name pre suf : Str) :
    firstCandidate U name pre suf = some (body U name pre suf ++ suf) := by
  unfold firstCandidate body
  rw [clip_eq, escapeInto_eq]

theorem cutForCounter_eq (b suf : Str) :
    cutForCounter (b ++ suf) suf =
      some (if usize b + numberLen > maxLen then takeBytes (maxLen - usize suf - numberLen) b else b) := by
  unfold cutForCounter
  have h : usize (b ++ suf) - usize suf = usize b := by simp
  rw [h]
  split
  · rename_i hc
    rw [truncateAt_backoff, takeBytes_append_left]
    simp only [maxLen, numberLen] at hc ⊢; omega
  · exact truncateAt_prefix _ _

/-! ## the counter loop -/

theorem tryCounters_some {lower : Str → Str} {accept : Nat → Str → Bool} {base suf r : Str}
    {fuel k : Nat} (h : tryCounters lower accept base suf fuel k = some r) :
    ∃ j, k ≤ j ∧ j < k + fuel ∧ r = base ++ twoDigits j ++ suf ∧ accept j (lower r) = true ∧
      ∀ i, k ≤ i → i < j → accept i (lower (base ++ twoDigits i ++ suf)) = false := by
  induction fuel generalizing k with
  | zero => simp [tryCounters] at h
  | succ fuel ih =>
    unfold tryCounters at h
    simp only at h
    split at h
    · rename_i ha
      injection h with h; subst h
      exact ⟨k, Nat.le_refl _, by omega, rfl, ha, fun i h1 h2 => by omega⟩
    · rename_i ha
      obtain ⟨j, h1, h2, h3, h4, h5⟩ := ih h
      refine ⟨j, by omega, by omega, h3, h4, fun i hi1 hi2 => ?_⟩
      by_cases hik : i = k
      · subst hik; simpa using ha
      · exact h5 i (by omega) hi2

theorem tryCounters_none {lower : Str → Str} {accept : Nat → Str → Bool} {base suf : Str}
    {fuel k : Nat} :
    tryCounters lower accept base suf fuel k = none ↔
      ∀ i, k ≤ i → i < k + fuel → accept i (lower (base ++ twoDigits i ++ suf)) = false := by
  induction fuel generalizing k with
  | zero => simp [tryCounters]; intro i h1 h2; omega
  | succ fuel ih =>
    unfold tryCounters
    simp only
    split
    · rename_i ha
      simp only [reduceCtorEq, false_iff]
      intro h
      have := h k (Nat.le_refl _) (by omega)
      rw [ha] at this; cases this
    · rename_i ha
      rw [ih]
      constructor
      · intro h i h1 h2
        by_cases hik : i = k
        · subst hik; simpa using ha
        · exact h i (by omega) (by omega)
      · intro h i h1 h2
        exact h i (by omega) (by omega)

/-! ## the whole function = first accepted candidate -/

theorem candidate_zero (U : Char → Bool) (name pre suf : Str) :
    candidate U name pre suf 0 = body U name pre suf ++ suf := by
  simp [candidate, candidateFrom]

theorem candidate_pos (U : Char → Bool) (name pre suf : Str) {k : Nat} (hk : 0 < k) :
    candidate U name pre suf k = counterBase U name pre suf ++ twoDigits k ++ suf := by
  have : k ≠ 0 := by omega
  simp [candidate, candidateFrom, this]

theorem fileName_unfold (U : Char → Bool) (lower : Str → Str) (name pre suf : Str)
    (accept : Nat → Str → Bool) :
    userNameToFileName U lower name pre suf accept =
      if accept 0 (lower (body U name pre suf ++ suf)) then some (body U name pre suf ++ suf)
      else tryCounters lower accept (counterBase U name pre suf) suf 99 1 := by
  unfold userNameToFileName
  rw [firstCandidate_eq]
  simp only [cutForCounter_eq]
  rfl

theorem fileName_some {U : Char → Bool} {lower : Str → Str} {name pre suf r : Str}
    {accept : Nat → Str → Bool}
    (h : userNameToFileName U lower name pre suf accept = some r) :
    ∃ k, k ≤ 99 ∧ r = candidate U name pre suf k ∧ accept k (lower r) = true ∧
      ∀ j, j < k → accept j (lower (candidate U name pre suf j)) = false := by
  rw [fileName_unfold] at h
  split at h
  · rename_i ha
    injection h with h; subst h
    exact ⟨0, by omega, (candidate_zero ..).symm, ha, fun j hj => by omega⟩
  · rename_i ha
    obtain ⟨j, h1, h2, h3, h4, h5⟩ := tryCounters_some h
    refine ⟨j, by omega, ?_, h4, fun i hi => ?_⟩
    · rw [candidate_pos _ _ _ _ (by omega)]; exact h3
    · by_cases hi0 : i = 0
      · subst hi0; rw [candidate_zero]; simpa using ha
      · rw [candidate_pos _ _ _ _ (by omega)]; exact h5 i (by omega) hi

theorem fileName_none {U : Char → Bool} {lower : Str → Str} {name pre suf : Str}
    {accept : Nat → Str → Bool} :
    userNameToFileName U lower name pre suf accept = none ↔
      ∀ k, k ≤ 99 → accept k (lower (candidate U name pre suf k)) = false := by
  rw [fileName_unfold]
  split
  · rename_i ha
    simp only [reduceCtorEq, false_iff]
    intro h
    have := h 0 (by omega)
    rw [candidate_zero, ha] at this; cases this
  · rename_i ha
    rw [tryCounters_none]
    constructor
    · intro h k hk
      by_cases hk0 : k = 0
      · subst hk0; rw [candidate_zero]; simpa using ha
      · rw [candidate_pos _ _ _ _ (by omega)]; exact h k (by omega) (by omega)
    · intro h i h1 h2
      have := h i (by omega)
      rwa [candidate_pos _ _ _ _ (by omega)] at this

/-! ## the trailing-run replacement -/

theorem mem_takeWhile_true {α} (p : α → Bool) (l : List α) : ∀ x ∈ l.takeWhile p, p x = true := by
  induction l with
  | nil => simp
  | cons a l ih =>
    intro x hx
    rw [List.takeWhile_cons] at hx
    split at hx
    · rcases List.mem_cons.1 hx with h | h
      · subst h; assumption
      · exact ih x h
    · cases hx

theorem fixTrailing_decomp (s : Str) :
    ∃ a d, s = a ++ d ∧ (∀ c ∈ d, isDotSp c = true) ∧ (∀ x, a.getLast? = some x → isDotSp x = false) ∧
      fixTrailing s = a ++ List.replicate d.length '_' := by
  refine ⟨(s.reverse.dropWhile isDotSp).reverse, (s.reverse.takeWhile isDotSp).reverse, ?_, ?_, ?_, ?_⟩
  · rw [← List.reverse_append, List.takeWhile_append_dropWhile, List.reverse_reverse]
  · intro c hc
    exact mem_takeWhile_true _ _ _ (List.mem_reverse.1 hc)
  · intro x hx
    rw [List.getLast?_reverse] at hx
    have := List.head?_dropWhile_not isDotSp s.reverse
    rw [hx] at this
    simpa using this
  · unfold fixTrailing
    simp only [List.length_reverse]
    congr 1
    have h : s = (s.reverse.dropWhile isDotSp).reverse ++ (s.reverse.takeWhile isDotSp).reverse := by
      rw [← List.reverse_append, List.takeWhile_append_dropWhile, List.reverse_reverse]
    have hl : s.length - (s.reverse.takeWhile isDotSp).length = (s.reverse.dropWhile isDotSp).reverse.length := by
      have := congrArg List.length h
      simp only [List.length_append, List.length_reverse] at this ⊢
      omega
    rw [hl]
    conv => lhs; arg 2; rw [h]
    exact List.take_left' rfl

theorem dotsp_size {c : Char} (h : isDotSp c = true) : c.utf8Size = 1 := by
  simp only [isDotSp, Bool.or_eq_true, beq_iff_eq] at h
  rcases h with h | h <;> subst h <;> rfl

theorem usize_dotsp {d : Str} (h : ∀ c ∈ d, isDotSp c = true) : usize d = d.length := by
  induction d with
  | nil => rfl
  | cons c d ih =>
    have h1 := dotsp_size (h c (List.mem_cons_self))
    have h2 := ih (fun x hx => h x (List.mem_cons_of_mem _ hx))
    simp [h1, h2]; omega

theorem fixTrailing_length (s : Str) : (fixTrailing s).length = s.length := by
  obtain ⟨a, d, hs, _, _, hf⟩ := fixTrailing_decomp s
  rw [hf]; conv => rhs; rw [hs]
  simp

theorem fixTrailing_usize (s : Str) : usize (fixTrailing s) = usize s := by
  obtain ⟨a, d, hs, hd, _, hf⟩ := fixTrailing_decomp s
  rw [hf]; conv => rhs; rw [hs]
  simp [usize_dotsp hd, usize_replicate_ascii d.length '_' rfl]

theorem fixTrailing_mem {s : Str} {c : Char} (h : c ∈ fixTrailing s) : c ∈ s ∨ c = '_' := by
  obtain ⟨a, d, hs, _, _, hf⟩ := fixTrailing_decomp s
  rw [hf] at h
  rcases List.mem_append.1 h with h | h
  · left; rw [hs]; exact List.mem_append_left _ h
  · right; exact (List.mem_replicate.1 h).2

theorem fixTrailing_last (s : Str) : ∀ x, (fixTrailing s).getLast? = some x → isDotSp x = false := by
  obtain ⟨a, d, hs, _, ha, hf⟩ := fixTrailing_decomp s
  intro x hx
  rw [hf] at hx
  cases hd : d with
  | nil => rw [hd] at hx; simp at hx; exact ha x hx
  | cons y ys =>
    rw [hd] at hx
    simp only [List.length_cons, List.replicate_succ'] at hx
    rw [← List.append_assoc, List.getLast?_concat] at hx
    injection hx with hx; subst hx; rfl

theorem fixTrailing_head (s : Str) : ∀ x, (fixTrailing s).head? = some x → x = '_' ∨ s.head? = some x := by
  obtain ⟨a, d, hs, _, _, hf⟩ := fixTrailing_decomp s
  intro x hx
  rw [hf] at hx
  cases a with
  | nil =>
    left
    cases hd : d.length with
    | zero => rw [hd] at hx; simp at hx
    | succ n => rw [hd] at hx; simp [List.replicate_succ] at hx; exact hx.symm
  | cons y ys =>
    right; rw [hs]; simpa using hx

/-- a prefix whose last character is neither period nor space survives the replacement -/
theorem fixTrailing_keeps_prefix {p s : Str} {g : Char} (hp : p ++ [g] <+: s) (hg : isDotSp g = false) :
    p ++ [g] <+: fixTrailing s := by
  obtain ⟨a, d, hs, hd, _, hf⟩ := fixTrailing_decomp s
  rw [hf]
  have ha : a <+: s := by rw [hs]; exact List.prefix_append _ _
  rcases List.prefix_or_prefix_of_prefix hp ha with h | h
  · exact h.trans (List.prefix_append _ _)
  · -- a <+: p ++ [g]: then g would be one of the periods/spaces
    obtain ⟨t, ht⟩ := h
    obtain ⟨u, hu⟩ := hp
    have hd' : d = t ++ u := by
      have : a ++ (t ++ u) = a ++ d := by rw [← List.append_assoc, ht, hu, hs]
      exact (List.append_cancel_left this).symm
    cases ht' : t.getLast? with
    | none =>
      have : t = [] := List.getLast?_eq_none_iff.1 ht'
      subst this
      simp at ht
      rw [← ht]; exact List.prefix_append _ _
    | some z =>
      have hz : (p ++ [g]).getLast? = some z := by
        rw [← ht]; rw [List.getLast?_append, ht']; rfl
      rw [List.getLast?_concat] at hz
      injection hz with hz; subst hz
      have : g ∈ d := by
        rw [hd']; exact List.mem_append_left _ (List.mem_of_getLast? ht')
      rw [hd g this] at hg; cases hg

/-! ## portable characters -/

open Spec

abbrev Good (c : Char) : Prop := goodChar c = true

theorem illegal_iff (c : Char) : c ∈ illegal ↔ illegalChars.contains c = true := by
  simp only [illegal, illegalChars, List.contains_eq_mem, List.mem_cons, List.not_mem_nil, or_false,
    decide_eq_true_eq]
  grind

theorem good_underscore : Good '_' := by decide

theorem good_of_name {c : Char} (h1 : c ∉ illegal) (h2 : isControl c = false) : Good c := by
  unfold Good goodChar
  rw [h2]
  have : illegalChars.contains c = false := by
    cases h : illegalChars.contains c with
    | false => rfl
    | true => exact absurd ((illegal_iff c).2 h) h1
  rw [this]; rfl

theorem escChar_good {U : Char → Bool} {b : Bool} {c : Char} (hc : isControl c = false) :
    ∀ x ∈ escChar U b c, Good x := by
  intro x hx
  unfold escChar at hx
  split at hx
  · simp at hx; subst hx; exact good_underscore
  · split at hx
    · simp at hx; subst hx; exact good_underscore
    · rename_i hill
      split at hx
      · simp at hx; rcases hx with h | h <;> subst h
        · exact good_of_name hill hc
        · exact good_underscore
      · simp at hx; subst hx; exact good_of_name hill hc

theorem escape_good {U : Char → Bool} {b : Bool} {name : Str}
    (h : ∀ c ∈ name, isControl c = false) : ∀ x ∈ escape U b name, Good x := by
  induction name generalizing b with
  | nil => intro x hx; simp [escape] at hx
  | cons c cs ih =>
    intro x hx
    unfold escape at hx
    rcases List.mem_append.1 hx with hx | hx
    · exact escChar_good (h c List.mem_cons_self) x hx
    · exact ih (fun y hy => h y (List.mem_cons_of_mem _ hy)) x hx

theorem insertReserved_mem {r : Str} {c : Char} (h : c ∈ insertReserved r) : c = '_' ∨ c ∈ r := by
  unfold insertReserved at h
  split at h
  · rcases List.mem_cons.1 h with h | h
    · exact Or.inl h
    · exact Or.inr h
  · exact Or.inr h

theorem digit_mem (n : Nat) : digit n ∈ ['0', '1', '2', '3', '4', '5', '6', '7', '8', '9'] := by
  unfold digit; split <;> simp

theorem digit_good (n : Nat) : Good (digit n) := by
  have := digit_mem n
  simp only [List.mem_cons, List.not_mem_nil, or_false] at this
  rcases this with h | h | h | h | h | h | h | h | h | h <;> rw [h] <;> decide

theorem digit_not_dotsp (n : Nat) : isDotSp (digit n) = false := by
  have := digit_mem n
  simp only [List.mem_cons, List.not_mem_nil, or_false] at this
  rcases this with h | h | h | h | h | h | h | h | h | h <;> rw [h] <;> decide

theorem twoDigits_good (k : Nat) : ∀ c ∈ twoDigits k, Good c := by
  intro c hc
  simp only [twoDigits, List.mem_cons, List.not_mem_nil, or_false] at hc
  rcases hc with h | h <;> subst h <;> exact digit_good _

/-! ## structure of the candidates -/

/-- prefix + escaped name after the reserved-word test -/
def stage1 (U : Char → Bool) (name pre : Str) : Str := insertReserved (pre ++ escape U pre.isEmpty name)

/-- … after clipping -/
def stage2 (U : Char → Bool) (name pre suf : Str) : Str :=
  if usize (stage1 U name pre) + usize suf > maxLen then takeBytes (maxLen - usize suf) (stage1 U name pre)
  else stage1 U name pre

theorem body_eq (U : Char → Bool) (name pre suf : Str) :
    body U name pre suf = if suf.isEmpty then fixTrailing (stage2 U name pre suf) else stage2 U name pre suf := rfl

theorem stage2_prefix (U : Char → Bool) (name pre suf : Str) : stage2 U name pre suf <+: stage1 U name pre := by
  unfold stage2; split
  · exact takeBytes_prefix _ _
  · exact List.prefix_refl _

theorem stage2_usize (U : Char → Bool) (name pre suf : Str) :
    usize (stage2 U name pre suf) + usize suf ≤ maxLen ∨ maxLen < usize suf := by
  unfold stage2; split
  · have := usize_takeBytes_le (maxLen - usize suf) (stage1 U name pre)
    omega
  · omega

theorem body_usize (U : Char → Bool) (name pre suf : Str) :
    usize (body U name pre suf) = usize (stage2 U name pre suf) := by
  rw [body_eq]; split
  · exact fixTrailing_usize _
  · rfl

theorem counterBase_prefix (U : Char → Bool) (name pre suf : Str) :
    counterBase U name pre suf <+: body U name pre suf := by
  unfold counterBase; simp only; split
  · exact takeBytes_prefix _ _
  · exact List.prefix_refl _

theorem stage1_mem {U : Char → Bool} {name pre : Str} {c : Char} (h : c ∈ stage1 U name pre) :
    c = '_' ∨ c ∈ pre ∨ c ∈ escape U pre.isEmpty name := by
  rcases insertReserved_mem h with h | h
  · exact Or.inl h
  · exact Or.inr (List.mem_append.1 h)

theorem body_mem {U : Char → Bool} {name pre suf : Str} {c : Char} (h : c ∈ body U name pre suf) :
    c = '_' ∨ c ∈ pre ∨ c ∈ escape U pre.isEmpty name := by
  rw [body_eq] at h
  have key : ∀ c, c ∈ stage2 U name pre suf → c = '_' ∨ c ∈ pre ∨ c ∈ escape U pre.isEmpty name :=
    fun c hc => stage1_mem ((stage2_prefix U name pre suf).subset hc)
  split at h
  · rcases fixTrailing_mem h with h | h
    · exact key c h
    · exact Or.inl h
  · exact key c h

theorem candidate_mem {U : Char → Bool} {name pre suf : Str} {k : Nat} {c : Char}
    (h : c ∈ candidate U name pre suf k) : c ∈ body U name pre suf ∨ c ∈ twoDigits k ∨ c ∈ suf := by
  unfold candidate candidateFrom at h
  split at h
  · rcases List.mem_append.1 h with h | h
    · exact Or.inl h
    · exact Or.inr (Or.inr h)
  · rcases List.mem_append.1 h with h | h
    · rcases List.mem_append.1 h with h | h
      · exact Or.inl ((counterBase_prefix U name pre suf).subset h)
      · exact Or.inr (Or.inl h)
    · exact Or.inr (Or.inr h)

theorem candidate_good {U : Char → Bool} {name pre suf : Str} {k : Nat}
    (hn : ∀ c ∈ name, isControl c = false) (hp : ∀ c ∈ pre, Good c) (hs : ∀ c ∈ suf, Good c) :
    ∀ c ∈ candidate U name pre suf k, Good c := by
  intro c hc
  rcases candidate_mem hc with h | h | h
  · rcases body_mem h with h | h | h
    · subst h; exact good_underscore
    · exact hp c h
    · exact escape_good hn c h
  · exact twoDigits_good k c h
  · exact hs c h

/-! ## length -/

theorem twoDigits_usize (k : Nat) : usize (twoDigits k) = 2 := by
  have h : ∀ n, (digit n).utf8Size = 1 := by
    intro n
    have := digit_mem n
    simp only [List.mem_cons, List.not_mem_nil, or_false] at this
    rcases this with h | h | h | h | h | h | h | h | h | h <;> rw [h] <;> rfl
  simp [twoDigits, h]

theorem candidate_zero_len {U : Char → Bool} {name pre suf : Str} (hs : usize suf ≤ maxLen) :
    usize (candidate U name pre suf 0) ≤ maxLen := by
  rw [candidate_zero, usize_append, body_usize]
  have := stage2_usize U name pre suf
  omega

theorem counterBase_usize (U : Char → Bool) (name pre suf : Str) :
    usize (counterBase U name pre suf) ≤ usize (body U name pre suf) ∧
    (usize (body U name pre suf) + numberLen > maxLen →
      usize (counterBase U name pre suf) ≤ maxLen - usize suf - numberLen) := by
  refine ⟨usize_prefix_le (counterBase_prefix U name pre suf), fun h => ?_⟩
  unfold counterBase; simp only; rw [if_pos h]
  exact usize_takeBytes_le _ _

theorem candidate_len {U : Char → Bool} {name pre suf : Str} {k : Nat} (hs : usize suf ≤ maxLen) :
    usize (candidate U name pre suf k) ≤ maxLen + 2 ∧
    (suf = [] → usize (candidate U name pre suf k) ≤ maxLen) := by
  by_cases hk : k = 0
  · subst hk
    have := candidate_zero_len (U := U) (name := name) (pre := pre) hs
    exact ⟨by omega, fun _ => this⟩
  · rw [candidate_pos _ _ _ _ (by omega)]
    simp only [usize_append, twoDigits_usize]
    have h1 := counterBase_usize U name pre suf
    have h2 := stage2_usize U name pre suf
    have h3 := body_usize U name pre suf
    simp only [maxLen, numberLen] at *
    constructor
    · omega
    · intro he; subst he; simp only [usize_nil] at *
      by_cases hb : usize (body U name pre []) + 2 > 255
      · have := h1.2 hb; omega
      · omega

/-! ## last character -/

theorem candidate_suffix (U : Char → Bool) (name pre suf : Str) (k : Nat) :
    suf <:+ candidate U name pre suf k := by
  unfold candidate candidateFrom; split <;> exact List.suffix_append _ _

theorem getLast?_two (t : Str) (a b : Char) : (t ++ [a, b]).getLast? = some b := by
  simp [List.getLast?_append]

theorem candidate_last {U : Char → Bool} {name pre suf : Str} {k : Nat}
    (hs : ∀ x, suf.getLast? = some x → isDotSp x = false) :
    ∀ x, (candidate U name pre suf k).getLast? = some x → isDotSp x = false := by
  intro x hx
  cases hsuf : suf with
  | cons y ys =>
    have : (candidate U name pre suf k).getLast? = suf.getLast? := by
      obtain ⟨t, ht⟩ := candidate_suffix U name pre suf k
      rw [← ht, hsuf, List.getLast?_append]
      cases h : (y :: ys).getLast? with
      | none => simp at h
      | some z => rfl
    rw [this] at hx; exact hs x hx
  | nil =>
    subst hsuf
    by_cases hk : k = 0
    · subst hk
      rw [candidate_zero, List.append_nil, body_eq] at hx
      simp only [List.isEmpty_nil, if_true] at hx
      exact fixTrailing_last _ x hx
    · rw [candidate_pos _ _ _ _ (by omega), List.append_nil] at hx
      have : (counterBase U name pre [] ++ twoDigits k).getLast? = some (digit k) :=
        getLast?_two _ _ _
      rw [this] at hx
      have hx' := Option.some.inj hx
      rw [← hx']; exact digit_not_dotsp k

/-! ## first character, non-emptiness -/

theorem escChar_head (U : Char → Bool) (c : Char) :
    ∃ x t, escChar U true c = x :: t ∧ x ≠ '.' := by
  unfold escChar
  split
  · exact ⟨'_', [], rfl, by decide⟩
  · rename_i h1
    have hc : c ≠ '.' := fun h => h1 ⟨h, rfl⟩
    split
    · exact ⟨'_', [], rfl, by decide⟩
    · split
      · exact ⟨c, ['_'], rfl, hc⟩
      · exact ⟨c, [], rfl, hc⟩

/-- the first escaped character when it is neither period nor space: still neither -/
theorem escChar_head_nodotsp (U : Char → Bool) (b : Bool) {c : Char} (hc : isDotSp c = false) :
    ∃ x t, escChar U b c = x :: t ∧ isDotSp x = false ∧ x.utf8Size ≤ 4 := by
  unfold escChar
  split
  · exact ⟨'_', [], rfl, by decide, by decide⟩
  · split
    · exact ⟨'_', [], rfl, by decide, by decide⟩
    · split
      · exact ⟨c, ['_'], rfl, hc, csize_le4 c⟩
      · exact ⟨c, [], rfl, hc, csize_le4 c⟩

theorem insertReserved_head {r : Str} {x : Char} (h : r.head? = some x) (hx : x ≠ '.') :
    ∃ y, (insertReserved r).head? = some y ∧ y ≠ '.' := by
  unfold insertReserved; split
  · exact ⟨'_', rfl, by decide⟩
  · exact ⟨x, h, hx⟩

theorem stage2_head {U : Char → Bool} {name pre suf : Str} (h : usize suf + 4 ≤ maxLen) :
    (stage2 U name pre suf).head? = (stage1 U name pre).head? := by
  unfold stage2; split
  · exact takeBytes_head (by omega)
  · rfl

theorem counterBase_head {U : Char → Bool} {name pre suf : Str} (h : usize suf + 6 ≤ maxLen) :
    (counterBase U name pre suf).head? = (body U name pre suf).head? := by
  unfold counterBase; simp only; split
  · exact takeBytes_head (by simp only [maxLen, numberLen] at *; omega)
  · rfl

theorem candidate_head_of_body {U : Char → Bool} {name pre suf : Str} {k : Nat} {x : Char}
    (h : usize suf + 6 ≤ maxLen) (hb : (body U name pre suf).head? = some x) :
    (candidate U name pre suf k).head? = some x := by
  by_cases hk : k = 0
  · subst hk; rw [candidate_zero]
    cases hbb : body U name pre suf with
    | nil => rw [hbb] at hb; cases hb
    | cons y ys => rw [hbb] at hb; simpa using hb
  · rw [candidate_pos _ _ _ _ (by omega)]
    have := counterBase_head (U := U) (name := name) (pre := pre) h
    rw [hb] at this
    cases hbb : counterBase U name pre suf with
    | nil => rw [hbb] at this; cases this
    | cons y ys => rw [hbb] at this; simpa using this

theorem glif_head {U : Char → Bool} {name : Str} (hn : name ≠ []) (k : Nat) :
    ∃ x, (candidate U name [] glifSuffix k).head? = some x ∧ x ≠ '.' := by
  cases name with
  | nil => exact absurd rfl hn
  | cons c cs =>
    obtain ⟨x, t, he, hx⟩ := escChar_head U c
    have h1 : ([] ++ escape U ([] : Str).isEmpty (c :: cs)).head? = some x := by
      simp [escape, he]
    obtain ⟨y, hy, hy'⟩ := insertReserved_head h1 hx
    have h2 : (body U (c :: cs) [] glifSuffix).head? = some y := by
      rw [body_eq]
      have : glifSuffix.isEmpty = false := rfl
      rw [this]
      simp only [Bool.false_eq_true, if_false]
      rw [stage2_head (by decide)]; exact hy
    exact ⟨y, candidate_head_of_body (by decide) h2, hy'⟩

/-! ## the layer prefix -/

theorem stem_layer (t : Str) : stem (layerPrefix ++ t) = ['g', 'l', 'y', 'p', 'h', 's'] := by
  simp [stem, layerPrefix, List.takeWhile]

theorem stage1_layer (U : Char → Bool) (name : Str) :
    stage1 U name layerPrefix = layerPrefix ++ escape U false name := by
  unfold stage1 insertReserved
  rw [stem_layer, if_neg (by decide)]
  rfl

theorem keeps_prefix_chain {U : Char → Bool} {name : Str} {p : Str} {g : Char} {k : Nat}
    (h1 : p ++ [g] <+: stage1 U name layerPrefix) (hg : isDotSp g = false) (hp : usize (p ++ [g]) ≤ 253) :
    p ++ [g] <+: candidate U name layerPrefix [] k := by
  have h2 : p ++ [g] <+: stage2 U name layerPrefix [] := by
    unfold stage2; split
    · exact takeBytes_keeps_prefix h1 (by simp only [maxLen, usize_nil]; omega)
    · exact h1
  have h3 : p ++ [g] <+: body U name layerPrefix [] := by
    rw [body_eq]; exact fixTrailing_keeps_prefix h2 hg
  by_cases hk : k = 0
  · subst hk; rw [candidate_zero]; exact h3.trans (List.prefix_append _ _)
  · rw [candidate_pos _ _ _ _ (by omega)]
    have h4 : p ++ [g] <+: counterBase U name layerPrefix [] := by
      unfold counterBase; simp only; split
      · exact takeBytes_keeps_prefix h3 (by simp only [maxLen, numberLen, usize_nil]; omega)
      · exact h3
    rw [List.append_assoc]
    exact h4.trans (List.prefix_append _ _)

/-- the six letters `glyphs` always survive -/
theorem layer_glyphs (U : Char → Bool) (name : Str) (k : Nat) :
    ['g', 'l', 'y', 'p', 'h', 's'] <+: candidate U name layerPrefix [] k := by
  have h1 : ['g', 'l', 'y', 'p', 'h'] ++ ['s'] <+: stage1 U name layerPrefix := by
    rw [stage1_layer]; exact ⟨'.' :: escape U false name, rfl⟩
  exact keeps_prefix_chain (k := k) h1 (by decide) (by decide)

/-- the whole prefix survives when the name starts with something else than a period or space -/
theorem layer_prefix_kept {U : Char → Bool} {c : Char} {cs : Str} (hc : isDotSp c = false) (k : Nat) :
    layerPrefix <+: candidate U (c :: cs) layerPrefix [] k := by
  obtain ⟨x, t, he, hx, hx4⟩ := escChar_head_nodotsp U false hc
  have h1 : layerPrefix ++ [x] <+: stage1 U (c :: cs) layerPrefix := by
    rw [stage1_layer]; unfold escape; rw [he]
    exact ⟨t ++ escape U false cs, by simp⟩
  have h7 : usize layerPrefix = 7 := by decide
  have := keeps_prefix_chain (k := k) h1 hx (by simp only [usize_append, usize_cons, usize_nil]; omega)
  exact (List.prefix_append _ _).trans this

/-- the two affix pairs norad itself uses (`util.rs:21-28`) -/
def Wrapper (pre suf : Str) : Prop := (pre = [] ∧ suf = glifSuffix) ∨ (pre = layerPrefix ∧ suf = [])

instance (pre suf : Str) : Decidable (Wrapper pre suf) := by unfold Wrapper; infer_instance

theorem wrapper_good {pre suf : Str} (h : Wrapper pre suf) : (∀ c ∈ pre, Good c) ∧ (∀ c ∈ suf, Good c) := by
  rcases h with ⟨h1, h2⟩ | ⟨h1, h2⟩ <;> subst h1 <;> subst h2 <;> constructor <;> decide

theorem candidate_wrapper_length {U : Char → Bool} {name pre suf : Str} (h : Wrapper pre suf) (k : Nat) :
    5 ≤ (candidate U name pre suf k).length := by
  rcases h with ⟨h1, h2⟩ | ⟨h1, h2⟩ <;> subst h1 <;> subst h2
  · exact (candidate_suffix U name [] glifSuffix k).length_le
  · have := (layer_glyphs U name k).length_le
    simp at this; omega

/-! ## reserved device names -/

def isAU (c : Char) : Bool := decide ('A'.toNat ≤ c.toNat ∧ c.toNat ≤ 'Z'.toNat)

/-- every ASCII capital is immediately followed by an underscore -/
def uf : Str → Bool
  | [] => true
  | [c] => !isAU c
  | c :: d :: t => (!isAU c || d == '_') && uf (d :: t)

theorem asciiLower_of_not_AU {c : Char} (h : isAU c = false) : asciiLower c = c := by
  unfold asciiLower; unfold isAU at h
  rw [if_neg (by simpa using h)]

theorem reserved_eq : reserved = deviceNames := by decide

theorem stem_cons (c : Char) (s : Str) : stem (c :: s) = if c ≠ '.' then c :: stem s else [] := by
  unfold stem; rw [List.takeWhile_cons]; by_cases h : c = '.' <;> simp [h]

theorem stem_lower_eq {s : Str} (h : uf s = true) (hu : '_' ∉ stem s) :
    (stem s).map asciiLower = stem s := by
  induction s with
  | nil => rfl
  | cons c s ih =>
    rw [stem_cons] at hu ⊢
    by_cases hc : c = '.'
    · simp [hc]
    · rw [if_pos hc] at hu ⊢
      have hu2 : '_' ∉ stem s := fun h => hu (List.mem_cons_of_mem _ h)
      cases s with
      | nil =>
        unfold uf at h
        simp only [Bool.not_eq_eq_eq_not, Bool.not_true] at h
        simp [stem, asciiLower_of_not_AU h]
      | cons d t =>
        unfold uf at h
        simp only [Bool.and_eq_true, Bool.or_eq_true, Bool.not_eq_eq_eq_not, Bool.not_true, beq_iff_eq] at h
        have hc' : isAU c = false := by
          rcases h.1 with h1 | h1
          · exact h1
          · subst h1
            exact absurd (by rw [stem_cons]; simp) hu2
        rw [List.map_cons, asciiLower_of_not_AU hc', ih h.2 hu2]

theorem no_underscore_of_device {w : Str} (h : w.map asciiLower ∈ deviceNames) : '_' ∉ w := by
  intro hw
  have h1 : '_' ∈ w.map asciiLower := List.mem_map.2 ⟨'_', hw, by decide⟩
  have h2 : ∀ d ∈ deviceNames, '_' ∉ d := by decide
  exact h2 _ h h1

/-- with every capital followed by `_`, a stem that is a device name ignoring case is one literally -/
theorem stem_reserved_of_uf {s : Str} (h : uf s = true) (hd : (stem s).map asciiLower ∈ deviceNames) :
    stem s ∈ reserved := by
  rw [stem_lower_eq h (no_underscore_of_device hd)] at hd
  rw [reserved_eq]; exact hd

theorem uf_cons_nonAU {c : Char} {s : Str} (hc : isAU c = false) (h : uf s = true) : uf (c :: s) = true := by
  cases s with
  | nil => simp [uf, hc]
  | cons d t => unfold uf; simp [hc, h]

theorem uf_cons_us {c : Char} {s : Str} (h : uf s = true) : uf (c :: '_' :: s) = true := by
  unfold uf
  simp [uf_cons_nonAU (c := '_') (by decide) h]

theorem escape_uf {U : Char → Bool} (hU : ∀ c, isAU c = true → U c = true) (b : Bool) (name : Str) :
    uf (escape U b name) = true := by
  induction name generalizing b with
  | nil => rfl
  | cons c cs ih =>
    unfold escape escChar
    have ih' := ih false
    split
    · exact uf_cons_nonAU (by decide) ih'
    · split
      · exact uf_cons_nonAU (by decide) ih'
      · split
        · exact uf_cons_us ih'
        · rename_i hc
          have : isAU c = false := by
            cases h : isAU c with
            | false => rfl
            | true => exact absurd (hU c h) hc
          exact uf_cons_nonAU this ih'

theorem stem_append_of_mem {x : Str} (y : Str) (h : '.' ∈ x) : stem (x ++ y) = stem x := by
  induction x with
  | nil => cases h
  | cons c x ih =>
    rw [List.cons_append, stem_cons, stem_cons]
    by_cases hc : c = '.'
    · simp [hc]
    · rw [if_pos hc, if_pos hc]
      rcases List.mem_cons.1 h with h | h
      · exact absurd h.symm hc
      · rw [ih h]

theorem stem_append_of_not_mem {x : Str} (y : Str) (h : '.' ∉ x) : stem (x ++ y) = x ++ stem y := by
  induction x with
  | nil => rfl
  | cons c x ih =>
    have hc : c ≠ '.' := fun e => h (e ▸ List.mem_cons_self)
    rw [List.cons_append, stem_cons, if_pos hc, ih (fun e => h (List.mem_cons_of_mem _ e))]
    rfl

theorem usize_le_4len (s : Str) : usize s ≤ 4 * s.length := by
  induction s with
  | nil => simp
  | cons c s ih => have := csize_le4 c; simp; omega

theorem device_len : ∀ w ∈ deviceNames, w.length ≤ 4 := by decide
theorem device_head : ∀ w ∈ deviceNames, w.head? ≠ some '_' := by decide
def penultDigit (w : Str) : Bool :=
  match (w.reverse.drop 1).head? with
  | some x => ['0', '1', '2', '3', '4', '5', '6', '7', '8', '9'].contains x
  | none => false

theorem device_penult : ∀ w ∈ deviceNames, penultDigit w = false := by decide

theorem specStem_eq (p : Str) : p.takeWhile (· ≠ '.') = stem p := rfl

/-- layer directories: the stem starts with the six letters `glyphs` -/
theorem layer_not_reserved (U : Char → Bool) (name : Str) (k : Nat) :
    NotReserved (candidate U name layerPrefix [] k) := by
  unfold NotReserved
  rw [specStem_eq]
  obtain ⟨t, ht⟩ := layer_glyphs U name k
  rw [← ht, stem_append_of_not_mem _ (by decide)]
  intro h
  have := device_len _ h
  simp at this

theorem glif_body_eq (U : Char → Bool) (name : Str) :
    body U name [] glifSuffix = stage2 U name [] glifSuffix := by rw [body_eq]; rfl

theorem glif_counterBase (U : Char → Bool) (name : Str) :
    counterBase U name [] glifSuffix = body U name [] glifSuffix := by
  unfold counterBase; simp only
  rw [if_neg]
  have h1 := stage2_usize U name [] glifSuffix
  have h2 := body_usize U name [] glifSuffix
  have h3 : usize glifSuffix = 5 := by decide
  simp only [maxLen, numberLen] at *
  omega

theorem glif_candidate (U : Char → Bool) (name : Str) (k : Nat) :
    ∃ T, candidate U name [] glifSuffix k = stage2 U name [] glifSuffix ++ T ∧
      (T = glifSuffix ∨ T = twoDigits k ++ glifSuffix) := by
  by_cases hk : k = 0
  · subst hk; exact ⟨glifSuffix, by rw [candidate_zero, glif_body_eq], Or.inl rfl⟩
  · refine ⟨twoDigits k ++ glifSuffix, ?_, Or.inr rfl⟩
    rw [candidate_pos _ _ _ _ (by omega), glif_counterBase, glif_body_eq, List.append_assoc]

theorem digit_props (n : Nat) : digit n ≠ '.' ∧ asciiLower (digit n) = digit n ∧
    ['0', '1', '2', '3', '4', '5', '6', '7', '8', '9'].contains (digit n) = true := by
  have := digit_mem n
  simp only [List.mem_cons, List.not_mem_nil, or_false] at this
  rcases this with h | h | h | h | h | h | h | h | h | h <;> rw [h] <;> decide

theorem penult_two (x : Str) (a b : Char) :
    penultDigit (x ++ [a, b]) = ['0', '1', '2', '3', '4', '5', '6', '7', '8', '9'].contains a := by
  unfold penultDigit; simp

/-- glif files: the stem is not a device name, ignoring ASCII case -/
theorem glif_not_reserved {U : Char → Bool} (hU : ∀ c, isAU c = true → U c = true) (name : Str) (k : Nat) :
    NotReserved (candidate U name [] glifSuffix k) := by
  unfold NotReserved
  rw [specStem_eq]
  obtain ⟨T, hT, hT'⟩ := glif_candidate U name k
  rw [hT]
  have hs1 : stage1 U name [] = insertReserved (escape U true name) := rfl
  have hpre := stage2_prefix U name [] glifSuffix
  by_cases hres : stem (escape U true name) ∈ reserved
  · -- the underscore in front
    have h1 : (stage2 U name [] glifSuffix).head? = some '_' := by
      rw [stage2_head (by decide), hs1]; unfold insertReserved; rw [if_pos hres]; rfl
    cases hB : stage2 U name [] glifSuffix with
    | nil => rw [hB] at h1; cases h1
    | cons y ys =>
      rw [hB] at h1; simp at h1; subst h1
      rw [List.cons_append, stem_cons, if_pos (by decide), List.map_cons]
      intro hd
      exact device_head _ hd rfl
  · have hs1' : stage1 U name [] = escape U true name := by
      rw [hs1]; unfold insertReserved; rw [if_neg hres]
    rw [hs1'] at hpre
    intro hd
    have hlen := device_len _ hd
    rw [List.length_map] at hlen
    have huf := escape_uf hU true name
    by_cases hdot : '.' ∈ stage2 U name [] glifSuffix
    · rw [stem_append_of_mem _ hdot] at hd
      obtain ⟨u, hu⟩ := hpre
      have : stem (escape U true name) = stem (stage2 U name [] glifSuffix) := by
        rw [← hu]; exact stem_append_of_mem _ hdot
      rw [← this] at hd
      exact hres (stem_reserved_of_uf huf hd)
    · rw [stem_append_of_not_mem _ hdot] at hd hlen
      -- four characters at most: nothing was clipped
      have hB : stage2 U name [] glifSuffix = escape U true name := by
        unfold stage2 at hlen ⊢
        rw [hs1'] at hlen ⊢
        split
        · rename_i hc
          rw [if_pos hc] at hlen
          have h5 : usize glifSuffix = 5 := by decide
          have hg := takeBytes_gap (n := maxLen - usize glifSuffix) (s := escape U true name)
            (by simp only [maxLen] at *; omega)
          have h4 := usize_le_4len (takeBytes (maxLen - usize glifSuffix) (escape U true name))
          simp only [List.length_append, maxLen] at *
          omega
        · rfl
      rw [hB] at hd hdot
      have hst : stem (escape U true name) = escape U true name := by
        have := stem_append_of_not_mem [] hdot
        simpa [stem] using this
      rcases hT' with hT' | hT'
      · subst hT'
        have : stem glifSuffix = [] := by decide
        rw [this, List.append_nil, ← hst] at hd
        exact hres (stem_reserved_of_uf huf hd)
      · subst hT'
        have hd1 := digit_props (k / 10)
        have hd2 := digit_props k
        have : stem (twoDigits k ++ glifSuffix) = twoDigits k := by
          unfold twoDigits
          rw [List.cons_append, List.cons_append, stem_cons, if_pos hd1.1, stem_cons, if_pos hd2.1]
          rfl
        rw [this] at hd
        have hp := device_penult _ hd
        unfold twoDigits at hp
        rw [List.map_append, List.map_cons, List.map_cons, List.map_nil, penult_two, hd1.2.1, hd1.2.2] at hp
        cases hp

/-! ## the exact guard for the layer prefix -/

theorem takeBytes_cons (n : Nat) (c : Char) (cs : Str) :
    takeBytes n (c :: cs) = if c.utf8Size ≤ n then c :: takeBytes (n - c.utf8Size) cs else [] := by
  rw [takeBytes]

theorem takeBytes_append_prefix {n : Nat} (p e : Str) (h : usize p ≤ n) :
    takeBytes n (p ++ e) = p ++ takeBytes (n - usize p) e := by
  induction p generalizing n with
  | nil => simp
  | cons c p ih =>
    simp only [usize_cons] at h
    simp only [List.cons_append, usize_cons]
    rw [takeBytes_cons, if_pos (by omega), ih (by omega)]
    have : n - c.utf8Size - usize p = n - (c.utf8Size + usize p) := by omega
    rw [this]

theorem stage2_layer (U : Char → Bool) (name : Str) :
    stage2 U name layerPrefix [] = layerPrefix ++ takeBytes 248 (escape U false name) := by
  have h7 : usize layerPrefix = 7 := by decide
  unfold stage2
  rw [stage1_layer]
  split
  · rw [takeBytes_append_prefix _ _ (by simp only [maxLen, usize_nil, h7]; omega)]
    simp only [maxLen, usize_nil, h7]
  · rename_i hc
    rw [takeBytes_of_le]
    simp only [maxLen, usize_nil, usize_append, h7] at hc; omega

theorem illegal_ascii : ∀ c ∈ illegal, c.utf8Size = 1 := by decide
theorem dotsp_not_illegal {c : Char} (h : isDotSp c = true) : c ∉ illegal := by
  simp only [isDotSp, Bool.or_eq_true, beq_iff_eq] at h
  rcases h with h | h <;> subst h <;> decide

theorem escChar_dotsp {U : Char → Bool} (hU : U '.' = false ∧ U ' ' = false) {c : Char}
    (h : isDotSp c = true) : escChar U false c = [c] := by
  have hUc : U c = false := by
    simp only [isDotSp, Bool.or_eq_true, beq_iff_eq] at h
    rcases h with h | h <;> subst h
    · exact hU.1
    · exact hU.2
  unfold escChar
  rw [if_neg (by simp), if_neg (dotsp_not_illegal h), if_neg (by simp [hUc])]

theorem escChar_nodotsp_head (U : Char → Bool) {c : Char} (hc : isDotSp c = false) :
    ∃ x t, escChar U false c = x :: t ∧ isDotSp x = false ∧ x.utf8Size = c.utf8Size := by
  unfold escChar
  rw [if_neg (by simp)]
  split
  · rename_i hi
    exact ⟨'_', [], rfl, by decide, by rw [illegal_ascii c hi]; rfl⟩
  · split
    · exact ⟨c, ['_'], rfl, hc, rfl⟩
    · exact ⟨c, [], rfl, hc, rfl⟩

/-- whether the clipped escaped name is all periods/spaces can be read off the name itself -/
theorem takeBytes_escape_all {U : Char → Bool} (hU : U '.' = false ∧ U ' ' = false) (name : Str) (n : Nat) :
    (takeBytes n (escape U false name)).all isDotSp = (takeBytes n name).all isDotSp := by
  induction name generalizing n with
  | nil => rfl
  | cons c cs ih =>
    unfold escape
    cases hc : isDotSp c with
    | true =>
      rw [escChar_dotsp hU hc]
      simp only [List.cons_append, List.nil_append]
      unfold takeBytes
      split
      · simp only [List.all_cons, ih]
      · rfl
    | false =>
      obtain ⟨x, t, he, hx, hsz⟩ := escChar_nodotsp_head U hc
      rw [he]
      simp only [List.cons_append]
      unfold takeBytes
      rw [hsz]
      split
      · simp [hx, hc]
      · rfl

theorem fixTrailing_append_dotsp {a d : Str} (hd : ∀ c ∈ d, isDotSp c = true)
    (ha : ∀ x, a.getLast? = some x → isDotSp x = false) :
    fixTrailing (a ++ d) = a ++ List.replicate d.length '_' := by
  unfold fixTrailing
  have h1 : (a ++ d).reverse.takeWhile isDotSp = d.reverse := by
    rw [List.reverse_append, List.takeWhile_append_of_pos (fun c hc => hd c (List.mem_reverse.1 hc))]
    have : a.reverse.takeWhile isDotSp = [] := by
      cases h : a.reverse with
      | nil => rfl
      | cons y ys =>
        have : a.getLast? = some y := by rw [← List.head?_reverse, h]; rfl
        rw [List.takeWhile_cons, ha y this]; rfl
    rw [this, List.append_nil]
  simp only [h1, List.length_reverse, List.length_append]
  congr 1
  rw [Nat.add_sub_cancel]
  exact List.take_left' rfl

def glyphsUS : Str := ['g', 'l', 'y', 'p', 'h', 's', '_']

/-- a 7-byte ASCII prefix of the body is a prefix of every candidate -/
theorem candidate_keeps7 {U : Char → Bool} {name : Str} {q : Str} (hq : usize q = 7)
    (hb : q <+: body U name layerPrefix []) (k : Nat) : q <+: candidate U name layerPrefix [] k := by
  by_cases hk : k = 0
  · subst hk; rw [candidate_zero]; exact hb.trans (List.prefix_append _ _)
  · rw [candidate_pos _ _ _ _ (by omega)]
    have h4 : q <+: counterBase U name layerPrefix [] := by
      unfold counterBase; simp only; split
      · exact takeBytes_keeps_prefix hb (by simp only [maxLen, numberLen, usize_nil, hq]; omega)
      · exact hb
    rw [List.append_assoc]
    exact h4.trans (List.prefix_append _ _)

theorem body_layer_cases {U : Char → Bool} (name : Str) :
    ((takeBytes 248 (escape U false name)).all isDotSp = true → glyphsUS <+: body U name layerPrefix []) ∧
    ((takeBytes 248 (escape U false name)).all isDotSp = false → layerPrefix <+: body U name layerPrefix []) := by
  rw [body_eq]
  simp only [List.isEmpty_nil, if_true]
  rw [stage2_layer]
  constructor
  · intro hall
    have hd : ∀ c ∈ '.' :: takeBytes 248 (escape U false name), isDotSp c = true := by
      intro c hc
      rcases List.mem_cons.1 hc with h | h
      · subst h; rfl
      · exact List.all_eq_true.1 hall c h
    have : layerPrefix ++ takeBytes 248 (escape U false name) =
        ['g', 'l', 'y', 'p', 'h', 's'] ++ ('.' :: takeBytes 248 (escape U false name)) := rfl
    rw [this, fixTrailing_append_dotsp hd (by intro x hx; simp at hx; subst hx; rfl)]
    exact ⟨List.replicate (takeBytes 248 (escape U false name)).length '_', by
      simp [glyphsUS, List.replicate_succ]⟩
  · intro hall
    have : ∃ g ∈ takeBytes 248 (escape U false name), isDotSp g = false := by
      rcases List.all_eq_false.1 hall with ⟨g, hg, hg'⟩
      exact ⟨g, hg, by simpa using hg'⟩
    obtain ⟨g, hg, hg'⟩ := this
    obtain ⟨a, t, hat⟩ := List.append_of_mem hg
    have hp : (layerPrefix ++ a) ++ [g] <+: layerPrefix ++ takeBytes 248 (escape U false name) := by
      rw [hat]; exact ⟨t, by simp⟩
    have := fixTrailing_keeps_prefix hp hg'
    rw [List.append_assoc] at this
    exact (List.prefix_append _ _).trans this

theorem not_both_prefixes {l : Str} (h1 : glyphsUS <+: l) (h2 : layerPrefix <+: l) : False := by
  have := List.prefix_of_prefix_length_le h1 h2 (by decide)
  have hl : glyphsUS.length = layerPrefix.length := by decide
  have := List.IsPrefix.eq_of_length this hl
  revert this; decide

/-- **exact**: the directory of a layer keeps `glyphs.` iff the longest character prefix of the name
    within 248 bytes contains something else than periods and spaces -/
theorem layer_prefix_iff {U : Char → Bool} (hU : U '.' = false ∧ U ' ' = false) (name : Str) (k : Nat) :
    layerPrefix <+: candidate U name layerPrefix [] k ↔ (takeBytes 248 name).all isDotSp = false := by
  rw [← takeBytes_escape_all hU]
  have hc := body_layer_cases (U := U) name
  cases hall : (takeBytes 248 (escape U false name)).all isDotSp with
  | true =>
    have h1 := candidate_keeps7 (by decide) (hc.1 hall) k
    constructor
    · intro h2; exact (not_both_prefixes h1 h2).elim
    · intro h; cases h
  | false =>
    exact ⟨fun _ => rfl, fun _ => candidate_keeps7 (by decide) (hc.2 hall) k⟩

end C07
