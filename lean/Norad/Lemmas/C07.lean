import Norad.Model.C07
import Norad.Spec.C07
/-! Helper lemmas for C07 (may be edited freely; the property theorems live in `Props/C07.lean`). -/
namespace C07

/-! ## byte sizes -/

@[simp] theorem usize_nil : usize [] = 0 := rfl
@[simp] theorem usize_cons (c : Char) (s : Str) : usize (c :: s) = c.utf8Size + usize s := by
  simp [usize]
@[simp] theorem usize_append (a b : Str) : usize (a ++ b) = usize a + usize b := by
  induction a with
  | nil => simp
  | cons c a ih => simp [ih]; omega

theorem csize_pos (c : Char) : 0 < c.utf8Size := Char.utf8Size_pos c
theorem csize_le4 (c : Char) : c.utf8Size ≤ 4 := Char.utf8Size_le_four c

theorem usize_replicate_ascii (k : Nat) (c : Char) (h : c.utf8Size = 1) :
    usize (List.replicate k c) = k := by
  induction k with
  | zero => rfl
  | succ k ih => simp [List.replicate_succ, ih, h]; omega

theorem usize_prefix_le {p s : Str} (h : p <+: s) : usize p ≤ usize s := by
  obtain ⟨t, rfl⟩ := h; simp

/-! ## `takeBytes`: longest character prefix of at most `n` bytes -/

theorem takeBytes_prefix (n : Nat) (s : Str) : takeBytes n s <+: s := by
  induction s generalizing n with
  | nil => simp [takeBytes]
  | cons c cs ih =>
    unfold takeBytes
    split
    · exact List.cons_prefix_cons.2 ⟨rfl, ih _⟩
    · exact List.nil_prefix

theorem usize_takeBytes_le (n : Nat) (s : Str) : usize (takeBytes n s) ≤ n := by
  induction s generalizing n with
  | nil => simp [takeBytes]
  | cons c cs ih =>
    unfold takeBytes
    split
    · have := ih (n - c.utf8Size); simp; omega
    · simp

theorem takeBytes_of_le {n : Nat} {s : Str} (h : usize s ≤ n) : takeBytes n s = s := by
  induction s generalizing n with
  | nil => simp [takeBytes]
  | cons c cs ih =>
    simp at h
    unfold takeBytes
    rw [if_pos (by omega), ih (by omega)]

/-- the cut is at most 3 bytes below the requested index (a character has at most 4 bytes) -/
theorem takeBytes_gap {n : Nat} {s : Str} (h : n < usize s) : n < usize (takeBytes n s) + 4 := by
  induction s generalizing n with
  | nil => simp at h
  | cons c cs ih =>
    simp at h
    unfold takeBytes
    split
    · have := @ih (n - c.utf8Size) (by omega); simp; omega
    · have := csize_le4 c; simp; omega

theorem takeBytes_append_left {n : Nat} {a : Str} (b : Str) (h : n ≤ usize a) :
    takeBytes n (a ++ b) = takeBytes n a := by
  induction a generalizing n with
  | nil =>
    simp at h; subst h
    cases b with
    | nil => rfl
    | cons c cs => have := csize_pos c; simp [takeBytes]; omega
  | cons c cs ih =>
    simp at h
    simp only [List.cons_append]
    unfold takeBytes
    split
    · rw [ih (by omega)]
    · rfl

theorem takeBytes_keeps_prefix {p s : Str} {n : Nat} (hp : p <+: s) (hn : usize p ≤ n) :
    p <+: takeBytes n s := by
  induction p generalizing s n with
  | nil => exact List.nil_prefix
  | cons c p ih =>
    obtain ⟨t, rfl⟩ := hp
    simp at hn
    simp only [List.cons_append]
    unfold takeBytes
    rw [if_pos (by omega)]
    exact List.cons_prefix_cons.2 ⟨rfl, ih (List.prefix_append _ _) (by omega)⟩

theorem takeBytes_ne_nil {s : Str} {n : Nat} (hs : s ≠ []) (hn : 4 ≤ n) : takeBytes n s ≠ [] := by
  cases s with
  | nil => exact absurd rfl hs
  | cons c cs =>
    have := csize_le4 c
    unfold takeBytes
    rw [if_pos (by omega)]; simp

theorem takeBytes_head {s : Str} {n : Nat} (hn : 4 ≤ n) : (takeBytes n s).head? = s.head? := by
  cases s with
  | nil => rfl
  | cons c cs =>
    have := csize_le4 c
    unfold takeBytes
    rw [if_pos (by omega)]; rfl

/-- any index between the size of the cut and the requested index gives the same cut -/
theorem takeBytes_stable {m k : Nat} {s : Str} (h1 : usize (takeBytes m s) ≤ k) (h2 : k ≤ m) :
    takeBytes k s = takeBytes m s := by
  induction s generalizing m k with
  | nil => simp [takeBytes]
  | cons c cs ih =>
    unfold takeBytes at h1 ⊢
    by_cases hc : c.utf8Size ≤ m
    · rw [if_pos hc] at h1 ⊢
      simp at h1
      rw [if_pos (by omega), ih (m := m - c.utf8Size) (k := k - c.utf8Size) (by omega) (by omega)]
    · rw [if_neg hc] at h1 ⊢
      rw [if_neg (by omega)]

/-! ## char boundaries, the back-off loop, `truncate` -/

theorem isCharBoundary_iff (s : Str) (n : Nat) :
    isCharBoundary s n = true ↔ usize (takeBytes n s) = n := by
  induction s generalizing n with
  | nil => cases n <;> simp [isCharBoundary, takeBytes]
  | cons c cs ih =>
    cases n with
    | zero =>
      have := csize_pos c
      unfold isCharBoundary takeBytes
      rw [if_neg (by omega)]; simp
    | succ n =>
      unfold isCharBoundary takeBytes
      by_cases hc : c.utf8Size ≤ n + 1
      · rw [if_pos hc, if_pos hc, ih]; simp; omega
      · rw [if_neg hc, if_neg hc]; simp

/-- the back-off loop stops at the size of the longest character prefix that fits -/
theorem backoff_eq (s : Str) (n : Nat) : backoff s n = usize (takeBytes n s) := by
  induction n with
  | zero =>
    have := usize_takeBytes_le 0 s
    unfold backoff; omega
  | succ n ih =>
    unfold backoff
    split
    · rename_i h; exact ((isCharBoundary_iff s (n + 1)).1 h).symm
    · rename_i h
      rw [isCharBoundary_iff] at h
      have hle := usize_takeBytes_le (n + 1) s
      rw [ih, takeBytes_stable (m := n + 1) (k := n) (by omega) (by omega)]

theorem truncateAt_prefix (p t : Str) : truncateAt (p ++ t) (usize p) = some p := by
  induction p with
  | nil => cases t <;> simp [truncateAt]
  | cons c p ih =>
    have := csize_pos c
    simp only [List.cons_append, usize_cons]
    obtain ⟨m, hm⟩ : ∃ m, c.utf8Size + usize p = m + 1 := ⟨c.utf8Size + usize p - 1, by omega⟩
    rw [hm]
    unfold truncateAt
    rw [if_pos (by omega)]
    have : m + 1 - c.utf8Size = usize p := by omega
    rw [this, ih]; rfl

/-- `truncate` after the back-off never panics and yields `takeBytes` -/
theorem truncateAt_backoff (s : Str) (n : Nat) :
    truncateAt s (backoff s n) = some (takeBytes n s) := by
  rw [backoff_eq]
  obtain ⟨t, ht⟩ := takeBytes_prefix n s
  conv => lhs; arg 1; rw [← ht]
  exact truncateAt_prefix _ _

/-- the back-off loop runs at most three times when it starts inside the string -/
theorem backoff_gap {s : Str} {n : Nat} (h : n ≤ usize s) : n ≤ backoff s n + 3 := by
  rw [backoff_eq]
  by_cases hn : n < usize s
  · have := takeBytes_gap hn; omega
  · have : takeBytes n s = s := takeBytes_of_le (by omega)
    rw [this]; omega

/-! ## the escaping loop -/

theorem escChar_ne_nil (U : Char → Bool) (b : Bool) (c : Char) : escChar U b c ≠ [] := by
  unfold escChar; repeat' split
  all_goals simp

theorem escapeInto_eq (U : Char → Bool) (acc name : Str) :
    escapeInto U acc name = acc ++ escape U acc.isEmpty name := by
  induction name generalizing acc with
  | nil => simp [escapeInto, escape]
  | cons c cs ih =>
    unfold escapeInto escape
    rw [ih]
    have : (acc ++ escChar U acc.isEmpty c).isEmpty = false := by
      have := escChar_ne_nil U acc.isEmpty c
      cases h : escChar U acc.isEmpty c with
      | nil => exact absurd h this
      | cons x xs => cases acc <;> simp
    rw [this]; simp

/-! ## closed forms of the `Option`-valued blocks: no char-boundary panic -/

theorem clip_eq (suf r : Str) :
    clip suf r = some (if usize r + usize suf > maxLen then takeBytes (maxLen - usize suf) r else r) := by
  unfold clip
  split
  · exact truncateAt_backoff _ _
  · rfl

theorem firstCandidate_eq (U : Char → Bool) (name pre suf : Str) :
    firstCandidate U name pre suf = some (body U name pre suf ++ suf) := by
  unfold firstCandidate body
  rw [clip_eq, escapeInto_eq]

theorem cutForCounter_eq (b suf : Str) :
    cutForCounter (b ++ suf) suf =
      some (if usize b + numberLen > maxLen then takeBytes (maxLen - usize suf - numberLen) b else b) := by
  unfold cutForCounter
  have h : usize (b ++ suf) - usize suf = usize b := by simp
  rw [h]
  split
  · rename_i hc
    rw [truncateAt_backoff, takeBytes_append_left]
    simp only [maxLen, numberLen] at hc ⊢; omega
  · exact truncateAt_prefix _ _

/-! ## the counter loop -/

theorem tryCounters_some {lower : Str → Str} {accept : Nat → Str → Bool} {base suf r : Str}
    {fuel k : Nat} (h : tryCounters lower accept base suf fuel k = some r) :
    ∃ j, k ≤ j ∧ j < k + fuel ∧ r = base ++ twoDigits j ++ suf ∧ accept j (lower r) = true ∧
      ∀ i, k ≤ i → i < j → accept i (lower (base ++ twoDigits i ++ suf)) = false := by
  induction fuel generalizing k with
  | zero => simp [tryCounters] at h
  | succ fuel ih =>
    unfold tryCounters at h
    simp only at h
    split at h
    · rename_i ha
      injection h with h; subst h
      exact ⟨k, Nat.le_refl _, by omega, rfl, ha, fun i h1 h2 => by omega⟩
    · rename_i ha
      obtain ⟨j, h1, h2, h3, h4, h5⟩ := ih h
      refine ⟨j, by omega, by omega, h3, h4, fun i hi1 hi2 => ?_⟩
      by_cases hik : i = k
      · subst hik; simpa using ha
      · exact h5 i (by omega) hi2

theorem tryCounters_none {lower : Str → Str} {accept : Nat → Str → Bool} {base suf : Str}
    {fuel k : Nat} :
    tryCounters lower accept base suf fuel k = none ↔
      ∀ i, k ≤ i → i < k + fuel → accept i (lower (base ++ twoDigits i ++ suf)) = false := by
  induction fuel generalizing k with
  | zero => simp [tryCounters]; intro i h1 h2; omega
  | succ fuel ih =>
    unfold tryCounters
    simp only
    split
    · rename_i ha
      simp only [reduceCtorEq, false_iff]
      intro h
      have := h k (Nat.le_refl _) (by omega)
      rw [ha] at this; cases this
    · rename_i ha
      rw [ih]
      constructor
      · intro h i h1 h2
        by_cases hik : i = k
        · subst hik; simpa using ha
        · exact h i (by omega) (by omega)
      · intro h i h1 h2
        exact h i (by omega) (by omega)

/-! ## the whole function = first accepted candidate -/

theorem candidate_zero (U : Char → Bool) (name pre suf : Str) :
    candidate U name pre suf 0 = body U name pre suf ++ suf := by
  simp [candidate, candidateFrom]

theorem candidate_pos (U : Char → Bool) (name pre suf : Str) {k : Nat} (hk : 0 < k) :
    candidate U name pre suf k = counterBase U name pre suf ++ twoDigits k ++ suf := by
  have : k ≠ 0 := by omega
  simp [candidate, candidateFrom, this]

theorem fileName_unfold (U : Char → Bool) (lower : Str → Str) (name pre suf : Str)
    (accept : Nat → Str → Bool) :
    userNameToFileName U lower name pre suf accept =
      if accept 0 (lower (body U name pre suf ++ suf)) then some (body U name pre suf ++ suf)
      else tryCounters lower accept (counterBase U name pre suf) suf 99 1 := by
  unfold userNameToFileName
  rw [firstCandidate_eq]
  simp only [cutForCounter_eq]
  rfl

theorem fileName_some {U : Char → Bool} {lower : Str → Str} {name pre suf r : Str}
    {accept : Nat → Str → Bool}
    (h : userNameToFileName U lower name pre suf accept = some r) :
    ∃ k, k ≤ 99 ∧ r = candidate U name pre suf k ∧ accept k (lower r) = true ∧
      ∀ j, j < k → accept j (lower (candidate U name pre suf j)) = false := by
  rw [fileName_unfold] at h
  split at h
  · rename_i ha
    injection h with h; subst h
    exact ⟨0, by omega, (candidate_zero ..).symm, ha, fun j hj => by omega⟩
  · rename_i ha
    obtain ⟨j, h1, h2, h3, h4, h5⟩ := tryCounters_some h
    refine ⟨j, by omega, ?_, h4, fun i hi => ?_⟩
    · rw [candidate_pos _ _ _ _ (by omega)]; exact h3
    · by_cases hi0 : i = 0
      · subst hi0; rw [candidate_zero]; simpa using ha
      · rw [candidate_pos _ _ _ _ (by omega)]; exact h5 i (by omega) hi

theorem fileName_none {U : Char → Bool} {lower : Str → Str} {name pre suf : Str}
    {accept : Nat → Str → Bool} :
    userNameToFileName U lower name pre suf accept = none ↔
      ∀ k, k ≤ 99 → accept k (lower (candidate U name pre suf k)) = false := by
  rw [fileName_unfold]
  split
  · rename_i ha
    simp only [reduceCtorEq, false_iff]
    intro h
    have := h 0 (by omega)
    rw [candidate_zero, ha] at this; cases this
  · rename_i ha
    rw [tryCounters_none]
    constructor
    · intro h k hk
      by_cases hk0 : k = 0
      · subst hk0; rw [candidate_zero]; simpa using ha
      · rw [candidate_pos _ _ _ _ (by omega)]; exact h k (by omega) (by omega)
    · intro h i h1 h2
      have := h i (by omega)
      rwa [candidate_pos _ _ _ _ (by omega)] at this

end C07
