import Norad.Lemmas.FontInfoUp
/-! C14, source-level tie of `upconvert_ufov1_robofab_data`: the semantics of a (entry, attribute, conversion) row,
    the table the model uses, and the proof that folding the rows by their conversions is the model's `applyHints`.
    Nothing here mentions the regenerated file. -/
namespace C14
open FI

/-- one statement of the hint block, as its conversion says -/
def convStep (hint acc : List (String × Val)) (row : String × String × RConv) : List (String × Val) :=
  match row.2.2, lookup hint row.1 with
  | .direct, some v => setKey acc row.2.1 (some (flatten v))
  | .direct, none => setKey acc row.2.1 none
  | .flattenIfPresent, some v => setKey acc row.2.1 (some (flatten v))
  | .flattenIfPresent, none => acc
  | .copyIfPresent, some v => setKey acc row.2.1 (some v)
  | _, _ => acc

def applyConvRows (rows : List (String × String × RConv)) (hint info : List (String × Val)) :
    List (String × Val) :=
  rows.foldl (convStep hint) info

/-- the conversion the model applies to a hint entry -/
def modelConvOf (entry : String) : RConv :=
  if hintConditional.contains entry then .flattenIfPresent else .direct

/-- the model's table: the rows `load` folds over, each with the conversion `hintStep` applies to it -/
def modelHintTable : List (String × String × RConv) :=
  Gen.hintRows.map fun r => (r.1, r.2, modelConvOf r.1)

/-- the model's feature statements (`featureText`): classes first, then a newline and the blocks, in the order of
    the order list -/
def modelFeatureTable : List (String × String × RConv) :=
  [("org.robofab.opentype.classes", "features", .appendText),
   ("org.robofab.opentype.features", "features", .newlineThenBlocks),
   ("org.robofab.opentype.featureorder", "features", .blockOrder)]

theorem convStep_model (hint acc : List (String × Val)) (r : String × String) :
    convStep hint acc (r.1, r.2, modelConvOf r.1) = hintStep hint acc r := by
  unfold convStep hintStep modelConvOf
  cases hc : hintConditional.contains r.1 <;> cases hl : lookup hint r.1 <;> simp

theorem foldl_convStep_model (hint : List (String × Val)) (rows : List (String × String))
    (info : List (String × Val)) :
    (rows.map fun r => (r.1, r.2, modelConvOf r.1)).foldl (convStep hint) info = rows.foldl (hintStep hint) info := by
  induction rows generalizing info with
  | nil => rfl
  | cons r rest ih =>
    simp only [List.map_cons, List.foldl_cons]
    rw [convStep_model]
    exact ih _

/-- folding the model's table by the conversions of its rows is `applyHints` -/
theorem applyConvRows_model (hint info : List (String × Val)) :
    applyConvRows modelHintTable hint info = applyHints Gen.hintRows hint info :=
  foldl_convStep_model hint Gen.hintRows info

/-- what a present entry leaves in its attribute, per conversion -/
theorem convStep_present (hint acc : List (String × Val)) (row : String × String × RConv) (v : Val)
    (hv : lookup hint row.1 = some v) :
    (row.2.2 = .direct ∨ row.2.2 = .flattenIfPresent → getKey (convStep hint acc row) row.2.1 = some (flatten v)) ∧
    (row.2.2 = .copyIfPresent → getKey (convStep hint acc row) row.2.1 = some v) := by
  obtain ⟨e, t, c⟩ := row
  refine ⟨fun h => ?_, fun h => ?_⟩
  · rcases h with h | h <;> (simp only at h hv; subst h; simp only [convStep, hv]; exact getKey_setKey_self _ _ _)
  · simp only at h hv; subst h; simp only [convStep, hv]; exact getKey_setKey_self _ _ _

/-! ### the feature statements, interpreted -/

/-- an entry of the robofab part of lib.plist as the statements see it -/
inductive LibVal where
  | text (s : String)
  | list (l : List String)
  | dict (d : List (String × String))

/-- `lib_data.<member>` by lib key -/
def Robofab.entry (r : Robofab) (key : String) : Option LibVal :=
  if key = "org.robofab.opentype.classes" then r.classes.map .text
  else if key = "org.robofab.opentype.featureorder" then r.order.map .list
  else if key = "org.robofab.opentype.features" then r.feats.map .dict
  else none

/-- Rust's `Vec<String>::sort()` (byte order of UTF-8 = code point order) -/
def sortKeys (l : List String) : List String := l.mergeSort (fun a b => decide (a ≤ b))

/-- the order of the blocks when the lib has no order list -/
def fallbackBlocks (fallback : String) (fs : List (String × String)) : List String :=
  if fallback = "sorted" then sortKeys (fs.map (·.1)) else fs.map (·.1)

/-- the lib key of the statement that supplies the order of the blocks -/
def orderKeyOf (rows : List (String × String × RConv)) : Option String :=
  match rows.find? (fun row => row.2.2 == .blockOrder) with
  | some row => some row.1
  | none => none

/-- one feature statement: `push_str` of the classes; `push('\n')` and `push_str` of every block the order names
    (a tag without a block is skipped, a repeated tag repeats its block); the order row itself emits nothing -/
def featStep (rows : List (String × String × RConv)) (fallback : String) (r : Robofab) (acc : String)
    (row : String × String × RConv) : String :=
  match row.2.2, r.entry row.1 with
  | .appendText, some (.text s) => acc ++ s
  | .newlineThenBlocks, some (.dict fs) =>
    let order := match (orderKeyOf rows).bind r.entry with
      | some (.list o) => o
      | _ => fallbackBlocks fallback fs
    acc ++ "\n" ++ String.join (order.filterMap fun k => lookup fs k)
  | _, _ => acc

/-- `let mut features = String::new();` followed by the translated statements -/
def featureTextOf (rows : List (String × String × RConv)) (fallback : String) (r : Robofab) : String :=
  rows.foldl (featStep rows fallback r) ""

/-- the model's reading of "no order list": with the fallback `sorted` it is the order list of the sorted tags -/
def withFallback (fallback : String) (r : Robofab) : Robofab :=
  match r.order, r.feats with
  | none, some fs => if fallback = "sorted" then { r with order := some (sortKeys (fs.map (·.1))) } else r
  | _, _ => r

/-- folding the model's feature statements is the model's `featureText`, for every robofab lib -/
theorem featureTextOf_model (fallback : String) (r : Robofab) :
    featureTextOf modelFeatureTable fallback r = featureText (withFallback fallback r) := by
  obtain ⟨hint, classes, order, feats⟩ := r
  have hk : orderKeyOf modelFeatureTable = some "org.robofab.opentype.featureorder" := by decide
  have hfold : ∀ r : Robofab, featureTextOf modelFeatureTable fallback r =
      featStep modelFeatureTable fallback r (featStep modelFeatureTable fallback r
        (featStep modelFeatureTable fallback r "" ("org.robofab.opentype.classes", "features", .appendText))
        ("org.robofab.opentype.features", "features", .newlineThenBlocks))
        ("org.robofab.opentype.featureorder", "features", .blockOrder) := fun _ => rfl
  rw [hfold]
  simp only [featStep, hk]
  by_cases hs : fallback = "sorted" <;> cases classes <;> cases feats <;> cases order <;>
    simp [Robofab.entry, featureText, withFallback, fallbackBlocks, String.empty_append, hs]

theorem entry_dict (r : Robofab) (key : String) (d : List (String × String))
    (h : r.entry key = some (.dict d)) : key = "org.robofab.opentype.features" := by
  unfold Robofab.entry at h
  split at h
  · cases hc : r.classes <;> simp [hc] at h
  · split at h
    · cases ho : r.order <;> simp [ho] at h
    · split at h
      · assumption
      · cases h

/-! ### the text does not depend on the iteration order of the block map -/

theorem lookup_mem {β} {fs : List (String × β)} (hn : (fs.map (·.1)).Nodup) (k : String) (v : β) :
    lookup fs k = some v ↔ (k, v) ∈ fs := by
  induction fs with
  | nil => simp [lookup_nil]
  | cons a t ih =>
    rw [lookup_cons]
    simp only [List.map_cons, List.nodup_cons] at hn
    by_cases h : a.1 = k
    · simp only [h, if_true, Option.some.injEq, List.mem_cons]
      constructor
      · intro e; left; rw [← e, ← h]
      · rintro (e | e)
        · rw [← e]
        · exact absurd (List.mem_map.2 ⟨(k, v), e, rfl⟩) (h ▸ hn.1)
    · simp only [h, if_false, List.mem_cons]
      rw [ih hn.2]
      constructor
      · exact Or.inr
      · rintro (e | e)
        · exact absurd (by rw [← e]) h
        · exact e

theorem lookup_perm {β} {fs fs' : List (String × β)} (hp : fs'.Perm fs) (hn : (fs.map (·.1)).Nodup)
    (k : String) : lookup fs' k = lookup fs k := by
  have hn' : (fs'.map (·.1)).Nodup := (hp.map _).nodup_iff.2 hn
  cases h : lookup fs k with
  | some v => exact (lookup_mem hn' k v).2 (hp.mem_iff.2 ((lookup_mem hn k v).1 h))
  | none =>
    cases h' : lookup fs' k with
    | none => rfl
    | some v =>
      have := (lookup_mem hn k v).2 (hp.mem_iff.1 ((lookup_mem hn' k v).1 h'))
      rw [h] at this; cases this

theorem sortKeys_perm {l l' : List String} (hp : l'.Perm l) : sortKeys l' = sortKeys l := by
  have tr : ∀ a b c : String, decide (a ≤ b) = true → decide (b ≤ c) = true → decide (a ≤ c) = true := by
    intro a b c h1 h2
    exact decide_eq_true (String.le_trans (of_decide_eq_true h1) (of_decide_eq_true h2))
  have tot : ∀ a b : String, (decide (a ≤ b) || decide (b ≤ a)) = true := by
    intro a b
    rcases String.le_total a b with h | h <;> simp [h]
  apply List.Perm.eq_of_pairwise (le := fun a b => decide (a ≤ b) = true)
  · intro a b _ _ h1 h2
    exact String.le_antisymm (of_decide_eq_true h1) (of_decide_eq_true h2)
  · exact List.pairwise_mergeSort tr tot l'
  · exact List.pairwise_mergeSort tr tot l
  · exact (List.mergeSort_perm l' _).trans (hp.trans (List.mergeSort_perm l _).symm)

/-- with the fallback `sorted` (or with an order list) two block maps holding the same blocks give the same text -/
theorem featureTextOf_perm (rows : List (String × String × RConv)) (fallback : String) (r : Robofab)
    (fs fs' : List (String × String)) (hp : fs'.Perm fs) (hn : (fs.map (·.1)).Nodup)
    (hs : fallback = "sorted") :
    featureTextOf rows fallback { r with feats := some fs' } = featureTextOf rows fallback { r with feats := some fs } := by
  have hl : (fun k => lookup fs' k) = (fun k => lookup fs k) := by funext k; exact lookup_perm hp hn k
  have hf : fallbackBlocks fallback fs' = fallbackBlocks fallback fs := by
    simp only [fallbackBlocks, hs, if_true]
    exact sortKeys_perm (hp.map _)
  have hentry : ∀ key, key ≠ "org.robofab.opentype.features" →
      Robofab.entry { r with feats := some fs' } key = Robofab.entry { r with feats := some fs } key := by
    intro key hne
    simp [Robofab.entry, hne]
  have hstep : ∀ acc row, featStep rows fallback { r with feats := some fs' } acc row =
      featStep rows fallback { r with feats := some fs } acc row := by
    intro acc row
    by_cases hkey : row.1 = "org.robofab.opentype.features"
    · have hord : (orderKeyOf rows).bind (Robofab.entry { r with feats := some fs' }) =
          (orderKeyOf rows).bind (Robofab.entry { r with feats := some fs }) ∨
          ∃ d d', (orderKeyOf rows).bind (Robofab.entry { r with feats := some fs' }) = some (.dict d') ∧
            (orderKeyOf rows).bind (Robofab.entry { r with feats := some fs }) = some (.dict d) := by
        cases ho : orderKeyOf rows with
        | none => left; rfl
        | some ok =>
          by_cases hok : ok = "org.robofab.opentype.features"
          · right; exact ⟨fs, fs', by simp [Robofab.entry, hok], by simp [Robofab.entry, hok]⟩
          · left; simp only [Option.bind_some]; exact hentry ok hok
      simp only [featStep, hkey]
      have e1 : Robofab.entry { r with feats := some fs' } "org.robofab.opentype.features" = some (.dict fs') := by
        simp [Robofab.entry]
      have e2 : Robofab.entry { r with feats := some fs } "org.robofab.opentype.features" = some (.dict fs) := by
        simp [Robofab.entry]
      rw [e1, e2]
      cases hc : row.2.2 <;> simp only []
      rcases hord with h | ⟨d, d', h1, h2⟩
      · rw [h, hl]
        cases (orderKeyOf rows).bind (Robofab.entry { r with feats := some fs }) with
        | none => simp only [hf]
        | some v => cases v <;> simp only [hf]
      · rw [h1, h2, hl]; simp only [hf]
    · have he := hentry row.1 hkey
      unfold featStep
      rw [he]
      cases hv : Robofab.entry { r with feats := some fs } row.1 with
      | none => cases row.2.2 <;> rfl
      | some v =>
        cases v with
        | dict d => exact absurd (entry_dict _ _ _ hv) hkey
        | text t => cases row.2.2 <;> rfl
        | list l => cases row.2.2 <;> rfl
  unfold featureTextOf
  congr 1
  funext acc row
  exact hstep acc row

end C14
