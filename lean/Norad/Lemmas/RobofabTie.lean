import Norad.Lemmas.FontInfoUp
/-! C14, source-level tie of `upconvert_ufov1_robofab_data`: the semantics of a (entry, attribute, conversion) row,
    the table the model uses, and the proof that folding the rows by their conversions is the model's `applyHints`.
    Nothing here mentions the regenerated file. -/
namespace C14
open FI

/-- one statement of the hint block, as its conversion says -/
def convStep (hint acc : List (String × Val)) (row : String × String × RConv) : List (String × Val) :=
  match row.2.2, lookup hint row.1 with
  | .direct, some v => setKey acc row.2.1 (some (flatten v))
  | .direct, none => setKey acc row.2.1 none
  | .flattenIfPresent, some v => setKey acc row.2.1 (some (flatten v))
  | .flattenIfPresent, none => acc
  | .copyIfPresent, some v => setKey acc row.2.1 (some v)
  | _, _ => acc

def applyConvRows (rows : List (String × String × RConv)) (hint info : List (String × Val)) :
    List (String × Val) :=
  rows.foldl (convStep hint) info

/-- the conversion the model applies to a hint entry -/
def modelConvOf (entry : String) : RConv :=
  if hintConditional.contains entry then .flattenIfPresent else .direct

/-- the model's table: the rows `load` folds over, each with the conversion `hintStep` applies to it -/
def modelHintTable : List (String × String × RConv) :=
  Gen.hintRows.map fun r => (r.1, r.2, modelConvOf r.1)

/-- the model's feature statements (`featureText`): classes first, then a newline and the blocks, in the order of
    the order list -/
def modelFeatureTable : List (String × String × RConv) :=
  [("org.robofab.opentype.classes", "features", .appendText),
   ("org.robofab.opentype.features", "features", .newlineThenBlocks),
   ("org.robofab.opentype.featureorder", "features", .blockOrder)]

theorem convStep_model (hint acc : List (String × Val)) (r : String × String) :
    convStep hint acc (r.1, r.2, modelConvOf r.1) = hintStep hint acc r := by
  unfold convStep hintStep modelConvOf
  cases hc : hintConditional.contains r.1 <;> cases hl : lookup hint r.1 <;> simp

theorem foldl_convStep_model (hint : List (String × Val)) (rows : List (String × String))
    (info : List (String × Val)) :
    (rows.map fun r => (r.1, r.2, modelConvOf r.1)).foldl (convStep hint) info = rows.foldl (hintStep hint) info := by
  induction rows generalizing info with
  | nil => rfl
  | cons r rest ih =>
    simp only [List.map_cons, List.foldl_cons]
    rw [convStep_model]
    exact ih _

/-- folding the model's table by the conversions of its rows is `applyHints` -/
theorem applyConvRows_model (hint info : List (String × Val)) :
    applyConvRows modelHintTable hint info = applyHints Gen.hintRows hint info :=
  foldl_convStep_model hint Gen.hintRows info

/-- what a present entry leaves in its attribute, per conversion -/
theorem convStep_present (hint acc : List (String × Val)) (row : String × String × RConv) (v : Val)
    (hv : lookup hint row.1 = some v) :
    (row.2.2 = .direct ∨ row.2.2 = .flattenIfPresent → getKey (convStep hint acc row) row.2.1 = some (flatten v)) ∧
    (row.2.2 = .copyIfPresent → getKey (convStep hint acc row) row.2.1 = some v) := by
  obtain ⟨e, t, c⟩ := row
  refine ⟨fun h => ?_, fun h => ?_⟩
  · rcases h with h | h <;> (simp only at h hv; subst h; simp only [convStep, hv]; exact getKey_setKey_self _ _ _)
  · simp only at h hv; subst h; simp only [convStep, hv]; exact getKey_setKey_self _ _ _

end C14
