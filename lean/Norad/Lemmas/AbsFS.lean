import Norad.Model.AbsFS
/-!
Lemmas about the abstract file system: `lookup` after `set` / `removeAll`, path resolution of
all-normal component lists, what one successful `mkdir` / `writeFile` / `mkdirAll` changes.
-/
namespace AbsFS
open Path (Comp)

variable {β : Type}

/-! ### lookup -/

theorem lookup_filter_ne (fs : FS β) (p q : APath) :
    lookup (fs.filter (fun e => !(e.1 == p))) q = if q = p then none else lookup fs q := by
  induction fs with
  | nil => simp [lookup]
  | cons e r ih =>
    obtain ⟨a, n⟩ := e
    by_cases ha : a = p
    · subst ha
      simp only [List.filter, beq_self_eq_true, Bool.not_true]
      rw [ih]
      by_cases hq : q = a
      · simp [hq]
      · have : ¬ a = q := fun h => hq h.symm
        simp [hq, lookup, this]
    · have hb : (a == p) = false := by simpa using ha
      simp only [List.filter, hb, Bool.not_false, lookup]
      rw [ih]
      by_cases hq : q = p
      · subst hq; simp [ha]
      · simp [hq]

theorem lookup_set (fs : FS β) (p q : APath) (n : Node β) :
    lookup (set fs p n) q = if p = q then some n else lookup fs q := by
  unfold set
  simp only [lookup]
  by_cases h : p = q
  · simp [h]
  · have : ¬ q = p := fun e => h e.symm
    simp [h, lookup_filter_ne, this]

theorem lookup_removeAll (fs : FS β) (p q : APath) :
    lookup (removeAll fs p) q = if p.isPrefixOf q = true then none else lookup fs q := by
  unfold removeAll
  induction fs with
  | nil => simp [lookup]
  | cons e r ih =>
    obtain ⟨a, n⟩ := e
    by_cases ha : p.isPrefixOf a = true
    · simp only [List.filter, ha, Bool.not_true]
      rw [ih]
      by_cases hq : p.isPrefixOf q = true
      · simp [hq]
      · have : ¬ a = q := by intro e; rw [e] at ha; exact hq ha
        simp [hq, lookup, this]
    · have hb : p.isPrefixOf a = false := by cases hh : p.isPrefixOf a <;> simp_all
      simp only [List.filter, hb, Bool.not_false, lookup]
      rw [ih]
      by_cases haq : a = q
      · subst haq; simp [hb]
      · simp [haq]

theorem node_of_ne_nil (fs : FS β) {p : APath} (h : p ≠ []) : node fs p = lookup fs p := by
  simp [node, h]

theorem node_set (fs : FS β) (p q : APath) (n : Node β) (hp : p ≠ []) :
    node (set fs p n) q = if p = q then some n else node fs q := by
  unfold node
  by_cases hq : q = []
  · subst hq; simp [hp]
  · simp [hq, lookup_set]

theorem isDir_iff {fs : FS β} {p : APath} : isDir fs p = true ↔ node fs p = some .dir := by
  unfold isDir
  cases h : node fs p with
  | none => simp
  | some n => cases n <;> simp

/-! ### resolution of all-normal component lists -/

theorem walk_normal (fs : FS β) :
    ∀ (l : List Name) (st d : APath), walk fs st (l.map Comp.normal) = .ok d →
      d = st ++ l ∧ ∀ m, m <+: l → m ≠ [] → isDir fs (st ++ m) = true := by
  intro l
  induction l with
  | nil =>
    intro st d h
    simp only [List.map, walk] at h
    cases h
    refine ⟨by simp, ?_⟩
    intro m hm hne
    exact absurd (List.prefix_nil.mp hm) hne
  | cons s r ih =>
    intro st d h
    simp only [List.map, walk] at h
    cases hn : node fs (st ++ [s]) with
    | none => simp [hn] at h
    | some nd =>
      cases nd with
      | file b => simp [hn] at h
      | dir =>
        simp only [hn] at h
        obtain ⟨h1, h2⟩ := ih (st ++ [s]) d h
        refine ⟨by simp [h1], ?_⟩
        intro m hm hne
        cases m with
        | nil => exact absurd rfl hne
        | cons a m' =>
          have hcons := List.cons_prefix_cons.mp hm
          obtain ⟨rfl, hm'⟩ := hcons
          by_cases hm0 : m' = []
          · subst hm0; exact isDir_iff.mpr hn
          · have := h2 m' hm' hm0
            simpa using this

/-- `locate` of a non-empty all-normal list: its own names, provided the directory part resolves -/
theorem locate_snoc (fs : FS β) (l : List Name) (s : Name) :
    locate fs ((l ++ [s]).map Comp.normal) =
      match walk fs [] (l.map Comp.normal) with
      | .error e => .error e
      | .ok d => .ok (d ++ [s], false) := by
  unfold locate
  simp [List.map_append, List.getLast?_append]
  rfl

theorem locate_normal {fs : FS β} {l : List Name} {s : Name} {p : APath} {b : Bool}
    (h : locate fs ((l ++ [s]).map Comp.normal) = .ok (p, b)) :
    p = l ++ [s] ∧ b = false ∧ ∀ m, m <+: l → m ≠ [] → isDir fs m = true := by
  rw [locate_snoc] at h
  cases hw : walk fs [] (l.map Comp.normal) with
  | error e => simp [hw] at h
  | ok d =>
    simp only [hw] at h
    obtain ⟨h1, h2⟩ := walk_normal fs l [] d hw
    simp only [List.nil_append] at h1 h2
    cases h
    exact ⟨by rw [h1], rfl, h2⟩

/-! ### what a successful primitive changes (all-normal paths) -/

theorem mkdir_normal {fs fs' : FS β} {l : List Name} {s : Name}
    (h : mkdir fs ((l ++ [s]).map Comp.normal) = .ok fs') :
    node fs (l ++ [s]) = none ∧ fs' = set fs (l ++ [s]) .dir ∧ ∀ m, m <+: l → m ≠ [] → isDir fs m = true := by
  unfold mkdir at h
  cases hl : locate fs ((l ++ [s]).map Comp.normal) with
  | error e => rw [hl] at h; simp at h
  | ok pb =>
    obtain ⟨p, b⟩ := pb
    obtain ⟨rfl, rfl, hd⟩ := locate_normal hl
    rw [hl] at h; simp only at h
    cases hn : node fs (l ++ [s]) with
    | none => simp [hn] at h; exact ⟨rfl, h.symm, hd⟩
    | some n => simp [hn] at h

theorem writeFile_normal {fs fs' : FS β} {l : List Name} {s : Name} {b : β}
    (h : writeFile fs ((l ++ [s]).map Comp.normal) b = .ok fs') :
    isDir fs (l ++ [s]) = false ∧ fs' = set fs (l ++ [s]) (.file b) ∧ ∀ m, m <+: l → m ≠ [] → isDir fs m = true := by
  unfold writeFile at h
  cases hl : locate fs ((l ++ [s]).map Comp.normal) with
  | error e => rw [hl] at h; simp at h
  | ok pb =>
    obtain ⟨p, b'⟩ := pb
    obtain ⟨rfl, rfl, hd⟩ := locate_normal hl
    rw [hl] at h; simp only at h
    cases hn : isDir fs (l ++ [s]) with
    | true => simp [hn] at h
    | false => simp [hn] at h; exact ⟨rfl, h.symm, hd⟩

theorem readFile_normal {fs : FS β} {l : List Name} {s : Name} {b : β}
    (h : readFile fs ((l ++ [s]).map Comp.normal) = .ok b) :
    node fs (l ++ [s]) = some (.file b) ∧ ∀ m, m <+: l → m ≠ [] → isDir fs m = true := by
  unfold readFile at h
  cases hl : locate fs ((l ++ [s]).map Comp.normal) with
  | error e => rw [hl] at h; simp at h
  | ok pb =>
    obtain ⟨p, b'⟩ := pb
    obtain ⟨rfl, rfl, hd⟩ := locate_normal hl
    rw [hl] at h; simp only at h
    cases hn : node fs (l ++ [s]) with
    | none => simp [hn] at h
    | some n =>
      cases n with
      | dir => simp [hn] at h
      | file c => simp [hn] at h; exact ⟨by rw [h], hd⟩

theorem isDirAt_normal {fs : FS β} {l : List Name} {s : Name}
    (h : isDirAt fs ((l ++ [s]).map Comp.normal) = true) :
    isDir fs (l ++ [s]) = true ∧ ∀ m, m <+: l → m ≠ [] → isDir fs m = true := by
  unfold isDirAt at h
  cases hl : locate fs ((l ++ [s]).map Comp.normal) with
  | error e => rw [hl] at h; simp at h
  | ok pb =>
    obtain ⟨p, b'⟩ := pb
    obtain ⟨rfl, rfl, hd⟩ := locate_normal hl
    rw [hl] at h; simp only at h
    exact ⟨h, hd⟩

/-- one step never changes a path other than the one it names -/
theorem lookup_set_ne (fs : FS β) {p q : APath} (n : Node β) (h : p ≠ q) :
    lookup (set fs p n) q = lookup fs q := by simp [lookup_set, h]

/-! ### `mkdirAll` on an all-normal path (given reversed: `rl.reverse` is the path) -/

/-- (A) every path whose entry changed is a non-empty prefix of the path, did not exist, and is a directory
    afterwards — also when the call fails half-way -/
theorem mkdirAllRev_changes (rl : List Name) :
    ∀ (fs : FS β) (q : APath),
      lookup (mkdirAllRev fs (rl.map Comp.normal)).1 q ≠ lookup fs q →
      q <+: rl.reverse ∧ q ≠ [] ∧ node fs q = none ∧ lookup (mkdirAllRev fs (rl.map Comp.normal)).1 q = some .dir := by
  induction rl with
  | nil => intro fs q h; simp [mkdirAllRev] at h
  | cons s r ih =>
    intro fs q h
    have hcs : (Comp.normal s :: r.map Comp.normal).reverse = (r.reverse ++ [s]).map Comp.normal := by
      simp [List.map_reverse]
    simp only [List.map, mkdirAllRev, hcs] at h ⊢
    have hne : r.reverse ++ [s] ≠ [] := by simp
    cases hm : mkdir fs ((r.reverse ++ [s]).map Comp.normal) with
    | ok fs' =>
      simp only [hm] at h ⊢
      obtain ⟨hnone, rfl, _⟩ := mkdir_normal hm
      by_cases hq : r.reverse ++ [s] = q
      · subst hq
        exact ⟨by simp, hne, hnone, by simp [lookup_set]⟩
      · exact absurd (lookup_set_ne fs _ hq) h
    | error e =>
      by_cases he : e = IoErr.notFound
      · subst he
        simp only [hm] at h ⊢
        have ih' := ih fs
        generalize hrec : mkdirAllRev fs (r.map Comp.normal) = rec at h ih' ⊢
        obtain ⟨fs1, e1⟩ := rec
        have hpre : ∀ q, q <+: r.reverse → q <+: (s :: r).reverse := by
          intro q hq; simp only [List.reverse_cons]; exact hq.trans (List.prefix_append _ _)
        cases e1 with
        | some x =>
          simp only at h ⊢
          obtain ⟨a, b, c, d⟩ := ih' q h
          exact ⟨hpre q a, b, c, d⟩
        | none =>
          simp only at h ih' ⊢
          cases hm2 : mkdir fs1 ((r.reverse ++ [s]).map Comp.normal) with
          | ok fs2 =>
            simp only [hm2] at h ⊢
            obtain ⟨hnone, rfl, _⟩ := mkdir_normal hm2
            by_cases hq : r.reverse ++ [s] = q
            · subst hq
              refine ⟨by simp, hne, ?_, by simp [lookup_set]⟩
              -- the path itself was not touched by the recursive call (it is longer than every prefix of the parent)
              have hsame : lookup fs1 (r.reverse ++ [s]) = lookup fs (r.reverse ++ [s]) := by
                apply Classical.byContradiction
                intro hc
                obtain ⟨a, _, _, _⟩ := ih' _ hc
                have := a.length_le
                simp only [List.length_append, List.length_reverse, List.length_singleton, List.length_cons, List.length_nil] at this
                omega
              rw [node_of_ne_nil _ hne] at hnone ⊢
              rw [← hsame]; exact hnone
            · rw [lookup_set_ne fs1 _ hq] at h ⊢
              obtain ⟨a, b, c, d⟩ := ih' q h
              exact ⟨hpre q a, b, c, d⟩
          | error e2 =>
            simp only [hm2] at h ⊢
            have hfst : ∀ (c : Bool) (x : FS β) (o : Option IoErr), (if c then (x, none) else (x, o)).1 = x := by
              intro c x o; cases c <;> rfl
            rw [hfst] at h ⊢
            obtain ⟨a, b, c, d⟩ := ih' q h
            exact ⟨hpre q a, b, c, d⟩
      · exfalso
        apply h
        cases e <;> first | exact absurd rfl he | (simp only [hm]; split <;> rfl)

/-- (B) after a successful `mkdirAll` every non-empty prefix of the path is a directory -/
theorem mkdirAllRev_dirs (rl : List Name) (fs : FS β)
    (h : (mkdirAllRev fs (rl.map Comp.normal)).2 = none) :
    ∀ m, m <+: rl.reverse → m ≠ [] → isDir (mkdirAllRev fs (rl.map Comp.normal)).1 m = true := by
  cases rl with
  | nil => intro m hm hne; simp at hm; exact absurd hm hne
  | cons s r =>
    have hcs : (Comp.normal s :: r.map Comp.normal).reverse = (r.reverse ++ [s]).map Comp.normal := by
      simp [List.map_reverse]
    have hne : r.reverse ++ [s] ≠ [] := by simp
    -- after a successful `mkdir` of the path, or with the path already a directory, all prefixes are directories
    have key1 : ∀ (g g' : FS β), mkdir g ((r.reverse ++ [s]).map Comp.normal) = .ok g' →
        ∀ m, m <+: (s :: r).reverse → m ≠ [] → isDir g' m = true := by
      intro g g' hm m hpre hmne
      obtain ⟨_, rfl, hd⟩ := mkdir_normal hm
      simp only [List.reverse_cons] at hpre
      by_cases heq : m = r.reverse ++ [s]
      · subst heq; rw [isDir_iff, node_set _ _ _ _ hne]; simp
      · have hm' : m <+: r.reverse := by
          rcases List.prefix_concat_iff.mp hpre with h1 | h1
          · exact absurd h1 heq
          · exact h1
        have := hd m hm' hmne
        rw [isDir_iff] at this ⊢
        rw [node_set _ _ _ _ hne]
        have hneq : ¬ r.reverse ++ [s] = m := fun e => heq e.symm
        simp [hneq, this]
    have key2 : ∀ (g : FS β), isDirAt g ((r.reverse ++ [s]).map Comp.normal) = true →
        ∀ m, m <+: (s :: r).reverse → m ≠ [] → isDir g m = true := by
      intro g hd m hpre hmne
      obtain ⟨h1, h2⟩ := isDirAt_normal hd
      simp only [List.reverse_cons] at hpre
      rcases List.prefix_concat_iff.mp hpre with h3 | h3
      · rw [h3]; exact h1
      · exact h2 m h3 hmne
    simp only [List.map, mkdirAllRev, hcs] at h ⊢
    cases hm : mkdir fs ((r.reverse ++ [s]).map Comp.normal) with
    | ok fs' => simp only [hm]; exact key1 fs fs' hm
    | error e =>
      by_cases he : e = IoErr.notFound
      · subst he
        simp only [hm] at h ⊢
        generalize hrec : mkdirAllRev fs (r.map Comp.normal) = rec at h ⊢
        obtain ⟨fs1, e1⟩ := rec
        cases e1 with
        | some x => simp at h
        | none =>
          simp only at h ⊢
          cases hm2 : mkdir fs1 ((r.reverse ++ [s]).map Comp.normal) with
          | ok fs2 => simp only [hm2]; exact key1 fs1 fs2 hm2
          | error e2 =>
            simp only [hm2] at h ⊢
            have hform : (List.map Comp.normal r).reverse ++ [Comp.normal s] = List.map Comp.normal (r.reverse ++ [s]) := by
              simp [List.map_reverse]
            try simp only [hform] at h ⊢
            cases hd : isDirAt fs1 ((r.reverse ++ [s]).map Comp.normal) with
            | true => simp only [hd, if_true]; exact key2 fs1 hd
            | false => rw [hd] at h; simp at h
      · simp only [hm] at h ⊢
        have hform : (List.map Comp.normal r).reverse ++ [Comp.normal s] = List.map Comp.normal (r.reverse ++ [s]) := by
          simp [List.map_reverse]
        try simp only [hform] at h ⊢
        cases hd : isDirAt fs ((r.reverse ++ [s]).map Comp.normal) with
        | true => simp only [hd, if_true]; exact key2 fs hd
        | false => rw [hd] at h; simp at h

end AbsFS
