/-!
# Strings as character lists, association lists keyed by them, code-point order (core Lean only)

Shared vocabulary of the kerning / groups models (C15, C10).  A Rust `BTreeMap<Name, V>` is an
association list; `lookup` returns the first match, `insert` removes older entries of the key, so a
list built with `insert` never holds a key twice.  `strLt` is the order of Rust's `str` (`Ord` on
UTF-8 bytes = lexicographic order of the code points).
-/
namespace StrMap

abbrev Str := List Char

def lookup {β : Type} (k : Str) : List (Str × β) → Option β
  | [] => none
  | (k', v) :: r => if k' = k then some v else lookup k r

def hasKey {β : Type} (k : Str) (m : List (Str × β)) : Bool := (lookup k m).isSome

def keys {β : Type} (m : List (Str × β)) : List Str := m.map (·.1)

def erase {β : Type} (k : Str) (m : List (Str × β)) : List (Str × β) := m.filter (fun e => e.1 ≠ k)

/-- `BTreeMap::insert`: the new value replaces an older one -/
def insert {β : Type} (k : Str) (v : β) (m : List (Str × β)) : List (Str × β) := (k, v) :: erase k m

/-- Rust `str::cmp` (byte order of UTF-8 = code-point order) -/
def strLt : Str → Str → Bool
  | [], [] => false
  | [], _ :: _ => true
  | _ :: _, [] => false
  | a :: as, b :: bs => if a.toNat < b.toNat then true else if a.toNat = b.toNat then strLt as bs else false

/-- insert `x` before the first element that is not smaller -/
def insertPos (x : Str) : List Str → List Str
  | [] => [x]
  | y :: ys => if strLt y x then y :: insertPos x ys else x :: y :: ys

/-- add `x` to a sorted duplicate-free list (a `BTreeSet::insert`) -/
def setInsert (x : Str) (l : List Str) : List Str := if l.contains x then l else insertPos x l

/-- the sorted duplicate-free list of the elements of `l` (iteration order of a `BTreeSet`) -/
def sortDedup (l : List Str) : List Str := l.foldr setInsert []

/-- sort an association list by key (keys assumed distinct) -/
def insertEntry {β : Type} (e : Str × β) : List (Str × β) → List (Str × β)
  | [] => [e]
  | y :: ys => if strLt y.1 e.1 then y :: insertEntry e ys else e :: y :: ys

def sortEntries {β : Type} (m : List (Str × β)) : List (Str × β) := m.foldr insertEntry []

/-- `str::replace(pat, "")`: remove all non-overlapping occurrences of `pat`, scanning left to
    right; text that only becomes an occurrence after a removal is not removed.
    `skip` = characters of the current occurrence still to drop. -/
def removeAux (pat : Str) : Nat → Str → Str
  | _, [] => []
  | skip + 1, _ :: cs => removeAux pat skip cs
  | 0, c :: cs =>
    if pat.isPrefixOf (c :: cs) && !pat.isEmpty then removeAux pat (pat.length - 1) cs
    else c :: removeAux pat 0 cs

def removeAll (pat s : Str) : Str := removeAux pat 0 s

/-- `str::len()`: length in UTF-8 bytes -/
def byteLen (s : Str) : Nat := (s.map Char.utf8Size).sum

end StrMap
