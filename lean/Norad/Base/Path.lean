/-!
# Path model (core Lean only), following `std::path::Components` on Unix

A path string is mapped to `(absolute?, components)`; `Comp = normal s | cur | parent`.
Repeated separators and interior `.` are dropped, a leading `.` of a relative path is kept,
`..` is always kept.  `parent`, `ancestors`, `fileName`, `startsWith`, `join` are defined on the
component form, as `std::path::Path` does; equality of paths (and hence `HashMap<PathBuf, _>`
look-up) is equality of the component form.

Validated against `std::path` by the harness stream `C16path` (all strings over `{a,b,.,/}` up to
length 6: components, parent, file_name, is_absolute; starts_with and join on all pairs up to length 3
and on every string with each of its ancestors).
-/
namespace Path

inductive Comp
  | normal (s : List Char)
  | cur
  | parent
  deriving DecidableEq, Repr

/-- component form of a path: `abs` = has a root (`/…`), `comps` = the components after the root -/
structure P where
  abs : Bool
  comps : List Comp
  deriving DecidableEq, Repr

/-- split at every `/` (pieces may be empty) -/
def splitSlash : List Char → List (List Char)
  | [] => [[]]
  | c :: r =>
    if c = '/' then [] :: splitSlash r
    else match splitSlash r with
      | [] => [[c]]        -- unreachable: `splitSlash` never returns `[]`
      | p :: ps => (c :: p) :: ps

/-- one piece after the first position: `""` and `.` vanish -/
def compOfPiece (p : List Char) : Option Comp :=
  if p = [] then none
  else if p = ['.'] then none
  else if p = ['.', '.'] then some .parent
  else some (.normal p)

/-- the first piece of a relative path keeps a `.` -/
def firstComp (p : List Char) : Option Comp :=
  if p = ['.'] then some .cur else compOfPiece p

/-- components of a relative path string -/
def relComps (s : List Char) : List Comp :=
  match splitSlash s with
  | [] => []        -- unreachable
  | p :: ps => (firstComp p).toList ++ ps.filterMap compOfPiece

def parse (s : List Char) : P :=
  if s.head? = some '/' then ⟨true, (splitSlash s).filterMap compOfPiece⟩ else ⟨false, relComps s⟩

/-- `Path::as_os_str().is_empty()` in component form (see `parse_eq_empty_iff`) -/
def P.isEmpty (p : P) : Bool := !p.abs && p.comps.isEmpty

/-- `Path::parent` : the path without its last component; `None` for `""` and `/` -/
def P.parent? (p : P) : Option P :=
  if p.comps.isEmpty then none else some ⟨p.abs, p.comps.dropLast⟩

/-- `Path::ancestors().skip(1)`: every proper prefix, longest first -/
def properPrefixes : List Comp → List (List Comp)
  | [] => []
  | c :: r => ((properPrefixes r).map (c :: ·)) ++ [[]]

def P.properAncestors (p : P) : List P := (properPrefixes p.comps).map (⟨p.abs, ·⟩)

/-- `Path::ancestors()` -/
def P.ancestors (p : P) : List P := p :: p.properAncestors

/-- `Path::file_name`: the last component when it is a normal one -/
def P.fileName? (p : P) : Option (List Char) :=
  match p.comps.getLast? with
  | some (.normal s) => some s
  | _ => none

/-- all components, the root included (as `Components` yields them) -/
inductive FullComp | root | c (x : Comp)
  deriving DecidableEq

def P.full (p : P) : List FullComp := (if p.abs then [FullComp.root] else []) ++ p.comps.map .c

/-- `Path::starts_with` -/
def P.startsWith (p base : P) : Bool := base.full.isPrefixOf p.full

/-- `Path::join`: an absolute right side replaces; otherwise the component lists are appended, and a
    leading `.` of the right side becomes an interior one (dropped) unless the left side is empty -/
def P.join (a b : P) : P :=
  if b.abs then b
  else if a.isEmpty then b
  else ⟨a.abs, a.comps ++ (match b.comps with | .cur :: r => r | l => l)⟩

/-- all components are `normal` -/
def P.allNormal (p : P) : Bool := p.comps.all fun c => match c with | .normal _ => true | _ => false

/-- the raw string names a directory syntactically (`a/`, `a/.`): its last piece is `""` or `.`
    although the path has components; `std::fs::read`/`File::create` on such a path fail for a
    plain file -/
def dirish (s : List Char) : Bool :=
  match (splitSlash s).getLast? with
  | some p => (p = [] || p = ['.']) && (splitSlash s).length ≥ 2
  | none => false

/-- rendering used by the protocol: `/` for the root, components joined by `/` -/
def Comp.render : Comp → List Char
  | .normal s => s
  | .cur => ['.']
  | .parent => ['.', '.']

def P.render (p : P) : String :=
  (if p.abs then "/" else "") ++ "/".intercalate (p.comps.map fun c => String.ofList c.render)

end Path
