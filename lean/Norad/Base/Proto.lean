/-!
# Line-protocol helpers shared by all driver modules (core Lean only)
-/
namespace Proto

/-- what the driver reports for one protocol line -/
structure Verdict where
  /-- model output equals the implementation's observation (at the property's abstraction level) -/
  agree : Bool
  /-- violated specification rules, each `rule` or `rule:feature,feature`; empty = spec holds of the
      implementation's own observation -/
  spec : List String := []
  /-- branch tags, used for the input-distribution statistics and the non-triviality count -/
  tags : List String := []
  /-- the model's output, for diagnosis -/
  model : String := ""

def hexVal (c : Char) : Option Nat :=
  if '0' ≤ c ∧ c ≤ '9' then some (c.toNat - '0'.toNat)
  else if 'a' ≤ c ∧ c ≤ 'f' then some (c.toNat - 'a'.toNat + 10)
  else if 'A' ≤ c ∧ c ≤ 'F' then some (c.toNat - 'A'.toNat + 10)
  else none

def unhexBytes : List Char → Option (List UInt8)
  | [] => some []
  | [_] => none
  | a :: b :: r =>
    match hexVal a, hexVal b, unhexBytes r with
    | some x, some y, some t => some (UInt8.ofNat (x * 16 + y) :: t)
    | _, _, _ => none

/-- hex token → bytes; `-` is the empty string -/
def unhex (s : String) : Option (List UInt8) :=
  if s = "-" then some [] else unhexBytes s.toList

/-- hex token → characters (UTF-8 decoded) -/
def unhexStr (s : String) : Option (List Char) :=
  match unhex s with
  | none => none
  | some bs =>
    match String.fromUTF8? (ByteArray.mk bs.toArray) with
    | some str => some str.toList
    | none => none

def hexDigit (n : Nat) : Char :=
  if n < 10 then Char.ofNat ('0'.toNat + n) else Char.ofNat ('a'.toNat + n - 10)

def hexOfBytes (bs : List UInt8) : String :=
  if bs.isEmpty then "-" else
  String.ofList (bs.flatMap fun b => [hexDigit (b.toNat / 16), hexDigit (b.toNat % 16)])

def hexOfStr (s : List Char) : String := hexOfBytes (String.ofList s).toUTF8.toList

/-- split a protocol line into input tokens and observation tokens at `=>` -/
def splitLine (line : String) : List String × List String :=
  let toks := (line.trimAscii.toString.splitOn " ").filter (· ≠ "")
  let inp := toks.takeWhile (· ≠ "=>")
  let obs := (toks.dropWhile (· ≠ "=>")).drop 1
  (inp, obs)

end Proto
