import Norad.Model.C16
/-!
# C16 — data and image stores keep their invariants and their bytes (property theorems)
-/
namespace C16
open Path

/-- a rejected insertion leaves the store unchanged -/
theorem rejected_insert_unchanged (s : Store) (k : Key) (b : Bytes) (e : Err)
    (h : (insert s k b).2 = .error e) : (insert s k b).1 = s := by
  unfold insert at h ⊢
  split
  · rfl
  · rename_i hv; simp [hv] at h

end C16
