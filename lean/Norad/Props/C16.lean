import Norad.Lemmas.C16
import Norad.Lemmas.C16Stable
import Norad.Lemmas.C16Save
import Norad.Lemmas.C16List
import Norad.Lemmas.C16Order
import Norad.Generated.StoreConsts
import Norad.Lemmas.C16Plan
import Norad.Lemmas.C16Iter
/-!
# C16 — data and image stores keep their invariants and their bytes

Property theorems only.  The model (`Model/C16.lean`) follows the code after the `fix:` commit that
made the file-under-file rule symmetric; `Inv` (`Lemmas/C16.lean`) is: keys non-empty ∧ relative ∧
pairwise distinct by components ∧ prefix-free ∧ (images) single component ∧ loaded image contents
start with the PNG signature.

The clause "keys consist of normal components only" is NOT part of `Inv`: it is false of the code
(`store_accepts_dot_components_counterexample`), which is recorded in `known_findings.txt`; the
guarded version is `normal_keys_partial`.
-/
namespace C16
open Path StoreOrder StorePlan AbsFS FontSave

deriving instance DecidableEq for Except

/-! ## the invariant under every history -/

/-- every operation (environment steps included) preserves the invariant -/
theorem store_inv_step (st : State) (op : Op) (h : Inv st.store) : Inv (step st op).1.store := by
  cases op with
  | insert k b => exact inv_insert st.store k b h
  | remove k => exact inv_remove st.store k h
  | get k => exact inv_get st.store st.disk k h
  | clear => exact inv_clear st.store
  | iter => exact inv_iterFrom st.store st.disk _ h
  | keys => exact h
  | isEmpty => exact h
  | setDisk d => exact h

/-- **C16, invariant part**: under any sequence of store operations and disk changes -/
theorem store_inv_reachable (st : State) (ops : List Op) (h : Inv st.store) : Inv (run st ops).store := by
  induction ops generalizing st with
  | nil => exact h
  | cons op r ih => exact ih _ (store_inv_step st op h)

/-- … in particular from the empty store of either kind, whatever the disk does -/
theorem store_inv_from_empty (kind : Kind) (d : Disk) (ops : List Op) :
    Inv (run ⟨⟨kind, []⟩, d⟩ ops).store :=
  store_inv_reachable _ ops (inv_empty kind)

/-- the invariant in the words of the statement, on raw key strings: non-empty, not starting with
    `/`, no key a proper component-wise prefix of another, image keys a single component -/
theorem inv_in_words (s : Store) (h : Inv s) :
    (∀ k ∈ keys s, k ≠ [] ∧ k.head? ≠ some '/') ∧
    (∀ a ∈ keys s, ∀ b ∈ keys s, (parse b).startsWith (parse a) = true → parse a = parse b) ∧
    (s.kind = .image → ∀ k ∈ keys s, (parse k).comps.length = 1) ∧
    (s.kind = .image → ∀ e ∈ s.items, ∀ b, e.2 = .loaded b → pngSig <+: b) := by
  refine ⟨fun k hk => ⟨h.keysOK.nonEmpty k hk, ?_⟩, h.keysOK.prefixFree, h.keysOK.imageFlat, h.imagePng⟩
  have := h.keysOK.relative k hk
  rw [parse_abs] at this
  simpa using this

/-- a rejected insertion leaves the store unchanged -/
theorem rejected_insert_unchanged (s : Store) (k : Key) (b : Bytes) (e : Err)
    (h : (insert s k b).2 = .error e) : (insert s k b).1 = s := by
  unfold insert at h ⊢
  split
  · rfl
  · rename_i hv; simp [hv] at h

/-- the symmetric file-under-file rule (after the fix): a key that is a proper ancestor of a stored
    key is refused, as is a key below a stored key -/
theorem insert_refuses_both_directions (s : Store) (k : Key) (b : Bytes) (e : Key × Cell)
    (hs : s.kind = .data) (he : e ∈ s.items) (hne : e.1 ≠ [])
    (hrel : (parse e.1).abs = false) (hk : (parse k).abs = false)
    (hneq : parse e.1 ≠ parse k)
    (hpre : (parse e.1).startsWith (parse k) = true ∨ (parse k).startsWith (parse e.1) = true) :
    ∃ err, (insert s k b).2 = .error err := by
  unfold insert
  cases hv : validate s.kind k s.items b with
  | error err => exact ⟨err, rfl⟩
  | ok u =>
    exfalso
    rw [hs] at hv
    obtain ⟨_, h2, h3, h4⟩ := validateData_ok hv
    rcases hpre with hpre | hpre
    · unfold descendantInStore at h4
      rw [List.any_eq_false] at h4
      have := h4 e he
      simp [hpre, hneq] at this
    · have hp := (startsWith_rel hrel hk).1 hpre
      have hc : (parse e.1).comps ≠ (parse k).comps := fun hc => hneq (P.ext' (hrel.trans hk.symm) hc)
      have hmem : parse e.1 ∈ (parse k).properAncestors := mem_properAncestors.2 ⟨hrel.trans hk.symm, hp, hc⟩
      have hnotEmpty : (parse e.1).isEmpty = false := by
        rw [← Bool.not_eq_true, parse_isEmpty_iff]; exact hne
      have : ancestorInStore s.items (parse k) = true := by
        unfold ancestorInStore
        rw [List.any_eq_true]
        exact ⟨parse e.1, hmem, by simp [hnotEmpty, hasKey_iff]; exact ⟨e.1, ⟨e.2, he⟩, rfl⟩⟩
      rw [h3] at this; exact absurd this (by simp)

/-! ## stores listed from a directory tree (`Store::new`, `try_list_contents`) -/

/-- **a loaded store satisfies the invariant**: for a well-formed listing (what `read_dir`, followed
    through plain directories, enumerates — `ListingWF`), a store that `Store::new` returns satisfies
    `Inv`, and all its cells are lazy.  Which entries the two walks reach and refuse is `listData` /
    `listImages`; the visiting order is immaterial because the result is collected into a map. -/
theorem newStore_inv (kind : Kind) (t : Listing) (s : Store) (hwf : ListingWF t)
    (h : newStore kind t = .ok s) : Inv s ∧ ∀ e ∈ s.items, e.2 = .notLoaded := by
  unfold newStore at h
  cases kind with
  | data =>
    simp only [listData] at h
    split at h
    · simp at h
    · rename_i ks hks
      split at hks
      · simp at hks
      · injection hks with hks
        injection h with h
        subst h; subst hks
        have hcells : ∀ e ∈ (List.map (fun k => (k, Cell.notLoaded))
            (List.map (fun e => keyOfNames e.1) (List.filter (fun e => e.2 == NodeKind.file) t))),
            e.2 = Cell.notLoaded := by
          intro e he
          obtain ⟨k, _, rfl⟩ := List.mem_map.1 he
          rfl
        refine ⟨⟨?_, ?_⟩, hcells⟩
        · have : keys ⟨Kind.data, List.map (fun k => (k, Cell.notLoaded))
              (List.map (fun e => keyOfNames e.1) (List.filter (fun e => e.2 == NodeKind.file) t))⟩
              = (List.filter (fun e => e.2 == NodeKind.file) t).map fun e => keyOfNames e.1 := by
            simp [keys, List.map_map, Function.comp]
          rw [this]
          exact keysOK_of_listing hwf List.filter_sublist
            (fun e he => by simpa using (List.mem_filter.1 he).2) (by simp)
        · intro hk; simp at hk
  | image =>
    simp only [listImages] at h
    split at h
    · simp at h
    · rename_i ks hks
      split at hks
      · simp at hks
      · rename_i hany
        injection hks with hks
        injection h with h
        subst h; subst hks
        have hcells : ∀ e ∈ (List.map (fun k => (k, Cell.notLoaded))
            (List.map (fun e => keyOfNames e.1) (List.filter (fun e => e.1.length == 1) t))),
            e.2 = Cell.notLoaded := by
          intro e he
          obtain ⟨k, _, rfl⟩ := List.mem_map.1 he
          rfl
        refine ⟨⟨?_, ?_⟩, hcells⟩
        · have : keys ⟨Kind.image, List.map (fun k => (k, Cell.notLoaded))
              (List.map (fun e => keyOfNames e.1) (List.filter (fun e => e.1.length == 1) t))⟩
              = (List.filter (fun e => e.1.length == 1) t).map fun e => keyOfNames e.1 := by
            simp [keys, List.map_map, Function.comp]
          rw [this]
          refine keysOK_of_listing hwf List.filter_sublist ?_ ?_
          · intro e he
            have hn : ¬ (List.filter (fun e => e.1.length == 1) t).any (fun e => e.2 != NodeKind.file) = true := hany
            rw [List.any_eq_true] at hn
            by_cases hf : e.2 = NodeKind.file
            · exact hf
            · exact absurd ⟨e, he, by simpa using hf⟩ hn
          · intro _ e he
            simpa using (List.mem_filter.1 he).2
        · intro _ e he b hb
          rw [hcells e he] at hb
          simp at hb

/-- the refusals of the two directory walks: a data tree holding a symbolic link anywhere, and an
    images directory holding a sub-directory or a symbolic link at its top level, are not listed -/
theorem listing_refusals (t : Listing) (e : List (List Char) × NodeKind) (he : e ∈ t) :
    (e.2 = .symlink → ∃ err, newStore .data t = .error err) ∧
    (e.1.length = 1 → e.2 ≠ .file → ∃ err, newStore .image t = .error err) := by
  constructor
  · intro hs
    have : t.any (fun e => e.2 == NodeKind.symlink) = true :=
      List.any_eq_true.2 ⟨e, he, by simp [hs]⟩
    exact ⟨.io, by simp [newStore, listData, this]⟩
  · intro hl hf
    have : (t.filter fun e => e.1.length == 1).any (fun e => e.2 != NodeKind.file) = true :=
      List.any_eq_true.2 ⟨e, List.mem_filter.2 ⟨he, by simp [hl]⟩, by simpa using hf⟩
    exact ⟨.subdir, by simp [newStore, listImages, this]⟩

/-- **the walks reach every plain file** (and nothing else): a data tree without symbolic links is
    listed, and every plain file at any depth becomes a key, whatever its name (hidden names
    included); an images directory whose top level holds plain files only is listed, and every one of
    them becomes a key.  Conversely every key of a listed store is the path of a plain file. -/
theorem listing_complete (t : Listing) :
    ((∀ e ∈ t, e.2 ≠ .symlink) → ∃ s, newStore .data t = .ok s ∧
        (∀ e ∈ t, e.2 = .file → keyOfNames e.1 ∈ keys s) ∧
        (∀ k ∈ keys s, ∃ e ∈ t, e.2 = .file ∧ k = keyOfNames e.1)) ∧
    ((∀ e ∈ t, e.1.length = 1 → e.2 = .file) → ∃ s, newStore .image t = .ok s ∧
        (∀ e ∈ t, e.1.length = 1 → keyOfNames e.1 ∈ keys s) ∧
        (∀ k ∈ keys s, ∃ e ∈ t, e.1.length = 1 ∧ e.2 = .file ∧ k = keyOfNames e.1)) := by
  constructor
  · intro h
    have hany : t.any (fun e => e.2 == NodeKind.symlink) = false := by
      rw [List.any_eq_false]; intro e he; simpa using h e he
    refine ⟨⟨.data, ((t.filter fun e => e.2 == NodeKind.file).map fun e => keyOfNames e.1).map
        fun k => (k, Cell.notLoaded)⟩, by simp [newStore, listData, hany], ?_, ?_⟩
    · intro e he hf
      simp only [keys, List.map_map, List.mem_map, Function.comp]
      exact ⟨e, List.mem_filter.2 ⟨he, by simp [hf]⟩, rfl⟩
    · intro k hk
      simp only [keys, List.map_map, List.mem_map, Function.comp] at hk
      obtain ⟨e, he, rfl⟩ := hk
      have := List.mem_filter.1 he
      exact ⟨e, this.1, by simpa using this.2, rfl⟩
  · intro h
    have hany : (t.filter fun e => e.1.length == 1).any (fun e => e.2 != NodeKind.file) = false := by
      rw [List.any_eq_false]; intro e he
      have := List.mem_filter.1 he
      simp [h e this.1 (by simpa using this.2)]
    refine ⟨⟨.image, ((t.filter fun e => e.1.length == 1).map fun e => keyOfNames e.1).map
        fun k => (k, Cell.notLoaded)⟩, by simp [newStore, listImages, hany], ?_, ?_⟩
    · intro e he hl
      simp only [keys, List.map_map, List.mem_map, Function.comp]
      exact ⟨e, List.mem_filter.2 ⟨he, by simp [hl]⟩, rfl⟩
    · intro k hk
      simp only [keys, List.map_map, List.mem_map, Function.comp] at hk
      obtain ⟨e, he, rfl⟩ := hk
      have := List.mem_filter.1 he
      have hl : e.1.length = 1 := by simpa using this.2
      exact ⟨e, this.1, hl, h e this.1 hl, rfl⟩


/-! ## laziness -/

/-- the first access to a lazy entry returns what the disk holds *at that moment* (validated), and
    nothing else: `Ok` bytes are the disk's bytes -/
theorem lazy_get_is_disk_at_first_access (s : Store) (disk : Disk) (k k0 : Key)
    (h : find? s.items k = some (k0, .notLoaded)) :
    (get s disk k).2 = some (cellResult (loadItem s.kind disk k s.items)) ∧
    ∀ b, (get s disk k).2 = some (.ok b) → disk k = some b := by
  have h1 : (get s disk k).2 = some (cellResult (loadItem s.kind disk k s.items)) := by
    unfold get; simp [h]
  refine ⟨h1, fun b hb => ?_⟩
  rw [h1] at hb
  cases hc : loadItem s.kind disk k s.items with
  | notLoaded => rw [hc] at hb; simp [cellResult] at hb
  | error e => rw [hc] at hb; simp [cellResult] at hb
  | loaded b' =>
    rw [hc] at hb; simp [cellResult] at hb; subst hb
    exact (loadItem_loaded hc).1

def Op.noAccess : Op → Bool
  | .get _ => false
  | .iter => false
  | _ => true

/-- operations that do not access contents never read the disk: the store they produce does not
    depend on what the disk was, so a later first access sees only the disk of its own moment -/
theorem no_access_ignores_disk (s : Store) (d₁ d₂ : Disk) (ops : List Op)
    (h : ∀ op ∈ ops, op.noAccess = true) :
    (run ⟨s, d₁⟩ ops).store = (run ⟨s, d₂⟩ ops).store := by
  induction ops generalizing s d₁ d₂ with
  | nil => rfl
  | cons op r ih =>
    have hr : ∀ op ∈ r, op.noAccess = true := fun o ho => h o (List.mem_cons_of_mem _ ho)
    have hop := h op (List.mem_cons_self ..)
    cases op with
    | get k => simp [Op.noAccess] at hop
    | iter => simp [Op.noAccess] at hop
    | insert k b => exact ih _ _ _ hr
    | remove k => exact ih _ _ _ hr
    | clear => exact ih _ _ _ hr
    | keys => exact ih _ _ _ hr
    | isEmpty => exact ih _ _ _ hr
    | setDisk d => exact ih _ _ _ hr

/-- a loaded or failed entry is served from the cell: the disk is not consulted again and the store
    does not change -/
theorem get_settled_ignores_disk (s : Store) (disk : Disk) (k k0 : Key) (c : Cell)
    (h : find? s.items k = some (k0, c)) (hc : c ≠ .notLoaded) :
    get s disk k = (s, some (cellResult c)) := by
  unfold get
  rw [h]
  cases c with
  | notLoaded => exact absurd rfl hc
  | loaded b => rfl
  | error e => rfl

/-- once an entry has been read (successfully or not), every later `get` of it returns the same
    result and leaves the store alone, under any interleaving of read-only operations (`get` of any
    key, `iter`, `keys`, `is_empty`) and arbitrary changes of the disk -/
theorem get_stable_afterwards (s : Store) (disk : Disk) (k : Key) (r : Except Err Bytes)
    (h : (get s disk k).2 = some r) (ops : List Op) (hro : ∀ op ∈ ops, op.readOnly = true) :
    get (run ⟨(get s disk k).1, disk⟩ ops).store (run ⟨(get s disk k).1, disk⟩ ops).disk k
      = ((run ⟨(get s disk k).1, disk⟩ ops).store, some r) := by
  obtain ⟨c, hs, hr⟩ := get_settles h
  obtain ⟨⟨k0, hf⟩, hne⟩ := settled_run (st := ⟨(get s disk k).1, disk⟩) ops hro hs
  rw [get_settled_ignores_disk _ _ k k0 c hf hne, hr]

/-! ## save -/

/-- a save that reaches the file system has forced every entry successfully; an entry that is (or
    turns out) unreadable or invalid makes the outcome `refused`, which carries no effect -/
theorem error_entry_blocks_save_before_effects (data images : Store) (dd di : Disk) :
    (∀ st ws, saveStores data images dd di = (st, .effects ws) →
        (forceUntilError data dd (keys data)).2 = none ∧
        (forceUntilError images di (keys images)).2 = none) ∧
    (∀ k, (forceUntilError data dd (keys data)).2 = some k →
        (saveStores data images dd di).2 = .refused k) ∧
    (∀ k, (forceUntilError data dd (keys data)).2 = none →
        (forceUntilError images di (keys images)).2 = some k →
        (saveStores data images dd di).2 = .refused k) := by
  refine ⟨?_, ?_, ?_⟩
  · intro st ws h
    unfold saveStores at h
    split at h
    · simp at h
    · rename_i d1 hd
      split at h
      · simp at h
      · rename_i i1 hi
        exact ⟨by rw [hd], by rw [hi]⟩
  · intro k h
    unfold saveStores
    split
    · rename_i d1 k' hd; rw [hd] at h; simp at h; subst h; rfl
    · rename_i d1 hd; rw [hd] at h; simp at h
  · intro k h1 h2
    unfold saveStores
    split
    · rename_i d1 k' hd; rw [hd] at h1; simp at h1
    · split
      · rename_i i1 k' hi; rw [hi] at h2; simp at h2; subst h2; rfl
      · rename_i i1 hi; rw [hi] at h2; simp at h2

theorem writesOf_spec (s : Store) (ws : List WriteFile) (h : writesOf s = some ws) :
    ws.map (·.key) = keys s ∧ ∀ w ∈ ws, w.kind = s.kind ∧ (w.key, Cell.loaded w.bytes) ∈ s.items := by
  unfold writesOf at h
  unfold keys
  generalize s.items = items at h ⊢
  induction items generalizing ws with
  | nil => simp [writesOfItems] at h; subst h; simp
  | cons e r ih =>
    obtain ⟨k, c⟩ := e
    cases c with
    | notLoaded => simp [writesOfItems] at h
    | error x => simp [writesOfItems] at h
    | loaded b =>
      simp only [writesOfItems] at h
      cases hr : writesOfItems s.kind r with
      | none => simp [hr] at h
      | some ws' =>
        simp only [hr, Option.some.injEq] at h
        subst h
        obtain ⟨i1, i2⟩ := ih ws' hr
        refine ⟨by simp [i1], ?_⟩
        intro w hw
        rcases List.mem_cons.1 hw with rfl | hw
        · exact ⟨rfl, List.mem_cons_self ..⟩
        · obtain ⟨j1, j2⟩ := i2 w hw
          exact ⟨j1, List.mem_cons_of_mem _ j2⟩

/-- when the save reaches the file system, it writes one file per entry, under the entry's own key,
    with exactly the bytes of the entry's cell (which `get` returns) -/
theorem save_writes_verbatim (data images : Store) (dd di : Disk) (d1 i1 : Store)
    (ws : List WriteFile) (h : saveStores data images dd di = ((d1, i1), .effects ws)) :
    ws.map (·.key) = keys d1 ++ keys i1 ∧
    ∀ w ∈ ws, (w.kind = d1.kind ∧ (w.key, Cell.loaded w.bytes) ∈ d1.items) ∨
              (w.kind = i1.kind ∧ (w.key, Cell.loaded w.bytes) ∈ i1.items) := by
  unfold saveStores at h
  split at h
  · simp at h
  · split at h
    · simp at h
    · split at h
      · rename_i a b ha hb
        simp only [Prod.mk.injEq, SaveOutcome.effects.injEq] at h
        obtain ⟨⟨rfl, rfl⟩, rfl⟩ := h
        obtain ⟨a1, a2⟩ := writesOf_spec _ a ha
        obtain ⟨b1, b2⟩ := writesOf_spec _ b hb
        refine ⟨by simp [a1, b1], ?_⟩
        intro w hw
        rcases List.mem_append.1 hw with hw | hw
        · exact Or.inl (a2 w hw)
        · exact Or.inr (b2 w hw)
      · simp at h

/-- the two `expect("internal error: should have been checked")` of `font.rs:529,548` are
    unreachable: under the invariant the cells written after the wipe are the cells forced before it,
    so when both forcing passes found no error every cell is `Loaded` and the outcome is `effects` or
    `refused`, never `panic` -/
theorem save_never_panics (data images : Store) (dd di : Disk) (hd : Inv data) (hi : Inv images) :
    (saveStores data images dd di).2 ≠ .panic := by
  unfold saveStores
  split
  · simp
  · rename_i d1 hfd
    split
    · simp
    · rename_i i1 hfi
      have h1 := writesOf_isSome_after_force hd hfd
      have h2 := writesOf_isSome_after_force hi hfi
      cases ha : writesOf d1 with
      | none => rw [ha] at h1; simp at h1
      | some a =>
        cases hb : writesOf i1 with
        | none => rw [hb] at h2; simp at h2
        | some b => simp

/-- `destination.parent().unwrap()` (`font.rs:531`) is unreachable: a relative key joined onto a
    directory path with at least one component (`<target>/data`) has a parent -/
theorem store_destination_has_parent (dir : P) (k : Key) (hdir : dir.comps ≠ [])
    (hrel : (parse k).abs = false) : ((dir.join (parse k)).parent?).isSome = true := by
  unfold P.join
  simp only [hrel, Bool.false_eq_true, ↓reduceIte]
  have he : dir.isEmpty = false := by
    unfold P.isEmpty
    cases hc : dir.comps with
    | nil => exact absurd hc hdir
    | cons a l => simp
  simp only [he, Bool.false_eq_true, ↓reduceIte, P.parent?]
  cases hc : dir.comps with
  | nil => exact absurd hc hdir
  | cons a l => simp

/-- under the invariant two different entries are never written to the same place, nor one below
    the other: their keys differ by components and neither is a path prefix of the other -/
theorem save_writes_never_collide (s : Store) (h : Inv s) (a b : Key) (ha : a ∈ keys s) (hb : b ∈ keys s)
    (hab : parse a ≠ parse b) :
    (parse b).startsWith (parse a) = false ∧ (parse a).startsWith (parse b) = false := by
  constructor
  · rw [← Bool.not_eq_true]; exact fun hc => hab (h.keysOK.prefixFree a ha b hb hc)
  · rw [← Bool.not_eq_true]; exact fun hc => hab (h.keysOK.prefixFree b hb a ha hc).symm

/-- **the tree a save leaves does not depend on the iteration order of the store** (C16, C10): under
    the invariant, for keys with normal components, the writes of phase 2 go to pairwise different,
    non-nested files, so any other order `ws₂` of the same writes (any other `HashMap` order) leaves
    the same tree, and every entry's file holds exactly the entry's bytes -/
theorem store_save_order_independent (s : Store) (h : Inv s)
    (hplain : ∀ k ∈ keys s, (parse k).allNormal = true) (base : Loc) (t : Tree)
    (ws₁ ws₂ : List WriteFile) (h1 : writesOf s = some ws₁) (hperm : ws₁.Perm ws₂) :
    writeAll t (storeWrites base ws₁) = writeAll t (storeWrites base ws₂) ∧
    ∀ w ∈ ws₂, writeAll t (storeWrites base ws₂) (destOf base w.key) = some (.file w.bytes) := by
  obtain ⟨hk, _⟩ := writesOf_spec s ws₁ h1
  have hd : (keys s).Pairwise (fun a b => parse a ≠ parse b) := by
    have := h.keysOK.distinct
    unfold List.Nodup at this
    rwa [List.pairwise_map] at this
  have hnn : (keys s).Pairwise (fun a b =>
      (destOf base a).isPrefixOf (destOf base b) = false ∧ (destOf base b).isPrefixOf (destOf base a) = false) :=
    hd.imp_of_mem (fun {a b} ha hb hab =>
      ⟨dest_nonNested h hplain base ha hb hab, dest_nonNested h hplain base hb ha (Ne.symm hab)⟩)
  have hpw : (storeWrites base ws₁).Pairwise NonNested := by
    unfold storeWrites
    rw [List.pairwise_map]
    rw [← hk, List.pairwise_map] at hnn
    exact hnn
  have hp2 : (storeWrites base ws₁).Perm (storeWrites base ws₂) := hperm.map _
  refine ⟨writes_order_independent t hp2 hpw, ?_⟩
  intro w hw
  have hpw2 : (storeWrites base ws₂).Pairwise NonNested :=
    (hp2.pairwise_iff (fun {a b} => NonNested.symm)).1 hpw
  exact writeAll_lookup t _ hpw2 (destOf base w.key, w.bytes) (List.mem_map.2 ⟨w, hw, rfl⟩)

/-! ## the same statements on the abstract file system of the FS family (C08/C09) -/

/-- the plan for any list of writes whose keys are keys of the store, pairwise different by components -/
theorem store_plan_runs_of (s : Store) (h : Inv s) (hplain : ∀ k ∈ keys s, (parse k).allNormal = true)
    (t : APath) (fs : FS StoreOrder.Bytes) (ws : List WriteFile)
    (hmemk : ∀ w ∈ ws, w.key ∈ keys s) (hdist : ws.Pairwise fun a b => parse a.key ≠ parse b.key)
    (hT : ∀ m, m <+: t → m ≠ [] → isDir fs m = true)
    (hfresh : ∀ q, (t ++ [storeDirName .data]) <+: q → node fs q = none) :
    (storeWrites (t ++ [storeDirName .data]) ws).Pairwise NonNested ∧
    ∃ fs', runEffs ((ws.map fun w => (parse w.key, w.bytes)).flatMap (planDataItem t)) fs = (none, fs') ∧
      treeOf fs' = writeAll (treeOf fs) (storeWrites (t ++ [storeDirName .data]) ws) := by
  let base := t ++ [storeDirName .data]
  -- the plan is the list of `itemEffs`
  have hplan : (ws.map fun w => (parse w.key, w.bytes)).flatMap (planDataItem t) =
      (storeWrites base ws).flatMap itemEffs := by
    unfold storeWrites
    have : ∀ l : List WriteFile, (∀ w ∈ l, w.key ∈ keys s) →
        (l.map fun w => (parse w.key, w.bytes)).flatMap (planDataItem t) =
        (l.map fun w => (destOf base w.key, w.bytes)).flatMap itemEffs := by
      intro l
      induction l with
      | nil => intro _; rfl
      | cons w r ih =>
        intro hm
        simp only [List.map_cons, List.flatMap_cons]
        rw [ih (fun x hx => hm x (List.mem_cons_of_mem _ hx)),
          planDataItem_eq t w.key w.bytes (h.keysOK.relative _ (hm w (List.mem_cons_self ..)))
            (hplain _ (hm w (List.mem_cons_self ..)))]
    exact this ws hmemk
  -- destinations are pairwise different and non-nested
  have hpw : (storeWrites base ws).Pairwise NonNested := by
    unfold storeWrites
    rw [List.pairwise_map]
    exact hdist.imp_of_mem (fun {a b} ha hb hab =>
      ⟨dest_nonNested h hplain base (hmemk a ha) (hmemk b hb) hab,
       dest_nonNested h hplain base (hmemk b hb) (hmemk a ha) (Ne.symm hab)⟩)
  -- every entry is ready on the initial file system
  have hready : ∀ w ∈ storeWrites base ws, Ready (treeOf fs) w := by
    intro w hw
    obtain ⟨x, hx, rfl⟩ := List.mem_map.1 hw
    have hkx := hmemk x hx
    have hbase : base <+: destOf base x.key := List.prefix_append _ _
    have hnames := namesOf_ne_nil (h.keysOK.nonEmpty _ hkx) (h.keysOK.relative _ hkx) (hplain _ hkx)
    refine ⟨by simp [destOf, base], ?_, ?_⟩
    · intro m hm b
      unfold below at hm
      simp only [Bool.and_eq_true, bne_iff_ne, ne_eq] at hm
      have hmp := List.isPrefixOf_iff_prefix.1 hm.1
      rcases List.prefix_or_prefix_of_prefix hmp hbase with h3 | h3
      · -- `m` is a prefix of `<target>/data`
        rcases List.prefix_concat_iff.1 h3 with h4 | h4
        · simp [treeOf, hfresh m (by rw [h4]; exact List.prefix_refl _)]
        · by_cases hm0 : m = []
          · subst hm0; simp [treeOf, node, conv]
          · have := isDir_iff.1 (hT m h4 hm0)
            simp [treeOf, this, conv]
      · simp [treeOf, hfresh m h3]
    · simp [treeOf, hfresh _ hbase]
  refine ⟨hpw, ?_⟩
  rw [hplan]
  exact plan_runs _ hpw fs hready

/-- **the store-writing plan of `Font::save` runs on the abstract file system of C08/C09 and leaves
    `StoreOrder.writeAll`'s tree**: for a data store under the invariant with normal-component keys, on a
    file system where the target directory exists and nothing is at or below `<target>/data` (the state
    after the wipe and the earlier writes), the effects `d.flatMap (planDataItem t)` of
    `FontSave.plan` all succeed, and the file system reached, seen as a tree, is
    `writeAll (treeOf fs) (storeWrites <target>/data ws)`. -/
theorem store_plan_runs (s : Store) (h : Inv s) (hplain : ∀ k ∈ keys s, (parse k).allNormal = true)
    (t : APath) (fs : FS StoreOrder.Bytes) (ws : List WriteFile) (h1 : writesOf s = some ws)
    (hT : ∀ m, m <+: t → m ≠ [] → isDir fs m = true)
    (hfresh : ∀ q, (t ++ [storeDirName .data]) <+: q → node fs q = none) :
    ∃ fs', runEffs ((ws.map fun w => (parse w.key, w.bytes)).flatMap (planDataItem t)) fs = (none, fs') ∧
      treeOf fs' = writeAll (treeOf fs) (storeWrites (t ++ [storeDirName .data]) ws) := by
  obtain ⟨hk, _⟩ := writesOf_spec s ws h1
  have hmemk : ∀ w ∈ ws, w.key ∈ keys s := fun w hw => hk ▸ List.mem_map.2 ⟨w, hw, rfl⟩
  have hdist : ws.Pairwise fun a b => parse a.key ≠ parse b.key := by
    have := h.keysOK.distinct
    unfold List.Nodup at this
    rw [← hk, List.map_map, List.pairwise_map] at this
    exact this
  exact (store_plan_runs_of s h hplain t fs ws hmemk hdist hT hfresh).2

/-- … hence, on that file system, every entry's file holds exactly the entry's bytes, and any other
    order `ws₂` of the same plan (another `HashMap` order) also runs and reaches the same tree:
    `save_writes_verbatim` and `store_save_order_independent` are statements about the file system the
    C08/C09 theorems use -/
theorem store_plan_eq_writeAll (s : Store) (h : Inv s) (hplain : ∀ k ∈ keys s, (parse k).allNormal = true)
    (t : APath) (fs : FS StoreOrder.Bytes) (ws₁ ws₂ : List WriteFile) (h1 : writesOf s = some ws₁)
    (hperm : ws₁.Perm ws₂)
    (hT : ∀ m, m <+: t → m ≠ [] → isDir fs m = true)
    (hfresh : ∀ q, (t ++ [storeDirName .data]) <+: q → node fs q = none) :
    ∃ fs₁ fs₂,
      runEffs ((ws₁.map fun w => (parse w.key, w.bytes)).flatMap (planDataItem t)) fs = (none, fs₁) ∧
      runEffs ((ws₂.map fun w => (parse w.key, w.bytes)).flatMap (planDataItem t)) fs = (none, fs₂) ∧
      treeOf fs₁ = treeOf fs₂ ∧
      ∀ w ∈ ws₂, node fs₂ (destOf (t ++ [storeDirName .data]) w.key) = some (.file w.bytes) := by
  obtain ⟨hk, _⟩ := writesOf_spec s ws₁ h1
  have hmemk : ∀ w ∈ ws₁, w.key ∈ keys s := fun w hw => hk ▸ List.mem_map.2 ⟨w, hw, rfl⟩
  have hdist : ws₁.Pairwise fun a b => parse a.key ≠ parse b.key := by
    have := h.keysOK.distinct
    unfold List.Nodup at this
    rw [← hk, List.map_map, List.pairwise_map] at this
    exact this
  have hmemk2 : ∀ w ∈ ws₂, w.key ∈ keys s := fun w hw => hmemk w (hperm.mem_iff.2 hw)
  have hdist2 : ws₂.Pairwise fun a b => parse a.key ≠ parse b.key :=
    (hperm.pairwise_iff (fun {a b} (hab : parse a.key ≠ parse b.key) => Ne.symm hab)).1 hdist
  obtain ⟨hpw1, f1, r1, t1⟩ := store_plan_runs_of s h hplain t fs ws₁ hmemk hdist hT hfresh
  obtain ⟨hpw2, f2, r2, t2⟩ := store_plan_runs_of s h hplain t fs ws₂ hmemk2 hdist2 hT hfresh
  refine ⟨f1, f2, r1, r2, ?_, ?_⟩
  · rw [t1, t2]
    exact writes_order_independent _ (hperm.map _) hpw1
  · intro w hw
    have := writeAll_lookup (treeOf fs) _ hpw2 (destOf (t ++ [storeDirName .data]) w.key, w.bytes)
      (List.mem_map.2 ⟨w, hw, rfl⟩)
    rw [← t2] at this
    simp only [treeOf] at this
    cases hn : node f2 (destOf (t ++ [storeDirName .data]) w.key) with
    | none => rw [hn] at this; simp at this
    | some n =>
      rw [hn] at this
      cases n with
      | dir => simp [conv] at this
      | file b => simp [conv] at this; rw [this]

/-- the images half of the plan for any list of writes whose keys are keys of the (image) store,
    pairwise different by components -/
theorem image_plan_runs_of (s : Store) (h : Inv s) (hkind : s.kind = .image)
    (hplain : ∀ k ∈ keys s, (parse k).allNormal = true)
    (t : APath) (fs : FS StoreOrder.Bytes) (ws : List WriteFile)
    (hmemk : ∀ w ∈ ws, w.key ∈ keys s) (hdist : ws.Pairwise fun a b => parse a.key ≠ parse b.key)
    (hT : ∀ m, m <+: t → m ≠ [] → isDir fs m = true)
    (hfresh : ∀ q, (t ++ [storeDirName .image]) <+: q → node fs q = none) :
    (storeWrites (t ++ [storeDirName .image]) ws).Pairwise NonNested ∧
    ∃ fs', runEffs (planImages t (ws.map fun w => (parse w.key, w.bytes))) fs = (none, fs') ∧
      treeOf fs' = writeAll (treeOf fs) (storeWrites (t ++ [storeDirName .image]) ws) := by
  let base := t ++ [storeDirName .image]
  have hbase0 : base ≠ [] := by simp [base]
  have hpw : (storeWrites base ws).Pairwise NonNested := by
    unfold storeWrites
    rw [List.pairwise_map]
    exact hdist.imp_of_mem (fun {a b} ha hb hab =>
      ⟨dest_nonNested h hplain base (hmemk a ha) (hmemk b hb) hab,
       dest_nonNested h hplain base (hmemk b hb) (hmemk a ha) (Ne.symm hab)⟩)
  refine ⟨hpw, ?_⟩
  cases hws : ws with
  | nil => exact ⟨fs, by simp [planImages, runEffs], rfl⟩
  | cons w0 r0 =>
    rw [← hws]
    have hwsne : ws ≠ [] := by rw [hws]; simp
    -- every destination is `<target>/images/<one name>`
    have hdest : ∀ w ∈ ws, ∃ n, destOf base w.key = base ++ [n] := by
      intro w hw
      have hkx := hmemk w hw
      have hlen := h.keysOK.imageFlat hkind _ hkx
      have hc := allNormal_comps (hplain _ hkx)
      have hl : (namesOf (parse w.key)).length = 1 := by
        have := congrArg List.length hc
        rw [List.length_map] at this
        unfold namesOf
        omega
      cases hn : namesOf (parse w.key) with
      | nil => rw [hn] at hl; simp at hl
      | cons n rest =>
        cases rest with
        | nil => exact ⟨n, by simp [destOf, hn]⟩
        | cons _ _ => rw [hn] at hl; simp at hl
    -- the plan is one `mkdir` and the list of plain writes
    have hplan : planImages t (ws.map fun w => (parse w.key, w.bytes)) =
        Eff.mkdir (tC base) :: (storeWrites base ws).map fun w => Eff.write (tC w.1) w.2 := by
      unfold planImages
      rw [if_neg (by simpa using hwsne)]
      have hsub : sub t "images" = tC base := by
        unfold sub tC; simp [base, images_name, List.map_append]
      rw [hsub]
      congr 1
      unfold storeWrites
      rw [List.map_map, List.map_map]
      apply List.map_congr_left
      intro w hw
      simp only [Function.comp]
      have := joinRel_sub t "images" w.key (h.keysOK.relative _ (hmemk w hw)) (hplain _ (hmemk w hw))
      rw [hsub, images_name] at this
      rw [this]
    -- the `mkdir`
    have hmk : mkdir fs (tC base) = .ok (AbsFS.set fs base .dir) :=
      mkdir_normal_ok (l := t) (s := storeDirName .image) hT (hfresh base (List.prefix_refl _))
    let fs0 := AbsFS.set fs base (Node.dir : Node StoreOrder.Bytes)
    have hready : ∀ w ∈ storeWrites base ws, ReadyW fs0 w := by
      intro w hw
      obtain ⟨x, hx, rfl⟩ := List.mem_map.1 hw
      obtain ⟨n, hn⟩ := hdest x hx
      simp only [hn]
      refine ⟨by simp, ?_, ?_⟩
      · rw [List.dropLast_concat]
        intro m hm hm0
        rw [isDir_iff, node_set _ _ _ _ hbase0]
        by_cases heq : base = m
        · rw [if_pos heq]
        · rw [if_neg heq, ← isDir_iff]
          rcases List.prefix_concat_iff.1 hm with h4 | h4
          · exact absurd h4.symm heq
          · exact hT m h4 hm0
      · rw [← Bool.not_eq_true, isDir_iff, node_set _ _ _ _ hbase0]
        have hne : ¬ base = base ++ [n] := by
          intro hc
          have := congrArg List.length hc
          simp at this
        rw [if_neg hne, hfresh _ (List.prefix_append _ _)]
        simp
    obtain ⟨fs', hrun, htree⟩ := writes_run _ hpw fs0 hready
    refine ⟨fs', ?_, ?_⟩
    · rw [hplan]
      simp only [runEffs, runEff, hmk]
      exact hrun
    · rw [htree]
      have h0 : treeOf fs0 = fun q => if q = base then some FNode.dir else treeOf fs q := by
        funext q
        unfold treeOf
        rw [node_set _ _ _ _ hbase0]
        by_cases hq : base = q
        · subst hq; simp [conv]
        · have : ¬ q = base := fun e => hq e.symm
          simp [hq, this]
      rw [h0]
      apply writeAll_after_mkdir
      · unfold storeWrites; simpa using hwsne
      · intro w hw
        obtain ⟨x, hx, rfl⟩ := List.mem_map.1 hw
        obtain ⟨n, hn⟩ := hdest x hx
        simp only [hn]
        unfold below
        simp only [Bool.and_eq_true, bne_iff_ne, ne_eq]
        refine ⟨List.isPrefixOf_iff_prefix.2 (List.prefix_append _ _), ?_⟩
        intro hc
        have := congrArg List.length hc
        simp at this

/-- **the images half of the plan runs on `AbsFS`** and leaves `StoreOrder.writeAll`'s tree: for an image
    store under the invariant with normal-component keys, target directory present and nothing at or
    below `<target>/images`, the effects `FontSave.planImages t i` (one `mkdir`, then one plain `write`
    per entry) all succeed -/
theorem image_plan_runs (s : Store) (h : Inv s) (hkind : s.kind = .image)
    (hplain : ∀ k ∈ keys s, (parse k).allNormal = true)
    (t : APath) (fs : FS StoreOrder.Bytes) (ws : List WriteFile) (h1 : writesOf s = some ws)
    (hT : ∀ m, m <+: t → m ≠ [] → isDir fs m = true)
    (hfresh : ∀ q, (t ++ [storeDirName .image]) <+: q → node fs q = none) :
    ∃ fs', runEffs (planImages t (ws.map fun w => (parse w.key, w.bytes))) fs = (none, fs') ∧
      treeOf fs' = writeAll (treeOf fs) (storeWrites (t ++ [storeDirName .image]) ws) := by
  obtain ⟨hk, _⟩ := writesOf_spec s ws h1
  have hmemk : ∀ w ∈ ws, w.key ∈ keys s := fun w hw => hk ▸ List.mem_map.2 ⟨w, hw, rfl⟩
  have hdist : ws.Pairwise fun a b => parse a.key ≠ parse b.key := by
    have := h.keysOK.distinct
    unfold List.Nodup at this
    rw [← hk, List.map_map, List.pairwise_map] at this
    exact this
  exact (image_plan_runs_of s h hkind hplain t fs ws hmemk hdist hT hfresh).2

/-- … and any other order `ws₂` of the image writes also runs, reaches the same tree, and every image
    file holds exactly its entry's bytes -/
theorem image_plan_eq_writeAll (s : Store) (h : Inv s) (hkind : s.kind = .image)
    (hplain : ∀ k ∈ keys s, (parse k).allNormal = true)
    (t : APath) (fs : FS StoreOrder.Bytes) (ws₁ ws₂ : List WriteFile) (h1 : writesOf s = some ws₁)
    (hperm : ws₁.Perm ws₂)
    (hT : ∀ m, m <+: t → m ≠ [] → isDir fs m = true)
    (hfresh : ∀ q, (t ++ [storeDirName .image]) <+: q → node fs q = none) :
    ∃ fs₁ fs₂,
      runEffs (planImages t (ws₁.map fun w => (parse w.key, w.bytes))) fs = (none, fs₁) ∧
      runEffs (planImages t (ws₂.map fun w => (parse w.key, w.bytes))) fs = (none, fs₂) ∧
      treeOf fs₁ = treeOf fs₂ ∧
      ∀ w ∈ ws₂, node fs₂ (destOf (t ++ [storeDirName .image]) w.key) = some (.file w.bytes) := by
  obtain ⟨hk, _⟩ := writesOf_spec s ws₁ h1
  have hmemk : ∀ w ∈ ws₁, w.key ∈ keys s := fun w hw => hk ▸ List.mem_map.2 ⟨w, hw, rfl⟩
  have hdist : ws₁.Pairwise fun a b => parse a.key ≠ parse b.key := by
    have := h.keysOK.distinct
    unfold List.Nodup at this
    rw [← hk, List.map_map, List.pairwise_map] at this
    exact this
  have hmemk2 : ∀ w ∈ ws₂, w.key ∈ keys s := fun w hw => hmemk w (hperm.mem_iff.2 hw)
  have hdist2 : ws₂.Pairwise fun a b => parse a.key ≠ parse b.key :=
    (hperm.pairwise_iff (fun {a b} (hab : parse a.key ≠ parse b.key) => Ne.symm hab)).1 hdist
  obtain ⟨hpw1, f1, r1, t1⟩ := image_plan_runs_of s h hkind hplain t fs ws₁ hmemk hdist hT hfresh
  obtain ⟨hpw2, f2, r2, t2⟩ := image_plan_runs_of s h hkind hplain t fs ws₂ hmemk2 hdist2 hT hfresh
  refine ⟨f1, f2, r1, r2, ?_, ?_⟩
  · rw [t1, t2]
    exact writes_order_independent _ (hperm.map _) hpw1
  · intro w hw
    have := writeAll_lookup (treeOf fs) _ hpw2 (destOf (t ++ [storeDirName .image]) w.key, w.bytes)
      (List.mem_map.2 ⟨w, hw, rfl⟩)
    rw [← t2] at this
    simp only [treeOf] at this
    cases hn : node f2 (destOf (t ++ [storeDirName .image]) w.key) with
    | none => rw [hn] at this; simp at this
    | some n =>
      rw [hn] at this
      cases n with
      | dir => simp [conv] at this
      | file b => simp [conv] at this; rw [this]

/-! ## `iter` and the map order -/

/-- **`iter`'s forcing does not depend on the map order**: visiting the same keys (pairwise different by
    components, as the keys of a store are) in any other order leaves the same store — every `get`
    touches only its own cell, and what it caches depends on the other entries only through their keys -/
theorem iter_forcing_order_independent (s : Store) (d : Disk) (ks₁ ks₂ : List Key) (hp : ks₁.Perm ks₂)
    (hd : ks₁.Pairwise fun a b => parse a ≠ parse b) :
    (iterFrom s d ks₁).1 = (iterFrom s d ks₂).1 := by
  rw [iterFrom_fst, iterFrom_fst]
  exact StoreOrder.foldl_perm_of_comm (fun s k => (get s d k).1) (fun a b => parse a ≠ parse b)
    (fun {a b} h => Ne.symm h) (fun s a b h => get_comm s d h) hp hd s

/-- … in particular for a store under the invariant and any order `ks` of its own keys (any `HashMap`
    order): the store `iter` leaves, and the store a save's forcing pass leaves when it finds no error -/
theorem iter_any_hash_order (s : Store) (h : Inv s) (d : Disk) (ks : List Key) (hp : ks.Perm (keys s)) :
    (iterFrom s d ks).1 = (iter s d).1 ∧
    ∀ s1, forceUntilError s d ks = (s1, none) → s1 = (iter s d).1 := by
  have hd : (keys s).Pairwise fun a b => parse a ≠ parse b := by
    have := h.keysOK.distinct
    unfold List.Nodup at this
    rwa [List.pairwise_map] at this
  have hd' : ks.Pairwise fun a b => parse a ≠ parse b :=
    (hp.pairwise_iff (fun {a b} (hab : parse a ≠ parse b) => Ne.symm hab)).2 hd
  have h1 := iter_forcing_order_independent s d ks (keys s) hp hd'
  refine ⟨h1, ?_⟩
  intro s1 hf
  rw [forceUntilError_fst_of_none hf, ← iterFrom_fst]
  exact h1

/-- every result `iter` reports for a key of the store is what the store it leaves holds for that key
    (so the reported results, too, are a function of the key, not of the visiting order) -/
theorem iter_results_from_final_store (s : Store) (d : Disk) (ks : List Key) :
    ∀ k r, (k, r) ∈ (iterFrom s d ks).2 → find? s.items k ≠ none →
      ∀ d', get (iterFrom s d ks).1 d' k = ((iterFrom s d ks).1, some r) := by
  induction ks generalizing s with
  | nil => intro k r h; simp [iterFrom] at h
  | cons k' rest ih =>
    intro k r hm hfound d'
    simp only [iterFrom] at hm ⊢
    rcases List.mem_cons.1 hm with heq | hm'
    · injection heq with hk hr
      subst hk
      cases hv : (get s d k).2 with
      | none =>
        exfalso
        unfold get at hv
        cases hf : find? s.items k with
        | none => exact hfound hf
        | some e =>
          obtain ⟨k0, c⟩ := e
          rw [hf] at hv
          cases c <;> simp at hv
      | some r0 =>
        rw [hv] at hr
        simp only [Option.getD_some] at hr
        subst hr
        obtain ⟨c, hs, hc⟩ := get_settles hv
        obtain ⟨⟨k0, hf⟩, hne⟩ := settled_iterFrom (disk := d) rest hs
        rw [get_settled_ignores_disk _ _ k k0 c hf hne, hc]
    · apply ih (get s d k').1 k r hm'
      rw [find?_ne_none_iff, hasKey_get, ← find?_ne_none_iff]
      exact hfound

/-! ## source-level tie (constants re-extracted from `src/datastore.rs` / `src/font.rs` on every run) -/

/-- the signature `Image::validate_entry` tests is the eight-byte PNG signature of the model -/
theorem source_png_signature_matches_model : Generated.StoreConsts.pngSignature = pngSig := by decide

/-- the directories the stores are listed from and written to are the model's -/
theorem source_store_dirs_match_model :
    Generated.StoreConsts.dataDir = storeDirName .data ∧
    Generated.StoreConsts.imagesDir = storeDirName .image := by decide

/-- the loop of `save_impl` before the wipe visits both stores, as `saveStores` does: an image entry
    in error state refuses the save although the data store is clean -/
theorem source_force_loop_covers_both_stores :
    Generated.StoreConsts.forceLoopVisitsData = true ∧ Generated.StoreConsts.forceLoopVisitsImages = true ∧
    (saveStores ⟨.data, [(['a'], .loaded [1])]⟩ ⟨.image, [(['b'], .error .invalidImage)]⟩
        (fun _ => none) (fun _ => none)).2 = .refused ['b'] := by decide

/-- the early returns of the two `validate_entry` are the model's, as sets of `StoreError` variants
    (the order of independent early returns is not part of the property) -/
theorem source_validate_clauses_match_model :
    (Generated.StoreConsts.dataClauses.all fun v => (dataClauseErrs.map Err.variantName).contains v) = true ∧
    ((dataClauseErrs.map Err.variantName).all fun v => Generated.StoreConsts.dataClauses.contains v) = true ∧
    (Generated.StoreConsts.imageClauses.all fun v => (imageClauseErrs.map Err.variantName).contains v) = true ∧
    ((imageClauseErrs.map Err.variantName).all fun v => Generated.StoreConsts.imageClauses.contains v) = true := by
  decide

/-! ## what is false of the code: `.` and `..` components, trailing separators (recorded findings) -/

/-- FALSE on the tree (policy decision, shared with C09):
    `theorem normal_keys : Inv s → ∀ k ∈ keys (run ⟨s, d⟩ ops).store, (parse k).allNormal`.
    Guarded version: if only keys with normal components are ever inserted (and the store starts
    with such keys), all keys have normal components. -/
theorem normal_keys_partial (st : State) (ops : List Op)
    (h0 : ∀ k ∈ keys st.store, (parse k).allNormal = true)
    (hins : ∀ k b, Op.insert k b ∈ ops → (parse k).allNormal = true) :
    ∀ k ∈ keys (run st ops).store, (parse k).allNormal = true := by
  induction ops generalizing st with
  | nil => exact h0
  | cons op r ih =>
    apply ih
    · cases op with
      | insert k b =>
        have hk := hins k b (List.mem_cons_self ..)
        show ∀ k' ∈ keys (insert st.store k b).1, _
        unfold insert
        split
        · exact h0
        · intro k' hk'
          simp only [keys] at hk'
          by_cases hh : hasKey st.store.items (parse k) = true
          · rw [keys_setCell_of_hasKey hh] at hk'; exact h0 k' hk'
          · rw [keys_setCell_of_not (by simpa using hh)] at hk'
            rcases List.mem_append.1 hk' with hk' | hk'
            · exact h0 k' hk'
            · simp at hk'; subst hk'; exact hk
      | remove k =>
        intro k' hk'
        simp only [step, keys, remove, List.mem_map] at hk'
        obtain ⟨e, he, rfl⟩ := hk'
        exact h0 e.1 (List.mem_map.2 ⟨e, (List.mem_filter.1 he).1, rfl⟩)
      | get k =>
        intro k' hk'
        have : keys (get st.store st.disk k).1 = keys st.store := by
          unfold get
          split
          · rfl
          · rename_i hf; simp only [keys]; exact keys_setCell_of_hasKey (find?_hasKey hf)
          · rfl
        exact h0 k' (this ▸ hk')
      | clear => intro k' hk'; simp [step, clear, keys] at hk'
      | iter =>
        intro k' hk'
        have key : ∀ (s : Store) (ks : List Key), keys (iterFrom s st.disk ks).1 = keys s := by
          intro s ks
          induction ks generalizing s with
          | nil => rfl
          | cons k r ih2 =>
            simp only [iterFrom]
            rw [ih2]
            unfold get
            split
            · rfl
            · rename_i hf; simp only [keys]; exact keys_setCell_of_hasKey (find?_hasKey hf)
            · rfl
        exact h0 k' ((key st.store _) ▸ hk')
      | keys => exact h0
      | isEmpty => exact h0
      | setDisk d => exact h0
    · exact fun k b hm => hins k b (List.mem_cons_of_mem _ hm)

/-- the code accepts `..` and `.` components: `../x` in an empty data store; `./a` next to `a`
    (two keys for one file); the image key `..` -/
theorem store_accepts_dot_components_counterexample :
    (insert ⟨.data, []⟩ ['.','.','/','x'] []).2 = .ok () ∧
    (insert (insert ⟨.data, []⟩ ['a'] []).1 ['.','/','a'] []).2 = .ok () ∧
    (insert (insert ⟨.data, []⟩ ['b'] []).1 ['a','/','.','.','/','b'] []).2 = .ok () ∧
    (insert ⟨.image, []⟩ ['.','.'] pngSig).2 = .ok () ∧
    (insert ⟨.image, []⟩ ['.'] pngSig).2 = .ok () ∧
    (parse ['.','.','/','x']).allNormal = false := by decide

/-- a key with a trailing separator passes every clause (it is `a` by components) although it names
    a directory: `a/` -/
theorem store_accepts_trailing_separator_counterexample :
    (insert ⟨.data, []⟩ ['a','/'] []).2 = .ok () ∧ (insert ⟨.image, []⟩ ['a','/'] pngSig).2 = .ok () ∧
    dirish ['a','/'] = true ∧ parse ['a','/'] = parse ['a'] := by decide

/-! ## OPEN

Nothing stated in this file is left unproved.  (Outside the model's reach, see `docs/notes/C16.md`: the
tree a save leaves for stores holding `.`/`..`/trailing-separator keys — recorded findings — and I/O
errors other than not-found / is-a-directory / not-a-directory.) -/

/-! ## non-vacuity -/

-- the fix: `a` after `a/b` is refused, as `a/b` after `a` always was
example : (insert (insert ⟨.data, []⟩ ['a','/','b'] []).1 ['a'] []).2 = .error .dirUnderFile := by decide
example : (insert (insert ⟨.data, []⟩ ['a'] []).1 ['a','/','b'] []).2 = .error .dirUnderFile := by decide
example : (insert (insert ⟨.data, []⟩ ['a','/','b'] []).1 ['a','/','c'] []).2 = .ok () := by decide
-- replacing the contents of an existing key is not refused by the symmetric rule
example : (insert (insert ⟨.data, []⟩ ['a','/','b'] []).1 ['a','/','/','b'] [1]).2 = .ok () := by decide
-- images: seven bytes of the signature are not enough, sub-directories are refused
example : (insert ⟨.image, []⟩ ['a'] (pngSig.take 7)).2 = .error .invalidImage := by decide
example : (insert ⟨.image, []⟩ ['a','/','b'] pngSig).2 = .error .subdir := by decide
-- laziness: the bytes are those of the disk handed to the first `get`, a second disk is ignored
example :
    let s : Store := ⟨.data, [(['a'], .notLoaded)]⟩
    let d1 : Disk := fun _ => some [1]
    let d2 : Disk := fun _ => some [2]
    (get (get s d1 ['a']).1 d2 ['a']).2 = some (.ok [1]) := by decide
-- … also across an `iter` and a disk change in between (`get_stable_afterwards` is not vacuous)
example :
    let s : Store := ⟨.data, [(['a'], .notLoaded), (['b'], .notLoaded)]⟩
    let d1 : Disk := fun _ => some [1]
    let d2 : Disk := fun _ => none
    let st := run ⟨(get s d1 ['a']).1, d1⟩ [.setDisk d2, .iter, .get ['b']]
    (get st.store st.disk ['a']).2 = some (.ok [1]) ∧ (get st.store st.disk ['b']).2 = some (.error .io) := by decide
-- `newStore_inv` is not vacuous: a tree `a/` (directory) with the file `a/b` is well formed and listed
example : ListingWF [([['a']], NodeKind.dir), ([['a'], ['b']], NodeKind.file)] := by
  refine ⟨?_, by decide, ?_⟩
  · intro e he
    simp only [List.mem_cons, List.not_mem_nil, or_false] at he
    rcases he with rfl | rfl <;> refine ⟨by simp, ?_⟩ <;> intro n hn <;> simp at hn
    · subst hn; refine ⟨by simp, by simp, by simp, by simp⟩
    · rcases hn with rfl | rfl <;> refine ⟨by simp, by simp, by simp, by simp⟩
  · intro e he q hq hne hnn
    simp only [List.mem_cons, List.not_mem_nil, or_false] at he
    rcases he with rfl | rfl
    · cases q with
      | nil => exact absurd rfl hnn
      | cons x r =>
        simp only [List.cons_prefix_cons, List.prefix_nil] at hq
        exact absurd (by rw [hq.1, hq.2]) hne
    · cases q with
      | nil => exact absurd rfl hnn
      | cons x r =>
        simp only [List.cons_prefix_cons] at hq
        cases r with
        | nil => simp [hq.1]
        | cons y r' =>
          simp only [List.cons_prefix_cons, List.prefix_nil] at hq
          exact absurd (by rw [hq.1, hq.2.1, hq.2.2]) hne
example : (newStore .data [([['a']], NodeKind.dir), ([['a'], ['b']], NodeKind.file)]) =
    .ok ⟨.data, [(['a', '/', 'b'], .notLoaded)]⟩ := by decide
example : ∃ e, newStore .image [([['a']], NodeKind.dir), ([['a'], ['b']], NodeKind.file)] = .error e :=
  ⟨.subdir, by decide⟩
-- order independence is not vacuous: two entries, both orders, same tree, each file holds its bytes
example :
    let ws : List (Loc × StoreOrder.Bytes) := [([['d'], ['a']], [1]), ([['d'], ['b'], ['c']], [2])]
    (writeAll (fun _ => none) ws [['d'], ['a']] = some (.file [1])) ∧
    (writeAll (fun _ => none) ws.reverse [['d'], ['a']] = some (.file [1])) ∧
    (writeAll (fun _ => none) ws [['d'], ['b']] = some .dir) ∧
    (writeAll (fun _ => none) ws.reverse [['d'], ['b']] = some .dir) := by decide
-- … and nested destinations (`a` and `a/b`, excluded by the invariant) do NOT commute
example :
    let w1 : Loc × StoreOrder.Bytes := ([['a']], [1])
    let w2 : Loc × StoreOrder.Bytes := ([['a'], ['b']], [2])
    writeAll (fun _ => none) [w1, w2] [['a']] ≠ writeAll (fun _ => none) [w2, w1] [['a']] := by decide
-- hidden names are listed like any other: `.hidden`, `.cache/x`, `...`
example : newStore .data [([['.', 'h']], .file), ([['.', 'c']], .dir), ([['.', 'c'], ['x']], .file),
      ([['.', '.', '.']], .file)] =
    .ok ⟨.data, [(['.', 'h'], .notLoaded), (['.', 'c', '/', 'x'], .notLoaded), (['.', '.', '.'], .notLoaded)]⟩ := by
  decide
-- `store_plan_runs` is not vacuous: keys `a` and `b/c`, target `/t` existing and empty
example :
    let fs : FS StoreOrder.Bytes := [([['t']], .dir)]
    let r := runEffs (([(⟨.data, ['a'], [1]⟩ : WriteFile), ⟨.data, ['b', '/', 'c'], [2]⟩].map
      fun w => (parse w.key, w.bytes)).flatMap (planDataItem [['t']])) fs
    r.1 = none ∧ node r.2 [['t'], ['d', 'a', 't', 'a'], ['b'], ['c']] = some (.file [2]) ∧
    node r.2 [['t'], ['d', 'a', 't', 'a'], ['b']] = some .dir := by decide
-- `image_plan_runs` is not vacuous: image keys `a` and `b`, target `/t` existing and empty
example :
    let fs : FS StoreOrder.Bytes := [([['t']], .dir)]
    let r := runEffs (planImages [['t']] ([(⟨.image, ['a'], [1]⟩ : WriteFile), ⟨.image, ['b'], [2]⟩].map
      fun w => (parse w.key, w.bytes))) fs
    r.1 = none ∧ node r.2 [['t'], ['i', 'm', 'a', 'g', 'e', 's'], ['b']] = some (.file [2]) ∧
    node r.2 [['t'], ['i', 'm', 'a', 'g', 'e', 's']] = some .dir := by decide
-- `iter_forcing_order_independent` is not vacuous: two lazy entries, both orders, same store
example :
    let s : Store := ⟨.data, [(['a'], .notLoaded), (['b'], .notLoaded)]⟩
    let d : Disk := fun k => if k = ['a'] then some [1] else none
    (iterFrom s d [['a'], ['b']]).1 = (iterFrom s d [['b'], ['a']]).1 ∧
    (iterFrom s d [['a'], ['b']]).1.items = [(['a'], .loaded [1]), (['b'], .error .io)] := by decide
-- an error entry refuses the save; a clean store reaches the effects
example : (saveStores ⟨.data, [(['a'], .notLoaded)]⟩ ⟨.image, []⟩ (fun _ => none) (fun _ => none)).2
    = .refused ['a'] := by decide
example : (saveStores ⟨.data, [(['a'], .notLoaded)]⟩ ⟨.image, []⟩ (fun _ => some [7]) (fun _ => none)).2
    = .effects [⟨.data, ['a'], [7]⟩] := by decide

end C16
