import Norad.Model.FontLoad
import Norad.Lemmas.FontLoad
/-!
# C17 — a partial load equals the full load restricted to what was requested

Model: `FontLoad.loadImpl` (`Font::load_impl`, `LayerContents::load`, `Layer::load_impl`, `DataRequest`) over the
abstract file system, format-3 trees; specification: `FontLoad.restrict`.
-/
namespace C17
open AbsFS FontSave FontLoad

variable {β : Type}

/-- **Layer core** (every request, every custom predicate, every list of loaded layers): filtering the loaded
    layers by the request and finishing (placeholder for a filtered-out default layer, default layer moved to
    the front) gives exactly `restrictLayers` of the finished full list.  Guard: the full list has one layer
    in `glyphs` (C06's invariant; with two, `position` and the filter may pick different ones). -/
theorem partial_layers_eq_restricted_full (r : Request) (ls full : List ALayer)
    (hfull : finishLayers Request.everything ls = .ok full)
    (hone : ∀ x ∈ full.tail, isDefaultLayer x = false) :
    finishLayers r (ls.filter fun l => shouldLoad r l.name l.dir) = .ok (restrictLayers r full) :=
  finishLayers_filter hfull hone

/-- whatever was requested, a successful load has the default layer, and has it first -/
theorem default_layer_always_present_and_first (P : Parser β) (fs : FS β) (t : APath) (r : Request)
    (f : AFont β) (h : loadImpl P fs t r = .ok f) :
    ∃ d rest, f.layers = d :: rest ∧ d.dir = glyphsDir := by
  unfold loadImpl at h
  cases hs : loadScalars P fs t r with
  | error e => simp [hs] at h
  | ok sc =>
    cases hl : loadLayerSet P fs t r with
    | error e => simp [hs, hl] at h
    | ok layers =>
      cases hd : loadStore r.data .data fs t with
      | error e => simp [hs, hl, hd] at h
      | ok data =>
        cases hi : loadStore r.images .images fs t with
        | error e => simp [hs, hl, hd, hi] at h
        | ok images =>
          simp only [hs, hl, hd, hi] at h
          cases h
          unfold loadLayerSet at hl
          simp only [] at hl
          split at hl
          · cases hl
          · split at hl
            · cases hl
            · split at hl
              · cases hl
              · obtain ⟨d, rest, h1, h2⟩ := finishLayers_default_first hl
                exact ⟨d, rest, h1, by simpa [isDefaultLayer] using h2⟩

/-- the placeholder is there exactly when the default layer was filtered out: with the default layer not
    selected the restricted font starts with the empty placeholder -/
theorem default_layer_empty_when_filtered_out (r : Request) (d : ALayer) (rest : List ALayer)
    (hd : isDefaultLayer d = true) (hrest : ∀ x ∈ rest, isDefaultLayer x = false)
    (hsel : shouldLoad r d.name d.dir = false) :
    restrictLayers r (d :: rest) = placeholder :: rest.filter (fun l => shouldLoad r l.name l.dir) := by
  have hinc : includesDefault r = false := by
    cases hi : includesDefault r with
    | false => rfl
    | true => rw [shouldLoad_default hd hi] at hsel; cases hsel
  have hany : (rest.filter fun l => shouldLoad r l.name l.dir).any isDefaultLayer = false :=
    any_false_of_forall fun x hx => hrest x (List.mem_filter.mp hx).1
  unfold restrictLayers
  simp [List.filter, hsel, hinc, hany]


/-! ### the file-level theorem -/

/-- layer directories in `layercontents.plist` are plain names (what norad writes): the name the loaded layer
    keeps (`file_name()` of the joined path) is the string the filter saw -/
def PlainLayerDirs (P : Parser β) (fs : FS β) (t : APath) : Prop :=
  ∀ lc, readParsed fs (sub t "layercontents.plist") P.layercontents "layercontents.plist" = .ok lc →
    ∀ e ∈ lc, lastName (joinRel (tC t) (Path.parse e.2)) = some e.2

/-- **`partial_eq_restricted_full`** (format-3 trees).  If the full load of `t` succeeds with `f`, then the load with
    ANY request `r` — six switches, `all` / default-only / arbitrary custom layer predicate — succeeds too and
    yields exactly `restrict r f`: un-requested parts replaced by their empty defaults (without `lib` the
    guideline libs go as well), the selected layers in file order behind the default layer, the default layer
    replaced by the empty placeholder when it was filtered out, un-requested stores empty.
    Guards: one layer in `glyphs` (C06's invariant), plain layer directory names. -/
theorem partial_eq_restricted_full (P : Parser β) (fs : FS β) (t : APath) (r : Request) (f : AFont β)
    (hfull : loadImpl P fs t Request.everything = .ok f)
    (hone : ∀ x ∈ f.layers.tail, isDefaultLayer x = false)
    (hplain : PlainLayerDirs P fs t) :
    loadImpl P fs t r = .ok (restrict r f) := by
  unfold loadImpl at hfull ⊢
  cases hs : loadScalars P fs t Request.everything with
  | error e => simp [hs] at hfull
  | ok sc =>
    cases hl : loadLayerSet P fs t Request.everything with
    | error e => simp [hs, hl] at hfull
    | ok layers =>
      cases hd : loadStore Request.everything.data .data fs t with
      | error e => simp [hs, hl, hd] at hfull
      | ok data =>
        cases hi : loadStore Request.everything.images .images fs t with
        | error e => simp [hs, hl, hd, hi] at hfull
        | ok images =>
          simp only [hs, hl, hd, hi] at hfull
          cases hfull
          have hd' : loadStore true .data fs t = .ok data := hd
          have hi' : loadStore true .images fs t = .ok images := hi
          rw [loadScalars_restrict r hs, loadLayerSet_restrict r hl hone hplain,
            loadStore_of_true hd' r.data, loadStore_of_true hi' r.images]
          simp only [restrict, restrictScalars, stripLibs]

/-- **`partial_succeeds_if_full_does`** -/
theorem partial_succeeds_if_full_does (P : Parser β) (fs : FS β) (t : APath) (r : Request) (f : AFont β)
    (hfull : loadImpl P fs t Request.everything = .ok f)
    (hone : ∀ x ∈ f.layers.tail, isDefaultLayer x = false) (hplain : PlainLayerDirs P fs t) :
    ∃ f', loadImpl P fs t r = .ok f' :=
  ⟨_, partial_eq_restricted_full P fs t r f hfull hone hplain⟩


/-! ### non-vacuity of the file-level theorem -/

def P0 : Parser Nat where
  metainfo _ := some (3, 1)
  lib _ := none
  fontinfo _ := none
  groups _ := some (2, true)
  kerning _ := none
  features _ := none
  layercontents _ := some [("bg".toList, "glyphs.bg".toList), ("public.default".toList, "glyphs".toList)]
  contents _ := some []
  layerinfo _ := none
  glif _ := none

def fs0 : FS Nat :=
  [(["t".toList], .dir), (["t".toList, "metainfo.plist".toList], .file 0),
   (["t".toList, "groups.plist".toList], .file 0),
   (["t".toList, "layercontents.plist".toList], .file 0),
   (["t".toList, "glyphs".toList], .dir), (["t".toList, "glyphs".toList, "contents.plist".toList], .file 0),
   (["t".toList, "glyphs.bg".toList], .dir), (["t".toList, "glyphs.bg".toList, "contents.plist".toList], .file 0)]

def bgOnly : Request :=
  { lib := false, groups := false, kerning := false, features := false, data := false, images := false,
    all := false, loadDefault := false, custom := some fun n _ => n == "bg".toList }

/-- the hypotheses are satisfiable, and the conclusion is what one expects: groups gone, the background layer kept,
    the default layer replaced by the placeholder in front -/
example : ∃ f, loadImpl P0 fs0 ["t".toList] Request.everything = .ok f ∧
    (∀ x ∈ f.layers.tail, isDefaultLayer x = false) ∧ PlainLayerDirs P0 fs0 ["t".toList] ∧
    f.groups = 2 ∧ (restrict bgOnly f).groups = 0 ∧
    (restrict bgOnly f).layers.map (·.name) = ["public.default".toList, "bg".toList] := by
  refine ⟨_, rfl, by decide, ?_, rfl, rfl, by decide⟩
  intro lc h
  have hrp : readParsed fs0 (sub ["t".toList] "layercontents.plist") P0.layercontents "layercontents.plist" =
      .ok [("bg".toList, "glyphs.bg".toList), ("public.default".toList, "glyphs".toList)] := by rfl
  rw [hrp] at h
  cases h
  decide

/-! ### non-vacuity: `none().filter_layers(|_,_| true)` on a two-layer font (the repaired defect) -/

def l0 : ALayer := { name := "public.default".toList, dir := "glyphs".toList, info := 0, entries := [] }
def l1 : ALayer := { name := "bg".toList, dir := "glyphs.bg".toList, info := 0, entries := [] }
def alwaysTrue : Request :=
  { lib := false, groups := false, kerning := false, features := false, data := false, images := false,
    all := false, loadDefault := false, custom := some fun _ _ => true }

example : finishLayers alwaysTrue ([l1, l0].filter fun l => shouldLoad alwaysTrue l.name l.dir) = .ok [l0, l1] := by
  rfl

example : finishLayers Request.everything [l1, l0] = .ok [l0, l1] := by rfl

end C17
