import Norad.Model.FontLoad
import Norad.Lemmas.FontLoad
import Norad.Generated.SaveOrder
import Norad.Generated.DataRequest
/-!
# C17 — a partial load equals the full load restricted to what was requested

Model: `FontLoad.loadImpl` (`Font::load_impl`, `LayerContents::load`, `Layer::load_impl`, `DataRequest`) over the
abstract file system, format-3 trees; specification: `FontLoad.restrict`.
-/
namespace C17
open AbsFS FontSave FontLoad

variable {β : Type}

/-- **Layer core** (every request, every custom predicate, every list of loaded layers): filtering the loaded
    layers by the request and finishing (placeholder for a filtered-out default layer, default layer moved to
    the front) gives exactly `restrictLayers` of the finished full list.  Guard: the full list has one layer
    in `glyphs` (C06's invariant; with two, `position` and the filter may pick different ones). -/
theorem partial_layers_eq_restricted_full (r : Request) (ls full : List ALayer)
    (hfull : finishLayers Request.everything ls = .ok full)
    (hone : ∀ x ∈ full.tail, isDefaultLayer x = false) :
    finishLayers r (ls.filter fun l => shouldLoad r l.name l.dir) = .ok (restrictLayers r full) :=
  finishLayers_filter hfull hone

/-- whatever was requested, a successful load has the default layer, and has it first -/
theorem default_layer_always_present_and_first (P : Parser β) (fs : FS β) (t : APath) (r : Request)
    (f : AFont β) (h : loadImpl P fs t r = .ok f) :
    ∃ d rest, f.layers = d :: rest ∧ d.dir = glyphsDir := by
  unfold loadImpl at h
  cases hs : loadScalars P fs t r with
  | error e => simp [hs] at h
  | ok sc =>
    cases hl : loadLayerSet P fs t r with
    | error e => simp [hs, hl] at h
    | ok layers =>
      cases hd : loadStore r.data .data fs t with
      | error e => simp [hs, hl, hd] at h
      | ok data =>
        cases hi : loadStore r.images .images fs t with
        | error e => simp [hs, hl, hd, hi] at h
        | ok images =>
          simp only [hs, hl, hd, hi] at h
          cases h
          unfold loadLayerSet at hl
          simp only [] at hl
          split at hl
          · cases hl
          · split at hl
            · cases hl
            · split at hl
              · cases hl
              · obtain ⟨d, rest, h1, h2⟩ := finishLayers_default_first hl
                exact ⟨d, rest, h1, by simpa [isDefaultLayer] using h2⟩

/-- the placeholder is there exactly when the default layer was filtered out: with the default layer not
    selected the restricted font starts with the empty placeholder -/
theorem default_layer_empty_when_filtered_out (r : Request) (d : ALayer) (rest : List ALayer)
    (hd : isDefaultLayer d = true) (hrest : ∀ x ∈ rest, isDefaultLayer x = false)
    (hsel : shouldLoad r d.name d.dir = false) :
    restrictLayers r (d :: rest) = placeholder :: rest.filter (fun l => shouldLoad r l.name l.dir) := by
  have hinc : includesDefault r = false := by
    cases hi : includesDefault r with
    | false => rfl
    | true => rw [shouldLoad_default hd hi] at hsel; cases hsel
  have hany : (rest.filter fun l => shouldLoad r l.name l.dir).any isDefaultLayer = false :=
    any_false_of_forall fun x hx => hrest x (List.mem_filter.mp hx).1
  unfold restrictLayers
  simp [List.filter, hsel, hinc, hany]


/-! ### the file-level theorem -/

/-- layer directories in `layercontents.plist` are plain names (what norad writes): the name the loaded layer
    keeps (`file_name()` of the joined path) is the string the filter saw -/
def PlainLayerDirs (P : Parser β) (fs : FS β) (t : APath) : Prop :=
  ∀ lc, readParsed fs (sub t "layercontents.plist") P.layercontents "layercontents.plist" = .ok lc →
    ∀ e ∈ lc, lastName (joinRel (tC t) (Path.parse e.2)) = some e.2

/-- **`partial_eq_restricted_full`** (format-3 trees).  If the full load of `t` succeeds with `f`, then the load with
    ANY request `r` — six switches, `all` / default-only / arbitrary custom layer predicate — succeeds too and
    yields exactly `restrict r f`: un-requested parts replaced by their empty defaults (without `lib` the
    guideline libs go as well), the selected layers in file order behind the default layer, the default layer
    replaced by the empty placeholder when it was filtered out, un-requested stores empty.
    Guards: one layer in `glyphs` (C06's invariant), plain layer directory names. -/
theorem partial_eq_restricted_full (P : Parser β) (fs : FS β) (t : APath) (r : Request) (f : AFont β)
    (hfull : loadImpl P fs t Request.everything = .ok f)
    (hone : ∀ x ∈ f.layers.tail, isDefaultLayer x = false)
    (hplain : PlainLayerDirs P fs t) :
    loadImpl P fs t r = .ok (restrict r f) := by
  unfold loadImpl at hfull ⊢
  cases hs : loadScalars P fs t Request.everything with
  | error e => simp [hs] at hfull
  | ok sc =>
    cases hl : loadLayerSet P fs t Request.everything with
    | error e => simp [hs, hl] at hfull
    | ok layers =>
      cases hd : loadStore Request.everything.data .data fs t with
      | error e => simp [hs, hl, hd] at hfull
      | ok data =>
        cases hi : loadStore Request.everything.images .images fs t with
        | error e => simp [hs, hl, hd, hi] at hfull
        | ok images =>
          simp only [hs, hl, hd, hi] at hfull
          cases hfull
          have hd' : loadStore true .data fs t = .ok data := hd
          have hi' : loadStore true .images fs t = .ok images := hi
          rw [loadScalars_restrict r hs, loadLayerSet_restrict r hl hone hplain,
            loadStore_of_true hd' r.data, loadStore_of_true hi' r.images]
          simp only [restrict, restrictScalars, stripLibs]

/-- **`partial_succeeds_if_full_does`** -/
theorem partial_succeeds_if_full_does (P : Parser β) (fs : FS β) (t : APath) (r : Request) (f : AFont β)
    (hfull : loadImpl P fs t Request.everything = .ok f)
    (hone : ∀ x ∈ f.layers.tail, isDefaultLayer x = false) (hplain : PlainLayerDirs P fs t) :
    ∃ f', loadImpl P fs t r = .ok f' :=
  ⟨_, partial_eq_restricted_full P fs t r f hfull hone hplain⟩



/-! ### un-requested files are not read -/

/-- the two file systems answer `exists` and `read` on this path alike -/
def SameFile (fs₁ fs₂ : FS β) (cs : List Path.Comp) : Prop :=
  existsAt fs₁ cs = existsAt fs₂ cs ∧ readFile fs₁ cs = readFile fs₂ cs

/-- `fs₁` and `fs₂` agree on everything the request `r` makes the loader look at: the UFO directory itself,
    metainfo / fontinfo / layercontents (always read), the single files of the requested parts, the selected
    layers, the listing of the requested stores.  Nothing is assumed about lib / groups / kerning / features files,
    layer directories and store directories that were not requested: they may be corrupt, missing or different. -/
structure AgreeOnReadSet (P : Parser β) (t : APath) (r : Request) (fs₁ fs₂ : FS β) : Prop where
  root : node fs₁ t = node fs₂ t
  metainfo : SameFile fs₁ fs₂ (sub t "metainfo.plist")
  fontinfo : SameFile fs₁ fs₂ (sub t "fontinfo.plist")
  layercontents : SameFile fs₁ fs₂ (sub t "layercontents.plist")
  lib : r.lib = true → SameFile fs₁ fs₂ (sub t "lib.plist")
  groups : r.groups = true → SameFile fs₁ fs₂ (sub t "groups.plist")
  kerning : r.kerning = true → SameFile fs₁ fs₂ (sub t "kerning.plist")
  features : r.features = true → SameFile fs₁ fs₂ (sub t "features.fea")
  layers : ∀ n d, shouldLoad r n d = true → loadLayer P fs₁ t n d = loadLayer P fs₂ t n d
  data : r.data = true → loadStore true .data fs₁ t = loadStore true .data fs₂ t
  images : r.images = true → loadStore true .images fs₁ t = loadStore true .images fs₂ t

theorem readParsed_same {α : Type} {fs₁ fs₂ : FS β} {cs} (h : SameFile fs₁ fs₂ cs) (parse : β → Option α) (name : String) :
    readParsed fs₁ cs parse name = readParsed fs₂ cs parse name := by
  unfold readParsed; rw [h.2]

theorem readOpt_same {α : Type} {fs₁ fs₂ : FS β} {cs} (sw : Bool) (h : sw = true → SameFile fs₁ fs₂ cs)
    (parse : β → Option α) (name : String) :
    readOpt sw fs₁ cs parse name = readOpt sw fs₂ cs parse name := by
  cases sw with
  | false => simp [readOpt]
  | true => unfold readOpt; rw [(h rfl).1, readParsed_same (h rfl)]

theorem loadLayers_same {P : Parser β} {t : APath} {r : Request} {fs₁ fs₂ : FS β}
    (h : ∀ n d, shouldLoad r n d = true → loadLayer P fs₁ t n d = loadLayer P fs₂ t n d) :
    ∀ lc, loadLayers P fs₁ t r lc = loadLayers P fs₂ t r lc := by
  intro lc
  induction lc with
  | nil => rfl
  | cons e rest ih =>
    obtain ⟨n, d⟩ := e
    unfold loadLayers
    by_cases hs : shouldLoad r n d = true
    · simp only [hs, if_true, h n d hs, ih]
    · simp only [hs, Bool.false_eq_true, if_false, ih]

theorem loadStore_same {kind : StoreKind} {t : APath} {fs₁ fs₂ : FS β} (sw : Bool)
    (h : sw = true → loadStore true kind fs₁ t = loadStore true kind fs₂ t) :
    loadStore sw kind fs₁ t = loadStore sw kind fs₂ t := by
  cases sw with
  | false => simp [loadStore]
  | true => exact h rfl

/-- **`unrequested_files_not_read`**: the load gives the same result — the same font or the same error — on any two
    file systems that agree on the read set of the request.  Corrupting, removing or adding anything else (the files
    of un-requested parts, un-selected layer directories, un-requested store directories) cannot matter. -/
theorem unrequested_files_not_read (P : Parser β) (t : APath) (r : Request) (fs₁ fs₂ : FS β)
    (h : AgreeOnReadSet P t r fs₁ fs₂) : loadImpl P fs₁ t r = loadImpl P fs₂ t r := by
  have hsc : loadScalars P fs₁ t r = loadScalars P fs₂ t r := by
    unfold loadScalars libStage groupsStage tokStage
    rw [h.root, h.metainfo.1, readParsed_same h.metainfo, readOpt_same r.lib h.lib,
      readOpt_same true (fun _ => h.fontinfo), readOpt_same r.groups h.groups,
      readOpt_same r.kerning h.kerning, readOpt_same r.features h.features]
  have hls : loadLayerSet P fs₁ t r = loadLayerSet P fs₂ t r := by
    unfold loadLayerSet
    simp only
    rw [h.layercontents.1, readParsed_same h.layercontents]
    cases readParsed fs₂ (sub t "layercontents.plist") P.layercontents "layercontents.plist" with
    | error e => rfl
    | ok lc => simp only [loadLayers_same h.layers lc]
  unfold loadImpl
  rw [hsc, hls, loadStore_same r.data h.data, loadStore_same r.images h.images]

/-- the agreement relation is reflexive (so the hypothesis is satisfiable), and for the empty request it does not
    mention a single optional file, layer directory or store directory -/
theorem agreeOnReadSet_refl (P : Parser β) (t : APath) (r : Request) (fs : FS β) : AgreeOnReadSet P t r fs fs :=
  ⟨rfl, ⟨rfl, rfl⟩, ⟨rfl, rfl⟩, ⟨rfl, rfl⟩, fun _ => ⟨rfl, rfl⟩, fun _ => ⟨rfl, rfl⟩, fun _ => ⟨rfl, rfl⟩,
   fun _ => ⟨rfl, rfl⟩, fun _ _ _ => rfl, fun _ => rfl, fun _ => rfl⟩

def nothing : Request :=
  { lib := false, groups := false, kerning := false, features := false, data := false, images := false,
    all := false, loadDefault := false, custom := none }

example (P : Parser β) (t : APath) (fs₁ fs₂ : FS β)
    (hroot : node fs₁ t = node fs₂ t) (hm : SameFile fs₁ fs₂ (sub t "metainfo.plist"))
    (hi : SameFile fs₁ fs₂ (sub t "fontinfo.plist")) (hl : SameFile fs₁ fs₂ (sub t "layercontents.plist")) :
    loadImpl P fs₁ t nothing = loadImpl P fs₂ t nothing :=
  unrequested_files_not_read P t nothing fs₁ fs₂
    ⟨hroot, hm, hi, hl, fun h => (by cases h), fun h => (by cases h), fun h => (by cases h), fun h => (by cases h),
     fun n d h => (by simp [shouldLoad, nothing] at h), fun h => (by cases h), fun h => (by cases h)⟩

/-! ### non-vacuity of the file-level theorem -/

def P0 : Parser Nat where
  metainfo _ := some (3, 1)
  lib _ := none
  fontinfo _ := none
  groups _ := some (2, true)
  kerning _ := none
  features _ := none
  layercontents _ := some [("bg".toList, "glyphs.bg".toList), ("public.default".toList, "glyphs".toList)]
  contents _ := some []
  layerinfo _ := none
  glif _ := none

def fs0 : FS Nat :=
  [(["t".toList], .dir), (["t".toList, "metainfo.plist".toList], .file 0),
   (["t".toList, "groups.plist".toList], .file 0),
   (["t".toList, "layercontents.plist".toList], .file 0),
   (["t".toList, "glyphs".toList], .dir), (["t".toList, "glyphs".toList, "contents.plist".toList], .file 0),
   (["t".toList, "glyphs.bg".toList], .dir), (["t".toList, "glyphs.bg".toList, "contents.plist".toList], .file 0)]

def bgOnly : Request :=
  { lib := false, groups := false, kerning := false, features := false, data := false, images := false,
    all := false, loadDefault := false, custom := some fun n _ => n == "bg".toList }

/-- the hypotheses are satisfiable, and the conclusion is what one expects: groups gone, the background layer kept,
    the default layer replaced by the placeholder in front -/
example : ∃ f, loadImpl P0 fs0 ["t".toList] Request.everything = .ok f ∧
    (∀ x ∈ f.layers.tail, isDefaultLayer x = false) ∧ PlainLayerDirs P0 fs0 ["t".toList] ∧
    f.groups = 2 ∧ (restrict bgOnly f).groups = 0 ∧
    (restrict bgOnly f).layers.map (·.name) = ["public.default".toList, "bg".toList] := by
  refine ⟨_, rfl, by decide, ?_, rfl, rfl, by decide⟩
  intro lc h
  have hrp : readParsed fs0 (sub ["t".toList] "layercontents.plist") P0.layercontents "layercontents.plist" =
      .ok [("bg".toList, "glyphs.bg".toList), ("public.default".toList, "glyphs".toList)] := by rfl
  rw [hrp] at h
  cases h
  decide

/-! ### non-vacuity: `none().filter_layers(|_,_| true)` on a two-layer font (the repaired defect) -/

def l0 : ALayer := { name := "public.default".toList, dir := "glyphs".toList, info := 0, entries := [] }
def l1 : ALayer := { name := "bg".toList, dir := "glyphs.bg".toList, info := 0, entries := [] }
def alwaysTrue : Request :=
  { lib := false, groups := false, kerning := false, features := false, data := false, images := false,
    all := false, loadDefault := false, custom := some fun _ _ => true }

example : finishLayers alwaysTrue ([l1, l0].filter fun l => shouldLoad alwaysTrue l.name l.dir) = .ok [l0, l1] := by
  rfl

example : finishLayers Request.everything [l1, l0] = .ok [l0, l1] := by rfl

/-! ### builder-call sequences: `Req.apply`, the documented meaning of each `DataRequest` call applied in order

The driver recomputes the request of every `seq=` recipe with `Req.apply` and disagrees when the harness's own
interpreter reports another one, so the expectation of the C17 oracle is this definition. -/

theorem apply_snoc (cs : List Call) (c : Call) : Req.apply (cs ++ [c]) = (Req.apply cs).step c := by
  simp [Req.apply, List.foldl_append]

/-- `all()` and `none()` reset everything, whatever came before -/
theorem all_none_reset (cs : List Call) :
    Req.apply (cs ++ [Call.all]) = Request.everything ∧ Req.apply (cs ++ [Call.none]) = Request.nothing := by
  simp [apply_snoc, Request.step]

theorem getPart_setPart (r : Request) (s s' : PartSwitch) (b : Bool) :
    (r.setPart s b).getPart s' = if s' = s then b else r.getPart s' := by
  cases s <;> cases s' <;> simp [Request.setPart, Request.getPart]

/-- a part call touches its own switch only -/
theorem part_call_touches_only_its_switch (r : Request) (s : PartSwitch) (b : Bool) :
    (r.step (.part s b)).all = r.all ∧ (r.step (.part s b)).loadDefault = r.loadDefault ∧
    (r.step (.part s b)).custom = r.custom ∧ ∀ s', s' ≠ s → (r.step (.part s b)).getPart s' = r.getPart s' := by
  refine ⟨?_, ?_, ?_, ?_⟩
  · cases s <;> rfl
  · cases s <;> rfl
  · cases s <;> rfl
  · intro s' h; simp [Request.step, getPart_setPart, h]

/-- layer calls do not touch the part switches -/
theorem layer_calls_keep_parts (r : Request) (s : PartSwitch) (b : Bool) (tag : Char) (p : Str → Str → Bool) :
    (r.step (.layers b)).getPart s = r.getPart s ∧ (r.step (.defaultLayer b)).getPart s = r.getPart s ∧
    (r.step (.filter tag p)).getPart s = r.getPart s := by
  cases s <;> simp [Request.step, Request.getPart]

/-- calls that neither reset nor set the switch `s` -/
def leaves (s : PartSwitch) : Call → Bool
  | .all => false
  | .none => false
  | .part s' _ => s' != s
  | _ => true

theorem step_leaves (r : Request) (s : PartSwitch) (c : Call) (hc : leaves s c = true) :
    (r.step c).getPart s = r.getPart s := by
  cases c with
  | all => simp [leaves] at hc
  | none => simp [leaves] at hc
  | layers b' => exact (layer_calls_keep_parts _ s b' 'x' (fun _ _ => true)).1
  | defaultLayer b' => exact (layer_calls_keep_parts _ s b' 'x' (fun _ _ => true)).2.1
  | filter tag p => exact (layer_calls_keep_parts _ s true tag p).2.2
  | part s' b' =>
    have : s ≠ s' := by
      intro e; subst e; simp [leaves] at hc
    simp [Request.step, getPart_setPart, this]

theorem foldl_leaves (s : PartSwitch) : ∀ (cs : List Call) (r : Request), (∀ c ∈ cs, leaves s c = true) →
    (cs.foldl Request.step r).getPart s = r.getPart s := by
  intro cs
  induction cs with
  | nil => intro r _; rfl
  | cons c rest ih =>
    intro r h
    simp only [List.foldl_cons]
    rw [ih (r.step c) (fun x hx => h x (List.mem_cons_of_mem _ hx)),
      step_leaves r s c (h c (List.mem_cons_self ..))]

/-- **the later call wins, per switch**: after `part s b`, calls that neither reset nor set `s` leave it at `b` -/
theorem later_call_wins (cs1 cs2 : List Call) (s : PartSwitch) (b : Bool)
    (h : ∀ c ∈ cs2, leaves s c = true) :
    (Req.apply (cs1 ++ [Call.part s b] ++ cs2)).getPart s = b := by
  unfold Req.apply
  rw [List.foldl_append, foldl_leaves s cs2 _ h, List.foldl_append]
  simp [Request.step, getPart_setPart]

theorem apply_snoc2 (cs : List Call) (a b : Call) :
    Req.apply (cs ++ [a, b]) = ((Req.apply cs).step a).step b := by
  simp [Req.apply, List.foldl_append]

/-- **`filter_layers(p)` then `default_layer(b)` keeps the predicate** (and the other order keeps the default flag):
    the two calls only agree on switching "all layers" off -/
theorem filter_then_default_keeps_predicate (cs : List Call) (tag : Char) (p : Str → Str → Bool) (b : Bool) :
    (Req.apply (cs ++ [Call.filter tag p, Call.defaultLayer b])).custom = some p ∧
    (Req.apply (cs ++ [Call.filter tag p, Call.defaultLayer b])).loadDefault = b ∧
    (Req.apply (cs ++ [Call.filter tag p, Call.defaultLayer b])).all = false ∧
    (Req.apply (cs ++ [Call.defaultLayer b, Call.filter tag p])).custom = some p ∧
    (Req.apply (cs ++ [Call.defaultLayer b, Call.filter tag p])).loadDefault = b ∧
    (Req.apply (cs ++ [Call.defaultLayer b, Call.filter tag p])).all = false := by
  simp [apply_snoc2, Request.step]

/-- `layers(true)` after a filter selects every layer again without removing the predicate -/
theorem layers_after_filter (cs : List Call) (tag : Char) (p : Str → Str → Bool) (n d : Str) :
    shouldLoad (Req.apply (cs ++ [Call.filter tag p, Call.layers true])) n d = true ∧
    (Req.apply (cs ++ [Call.filter tag p, Call.layers true])).custom = some p := by
  simp [apply_snoc2, Request.step, shouldLoad]

/-- every call is idempotent -/
theorem call_idempotent (r : Request) (c : Call) : (r.step c).step c = r.step c := by
  cases c with
  | part s b => cases s <;> rfl
  | _ => rfl

/-! ### source-level tie: which request switch guards which file in `Font::load_impl`, as the code says it NOW

`Generated.SaveOrder.loadSwitches` is regenerated from `src/font.rs` on every run.  The model's own table is not
written down: it is MEASURED on `loadImpl` — switch `s` guards file `c` iff corrupting `c` (and nothing else) makes
the load with only `s` requested fail. -/

namespace Source

def switchNames : List String := ["data", "features", "groups", "images", "kerning", "lib"]
def guarded : List String := ["data", "features.fea", "groups.plist", "images", "kerning.plist", "lib.plist"]

def probeParser : Parser Nat where
  metainfo _ := some (3, 1)
  lib b := if b = 9 then none else some (some [])
  fontinfo _ := none
  groups b := if b = 9 then none else some (1, true)
  kerning b := if b = 9 then none else some 1
  features b := if b = 9 then none else some 1
  layercontents _ := some [("public.default".toList, "glyphs".toList)]
  contents _ := some []
  layerinfo _ := none
  glif _ := none

/-- a complete small UFO in which exactly `corrupt` is unusable: a single file gets unparsable bytes, `data` is a plain
    file instead of a directory, `images` holds a sub-directory -/
def probeTree (corrupt : String) : FS Nat :=
  let top (name : String) : APath × Node Nat := (["t".toList, name.toList], .file (if corrupt = name then 9 else 0))
  [(["t".toList], .dir), top "metainfo.plist", top "layercontents.plist", (["t".toList, "glyphs".toList], .dir),
   (["t".toList, "glyphs".toList, "contents.plist".toList], .file 0),
   top "lib.plist", top "groups.plist", top "kerning.plist", top "features.fea",
   (["t".toList, "data".toList], if corrupt = "data" then .file 0 else .dir),
   (["t".toList, "images".toList], .dir)] ++
  (if corrupt = "images" then [(["t".toList, "images".toList, "sub".toList], .dir)] else [])

def onlySwitch (s : String) : Request :=
  { lib := s = "lib", groups := s = "groups", kerning := s = "kerning", features := s = "features",
    data := s = "data", images := s = "images", all := false, loadDefault := false, custom := none }

def loads (s c : String) : Bool :=
  match loadImpl probeParser (probeTree c) ["t".toList] (onlySwitch s) with
  | .ok _ => true
  | .error _ => false

/-- the switch → file table of the model, measured -/
def modelSwitches : List (List Char × List Char) :=
  switchNames.flatMap fun s => (guarded.filter fun c => !loads s c).map fun c => (s.toList, c.toList)

end Source

open Source Generated.SaveOrder in
/-- **The switch wiring of the source is the one of the model**: the extracted `request.<switch>` → file table equals
    the table measured on `loadImpl` (and the intact probe tree loads under every single-switch request, so each
    failure is due to the corrupted file). -/
theorem source_switches_match_model :
    loadSwitches = modelSwitches ∧ (switchNames.all fun s => loads s "") = true := by
  decide

/-! ### source-level tie: `DataRequest` / `LayerFilter` method by method, as the code says it NOW

`Generated.DataRequest` is regenerated from `src/data_request.rs` on every run by a translator (tools/
extract_data_request.py): the two structs with their Rust field names and every method of the two types, assignment by
assignment.  `toModel` reads the regenerated record as the model's `Request`; the theorems say that every builder call,
`should_load` and `includes_default_layer` of the regenerated code ARE `Request.step`, `shouldLoad`, `includesDefault` -
so every theorem above that quantifies over `r : Request` or over `Req.apply cs` is a theorem about the regenerated
code.  How `std::path::Path` compares (`path == Path::new("glyphs")`) is the parameter `pathEq`, instantiated with
equality of the component form (validated by the stream `C16path`). -/

namespace Source
open Generated.DataRequest

/-- the regenerated `DataRequest` (with its `LayerFilter`) read as the model's `Request` -/
def toModel (g : DataRequest) : Request :=
  { lib := g.lib, groups := g.groups, kerning := g.kerning, features := g.features, data := g.data,
    images := g.images, all := g.layers.all, loadDefault := g.layers.load_default, custom := g.layers.custom }

def genPart (g : DataRequest) : PartSwitch → Bool → DataRequest
  | .lib, b => DataRequest_lib g b
  | .groups, b => DataRequest_groups g b
  | .kerning, b => DataRequest_kerning g b
  | .features, b => DataRequest_features g b
  | .data, b => DataRequest_data g b
  | .images, b => DataRequest_images g b

/-- one builder call, executed by the regenerated code -/
def genStep (g : DataRequest) : Call → DataRequest
  | .all => DataRequest_all
  | .none => DataRequest_none
  | .layers b => DataRequest_layers g b
  | .defaultLayer b => DataRequest_default_layer g b
  | .filter _ p => DataRequest_filter_layers g p
  | .part s b => genPart g s b

/-- a chain of builder calls on the regenerated code (as `Req.apply`: it starts from `none()`, a leading `all()` /
    `none()` replaces that) -/
def genApply (cs : List Call) : DataRequest := cs.foldl genStep DataRequest_none

/-- `Path == Path`: equality of the component form -/
def pathEq (a b : Str) : Bool := Path.parse a == Path.parse b

/-- the public constructors and builder methods the model's `Call` type knows -/
def knownBuilders : List String :=
  ["all", "data", "default", "default_layer", "features", "filter_layers", "groups", "images", "kerning", "layers",
   "lib", "none"]

theorem genStep_eq_model (g : DataRequest) (c : Call) : toModel (genStep g c) = (toModel g).step c := by
  cases c with
  | part s b => cases s <;> rfl
  | _ => rfl

theorem genFold_eq_model : ∀ (cs : List Call) (g : DataRequest),
    toModel (cs.foldl genStep g) = cs.foldl Request.step (toModel g) := by
  intro cs
  induction cs with
  | nil => intro g; rfl
  | cons c r ih => intro g; simp only [List.foldl_cons]; rw [ih, genStep_eq_model]

end Source

open Source Generated.DataRequest in
/-- **The builder methods of the source are the model's `Request.step`**: the three constructors give the model's
    `everything` / `nothing`; every builder call executed by the regenerated method equals the model's step on the
    same request (all requests, all calls, any predicate); hence every chain of calls builds the request `Req.apply`
    computes; and the public methods of `DataRequest` that return a request are exactly the calls the model knows
    (a new builder would be a call no theorem speaks about). -/
theorem source_request_builders_eq_model :
    toModel DataRequest_all = Request.everything ∧ toModel DataRequest_default = Request.everything ∧
    toModel DataRequest_none = Request.nothing ∧
    (∀ (g : DataRequest) (c : Call), toModel (genStep g c) = (toModel g).step c) ∧
    (∀ cs : List Call, toModel (genApply cs) = Req.apply cs) ∧
    publicBuilders = knownBuilders :=
  ⟨rfl, rfl, rfl, genStep_eq_model, fun cs => genFold_eq_model cs DataRequest_none, by decide⟩

open Source Generated.DataRequest in
/-- **`LayerFilter::should_load` and `includes_default_layer` of the source are the model's**: clause by clause
    (`all`, the default-layer clause `load_default && path == "glyphs"`, the custom predicate with `false` when there is
    none), for every request, layer name and directory. -/
theorem source_layer_filter_eq_model (g : DataRequest) (name dir : Str) :
    LayerFilter_should_load pathEq g.layers name dir = shouldLoad (toModel g) name dir ∧
    LayerFilter_includes_default_layer g.layers = includesDefault (toModel g) := by
  refine ⟨?_, rfl⟩
  unfold LayerFilter_should_load shouldLoad toModel pathEq glyphsDir
  cases g.layers.custom <;> rfl

open Source Generated.DataRequest in
/-- **`partial_eq_restricted_full` for the requests the regenerated builders build**: whatever chain of builder calls
    produced the request, the partial load is the full load restricted to it, and the layers it selects are those the
    regenerated `should_load` selects. -/
theorem source_partial_eq_restricted_full (P : Parser β) (fs : FS β) (t : APath) (cs : List Call) (f : AFont β)
    (hfull : loadImpl P fs t Request.everything = .ok f)
    (hone : ∀ x ∈ f.layers.tail, isDefaultLayer x = false)
    (hplain : PlainLayerDirs P fs t) :
    loadImpl P fs t (toModel (genApply cs)) = .ok (restrict (toModel (genApply cs)) f) ∧
    ∀ n d, shouldLoad (toModel (genApply cs)) n d = LayerFilter_should_load pathEq (genApply cs).layers n d :=
  ⟨partial_eq_restricted_full P fs t _ f hfull hone hplain,
   fun n d => ((source_layer_filter_eq_model (genApply cs) n d).1).symm⟩

open Source Generated.DataRequest in
/-- non-vacuity: the regenerated code computes - `none().lib(true).default_layer(true)` asks for the lib and selects
    `glyphs` (also spelled `glyphs/`) and nothing else; a filter after `all()` switches "all layers" off -/
example :
    (toModel (genApply [.none, .part .lib true, .defaultLayer true])).lib = true ∧
    LayerFilter_should_load pathEq (genApply [.none, .defaultLayer true]).layers "x".toList "glyphs/".toList = true ∧
    LayerFilter_should_load pathEq (genApply [.none, .defaultLayer true]).layers "x".toList "glyphs.bg".toList = false ∧
    LayerFilter_should_load pathEq (genApply [.all, .filter 'n' fun n _ => n == "bg".toList]).layers "fg".toList
      "glyphs.fg".toList = false ∧
    LayerFilter_should_load pathEq (genApply [.all, .filter 'n' fun n _ => n == "bg".toList]).layers "bg".toList
      "glyphs.bg".toList = true := by
  decide

end C17
