import Norad.Props.C06
import Norad.Props.C11
import Norad.Props.C07
import Norad.Props.C13
import Norad.Props.C15
import Norad.Props.C18
import Norad.Props.C20
/-!
# C03 — every public entry point is total: errors are returned, never panics

In every model a place where the Rust can panic (`unwrap`, `expect`, slicing, `unreachable!`) is an
explicit outcome, never a totalised default, so totality is a family of theorems "the panic outcome is
unreachable", one per modelled entry point.  This file collects them (and states the ones that are
false on the tree as `_counterexample`s, recorded in `known_findings.txt`).  What no model can exhibit —
panics inside quick-xml / plist / serde on inputs the models never see, stack exhaustion, allocation
failure — is sampled by the support streams of `harness/src/c03.rs` and labelled as a test.
-/

/-! ## container operations and save (from the C06 model) -/
namespace Layers

/-- any history of container operations on a state satisfying the invariant: the only panic is the
    documented one (more than 99 file-name clashes) -/
theorem layer_ops_no_panic (lower : Str → Str) (assignG assignL : Str → List Str → Option Str)
    (valid : Str → Bool) (S : LayerSet) (op : Op) (site : String) (hS : SInv lower S)
    (h : (step lower assignG assignL valid S op).2 = .panic site) :
    site = "99 file-name clashes (documented)" :=
  no_undocumented_panic lower assignG assignL valid S op site hS h

/-- `Font::save` does not hit `expect("all glyphs in contents must exist")` when the indices are in step … -/
theorem save_no_panic_partial (lower : Str → Str) (S : LayerSet) (hS : SInv lower S) (hs : AllSync S) :
    ∃ t, saveTree S = .ok t := by
  obtain ⟨t, h, _⟩ := save_load_reloaded lower S hS hs
  exact ⟨t, h⟩

/-- … which every history avoiding the `entry` API guarantees; with `entry` it is false (recorded finding) -/
theorem save_no_panic_counterexample :
    saveTree afterEntryRemove = .panic "layer.rs:437 all glyphs in contents must exist" :=
  entry_remove_save_panics_counterexample.2

end Layers

/-! ## the `unreachable!()` of `end_path` (`builder.rs:154`) -/
namespace C11

/-- the wrap-around loop runs only for closed contours that passed the per-point checks, and such a
    contour holds no `move` point: the `unreachable!()` arm is unreachable -/
theorem end_path_unreachable_arm (pts : List Pt) (n : Nat) (hf : feed pts true 0 = .ok n)
    (hc : isClosed pts = true) : ∀ q ∈ pts, q.typ ≠ .move :=
  closed_no_move pts hc ((feed_top pts).1 ⟨n, hf⟩)

end C11

/-!
## entry points whose totality theorems live with their own property

They are part of C03's obligations (listed in `Audit/C03.lean`, re-checked on every C03 run):

* `C07.fileName_none_iff_100_rejections` — `user_name_to_file_name` panics only after 100 rejections (the
  documented panic); both `String::truncate` sites sit on character boundaries;
  `C07.backoff_steps_le_3` — the char-boundary back-off loop terminates within three steps.
* `C13.validate_never_panics`, `C13.saveInfo_never_panics`, `C13.loadInfo_never_panics` — the byte slicing of
  the creation date happens only after the all-ASCII check.
* `Kern.upconvert_no_panic_decimal` — the `unwrap`s of `upconvert_kerning` are safe and the unique-name
  loop terminates (fuel `groups.len() + 1` suffices).
* `C18.glue_never_panics` — the `unreachable!` of the plist-in-XML glue is unreachable
  (`C18.glue_never_panics_counterexample`: an unprintable date panics inside the plist crate; recorded).
* `C20.toKurbo_succeeds` — `Contour::to_kurbo` does not fail on any contour the parser accepts.
-/
