import Norad.Lemmas.C07
/-!
# C07 — assigned file names are portable, unique ignoring case, and stable (function level)

Property theorems only.  `userNameToFileName` is the transcription of
`norad::user_name_to_file_name` (`Model/C07.lean`), the predicates are the independent statements of
`Spec/C07.lean`.  `U` (`char::is_uppercase`) and `lower` (`str::to_lowercase`) are parameters: every
theorem holds for **every** function `lower`, and for every `U` (the reserved-word theorem needs `U`
to be true on ASCII `A`–`Z`).  `accept k s` is the answer of the caller's closure at its `k`-th call.
-/
namespace C07
open Spec

/-! ## the function never returns a candidate its caller rejected -/

/-- **the `AssignOK` contract**: a returned name was offered to the caller's closure, lower-cased, at
    some call `k ≤ 99`, and that call accepted it. -/
theorem fileName_accepted {U : Char → Bool} {lower : Str → Str} {name pre suf p : Str}
    {accept : Nat → Str → Bool}
    (h : userNameToFileName U lower name pre suf accept = some p) :
    ∃ k, k ≤ 99 ∧ accept k (lower p) = true := by
  obtain ⟨k, hk, _, ha, _⟩ := fileName_some h
  exact ⟨k, hk, ha⟩

/-- the same for a stateless closure (the form used by the containers: `accept = fun _ s => s ∉ taken`) -/
theorem fileName_accepted_stateless {U : Char → Bool} {lower : Str → Str} {name pre suf p : Str}
    {ok : Str → Bool}
    (h : userNameToFileName U lower name pre suf (fun _ => ok) = some p) : ok (lower p) = true := by
  obtain ⟨k, _, ha⟩ := fileName_accepted h
  exact ha

/-- sharper: the result is the **first** accepted one of the 100 candidates `candidate 0 … candidate 99`;
    the accepting call is the last call made, all earlier calls rejected. -/
theorem fileName_first_accepted {U : Char → Bool} {lower : Str → Str} {name pre suf p : Str}
    {accept : Nat → Str → Bool}
    (h : userNameToFileName U lower name pre suf accept = some p) :
    ∃ k, k ≤ 99 ∧ p = candidate U name pre suf k ∧ accept k (lower p) = true ∧
      ∀ j, j < k → accept j (lower (candidate U name pre suf j)) = false :=
  fileName_some h

/-- the only panic is the documented one: `none` exactly when all 100 candidates were rejected
    (in particular the two `String::truncate` calls never hit the inside of a character). -/
theorem fileName_none_iff_100_rejections {U : Char → Bool} {lower : Str → Str} {name pre suf : Str}
    {accept : Nat → Str → Bool} :
    userNameToFileName U lower name pre suf accept = none ↔
      ∀ k, k ≤ 99 → accept k (lower (candidate U name pre suf k)) = false :=
  fileName_none

/-! ## termination of the char-boundary back-off -/

/-- `while !is_char_boundary(b) { b -= 1 }` started inside the string stops after at most 3 steps
    (and never underflows: the model's recursion is structural on `b`). -/
theorem backoff_steps_le_3 {s : Str} {n : Nat} (h : n ≤ usize s) :
    backoff s n ≤ n ∧ n ≤ backoff s n + 3 := by
  refine ⟨?_, backoff_gap h⟩
  rw [backoff_eq]; exact usize_takeBytes_le n s

/-- the clipped string is the longest character prefix that fits: `truncate` never panics -/
theorem truncate_after_backoff (s : Str) (n : Nat) :
    truncateAt s (backoff s n) = some (takeBytes n s) ∧ takeBytes n s <+: s ∧
      usize (takeBytes n s) ≤ n :=
  ⟨truncateAt_backoff s n, takeBytes_prefix n s, usize_takeBytes_le n s⟩

/-! ## length -/

/- `fileName_len_255` (FULL STATEMENT, FALSE on the tree — recorded finding `clash-counter-257`):
   ∀ valid name, userNameToFileName … name [] ".glif" accept = some p → Len255 p.
   util.rs:151 compares `len - suffix_len + 2` with 255, which never fires for ".glif". -/

/-- 250 × `a`, first candidate taken: the counter makes a 257-byte `.glif` name -/
theorem fileName_len_255_counterexample :
    ∃ p, userNameToFileName (fun _ => false) id (List.replicate 250 'a') [] glifSuffix
        (fun k _ => k == 1) = some p ∧ ValidName (List.replicate 250 'a') ∧ ¬ Len255 p := by
  refine ⟨List.replicate 250 'a' ++ ['0', '1'] ++ glifSuffix, ?_, ?_, ?_⟩ <;> decide +kernel

end C07
