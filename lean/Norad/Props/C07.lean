import Norad.Lemmas.C07
import Norad.Generated.FileNameConsts
import Norad.Generated.FileNameFn
/-!
# C07 — assigned file names are portable, unique ignoring case, and stable (function level)

Property theorems only.  `userNameToFileName` is the transcription of
`norad::user_name_to_file_name` (`Model/C07.lean`), the predicates are the independent statements of
`Spec/C07.lean`.  `U` (`char::is_uppercase`) and `lower` (`str::to_lowercase`) are parameters: every
theorem holds for **every** function `lower`, and for every `U` (the reserved-word theorem needs `U`
to be true on ASCII `A`–`Z`).  `accept k s` is the answer of the caller's closure at its `k`-th call.
-/
namespace C07
open Spec

/-! ## the function never returns a candidate its caller rejected -/

/-- **the `AssignOK` contract**: a returned name was offered to the caller's closure, lower-cased, at
    some call `k ≤ 99`, and that call accepted it. -/
theorem fileName_accepted {U : Char → Bool} {lower : Str → Str} {name pre suf p : Str}
    {accept : Nat → Str → Bool}
    (h : userNameToFileName U lower name pre suf accept = some p) :
    ∃ k, k ≤ 99 ∧ accept k (lower p) = true := by
  obtain ⟨k, hk, _, ha, _⟩ := fileName_some h
  exact ⟨k, hk, ha⟩

/-- the same for a stateless closure (the form used by the containers: `accept = fun _ s => s ∉ taken`) -/
theorem fileName_accepted_stateless {U : Char → Bool} {lower : Str → Str} {name pre suf p : Str}
    {ok : Str → Bool}
    (h : userNameToFileName U lower name pre suf (fun _ => ok) = some p) : ok (lower p) = true := by
  obtain ⟨k, _, ha⟩ := fileName_accepted h
  exact ha

/-- sharper: the result is the **first** accepted one of the 100 candidates `candidate 0 … candidate 99`;
    the accepting call is the last call made, all earlier calls rejected. -/
theorem fileName_first_accepted {U : Char → Bool} {lower : Str → Str} {name pre suf p : Str}
    {accept : Nat → Str → Bool}
    (h : userNameToFileName U lower name pre suf accept = some p) :
    ∃ k, k ≤ 99 ∧ p = candidate U name pre suf k ∧ accept k (lower p) = true ∧
      ∀ j, j < k → accept j (lower (candidate U name pre suf j)) = false :=
  fileName_some h

/-- …and conversely: this determines the result -/
theorem fileName_eq_some_iff {U : Char → Bool} {lower : Str → Str} {name pre suf p : Str}
    {accept : Nat → Str → Bool} :
    userNameToFileName U lower name pre suf accept = some p ↔
      ∃ k, k ≤ 99 ∧ p = candidate U name pre suf k ∧ accept k (lower p) = true ∧
        ∀ j, j < k → accept j (lower (candidate U name pre suf j)) = false := by
  refine ⟨fileName_some, fun ⟨k, hk, hp, ha, hrej⟩ => ?_⟩
  cases hr : userNameToFileName U lower name pre suf accept with
  | none =>
    have := fileName_none.1 hr k hk
    rw [← hp, ha] at this; cases this
  | some q =>
    obtain ⟨k', hk', hq, ha', hrej'⟩ := fileName_some hr
    have : k' = k := by
      rcases Nat.lt_trichotomy k' k with h | h | h
      · have := hrej k' h; rw [← hq, ha'] at this; cases this
      · exact h
      · have := hrej' k h; rw [← hp, ha] at this; cases this
    subst this; rw [hq, hp]

/-- the only panic is the documented one: `none` exactly when all 100 candidates were rejected
    (in particular the two `String::truncate` calls never hit the inside of a character). -/
theorem fileName_none_iff_100_rejections {U : Char → Bool} {lower : Str → Str} {name pre suf : Str}
    {accept : Nat → Str → Bool} :
    userNameToFileName U lower name pre suf accept = none ↔
      ∀ k, k ≤ 99 → accept k (lower (candidate U name pre suf k)) = false :=
  fileName_none

/-! ## portability of the returned name -/

/-- one path component: non-empty, not `.`/`..`, none of the 14 banned characters (so neither `/` nor
    `\`), no control character — for both affix pairs norad uses and every valid name -/
theorem fileName_single_component {U : Char → Bool} {lower : Str → Str} {name pre suf p : Str}
    {accept : Nat → Str → Bool} (hw : Wrapper pre suf) (hv : ValidName name)
    (h : userNameToFileName U lower name pre suf accept = some p) : SingleComponent p := by
  obtain ⟨k, _, hp, _, _⟩ := fileName_some h
  have hlen := candidate_wrapper_length (U := U) (name := name) hw k
  rw [← hp] at hlen
  have hg := candidate_good (U := U) (k := k) hv.2 (wrapper_good hw).1 (wrapper_good hw).2
  rw [← hp] at hg
  refine ⟨?_, ?_, ?_, hg⟩ <;> intro he <;> rw [he] at hlen <;> simp at hlen

/-- the result never starts with a period (glif files; for layer directories it starts with `g`) -/
theorem fileName_no_leading_period {U : Char → Bool} {lower : Str → Str} {name pre suf p : Str}
    {accept : Nat → Str → Bool} (hw : Wrapper pre suf) (hv : ValidName name)
    (h : userNameToFileName U lower name pre suf accept = some p) : NoLeadingPeriod p := by
  obtain ⟨k, _, hp, _, _⟩ := fileName_some h
  unfold NoLeadingPeriod
  rcases hw with ⟨h1, h2⟩ | ⟨h1, h2⟩ <;> subst h1 <;> subst h2
  · obtain ⟨x, hx, hx'⟩ := glif_head (U := U) hv.1 k
    rw [hp, hx]; intro he; injection he with he; exact hx' he
  · obtain ⟨t, ht⟩ := layer_glyphs U name k
    rw [hp, ← ht]; simp

/-- the result never ends with a period or a space — for **every** prefix, every name and every suffix
    that does not itself end so (norad's suffixes are `.glif` and the empty string) -/
theorem fileName_no_trailing_period_or_space {U : Char → Bool} {lower : Str → Str}
    {name pre suf p : Str} {accept : Nat → Str → Bool}
    (hs : ∀ x, suf.getLast? = some x → x ≠ '.' ∧ x ≠ ' ')
    (h : userNameToFileName U lower name pre suf accept = some p) : NoTrailingPeriodOrSpace p := by
  obtain ⟨k, _, hp, _, _⟩ := fileName_some h
  have hs' : ∀ x, suf.getLast? = some x → isDotSp x = false := by
    intro x hx; have := hs x hx; simp [isDotSp, this.1, this.2]
  have := candidate_last (U := U) (name := name) (pre := pre) (k := k) hs'
  rw [← hp] at this
  constructor <;> intro he <;> have := this _ he <;> simp [isDotSp] at this

/-- the suffix is always carried, whatever the affixes -/
theorem fileName_suffix {U : Char → Bool} {lower : Str → Str} {name pre suf p : Str}
    {accept : Nat → Str → Bool}
    (h : userNameToFileName U lower name pre suf accept = some p) : suf <:+ p := by
  obtain ⟨k, _, hp, _, _⟩ := fileName_some h
  rw [hp]; exact candidate_suffix U name pre suf k

/- `fileName_affixes` (FULL STATEMENT, FALSE on the tree for the layer wrapper — recorded finding
   `layer-prefix-eaten`): ∀ valid name, Wrapper pre suf → … = some p → HasAffixes pre suf p.
   The trailing-run replacement (util.rs:128-138) does not stop at the prefix. -/

/-- glif files carry `.glif`; layer directories carry `glyphs.` whenever the layer name does not
    start with a period or a space -/
theorem fileName_affixes_partial {U : Char → Bool} {lower : Str → Str} {name pre suf p : Str}
    {accept : Nat → Str → Bool} (hw : Wrapper pre suf)
    (hguard : pre = [] ∨ ∃ c cs, name = c :: cs ∧ c ≠ '.' ∧ c ≠ ' ')
    (h : userNameToFileName U lower name pre suf accept = some p) : HasAffixes pre suf p := by
  refine ⟨?_, fileName_suffix h⟩
  obtain ⟨k, _, hp, _, _⟩ := fileName_some h
  rcases hguard with h1 | ⟨c, cs, hn, hc1, hc2⟩
  · subst h1; exact List.nil_prefix
  · rcases hw with ⟨h1, h2⟩ | ⟨h1, h2⟩ <;> subst h1 <;> subst h2
    · exact List.nil_prefix
    · subst hn; rw [hp]
      exact layer_prefix_kept (by simp [isDotSp, hc1, hc2]) k

/-- **the exact guard** (for every `U` that is false on period and space, as `char::is_uppercase` is):
    a layer directory carries `glyphs.` iff the longest character prefix of the layer name within 248
    **bytes** contains something else than periods and spaces.  (Bytes, not characters: 247 periods
    followed by a 4-byte character lose the prefix, the character is clipped away.)  The driver uses
    exactly this condition as the feature `dotsp-name` of the recorded finding. -/
theorem fileName_affixes_layer_iff {U : Char → Bool} {lower : Str → Str} {name p : Str}
    {accept : Nat → Str → Bool} (hU : U '.' = false ∧ U ' ' = false)
    (h : userNameToFileName U lower name layerPrefix [] accept = some p) :
    HasAffixes layerPrefix [] p ↔ (takeBytes 248 name).all isDotSp = false := by
  obtain ⟨k, _, hp, _, _⟩ := fileName_some h
  rw [hp, ← layer_prefix_iff hU name k]
  exact ⟨fun h => h.1, fun h => ⟨h, List.nil_suffix⟩⟩

/-- …and even then the six letters `glyphs` are there -/
theorem fileName_layer_glyphs {U : Char → Bool} {lower : Str → Str} {name p : Str}
    {accept : Nat → Str → Bool}
    (h : userNameToFileName U lower name layerPrefix [] accept = some p) :
    ['g', 'l', 'y', 'p', 'h', 's'] <+: p := by
  obtain ⟨k, _, hp, _, _⟩ := fileName_some h
  rw [hp]; exact layer_glyphs U name k

/-- layer name `" "` (valid) gets the directory `glyphs__` -/
theorem fileName_affixes_layer_counterexample :
    ∃ p, layerDirName (fun _ => false) id [' '] [] = some p ∧ ValidName [' '] ∧
      ¬ HasAffixes layerPrefix [] p := by
  refine ⟨['g', 'l', 'y', 'p', 'h', 's', '_', '_'], ?_, ?_, ?_⟩ <;> decide +kernel

/-- the part before the first period, ASCII-lower-cased, is none of the 22 device names — for every
    `U` that is true on ASCII `A`–`Z`, both affix pairs, every name (valid or not), every clash count -/
theorem fileName_not_reserved {U : Char → Bool} {lower : Str → Str} {name pre suf p : Str}
    {accept : Nat → Str → Bool} (hw : Wrapper pre suf)
    (hU : ∀ c : Char, 'A'.toNat ≤ c.toNat ∧ c.toNat ≤ 'Z'.toNat → U c = true)
    (h : userNameToFileName U lower name pre suf accept = some p) : NotReserved p := by
  obtain ⟨k, _, hp, _, _⟩ := fileName_some h
  rw [hp]
  rcases hw with ⟨h1, h2⟩ | ⟨h1, h2⟩ <;> subst h1 <;> subst h2
  · exact glif_not_reserved (fun c hc => hU c (by simpa [isAU] using hc)) name k
  · exact layer_not_reserved U name k

/-! ## termination of the char-boundary back-off -/

/-- `while !is_char_boundary(b) { b -= 1 }` started inside the string stops after at most 3 steps
    (and never underflows: the model's recursion is structural on `b`). -/
theorem backoff_steps_le_3 {s : Str} {n : Nat} (h : n ≤ usize s) :
    backoff s n ≤ n ∧ n ≤ backoff s n + 3 := by
  refine ⟨?_, backoff_gap h⟩
  rw [backoff_eq]; exact usize_takeBytes_le n s

/-- the clipped string is the longest character prefix that fits: `truncate` never panics -/
theorem truncate_after_backoff (s : Str) (n : Nat) :
    truncateAt s (backoff s n) = some (takeBytes n s) ∧ takeBytes n s <+: s ∧
      usize (takeBytes n s) ≤ n :=
  ⟨truncateAt_backoff s n, takeBytes_prefix n s, usize_takeBytes_le n s⟩

/-! ## length -/

/- `fileName_len_255` (FULL STATEMENT, FALSE on the tree — recorded finding `clash-counter-257`):
   ∀ valid name, userNameToFileName … name [] ".glif" accept = some p → Len255 p.
   util.rs:151 compares `len - suffix_len + 2` with 255, which never fires for ".glif". -/

/-- at most 255 bytes whenever the first candidate is accepted **or** the suffix is empty (layer
    directories), and never more than 257 — for every prefix, every suffix of at most 255 bytes and
    every string `name` -/
theorem fileName_len_255_partial {U : Char → Bool} {lower : Str → Str} {name pre suf p : Str}
    {accept : Nat → Str → Bool} (hs : utf8Len suf ≤ 255)
    (h : userNameToFileName U lower name pre suf accept = some p) :
    utf8Len p ≤ 257 ∧
    (accept 0 (lower (candidate U name pre suf 0)) = true ∨ suf = [] → Len255 p) := by
  obtain ⟨k, _, hp, _, hrej⟩ := fileName_some h
  have hl := candidate_len (U := U) (name := name) (pre := pre) (k := k) (suf := suf) hs
  rw [← hp] at hl
  refine ⟨hl.1, fun hg => ?_⟩
  rcases hg with hg | hg
  · have hk : k = 0 := by
      cases k with
      | zero => rfl
      | succ n => have := hrej 0 (by omega); rw [hg] at this; cases this
    subst hk; rw [hp]
    exact candidate_zero_len (U := U) (name := name) (pre := pre) hs
  · exact hl.2 hg

/-- 250 × `a`, first candidate taken: the counter makes a 257-byte `.glif` name -/
theorem fileName_len_255_counterexample :
    ∃ p, userNameToFileName (fun _ => false) id (List.replicate 250 'a') [] glifSuffix
        (fun k _ => k == 1) = some p ∧ ValidName (List.replicate 250 'a') ∧ ¬ Len255 p := by
  refine ⟨List.replicate 250 'a' ++ ['0', '1'] ++ glifSuffix, ?_, ?_, ?_⟩ <;> decide +kernel

/-! ## source-level tie (DESIGN 3.5)

`Generated.FileNameConsts` is regenerated from `src/util.rs` of the checked tree on every run
(`tools/extract_filename_consts.py`).  The theorems below are therefore about what the code says
**now**: a changed constant, list entry, counter range or wrapper affix makes one of them fail (an
undischarged obligation), and the search then looks for the concrete name. -/

/-- the model's constants are the ones in the source -/
theorem source_consts_match_model :
    Generated.FileNameConsts.maxLen = maxLen ∧ Generated.FileNameConsts.numberLen = numberLen := by
  decide

/-- `SPECIAL_ILLEGAL` of the source and the model's list have the same members (the code only tests
    membership, so order and repetition are a harmless rewrite) -/
theorem source_illegal_matches_model :
    (∀ c ∈ Generated.FileNameConsts.illegal, c ∈ illegal) ∧
    (∀ c ∈ illegal, c ∈ Generated.FileNameConsts.illegal) := by decide

/-- `SPECIAL_RESERVED` of the source and the model's list have the same members -/
theorem source_reserved_matches_model :
    (∀ w ∈ Generated.FileNameConsts.reserved, w ∈ reserved) ∧
    (∀ w ∈ reserved, w ∈ Generated.FileNameConsts.reserved) := by decide

/-- the counter loop of the model (`tryCounters … 99 1`) is the source's range `1..100`: the whole
    function written with the extracted bounds -/
theorem source_counter_range (U : Char → Bool) (lower : Str → Str) (name pre suf : Str)
    (accept : Nat → Str → Bool) :
    userNameToFileName U lower name pre suf accept =
      if accept 0 (lower (body U name pre suf ++ suf)) then some (body U name pre suf ++ suf)
      else tryCounters lower accept (counterBase U name pre suf) suf
        (Generated.FileNameConsts.counterHi - Generated.FileNameConsts.counterLo)
        Generated.FileNameConsts.counterLo := by
  rw [fileName_unfold]; rfl

/-- every counter in the source's range has exactly `NUMBER_LEN` digits (`{:0>2}` never widens) -/
theorem source_counter_fits_number_len :
    1 ≤ Generated.FileNameConsts.counterLo ∧
    Generated.FileNameConsts.counterHi ≤ 10 ^ Generated.FileNameConsts.numberLen := by decide

/-- the affix pairs the two wrappers of the source pass are exactly the pairs the portability
    theorems (`Wrapper`) are about -/
theorem source_wrappers_are_covered :
    Generated.FileNameConsts.glyphAffixes = ([], glifSuffix) ∧
    Generated.FileNameConsts.layerAffixes = (layerPrefix, []) ∧
    Wrapper Generated.FileNameConsts.glyphAffixes.1 Generated.FileNameConsts.glyphAffixes.2 ∧
    Wrapper Generated.FileNameConsts.layerAffixes.1 Generated.FileNameConsts.layerAffixes.2 := by
  decide

/-- independent of the model: what the source bans / reserves covers the specification's tables, and
    the source's limit is the specification's 255 -/
theorem source_tables_cover_spec :
    (∀ c ∈ illegalChars, c ∈ Generated.FileNameConsts.illegal) ∧
    (∀ w ∈ deviceNames, w ∈ Generated.FileNameConsts.reserved) ∧
    Generated.FileNameConsts.maxLen ≤ 255 := by decide

/-- the length theorem restated with the source's constants -/
theorem source_fileName_len {U : Char → Bool} {lower : Str → Str} {name pre suf p : Str}
    {accept : Nat → Str → Bool} (hs : utf8Len suf ≤ Generated.FileNameConsts.maxLen)
    (h : userNameToFileName U lower name pre suf accept = some p) :
    utf8Len p ≤ Generated.FileNameConsts.maxLen + Generated.FileNameConsts.numberLen ∧
    (suf = [] → utf8Len p ≤ Generated.FileNameConsts.maxLen) := by
  have h1 := source_consts_match_model
  have := fileName_len_255_partial (by rw [h1.1] at hs; exact hs) h
  rw [h1.1, h1.2]
  exact ⟨this.1, fun hsuf => this.2 (Or.inr hsuf)⟩

/-! ## the translated source equals the model

`C07.Gen.*` (`Generated/FileNameFn.lean`) is the statement-by-statement translation of `src/util.rs` made by
`tools/extract_filename_consts.py` on every run.  Each section is proved equal, as a function, to the
corresponding block of the hand-written model; `source_userNameToFileName_eq_model` composes them, so every
theorem of this file is a theorem about the source as it stands. -/

theorem gen_illegal_mem (c : Char) : c ∈ Generated.FileNameConsts.illegal ↔ c ∈ illegal := by
  have h : (∀ c ∈ Generated.FileNameConsts.illegal, c ∈ illegal) ∧
      (∀ c ∈ illegal, c ∈ Generated.FileNameConsts.illegal) := by decide
  exact ⟨h.1 c, h.2 c⟩

theorem gen_reserved_mem (w : Str) : w ∈ Generated.FileNameConsts.reserved ↔ w ∈ reserved := by
  have h : (∀ w ∈ Generated.FileNameConsts.reserved, w ∈ reserved) ∧
      (∀ w ∈ reserved, w ∈ Generated.FileNameConsts.reserved) := by decide
  exact ⟨h.1 w, h.2 w⟩

theorem source_escChar_eq_model : Gen.escChar = escChar := by
  funext U b c
  unfold Gen.escChar escChar
  simp only [gen_illegal_mem]

theorem source_escapeInto_eq_model : Gen.escapeInto = escapeInto := by
  funext U acc name
  induction name generalizing acc with
  | nil => rfl
  | cons c cs ih => unfold Gen.escapeInto escapeInto; rw [source_escChar_eq_model, ih]

theorem source_insertReserved_eq_model : Gen.insertReserved = insertReserved := by
  funext r
  unfold Gen.insertReserved insertReserved
  have : Gen.stem r = stem r := rfl
  rw [this]
  simp only [gen_reserved_mem]
  split <;> simp [Gen.insertAtByte]

theorem gen_maxLen : Generated.FileNameConsts.maxLen = maxLen := by decide
theorem gen_numberLen : Generated.FileNameConsts.numberLen = numberLen := by decide

theorem source_clip_eq_model : Gen.clip = fun _ suf r => clip suf r := by
  funext pre suf r
  unfold Gen.clip clip
  rw [gen_maxLen]

theorem source_cutForCounter_eq_model : Gen.cutForCounter = fun _ suf r => cutForCounter r suf := by
  funext pre suf r
  unfold Gen.cutForCounter cutForCounter
  rw [gen_maxLen, gen_numberLen]

theorem gen_dotsp (c : Char) : ['.', ' '].contains c = isDotSp c := by
  unfold isDotSp
  by_cases h1 : c = '.'
  · subst h1; rfl
  · by_cases h2 : c = ' '
    · subst h2; rfl
    · simp [h1, h2]

theorem gen_fixTrailing_eq : Gen.fixTrailing = fixTrailing := by
  funext r
  unfold Gen.fixTrailing fixTrailing
  have : (fun c => ['.', ' '].contains c) = isDotSp := funext gen_dotsp
  rw [this]

theorem fixTrailing_of_not_endsWith {r : Str} (h : Gen.endsWithAny r ['.', ' '] = false) :
    fixTrailing r = r := by
  have hk : r.reverse.takeWhile isDotSp = [] := by
    cases hr : r.reverse with
    | nil => rfl
    | cons y ys =>
      have hl : r.getLast? = some y := by rw [← List.head?_reverse, hr]; rfl
      unfold Gen.endsWithAny at h
      rw [hl] at h
      simp only at h
      rw [gen_dotsp] at h
      rw [List.takeWhile_cons, h]; rfl
  unfold fixTrailing
  simp [hk]

theorem source_trailing_eq_model :
    Gen.trailing = fun _ suf r => if suf.isEmpty then fixTrailing r else r := by
  funext pre suf r
  unfold Gen.trailing
  rw [gen_fixTrailing_eq]
  cases hs : suf.isEmpty with
  | false => simp
  | true =>
    cases he : Gen.endsWithAny r ['.', ' '] with
    | true => simp
    | false => simp [fixTrailing_of_not_endsWith he]

theorem truncate_counter (base suf : Str) (k : Nat) :
    truncateAt (base ++ twoDigits k ++ suf)
      (usize (base ++ twoDigits k ++ suf) - usize suf - Generated.FileNameConsts.numberLen) = some base := by
  have : usize (base ++ twoDigits k ++ suf) - usize suf - Generated.FileNameConsts.numberLen = usize base := by
    rw [gen_numberLen]
    simp only [usize_append, twoDigits_usize, numberLen]; omega
  rw [this, List.append_assoc]
  exact truncateAt_prefix _ _

theorem source_tryCounters_eq_model (U : Char → Bool) (lower : Str → Str) (accept : Nat → Str → Bool)
    (pre suf : Str) (fuel k : Nat) (base : Str) :
    Gen.tryCounters U lower accept pre suf fuel k base = tryCounters lower accept base suf fuel k := by
  induction fuel generalizing k with
  | zero => rfl
  | succ fuel ih =>
    unfold Gen.tryCounters tryCounters
    simp only
    split
    · rfl
    · rw [truncate_counter]
      exact ih (k + 1)

theorem source_userNameToFileName_eq_model : Gen.userNameToFileName = userNameToFileName := by
  funext U lower name pre suf accept
  unfold Gen.userNameToFileName userNameToFileName firstCandidate
  simp only [List.nil_append, source_escapeInto_eq_model, source_insertReserved_eq_model, source_clip_eq_model, source_trailing_eq_model,
    source_cutForCounter_eq_model]
  cases clip suf (insertReserved (escapeInto U pre name)) with
  | none => rfl
  | some r =>
    simp only
    generalize (if suf.isEmpty = true then fixTrailing r else r) ++ suf = c
    by_cases ha : accept 0 (lower c) = true
    · simp only [ha, if_true]
    · simp only [ha, if_false]
      cases cutForCounter c suf with
      | none => rfl
      | some b => exact source_tryCounters_eq_model ..

theorem source_wrappers_eq_model : Gen.glyphFileName = glyphFileName ∧ Gen.layerDirName = layerDirName := by
  constructor <;> funext U lower name existing
  · unfold Gen.glyphFileName glyphFileName; rw [source_userNameToFileName_eq_model]; rfl
  · unfold Gen.layerDirName layerDirName; rw [source_userNameToFileName_eq_model]; rfl


/-- every theorem above transfers; e.g. the `AssignOK` contract and the first-accepted characterisation
    for the function as translated from the source -/
theorem source_fileName_accepted_stateless {U : Char → Bool} {lower : Str → Str} {name pre suf p : Str}
    {ok : Str → Bool}
    (h : Gen.userNameToFileName U lower name pre suf (fun _ => ok) = some p) : ok (lower p) = true := by
  rw [source_userNameToFileName_eq_model] at h; exact fileName_accepted_stateless h

theorem source_fileName_eq_some_iff {U : Char → Bool} {lower : Str → Str} {name pre suf p : Str}
    {accept : Nat → Str → Bool} :
    Gen.userNameToFileName U lower name pre suf accept = some p ↔
      ∃ k, k ≤ 99 ∧ p = candidate U name pre suf k ∧ accept k (lower p) = true ∧
        ∀ j, j < k → accept j (lower (candidate U name pre suf j)) = false := by
  rw [source_userNameToFileName_eq_model]; exact fileName_eq_some_iff

/-- the glif wrapper of the source yields a portable single component for every valid glyph name -/
theorem source_glyphFileName_portable {U : Char → Bool} {lower : Str → Str} {name p : Str} {existing : List Str}
    (hU : ∀ c : Char, 'A'.toNat ≤ c.toNat ∧ c.toNat ≤ 'Z'.toNat → U c = true) (hv : ValidName name)
    (h : Gen.glyphFileName U lower name existing = some p) :
    SingleComponent p ∧ NoLeadingPeriod p ∧ NoTrailingPeriodOrSpace p ∧ NotReserved p ∧
      HasAffixes [] glifSuffix p ∧ existing.contains (lower p) = false := by
  rw [source_wrappers_eq_model.1] at h
  have hw : Wrapper [] glifSuffix := Or.inl ⟨rfl, rfl⟩
  refine ⟨fileName_single_component hw hv h, fileName_no_leading_period hw hv h,
    fileName_no_trailing_period_or_space (by decide) h, fileName_not_reserved hw hU h,
    fileName_affixes_partial hw (Or.inl rfl) h, ?_⟩
  have := fileName_accepted_stateless (ok := fun s => !existing.contains s) h
  simpa using this

/-! ## non-vacuity: the hypotheses are satisfiable and the conclusions not trivially true -/

example : Wrapper [] glifSuffix ∧ Wrapper layerPrefix [] := ⟨Or.inl ⟨rfl, rfl⟩, Or.inr ⟨rfl, rfl⟩⟩
example : ValidName ['A', '.', 'c', 'o', 'n'] := by decide
example : ¬ ValidName [] ∧ ¬ ValidName ['a', Char.ofNat 0x85] := by decide
/-- `A.con` → `A_.con.glif` -/
example : glyphFileName (fun c => c == 'A') id ['A', '.', 'c', 'o', 'n'] [] =
    some ['A', '_', '.', 'c', 'o', 'n', '.', 'g', 'l', 'i', 'f'] := by decide
/-- `con` → `_con.glif`, and with that taken (ignoring case) → `_con01.glif` -/
example : glyphFileName (fun _ => false) id ['c', 'o', 'n'] [['_', 'c', 'o', 'n', '.', 'g', 'l', 'i', 'f']] =
    some ['_', 'c', 'o', 'n', '0', '1', '.', 'g', 'l', 'i', 'f'] := by decide
/-- layer `.x ` → `glyphs..x_` -/
example : layerDirName (fun _ => false) id ['.', 'x', ' '] [] =
    some ['g', 'l', 'y', 'p', 'h', 's', '.', '.', 'x', '_'] := by decide
/-- the guard of `fileName_affixes_partial` holds for ordinary layer names and fails for `" "` -/
example : ∃ c cs, ['a', ' '] = c :: cs ∧ c ≠ '.' ∧ c ≠ ' ' := ⟨'a', [' '], rfl, by decide, by decide⟩
/-- the documented panic is reachable: a closure that rejects everything -/
example : userNameToFileName (fun _ => false) id ['a'] [] glifSuffix (fun _ _ => false) = none := by
  decide +kernel
/-- acceptance at the 99th counter, the last one -/
example : userNameToFileName (fun _ => false) id ['a'] [] glifSuffix (fun k _ => k == 99) =
    some ['a', '9', '9', '.', 'g', 'l', 'i', 'f'] := by decide +kernel
/-- the predicates are not trivially true -/
example : ¬ SingleComponent ['a', '/', 'b'] ∧ ¬ NoLeadingPeriod ['.', 'a'] ∧
    ¬ NoTrailingPeriodOrSpace ['a', ' '] ∧ ¬ NotReserved ['C', 'o', 'N', '.', 'x'] ∧
    ¬ HasAffixes [] glifSuffix ['a'] := by decide
/-- the back-off really backs off: index 2 inside `é` (bytes 1..2) goes to 1 -/
example : backoff ['a', 'é', 'b'] 2 = 1 ∧ truncateAt ['a', 'é', 'b'] 2 = none ∧
    truncateAt ['a', 'é', 'b'] 1 = some ['a'] := by decide

end C07
