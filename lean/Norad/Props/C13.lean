import Norad.Lemmas.FontInfo
/-!
# C13 — font info is accepted exactly when it satisfies the specification's rules
-/
namespace C13
open FI

/-- a refusal is final: once a check fails the later ones are not consulted -/
theorem andThen_ok_iff (o k : Outcome) : o.andThen k = .ok ↔ o = .ok ∧ k = .ok := andThen_ok o k

end C13
