import Norad.Lemmas.FontInfoTie
import Norad.Lemmas.FontInfoDeserTie
import Norad.Generated.FontInfoRules
import Norad.Generated.FontInfoDeser
/-!
# C13 — font info is accepted exactly when it satisfies the specification's rules

Property theorems only.  `validate`, `saveInfo`, `loadInfo` are the transcriptions of
`FontInfo::validate`, the font-info part of `Font::save` and `FontInfo::from_file` (format 3) in
`Model/FontInfo.lean`; `Rules` is the independent per-rule statement in `Spec/FontInfo.lean`.

History: on the pinned tree the full statement was false twice (month `00` / day `00` accepted; a
guideline angle was checked by the serialiser only, after `Font::save` had removed the target).  Both
are repaired on branch fix/fontinfo; the model follows the repaired code, so the full theorem holds.
The two old witnesses stay below as regression examples and in `corpus/C13/`.
-/
namespace C13
open FI

/-- **C13, full strength**: `validate` accepts a font info exactly when every rule of the
    statement holds of it — for all values, of any size -/
theorem validate_iff_rules (i : Info) : validate i = .ok ↔ Rules i := by
  unfold validate
  simp only [andThen_ok, (checkDate_spec i).2, (checkGasp_spec i).2, (checkGuidelines_spec i).2,
    (checkSelection_spec i).2, (checkFamilyClass_spec i).2, (checkBlue_spec _ _).2,
    (checkStem_spec _).2, (checkExtensions_spec i).2, (checkNonEmpty_spec _).2]
  constructor
  · rintro ⟨a, b, ⟨c1, c2⟩, d, e, f1, f2, f3, f4, g1, g2, h, w1, w2, w3, w4⟩
    exact ⟨a, b, c1, c2, d, e, f1, f2, f3, f4, g1, g2, h, w1, w2, w3, w4⟩
  · intro h
    exact ⟨h.date, h.gasp, ⟨h.ids, h.angles⟩, h.selection, h.familyClass, h.blueValues, h.otherBlues,
      h.familyBlues, h.familyOtherBlues, h.stemSnapH, h.stemSnapV, h.extensions, h.credits,
      h.copyright, h.description, h.trademark⟩

/-- no slice of the date is ever taken off a character boundary (the ASCII test precedes the slicing) -/
theorem validate_never_panics (i : Info) : validate i ≠ .panic := by
  unfold validate
  repeat' (first
    | exact (checkNonEmpty_spec _).1
    | apply andThen_ne_panic)
  all_goals first
    | exact (checkDate_spec i).1 | exact (checkGasp_spec i).1 | exact (checkGuidelines_spec i).1
    | exact (checkSelection_spec i).1 | exact (checkFamilyClass_spec i).1 | exact (checkBlue_spec _ _).1
    | exact (checkStem_spec _).1 | exact (checkExtensions_spec i).1 | exact (checkNonEmpty_spec _).1

/-- the executable oracle the driver evaluates on the implementation's verdicts is the rule set -/
theorem violated_nil_iff (i : Info) : violated i = [] ↔ Rules i := by
  unfold violated
  simp only [List.append_eq_nil_iff, ite_eq_left_iff, imp_false, Decidable.not_not,
    List.cons_ne_nil]
  constructor
  · rintro ⟨⟨⟨⟨⟨⟨⟨⟨⟨⟨⟨⟨⟨⟨⟨⟨a, b⟩, c1⟩, c2⟩, d⟩, e⟩, f1⟩, f2⟩, f3⟩, f4⟩, g1⟩, g2⟩, h⟩, w1⟩, w2⟩, w3⟩, w4⟩
    exact ⟨a, b, c1, c2, d, e, f1, f2, f3, f4, g1, g2, h, w1, w2, w3, w4⟩
  · intro h
    exact ⟨⟨⟨⟨⟨⟨⟨⟨⟨⟨⟨⟨⟨⟨⟨⟨h.date, h.gasp⟩, h.ids⟩, h.angles⟩, h.selection⟩, h.familyClass⟩, h.blueValues⟩,
      h.otherBlues⟩, h.familyBlues⟩, h.familyOtherBlues⟩, h.stemSnapH⟩, h.stemSnapV⟩, h.extensions⟩,
      h.credits⟩, h.copyright⟩, h.description⟩, h.trademark⟩

/-- **save**: accepted exactly when the rules hold -/
theorem saveInfo_ok_iff (i : Info) : saveInfo i = .ok ↔ Rules i := by
  unfold saveInfo
  cases hv : validate i with
  | err k => simp only [reduceCtorEq, false_iff]; intro h; rw [(validate_iff_rules i).2 h] at hv; cases hv
  | panic => exact absurd hv (validate_never_panics i)
  | ok =>
    have hr := (validate_iff_rules i).1 hv
    have hs := (serializeInfo_spec i).2.2 hr.angles
    simp [hs, hr]

/-- whatever the writer of `fontinfo.plist` refuses, `validate` has refused before the target
    directory was touched (the hole of the unrepaired tree: a guideline angle) -/
theorem save_never_fails_late (i : Info) (k : Kind) : saveInfo i ≠ .late k := by
  unfold saveInfo
  cases hv : validate i with
  | err k' => simp
  | panic => simp
  | ok =>
    have hr := (validate_iff_rules i).1 hv
    have hs := (serializeInfo_spec i).2.2 hr.angles
    simp [hs]

theorem saveInfo_never_panics (i : Info) : saveInfo i ≠ .panic := by
  unfold saveInfo
  cases hv : validate i with
  | err k' => simp
  | panic => exact absurd hv (validate_never_panics i)
  | ok =>
    have hr := (validate_iff_rules i).1 hv
    have hs := (serializeInfo_spec i).2.2 hr.angles
    simp [hs]

/-- a loaded font info was accepted by `validate` -/
theorem loaded_validates (r : RawInfo) (i : Info) (h : loadInfo r = .loaded i) : validate i = .ok := by
  unfold loadInfo at h
  cases hd : deser r with
  | none => simp [hd] at h
  | some i' =>
    simp only [hd] at h
    cases hv : validate i' with
    | ok => simp only [hv, LoadResult.loaded.injEq] at h; rw [← h]; exact hv
    | err k => simp [hv] at h
    | panic => simp [hv] at h

theorem loadInfo_never_panics (r : RawInfo) : loadInfo r ≠ .panic := by
  unfold loadInfo
  cases hd : deser r with
  | none => simp
  | some i' =>
    simp only
    cases hv : validate i' with
    | ok => simp
    | err k => simp
    | panic => exact absurd hv (validate_never_panics i')

/-- **the three entry points agree** on every value that can reach all three -/
theorem entry_points_agree (i : Info) (ht : WellTyped i) :
    (saveInfo i = .ok ↔ validate i = .ok) ∧ (loadInfo (toRaw i) = .loaded i ↔ validate i = .ok) := by
  refine ⟨by rw [saveInfo_ok_iff, validate_iff_rules], ⟨loaded_validates _ _, ?_⟩⟩
  intro hv
  have hr := (validate_iff_rules i).1 hv
  unfold loadInfo
  rw [deser_toRaw i ht hr.angles]
  simp [hv]

/-- **a loaded font never holds a font info that violates the rules** -/
theorem loaded_info_satisfies_rules (r : RawInfo) (i : Info) (h : loadInfo r = .loaded i) : Rules i :=
  (validate_iff_rules i).1 (loaded_validates r i h)

/-- **a saved file never contains a font info that violates the rules** -/
theorem saved_info_satisfies_rules (i : Info) (h : saveInfo i = .ok) : Rules i :=
  (saveInfo_ok_iff i).1 h

/-- which rule a refusal names is not part of the property; what is: a refusal means a violated rule -/
theorem validate_error_means_violation (i : Info) (k : Kind) (h : validate i = .err k) : ¬ Rules i := by
  intro hr
  rw [(validate_iff_rules i).2 hr] at h
  cases h

/-- **which rule a refusal names**: the kind reported by `validate` is the kind of a rule the value
    really violates (the first one in source order, since a refusal is final — `andThen_err`) -/
theorem validate_error_kind (i : Info) (k : Kind) (h : validate i = .err k) : KindViolated k i := by
  unfold validate at h
  simp only [andThen_err] at h
  have ne_ok : ∀ {o : Outcome}, o = .err k → o ≠ .ok := fun e => by rw [e]; simp
  rcases h with h | ⟨_, h | ⟨_, h | ⟨_, h | ⟨_, h | ⟨_, h | ⟨_, h | ⟨_, h | ⟨_, h | ⟨_, h | ⟨_, h | ⟨_, h |
    ⟨_, h | ⟨_, h | ⟨_, h | ⟨_, h⟩⟩⟩⟩⟩⟩⟩⟩⟩⟩⟩⟩⟩⟩⟩
  · exact checkDate_err i k h
  · exact checkGasp_err i k h
  · exact checkGuidelines_err i k h
  · exact checkSelection_err i k h
  · exact checkFamilyClass_err i k h
  · rcases checkBlue_err _ _ k h with ⟨e, hn⟩ | ⟨e, hn⟩ <;> subst e <;> exact fun hh => hn hh.1
  · rcases checkBlue_err _ _ k h with ⟨e, hn⟩ | ⟨e, hn⟩ <;> subst e <;> exact fun hh => hn hh.2.1
  · rcases checkBlue_err _ _ k h with ⟨e, hn⟩ | ⟨e, hn⟩ <;> subst e <;> exact fun hh => hn hh.2.2.1
  · rcases checkBlue_err _ _ k h with ⟨e, hn⟩ | ⟨e, hn⟩ <;> subst e
    · exact fun hh => hn hh.2.2.2.1
    · exact fun hh => hn hh.2.2.2
  · obtain ⟨e, hn⟩ := checkStem_err _ k h; subst e; exact fun hh => hn hh.2.2.2.2.1
  · obtain ⟨e, hn⟩ := checkStem_err _ k h; subst e; exact fun hh => hn hh.2.2.2.2.2
  · have e := checkExtensions_err i k h; subst e
    exact fun hh => ne_ok h ((checkExtensions_spec i).2.2 hh.1)
  · have e := checkNonEmpty_err _ k h; subst e
    exact fun hh => ne_ok h ((checkNonEmpty_spec _).2.2 hh.2.1)
  · have e := checkNonEmpty_err _ k h; subst e
    exact fun hh => ne_ok h ((checkNonEmpty_spec _).2.2 hh.2.2.1)
  · have e := checkNonEmpty_err _ k h; subst e
    exact fun hh => ne_ok h ((checkNonEmpty_spec _).2.2 hh.2.2.2.1)
  · have e := checkNonEmpty_err _ k h; subst e
    exact fun hh => ne_ok h ((checkNonEmpty_spec _).2.2 hh.2.2.2.2)

example : KindViolated .listLen { blueValues := some 15 } := by simp [KindViolated, lenWithin]

/-! ### source-level tie of the rule constants (tools/extract_fontinfo_rules.py)

`Generated.FontInfoRules.*` is regenerated from `src/fontinfo.rs` on every run.  `model_consts_describe_validate`
and `spec_table_describes_rules` are stable (they do not mention the generated file): they say that the mirrored
tables / the rule table describe the model / the specification.  The `source_*` theorems compare the generated
constants with both, set-wise, so a changed limit breaks an obligation and a reordering does not. -/

theorem rules_single {i : Info} {P : Prop} (hto : Rules i → P)
    (hfrom : P → Rules i) : validate i = .ok ↔ P := by
  rw [validate_iff_rules]; exact ⟨hto, hfrom⟩

open RuleTable in
/-- the mirrored tables say what the model does: the date chain *is* the chain of `ModelConsts.dateOps`,
    the character test and the length test use `dateExtraChars` / `dateLength`, and each list, the selection
    bits, the family class and (integral) angles are accepted by `validate` exactly within the mirrored bounds -/
theorem model_consts_describe_validate :
    (∀ v, dateChain v = chainOf v ModelConsts.dateOps) ∧
    (∀ c, okChar c = (('0' ≤ c && c ≤ '9') || ModelConsts.dateExtraChars.contains c)) ∧
    (∀ v, byteLen v ≠ ModelConsts.dateLength → validateDate v = .err .date) ∧
    (∀ n, validate { blueValues := some n } = .ok ↔
      n ≤ limitOf ModelConsts.listLimits "postscript_blue_values" ∧
      (ModelConsts.pairLists.contains "postscript_blue_values" = true → n % 2 = 0)) ∧
    (∀ n, validate { otherBlues := some n } = .ok ↔
      n ≤ limitOf ModelConsts.listLimits "postscript_other_blues" ∧
      (ModelConsts.pairLists.contains "postscript_other_blues" = true → n % 2 = 0)) ∧
    (∀ n, validate { familyBlues := some n } = .ok ↔
      n ≤ limitOf ModelConsts.listLimits "postscript_family_blues" ∧
      (ModelConsts.pairLists.contains "postscript_family_blues" = true → n % 2 = 0)) ∧
    (∀ n, validate { familyOtherBlues := some n } = .ok ↔
      n ≤ limitOf ModelConsts.listLimits "postscript_family_other_blues" ∧
      (ModelConsts.pairLists.contains "postscript_family_other_blues" = true → n % 2 = 0)) ∧
    (∀ n, validate { stemSnapH := some n } = .ok ↔
      n ≤ limitOf ModelConsts.listLimits "postscript_stem_snap_h" ∧
      (ModelConsts.pairLists.contains "postscript_stem_snap_h" = true → n % 2 = 0)) ∧
    (∀ n, validate { stemSnapV := some n } = .ok ↔
      n ≤ limitOf ModelConsts.listLimits "postscript_stem_snap_v" ∧
      (ModelConsts.pairLists.contains "postscript_stem_snap_v" = true → n % 2 = 0)) ∧
    (∀ l, validate { selection := some l } = .ok ↔ ∀ b ∈ ModelConsts.selectionForbidden, b ∉ l) ∧
    (∀ c s, validate { familyClass := some (c, s) } = .ok ↔
      (ModelConsts.classRange.1 ≤ c ∧ c ≤ ModelConsts.classRange.2) ∧
      (ModelConsts.subclassRange.1 ≤ s ∧ s ≤ ModelConsts.subclassRange.2)) ∧
    (∀ k : Nat, validate { guidelines := some [⟨none, .angle (.fin false k 0 0)⟩] } = .ok ↔
      ModelConsts.angleRange.1 ≤ k ∧ k ≤ ModelConsts.angleRange.2) := by
  have l1 : limitOf ModelConsts.listLimits "postscript_blue_values" = 14 := by decide
  have l2 : limitOf ModelConsts.listLimits "postscript_other_blues" = 10 := by decide
  have l3 : limitOf ModelConsts.listLimits "postscript_family_blues" = 14 := by decide
  have l4 : limitOf ModelConsts.listLimits "postscript_family_other_blues" = 10 := by decide
  have l5 : limitOf ModelConsts.listLimits "postscript_stem_snap_h" = 12 := by decide
  have l6 : limitOf ModelConsts.listLimits "postscript_stem_snap_v" = 12 := by decide
  have p1 : ModelConsts.pairLists.contains "postscript_blue_values" = true := by decide
  have p2 : ModelConsts.pairLists.contains "postscript_other_blues" = true := by decide
  have p3 : ModelConsts.pairLists.contains "postscript_family_blues" = true := by decide
  have p4 : ModelConsts.pairLists.contains "postscript_family_other_blues" = true := by decide
  have p5 : ModelConsts.pairLists.contains "postscript_stem_snap_h" = false := by decide
  have p6 : ModelConsts.pairLists.contains "postscript_stem_snap_v" = false := by decide
  refine ⟨fun v => rfl, ?_, ?_, ?_, ?_, ?_, ?_, ?_, ?_, ?_, ?_, ?_⟩
  · intro c
    simp [okChar, ModelConsts.dateExtraChars, Bool.or_assoc]
    rfl
  · intro v h
    simp only [ModelConsts.dateLength] at h
    simp [validateDate, h]
  · intro n; rw [l1, p1]
    exact rules_single (fun h => ⟨h.blueValues.1, fun _ => h.blueValues.2⟩)
      (fun h => by constructor <;> first | exact ⟨h.1, h.2 rfl⟩ | exact True.intro)
  · intro n; rw [l2, p2]
    exact rules_single (fun h => ⟨h.otherBlues.1, fun _ => h.otherBlues.2⟩)
      (fun h => by constructor <;> first | exact ⟨h.1, h.2 rfl⟩ | exact True.intro)
  · intro n; rw [l3, p3]
    exact rules_single (fun h => ⟨h.familyBlues.1, fun _ => h.familyBlues.2⟩)
      (fun h => by constructor <;> first | exact ⟨h.1, h.2 rfl⟩ | exact True.intro)
  · intro n; rw [l4, p4]
    exact rules_single (fun h => ⟨h.familyOtherBlues.1, fun _ => h.familyOtherBlues.2⟩)
      (fun h => by constructor <;> first | exact ⟨h.1, h.2 rfl⟩ | exact True.intro)
  · intro n; rw [l5, p5]
    exact rules_single (fun h => ⟨h.stemSnapH, fun e => by cases e⟩)
      (fun h => by constructor <;> first | exact h.1 | exact True.intro)
  · intro n; rw [l6, p6]
    exact rules_single (fun h => ⟨h.stemSnapV, fun e => by cases e⟩)
      (fun h => by constructor <;> first | exact h.1 | exact True.intro)
  · intro l
    have e : (∀ b ∈ ModelConsts.selectionForbidden, b ∉ l) ↔ SelectionOK l := by
      simp [ModelConsts.selectionForbidden, SelectionOK]
    rw [e]
    exact rules_single (fun h => h.selection)
      (fun h => by constructor <;> first | exact h | exact True.intro)
  · intro c s
    have e : ((ModelConsts.classRange.1 ≤ c ∧ c ≤ ModelConsts.classRange.2) ∧
        (ModelConsts.subclassRange.1 ≤ s ∧ s ≤ ModelConsts.subclassRange.2)) ↔ ClassOK (c, s) := by
      simp [ModelConsts.classRange, ModelConsts.subclassRange, ClassOK]
    rw [e]
    exact rules_single (fun h => h.familyClass)
      (fun h => by constructor <;> first | exact h | exact True.intro)
  · intro k
    have e : (ModelConsts.angleRange.1 ≤ k ∧ k ≤ ModelConsts.angleRange.2) ↔
        AnglesOK [⟨none, .angle (.fin false k 0 0)⟩] := by
      simp [ModelConsts.angleRange, AnglesOK, lineAngleOK, Dbl.in0to360, Dbl.num, Dbl.den]
    rw [e]
    exact rules_single (fun h => h.angles)
      (fun h => by
        constructor <;> first
          | exact h
          | exact True.intro
          | (show IdsUnique _; simp [IdsUnique]))

open RuleTable in
/-- the independent rule table says what the specification predicates say -/
theorem spec_table_describes_rules :
    (∀ n, BlueOK 14 n ↔ n ≤ limitOf listLimits "postscript_blue_values" ∧ n % 2 = 0) ∧
    (∀ n, BlueOK 10 n ↔ n ≤ limitOf listLimits "postscript_other_blues" ∧ n % 2 = 0) ∧
    (∀ n, BlueOK 14 n ↔ n ≤ limitOf listLimits "postscript_family_blues" ∧ n % 2 = 0) ∧
    (∀ n, BlueOK 10 n ↔ n ≤ limitOf listLimits "postscript_family_other_blues" ∧ n % 2 = 0) ∧
    (∀ n, StemOK n ↔ n ≤ limitOf listLimits "postscript_stem_snap_h") ∧
    (∀ n, StemOK n ↔ n ≤ limitOf listLimits "postscript_stem_snap_v") ∧
    (∀ l, SelectionOK l ↔ ∀ b ∈ selectionForbidden, b ∉ l) ∧
    (∀ p, ClassOK p ↔ p.1 ≤ classMax ∧ p.2 ≤ subclassMax) ∧
    (∀ k : Nat, lineAngleOK (.angle (.fin false k 0 0)) = true ↔ angleRange.1 ≤ k ∧ k ≤ angleRange.2) ∧
    (∀ v, DateOK v → v.length = dateLength ∧ (∀ pc ∈ dateSeparators, v[pc.1]? = some pc.2) ∧
      (∀ f ∈ dateFields, f.2.1 ≤ num2 v f.1 ∧ num2 v f.1 ≤ f.2.2)) ∧
    (¬ Rules { woffExtensions := some [] } ∧ ¬ Rules { woffCredits := some 0 } ∧
     ¬ Rules { woffCopyright := some 0 } ∧ ¬ Rules { woffDescription := some 0 } ∧
     ¬ Rules { woffTrademark := some 0 } ∧ Rules { woffLicense := some 0 }) := by
  refine ⟨?_, ?_, ?_, ?_, ?_, ?_, ?_, ?_, ?_, ?_, ?_⟩
  · intro n; have : limitOf listLimits "postscript_blue_values" = 14 := by decide
    rw [this]; rfl
  · intro n; have : limitOf listLimits "postscript_other_blues" = 10 := by decide
    rw [this]; rfl
  · intro n; have : limitOf listLimits "postscript_family_blues" = 14 := by decide
    rw [this]; rfl
  · intro n; have : limitOf listLimits "postscript_family_other_blues" = 10 := by decide
    rw [this]; rfl
  · intro n; have : limitOf listLimits "postscript_stem_snap_h" = 12 := by decide
    rw [this]; rfl
  · intro n; have : limitOf listLimits "postscript_stem_snap_v" = 12 := by decide
    rw [this]; rfl
  · intro l; simp [selectionForbidden, SelectionOK]
  · intro p; simp [classMax, subclassMax, ClassOK]
  · intro k; simp [angleRange, lineAngleOK, Dbl.in0to360, Dbl.num, Dbl.den]
  · intro v hd
    have hl : v.length = 19 := hd.1
    obtain ⟨c0, c1, c2, c3, c4, c5, c6, c7, c8, c9, c10, c11, c12, c13, c14, c15, c16, c17, c18, rfl⟩ := len19 v hl
    rw [dateOK_19] at hd
    obtain ⟨_, s4, s7, s10, s13, s16, x5, x8, x11, x14, x17⟩ := hd
    refine ⟨rfl, ?_, ?_⟩
    · simp [dateSeparators, s4, s7, s10, s13, s16]
    · simp only [dateFields, List.mem_cons, List.not_mem_nil, or_false, forall_eq_or_imp, forall_eq, num2,
        List.getD_cons_succ, List.getD_cons_zero]
      exact ⟨x5, x8, ⟨Nat.zero_le _, x11⟩, ⟨Nat.zero_le _, x14⟩, ⟨Nat.zero_le _, x17⟩⟩
  · refine ⟨fun h => ?_, fun h => ?_, fun h => ?_, fun h => ?_, fun h => ?_, ?_⟩
    · exact h.extensions.1 rfl
    · exact absurd h.credits (by simp [whenSome, NonEmpty])
    · exact absurd h.copyright (by simp [whenSome, NonEmpty])
    · exact absurd h.description (by simp [whenSome, NonEmpty])
    · exact absurd h.trademark (by simp [whenSome, NonEmpty])
    · constructor <;> exact True.intro

/-- the six list limits and the "must be pairs" set of the source are the model's and the statement's -/
theorem source_limits_match_model :
    sameSet Generated.FontInfoRules.listLimits ModelConsts.listLimits ∧
    sameSet Generated.FontInfoRules.pairLists ModelConsts.pairLists ∧
    sameSet Generated.FontInfoRules.listLimits RuleTable.listLimits ∧
    sameSet Generated.FontInfoRules.pairLists RuleTable.pairLists ∧
    (Generated.FontInfoRules.listLimits.map (·.1)).Nodup := by decide +kernel

/-- date: length, character whitelist and every operand of the chain (slices, separators, ranges) -/
theorem source_date_ranges_match_model :
    Generated.FontInfoRules.dateLength = ModelConsts.dateLength ∧
    sameSet Generated.FontInfoRules.dateExtraChars ModelConsts.dateExtraChars ∧
    sameSet Generated.FontInfoRules.dateOps ModelConsts.dateOps ∧
    Generated.FontInfoRules.dateLength = RuleTable.dateLength ∧
    sameSet (fieldsOf Generated.FontInfoRules.dateOps) RuleTable.dateFields ∧
    sameSet (separatorsOf Generated.FontInfoRules.dateOps) RuleTable.dateSeparators ∧
    yearsOf Generated.FontInfoRules.dateOps = [RuleTable.dateYear] ∧
    (∀ op ∈ Generated.FontInfoRules.dateOps, op.2.2.1 ≤ Generated.FontInfoRules.dateLength) := by
  decide +kernel

theorem source_selection_bits_match_model :
    sameSet Generated.FontInfoRules.selectionForbidden ModelConsts.selectionForbidden ∧
    sameSet Generated.FontInfoRules.selectionForbidden RuleTable.selectionForbidden := by decide +kernel

theorem source_family_class_matches_model :
    Generated.FontInfoRules.classRange = ModelConsts.classRange ∧
    Generated.FontInfoRules.subclassRange = ModelConsts.subclassRange ∧
    Generated.FontInfoRules.classRange = (0, RuleTable.classMax) ∧
    Generated.FontInfoRules.subclassRange = (0, RuleTable.subclassMax) := by decide +kernel

theorem source_angle_range_matches_model :
    Generated.FontInfoRules.angleRange = ModelConsts.angleRange ∧
    Generated.FontInfoRules.angleRange = RuleTable.angleRange := by decide +kernel

/-- the WOFF attributes the source tests for emptiness are the ones the statement demands content of
    (no more: the license text stays optional), and the extension records are tested at all three levels -/
theorem source_woff_checks_match_spec :
    sameSet (Generated.FontInfoRules.woffNonEmpty.map (·.1)) RuleTable.woffNonEmpty ∧
    sameSet Generated.FontInfoRules.woffNested ["items", "names", "values"] := by decide +kernel

/-! ### source-level tie of the typed deserialisers (tools/extract_fontinfo_deser.py)

`Generated.FontInfoDeser.*` is regenerated from `src/fontinfo.rs`, `src/guideline.rs`, `src/shared_types.rs` and
`src/identifier.rs` on every run: per typed member of `FontInfo` what its `Deserialize` accepts, as written in the
Rust (enum texts and discriminants, fixed lengths with element types, record members, the guideline `match` as a
truth table, ranges).  `usedBy` resolves member -> type -> impl the way serde does and `acceptUsed` is the acceptor
those tables denote.  `model_deser_tables_describe_deser` is stable: over the mirrored literals the acceptor IS the
model's typed layer.  The `source_deser_*` theorems are about the generated file. -/

/-- the regenerated tables, bundled -/
def GenDeser : DeserTables :=
  { aliases := Generated.FontInfoDeser.aliases, typedFields := Generated.FontInfoDeser.typedFields,
    styleNamesRead := Generated.FontInfoDeser.styleNamesRead, reprEnums := Generated.FontInfoDeser.reprEnums,
    fixedLen := Generated.FontInfoDeser.fixedLen, records := Generated.FontInfoDeser.records,
    guidelineTable := Generated.FontInfoDeser.guidelineTable,
    guidelineAngleRange := Generated.FontInfoDeser.guidelineAngleRange }

/-- the acceptor the Rust source denotes NOW (a member whose type cannot be resolved accepts nothing) -/
def sourceAccepts (r : RawInfo) : Bool :=
  match usedBy GenDeser with
  | some u => acceptUsed u r
  | none => false

/-- over the mirrored literals the interpreted acceptor is the typed layer of the model, for every value -/
theorem model_deser_tables_describe_deser (r : RawInfo) : acceptUsed ModelUsed r = (deser r).isSome :=
  acceptUsed_model r

/-- what the source says the typed members accept is what the model's `deser` uses -/
theorem source_deser_tables_match_model : usedBy GenDeser = some ModelUsed := by decide +kernel

/-- the acceptor regenerated from the source accepts exactly the file-level values the model's typed layer accepts,
    and a load succeeds with `i` exactly when that acceptor accepts, `i` is the typed value and the rules hold:
    "accepted by load iff the rules hold" is a statement about the regenerated acceptors -/
theorem source_deser_rules_match_model :
    (∀ r, sourceAccepts r = (deser r).isSome) ∧
    (∀ r i, loadInfo r = .loaded i ↔ (sourceAccepts r = true ∧ deser r = some i ∧ Rules i)) := by
  have hs : ∀ r, sourceAccepts r = (deser r).isSome := by
    intro r
    unfold sourceAccepts
    rw [source_deser_tables_match_model]
    exact acceptUsed_model r
  refine ⟨hs, ?_⟩
  intro r i
  rw [hs]
  unfold loadInfo
  cases hd : deser r with
  | none => simp
  | some j =>
    have hv := validate_iff_rules j
    have hp := validate_never_panics j
    simp only [Option.isSome_some, true_and, Option.some.injEq]
    cases hj : validate j with
    | ok =>
      rw [hj] at hv
      dsimp only
      constructor
      · intro h; injection h with h; subst h; exact ⟨rfl, hv.1 rfl⟩
      · rintro ⟨h, _⟩; subst h; rfl
    | err k =>
      rw [hj] at hv
      dsimp only
      constructor
      · intro h; cases h
      · rintro ⟨h, hr⟩; subst h; exact absurd (hv.2 hr) (by simp)
    | panic => exact absurd hj hp

open DeserRuleTable in
/-- what the source says single values must look like is what the file format demands: enumeration texts and
    ranges, fixed lengths (read at the indices 0..n-1), which members are bit lists / non-negative integers /
    non-negative numbers, the record keys, identifier and colour syntax, the guideline shapes and the angle range;
    what norad writes for an enumeration is what it reads -/
theorem source_deser_rules_match_spec :
    sameSet (Generated.FontInfoDeser.styleNamesRead.map (·.1)) DeserRuleTable.styleNames ∧
    Generated.FontInfoDeser.styleNamesWritten = Generated.FontInfoDeser.styleNamesRead ∧
    (Generated.FontInfoDeser.styleNamesRead.map (·.2)).Nodup ∧
    sameSet (Generated.FontInfoDeser.woffDirsRead.map (·.1)) woffDirections ∧
    Generated.FontInfoDeser.woffDirsWritten = Generated.FontInfoDeser.woffDirsRead ∧
    sameSet (Generated.FontInfoDeser.woffDirHolders.map (·.1)) woffDirRecords ∧
    (lookupS Generated.FontInfoDeser.reprEnums "Os2WidthClass").map (·.2) = some (rangeList widthClass) ∧
    (lookupS Generated.FontInfoDeser.reprEnums "PostscriptWindowsCharacterSet").map (·.2) =
      some (rangeList windowsCharacterSet) ∧
    (lookupS Generated.FontInfoDeser.reprEnums "GaspBehavior").map (·.2) = some (rangeList gaspBehaviorBits) ∧
    (lookupS Generated.FontInfoDeser.fixedLen "Os2FamilyClass").map (·.2) =
      some (familyClassLength, List.range familyClassLength) ∧
    (lookupS Generated.FontInfoDeser.fixedLen "Os2Panose").map (·.2) =
      some (panoseLength, List.range panoseLength) ∧
    (lookupS Generated.FontInfoDeser.fixedLen "Os2PanoseV2").map (·.2) =
      some (panoseLength, List.range panoseLength) ∧
    sameSet ((Generated.FontInfoDeser.typedFields.filter (fun p => (vecElemMax p.2).isSome)).map (·.1)) bitLists ∧
    sameSet ((Generated.FontInfoDeser.typedFields.filter (fun p => (primMax p.2).isSome)).map (·.1))
      nonNegativeIntegers ∧
    sameSet ((Generated.FontInfoDeser.typedFields.filter (fun p => p.2 == "NonNegativeIntegerOrFloat")).map (·.1))
      nonNegativeNumbers ∧
    Generated.FontInfoDeser.nonNegativeTest ∈ nonNegativeTests ∧
    (lookupS Generated.FontInfoDeser.records "NameRecord").map (fun p => (p.1, p.2.map (·.1))) =
      some (true, ["encodingID", "languageID", "nameID", "platformID", "string"]) ∧
    sameSet ["encodingID", "languageID", "nameID", "platformID", "string"] nameRecordKeys ∧
    (lookupS Generated.FontInfoDeser.records "GaspRangeRecord").map (fun p => (p.1, p.2.map (·.1))) =
      some (true, ["rangeGaspBehavior", "rangeMaxPPEM"]) ∧
    sameSet ["rangeGaspBehavior", "rangeMaxPPEM"] gaspRecordKeys ∧
    (Generated.FontInfoDeser.identMaxLen = identMaxLen ∧ Generated.FontInfoDeser.identByteRange = identRange) ∧
    (Generated.FontInfoDeser.colorSeparator = colorSeparator ∧ Generated.FontInfoDeser.colorParsed = colorChannels ∧
      Generated.FontInfoDeser.colorTested = colorChannels ∧ Generated.FontInfoDeser.colorRange = colorRange) ∧
    (∀ x y a : Bool, guideOutcome Generated.FontInfoDeser.guidelineTable x y a = guidelineKind x y a) ∧
    Generated.FontInfoDeser.guidelineAngleRange = angleRange ∧
    (Generated.FontInfoDeser.rawGuidelineDenyUnknown = true ∧
      sameSet (Generated.FontInfoDeser.rawGuidelineMembers.map (·.1)) guidelineKeys) := by
  decide +kernel

/-! ### non-vacuity and the regression witnesses -/

def goodDate : List Char := "2020/06/15 12:30:30".toList

def sample : Info :=
  { created := some goodDate, gasp := some [7, 7, 65535], selection := some [1, 2, 7, 9],
    guidelines := some [⟨some "a".toList, .vertical⟩, ⟨none, .angle (.fin false 360 0 0)⟩, ⟨some "b".toList, .horizontal⟩],
    familyClass := some (14, 15), blueValues := some 14, otherBlues := some 10, stemSnapH := some 12,
    woffExtensions := some [[⟨1, 1⟩], [⟨2, 1⟩, ⟨1, 3⟩]], woffCredits := some 1, woffLicense := some 0 }

example : validate sample = .ok := by decide
example : Rules sample := (validate_iff_rules sample).1 (by decide)
example : saveInfo sample = .ok := by decide
example : loadInfo (toRaw sample) = .loaded sample := by decide
example : WellTyped sample := ⟨by decide, by decide, by decide⟩
-- each rule can fail on its own
example : validate { sample with blueValues := some 15 } = .err .listLen := by decide
example : validate { sample with blueValues := some 16 } = .err .listLen := by decide
example : validate { sample with otherBlues := some 12 } = .err .listLen := by decide
example : validate { sample with blueValues := some 13 } = .err .listPairs := by decide
example : validate { sample with stemSnapH := some 13 } = .err .listLen := by decide
example : validate { sample with selection := some [1, 5] } = .err .selBits := by decide
example : validate { sample with familyClass := some (15, 0) } = .err .familyClass := by decide
example : validate { sample with familyClass := some (0, 16) } = .err .familyClass := by decide
example : validate { sample with gasp := some [1, 3, 2] } = .err .gasp := by decide
example : validate { sample with woffExtensions := some [[⟨1, 1⟩], []] } = .err .emptyWoff := by decide
example : validate { sample with woffCredits := some 0 } = .err .emptyWoff := by decide
example : validate { sample with guidelines := some [⟨some "a".toList, .vertical⟩, ⟨some "a".toList, .horizontal⟩] }
    = .err .dupId := by decide
example : validate { sample with created := some "2020/06/15 24:30:30".toList } = .err .date := by decide
example : validate { sample with created := some "2020/02/31 23:59:59".toList } = .ok := by decide
-- a 19-byte string with a two-byte character is refused by the character test, not by a panic
example : validate { sample with created := some "202é/06/15 12:30:3".toList } = .err .date := by decide
-- regression witnesses of the two repaired defects
example : validate { created := some "2020/00/00 00:00:00".toList } = .err .date := by decide
example : validate { created := some "2020/01/00 00:00:00".toList } = .err .date := by decide
example : validate { guidelines := some [⟨none, .angle (.fin false 400 0 0)⟩] } = .err .angle := by decide
example : saveInfo { guidelines := some [⟨none, .angle (.fin false 400 0 0)⟩] } = .refused .angle := by decide
example : loadInfo { guidelines := some [⟨true, true, some (.fin false 400 0 0), none⟩] } = .parseErr := by decide

-- the typed layer: witnesses for both sides of every member the tables speak about
example : sourceAccepts (toRaw sample) = true := by decide +kernel
example : sourceAccepts
    { widthClass := some 9, winCharSet := some 20, styleMap := some "bold italic".toList,
      panose := some [0, 1, 2, 3, 4, 5, 6, 7, 8, 4294967295] } = true := by decide +kernel
example : sourceAccepts { widthClass := some 10 } = false := by decide +kernel
example : sourceAccepts { widthClass := some 0 } = false := by decide +kernel
example : sourceAccepts { winCharSet := some 21 } = false := by decide +kernel
example : sourceAccepts { styleMap := some "Bold".toList } = false := by decide +kernel
example : sourceAccepts { panose := some [0, 1, 2, 3, 4, 5, 6, 7, 8] } = false := by decide +kernel
example : sourceAccepts { panose := some [0, 1, 2, 3, 4, 5, 6, 7, 8, -1] } = false := by decide +kernel
example : sourceAccepts { familyClass := some [1, 2, 3] } = false := by decide +kernel
example : sourceAccepts { familyClass := some [1, 256] } = false := by decide +kernel
example : sourceAccepts { selection := some [256] } = false := by decide +kernel
example : sourceAccepts { gasp := some [4294967296] } = false := by decide +kernel
example : sourceAccepts { guidelines := some [⟨true, true, none, none⟩] } = false := by decide +kernel
example : sourceAccepts { guidelines := some [⟨true, true, some (.fin false 361 0 0), none⟩] } = false := by
  decide +kernel
example : sourceAccepts { guidelines := some [⟨true, true, some (.fin false 360 0 0), none⟩] } = true := by
  decide +kernel
example : loadInfo (toRaw sample) = .loaded sample ∧ sourceAccepts (toRaw sample) = true ∧
    deser (toRaw sample) = some sample := by decide +kernel

end C13
