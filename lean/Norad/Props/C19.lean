import Norad.Lemmas.Par
import Norad.Spec.ParSource
/-!
# C19 — parallel loading and saving give exactly the sequential results

Property theorems about `Model/Par.lean` (transcription of `names.rs`, the glyph loop of
`Layer::load_impl` and of `Layer::save_with_options`).

Statement of the property, clause by clause:

* "sharing interned names between threads never changes, loses or mixes up a name"
  — `intern_returns_equal_name`, `interning_never_mixes`, `par_set_wellformed`, `par_load_items`
* "for every thread count and every interleaving, loading yields the same font as the sequential build"
  — `par_load_eq_seq` (one layer as a map, any initial name list), `par_load_eq_seq_sorted` (the same as
  the sorted list `BTreeMap` iteration shows, for any strict total order on names), `par_load_fails_iff_seq_fails`,
  `par_font_eq_seq` (all layers, the name list carried from layer to layer)
* "saving yields the same bytes" — `par_save_eq_seq` under the guard *the files named in `contents` are
  pairwise distinct*; without the guard the statement is false: `par_save_eq_seq_counterexample`
  (a `contents.plist` that maps two glyphs to one file loads without complaint; recorded finding).

All theorems hold for both variants of what `get` returns after taking the write lock (`retStored`):
the requested `Arc` (the code as it is) or the stored one.

* source-level tie: `source_par_bodies_equal_seq`, `source_par_sites_complete`, `source_results_order_restored`,
  `source_shared_state_matches_model`, `source_get_is_two_step` (about the tree under check, re-extracted every run)

What is **not** a theorem here (see docs/notes/C19.md): the schedules are those of the model — atomic
lock sections interleaved in any order, any assignment of files to any number of workers — not the
machine's; that `RwLock`/`HashSet`/rayon implement these atomic steps is rustc's and the libraries'
guarantee; which error a failing parallel load reports depends on the schedule and is outside the statement.
-/
namespace Par

/-! ## interning -/

/-- **whatever the set holds when the request reads it and whatever it holds when the write lands, the
    name handed out has the text that was asked for** -/
theorem intern_returns_equal_name (b : Bool) (sRead sWrite : NameSet) (req : NameObj) :
    (getSplit b sRead sWrite req).str = req.str := by
  unfold getSplit
  split
  · rename_i e h; exact lookup_str h
  · exact writeStep_str b sWrite req

/-- **two requests for different texts never receive the same name**, whatever the four states of the set
    they see -/
theorem interning_never_mixes (b : Bool) (sR₁ sW₁ sR₂ sW₂ : NameSet) (r₁ r₂ : NameObj)
    (h : r₁.str ≠ r₂.str) : getSplit b sR₁ sW₁ r₁ ≠ getSplit b sR₂ sW₂ r₂ := by
  intro e
  apply h
  rw [← intern_returns_equal_name b sR₁ sW₁ r₁, ← intern_returns_equal_name b sR₂ sW₂ r₂, e]

/-- the write step never puts a second element with the same text into the set and never removes one -/
theorem write_keeps_set_wellformed (b : Bool) (s : NameSet) (req : NameObj) (h : SetOK s) :
    SetOK (writeStep b s req).1 ∧ (∀ e ∈ s, e ∈ (writeStep b s req).1) ∧
      (∀ e ∈ (writeStep b s req).1, e ∈ s ∨ e = req) :=
  ⟨insertIfAbsent_ok h req, fun _ he => insertIfAbsent_sub he, fun _ he => insertIfAbsent_mem he⟩

/-- **the shared name list under ANY schedule** (complete or not, any pool): it never holds two names with
    the same text, and no name that was in it is ever lost or replaced -/
theorem par_set_wellformed (b : Bool) (sched : List Nat) (st : St) (h : SetOK st.sh.set) :
    SetOK (run b sched st).sh.set ∧ ∀ e ∈ st.sh.set, e ∈ (run b sched st).sh.set :=
  ⟨run_set_invariant SetOK (fun _ req hs => insertIfAbsent_ok hs req) b sched st h,
   run_set_invariant (fun s => ∀ e ∈ st.sh.set, e ∈ s) (fun _ _ hs e he => insertIfAbsent_sub (hs e he))
     b sched st (fun _ he => he)⟩

/-! ## loading -/

/-- **no name is changed, lost or mixed up**: after ANY schedule under which every worker finishes, for
    any assignment of the files to any number of workers and any initial name list, the collector holds
    exactly one item per file (in some order), and it is the glyph named by the file's `contents` key
    with the file's component bases in order — or the failure of that file.  In particular `stuck` is
    never handed over. -/
theorem par_load_items (b : Bool) (s0 : NameSet) (n0 : Nat) (assign : List (List File)) (sched : List Nat)
    (hd : (run b sched (St.init s0 n0 assign)).allDone = true) :
    ((run b sched (St.init s0 n0 assign)).sh.out.map Item.view).Perm (assign.flatten.map File.expect) :=
  done_out_perm b s0 n0 assign sched hd

/-- closed form of the sequential build -/
theorem seq_load_closed (b : Bool) (s0 : NameSet) (n0 : Nat) (files : List File) :
    seqLoad b s0 n0 files = layerOf (files.map File.expect) := by
  unfold seqLoad
  rw [seqItems_views]

/-- **every complete schedule yields the sequential layer map** (and fails iff the sequential build
    fails): for every `retStored`, every initial name list and allocator state — also different ones on the
    two sides —, every number of workers, every assignment of the files of `contents` to them, every
    interleaving of their atomic steps.  `contents` is a map, so its keys are pairwise distinct. -/
theorem par_load_eq_seq (b : Bool) (s0 s0' : NameSet) (n0 n0' : Nat) (files : List File)
    (assign : List (List File)) (sched : List Nat)
    (hassign : assign.flatten.Perm files) (hkeys : (files.map File.key).Nodup)
    (hd : (run b sched (St.init s0 n0 assign)).allDone = true) :
    parLoad b s0 n0 assign sched = seqLoad b s0' n0' files := by
  rw [seq_load_closed]
  unfold parLoad
  have h1 := (done_out_perm b s0 n0 assign sched hd).trans (hassign.map File.expect)
  have nd : (((files.map File.expect).filterMap IView.glyph?).map View.name).Nodup :=
    (expect_names_sublist files).nodup hkeys
  rw [layerOf_perm h1.symm nd]

/-- the same with the layer kept as `BTreeMap` shows it — a list sorted by glyph name: for every strict
    total order `lt` on names, every complete schedule yields the sequential list, entry for entry -/
theorem par_load_eq_seq_sorted (lt : Str → Str → Bool) (hlt : StrictTotal lt) (b : Bool) (s0 s0' : NameSet)
    (n0 n0' : Nat) (files : List File) (assign : List (List File)) (sched : List Nat)
    (hassign : assign.flatten.Perm files) (hkeys : (files.map File.key).Nodup)
    (hd : (run b sched (St.init s0 n0 assign)).allDone = true) :
    sortedLayerOf lt ((run b sched (St.init s0 n0 assign)).sh.out.map Item.view) =
      sortedLayerOf lt ((seqItems b s0' n0' files).2.2.map Item.view) := by
  rw [seqItems_views]
  have h1 := (done_out_perm b s0 n0 assign sched hd).trans (hassign.map File.expect)
  have nd : (((files.map File.expect).filterMap IView.glyph?).map View.name).Nodup :=
    (expect_names_sublist files).nodup hkeys
  rw [sortedLayerOf_perm hlt h1.symm nd]

/-- … in particular for the order `BTreeMap<Name, _>` uses (non-vacuity of the hypothesis `StrictTotal`) -/
theorem par_load_eq_seq_btree (b : Bool) (s0 s0' : NameSet)
    (n0 n0' : Nat) (files : List File) (assign : List (List File)) (sched : List Nat)
    (hassign : assign.flatten.Perm files) (hkeys : (files.map File.key).Nodup)
    (hd : (run b sched (St.init s0 n0 assign)).allDone = true) :
    sortedLayerOf lexLt ((run b sched (St.init s0 n0 assign)).sh.out.map Item.view) =
      sortedLayerOf lexLt ((seqItems b s0' n0' files).2.2.map Item.view) :=
  par_load_eq_seq_sorted lexLt lexLt_strictTotal b s0 s0' n0 n0' files assign sched hassign hkeys hd

/-- a parallel load fails iff some file fails iff the sequential load fails -/
theorem par_load_fails_iff_seq_fails (b : Bool) (s0 s0' : NameSet) (n0 n0' : Nat) (files : List File)
    (assign : List (List File)) (sched : List Nat)
    (hassign : assign.flatten.Perm files) (hkeys : (files.map File.key).Nodup)
    (hd : (run b sched (St.init s0 n0 assign)).allDone = true) :
    (parLoad b s0 n0 assign sched = none ↔ seqLoad b s0' n0' files = none) ∧
    (seqLoad b s0' n0' files = none ↔ ∃ f ∈ files, f.bad = true) := by
  refine ⟨by rw [par_load_eq_seq b s0 s0' n0 n0' files assign sched hassign hkeys hd], ?_⟩
  rw [seq_load_closed]
  unfold layerOf
  constructor
  · intro h
    split at h
    · simp at h
    · rename_i hall
      simp only [List.all_eq_true, List.mem_map, forall_exists_index, and_imp, forall_apply_eq_imp_iff₂,
        Classical.not_forall] at hall
      obtain ⟨f, hf, hg⟩ := hall
      refine ⟨f, hf, ?_⟩
      by_cases hb : f.bad = true
      · exact hb
      · simp [File.expect, hb, IView.isGlyph] at hg
  · rintro ⟨f, hf, hb⟩
    have : ((files.map File.expect).all IView.isGlyph) = false := by
      rw [Bool.eq_false_iff]
      intro hall
      simp only [List.all_eq_true, List.mem_map, forall_exists_index, and_imp, forall_apply_eq_imp_iff₂] at hall
      have := hall f hf
      simp [File.expect, hb, IView.isGlyph] at this
    simp [this]

/-- **the whole font**: layers are loaded one after the other and share the name list; whatever the
    parallel loads of the earlier layers left in it, every layer comes out as in the sequential build -/
theorem par_font_eq_seq (b : Bool) (plans : List (LayerPlan × List File))
    (h : ∀ p ∈ plans, p.1.assign.flatten.Perm p.2 ∧ (p.2.map File.key).Nodup)
    (s0 s0' : NameSet) (n0 n0' : Nat) (r : List (Option LayerMap))
    (hr : parFont b s0 n0 (plans.map (·.1)) = some r) :
    r = seqFont b s0' n0' (plans.map (·.2)) := by
  induction plans generalizing s0 s0' n0 n0' r with
  | nil => simpa [parFont, seqFont] using hr.symm
  | cons p ps ih =>
    simp only [List.map_cons, parFont] at hr
    split at hr
    · rename_i hd
      simp only [Option.map_eq_some_iff] at hr
      obtain ⟨r', hr', rfl⟩ := hr
      obtain ⟨hp, hk⟩ := h p (by simp)
      have h1 := par_load_eq_seq b s0 s0' n0 n0' p.2 p.1.assign p.1.sched hp hk hd
      simp only [List.map_cons, seqFont]
      rw [ih (fun q hq => h q (by simp [hq])) _ _ _ _ r' hr']
      congr 1
    · simp at hr

/-! ## saving -/

/-
Full-strength statement — FALSE for the code as it is (`par_save_eq_seq_counterexample`):

  theorem par_save_eq_seq_full (entries order : List Entry) (d : Dir) (hp : order.Perm entries) :
      saveIn order d = saveIn entries d
-/

/-- **writes to pairwise distinct files commute**: in whatever order the file writes of a parallel save
    land, the directory ends up as after the sequential save — provided `contents` names every file once -/
theorem par_save_eq_seq (entries order : List Entry) (d : Dir) (hp : order.Perm entries)
    (hdist : (entries.map Entry.path).Nodup) : saveIn order d = saveIn entries d := by
  unfold saveIn
  apply foldl_perm _ hp
  intro x hx y hy z
  have nd : (order.map Entry.path).Nodup := (hp.map Entry.path).nodup_iff.mpr hdist
  rcases eq_or_ne_of_nodup_map Entry.path nd hx hy with rfl | hne
  · rfl
  · funext p
    simp only [writeEntry]
    by_cases h1 : p = y.path
    · by_cases h2 : p = x.path
      · exact absurd (h2.symm.trans h1) hne
      · simp [h1, Ne.symm hne]
    · by_cases h2 : p = x.path
      · simp [h2, hne]
      · simp [h1, h2]

/-- without the guard: `contents = {a ↦ f.glif, b ↦ f.glif}`; the sequential save leaves `b`'s data in
    `f.glif`, the schedule that writes `b` first leaves `a`'s -/
theorem par_save_eq_seq_counterexample :
    ∃ (entries order : List Entry) (d : Dir), order.Perm entries ∧ saveIn order d ≠ saveIn entries d := by
  refine ⟨[⟨['a'], ['f']⟩, ⟨['b'], ['f']⟩], [⟨['b'], ['f']⟩, ⟨['a'], ['f']⟩], fun _ => none,
    List.Perm.swap _ _ _, ?_⟩
  intro h
  have := congrFun h ['f']
  simp [saveIn, writeEntry] at this

/-! ## source-level tie (DESIGN 11.8)

`Generated.ParSites` is re-extracted from `src/**/*.rs` of the tree under check on every run
(`tools/extract_par_sites.py`): every pair of items under `cfg(feature = "rayon")` / `cfg(not(feature = "rayon"))`,
token lists un-normalised.  The theorems below are about what the code says NOW; a section whose anchor is gone uses
its pinned copy (evidence: `extraction: pinned`) and the behavioural correspondence is then the only tie. -/

section source
open Generated.ParSites ParSource

/-- **every site's rayon variant is its sequential variant** once the known differences are erased (`norm`:
    `par_iter`→`iter`, `into_par_iter`→`into_iter`, `.par_bridge()`, `let mut`, `RwLock`/`RefCell` and
    lock-vs-borrow, `ParNameList`/`SeqNameList`).  Everything else a task does — the closure of the glyph loop, the
    collector, the error path, `contains` — is either the same text for both builds or compared here.  The one
    pair that may differ beyond `norm` is the `impl` of the name table: its rayon `get` may have either of the two
    known forms (`source_get_is_two_step`), the sequential one the plain form. -/
theorem source_par_bodies_equal_seq :
    allSites.all (fun s => norm s.par == norm s.seq ||
      (isTableImpl s && (knownTableShapes.map (·.1)).contains (shape (norm s.par)) &&
        shape (norm s.seq) == modelTableShape)) = true := by
  decide +kernel

/-- **the sites are exactly the model's parallel steps**: the pairs that introduce a parallel iteration are the
    glyph loop of `Layer::load_impl` and of `Layer::save_with_options`, both over `contents`; the other pairs are
    the four representation pairs of the name table; there is no pair anywhere else; the only rayon-only items
    are the prelude import and a constructor that makes a new empty table per `NameList`; a rayon API word occurs
    nowhere but in the import and the two steps. -/
theorem source_par_sites_complete :
    iterSites.map (fun s => (s.file, s.scope, s.iterated)) = modelParSteps.map (fun m => (m.1, m.2.1, m.2.2.1)) ∧
    nameTable.map (fun s => (s.file, s.scope, s.kind, s.name)) = modelTablePairs ∧
    (layerLoad ++ layerSave).length = modelParSteps.length ∧
    otherSites = [] ∧ oneSided = modelOneSided ∧ apiWords = modelApiWords := by decide

/-- **results come out in a schedule-independent order**: every parallel step gathers into an ordered map (the
    model's collector `layerOf` / `sortedLayerOf` is order-independent exactly because it is keyed: `layerOf_perm`,
    `sortedLayerOf_perm`), gathers nothing (save: the effects commute, `par_save_eq_seq`), or re-sorts -/
theorem source_results_order_restored : iterSites.all orderRestored = true := by decide

/-- **the model's assumptions about a task hold of the source**: the shared statement of each step mentions, of all
    shared state, exactly what the model gives a task (`names` = `Shared.set` on load; the glyph map, read-only, on
    save; the name table is recognised by the type `&NameList` of the parameter; no `&mut` capture, no lock, atomic, static or `path_set`); a failing task ends the step through
    `collect::<Result<..>>` / `try_for_each` (model: fails iff some task fails, `par_load_fails_iff_seq_fails`); and each step is
    one the model treats as commutative (`modelParSteps` names the theorem) -/
theorem source_shared_state_matches_model :
    iterSites.map (fun s => (s.scope, s.touches)) = modelTouches ∧
    iterSites.all (fun s => modelErrorForms.contains s.errorForm) = true ∧
    modelParSteps.map (·.2.2.2) = ["par_load_eq_seq", "par_save_eq_seq"] := by decide

/-- **`get` is the model's two atomic steps**: the table words of the rayon `impl`, after `norm`, are in order
    one of the two known forms.  Plain: look up under the read lock and clone; on a miss `HashSet::insert` under the
    write lock and a clone of the requested name (`getSplit` with `writeStep false`).  Double-checked: on a miss take
    the write lock, look up again, hand out the stored name if present, else insert and hand out the requested one
    (`writeStepRecheck` = `writeStep true`, `recheck_is_writeStep_true`).  `contains` = a lookup under the read
    lock.  Local names and punctuation are not compared (a renaming is not a change); all theorems of this file hold
    for both values of `retStored`. -/
theorem source_get_is_two_step :
    (allSites.filter isTableImpl).length = 1 ∧
    (allSites.filter isTableImpl).all
      (fun s => (knownTableShapes.map (·.1)).contains (shape (norm s.par))) = true := by
  decide +kernel

/-- the double-checked write step is the `retStored = true` variant of the model's write step -/
theorem recheck_is_writeStep_true (s : NameSet) (req : NameObj) :
    writeStepRecheck s req = writeStep true s req := by
  unfold writeStepRecheck writeStep insertIfAbsent
  cases h : lookup s req.str with
  | some e => simp [h]
  | none => simp [lookup]

/-- `norm` erases only what it is meant to: it does not identify a hashed with an ordered collection, nor two
    different method calls (non-vacuity of `source_par_bodies_equal_seq`) -/
example : norm ["x", ".", "par_iter", "(", ")"] = ["x", ".", "iter", "(", ")"] := by decide
example : norm ["HashMap"] ≠ norm ["BTreeMap"] := by decide
example : norm [".", "insert", "(", "a", ")"] ≠ norm [".", "replace", "(", "a", ")"] := by decide
example : allSites.length = 6 := by decide

end source

/-! ## non-vacuity -/

section examples

private def fA : File := ⟨['A'], ['A'], [['b']], 1, false⟩
private def fa : File := ⟨['a'], ['x'], [['b']], 2, false⟩
private def fBad : File := ⟨['z'], ['z'], [], 3, true⟩
/-- both workers intern key and attribute, then both look `b` up (both miss), then both take the write
    lock: the lost race of names.rs:50-55 -/
private def race : List Nat := [0, 0, 0, 0, 0, 1, 1, 1, 1, 1, 1, 0, 1, 0, 1]

/-- that schedule is complete, and the hypotheses of `par_load_eq_seq` are satisfiable -/
example : (run false race (St.init [] 0 [[fA], [fa]])).allDone = true := by decide

example : [[fA], [fa]].flatten.Perm [fa, fA] ∧ ([fa, fA].map File.key).Nodup :=
  ⟨List.Perm.swap _ _ _, by decide⟩

/-- the result at the key `a`: named by the contents key (not by the attribute `x`) -/
example : (parLoad false [] 0 [[fA], [fa]] race).map (· ['a']) = some (some ⟨['a'], [['b']], 2⟩) := by decide

/-- a failing file makes both builds fail -/
example : seqLoad false [] 0 [fa, fBad] = none := by decide
example : parLoad false [] 0 [[fBad], [fa]] race = none := by decide

/-- what the parallel name list does **not** guarantee (and the property does not ask for): one allocation
    per text.  After the lost race the two glyphs hold different `Arc`s for the component base `b` when `get`
    returns the requested name (the code as it is), the same one when it returns the stored name. -/
example : ((run false race (St.init [] 0 [[fA], [fa]])).sh.out.map
    (fun | .glyph g => g.comps.map NameObj.tag | _ => [])) = [[2], [5]] := by decide
example : ((run true race (St.init [] 0 [[fA], [fa]])).sh.out.map
    (fun | .glyph g => g.comps.map NameObj.tag | _ => [])) = [[2], [2]] := by decide

example : (([⟨['a'], ['f']⟩, ⟨['b'], ['g']⟩] : List Entry).map Entry.path).Nodup := by decide

/-- the hypothesis of `par_set_wellformed` holds at the start of a font load (empty name list), and the set
    after the racing schedule holds `b` once although two workers inserted it -/
example : SetOK ([] : NameSet) := List.Pairwise.nil
example : ((run false race (St.init [] 0 [[fA], [fa]])).sh.set.map NameObj.str) =
    [['b'], ['x'], ['a'], ['A']] := by decide

/-- the sorted collector on the racing schedule: `A` before `a` -/
example : sortedLayerOf lexLt
    ((run false race (St.init [] 0 [[fa], [fA]])).sh.out.map Item.view) =
    some [⟨['A'], [['b']], 1⟩, ⟨['a'], [['b']], 2⟩] := by decide

end examples

end Par
