import Norad.Props.C04
import Norad.Props.C02
import Norad.Props.C13
import Norad.Props.C06
import Norad.Props.C07Containers
/-!
# C01 / C04 — the un-modelled parts instantiated with the models of the other properties

`font_roundtrip` (Props/C01) is proved for every `P : Parts` and every `L : PartLaws P`.  Here `P` is
instantiated with
* glyph files: the glif writer `Glif.encodeGlif` and parser `Glif.parseGlif` (C02 / C12 models);
  the law `glyph_rt` is **discharged** by C02 `glif_roundtrip_partial_no_object_libs`;
* the rule-bearing font-info fields: C13's `Info` / `RawInfo` with `toRaw` and `loadInfo`, validity =
  `C13.validate` (which is `Rules`, C13 `validate_iff_rules`); the law `rest_rt` is **discharged** for them
  by C13 `entry_points_agree`; the font-info fields that carry no rule stay a token (serde derive).
What remains an assumption after this file is listed in `docs/notes/C01.md`.
-/
namespace RT.Bridge
open RT

/-- the numeric ranges of the Rust types (`u32`, `u8`) as a Boolean -/
def wtB (i : C13.Info) : Bool :=
  (i.gasp.getD []).all (fun n => decide (n ≤ FI.u32Max)) && (i.selection.getD []).all (fun n => decide (n ≤ 255)) &&
  (match i.familyClass with
   | some p => decide (p.1 ≤ 255) && decide (p.2 ≤ 255)
   | none => true)

theorem wellTyped_of_wtB (i : C13.Info) (h : wtB i = true) : C13.WellTyped i := by
  simp only [wtB, Bool.and_eq_true, List.all_eq_true, decide_eq_true_eq] at h
  obtain ⟨⟨h1, h2⟩, h3⟩ := h
  refine ⟨?_, ?_, ?_⟩
  · intro l hl n hn; rw [hl] at h1; exact h1 n hn
  · intro l hl n hn; rw [hl] at h2; exact h2 n hn
  · intro p hp; rw [hp] at h3; simpa using h3

section
variable (f : Glif.Fmt) (rd : Glif.Str → Option Nat) (nc : Glif.Color → Glif.Color) (ok : Nat → Prop)

/-- norad's own codecs for the parts `Model/RoundTrip.lean` does not look into -/
def noradParts : Parts where
  Glyph := Glif.Glyph
  GlifFile := List Glif.Ev
  encGlyph := Glif.encodeGlif f
  decGlyph := fun evs => match Glif.parseGlif rd evs with
    | .ok g => some g
    | .error _ => none
  Rest := C13.Info × String
  RestFile := C13.RawInfo × String
  encRest := fun r => (C13.toRaw r.1, r.2)
  decRest := fun r => match C13.loadInfo r.1 with
    | .loaded i => some (i, r.2)
    | _ => none
  restValid := fun r => decide (C13.validate r.1 = .ok) && wtB r.1

/-- the guards of C02's round-trip theorem (each forced by a recorded C02 finding) -/
structure GlifGuard (g : Glif.Glyph) : Prop where
  valid : Glif.ValidGlyph ok g
  noObjectLibs : Glif.NoObjectLibs g
  noKey : Glif.dictGet Glif.objectLibsKey g.lib = none
  libStable : Glif.reindentDict f.indent g.lib = g.lib
  note : ∀ n, g.note = some n → Glif.trimText n = n ∧ n ≠ []
  advance : (Glif.isNormal g.width = true ∨ g.width = 0) ∧ (Glif.isNormal g.height = true ∨ g.height = 0)
  /-- no contour without points (the writer emits `<contour></contour>`, the parser drops it: C02's `keepContours`) -/
  contoursNonempty : ∀ c, c ∈ g.contours → c.points ≠ []

/-- **the named hypotheses, discharged**: `glyph_rt` by C02 `glif_roundtrip_partial_no_object_libs`
    (itself built on `parse_encode`), `rest_rt` by C13 `entry_points_agree` -/
def noradLaws (hc : Glif.Codec f rd nc ok) : PartLaws (noradParts f rd) where
  glyphOK := GlifGuard f ok
  normGlyph := Glif.normG nc
  glyph_rt := by
    intro g h
    have := Glif.glif_roundtrip_partial_no_object_libs hc h.valid h.noObjectLibs h.noKey h.libStable h.note h.advance
      h.contoursNonempty
    simp only [noradParts, this]
  rest_rt := by
    intro r h
    obtain ⟨i, t⟩ := r
    simp only [noradParts, Bool.and_eq_true, decide_eq_true_eq] at h
    have := (C13.entry_points_agree i (wellTyped_of_wtB i h.2)).2.2 h.1
    simp only [noradParts, this]

/-- **C01 with norad's glif codec and C13's font-info rules in place of the tokens.**  Every valid font
    whose glyphs are inside the C02 guards and whose font info satisfies the rules of the specification
    (C13 `validate_iff_rules`) is saved, loads, and comes back as the same font, each glyph as
    `Glif.normG nc g` (colours to 3 decimals). -/
theorem font_roundtrip_norad (hc : Glif.Codec f rd nc ok) (x : Font (noradParts f rd))
    (hv : ValidFont (noradLaws f rd nc ok hc) x) (hn : NumbersOK x) :
    ∃ t x', saveFont x = .ok t ∧ loadFont t = .ok x' ∧ FontEquiv (noradLaws f rd nc ok hc) x x' :=
  font_roundtrip (noradLaws f rd nc ok hc) x hv hn

/-! ### `NormLaws.norm_ok` for the glif instance: what the parser returns for a written glyph can be written again -/

theorem okT_normT (h0 : ok 0) (h1 : ok Glif.f64One) {t : Glif.Transform} (ht : Glif.OkT ok t) :
    Glif.OkT ok (Glif.normT t) := by
  obtain ⟨a, b, c, d, e, g⟩ := ht
  unfold Glif.normT
  refine ⟨?_, ?_, ?_, ?_, ?_, ?_⟩ <;> simp only <;> split <;> assumption

theorem glyphIdents_normG (g : Glif.Glyph) : Glif.Spec.glyphIdents (Glif.normG nc g) = Glif.Spec.glyphIdents g := by
  simp only [Glif.Spec.glyphIdents, Glif.normG, List.filterMap_map, List.flatMap_map, Function.comp_def,
    Glif.pAnchor, Glif.pGuideline, Glif.pComponent, Glif.pContour, Glif.pPoint]

/-- **discharged**: a glyph inside the C02 guard that has been written and read back (`normG`) is inside the guard
    again — for every number guard `ok` that admits `0` and `1.0` (the values an omitted transform coefficient is read
    as).  With this, `norad_output_is_fixed_point` holds for norad's own glif codec without a glyph assumption. -/
theorem noradNorm (hc : Glif.Codec f rd nc ok) (h0 : ok 0) (h1 : ok Glif.f64One) :
    NormLaws (noradLaws f rd nc ok hc) where
  norm_ok := by
    intro (g : Glif.Glyph) (h : GlifGuard f ok g)
    show GlifGuard f ok (Glif.normG nc g)
    have hv := h.valid
    refine { valid := ?_, noObjectLibs := ?_, noKey := h.noKey, libStable := h.libStable, note := h.note,
             advance := h.advance, contoursNonempty := ?_ }
    · refine { name := hv.name, width := hv.width, height := hv.height, codepoints := hv.codepoints,
               codepointsNodup := hv.codepointsNodup, image := ?_, anchors := ?_, guidelines := ?_, contours := ?_,
               components := ?_, idents := ?_ }
      · intro i hi
        simp only [Glif.normG, Option.map_eq_some_iff] at hi
        obtain ⟨i0, hi0, rfl⟩ := hi
        have := hv.image i0 hi0
        exact ⟨this.name, okT_normT ok h0 h1 this.transform⟩
      · intro a ha
        simp only [Glif.normG, List.mem_map] at ha
        obtain ⟨a0, ha0, rfl⟩ := ha
        have := hv.anchors a0 ha0
        exact ⟨this.x, this.y, this.name, this.ident⟩
      · intro a ha
        simp only [Glif.normG, List.mem_map] at ha
        obtain ⟨a0, ha0, rfl⟩ := ha
        have := hv.guidelines a0 ha0
        exact ⟨this.line, this.name, this.ident⟩
      · intro c hc'
        simp only [Glif.normG, List.mem_map] at hc'
        obtain ⟨c0, hc0, rfl⟩ := hc'
        have := hv.contours c0 hc0
        refine ⟨?_, ?_, this.ident⟩
        · intro p hp
          simp only [Glif.pContour, List.mem_map] at hp
          obtain ⟨p0, hp0, rfl⟩ := hp
          have hp' := this.points p0 hp0
          exact ⟨hp'.x, hp'.y, hp'.name, hp'.ident⟩
        · have : (Glif.pContour c0).points.map Glif.toPt = c0.points.map Glif.toPt := by
            simp [Glif.pContour, Glif.pPoint, Glif.toPt, List.map_map, Function.comp_def]
          rw [this]; exact (hv.contours c0 hc0).legal
      · intro k hk
        simp only [Glif.normG, List.mem_map] at hk
        obtain ⟨k0, hk0, rfl⟩ := hk
        have := hv.components k0 hk0
        exact ⟨this.base, okT_normT ok h0 h1 this.transform, this.ident⟩
      · rw [glyphIdents_normG]; exact hv.idents
    · refine ⟨?_, ?_, ?_, ?_⟩
      · intro a ha; simp only [Glif.normG, List.mem_map] at ha; obtain ⟨a0, _, rfl⟩ := ha; rfl
      · intro a ha; simp only [Glif.normG, List.mem_map] at ha; obtain ⟨a0, _, rfl⟩ := ha; rfl
      · intro c hc'
        simp only [Glif.normG, List.mem_map] at hc'
        obtain ⟨c0, _, rfl⟩ := hc'
        refine ⟨rfl, ?_⟩
        intro p hp
        simp only [Glif.pContour, List.mem_map] at hp
        obtain ⟨p0, _, rfl⟩ := hp
        rfl
      · intro a ha; simp only [Glif.normG, List.mem_map] at ha; obtain ⟨a0, _, rfl⟩ := ha; rfl
    · intro c hc'
      simp only [Glif.normG, List.mem_map] at hc'
      obtain ⟨c0, hc0, rfl⟩ := hc'
      have := h.contoursNonempty c0 hc0
      simp only [Glif.pContour]
      intro he
      exact this (List.map_eq_nil_iff.1 he)

/-- **C04 with the glif part instantiated**: for norad's glif codec, every valid font inside the guards is saved and
    loaded to a font that is saved and loaded again to the same font — no assumption about glyphs is left (`glyph_rt`
    by C02 `glif_roundtrip_partial_no_object_libs`, `norm_ok` by `noradNorm`). -/
theorem norad_output_is_fixed_point_glif (hc : Glif.Codec f rd nc ok) (h0 : ok 0) (h1 : ok Glif.f64One)
    (x : Font (noradParts f rd)) (hv : ValidFont (noradLaws f rd nc ok hc) x) (hn : NumbersOK x) :
    ∃ t x', saveFont x = .ok t ∧ loadFont t = .ok x' ∧
      ∃ t' x'', saveFont x' = .ok t' ∧ loadFont t' = .ok x'' ∧ FontEquiv (noradLaws f rd nc ok hc) x' x'' :=
  norad_output_is_fixed_point (noradLaws f rd nc ok hc) (noradNorm f rd nc ok hc h0 h1) x hv hn

/-- the validity field of `ValidFont` for this instance is the specification's rule set (C13) -/
theorem restValid_iff_rules (i : C13.Info) (t : String) :
    (noradParts f rd).restValid (i, t) = true ↔ C13.Rules i ∧ wtB i = true := by
  simp only [noradParts, Bool.and_eq_true, decide_eq_true_eq, C13.validate_iff_rules]

end
/-! ## the other font-info fields as the regenerated field table: `rest_rt` under the leaf law only -/

section table
variable {L : Type} (C : FT.LeafCodec L)

/-- the "rest" of the font info is a value of the whole field table (`fontinfoTy`, 108 fields); a value that the
    table cannot express is not valid -/
def tableParts : Parts where
  Glyph := String
  GlifFile := String
  encGlyph := id
  decGlyph := some
  Rest := FT.Val L
  RestFile := Option PV
  encRest := FT.enc C fontinfoTy
  decRest := fun o => o.bind (FT.dec C fontinfoTy)
  restValid := fun v => (FT.enc C fontinfoTy v).isSome

/-- **`rest_rt` discharged** by `fontinfo_fieldtable_roundtrip`: what remains assumed of the font-info serde is
    `FT.LeafLaw` (primitive leaves through serde and the `plist` crate) -/
def tableLaws (hL : FT.LeafLaw C) : PartLaws (tableParts C) where
  glyphOK := fun _ => True
  normGlyph := id
  glyph_rt := fun _ _ => rfl
  rest_rt := by
    intro v h
    simp only [tableParts, Option.isSome_iff_exists] at h
    obtain ⟨p, hp⟩ := h
    simp only [tableParts, hp, Option.bind_some]
    exact fontinfo_fieldtable_roundtrip C hL v p hp

/-- C01 with the font-info fields as the field table of the source -/
theorem font_roundtrip_fieldtable (hL : FT.LeafLaw C) (x : Font (tableParts C))
    (hv : ValidFont (tableLaws C hL) x) (hn : NumbersOK x) :
    ∃ t x', saveFont x = .ok t ∧ loadFont t = .ok x' ∧ FontEquiv (tableLaws C hL) x x' :=
  font_roundtrip (tableLaws C hL) x hv hn

end table

/-! ## layer containers: the structural fields of `ValidFont` follow from C06's invariant

`Layers.SInv` holds in every state the public container API can reach (C06 `inv_reachable`, with the real
file-name functions: C07Containers `real_inv_reachable` / `layer_paths_distinct_mod_lower`) and in every
loaded state (`inv_loaded`).  The font the save routine sees has one model layer per container layer, one
glyph entry per entry of the `contents` index (that is what `Layer::save_with_options` iterates). -/

section containers
variable {P : Parts} (lower : Layers.Str → Layers.Str)

def ofStr (s : Layers.Str) : String := String.ofList s

theorem ofStr_inj : Function.Injective ofStr := by
  intro a b h
  have := congrArg String.toList h
  simpa [ofStr] using this

/-- the model layer of a container layer; `glyph` supplies the glyph values (irrelevant to C06) -/
def layerOf (glyph : Layers.Str → Layers.Str → P.Glyph) (K : Layers.Layer) : Layer P :=
  { name := ofStr K.name, dir := ofStr K.path,
    glyphs := K.contents.map fun e => { name := ofStr e.1, file := ofStr e.2, tok := glyph K.name e.1 } }

/-- **discharged by C06**: layer directories pairwise distinct, default layer first in `glyphs`, glif
    file names distinct inside every layer — the fields `dirs`, `defFirst`, `files` of `ValidFont` -/
theorem container_fields (glyph : Layers.Str → Layers.Str → P.Glyph) (S : Layers.LayerSet)
    (h : Layers.SInv lower S) :
    nodupS ((S.layers.map (layerOf glyph)).map (·.dir)) = true ∧
    (∃ l r, S.layers.map (layerOf glyph) = l :: r ∧ l.dir = glyphsDir) ∧
    ∀ l ∈ S.layers.map (layerOf glyph), nodupS (l.glyphs.map (·.file)) = true := by
  refine ⟨?_, ?_, ?_⟩
  · rw [nodupS_iff]
    have hp := Layers.paths_nodup lower S h
    have : (S.layers.map (layerOf glyph)).map (·.dir) = (S.layers.map (·.path)).map ofStr := by
      simp [layerOf, List.map_map, Function.comp_def]
    rw [this]
    exact hp.map ofStr_inj
  · obtain ⟨d, rest, h1, h2⟩ := h.headDefault
    refine ⟨layerOf glyph d, rest.map (layerOf glyph), by simp [h1], ?_⟩
    simp only [layerOf, h2]
    rfl
  · intro l hl
    simp only [List.mem_map] at hl
    obtain ⟨K, hK, rfl⟩ := hl
    rw [nodupS_iff]
    have hd := (h.layersInv K hK).distinct
    have h1 : (K.contents.map (·.2)).Nodup := by
      have : K.contents.map (fun e => lower e.2) = (K.contents.map (·.2)).map lower := by
        simp [List.map_map, Function.comp_def]
      rw [this] at hd
      exact List.Nodup.of_map lower hd
    have : (layerOf glyph K).glyphs.map (·.file) = (K.contents.map (·.2)).map ofStr := by
      simp [layerOf, List.map_map, Function.comp_def]
    rw [this]
    exact h1.map ofStr_inj

end containers

/-! ## source-level tie: the extracted gate table of the glif writer IS the gate table of the model encoder

`Generated.RoundTrip.glifWriter` (from `src/glyph/serialize.rs`) names, per element and attribute, the value
at which the attribute is omitted.  `probe` evaluates the model encoder of C02 (`Model/GlifWrite.lean`) on an element
holding that value (the attribute must be absent) and on one holding another value (it must be present). -/

namespace Source
open Glif Generated.RoundTrip

def PF : Fmt := { shw := fun _ => ['0'], fmt3 := fun _ => "0.000".toList, indent := [] }
def has (k : String) (as : List Attr) : Bool := as.any (fun a => a.1 == k.toList)

def pt0 : Point := { x := 0, y := 0, typ := .line, smooth := true, name := some ['n'], ident := some ['i'] }
def an0 : Anchor := { x := 0, y := 0, name := some ['n'], color := some ⟨0, 0, 0, 0⟩, ident := some ['i'] }
def gd0 : Guideline := { line := .angle 0 0 0, name := some ['n'], color := some ⟨0, 0, 0, 0⟩, ident := some ['i'] }
/-- every coefficient away from its identity value -/
def tr0 : Transform := { xScale := 0, xyScale := f64One, yxScale := f64One, yScale := 0, xOffset := f64One, yOffset := f64One }
def cp0 : Component := { base := ['b'], transform := tr0, ident := some ['i'] }
def im0 : Image := { fileName := ['f'], color := some ⟨0, 0, 0, 0⟩, transform := tr0 }

/-- the transform with the coefficient `a` at the value `v` named by the table (`0` / `1`) -/
def trAt (a v : String) : Transform :=
  let b : Nat := if v == "1" then f64One else 0
  match a with
  | "xScale" => { tr0 with xScale := b } | "xyScale" => { tr0 with xyScale := b } | "yxScale" => { tr0 with yxScale := b }
  | "yScale" => { tr0 with yScale := b } | "xOffset" => { tr0 with xOffset := b } | _ => { tr0 with yOffset := b }

def isCoeff (a : String) : Bool := ["xScale", "xyScale", "yxScale", "yScale", "xOffset", "yOffset"].contains a

/-- does the model encoder omit `attr` of `elem` exactly at `omitted` (and write it otherwise)? -/
def probe (w : WRow) : Bool :=
  let a := w.attr
  let om := w.omitted
  match w.elem with
  | "point" =>
    has a (pointAttrs PF pt0) &&
    (match a, om with
     | "name", "none" => !has a (pointAttrs PF { pt0 with name := none })
     | "identifier", "none" => !has a (pointAttrs PF { pt0 with ident := none })
     | "smooth", "false" => !has a (pointAttrs PF { pt0 with smooth := false })
     | "type", "offcurve" => !has a (pointAttrs PF { pt0 with typ := .off, smooth := false }) &&
         [C11.PT.move, .line, .curve, .qcurve].all (fun t => has a (pointAttrs PF { pt0 with typ := t }))
     | "x", "-" => true | "y", "-" => true
     | _, _ => false)
  | "anchor" =>
    has a (anchorAttrs PF an0) &&
    (match a, om with
     | "name", "none" => !has a (anchorAttrs PF { an0 with name := none })
     | "color", "none" => !has a (anchorAttrs PF { an0 with color := none })
     | "identifier", "none" => !has a (anchorAttrs PF { an0 with ident := none })
     | "x", "-" => true | "y", "-" => true
     | _, _ => false)
  | "guideline" =>
    has a (guidelineAttrs PF gd0) &&
    (match a, om with
     | "name", "none" => !has a (guidelineAttrs PF { gd0 with name := none })
     | "color", "none" => !has a (guidelineAttrs PF { gd0 with color := none })
     | "identifier", "none" => !has a (guidelineAttrs PF { gd0 with ident := none })
     | "x", "none" => !has a (guidelineAttrs PF { gd0 with line := .horizontal 0 })
     | "y", "none" => !has a (guidelineAttrs PF { gd0 with line := .vertical 0 })
     | "angle", "none" => !has a (guidelineAttrs PF { gd0 with line := .vertical 0 })
     | _, _ => false)
  | "component" =>
    has a (componentAttrs PF cp0) &&
    (if isCoeff a then (om == "0" || om == "1") && !has a (componentAttrs PF { cp0 with transform := trAt a om })
     else match a, om with
       | "base", "-" => true
       | "identifier", "none" => !has a (componentAttrs PF { cp0 with ident := none })
       | _, _ => false)
  | "image" =>
    has a (imageAttrs PF im0) &&
    (if isCoeff a then (om == "0" || om == "1") && !has a (imageAttrs PF { im0 with transform := trAt a om })
     else match a, om with
       | "fileName", "-" => true
       | "color", "none" => !has a (imageAttrs PF { im0 with color := none })
       | _, _ => false)
  | "contour" =>
    (match a, om with
     | "identifier", "none" =>
       (match contourEvs PF { points := [], ident := some ['i'] }, contourEvs PF { points := [], ident := none } with
        | .start _ (some as1) :: _, .start _ (some as0) :: _ => has a as1 && !has a as0
        | _, _ => false)
     | _, _ => false)
  | "advance" =>
    has a (advanceAttrs PF f64One f64One) &&
    (match a, om with
     | "width", "0" => !has a (advanceAttrs PF 0 f64One)
     | "height", "0" => !has a (advanceAttrs PF f64One 0)
     | _, _ => false)
  | "unicode" =>
    (match a, om, encodeGlif PF { name := ['g'], codepoints := [65] } with
     | "hex", "-", _ :: _ :: .empty n (some as) :: _ => n == sUnicode && has a as
     | _, _, _ => false)
  | "glyph" =>
    (match om, encodeGlif PF { name := ['g'] } with
     | "-", _ :: .start n (some as) :: _ => n == sGlyph && has a as
     | _, _ => false)
  | _ => false

def evName : Ev → Option Str
  | .start n _ => some n
  | .empty n _ => some n
  | .startLib _ _ => some sLib
  | _ => none

def hasEv (n : Str) (g : Glyph) : Bool := (encodeGlif PF g).any (fun e => evName e == some n)

def g0 : Glyph := { name := ['g'] }

/-- does the model encoder leave the element out exactly under the extracted gate? -/
def probeElement (r : String × String) : Bool :=
  match r.1, r.2 with
  | "advance", "neither-normal" =>
    !hasEv sAdvance g0 && hasEv sAdvance { g0 with width := f64One } && hasEv sAdvance { g0 with height := f64One } &&
    !hasEv sAdvance { g0 with width := 1, height := 0x7FF0000000000000 }
  | "image", "none" => !hasEv sImage g0 && hasEv sImage { g0 with image := some im0 }
  | "lib", "empty" => !hasEv sLib g0 && hasEv sLib { g0 with lib := [(['k'], PV.atom "b1")] }
  | "note", "none" => !hasEv sNote g0 && hasEv sNote { g0 with note := some ['n'] }
  | "outline", "both-empty" =>
    !hasEv sOutline g0 && hasEv sOutline { g0 with components := [cp0] } &&
    hasEv sOutline { g0 with contours := [{ points := [pt0], ident := none }] }
  | "contour", "each" => !hasEv sContour g0 && hasEv sContour { g0 with contours := [{ points := [pt0], ident := none }] }
  | "component", "each" => !hasEv sComponent g0 && hasEv sComponent { g0 with components := [cp0] }
  | "anchor", "each" => !hasEv sAnchor g0 && hasEv sAnchor { g0 with anchors := [an0] }
  | "guideline", "each" => !hasEv sGuideline g0 && hasEv sGuideline { g0 with guidelines := [gd0] }
  | "unicode", "each" => !hasEv sUnicode g0 && hasEv sUnicode { g0 with codepoints := [65] }
  | _, _ => false

end Source

open Generated.RoundTrip Source in
/-- **the gate table read from `serialize.rs` equals the gates of the model encoder** (`Glif.pointAttrs`,
    `anchorAttrs`, `guidelineAttrs`, `componentAttrs`, `imageAttrs`, `contourEvs`, `advanceAttrs`,
    `encodeGlif`): every row is confirmed by evaluating the encoder at the omitted value and away from it -/
theorem source_glif_gates_match_model_encoder : glifWriter.all probe = true := by decide +kernel

open Generated.RoundTrip Source in
/-- the same for whole elements (advance, image, outline, lib, note, the lists) -/
theorem source_glif_element_gates_match_model_encoder : glifElementGates.all probeElement = true := by
  decide +kernel

open Generated.RoundTrip in
/-- the table is complete for the model: 39 attribute rows (every attribute the encoder can write) -/
theorem source_glif_writer_table_size : glifWriter.length = 39 ∧ glifElementGates.length = 10 := by decide

end RT.Bridge
