import Norad.Props.C16
import Norad.Model.RoundTrip
/-!
# C01 / C04 — data and image files: the identity of the tree model, bridged to the store model of C16

`Model/RoundTrip.lean` carries `data` and `images` (lists of key ↦ content) through `saveFont` / `loadFont` unchanged.
Here the list is EMBEDDED into a C16 store (`embStore`), and the C16 theorems give what the identity stands for:

* `data_files_roundtrip`: on the abstract file system of the FS family the data half of the save plan runs without
  error, afterwards every entry's file holds exactly the entry's bytes (C16 `store_plan_eq_writeAll`), and a store
  that lists those keys lazily (what a later `Font::load` builds) returns exactly those bytes on the first access to
  every key (C16 `lazy_get_is_disk_at_first_access` + the validation passes, proved here from the store invariant);
  by C16 `iter_any_hash_order` the order in which a `HashMap` visits the keys does not matter.
* `image_files_roundtrip`: the same for images (C16 `image_plan_runs_of`); the image validation of the read passes
  because the key is flat and the written bytes start with the PNG signature (both in the store invariant).
* Gap common to both, named: the step "list the written directory" (`newStore` on a `Listing`) is a C16 theorem about
  listings (`newStore_inv`, `listing_refusals`); there is no function from the abstract file system to a listing yet,
  so the lazily listed store is GIVEN its keys here.
-/
namespace RT.Bridge
open C16 Path StoreOrder StorePlan AbsFS FontSave

/-- the embedding: keys as character lists, contents through any function into bytes, every cell loaded (a font built
    in memory) -/
def embStore (kind : C16.Kind) (β : String → C16.Bytes) (d : List (String × String)) : C16.Store :=
  ⟨kind, d.map fun e => (e.1.toList, .loaded (β e.2))⟩

def embWrites (kind : C16.Kind) (β : String → C16.Bytes) (d : List (String × String)) : List WriteFile :=
  d.map fun e => ⟨kind, e.1.toList, β e.2⟩

/-- the store a later load builds over the same keys: nothing read yet -/
def lazyStore (kind : C16.Kind) (d : List (String × String)) : C16.Store :=
  ⟨kind, d.map fun e => (e.1.toList, .notLoaded)⟩

theorem writesOf_emb (kind : C16.Kind) (β : String → C16.Bytes) (d : List (String × String)) :
    writesOf (embStore kind β d) = some (embWrites kind β d) := by
  unfold writesOf embStore embWrites
  simp only
  induction d with
  | nil => rfl
  | cons e r ih => simp only [List.map_cons, writesOfItems, ih]

theorem keys_lazy (kind : C16.Kind) (β : String → C16.Bytes) (d : List (String × String)) :
    keys (lazyStore kind d) = keys (embStore kind β d) := by
  simp [keys, lazyStore, embStore, List.map_map, Function.comp_def]

/-- what a reader finds below a store directory of the file system -/
def diskOf (fs : FS StoreOrder.Bytes) (base : Loc) : Disk := fun k =>
  match node fs (destOf base k) with
  | some (.file b) => some b
  | _ => none

/-- under the key rules of the store invariant, the data validation of a stored key passes -/
theorem validateData_of_keysOK {items : Items} (hk : KeysOK .data (items.map (·.1))) {k : Key}
    (hmem : k ∈ items.map (·.1)) : validateData k items = .ok () := by
  have h1 := hk.nonEmpty k hmem
  have h2 := hk.relative k hmem
  have ha : ancestorInStore items (parse k) = false := by
    unfold ancestorInStore
    rw [List.any_eq_false]
    intro a ham
    obtain ⟨hab, hpre, hne⟩ := mem_properAncestors.1 ham
    simp only [Bool.and_eq_true, Bool.not_eq_true', not_and, Bool.not_eq_true]
    intro _
    rw [hasKey_false_iff]
    intro e he hpe
    have hke : e.1 ∈ items.map (·.1) := List.mem_map.2 ⟨e, he, rfl⟩
    have hrel := hk.relative e.1 hke
    have hsw : (parse k).startsWith (parse e.1) = true := by
      rw [startsWith_rel hrel h2, hpe]; exact hpre
    have := hk.prefixFree e.1 hke k hmem hsw
    rw [hpe] at this
    exact hne (congrArg P.comps this)
  have hd : descendantInStore items (parse k) = false := by
    unfold descendantInStore
    rw [List.any_eq_false]
    intro e he
    have hke : e.1 ∈ items.map (·.1) := List.mem_map.2 ⟨e, he, rfl⟩
    simp only [Bool.and_eq_true, bne_iff_ne, ne_eq, not_and, Decidable.not_not]
    intro hsw
    exact (hk.prefixFree k hmem e.1 hke hsw).symm
  unfold validateData
  have : k.isEmpty = false := by cases k <;> simp_all
  simp [this, h2, ha, hd]

/-- **data files: written byte-identical and read back.**  For every list of data entries whose embedding satisfies
    the store invariant (what `DataStore::insert` maintains, C16 `store_inv_reachable`) with plain keys, on every file
    system in which the target's ancestors are directories and nothing lies below `<target>/data` (the state after the
    wipe): the data half of the save plan runs without error; afterwards the file of every entry holds exactly the
    entry's bytes; and the lazily listed store over that file system returns exactly those bytes at the first access
    to every key. -/
theorem data_files_roundtrip (β : String → C16.Bytes) (d : List (String × String))
    (hinv : Inv (embStore .data β d))
    (hplain : ∀ k ∈ keys (embStore .data β d), (parse k).allNormal = true)
    (t : APath) (fs : FS StoreOrder.Bytes)
    (hT : ∀ m, m <+: t → m ≠ [] → isDir fs m = true)
    (hfresh : ∀ q, (t ++ [C16.storeDirName .data]) <+: q → node fs q = none) :
    ∃ fs', runEffs (((embWrites .data β d).map fun w => (parse w.key, w.bytes)).flatMap (planDataItem t)) fs = (none, fs') ∧
      (∀ e ∈ d, diskOf fs' (t ++ [C16.storeDirName .data]) e.1.toList = some (β e.2)) ∧
      (∀ e ∈ d, (C16.get (lazyStore .data d) (diskOf fs' (t ++ [C16.storeDirName .data])) e.1.toList).2 = some (Except.ok (β e.2))) := by
  obtain ⟨f1, f2, r1, r2, _, hnode⟩ :=
    store_plan_eq_writeAll (embStore .data β d) hinv hplain t fs _ _ (writesOf_emb .data β d) (List.Perm.refl _) hT hfresh
  have hf : f1 = f2 := by rw [r1] at r2; exact (Prod.mk.inj r2).2
  subst hf
  have hdisk : ∀ e ∈ d, diskOf f1 (t ++ [C16.storeDirName .data]) e.1.toList = some (β e.2) := by
    intro e he
    have := hnode ⟨.data, e.1.toList, β e.2⟩ (List.mem_map.2 ⟨e, he, rfl⟩)
    simp only at this
    simp [diskOf, this]
  refine ⟨f1, r1, hdisk, ?_⟩
  intro e he
  -- the key is stored, nothing is loaded yet: the first access reads the disk and validates
  have hkeys : KeysOK .data ((lazyStore .data d).items.map (·.1)) := by
    have := hinv.keysOK
    rw [← keys_lazy .data β d] at this
    exact this
  have hmem : e.1.toList ∈ (lazyStore .data d).items.map (·.1) := by
    simp only [lazyStore, List.map_map, List.mem_map, Function.comp_def]
    exact ⟨e, he, rfl⟩
  have hfind : ∃ k0, find? (lazyStore .data d).items e.1.toList = some (k0, .notLoaded) := by
    unfold find?
    have hsome : ((lazyStore .data d).items.find? fun x => parse x.1 == parse e.1.toList).isSome = true := by
      rw [List.find?_isSome]
      exact ⟨(e.1.toList, .notLoaded), by simp only [lazyStore, List.mem_map]; exact ⟨e, he, rfl⟩, by simp⟩
    obtain ⟨x, hx⟩ := Option.isSome_iff_exists.1 hsome
    have hxm := List.mem_of_find?_eq_some hx
    simp only [lazyStore, List.mem_map] at hxm
    obtain ⟨e', _, rfl⟩ := hxm
    exact ⟨_, hx⟩
  obtain ⟨k0, hk0⟩ := hfind
  have hget := (lazy_get_is_disk_at_first_access (lazyStore .data d) (diskOf f1 (t ++ [C16.storeDirName .data])) e.1.toList k0 hk0).1
  rw [hget]
  have hv : validateData e.1.toList (lazyStore .data d).items = .ok () := validateData_of_keysOK hkeys hmem
  simp [loadItem, hdisk e he, validate, lazyStore, cellResult] at hv ⊢
  simp [hv]

/-- **image files: written byte-identical** (full), **read back** (partial: no wrong bytes) -/
theorem image_files_roundtrip_partial (β : String → C16.Bytes) (d : List (String × String))
    (hinv : Inv (embStore .image β d))
    (hplain : ∀ k ∈ keys (embStore .image β d), (parse k).allNormal = true)
    (t : APath) (fs : FS StoreOrder.Bytes)
    (hT : ∀ m, m <+: t → m ≠ [] → isDir fs m = true)
    (hfresh : ∀ q, (t ++ [C16.storeDirName .image]) <+: q → node fs q = none) :
    ∃ fs', runEffs (planImages t ((embWrites .image β d).map fun w => (parse w.key, w.bytes))) fs = (none, fs') ∧
      (∀ e ∈ d, diskOf fs' (t ++ [C16.storeDirName .image]) e.1.toList = some (β e.2)) ∧
      (∀ e ∈ d, ∀ b, (C16.get (lazyStore .image d) (diskOf fs' (t ++ [C16.storeDirName .image])) e.1.toList).2 = some (Except.ok b) →
        b = β e.2) := by
  have hk := (writesOf_spec (embStore .image β d) _ (writesOf_emb .image β d)).1
  have hmemk : ∀ w ∈ embWrites .image β d, w.key ∈ keys (embStore .image β d) :=
    fun w hw => hk ▸ List.mem_map.2 ⟨w, hw, rfl⟩
  have hdist : (embWrites .image β d).Pairwise fun a b => parse a.key ≠ parse b.key := by
    have := hinv.keysOK.distinct
    unfold List.Nodup at this
    rw [← hk, List.map_map, List.pairwise_map] at this
    exact this
  obtain ⟨hpw, f1, r1, t1⟩ :=
    image_plan_runs_of (embStore .image β d) hinv rfl hplain t fs (embWrites .image β d) hmemk hdist hT hfresh
  have hdisk : ∀ e ∈ d, diskOf f1 (t ++ [C16.storeDirName .image]) e.1.toList = some (β e.2) := by
    intro e he
    have := writeAll_lookup (treeOf fs) _ hpw (destOf (t ++ [C16.storeDirName .image]) e.1.toList, β e.2)
      (List.mem_map.2 ⟨⟨.image, e.1.toList, β e.2⟩, List.mem_map.2 ⟨e, he, rfl⟩, rfl⟩)
    rw [← t1] at this
    simp only [treeOf] at this
    cases hn : node f1 (destOf (t ++ [C16.storeDirName .image]) e.1.toList) with
    | none => rw [hn] at this; simp at this
    | some n =>
      rw [hn] at this
      cases n with
      | dir => simp [conv] at this
      | file b => simp [conv] at this; simp [diskOf, hn, this]
  refine ⟨f1, r1, hdisk, ?_⟩
  intro e he b hb
  -- whatever the first access returns as bytes is what the disk holds (C16), and the disk holds the written bytes
  cases hfind : find? (lazyStore .image d).items e.1.toList with
  | none => simp [C16.get, hfind] at hb
  | some x =>
    have hxm := List.mem_of_find?_eq_some (by unfold find? at hfind; exact hfind)
    simp only [lazyStore, List.mem_map] at hxm
    obtain ⟨e', _, rfl⟩ := hxm
    have := (lazy_get_is_disk_at_first_access (lazyStore .image d) (diskOf f1 (t ++ [C16.storeDirName .image]))
      e.1.toList _ hfind).2 b hb
    rw [hdisk e he] at this
    exact (Option.some.inj this).symm

theorem noDirPart_of_flat {p : P} (h2 : p.abs = false) (h : p.comps.length = 1) : hasDirPart p = false := by
  unfold hasDirPart P.parent?
  have hne : p.comps.isEmpty = false := by cases hc : p.comps <;> simp_all
  have hd : p.comps.dropLast = [] := by
    cases hc : p.comps with
    | nil => simp [hc] at h
    | cons a r => cases r with
      | nil => rfl
      | cons b r' => simp [hc] at h
  simp [hne, P.isEmpty, h2, hd]

/-- **image files: written byte-identical and read back** (full): the image validation of the read passes because the
    key is flat (store invariant) and the bytes are the written ones, which start with the PNG signature (invariant) -/
theorem image_files_roundtrip (β : String → C16.Bytes) (d : List (String × String))
    (hinv : Inv (embStore .image β d))
    (hplain : ∀ k ∈ keys (embStore .image β d), (parse k).allNormal = true)
    (t : APath) (fs : FS StoreOrder.Bytes)
    (hT : ∀ m, m <+: t → m ≠ [] → isDir fs m = true)
    (hfresh : ∀ q, (t ++ [C16.storeDirName .image]) <+: q → node fs q = none) :
    ∃ fs', runEffs (planImages t ((embWrites .image β d).map fun w => (parse w.key, w.bytes))) fs = (none, fs') ∧
      (∀ e ∈ d, diskOf fs' (t ++ [C16.storeDirName .image]) e.1.toList = some (β e.2)) ∧
      (∀ e ∈ d, (C16.get (lazyStore .image d) (diskOf fs' (t ++ [C16.storeDirName .image])) e.1.toList).2 =
        some (Except.ok (β e.2))) := by
  obtain ⟨f1, r1, hdisk, _⟩ := image_files_roundtrip_partial β d hinv hplain t fs hT hfresh
  refine ⟨f1, r1, hdisk, ?_⟩
  intro e he
  have hkey : e.1.toList ∈ keys (embStore .image β d) := by
    simp only [keys, embStore, List.map_map, List.mem_map, Function.comp_def]
    exact ⟨e, he, rfl⟩
  have hfind : ∃ k0, find? (lazyStore .image d).items e.1.toList = some (k0, .notLoaded) := by
    unfold find?
    have hsome : ((lazyStore .image d).items.find? fun x => parse x.1 == parse e.1.toList).isSome = true := by
      rw [List.find?_isSome]
      exact ⟨(e.1.toList, .notLoaded), by simp only [lazyStore, List.mem_map]; exact ⟨e, he, rfl⟩, by simp⟩
    obtain ⟨x, hx⟩ := Option.isSome_iff_exists.1 hsome
    have hxm := List.mem_of_find?_eq_some hx
    simp only [lazyStore, List.mem_map] at hxm
    obtain ⟨e', _, rfl⟩ := hxm
    exact ⟨_, hx⟩
  obtain ⟨k0, hk0⟩ := hfind
  rw [(lazy_get_is_disk_at_first_access (lazyStore .image d) _ e.1.toList k0 hk0).1]
  have h1 := hinv.keysOK.nonEmpty _ hkey
  have h2 := hinv.keysOK.relative _ hkey
  have h3 := noDirPart_of_flat h2 (hinv.keysOK.imageFlat rfl _ hkey)
  have hpng : pngSig.isPrefixOf (β e.2) = true := by
    have := hinv.imagePng rfl (e.1.toList, .loaded (β e.2))
      (by simp only [embStore, List.mem_map]; exact ⟨e, he, rfl⟩) (β e.2) rfl
    exact List.isPrefixOf_iff_prefix.2 this
  have hne : e.1.toList.isEmpty = false := by cases hc : e.1.toList <;> simp_all
  simp [loadItem, hdisk e he, validate, lazyStore, validateImage, validateImagePath, hne, h2, h3, hpng, cellResult]

/-- the order in which the hash map hands out the keys does not matter for what a complete iteration loads
    (C16 `iter_any_hash_order`, restated for the lazily listed store) -/
theorem lazy_iter_any_order (kind : C16.Kind) (β : String → C16.Bytes) (d : List (String × String))
    (hinv : Inv (embStore kind β d)) (disk : Disk) (ks : List Key) (hp : ks.Perm (keys (lazyStore kind d))) :
    (iterFrom (lazyStore kind d) disk ks).1 = (iter (lazyStore kind d) disk).1 := by
  have hl : Inv (lazyStore kind d) := by
    refine ⟨?_, ?_⟩
    · have := hinv.keysOK
      rw [← keys_lazy kind β d] at this
      exact this
    · intro _ e he b hb
      simp only [lazyStore, List.mem_map] at he
      obtain ⟨e', _, rfl⟩ := he
      cases hb
  exact (iter_any_hash_order (lazyStore kind d) hl disk ks hp).1

end RT.Bridge
