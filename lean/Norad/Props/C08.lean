import Norad.Model.FontSave
import Norad.Lemmas.FontSave
import Norad.Lemmas.Inplace
import Norad.Generated.SaveOrder
import Norad.Lemmas.SaveTable
/-!
# C08 — save validates before it destroys; saving in place keeps lazy data

Model: `FontSave.saveImpl` (`Font::save_impl`, font.rs:423-556) over the abstract file system.
All theorems hold for every content type, every `render`, every entry validator, every font, every
file system and every target path.
-/
namespace C08
open AbsFS FontSave FontLoad

variable {β : Type}

/-- **Structural core.** Any refusal produced by steps 1–5 (format version, `public.objectLibs`, groups,
    font info, a store cell in error state) is the whole result, and comes with the input file system. -/
theorem refusal_has_no_effects (cfg : Cfg β) (f : AFont β) (fs : FS β) (t : APath) (k : Refusal)
    (h : validatePhase cfg f fs = .error k) :
    saveImpl cfg f fs t = (some (.refused k), fs) := by
  simp [saveImpl, h]

/-- Conversely: if the file system was changed at all, every validator had passed and every data and
    image cell had been forced to `loaded` before the first effect. -/
theorem effects_only_after_validation (cfg : Cfg β) (f : AFont β) (fs : FS β) (t : APath)
    (h : (saveImpl cfg f fs t).2 ≠ fs) :
    f.version = 3 ∧ hasObjectLibsKey f.lib = false ∧ f.groupsValid = true ∧ f.info.valid = true ∧
    (forceStore cfg .data fs f.data).isSome ∧ (forceStore cfg .images fs f.images).isSome := by
  cases hv : validatePhase cfg f fs with
  | error k => exact absurd (by simp [saveImpl, hv]) h
  | ok di => exact validatePhase_ok hv

/-- the five refusal kinds of the statement, one theorem each: the save is refused (by that kind or by an
    earlier check) and the file system is the one it was given — whatever was at the target is untouched -/
theorem refused_save_leaves_fs_version (cfg : Cfg β) (f : AFont β) (fs : FS β) (t : APath)
    (h : f.version ≠ 3) : saveImpl cfg f fs t = (some (.refused .downgrade), fs) := by
  apply refusal_has_no_effects; simp [validatePhase, h]

theorem refused_save_leaves_fs_objectLibs (cfg : Cfg β) (f : AFont β) (fs : FS β) (t : APath)
    (h : hasObjectLibsKey f.lib = true) : ∃ k, saveImpl cfg f fs t = (some (.refused k), fs) := by
  obtain ⟨k, hk⟩ := validatePhase_refuses (cfg := cfg) (f := f) (fs := fs) (Or.inr (Or.inl h))
  exact ⟨k, refusal_has_no_effects cfg f fs t k hk⟩

theorem refused_save_leaves_fs_groups (cfg : Cfg β) (f : AFont β) (fs : FS β) (t : APath)
    (h : f.groupsValid = false) : ∃ k, saveImpl cfg f fs t = (some (.refused k), fs) := by
  obtain ⟨k, hk⟩ := validatePhase_refuses (cfg := cfg) (f := f) (fs := fs) (Or.inr (Or.inr (Or.inl h)))
  exact ⟨k, refusal_has_no_effects cfg f fs t k hk⟩

/-- "invalid font info" in `FontInfo::validate`'s notion (see `refused_save_leaves_fs_fontinfo_counterexample`
    for the specification's notion) -/
theorem refused_save_leaves_fs_fontinfo_partial (cfg : Cfg β) (f : AFont β) (fs : FS β) (t : APath)
    (h : f.info.valid = false) : ∃ k, saveImpl cfg f fs t = (some (.refused k), fs) := by
  obtain ⟨k, hk⟩ := validatePhase_refuses (cfg := cfg) (f := f) (fs := fs)
    (Or.inr (Or.inr (Or.inr (Or.inl h))))
  exact ⟨k, refusal_has_no_effects cfg f fs t k hk⟩

theorem refused_save_leaves_fs_store (cfg : Cfg β) (f : AFont β) (fs : FS β) (t : APath)
    (h : forceStore cfg .data fs f.data = none ∨ forceStore cfg .images fs f.images = none) :
    ∃ k, saveImpl cfg f fs t = (some (.refused k), fs) := by
  obtain ⟨k, hk⟩ := validatePhase_refuses (cfg := cfg) (f := f) (fs := fs)
    (Or.inr (Or.inr (Or.inr (Or.inr h))))
  exact ⟨k, refusal_has_no_effects cfg f fs t k hk⟩

/-- A cell that is in error state, or is still lazy and turns out unreadable or invalid at its first
    access, is detected by step 5: the save is refused with the file system untouched — never later. -/
theorem store_error_detected_before_wipe (cfg : Cfg β) (f : AFont β) (fs : FS β) (t : APath)
    (kind : StoreKind) (k : Path.P) (c : Cell β)
    (hmem : (k, c) ∈ (f.store kind).items)
    (hbad : ∀ b, forceCell cfg kind fs (f.store kind).root ((f.store kind).items.map (·.1)) k c ≠ .loaded b) :
    ∃ r, saveImpl cfg f fs t = (some (.refused r), fs) := by
  apply refused_save_leaves_fs_store
  cases kind with
  | data => exact Or.inl (forceList_none_of_bad hmem hbad)
  | images => exact Or.inr (forceList_none_of_bad hmem hbad)

/-! ### the specification's notion of "invalid font info" is wider than `validate`'s

Full statement (false on the tree, recorded finding `guideline-angle-after-wipe`):
`f.info.valid = false ∨ f.info.serialisable = false → ∃ k, saveImpl cfg f fs t = (some (.refused k), fs)`.
A guideline angle outside [0, 360] passes `FontInfo::validate` and is refused by the serde writer while
`fontinfo.plist` is being written — after the target has been wiped. -/

def cfgN : Cfg Nat := { render := fun _ => 0, entryOk := fun _ _ _ _ => true }

def angleFont : AFont Nat :=
  { version := 3, metaTok := 1, info := { body := 7, guides := [], valid := true, serialisable := false },
    lib := [], groups := 0, groupsValid := true, kerning := 0, features := 0,
    layers := [{ name := "public.default".toList, dir := "glyphs".toList, info := 0, entries := [] }],
    data := { root := [], items := [] }, images := { root := [], items := [] } }

def precious : FS Nat := [(["t".toList], .dir), (["t".toList, "precious".toList], .file 42)]

theorem refused_save_leaves_fs_fontinfo_counterexample :
    (saveImpl cfgN angleFont precious ["t".toList]).1 = some .serialise ∧
    lookup (saveImpl cfgN angleFont precious ["t".toList]).2 ["t".toList, "precious".toList] = none := by
  decide


/-! ### saving in place keeps the lazy store data -/

/-- **In-place save.**  Load a font from `t` (everything requested), then save it onto `t`: if the save succeeds,
    every plain file below `t/data` and `t/images` holds afterwards the bytes it held before — although every
    cell of both stores was `notLoaded` when the save started (first conjunct).  It is step 5 that reads them
    before the wipe; without it the statement is false (`inplace_save_without_step5_counterexample`).
    `WF`: every ancestor of an existing path is a directory (a property of real file systems that the
    association-list representation does not enforce by itself). -/
theorem inplace_save_keeps_store_files (P : Parser β) (cfg : Cfg β) (fs fs' : FS β) (t : APath) (f : AFont β)
    (hwf : WF fs) (hload : loadImpl P fs t Request.everything = .ok f)
    (hsave : saveImpl cfg f fs t = (none, fs')) :
    (∀ kind, ∀ kc ∈ (f.store kind).items, kc.2 = Cell.notLoaded) ∧
    ∀ (kind : StoreKind) (rel : APath) (b : β), rel ≠ [] →
      lookup fs (storePath t kind rel) = some (.file b) →
      lookup fs' (storePath t kind rel) = some (.file b) := by
  obtain ⟨hld, hli⟩ := loadImpl_stores hload
  constructor
  · intro kind kc hkc
    cases kind with
    | data => exact ((loadStore_keys_shape hld).2 kc hkc).1
    | images => exact ((loadStore_keys_shape hli).2 kc hkc).1
  · intro kind rel b hrel hfile
    have hp0 : storePath t kind rel ≠ [] := by simp [storePath]
    have hdirs : ∀ m, m <+: t ++ [(storeDirName kind).toList] → m ≠ [] → isDir fs m = true := by
      intro m hm _
      apply hwf (storePath t kind rel) (by simp [hfile]) m (hm.trans (List.prefix_append _ _))
      intro e
      have h1 := hm.length_le
      have h2 : 0 < rel.length := List.length_pos_iff.mpr hrel
      rw [e] at h1
      simp only [storePath, List.length_append, List.length_cons, List.length_nil] at h1
      omega
    obtain ⟨hex, _⟩ := existsAt_of_dirs (by simp) hdirs
    have hmemL := listBelow_mem_file hrel hfile
    have hnode : node fs (storePath t kind rel) = some (.file b) := by
      rw [node_of_ne_nil _ hp0]; exact hfile
    cases kind with
    | data =>
      have hspec := loadStore_spec (kind := .data) hld hex
      exact inplace_core hld hli hsave .data rel b (hspec.2.2 rel hmemL) hnode
    | images =>
      have hspec := loadStore_spec (kind := .images) hli hex
      exact inplace_core hld hli hsave .images rel b (hspec.2.2 rel hmemL) hnode

/-- the model variant **without step 5**: the cells are forced only when the store files are about to be
    written, i.e. from the tree that has just been wiped (the validators 1–4 are irrelevant here) -/
def saveImplNoStep5 (cfg : Cfg β) (f : AFont β) (fs : FS β) (t : APath) : Option SaveErr × FS β :=
  match wipe fs t with
  | .error e => (some (.cleanup e), fs)
  | .ok fs1 =>
    match forceStore cfg .data fs1 f.data, forceStore cfg .images fs1 f.images with
    | some d, some i => runEffs (plan cfg f d i t) fs1
    | _, _ => (some .panic, (runEffs (plan cfg f [] [] t) fs1).2)

def lazyFont : AFont Nat :=
  { angleFont with
    info := { body := 0, guides := [], valid := true, serialisable := true },
    data := { root := ["t".toList], items := [(Path.parse "a".toList, .notLoaded)] } }

def withData : FS Nat :=
  [(["t".toList], .dir), (["t".toList, "data".toList], .dir), (["t".toList, "data".toList, "a".toList], .file 42)]

theorem inplace_save_without_step5_counterexample :
    lookup (saveImpl cfgN lazyFont withData ["t".toList]).2 ["t".toList, "data".toList, "a".toList] = some (.file 42) ∧
    lookup (saveImplNoStep5 cfgN lazyFont withData ["t".toList]).2 ["t".toList, "data".toList, "a".toList] = none := by
  decide

/-! ### non-vacuity -/

def parserN : Parser Nat where
  metainfo _ := some (3, 1)
  lib _ := none
  fontinfo _ := none
  groups _ := none
  kerning _ := none
  features _ := none
  layercontents _ := some [("public.default".toList, "glyphs".toList)]
  contents _ := some []
  layerinfo _ := none
  glif _ := none

def ufo : FS Nat :=
  [(["t".toList], .dir), (["t".toList, "metainfo.plist".toList], .file 0),
   (["t".toList, "layercontents.plist".toList], .file 0), (["t".toList, "glyphs".toList], .dir),
   (["t".toList, "glyphs".toList, "contents.plist".toList], .file 0),
   (["t".toList, "data".toList], .dir), (["t".toList, "data".toList, "a".toList], .file 42)]

/-- the hypotheses of the in-place theorem are satisfiable: this tree loads, and the loaded font saves onto it -/
example : ∃ f, loadImpl parserN ufo ["t".toList] Request.everything = .ok f ∧
    (saveImpl cfgN f ufo ["t".toList]).1 = none ∧
    lookup (saveImpl cfgN f ufo ["t".toList]).2 ["t".toList, "data".toList, "a".toList] = some (.file 42) :=
  ⟨_, rfl, by decide, by decide⟩


example : ∃ k, saveImpl cfgN { angleFont with version := 2 } precious ["t".toList] = (some (.refused k), precious) :=
  ⟨_, refused_save_leaves_fs_version _ _ _ _ (by decide)⟩

/-- a valid font does get through: the theorems above are not about a model that always refuses -/
example : (saveImpl cfgN { angleFont with info := { body := 0, guides := [], valid := true, serialisable := true } }
    precious ["t".toList]).1 = none := by decide

/-! ### source-level tie: the order of `Font::save_impl` as the code says it NOW

`Generated.SaveOrder.saveSteps` is regenerated from `src/font.rs` of the checked tree on every run (tools/
extract_save_order.py; pinned copy when an anchor is missing).  The model is untouched; these `decide` theorems compare
the extracted sequence with what the model does. -/

namespace Source
open Generated.SaveOrder

def pos (l : List (List Char)) (x : String) : Option Nat := l.findIdx? (· == x.toList)

def precedes (l : List (List Char)) (a b : String) : Bool :=
  match pos l a, pos l b with
  | some i, some j => i < j
  | _, _ => false

/-- the steps of `validatePhase`, i.e. everything the model does before its first effect -/
def modelValidators : List String := ["version", "objectlibs", "groups", "fontinfo", "force"]

def isWrite (x : List Char) : Bool := "write:".toList.isPrefixOf x

/-- a font with every part non-empty: its plan shows every write the model can make, in the model's order -/
def probe : AFont Nat :=
  { version := 3, metaTok := 1, info := { body := 1, guides := [], valid := true, serialisable := true },
    lib := [("k".toList, LVal.v 1)], groups := 1, groupsValid := true, kerning := 1, features := 1,
    layers := [{ name := "public.default".toList, dir := "glyphs".toList, info := 1,
                 entries := [{ name := "a".toList, file := "a.glif".toList, glyph := some { tok := 1, encodable := true } }] }],
    data := { root := [], items := [] }, images := { root := [], items := [] } }

def effComps : Eff Nat → List Path.Comp
  | .mkdir cs => cs
  | .mkdirAll cs => cs
  | .write cs _ => cs
  | .fail _ => []

/-- the component right below the target names the part being written -/
def labelOf (cs : List Path.Comp) : Option (List Char) :=
  match cs with
  | _ :: .normal n :: _ => some (if n = "glyphs".toList then "write:layers".toList else "write:".toList ++ n)
  | _ => none

def dedupL (l : List (List Char)) : List (List Char) :=
  l.foldl (fun acc x => if acc.contains x then acc else acc ++ [x]) []

/-- the order in which the model's `plan` touches the parts of a UFO -/
def planOrder : List (List Char) :=
  dedupL ((plan cfgN probe [(Path.parse "a".toList, 1)] [(Path.parse "i.png".toList, 2)] ["t".toList]).filterMap
    fun e => labelOf (effComps e))

end Source

/-! #### the extracted step list, run against the model -/

namespace Source

def W : List Char := "wipe".toList

def isValidatorName (s : List Char) : Bool := modelValidators.any fun v => v.toList == s

/-- what a validator step of the extracted list checks, in the model's terms (`none`: not a validator step) -/
def checkOf (cfg : Cfg β) (f : AFont β) (fs : FS β) (s : List Char) : Option (Option Refusal) :=
  if s = "version".toList then some (if f.version ≠ 3 then some .downgrade else none)
  else if s = "objectlibs".toList then some (if hasObjectLibsKey f.lib then some .objectLibsKey else none)
  else if s = "groups".toList then some (if !f.groupsValid then some .invalidGroups else none)
  else if s = "fontinfo".toList then some (if !f.info.valid then some .invalidFontInfo else none)
  else if s = "force".toList then
    some (if (forceStore cfg .data fs f.data).isSome && (forceStore cfg .images fs f.images).isSome then none
          else some .invalidStoreEntry)
  else none

/-- The extracted step list run against the model: the validators in SOURCE order; at the wipe the model's wipe and
    plan take over.  A step in front of the wipe that is not a validator (`fs:<call>`, `return-ok`, anything) is an
    effect the model knows nothing about: `unknown` may do to the file system whatever it likes. -/
def execSteps (cfg : Cfg β) (f : AFont β) (t : APath) (unknown : List Char → FS β → FS β) :
    List (List Char) → FS β → Option SaveErr × FS β
  | [], fs => (none, fs)
  | s :: r, fs =>
    if s = W then
      match forceStore cfg .data fs f.data, forceStore cfg .images fs f.images with
      | some d, some i =>
        match wipe fs t with
        | .error e => (some (.cleanup e), fs)
        | .ok fs1 => runEffs (plan cfg f d i t) fs1
      | _, _ => (some .panic, fs)
    else
      match checkOf cfg f fs s with
      | some (some k) => (some (.refused k), fs)
      | some none => execSteps cfg f t unknown r fs
      | none => execSteps cfg f t unknown r (unknown s fs)

theorem checkOf_isSome (cfg : Cfg β) (f : AFont β) (fs : FS β) (s : List Char) (h : isValidatorName s = true) :
    ∃ x, checkOf cfg f fs s = some x := by
  unfold isValidatorName modelValidators at h
  simp only [List.any_cons, List.any_nil, Bool.or_false, Bool.or_eq_true, beq_iff_eq] at h
  unfold checkOf
  rcases h with h | h | h | h | h <;> subst h <;> simp <;> decide

/-- general form: if everything in front of the wipe is a validator and one of them fails, the outcome is a refusal
    with the file system the call was given — whatever unknown steps might do -/
theorem exec_prefix_refuses (cfg : Cfg β) (f : AFont β) (t : APath) (unknown : List Char → FS β → FS β) (fs : FS β) :
    ∀ (steps : List (List Char)),
      (∀ s ∈ steps.takeWhile (· != W), isValidatorName s = true) →
      (∃ s ∈ steps.takeWhile (· != W), ∃ k, checkOf cfg f fs s = some (some k)) →
      ∃ k, execSteps cfg f t unknown steps fs = (some (.refused k), fs) := by
  intro steps
  induction steps with
  | nil => intro _ h; obtain ⟨s, hs, _⟩ := h; cases hs
  | cons s r ih =>
    intro hall hfail
    by_cases hw : s = W
    · subst hw
      obtain ⟨x, hx, _⟩ := hfail
      simp [List.takeWhile] at hx
    · have hne : (s != W) = true := by simpa using hw
      simp only [List.takeWhile, hne] at hall hfail
      obtain ⟨x, hx⟩ := checkOf_isSome cfg f fs s (hall s (List.mem_cons_self ..))
      unfold execSteps
      simp only [hw, if_false, hx]
      cases x with
      | some k => exact ⟨k, rfl⟩
      | none =>
        apply ih (fun y hy => hall y (List.mem_cons_of_mem _ hy))
        obtain ⟨y, hy, k, hk⟩ := hfail
        rcases List.mem_cons.mp hy with rfl | hy'
        · rw [hx] at hk; cases hk
        · exact ⟨y, hy', k, hk⟩

end Source

open Source Generated.SaveOrder in
/-- **`source_plan_refusal_has_no_effect`** — about the step list extracted from the source: every step in front of the
    wipe is a validator, hence (semantic consequence) whenever one of those steps refuses, running the extracted list
    yields a refusal together with the file system it was given; no interpretation of unknown steps can change that. -/
theorem source_plan_refusal_has_no_effect :
    (∀ s ∈ saveSteps.takeWhile (· != W), isValidatorName s = true) ∧
    ∀ {β : Type} (cfg : Cfg β) (f : AFont β) (t : APath) (unknown : List Char → FS β → FS β) (fs : FS β),
      (∃ s ∈ saveSteps.takeWhile (· != W), ∃ k, checkOf cfg f fs s = some (some k)) →
      ∃ k, execSteps cfg f t unknown saveSteps fs = (some (.refused k), fs) := by
  have h : ∀ s ∈ saveSteps.takeWhile (· != W), isValidatorName s = true := by decide
  exact ⟨h, fun cfg f t unknown fs hf => exec_prefix_refuses cfg f t unknown fs saveSteps h hf⟩

open Source Generated.SaveOrder in
/-- … and the extracted list refuses whenever the model does: each of the model's five validators is one of the steps
    in front of the wipe, so `validatePhase = error` makes one of them fail. -/
theorem source_refuses_whenever_model_does {β : Type} (cfg : Cfg β) (f : AFont β) (t : APath)
    (unknown : List Char → FS β → FS β) (fs : FS β) (k : Refusal) (hv : validatePhase cfg f fs = .error k) :
    ∃ k', execSteps cfg f t unknown saveSteps fs = (some (.refused k'), fs) := by
  have hmem : ∀ v ∈ modelValidators, v.toList ∈ saveSteps.takeWhile (· != W) := by decide
  apply (source_plan_refusal_has_no_effect).2 cfg f t unknown fs
  -- which validator of the model fails
  by_cases h1 : f.version = 3
  · cases h2 : hasObjectLibsKey f.lib
    · cases h3 : f.groupsValid
      · exact ⟨_, hmem "groups" (by decide), .invalidGroups, by simp [checkOf, h3]⟩
      · cases h4 : f.info.valid
        · exact ⟨_, hmem "fontinfo" (by decide), .invalidFontInfo, by simp [checkOf, h4]⟩
        · refine ⟨_, hmem "force" (by decide), .invalidStoreEntry, ?_⟩
          have : ¬ ((forceStore cfg .data fs f.data).isSome = true ∧ (forceStore cfg .images fs f.images).isSome = true) := by
            intro ⟨ha, hb⟩
            cases hd : forceStore cfg .data fs f.data with
            | none => simp [hd] at ha
            | some d =>
              cases hi : forceStore cfg .images fs f.images with
              | none => simp [hi] at hb
              | some i => simp [validatePhase, h1, h2, h3, h4, hd, hi] at hv
          simp [checkOf, this]
    · exact ⟨_, hmem "objectlibs" (by decide), .objectLibsKey, by simp [checkOf, h2]⟩
  · exact ⟨_, hmem "version" (by decide), .downgrade, by simp [checkOf, h1]⟩

open Source Generated.SaveOrder in
/-- **In the source, every validation step stands before `remove_dir_all`** — and nothing else does: the steps in front
    of the wipe are exactly the model's five validators (in any order among themselves), the wipe stands before
    `create_dir(path)`, and every write after that.  The extractor reads the part in front of the wipe strictly (every
    statement is a validator of known shape or a listed pure binding; a file-system call there becomes a step `fs:<call>`,
    an early `return Ok(..)` anywhere a step `return-ok`), so nothing in front of the wipe is silently ignored. -/
theorem source_validators_precede_wipe :
    (modelValidators.all fun v => precedes saveSteps v "wipe") = true ∧
    ((saveSteps.takeWhile (· != "wipe".toList)).all fun s => modelValidators.any fun v => v.toList == s) = true ∧
    precedes saveSteps "wipe" "mkdir" = true ∧
    ((saveSteps.filter isWrite).all fun w => precedes saveSteps "mkdir" (String.ofList w)) = true ∧
    -- no early `return Ok(..)` anywhere (a write behind it would be unreachable), no file-system call in front of the wipe
    (saveSteps.all fun s => s != "return-ok".toList) = true ∧
    ((saveSteps.takeWhile (· != "wipe".toList)).all fun s => !("fs:".toList.isPrefixOf s)) = true := by
  decide

open Source Generated.SaveOrder in
/-- **The write order of the source is the order of the model's `plan`** (metainfo, fontinfo, lib, groups, kerning,
    features, layercontents, layers, data, images), and the source has no write the plan does not make. -/
theorem source_save_order_matches_plan : saveSteps.filter isWrite = planOrder := by
  decide

/-! ### source-level tie: the CONDITIONS of the steps of `save_impl`, as the code says them NOW

`Generated.SaveOrder.saveTable` holds every top-level statement of `fn save_impl` as rows (guard atoms, step): what is
refused on which test, `path.exists()` -> `remove_dir_all`, the unconditional `create_dir`, every write with its
`if !self.x.is_empty()` gate, the two local variables the lib gate reads.  `Lemmas/SaveTable.lean` gives every atom and
step the model knows its meaning in the model's terms and runs rows against the abstract file system (`execRows`). -/

open Source Generated.SaveOrder in
/-- the regenerated table, word for word, is the model's table (`Lemmas/SaveTable.lean`, kernel-evaluated) -/
theorem source_save_table_parses : parseTable saveTable = some modelRows := saveTable_parses

open Source Generated.SaveOrder in
/-- **`saveImpl` IS the regenerated table**: the table parses (every guard atom and every step is one the model has a
    meaning for) and running its rows - first refusing row in front of the wipe, the wipe under its guard, the rows behind
    it as a plan of effects, each under its guard atoms - gives the outcome and the file system of the model's `saveImpl`,
    for every font, file system and target, and for both values of the two facts the model does not look at (default
    creator, carriage return in the feature text). -/
theorem source_save_table_eq_model {β : Type} (cfg : Cfg β) (f : AFont β) (fs : FS β) (t : APath) (creator cr : Bool) :
    (parseTable saveTable).map (fun rows => execRows rows cfg f fs t creator cr) = some (saveImpl cfg f fs t) := by
  have h : parseTable saveTable = some modelRows := saveTable_parses
  rw [h]
  simp [execRows_model]

open Source Generated.SaveOrder in
/-- what the table says about refusals, spelled out: the rows in front of the `remove_dir_all` row are refusals only (no
    other step, hence no effect), and a refusing row leaves the file system it was given -/
theorem source_table_refusals_precede_wipe :
    ((parseTable saveTable).map fun rows =>
      (rows.takeWhile (!isWipe ·)).all fun r => match r.2 with
        | .refuse _ => true
        | _ => false) = some true ∧
    ∀ {β : Type} (cfg : Cfg β) (f : AFont β) (fs : FS β) (t : APath) (creator cr : Bool) (k : Refusal),
      (parseTable saveTable).map (fun rows => firstRefusal cfg f fs (rows.takeWhile (!isWipe ·))) = some (some k) →
      (parseTable saveTable).map (fun rows => execRows rows cfg f fs t creator cr) = some (some (.refused k), fs) := by
  have h : parseTable saveTable = some modelRows := saveTable_parses
  refine ⟨by rw [h]; decide, ?_⟩
  intro β cfg f fs t creator cr k hk
  rw [h] at hk ⊢
  simp only [Option.map_some, Option.some.injEq] at hk ⊢
  unfold execRows
  rw [hk]

/-- non-vacuity: the interpreter runs - a refused save, and a save that wipes a pre-existing target -/
example :
    (Source.execRows Source.modelRows cfgN angleFont precious ["t".toList] true false).1 = (saveImpl cfgN angleFont precious ["t".toList]).1 ∧
    (Source.execRows Source.modelRows cfgN { angleFont with info := { body := 0, guides := [], valid := true, serialisable := true } }
      precious ["t".toList] true false).1 = none := by decide

end C08
