import Norad.Model.FontSave
import Norad.Lemmas.FontSave
/-!
# C08 — save validates before it destroys; saving in place keeps lazy data

Model: `FontSave.saveImpl` (`Font::save_impl`, font.rs:423-556) over the abstract file system.
All theorems hold for every content type, every `render`, every entry validator, every font, every
file system and every target path.
-/
namespace C08
open AbsFS FontSave

variable {β : Type}

/-- **Structural core.** Any refusal produced by steps 1–5 (format version, `public.objectLibs`, groups,
    font info, a store cell in error state) is the whole result, and comes with the input file system. -/
theorem refusal_has_no_effects (cfg : Cfg β) (f : AFont β) (fs : FS β) (t : APath) (k : Refusal)
    (h : validatePhase cfg f fs = .error k) :
    saveImpl cfg f fs t = (some (.refused k), fs) := by
  simp [saveImpl, h]

/-- Conversely: if the file system was changed at all, every validator had passed and every data and
    image cell had been forced to `loaded` before the first effect. -/
theorem effects_only_after_validation (cfg : Cfg β) (f : AFont β) (fs : FS β) (t : APath)
    (h : (saveImpl cfg f fs t).2 ≠ fs) :
    f.version = 3 ∧ hasObjectLibsKey f.lib = false ∧ f.groupsValid = true ∧ f.info.valid = true ∧
    (forceStore cfg .data fs f.data).isSome ∧ (forceStore cfg .images fs f.images).isSome := by
  cases hv : validatePhase cfg f fs with
  | error k => exact absurd (by simp [saveImpl, hv]) h
  | ok di => exact validatePhase_ok hv

/-- the five refusal kinds of the statement, one theorem each: the save is refused (by that kind or by an
    earlier check) and the file system is the one it was given — whatever was at the target is untouched -/
theorem refused_save_leaves_fs_version (cfg : Cfg β) (f : AFont β) (fs : FS β) (t : APath)
    (h : f.version ≠ 3) : saveImpl cfg f fs t = (some (.refused .downgrade), fs) := by
  apply refusal_has_no_effects; simp [validatePhase, h]

theorem refused_save_leaves_fs_objectLibs (cfg : Cfg β) (f : AFont β) (fs : FS β) (t : APath)
    (h : hasObjectLibsKey f.lib = true) : ∃ k, saveImpl cfg f fs t = (some (.refused k), fs) := by
  obtain ⟨k, hk⟩ := validatePhase_refuses (cfg := cfg) (f := f) (fs := fs) (Or.inr (Or.inl h))
  exact ⟨k, refusal_has_no_effects cfg f fs t k hk⟩

theorem refused_save_leaves_fs_groups (cfg : Cfg β) (f : AFont β) (fs : FS β) (t : APath)
    (h : f.groupsValid = false) : ∃ k, saveImpl cfg f fs t = (some (.refused k), fs) := by
  obtain ⟨k, hk⟩ := validatePhase_refuses (cfg := cfg) (f := f) (fs := fs) (Or.inr (Or.inr (Or.inl h)))
  exact ⟨k, refusal_has_no_effects cfg f fs t k hk⟩

/-- "invalid font info" in `FontInfo::validate`'s notion (see `refused_save_leaves_fs_fontinfo_counterexample`
    for the specification's notion) -/
theorem refused_save_leaves_fs_fontinfo_partial (cfg : Cfg β) (f : AFont β) (fs : FS β) (t : APath)
    (h : f.info.valid = false) : ∃ k, saveImpl cfg f fs t = (some (.refused k), fs) := by
  obtain ⟨k, hk⟩ := validatePhase_refuses (cfg := cfg) (f := f) (fs := fs)
    (Or.inr (Or.inr (Or.inr (Or.inl h))))
  exact ⟨k, refusal_has_no_effects cfg f fs t k hk⟩

theorem refused_save_leaves_fs_store (cfg : Cfg β) (f : AFont β) (fs : FS β) (t : APath)
    (h : forceStore cfg .data fs f.data = none ∨ forceStore cfg .images fs f.images = none) :
    ∃ k, saveImpl cfg f fs t = (some (.refused k), fs) := by
  obtain ⟨k, hk⟩ := validatePhase_refuses (cfg := cfg) (f := f) (fs := fs)
    (Or.inr (Or.inr (Or.inr (Or.inr h))))
  exact ⟨k, refusal_has_no_effects cfg f fs t k hk⟩

/-- A cell that is in error state, or is still lazy and turns out unreadable or invalid at its first
    access, is detected by step 5: the save is refused with the file system untouched — never later. -/
theorem store_error_detected_before_wipe (cfg : Cfg β) (f : AFont β) (fs : FS β) (t : APath)
    (kind : StoreKind) (k : Path.P) (c : Cell β)
    (hmem : (k, c) ∈ (f.store kind).items)
    (hbad : ∀ b, forceCell cfg kind fs (f.store kind).root ((f.store kind).items.map (·.1)) k c ≠ .loaded b) :
    ∃ r, saveImpl cfg f fs t = (some (.refused r), fs) := by
  apply refused_save_leaves_fs_store
  cases kind with
  | data => exact Or.inl (forceList_none_of_bad hmem hbad)
  | images => exact Or.inr (forceList_none_of_bad hmem hbad)

/-! ### the specification's notion of "invalid font info" is wider than `validate`'s

Full statement (false on the tree, recorded finding `guideline-angle-after-wipe`):
`f.info.valid = false ∨ f.info.serialisable = false → ∃ k, saveImpl cfg f fs t = (some (.refused k), fs)`.
A guideline angle outside [0, 360] passes `FontInfo::validate` and is refused by the serde writer while
`fontinfo.plist` is being written — after the target has been wiped. -/

def cfgN : Cfg Nat := { render := fun _ => 0, entryOk := fun _ _ _ _ => true }

def angleFont : AFont Nat :=
  { version := 3, metaTok := 1, info := { body := 7, guides := [], valid := true, serialisable := false },
    lib := [], groups := 0, groupsValid := true, kerning := 0, features := 0,
    layers := [{ name := "public.default".toList, dir := "glyphs".toList, info := 0, entries := [] }],
    data := { root := [], items := [] }, images := { root := [], items := [] } }

def precious : FS Nat := [(["t".toList], .dir), (["t".toList, "precious".toList], .file 42)]

theorem refused_save_leaves_fs_fontinfo_counterexample :
    (saveImpl cfgN angleFont precious ["t".toList]).1 = some .serialise ∧
    lookup (saveImpl cfgN angleFont precious ["t".toList]).2 ["t".toList, "precious".toList] = none := by
  decide

/-! ### non-vacuity -/

example : ∃ k, saveImpl cfgN { angleFont with version := 2 } precious ["t".toList] = (some (.refused k), precious) :=
  ⟨_, refused_save_leaves_fs_version _ _ _ _ (by decide)⟩

/-- a valid font does get through: the theorems above are not about a model that always refuses -/
example : (saveImpl cfgN { angleFont with info := { body := 0, guides := [], valid := true, serialisable := true } }
    precious ["t".toList]).1 = none := by decide

end C08
