import Norad.Props.C08
import Norad.Props.C13
import Norad.Props.C15
/-!
# C08 ∘ C13 — "invalid font info" in the specification's sense is refused before the target is touched

`Props/C08.lean` carries font-info validity as two abstract flags of the saved font (`info.valid` = what
`FontInfo::validate` says, `info.serialisable` = what the writer of `fontinfo.plist` accepts) and proves
`refused_save_leaves_fs_fontinfo_partial` for `validate`'s notion.  `Props/C13.lean` proves, for the model of
`FontInfo::validate` after the repair, `validate_iff_rules` (accepted iff the specification's rules hold) and
that the writer never refuses what `validate` accepted.  This file glues the two: when the flags are those
of a C13 font info `i`, a font info that breaks a rule makes the save fail with the file system untouched,
and the late failure of the unrepaired tree (`refused_save_leaves_fs_fontinfo_counterexample`) cannot occur.
-/
namespace C08
open AbsFS FontSave FontLoad

/-- the two abstract flags of the save model are those of the font info `i` -/
structure FlagsOf (i : C13.Info) (a : AInfo) : Prop where
  valid : a.valid = true ↔ C13.validate i = .ok
  serialisable : a.serialisable = true ↔ C13.serializeInfo i = .ok

/-- **the fourth refusal kind at full strength**: a font info that violates one of the specification's
    rules (date shape and ranges, gasp order, guideline identifiers and angles, selection bits, family class,
    blue/stem list limits, WOFF records) is refused with the file system exactly as it was -/
theorem refused_save_leaves_fs_fontinfo (cfg : Cfg β) (f : AFont β) (fs : FS β) (t : APath) (i : C13.Info)
    (hf : FlagsOf i f.info) (hbad : ¬ C13.Rules i) :
    ∃ k, saveImpl cfg f fs t = (some (.refused k), fs) := by
  apply refused_save_leaves_fs_fontinfo_partial
  cases hv : f.info.valid with
  | false => rfl
  | true => exact absurd ((C13.validate_iff_rules i).1 (hf.valid.1 hv)) hbad

/-- whatever passes `validate` is also written: with the repaired `validate` the flags of a real font info
    never have `valid` without `serialisable`, which is the only way the abstract save model can fail late
    in `fontinfo.plist` -/
theorem valid_info_is_serialisable (i : C13.Info) (a : AInfo) (hf : FlagsOf i a) (hv : a.valid = true) :
    a.serialisable = true := by
  have hr := (C13.validate_iff_rules i).1 (hf.valid.1 hv)
  exact hf.serialisable.2 ((C13.serializeInfo_spec i).2.2 hr.angles)


/-! ### the same glue for kerning groups (C15) -/

/-- **the third refusal kind at full strength**: when the abstract flag is what `validate_groups` says of
    the groups `g`, groups in which a glyph belongs to two first-side or two second-side kerning groups, or
    with a kerning-group name that is only the prefix, are refused with the file system exactly as it was -/
theorem refused_save_leaves_fs_groups_spec (cfg : Cfg β) (f : AFont β) (fs : FS β) (t : APath)
    (g : Kern.Groups) (hf : f.groupsValid = true ↔ Kern.validateGroups g = .ok ())
    (hbad : ¬ KernSpec.ValidGroups g) : ∃ k, saveImpl cfg f fs t = (some (.refused k), fs) := by
  apply refused_save_leaves_fs_groups
  cases hv : f.groupsValid with
  | false => rfl
  | true => exact absurd ((Kern.validate_iff g).1 (hf.1 hv)) hbad

end C08
